/-
C04 — discharging `RepsAgree`, part 2: labels, sort keys and non-scopal arguments of `m`
and of the MRS that comes back correspond position by position.
-/
import Verif.C04.RepsAgree1

namespace Verif.C04
open Verif.Sem

theorem rel2_of_getElem {α β : Type} (R : α → β → Prop) :
    ∀ (l : List α) (l' : List β), l.length = l'.length →
      (∀ (k : Nat) a b, l[k]? = some a → l'[k]? = some b → R a b) → Rel2 R l l' := by
  intro l
  induction l with
  | nil =>
    intro l' hl _
    cases l' with
    | nil => exact Rel2.nil
    | cons b l' => simp at hl
  | cons a l ih =>
    intro l' hl h
    cases l' with
    | nil => simp at hl
    | cons b l' =>
      refine Rel2.cons (h 0 a b (by simp) (by simp)) (ih l' (by simpa using hl) ?_)
      intro k x y hx hy
      exact h (k + 1) x y (by simpa using hx) (by simpa using hy)

theorem reach_map {α β : Type} [DecidableEq α] [DecidableEq β] (f : α → β) (E : List (α × α))
    (E' : List (β × β)) (h : ∀ e ∈ E, (f e.1, f e.2) ∈ E') {a b : α}
    (hr : Reach (adjOf (symm E)) a b) : Reach (adjOf (symm E')) (f a) (f b) := by
  induction hr with
  | refl => exact Reach.refl _
  | @tail x y _ hc ih =>
    refine Reach.tail ih ?_
    rw [mem_adjOf, mem_symm] at hc ⊢
    rcases hc with h1 | h1
    · exact Or.inl (h _ h1)
    · exact Or.inr (h _ h1)

namespace RTCtx
variable {m : MRS} {d : DMRS} {m2 : MRS} {reps : Reps} {topLbl : Option Var}
  {sc : List (Var × List Node)} {lbl : Node → Var} {leqs : List (Var × Var)}
  {idToIv : List (Int × Var)} {ns : List (Int × Role × Int)}
  {scs : List (Int × Role × String × Var)} {lo hi : Nat}

/-! ### labels -/

/-- under `ScopesHeld`, predications of `m` with one label have nodes connected by EQ links. -/
theorem held_reach (C : RTCtx m d m2 reps topLbl sc lbl leqs idToIv ns scs lo hi)
    (hH : ScopesHeld m d = true) (i j : Nat) (e ej : EP) (he : m.rels[i]? = some e)
    (hej : m.rels[j]? = some ej) (hl : e.label = ej.label) (n nj : Node)
    (hn : d.nodes[i]? = some n) (hnj : d.nodes[j]? = some nj) :
    Reach (adjOf (symm leqs)) (lbl n) (lbl nj) := by
  unfold ScopesHeld at hH
  rw [List.all_eq_true] at hH
  have h1 := hH (e, i) (List.mem_zipIdx_iff_getElem?.mpr he)
  rw [List.all_eq_true] at h1
  have h2 := h1 (ej, j) (List.mem_zipIdx_iff_getElem?.mpr hej)
  simp only [Bool.or_eq_true, bne_iff_ne, ne_eq, decide_eq_true_eq] at h2
  rcases h2 with h2 | h2
  · exact absurd hl h2
  · rw [bfs_correct] at h2
    have hmap := reach_map (fun x : Int => (dlookup x d.idToLbl).getD ⟨"h", 0⟩) (eqEdges d) leqs
      (by
        intro e' he'
        unfold eqEdges at he'
        obtain ⟨l, hlm, rfl⟩ := List.mem_map.mp he'
        rw [List.mem_filter] at hlm
        obtain ⟨a, b, hab, d1, d2⟩ := C.leqs_of_link l hlm.1 (by simpa using hlm.2)
        simp only [d1, d2, Option.getD_some]
        exact hab) h2
    have e1 : (dlookup (nidAt i) d.idToLbl).getD ⟨"h", 0⟩ = lbl n := by
      have := C.spec.scopes.lblOk n (List.mem_of_getElem? hn)
      rw [(fromMrs_node_id m C.hN d C.hd i n hn).1] at this
      rw [this]; rfl
    have e2 : (dlookup (nidAt j) d.idToLbl).getD ⟨"h", 0⟩ = lbl nj := by
      have := C.spec.scopes.lblOk nj (List.mem_of_getElem? hnj)
      rw [(fromMrs_node_id m C.hN d C.hd j nj hnj).1] at this
      rw [this]; rfl
    rw [e1, e2] at hmap
    exact hmap

/-- "same label" is the same relation on the positions of `m` and of `m2`. -/
theorem labels_iff (C : RTCtx m d m2 reps topLbl sc lbl leqs idToIv ns scs lo hi)
    (hH : ScopesHeld m d = true) (i j : Nat) (e ej e2 ej2 : EP) (he : m.rels[i]? = some e)
    (hej : m.rels[j]? = some ej) (he2 : m2.rels[i]? = some e2) (hej2 : m2.rels[j]? = some ej2) :
    e.label = ej.label ↔ e2.label = ej2.label := by
  obtain ⟨n, e2', iv, hn, hid, he2', ps, _⟩ := C.at_pos i e he
  rw [he2] at he2'; cases he2'
  obtain ⟨nj, ej2', ivj, hnj, hidj, hej2', psj, _⟩ := C.at_pos j ej hej
  rw [hej2] at hej2'; cases hej2'
  have hilt : i < m.rels.length := (List.getElem?_eq_some_iff.mp he).1
  have hjlt : j < m.rels.length := (List.getElem?_eq_some_iff.mp hej).1
  have hsl := C.spec.scopes.sameLabel_iff (List.mem_of_getElem? hn) (List.mem_of_getElem? hnj)
  rw [ps.labelOk, psj.labelOk] at hsl
  constructor
  · intro hl
    have := hsl.mpr (C.held_reach hH i j e ej he hej hl n nj hn hnj)
    simpa using this
  · intro hl
    obtain ⟨k, nk, hk, hnk, hx, hlk⟩ := C.reach_same_label i hilt n hn _ (hsl.mp (by rw [hl]))
    have : nk = nj := C.spec.scopes.lblInj nk (List.mem_of_getElem? hnk) nj
      (List.mem_of_getElem? hnj) hx.symm
    subst this
    have hkj : k = j := by
      have := fromMrs_node_id m C.hN d C.hd k nk hnk
      rw [hidj] at this
      exact (nidAt_inj _ _ this.1).symm
    subst hkj
    have e1 : m.rels[i] = e := by
      have := he; rw [List.getElem?_eq_getElem hilt] at this; simpa using this
    have e2' : m.rels[k] = ej := by
      have := hej; rw [List.getElem?_eq_getElem hjlt] at this; simpa using this
    rw [← e1, ← e2', hlk]

/-! ### the scope maps correspond -/

theorem preds_len (C : RTCtx m d m2 reps topLbl sc lbl leqs idToIv ns scs lo hi) :
    m.preds.length = m2.preds.length := by
  unfold MRS.preds
  rw [List.length_zip, List.length_zip, ids_length, ids_length, C.spec.len,
    (nodes_shape m C.hN d C.hd).1]

theorem preds_snd (m : MRS) (k : Nat) (p : Pred) (h : m.preds[k]? = some p) :
    m.rels[k]? = some p.2 := by
  unfold MRS.preds at h
  exact (List.getElem?_zip_eq_some.mp h).2

theorem scopeMap_rel (C : RTCtx m d m2 reps topLbl sc lbl leqs idToIv ns scs lo hi)
    (hH : ScopesHeld m d = true) :
    Rel2 (fun s s' => Rel2 (Paired m.preds m2.preds) s.2 s'.2) m.scopeMap m2.scopeMap := by
  unfold MRS.scopeMap
  apply groupByLabel_parallel (Paired m.preds m2.preds) m.preds m2.preds
  · exact rel2_of_getElem _ _ _ C.preds_len (fun k a b ha hb => ⟨k, ha, hb⟩)
  · rintro a a2 b b2 ⟨k, h1, h2⟩ ⟨k', h3, h4⟩
    exact C.labels_iff hH k k' a.2 b.2 a2.2 b2.2 (preds_snd m k a h1) (preds_snd m k' b h3)
      (preds_snd m2 k a2 h2) (preds_snd m2 k' b2 h4)
  · exact Rel2.nil

/-! ### sort keys -/

theorem key_eq (C : RTCtx m d m2 reps topLbl sc lbl leqs idToIv ns scs lo hi)
    (hS : IVSorts m = true) (hQ : RstrLinked m reps = true) (p p2 : Pred)
    (hp : Paired m.preds m2.preds p p2) : m.repKey p = m2.repKey p2 := by
  obtain ⟨k, h1, h2⟩ := hp
  have hN2 := C.baseIds2 hS
  have hrel := preds_snd m k p h1
  have hrel2 := preds_snd m2 k p2 h2
  obtain ⟨n, e2, iv, hn, hid, he2, ps, he2iv⟩ := C.at_pos k p.2 hrel
  rw [hrel2] at he2
  simp only [Option.some.injEq] at he2
  have hpos1 : m.ids.idxOf p.1 = k := posOf_of_getElem m (ids_nodup m C.hN) k p h1
  have hpos2 : m2.ids.idxOf p2.1 = k := posOf_of_getElem m2 (ids_nodup m2 hN2) k p2 h2
  have hq := C.quant_of_m hS hQ k p.2 hrel hid ps
  rw [← he2] at hq he2iv
  unfold MRS.repKey
  rw [hpos1, hpos2]
  congr 1
  unfold MRS.repRank
  rw [hq]
  cases hqe : p.2.isQuantifier with
  | true => simp
  | false =>
    -- a non-quantifier: same sort, same properties
    unfold IVSorts at hS
    rw [List.all_eq_true] at hS
    have hs := hS p.2 (List.mem_of_getElem? hrel)
    rw [hqe] at hs
    cases hiv : p.2.iv with
    | none => rw [hiv] at hs; simp at hs
    | some v =>
      have hnq : n.id ∉ quantStarts d := by
        rw [hid]; exact not_quantStart_of_nonquant m C.hN reps d C.hreps C.hd k p.2 hrel hqe
      obtain ⟨iv', c1, c2, _, c4⟩ := C.spec.ivNonQ n (List.mem_of_getElem? hn) hnq
      rw [ps.ivOk] at c1
      cases c1
      obtain ⟨_, hsh⟩ := nodes_shape m C.hN d C.hd
      obtain ⟨n', hn', _, _, _, _, _, _, _, hty, _⟩ := hsh k p.2 hrel
      rw [hn] at hn'; cases hn'
      obtain ⟨t1, t2⟩ := hty hqe v hiv
      have hsort : iv.sort = v.sort := by rw [c2, t1]; rfl
      have hprops : m2.props iv = m.props v := by rw [c4, t2]
      have hty2 : p2.2.type = p.2.type := by
        unfold EP.type
        rw [hq, hqe, he2iv, hiv]
        simp only [Bool.false_eq_true, if_false, hsort]
      rw [hty2]
      simp only [he2iv, hiv, hprops]

end RTCtx

end Verif.C04
