/-
C04 — holes, part 4: the argument links of `fromMrs m` are pairwise different (under `RolesOk`),
hence the scopal entries read back at a node carry pairwise different roles.
-/
import Verif.C04.Holes3

namespace Verif.C04
open Verif.Sem

/-! ### generic list facts -/

theorem nodup_flatMap_keyed {α β κ : Type} (F : α → List β) (key : α → κ) (kb : β → κ) :
    ∀ (l : List α), (l.map key).Nodup → (∀ x ∈ l, (F x).Nodup) →
      (∀ x ∈ l, ∀ y ∈ F x, kb y = key x) → (l.flatMap F).Nodup := by
  intro l
  induction l with
  | nil => intro _ _ _; simp
  | cons x xs ih =>
    intro hk hF hkb
    simp only [List.map_cons, List.nodup_cons] at hk
    rw [List.flatMap_cons, List.nodup_append]
    refine ⟨hF x List.mem_cons_self,
      ih hk.2 (fun y hy => hF y (List.mem_cons_of_mem _ hy))
        (fun y hy => hkb y (List.mem_cons_of_mem _ hy)), ?_⟩
    intro a ha b hb hab
    obtain ⟨x', hx', hbx'⟩ := List.mem_flatMap.mp hb
    have h1 := hkb x List.mem_cons_self a ha
    have h2 := hkb x' (List.mem_cons_of_mem _ hx') b hbx'
    rw [hab, h2] at h1
    exact hk.1 (by rw [← h1]; exact List.mem_map_of_mem hx')

/-- the value of a successful optional result, as a list. -/
def optOf {β ε : Type} (r : Except ε (Option β)) : List β :=
  match r with
  | .ok (some y) => [y]
  | _ => []

def optsOf {β ε : Type} (r : Except ε (List (Option β))) : List β :=
  match r with
  | .ok os => os.filterMap id
  | .error _ => []

theorem optOf_cases {β ε : Type} (r : Except ε (Option β)) :
    optOf r = [] ∨ ∃ y, optOf r = [y] ∧ r = .ok (some y) := by
  unfold optOf
  cases r with
  | error e => exact Or.inl rfl
  | ok o =>
    cases o with
    | none => exact Or.inl rfl
    | some y => exact Or.inr ⟨y, rfl, rfl⟩

theorem mapE_filterMap_id {α β ε : Type} (f : α → Except ε (Option β)) :
    ∀ (l : List α) (ys : List (Option β)), mapE f l = .ok ys →
      ys.filterMap id = l.flatMap (fun x => optOf (f x)) := by
  intro l
  induction l with
  | nil => intro ys h; simp only [mapE, Except.ok.injEq] at h; subst h; rfl
  | cons x xs ih =>
    intro ys h
    unfold mapE at h
    cases hfx : f x with
    | error e => rw [hfx] at h; cases h
    | ok o =>
      rw [hfx] at h
      cases hr : mapE f xs with
      | error e => rw [hr] at h; cases h
      | ok ys0 =>
        rw [hr] at h
        simp only [Except.ok.injEq] at h
        subst h
        rw [List.flatMap_cons, ← ih ys0 hr, hfx]
        cases o with
        | none => simp [optOf]
        | some y => simp [optOf]

theorem mapE_flatten {α β ε : Type} (f : α → Except ε (List (Option β))) :
    ∀ (l : List α) (ys : List (List (Option β))), mapE f l = .ok ys →
      ys.flatten.filterMap id = l.flatMap (fun x => optsOf (f x)) := by
  intro l
  induction l with
  | nil => intro ys h; simp only [mapE, Except.ok.injEq] at h; subst h; rfl
  | cons x xs ih =>
    intro ys h
    unfold mapE at h
    cases hfx : f x with
    | error e => rw [hfx] at h; cases h
    | ok o =>
      rw [hfx] at h
      cases hr : mapE f xs with
      | error e => rw [hr] at h; cases h
      | ok ys0 =>
        rw [hr] at h
        simp only [Except.ok.injEq] at h
        subst h
        rw [List.flatMap_cons, ← ih ys0 hr, hfx]
        simp [optsOf]

theorem nodup_filterMap_of_inj {α β : Type} (g : α → Option β) :
    ∀ (l : List α), l.Nodup → (∀ a ∈ l, ∀ b ∈ l, ∀ r, g a = some r → g b = some r → a = b) →
      (l.filterMap g).Nodup := by
  intro l
  induction l with
  | nil => intro _ _; simp
  | cons x xs ih =>
    intro hnd hinj
    rw [List.nodup_cons] at hnd
    have hrest := ih hnd.2 (fun a ha b hb => hinj a (List.mem_cons_of_mem _ ha) b
      (List.mem_cons_of_mem _ hb))
    rw [List.filterMap_cons]
    cases hg : g x with
    | none => exact hrest
    | some r =>
      simp only
      rw [List.nodup_cons]
      refine ⟨?_, hrest⟩
      intro hin
      obtain ⟨y, hy, hgy⟩ := List.mem_filterMap.mp hin
      have := hinj x List.mem_cons_self y (List.mem_cons_of_mem _ hy) r hg hgy
      rw [this] at hnd
      exact hnd.1 hy

/-! ### the argument links are pairwise different -/

/-- the argument links of `fromMrs m`, as a list. -/
def argLinksList (m : MRS) (reps : Reps) : List Link :=
  m.rels.zipIdx.flatMap (fun ei => optsOf (argLinksOf m reps ei))

theorem fromMrs_links_split (m : MRS) (reps : Reps) (d : DMRS)
    (hreps : m.representatives = .ok reps) (h : fromMrs m = .ok d) :
    ∃ mods : List Link, d.links = argLinksList m reps ++ mods ∧
      ∀ l ∈ mods, l.role = BARE_EQ_ROLE ∧ l.post = EQ_POST := by
  obtain ⟨top, nodes, links, _, _, hlinks, rfl⟩ := fromMrs_ok m reps d hreps h
  simp only
  unfold mrsToLinks at hlinks
  cases hargs : mapE (argLinksOf m reps) m.rels.zipIdx with
  | error e => rw [hargs] at hlinks; cases hlinks
  | ok argls =>
    rw [hargs] at hlinks
    simp only at hlinks
    cases hmods : mapE (fun s : Var × List Pred => modLinksOf m s.2) reps with
    | error e => rw [hmods] at hlinks; cases hlinks
    | ok modls =>
      rw [hmods] at hlinks
      simp only [Except.ok.injEq] at hlinks
      subst hlinks
      refine ⟨modls.flatten, ?_, ?_⟩
      · unfold argLinksList
        rw [mapE_flatten _ _ _ hargs]
      · intro l hl
        obtain ⟨ls, hls, hin⟩ := List.mem_flatten.mp hl
        obtain ⟨s, _, hf⟩ := mapE_ok_mem _ _ _ hmods ls hls
        exact modLinksOf_role m _ _ hf l hin

theorem argLinksList_nodup (m : MRS) (hR : RolesOk m = true) (reps : Reps) :
    (argLinksList m reps).Nodup := by
  unfold argLinksList
  apply nodup_flatMap_keyed _ (fun ei : EP × Nat => nidAt ei.2) (fun l : Link => l.start)
  · -- positions are pairwise different
    have : (m.rels.zipIdx.map (fun ei : EP × Nat => nidAt ei.2)) =
        (List.range m.rels.length).map nidAt := by
      apply List.ext_getElem?
      intro i
      simp only [List.getElem?_map, List.getElem?_zipIdx, List.getElem?_range]
      cases hi : m.rels[i]? with
      | none =>
        have : ¬ i < m.rels.length := by
          intro hlt; rw [List.getElem?_eq_getElem hlt] at hi; cases hi
        simp [this]
      | some e =>
        have : i < m.rels.length := (List.getElem?_eq_some_iff.mp hi).1
        simp [this]
    rw [this]
    exact c07_nodup_map_of_inj nidAt _ List.nodup_range (fun a _ b _ hab => nidAt_inj a b hab)
  · -- the links of one predication
    intro ei hei
    cases hos : argLinksOf m reps ei with
    | error e => simp [optsOf]
    | ok os =>
      simp only [optsOf]
      unfold argLinksOf at hos
      rw [mapE_filterMap_id _ _ _ hos]
      apply nodup_flatMap_keyed _ (fun a : Role × Var => a.1) (fun l : Link => l.role)
      · have hkeys : (ei.1.args.map (·.1)).Nodup := by
          unfold RolesOk at hR
          rw [List.all_eq_true] at hR
          have := hR ei.1 (List.mem_of_getElem? (List.mem_zipIdx_iff_getElem?.mp hei))
          simp only [Bool.and_eq_true, decide_eq_true_eq] at this
          exact this.1
        unfold EP.outArgs
        exact List.Nodup.sublist (List.Sublist.map _ List.filter_sublist) hkeys
      · intro a _
        rcases optOf_cases (argLink m reps (nidAt ei.2) ei.1 a) with h0 | ⟨y, h1, _⟩
        · rw [h0]; simp
        · rw [h1]; simp
      · intro a _ l hl
        rcases optOf_cases (argLink m reps (nidAt ei.2) ei.1 a) with h0 | ⟨y, h1, h2⟩
        · rw [h0] at hl; simp at hl
        · rw [h1] at hl
          simp only [List.mem_singleton] at hl
          subst hl
          exact (argLink_start_role m reps _ _ a l h2).2
  · intro ei _ l hl
    cases hos : argLinksOf m reps ei with
    | error e => rw [hos] at hl; simp [optsOf] at hl
    | ok os =>
      rw [hos] at hl
      simp only [optsOf, List.mem_filterMap, id] at hl
      obtain ⟨o, ho, rfl⟩ := hl
      unfold argLinksOf at hos
      obtain ⟨a, _, hfa⟩ := mapE_ok_mem _ _ _ hos _ ho
      exact (argLink_start_role m reps _ _ a l hfa).1

/-- the role list of the entries a function reads off pairwise different links. -/
theorem roles_nodup_generic (m : MRS) (hR : RolesOk m = true) (reps : Reps) (d : DMRS)
    (hreps : m.representatives = .ok reps) (h : fromMrs m = .ok d) (nid : Int)
    (G : Link → List (Int × Role × String × Var))
    (hG1 : ∀ l, G l = [] ∨ ∃ y, G l = [y])
    (hG2 : ∀ l x, x ∈ G l → x.1 = l.start ∧ x.2.1 = l.role ∧ ∃ rel, scRel l = some rel) :
    ∀ (L : List Link), L.Nodup → (∀ l ∈ L, l ∈ d.links) →
      (((L.flatMap G).filter (fun a => a.1 = nid)).map (·.2.1)).Nodup := by
  intro L
  induction L with
  | nil => intro _ _; simp
  | cons l L ih =>
    intro hnd hin
    rw [List.nodup_cons] at hnd
    have hrest := ih hnd.2 (fun x hx => hin x (List.mem_cons_of_mem _ hx))
    rw [List.flatMap_cons, List.filter_append, List.map_append, List.nodup_append]
    refine ⟨?_, hrest, ?_⟩
    · rcases hG1 l with h0 | ⟨y, h1⟩
      · rw [h0]; simp
      · rw [h1]; simp only [List.filter_cons]; split <;> simp
    · intro r hr r' hr' hrr
      subst hrr
      simp only [List.mem_map, List.mem_filter, List.mem_flatMap] at hr hr'
      obtain ⟨x, ⟨hx, hxs⟩, hxr⟩ := hr
      obtain ⟨x', ⟨⟨l', hl', hx'⟩, hxs'⟩, hxr'⟩ := hr'
      obtain ⟨a1, a2, rel, a3⟩ := hG2 l x hx
      obtain ⟨b1, b2, _, _⟩ := hG2 l' x' hx'
      have hxs : x.1 = nid := by simpa using hxs
      have hxs' : x'.1 = nid := by simpa using hxs'
      have hnm : l.role ≠ BARE_EQ_ROLE := by
        intro hm
        have hp := (fromMrs_link_role m hR reps d hreps h l (hin l List.mem_cons_self)).2 hm
        unfold scRel at a3
        rw [hp] at a3
        simp [EQ_POST, HEQ_POST, H_POST] at a3
      have := fromMrs_links_fun m hR reps d hreps h l l' (hin l List.mem_cons_self)
        (hin l' (List.mem_cons_of_mem _ hl')) (by rw [← a1, ← b1, hxs, hxs'])
        (by rw [← a2, ← b2, hxr, hxr']) hnm
      rw [this] at hnd
      exact hnd.1 hl'

theorem scRoles_core (m : MRS) (hR : RolesOk m = true) (reps : Reps) (d : DMRS)
    (hreps : m.representatives = .ok reps) (h : fromMrs m = .ok d) (nid : Int)
    (F : Link → Except Err (Option (Int × Role × String × Var)))
    (xs : List (Option (Int × Role × String × Var))) (hm : mapE F d.links = .ok xs)
    (hFspec : ∀ l x, F l = .ok (some x) →
      x.1 = l.start ∧ x.2.1 = l.role ∧ ∃ rel, scRel l = some rel) :
    ScRolesNodup (xs.filterMap id) nid := by
  obtain ⟨mods, hsplit, hmods⟩ := fromMrs_links_split m reps d hreps h
  unfold ScRolesNodup
  rw [mapE_filterMap_id _ _ _ hm]
  have hG2 : ∀ l x, x ∈ optOf (F l) →
      x.1 = l.start ∧ x.2.1 = l.role ∧ ∃ rel, scRel l = some rel := by
    intro l x hx
    rcases optOf_cases (F l) with h0 | ⟨y, h1, h2⟩
    · rw [h0] at hx; cases hx
    · rw [h1] at hx
      simp only [List.mem_singleton] at hx
      subst hx
      exact hFspec l x h2
  rw [hsplit, List.flatMap_append]
  have hmodnil : mods.flatMap (fun x => optOf (F x)) = [] := by
    rw [List.flatMap_eq_nil_iff]
    intro l hl
    rw [List.eq_nil_iff_forall_not_mem]
    intro x hx
    obtain ⟨_, _, rel, hrel⟩ := hG2 l x hx
    have hp := (hmods l hl).2
    unfold scRel at hrel
    rw [hp] at hrel
    simp [EQ_POST, HEQ_POST, H_POST] at hrel
  rw [hmodnil, List.append_nil]
  exact roles_nodup_generic m hR reps d hreps h nid (fun l => optOf (F l))
    (fun l => by
      rcases optOf_cases (F l) with h0 | ⟨y, h1, _⟩
      · exact Or.inl h0
      · exact Or.inr ⟨y, h1⟩)
    hG2 _ (argLinksList_nodup m hR reps)
    (fun l hl => by rw [hsplit]; exact List.mem_append_left _ hl)

/-- the scopal entries read back at a node have pairwise different roles. -/
theorem scRoles_nodup (m : MRS) (hR : RolesOk m = true) (reps : Reps) (d : DMRS)
    (hreps : m.representatives = .ok reps) (h : fromMrs m = .ok d)
    (sc : List (Var × List Node)) (scs : List (Int × Role × String × Var))
    (hscs : scArgsD d sc = .ok scs) (nid : Int) : ScRolesNodup scs nid := by
  unfold scArgsD at hscs
  split at hscs
  · cases hscs
  · rename_i xs hm
    simp only [Except.ok.injEq] at hscs
    subst hscs
    refine scRoles_core m hR reps d hreps h nid _ xs hm ?_
    intro l x hlx
    simp only at hlx
    cases hr : scRel l with
    | none =>
      unfold scRel at hr
      rw [hr] at hlx
      cases hlx
    | some r =>
      unfold scRel at hr
      rw [hr] at hlx
      simp only at hlx
      cases hlb : lblOfNode sc l.stop with
      | none => rw [hlb] at hlx; cases hlx
      | some lb =>
        rw [hlb] at hlx
        simp only at hlx
        by_cases hid : l.start ∈ d.ids
        · rw [if_pos hid] at hlx
          simp only [Except.ok.injEq, Option.some.injEq] at hlx
          subst hlx
          exact ⟨rfl, rfl, r, rfl⟩
        · rw [if_neg hid] at hlx; cases hlx

end Verif.C04
