/-
C04 — property theorems: "MRS → DMRS → MRS conversion preserves the semantics DMRS can
express".  Statements over the model `Verif.C04.Model` (tied to
delphin/dmrs/_operations.py and delphin/mrs/_operations.py by the correspondence run
of harness/c04.py).

Proved here, for ALL inputs of the model:
  * every link of `fromMrs m` is justified by the source (`links_justified`),
    and its target is a predication of the scope the argument selects (`link_target_in_scope`);
  * node / top / index shape of `fromMrs m` (`nodes_shape`, `top_shape`, `index_shape`);
  * totality of `fromMrs` when the scope the top selects has a representative
    (`fromMrs_total_partial`), and the counter-example without it (`fromMrs_cex_mutual_args`, F08).
  * the way back emits one predication per node in order, so the round trip returns the
    predications in source order with predicate/constant/lnk/surface/base unchanged and no
    icons (`fromDmrs_rels`, `roundtrip_predications`).
Proved in the later modules (not here): isomorphism of `fromDmrs (fromMrs m)` with the stripped
source by ONE variable map (`roundtrip_iso`, PropsIso.lean; `roundtrip_iso_src`, PropsSrc.lean),
stability of the second conversion (`second_conversion_stable`, PropsRT.lean;
`second_conversion_stable_src`, PropsSrc.lean), totality of the way back and of the second
conversion (`roundtrip_total`, `second_conversion_total`, PropsSrc.lean).
-/
import Verif.C04.Lemmas
import Verif.Generated.TablesC04

namespace Verif.C04
open Verif.Sem Verif.Tables

/-! ## 1. Every link is justified by the source -/

/-- "Every link the conversion produces is justified by the source: its start
predication has that role, the target is the predication the argument refers to or a
member of the scope it selects, and the post-slash marker is EQ/NEQ by label identity,
H for a handle constraint and HEQ for a direct label."  (`reps` = scope.representatives(m);
`mod` is the `MOD/EQ` link between two representatives of one scope.) -/
inductive Justified (m : MRS) (reps : Reps) (l : Link) : Prop
  /-- the argument is the intrinsic variable of the (non-quantifier) target predication -/
  | nonscopal (src tgt : Pred) (v : Var)
      (hs : predAt m l.start = some src) (ht : predAt m l.stop = some tgt)
      (harg : (l.role, v) ∈ src.2.outArgs none)
      (htq : tgt.2.isQuantifier = false) (hiv : tgt.2.iv = some v)
      (hpost : l.post = if src.2.label = tgt.2.label then EQ_POST else NEQ_POST)
  /-- the argument is the `hi` of a handle constraint; the target is the first
  representative of the scope labelled `lo` -/
  | qeq (src tgt : Pred) (v : Var) (hc : HCons) (rest : List Pred)
      (hs : predAt m l.start = some src) (ht : predAt m l.stop = some tgt)
      (harg : (l.role, v) ∈ src.2.outArgs none)
      (hniv : ∀ e ∈ m.rels, e.isQuantifier = false → e.iv ≠ some v)
      (hhc : hc ∈ m.hcons) (hhi : hc.hi = v)
      (hrep : dlookup hc.lo reps = some (tgt :: rest))
      (hpost : l.post = H_POST)
  /-- the argument is directly a label; the target is the first representative of that scope -/
  | lheq (src tgt : Pred) (v : Var) (rest : List Pred)
      (hs : predAt m l.start = some src) (ht : predAt m l.stop = some tgt)
      (harg : (l.role, v) ∈ src.2.outArgs none)
      (hniv : ∀ e ∈ m.rels, e.isQuantifier = false → e.iv ≠ some v)
      (hnohc : ∀ hc ∈ m.hcons, hc.hi ≠ v)
      (hrep : dlookup v reps = some (tgt :: rest))
      (hpost : l.post = HEQ_POST)
  /-- `MOD/EQ` from a further representative of a scope to its first representative -/
  | mod (src tgt : Pred) (lbl : Var) (rest : List Pred)
      (hs : predAt m l.start = some src) (ht : predAt m l.stop = some tgt)
      (hrep : (lbl, tgt :: rest) ∈ reps) (hsrc : src ∈ rest)
      (hrole : l.role = BARE_EQ_ROLE) (hpost : l.post = EQ_POST)

/-- case analysis of the inner loop body of `_mrs_to_links`. -/
theorem argLink_justified (m : MRS) (hN : BaseIdsDistinct m) (reps : Reps)
    (hreps : m.representatives = .ok reps)
    (i : Nat) (e : EP) (he : m.rels[i]? = some e) (a : Role × Var)
    (ha : a ∈ e.outArgs none) (l : Link)
    (h : argLink m reps (nidAt i) e a = .ok (some l)) : Justified m reps l := by
  obtain ⟨id, _, hsrc⟩ := preds_getElem? m i e he
  have hs : predAt m (nidAt i) = some (id, e) := by rw [predAt_nidAt]; exact hsrc
  unfold argLink at h
  cases hiv : ivToNid m a.2 with
  | some stop =>
    rw [hiv] at h
    simp only at h
    obtain ⟨j, e', hj, hq', hiv', rfl⟩ := ivToNid_some m a.2 stop hiv
    have hep := epById_iv m hN j e' a.2 hj hq' hiv'
    rw [hep] at h
    simp only [Except.ok.injEq, Option.some.injEq] at h
    subst h
    obtain ⟨id', _, htgt⟩ := preds_getElem? m j e' hj
    exact Justified.nonscopal (id, e) (id', e') a.2 hs (by rw [predAt_nidAt]; exact htgt) ha hq' hiv' rfl
  | none =>
    rw [hiv] at h
    simp only at h
    have hniv := ivToNid_none m a.2 hiv
    cases hlk : dlookup (scopalTarget m a.2).1 reps with
    | none => rw [hlk] at h; simp at h
    | some rs =>
      rw [hlk] at h
      cases rs with
      | nil => simp at h
      | cons r rest =>
        simp only at h
        cases hnid : idToNid m r.1 with
        | none => rw [hnid] at h; simp at h
        | some stop =>
          rw [hnid] at h
          simp only [Except.ok.injEq, Option.some.injEq] at h
          subst h
          have hrmem := (rep_lookup_member m reps hreps _ _ hlk r List.mem_cons_self).1
          have ht := idToNid_some m hN r hrmem stop hnid
          unfold scopalTarget at hlk ⊢
          cases hhc : m.hcLast a.2 with
          | some hc =>
            rw [hhc] at hlk
            obtain ⟨hmem, hhi⟩ := hcLast_some m a.2 hc hhc
            exact Justified.qeq (id, e) r a.2 hc rest hs ht ha hniv hmem hhi hlk rfl
          | none =>
            rw [hhc] at hlk
            exact Justified.lheq (id, e) r a.2 rest hs ht ha hniv (hcLast_none m a.2 hhc) hlk rfl

theorem modLink_justified (m : MRS) (hN : BaseIdsDistinct m) (reps : Reps)
    (hreps : m.representatives = .ok reps) (s : Var × List Pred) (hs : s ∈ reps)
    (ls : List Link) (h : modLinksOf m s.2 = .ok ls) (l : Link) (hl : l ∈ ls) :
    Justified m reps l := by
  have hmemb := rep_member m reps hreps s.1 s.2 hs
  unfold modLinksOf at h
  rcases hs2 : s.2 with _ | ⟨r, _ | ⟨s', rest⟩⟩
  · rw [hs2] at h; simp only [Except.ok.injEq] at h; subst h; simp at hl
  · rw [hs2] at h; simp only [Except.ok.injEq] at h; subst h; simp at hl
  · rw [hs2] at h hmemb
    simp only at h
    cases hnid : idToNid m r.1 with
    | none => rw [hnid] at h; simp at h
    | some stop =>
      rw [hnid] at h
      simp only at h
      obtain ⟨p, hp, hpl⟩ := mapE_ok_mem _ _ _ h l hl
      cases hstart : idToNid m p.1 with
      | none => rw [hstart] at hpl; simp at hpl
      | some start =>
        rw [hstart] at hpl
        simp only [Except.ok.injEq] at hpl
        subst hpl
        have hr := (hmemb r List.mem_cons_self).1
        have hpm := (hmemb p (List.mem_cons_of_mem _ hp)).1
        refine Justified.mod p r s.1 (s' :: rest) (idToNid_some m hN p hpm start hstart)
          (idToNid_some m hN r hr stop hnid) ?_ hp rfl rfl
        have : s = (s.1, r :: s' :: rest) := by rw [← hs2]
        rw [← this]; exact hs

/-- **Link justification.**  For every MRS whose predication identifiers are pairwise
distinct (no other hypothesis: not well-formedness, not the intrinsic-variable
property), every link of `dmrs.from_mrs(m)` is justified by `m`. -/
theorem links_justified (m : MRS) (hN : BaseIdsDistinct m) (reps : Reps) (d : DMRS)
    (hreps : m.representatives = .ok reps) (h : fromMrs m = .ok d) :
    ∀ l ∈ d.links, Justified m reps l := by
  intro l hl
  unfold fromMrs at h
  rw [hreps] at h
  simp only at h
  unfold fromMrsWith at h
  cases htop : getTop m reps with
  | error e => rw [htop] at h; simp at h
  | ok top =>
    rw [htop] at h
    simp only at h
    cases hnodes : mrsToNodes m with
    | error e => rw [hnodes] at h; simp at h
    | ok nodes =>
      rw [hnodes] at h
      simp only at h
      cases hlinks : mrsToLinks m reps with
      | error e => rw [hlinks] at h; simp at h
      | ok links =>
        rw [hlinks] at h
        simp only [Except.ok.injEq] at h
        subst h
        simp only at hl
        unfold mrsToLinks at hlinks
        cases hargs : mapE (argLinksOf m reps) m.rels.zipIdx with
        | error e => rw [hargs] at hlinks; simp at hlinks
        | ok argls =>
          rw [hargs] at hlinks
          simp only at hlinks
          cases hmods : mapE (fun s : Var × List Pred => modLinksOf m s.2) reps with
          | error e => rw [hmods] at hlinks; simp at hlinks
          | ok modls =>
            rw [hmods] at hlinks
            simp only [Except.ok.injEq] at hlinks
            subst hlinks
            rcases List.mem_append.mp hl with hl1 | hl2
            · rw [List.mem_filterMap] at hl1
              obtain ⟨ol, hol, hid⟩ := hl1
              simp only [id] at hid
              subst hid
              obtain ⟨ols, hols, hin⟩ := List.mem_flatten.mp hol
              obtain ⟨ei, hei, hf⟩ := mapE_ok_mem _ _ _ hargs ols hols
              unfold argLinksOf at hf
              obtain ⟨a, ha, hfa⟩ := mapE_ok_mem _ _ _ hf _ hin
              rw [List.mem_zipIdx_iff_getElem?] at hei
              exact argLink_justified m hN reps hreps ei.2 ei.1 hei a ha l hfa
            · obtain ⟨ls, hls, hin⟩ := List.mem_flatten.mp hl2
              obtain ⟨s, hs, hf⟩ := mapE_ok_mem _ _ _ hmods ls hls
              exact modLink_justified m hN reps hreps s hs ls hf l hin

/-- "… the target is … a member of the scope it selects, and the post-slash marker is
EQ/NEQ by label identity, H for a handle constraint and HEQ for a direct label": read off a
justified link — `H`: the argument is the `hi` of a handle constraint and the target
carries its `lo` label; `HEQ`: the argument IS the target's label; `EQ`: start and target
carry the same label; `NEQ`: they carry different labels. -/
theorem link_post_sound (m : MRS) (reps : Reps) (hreps : m.representatives = .ok reps)
    (l : Link) (hj : Justified m reps l) :
    ∃ src tgt, predAt m l.start = some src ∧ predAt m l.stop = some tgt ∧
      (l.post = H_POST →
        ∃ hc ∈ m.hcons, (l.role, hc.hi) ∈ src.2.outArgs none ∧ tgt.2.label = hc.lo) ∧
      (l.post = HEQ_POST → (l.role, tgt.2.label) ∈ src.2.outArgs none) ∧
      (l.post = EQ_POST → src.2.label = tgt.2.label) ∧
      (l.post = NEQ_POST → src.2.label ≠ tgt.2.label) := by
  have hne1 : H_POST ≠ HEQ_POST := by decide
  have hne2 : EQ_POST ≠ H_POST := by decide
  have hne3 : NEQ_POST ≠ H_POST := by decide
  have hne4 : EQ_POST ≠ HEQ_POST := by decide
  have hne5 : NEQ_POST ≠ HEQ_POST := by decide
  have hne6 : EQ_POST ≠ NEQ_POST := by decide
  cases hj with
  | nonscopal src tgt v hs ht harg htq hiv hpost =>
    refine ⟨src, tgt, hs, ht, ?_, ?_, ?_, ?_⟩
    · intro hp; rw [hp] at hpost; split at hpost
      · exact absurd hpost.symm hne2
      · exact absurd hpost.symm hne3
    · intro hp; rw [hp] at hpost; split at hpost
      · exact absurd hpost.symm hne4
      · exact absurd hpost.symm hne5
    · intro hp; rw [hp] at hpost; split at hpost
      · assumption
      · exact absurd hpost hne6
    · intro hp; rw [hp] at hpost; split at hpost
      · exact absurd hpost.symm hne6
      · assumption
  | qeq src tgt v hc rest hs ht harg hniv hhc hhi hrep hpost =>
    have hlab := (rep_lookup_member m reps hreps _ _ hrep tgt List.mem_cons_self).2
    refine ⟨src, tgt, hs, ht, ?_, ?_, ?_, ?_⟩
    · intro _; exact ⟨hc, hhc, by rw [hhi]; exact harg, hlab⟩
    · intro hp; rw [hp] at hpost; exact absurd hpost.symm hne1
    · intro hp; rw [hp] at hpost; exact absurd hpost hne2
    · intro hp; rw [hp] at hpost; exact absurd hpost hne3
  | lheq src tgt v rest hs ht harg hniv hnohc hrep hpost =>
    have hlab := (rep_lookup_member m reps hreps _ _ hrep tgt List.mem_cons_self).2
    refine ⟨src, tgt, hs, ht, ?_, ?_, ?_, ?_⟩
    · intro hp; rw [hp] at hpost; exact absurd hpost hne1
    · intro _; rw [hlab]; exact harg
    · intro hp; rw [hp] at hpost; exact absurd hpost hne4
    · intro hp; rw [hp] at hpost; exact absurd hpost hne5
  | mod src tgt lbl rest hs ht hrep hsrc hrole hpost =>
    have hm := rep_member m reps hreps lbl _ hrep
    have h1 := (hm tgt List.mem_cons_self).2
    have h2 := (hm src (List.mem_cons_of_mem _ hsrc)).2
    refine ⟨src, tgt, hs, ht, ?_, ?_, ?_, ?_⟩
    · intro hp; rw [hp] at hpost; exact absurd hpost.symm hne2
    · intro hp; rw [hp] at hpost; exact absurd hpost.symm hne4
    · intro _; rw [h1, h2]
    · intro hp; rw [hp] at hpost; exact absurd hpost.symm hne6

/-! ## 2. Nodes, top and index -/

theorem fromMrs_ok (m : MRS) (reps : Reps) (d : DMRS) (hreps : m.representatives = .ok reps)
    (h : fromMrs m = .ok d) :
    ∃ top nodes links, getTop m reps = .ok top ∧ mrsToNodes m = .ok nodes ∧
      mrsToLinks m reps = .ok links ∧
      d = { top := top, index := getIndex m, nodes := nodes, links := links } := by
  unfold fromMrs at h
  rw [hreps] at h
  simp only at h
  unfold fromMrsWith at h
  cases htop : getTop m reps with
  | error e => rw [htop] at h; simp at h
  | ok top =>
    rw [htop] at h
    simp only at h
    cases hnodes : mrsToNodes m with
    | error e => rw [hnodes] at h; simp at h
    | ok nodes =>
      rw [hnodes] at h
      simp only at h
      cases hlinks : mrsToLinks m reps with
      | error e => rw [hlinks] at h; simp at h
      | ok links =>
        rw [hlinks] at h
        simp only [Except.ok.injEq] at h
        exact ⟨top, nodes, links, rfl, rfl, rfl, h.symm⟩

/-- Nodes: "`(fromMrs m).nodes` is `m.rels` mapped in order" — node `10000+i` carries the
predicate, constant, lnk, surface and base of the i-th predication, the type (sort) and the
properties of its intrinsic variable, and no type/properties for a quantifier. -/
theorem nodes_shape (m : MRS) (hN : BaseIdsDistinct m) (d : DMRS) (h : fromMrs m = .ok d) :
    d.nodes.length = m.rels.length ∧
    ∀ (i : Nat) (e : EP), m.rels[i]? = some e → ∃ n, d.nodes[i]? = some n ∧
      n.id = nidAt i ∧ n.predicate = e.predicate ∧ n.carg = e.carg ∧ n.lnk = e.lnk ∧
      n.surface = e.surface ∧ n.base = e.base ∧
      (e.isQuantifier = true → n.type = none ∧ n.properties = []) ∧
      (e.isQuantifier = false → ∀ v, e.iv = some v →
        n.type = some v.sort ∧ n.properties = m.props v) ∧
      (e.isQuantifier = false → e.iv = none → n.type = some UNSPECIFIC ∧ n.properties = []) := by
  obtain ⟨reps, hreps⟩ := MRS.representatives_total m
  obtain ⟨top, nodes, links, _, hnodes, _, rfl⟩ := fromMrs_ok m reps d hreps h
  simp only
  unfold mrsToNodes at hnodes
  refine ⟨by rw [mapE_ok_length _ _ _ hnodes, List.length_zipIdx], ?_⟩
  intro i e he
  have hz : m.rels.zipIdx[i]? = some (e, i) := by
    rw [List.getElem?_zipIdx, he]; simp
  obtain ⟨n, hn, hf⟩ := mapE_ok_getElem? _ _ _ hnodes i (e, i) hz
  refine ⟨n, hn, ?_⟩
  simp only at hf
  unfold nodeOf at hf
  cases hq : e.isQuantifier with
  | true =>
    rw [hq] at hf
    simp only [if_true, Except.ok.injEq] at hf
    subst hf
    simp
  | false =>
    rw [hq] at hf
    simp only [Bool.false_eq_true, if_false] at hf
    cases hiv : e.iv with
    | none =>
      rw [hiv] at hf
      simp only [Except.ok.injEq] at hf
      subst hf
      simp
    | some v =>
      rw [hiv] at hf
      simp only at hf
      rw [epById_iv m hN i e v he hq hiv] at hf
      simp only at hf
      rw [hiv] at hf
      simp only [Except.ok.injEq] at hf
      subst hf
      simp

/-- Top: "top is a node id or `none`" — it is `none` when the MRS has no top or the label
the top resolves to (through its handle constraint) is no scope; otherwise it is the node
of the first representative of that scope, a predication carrying that label. -/
theorem top_shape (m : MRS) (hN : BaseIdsDistinct m) (reps : Reps) (d : DMRS)
    (hreps : m.representatives = .ok reps) (h : fromMrs m = .ok d) :
    (m.top = none → d.top = none) ∧
    ∀ t, m.top = some t →
      (dlookup ((m.hcmap t).getD t) reps = none ∧ d.top = none) ∨
      ∃ r rest n, dlookup ((m.hcmap t).getD t) reps = some (r :: rest) ∧ d.top = some n ∧
        predAt m n = some r ∧ r.2.label = (m.hcmap t).getD t := by
  obtain ⟨top, nodes, links, htop, _, _, rfl⟩ := fromMrs_ok m reps d hreps h
  simp only
  unfold getTop at htop
  constructor
  · intro hnone
    rw [hnone] at htop
    simp only [Except.ok.injEq] at htop
    exact htop.symm
  · intro t ht
    rw [ht] at htop
    simp only at htop
    cases hlk : dlookup ((m.hcmap t).getD t) reps with
    | none =>
      rw [hlk] at htop
      simp only [Except.ok.injEq] at htop
      exact Or.inl ⟨rfl, htop.symm⟩
    | some rs =>
      rw [hlk] at htop
      cases rs with
      | nil => simp at htop
      | cons r rest =>
        simp only at htop
        cases hnid : idToNid m r.1 with
        | none => rw [hnid] at htop; simp at htop
        | some n =>
          rw [hnid] at htop
          simp only [Except.ok.injEq] at htop
          have hm := rep_lookup_member m reps hreps _ _ hlk r List.mem_cons_self
          exact Or.inr ⟨r, rest, n, rfl, htop.symm, idToNid_some m hN r hm.1 n hnid, hm.2⟩

/-- Index: "index is the node of `m.index`" — the node of a non-quantifier predication
whose intrinsic variable is the MRS index, present exactly when there is one. -/
theorem index_shape (m : MRS) (d : DMRS) (h : fromMrs m = .ok d) :
    (∀ n, d.index = some n → ∃ v j e, m.index = some v ∧ m.rels[j]? = some e ∧
        e.isQuantifier = false ∧ e.iv = some v ∧ n = nidAt j) ∧
    (∀ v e, m.index = some v → e ∈ m.rels → e.isQuantifier = false → e.iv = some v →
        d.index ≠ none) := by
  obtain ⟨reps, hreps⟩ := MRS.representatives_total m
  obtain ⟨top, nodes, links, _, _, _, rfl⟩ := fromMrs_ok m reps d hreps h
  simp only
  unfold getIndex
  constructor
  · intro n hn
    cases hi : m.index with
    | none => rw [hi] at hn; simp at hn
    | some v =>
      rw [hi] at hn
      simp only [Option.bind_some] at hn
      obtain ⟨j, e, hj, hq, hiv, rfl⟩ := ivToNid_some m v n hn
      exact ⟨v, j, e, rfl, hj, hq, hiv, rfl⟩
  · intro v e hi he hq hiv
    rw [hi]
    simp only [Option.bind_some]
    obtain ⟨n, hn⟩ := ivToNid_isSome m v e he hq hiv
    rw [hn]; simp

/-! ## 2b. The way back keeps the predications -/

/-- `mrs.from_dmrs` emits exactly one predication per node, in node order, with the node's
predicate, constant, lnk, surface and base, and no individual constraints — for every choice
of scope labels. -/
theorem fromDmrs_rels (chosen : List Var) (d : DMRS) (m2 : MRS)
    (h : fromDmrs chosen d = .ok m2) :
    m2.rels.map epFace = d.nodes.map nodeFace ∧ m2.icons = [] :=
  fromDmrs_rels_aux chosen d m2 h

/-- Round trip, positional part of "yields an MRS isomorphic to the original …": the
predications come back in the source order with predicate, constant, lnk, surface and base
unchanged, and the individual constraints are gone. -/
theorem roundtrip_predications (m : MRS) (hN : BaseIdsDistinct m) (chosen : List Var)
    (d : DMRS) (m2 : MRS) (h1 : fromMrs m = .ok d) (h2 : fromDmrs chosen d = .ok m2) :
    m2.rels.map epFace = m.rels.map epFace ∧ m2.icons = [] := by
  obtain ⟨hr, hi⟩ := fromDmrs_rels chosen d m2 h2
  obtain ⟨hlen, hsh⟩ := nodes_shape m hN d h1
  refine ⟨?_, hi⟩
  rw [hr]
  apply nodes_faces m d hlen
  intro i e he
  obtain ⟨n, hn, _, h1, h2, h3, h4, h5, _⟩ := hsh i e he
  exact ⟨n, hn, h1, h2, h3, h4, h5⟩

/-! ## 3. Totality -/

/-
FULL STATEMENT (not proved — false of the code, finding F08):
  m.isWellFormed = true → ∃ d, fromMrs m = .ok d
Missing hypothesis: the scope the top selects has at least one representative.  Well-formedness
does not give it: `fromMrs_cex_mutual_args` is a well-formed MRS on which `from_mrs` raises
IndexError.
-/

/-- `dmrs.from_mrs` returns a DMRS (no KeyError, no IndexError) whenever the predication
identifiers are pairwise distinct and the scope selected by the top — if it selects one —
has a representative. -/
theorem fromMrs_total_partial (m : MRS) (hN : BaseIdsDistinct m)
    (hTop : ∀ reps t, m.representatives = .ok reps → m.top = some t →
      dlookup ((m.hcmap t).getD t) reps ≠ some []) :
    ∃ d, fromMrs m = .ok d := by
  obtain ⟨reps, hreps⟩ := MRS.representatives_total m
  have hnid : ∀ l rs, (l, rs) ∈ reps → ∀ r ∈ rs, ∃ n, idToNid m r.1 = some n := by
    intro l rs hmem r hr
    obtain ⟨n, hn, _⟩ := idToNid_spec m hN r (rep_member m reps hreps l rs hmem r hr).1
    exact ⟨n, hn⟩
  -- top
  have htop : ∃ top, getTop m reps = .ok top := by
    unfold getTop
    cases ht : m.top with
    | none => exact ⟨none, rfl⟩
    | some t =>
      simp only
      cases hlk : dlookup ((m.hcmap t).getD t) reps with
      | none => exact ⟨none, rfl⟩
      | some rs =>
        cases rs with
        | nil => exact absurd hlk (hTop reps t hreps ht)
        | cons r rest =>
          obtain ⟨n, hn⟩ := hnid _ _ (dlookup_mem hlk) r List.mem_cons_self
          simp only [hn]
          exact ⟨some n, rfl⟩
  -- nodes
  have hnodes : ∃ nodes, mrsToNodes m = .ok nodes := by
    unfold mrsToNodes
    apply mapE_total
    intro ei hei
    rw [List.mem_zipIdx_iff_getElem?] at hei
    unfold nodeOf
    cases hq : ei.1.isQuantifier with
    | true => simp
    | false =>
      simp only [Bool.false_eq_true, if_false]
      cases hiv : ei.1.iv with
      | none => simp
      | some v =>
        simp only
        rw [epById_iv m hN ei.2 ei.1 v hei hq hiv]
        simp only [hiv]
        exact ⟨_, rfl⟩
  -- links
  have hargs : ∃ argls, mapE (argLinksOf m reps) m.rels.zipIdx = .ok argls := by
    apply mapE_total
    intro ei _
    unfold argLinksOf
    apply mapE_total
    intro a _
    unfold argLink
    cases hiv : ivToNid m a.2 with
    | some stop =>
      simp only
      obtain ⟨j, e', hj, hq', hiv', _⟩ := ivToNid_some m a.2 stop hiv
      rw [epById_iv m hN j e' a.2 hj hq' hiv']
      exact ⟨_, rfl⟩
    | none =>
      simp only
      cases hlk : dlookup (scopalTarget m a.2).1 reps with
      | none => exact ⟨none, rfl⟩
      | some rs =>
        cases rs with
        | nil => exact ⟨none, rfl⟩
        | cons r rest =>
          obtain ⟨n, hn⟩ := hnid _ _ (dlookup_mem hlk) r List.mem_cons_self
          simp only [hn]
          exact ⟨_, rfl⟩
  have hmods : ∃ modls, mapE (fun s : Var × List Pred => modLinksOf m s.2) reps = .ok modls := by
    apply mapE_total
    intro s hs
    unfold modLinksOf
    rcases hs2 : s.2 with _ | ⟨r, _ | ⟨s', rest⟩⟩
    · exact ⟨[], rfl⟩
    · exact ⟨[], rfl⟩
    · have hs' : (s.1, r :: s' :: rest) ∈ reps := by rw [← hs2]; exact hs
      obtain ⟨n, hn⟩ := hnid _ _ hs' r List.mem_cons_self
      simp only [hn]
      apply mapE_total
      intro p hp
      obtain ⟨n', hn'⟩ := hnid _ _ hs' p (List.mem_cons_of_mem _ hp)
      simp only [hn']
      exact ⟨_, rfl⟩
  obtain ⟨top, htop⟩ := htop
  obtain ⟨nodes, hnodes⟩ := hnodes
  obtain ⟨argls, hargs⟩ := hargs
  obtain ⟨modls, hmods⟩ := hmods
  refine ⟨{ top := top, index := getIndex m, nodes := nodes,
            links := (argls.flatten.filterMap id) ++ modls.flatten }, ?_⟩
  unfold fromMrs
  rw [hreps]
  simp only
  unfold fromMrsWith mrsToLinks
  rw [htop, hnodes, hargs, hmods]

/-- the witness of finding F08: `h0 qeq h1`, two predications labelled `h1` taking each
other as `ARG1`. -/
def f08 : MRS :=
  { top := some ⟨"h", 0⟩, index := some ⟨"e", 2⟩,
    rels := [ { predicate := "_a_v_1", label := ⟨"h", 1⟩,
                args := [("ARG0", ⟨"e", 2⟩), ("ARG1", ⟨"e", 3⟩)] },
              { predicate := "_b_v_1", label := ⟨"h", 1⟩,
                args := [("ARG0", ⟨"e", 3⟩), ("ARG1", ⟨"e", 2⟩)] } ],
    hcons := [⟨⟨"h", 0⟩, "qeq", ⟨"h", 1⟩⟩] }

/-- F08: a well-formed MRS with pairwise distinct predication identifiers on which
`dmrs.from_mrs` raises IndexError (the top scope has no representative). -/
theorem fromMrs_cex_mutual_args :
    f08.isWellFormed = true ∧ BaseIdsDistinct f08 ∧
    f08.representatives = .ok [(⟨"h", 1⟩, [])] ∧
    fromMrs f08 = .error .indexError :=
  ⟨by decide, by decide, by rfl, by rfl⟩

/-- the hypotheses of the theorems above are satisfiable together with a non-trivial
conversion: the MRS of "the dog barks" converts, with a quantifier link `RSTR/H`. -/
def dogBarks : MRS :=
  { top := some ⟨"h", 0⟩, index := some ⟨"e", 2⟩,
    rels := [ { predicate := "_the_q", label := ⟨"h", 4⟩,
                args := [("ARG0", ⟨"x", 3⟩), ("RSTR", ⟨"h", 5⟩), ("BODY", ⟨"h", 6⟩)] },
              { predicate := "_dog_n_1", label := ⟨"h", 7⟩, args := [("ARG0", ⟨"x", 3⟩)] },
              { predicate := "_bark_v_1", label := ⟨"h", 1⟩,
                args := [("ARG0", ⟨"e", 2⟩), ("ARG1", ⟨"x", 3⟩)] } ],
    hcons := [⟨⟨"h", 0⟩, "qeq", ⟨"h", 1⟩⟩, ⟨⟨"h", 5⟩, "qeq", ⟨"h", 7⟩⟩] }

example : BaseIdsDistinct dogBarks ∧ dogBarks.isWellFormed = true ∧
    (fromMrs dogBarks).map (fun d => (d.top, d.index, d.links)) =
      .ok (some 10002, some 10002,
        [⟨10000, 10001, "RSTR", "H"⟩, ⟨10002, 10001, "ARG1", "NEQ"⟩]) :=
  ⟨by decide, by decide, by rfl⟩

/-! ## Pins: the constants of the anchored code that the hand-written model mirrors

`Verif/Generated/TablesC04.lean` is regenerated on every run by `harness/c04.py: tables()` from the
live modules and code objects (`co_consts`, nested code objects included; docstrings, warning and
exception texts dropped).  The literal copies below are what the model was written against:

* `c04DmrsModuleConsts` — `FIRST_NODE_ID` = `Verif.C04.FIRST_NODE_ID` (`nidAt`); `EQ_POST`, `HEQ_POST`,
  `H_POST` = `Verif.Sem.EQ_POST/HEQ_POST/H_POST`; `NEQ_POST`, `BARE_EQ_ROLE` = `Verif.C04.NEQ_POST`,
  `BARE_EQ_ROLE`; `RESTRICTION_ROLE` = `Verif.Sem.RESTRICTION_ROLE` (`quantStarts`, `dIsQuantifier`, `qmapD`);
  `TOP_NODE_ID` = the `0` of `normalizeTopAndLinks` / `indexOf`.
* `c04MrsModuleConsts` — `Verif.Sem.INTRINSIC_ROLE/RESTRICTION_ROLE/CONSTANT_ROLE`, `Verif.C04.BODY_ROLE`;
  `_QUANTIFIER_TYPE` = the sort `"q"` of `EP.baseId`.
* `c04VariableModuleConsts` — `Verif.C04.HANDLE`, `UNSPECIFIC`; the variable regex is the reason a variable
  is a (sort, number) pair (`Verif.Sem.Var`).
* `c04ScopeModuleConsts` — `Verif.Sem.LHEQ/QEQ` (`scStep`, `scRel`); `_UNTENSED_VALUES` = the two strings
  of `MRS.repRank`.
* `c04FuncConsts` — `mrs.from_dmrs`: starting vid `0` (`vfac0`) and `'xeipu'` (`nsArgsD`, `IVSorts`);
  `DMRS.scopes`: starting vid `1` (`DMRS.idToLbl`); `dmrs._mrs_get_top` / `_mrs_to_links`: the indices
  `0` (`reps[lbl][0]`) and `1` (`eps[1:]`, `len > 1`) of `getTop` / `argLink` / `modLinksOf` (the `2`
  is a `stacklevel`); `scope.representatives`: `'xeipu'` (`MRS.nsArgs`), `1` (`len(scope) == 1`);
  `scope._make_representative_priority`: ranks `0/1/2/3`, types `x`/`e`, `TENSE`, positions from `1`
  (`MRS.repRank`, `MRS.repKey`); `VariableFactory.new`: `vid + 1` (`VFac.new`); `EP.__init__`: default
  ARG0 `_0`, sort `_` (`EP.baseId`, `EP.type`); `_uniquify_ids`: `_{}` and the counters of `uniquify`.
* `c04Defaults` — `VariableFactory(starting_vid=1)`, `from_mrs(representative_priority=None)`,
  `representatives(priority=None)`, `DMRS.arguments(types=None, expressed=None)`.
A change to any of them stops this theorem from checking: the run reports a broken proof obligation and
searches for a failing input. -/
theorem c04_pins :
    c04DmrsModuleConsts =
      [("TOP_NODE_ID", "0"), ("FIRST_NODE_ID", "10000"), ("RESTRICTION_ROLE", "RSTR"), ("BARE_EQ_ROLE", "MOD"), ("EQ_POST", "EQ"), ("HEQ_POST", "HEQ"), ("NEQ_POST", "NEQ"), ("H_POST", "H"), ("NIL_POST", "NIL"), ("CVARSORT", "cvarsort")]
    ∧
    c04MrsModuleConsts =
      [("INTRINSIC_ROLE", "ARG0"), ("RESTRICTION_ROLE", "RSTR"), ("BODY_ROLE", "BODY"), ("CONSTANT_ROLE", "CARG"), ("_QUANTIFIER_TYPE", "q")]
    ∧
    c04VariableModuleConsts =
      [("UNSPECIFIC", "u"), ("INDIVIDUAL", "i"), ("INSTANCE_OR_HANDLE", "p"), ("EVENTUALITY", "e"), ("INSTANCE", "x"), ("HANDLE", "h"), ("_variable_re.pattern", "^([-\\w]*[^\\s\\d])(\\d+)$"), ("_variable_re.flags", "32")]
    ∧
    c04ScopeModuleConsts =
      [("LEQ", "leq"), ("LHEQ", "lheq"), ("OUTSCOPES", "outscopes"), ("QEQ", "qeq"), ("_UNTENSED_VALUES", "{,untensed}")]
    ∧
    c04FuncConsts =
      [
        ("dmrs.from_mrs", []),
        ("dmrs._mrs_get_top", ["0", "2"]),
        ("dmrs._mrs_to_nodes", ["2"]),
        ("dmrs._mrs_to_links", ["2", "0", "1"]),
        ("mrs.from_dmrs", ["0", "xeipu"]),
        ("mrs._dmrs_build_maps", []),
        ("DMRS.scopes", ["1"]),
        ("DMRS.arguments", []),
        ("DMRS.scopal_arguments", []),
        ("DMRS.is_quantifier", []),
        ("DMRS.quantification_pairs", []),
        ("dmrs._normalize_top_and_links", []),
        ("Node.__init__", []),
        ("scope.representatives", ["xeipu", "1"]),
        ("scope._make_representative_priority", ["1", "p", "x", "0", "e", "TENSE", "", "2", "1", "3"]),
        ("scope.conjoin", []),
        ("scope._descendants", []),
        ("VariableFactory.__init__", []),
        ("VariableFactory.new", ["1"]),
        ("EP.__init__", ["_0", "_"]),
        ("mrs._uniquify_ids", ["0", "_{}", "1"]),
        ("MRS.arguments", []),
        ("MRS.scopal_arguments", []),
        ("MRS.scopes", []),
        ("MRS.properties", [])]
    ∧
    c04Defaults =
      [("dmrs.from_mrs", "((None,), None)"), ("DMRS.arguments", "((None, None), None)"), ("DMRS.scopal_arguments", "((None,), None)"), ("Node.__init__", "((None, None, None, None, None, None), None)"), ("scope.representatives", "((None,), None)"), ("VariableFactory.__init__", "((1,), None)"), ("VariableFactory.new", "((None,), None)"), ("EP.__init__", "((None, None, None, None), None)"), ("MRS.arguments", "((None, None), None)"), ("MRS.scopal_arguments", "((None,), None)")] := by
  refine ⟨?_, ?_, ?_, ?_, ?_, ?_⟩ <;> rfl

/-- the model's own constants, as pinned above. -/
theorem c04_model_consts :
    FIRST_NODE_ID = 10000 ∧ Verif.Sem.EQ_POST = "EQ" ∧ Verif.Sem.HEQ_POST = "HEQ" ∧
    Verif.Sem.H_POST = "H" ∧ NEQ_POST = "NEQ" ∧ BARE_EQ_ROLE = "MOD" ∧
    Verif.Sem.RESTRICTION_ROLE = "RSTR" ∧ Verif.Sem.INTRINSIC_ROLE = "ARG0" ∧
    Verif.Sem.CONSTANT_ROLE = "CARG" ∧ BODY_ROLE = "BODY" ∧ HANDLE = "h" ∧ UNSPECIFIC = "u" ∧
    Verif.Sem.LHEQ = "lheq" ∧ Verif.Sem.QEQ = "qeq" ∧ vfac0.vid = 0 :=
  ⟨rfl, rfl, rfl, rfl, rfl, rfl, rfl, rfl, rfl, rfl, rfl, rfl, rfl, rfl, rfl⟩

end Verif.C04
