/-
C04 — round trip, part 6: handle constraints, labels and representatives of the MRS that
comes back.
-/
import Verif.C04.RoundTrip5

namespace Verif.C04
open Verif.Sem

/-! ### positions of representatives -/

theorem posOf_of_getElem (m : MRS) (hnd : m.ids.Nodup) (j : Nat) (p : Pred)
    (hp : m.preds[j]? = some p) : posOf m p = j := by
  unfold posOf
  have hz := List.getElem?_zip_eq_some.mp (by unfold MRS.preds at hp; exact hp)
  have hlt : j < m.ids.length := (List.getElem?_eq_some_iff.mp hz.1).1
  have hget : m.ids[j] = p.1 := (List.getElem?_eq_some_iff.mp hz.1).2
  rw [← hget]
  exact hnd.idxOf_getElem j hlt

theorem pred_at_posOf (m : MRS) (hnd : m.ids.Nodup) (p : Pred) (hp : p ∈ m.preds) :
    m.preds[posOf m p]? = some p := by
  obtain ⟨j, hj⟩ := List.mem_iff_getElem?.mp hp
  rw [posOf_of_getElem m hnd j p hj]; exact hj

theorem reps_transfer (m m2 : MRS) (reps reps2 : Reps) (hA : repsPos m reps = repsPos m2 reps2)
    (s : Var × List Pred) (hs : s ∈ reps) :
    ∃ s2 ∈ reps2, s2.2.map (posOf m2) = s.2.map (posOf m) := by
  have : s.2.map (posOf m) ∈ repsPos m reps := List.mem_map_of_mem (f := fun s => s.2.map (posOf m)) hs
  rw [hA] at this
  obtain ⟨s2, hs2, he⟩ := List.mem_map.mp this
  exact ⟨s2, hs2, he⟩

theorem reps_keys_nodup (m : MRS) (reps : Reps) (h : m.representatives = .ok reps) :
    (dkeys reps).Nodup := by
  rw [(Verif.C07.representatives_subset m reps h).1]
  exact (Verif.C07.scopes_partition m).1

theorem reps_lookup (m : MRS) (reps : Reps) (h : m.representatives = .ok reps)
    (s : Var × List Pred) (hs : s ∈ reps) : dlookup s.1 reps = some s.2 :=
  dlookup_of_mem_nodup (reps_keys_nodup m reps h) hs

/-- what `idToNid` returns for a predication given by its position. -/
theorem idToNid_pos (m : MRS) (hN : BaseIdsDistinct m) (p : Pred) (hp : p ∈ m.preds) :
    idToNid m p.1 = some (nidAt (posOf m p)) := by
  obtain ⟨n, h1, h2⟩ := idToNid_spec m hN p hp
  obtain ⟨i, hi, hpi, _⟩ := predAt_some m n p h2
  rw [h1, hi, posOf_of_getElem m (ids_nodup m hN) i p hpi]

theorem predAt_pos (m : MRS) (hN : BaseIdsDistinct m) (n : Int) (p : Pred)
    (h : predAt m n = some p) : n = nidAt (posOf m p) := by
  obtain ⟨i, hi, hpi, _⟩ := predAt_some m n p h
  rw [hi, posOf_of_getElem m (ids_nodup m hN) i p hpi]

namespace RTCtx
variable {m : MRS} {d : DMRS} {m2 : MRS} {reps : Reps} {topLbl : Option Var}
  {sc : List (Var × List Node)} {lbl : Node → Var} {leqs : List (Var × Var)}
  {idToIv : List (Int × Var)} {ns : List (Int × Role × Int)}
  {scs : List (Int × Role × String × Var)} {lo hi : Nat}

/-! ### labels of `m2` -/

/-- the label of a rebuilt predication is the key of a scope: reserved, of sort `h`, id ≥ 1. -/
theorem label_props (C : RTCtx m d m2 reps topLbl sc lbl leqs idToIv ns scs lo hi)
    {n : Node} {e2 : EP} {iv : Var} (hn : n ∈ d.nodes)
    (ps : PosSpec (sc.map (fun s => s.1.vid)) d sc idToIv ns scs lo hi m2.hcons n e2 iv) :
    e2.label.vid ∈ sc.map (fun s => s.1.vid) ∧ e2.label.sort = HANDLE ∧ 1 ≤ e2.label.vid := by
  obtain ⟨s, hs, hin, hl⟩ := C.spec.scopes.lblOfNode_node hn
  rw [ps.labelOk] at hl
  simp only [Option.some.injEq] at hl
  obtain ⟨n', hn', hk⟩ := C.spec.scopes.keyOf s hs
  have hlk := C.spec.scopes.lblOk n' (C.spec.scopes.sub s hs n' hn')
  have := idToLbl_vals d.nodes 1 [] (Nat.le_refl _) (by simp) _ (dlookup_mem hlk)
  rw [hl, hk]
  exact ⟨by rw [← hk]; exact List.mem_map_of_mem (f := fun s => s.1.vid) hs, this⟩

theorem hcons_his (C : RTCtx m d m2 reps topLbl sc lbl leqs idToIv ns scs lo hi) :
    ∃ news, m2.hcons = hcTop (topNew d).1 topLbl ++ news ∧
      (∀ hc ∈ hcTop (topNew d).1 topLbl, hc.hi = ⟨HANDLE, 0⟩ ∧ 0 < lo) ∧
      (∀ hc ∈ news, NewHole (sc.map (fun s => s.1.vid)) lo hi hc.hi) ∧
      (news.map (·.hi.vid)).Nodup := by
  obtain ⟨news, h1, h2, h3⟩ := C.spec.hcons
  refine ⟨news, h1, ?_, fun hc hhc => (h2 hc hhc).2.1, h3⟩
  intro hc hhc
  unfold hcTop at hhc
  cases ht : (topNew d).1 with
  | none => rw [ht] at hhc; simp at hhc
  | some t =>
    cases hl : topLbl with
    | none => rw [ht, hl] at hhc; simp at hhc
    | some l =>
      rw [ht, hl] at hhc
      simp only [List.mem_singleton] at hhc
      subst hhc
      exact C.spec.topVar t ht

/-- the handle constraint on a hole made for a qeq argument is the only one on it. -/
theorem hcLast_hole (C : RTCtx m d m2 reps topLbl sc lbl leqs idToIv ns scs lo hi)
    (hole lb : Var) (hnew : NewHole (sc.map (fun s => s.1.vid)) lo hi hole)
    (hmem : (⟨hole, QEQ, lb⟩ : HCons) ∈ m2.hcons) :
    m2.hcLast hole = some ⟨hole, QEQ, lb⟩ := by
  obtain ⟨news, h1, h2, h3, h4⟩ := C.hcons_his
  have innews : ∀ hc ∈ m2.hcons, hc.hi = hole → hc ∈ news := by
    intro hc hhc hhi
    rw [h1] at hhc
    rcases List.mem_append.mp hhc with ht | hn
    · obtain ⟨e, hpos⟩ := h2 hc ht
      rw [hhi] at e
      have := hnew.2.1
      rw [e] at this
      simp only at this
      omega
    · exact hn
  cases hf : m2.hcLast hole with
  | none =>
    exact absurd rfl (hcLast_none m2 hole hf _ hmem)
  | some hc =>
    obtain ⟨hc1, hc2⟩ := hcLast_some m2 hole hc hf
    have a1 := innews hc hc1 hc2
    have a2 := innews _ hmem rfl
    have := c07_inj_of_nodup_map (fun c : HCons => c.hi.vid) news h4 hc a1 _ a2 (by simp [hc2])
    rw [this]

/-- no handle constraint constrains a label of `m2`. -/
theorem hcLast_label (C : RTCtx m d m2 reps topLbl sc lbl leqs idToIv ns scs lo hi)
    (L : Var) (hR : L.vid ∈ sc.map (fun s => s.1.vid)) (h1 : 1 ≤ L.vid) : m2.hcLast L = none := by
  obtain ⟨news, e1, h2, h3, _⟩ := C.hcons_his
  cases hf : m2.hcLast L with
  | none => rfl
  | some hc =>
    exfalso
    obtain ⟨hc1, hc2⟩ := hcLast_some m2 L hc hf
    rw [e1] at hc1
    rcases List.mem_append.mp hc1 with ht | hn
    · obtain ⟨e, _⟩ := h2 hc ht
      rw [hc2] at e
      rw [e] at h1
      simp only at h1
      omega
    · have := (h3 hc hn).2.2.2
      rw [hc2] at this
      exact this hR

/-! ### when two rebuilt predications share a label -/

theorem leqs_mem (C : RTCtx m d m2 reps topLbl sc lbl leqs idToIv ns scs lo hi)
    (a b : Var) (h : (a, b) ∈ leqs) : ∃ l ∈ d.links, l.post = EQ_POST ∧
      dlookup l.start d.idToLbl = some a ∧ dlookup l.stop d.idToLbl = some b := by
  have hl := C.spec.scopes.leqsOk
  unfold DMRS.leqs at hl
  obtain ⟨l, hlm, hf⟩ := c07_mapM_ok _ _ _ hl (a, b) h
  rw [List.mem_filter] at hlm
  refine ⟨l, hlm.1, by simpa using hlm.2, ?_⟩
  cases h1 : dlookup l.start d.idToLbl with
  | none => rw [h1] at hf; cases hf
  | some x =>
    cases h2 : dlookup l.stop d.idToLbl with
    | none => rw [h1, h2] at hf; cases hf
    | some y =>
      rw [h1, h2] at hf
      simp only [Except.ok.injEq, Prod.mk.injEq] at hf
      rw [hf.1, hf.2]; exact ⟨rfl, rfl⟩

theorem leqs_of_link (C : RTCtx m d m2 reps topLbl sc lbl leqs idToIv ns scs lo hi)
    (l : Link) (hl : l ∈ d.links) (hp : l.post = EQ_POST) :
    ∃ a b, (a, b) ∈ leqs ∧ dlookup l.start d.idToLbl = some a ∧
      dlookup l.stop d.idToLbl = some b := by
  have hlq := C.spec.scopes.leqsOk
  unfold DMRS.leqs at hlq
  obtain ⟨ab, hab, hf⟩ := mapM_ok_left _ _ _ hlq l
    (List.mem_filter.mpr ⟨hl, by simpa using hp⟩)
  cases h1 : dlookup l.start d.idToLbl with
  | none => rw [h1] at hf; cases hf
  | some x =>
    cases h2 : dlookup l.stop d.idToLbl with
    | none => rw [h1, h2] at hf; cases hf
    | some y =>
      rw [h1, h2] at hf
      simp only [Except.ok.injEq] at hf
      exact ⟨x, y, by rw [hf]; exact hab, rfl, rfl⟩

/-- the node at a position. -/
theorem node_at (C : RTCtx m d m2 reps topLbl sc lbl leqs idToIv ns scs lo hi) (i : Nat)
    (hi : i < m.rels.length) : ∃ n, d.nodes[i]? = some n ∧ n.id = nidAt i ∧ n ∈ d.nodes := by
  obtain ⟨_, hsh⟩ := nodes_shape m C.hN d C.hd
  obtain ⟨n, hn, hid, _⟩ := hsh i m.rels[i] (List.getElem?_eq_getElem hi)
  exact ⟨n, hn, hid, List.mem_of_getElem? hn⟩

theorem node_of_id (C : RTCtx m d m2 reps topLbl sc lbl leqs idToIv ns scs lo hi) (n : Node)
    (hn : n ∈ d.nodes) : ∃ i, d.nodes[i]? = some n ∧ n.id = nidAt i ∧ i < m.rels.length := by
  obtain ⟨i, hi⟩ := List.mem_iff_getElem?.mp hn
  obtain ⟨h1, h2⟩ := fromMrs_node_id m C.hN d C.hd i n hi
  exact ⟨i, hi, h1, h2⟩

/-- labels connected by EQ links belong to predications of `m` with one label. -/
theorem reach_same_label (C : RTCtx m d m2 reps topLbl sc lbl leqs idToIv ns scs lo hi)
    (i : Nat) (hi : i < m.rels.length) (n : Node) (hn : d.nodes[i]? = some n) (x : Var)
    (hr : Reach (adjOf (symm leqs)) (lbl n) x) :
    ∃ j n', ∃ hj : j < m.rels.length, d.nodes[j]? = some n' ∧ x = lbl n' ∧
      m.rels[j].label = m.rels[i].label := by
  induction hr with
  | refl => exact ⟨i, n, hi, hn, rfl, rfl⟩
  | @tail b c _ hc ih =>
    obtain ⟨j, n', hj, hn', hb, hlab⟩ := ih
    rw [mem_adjOf, mem_symm] at hc
    -- an EQ link between the nodes labelled b and c
    have step : ∀ l ∈ d.links, l.post = EQ_POST → ∀ (s t : Nat) (ns' nt : Node),
        l.start = nidAt s → l.stop = nidAt t → ∀ hs : s < m.rels.length,
        ∀ ht : t < m.rels.length, m.rels[s].label = m.rels[t].label := by
      intro l hl hp s t _ _ hs' ht' hs ht
      obtain ⟨src, tgt, p1, p2, _, _, p5, _⟩ :=
        link_post_sound m reps C.hreps l (C.links_just l hl)
      have e1 := predAt_some m _ _ p1
      have e2 := predAt_some m _ _ p2
      obtain ⟨s', q1, q2, _⟩ := e1
      obtain ⟨t', r1, r2, _⟩ := e2
      have : s' = s := nidAt_inj _ _ (by rw [← q1, hs'])
      subst this
      have : t' = t := nidAt_inj _ _ (by rw [← r1, ht'])
      subst this
      have hsrc : m.rels[s']? = some src.2 := by
        unfold MRS.preds at q2; exact (List.getElem?_zip_eq_some.mp q2).2
      have htgt : m.rels[t']? = some tgt.2 := by
        unfold MRS.preds at r2; exact (List.getElem?_zip_eq_some.mp r2).2
      rw [List.getElem?_eq_getElem hs] at hsrc
      rw [List.getElem?_eq_getElem ht] at htgt
      simp only [Option.some.injEq] at hsrc htgt
      rw [hsrc, htgt]
      exact p5 hp
    have fromLink : ∀ (a1 a2 : Var), (a1, a2) ∈ leqs → (a1 = b ∨ a2 = b) →
        ∀ y, (a1 = b → y = a2) → (a2 = b → y = a1) → ∃ k nk, ∃ hk : k < m.rels.length,
          d.nodes[k]? = some nk ∧ y = lbl nk ∧ m.rels[k].label = m.rels[j].label := by
      intro a1 a2 hmem _ y hy1 hy2
      obtain ⟨l, hl, hp, d1, d2⟩ := C.leqs_mem a1 a2 hmem
      obtain ⟨s, t, e, hs', ht', he, htl, _⟩ := justified_ends m reps l (C.links_just l hl)
      have hsl : s < m.rels.length := (List.getElem?_eq_some_iff.mp he).1
      obtain ⟨nS, hnS, hidS, hmS⟩ := C.node_at s hsl
      obtain ⟨nT, hnT, hidT, hmT⟩ := C.node_at t htl
      have lS : lbl nS = a1 := by
        have := C.spec.scopes.lblOk nS hmS
        rw [hidS, ← hs', d1] at this
        simpa using this.symm
      have lT : lbl nT = a2 := by
        have := C.spec.scopes.lblOk nT hmT
        rw [hidT, ← ht', d2] at this
        simpa using this.symm
      have hlabST := step l hl hp s t nS nT hs' ht' hsl htl
      by_cases h1 : a1 = b
      · -- b is the start, y the stop
        have : nS = n' := C.spec.scopes.lblInj nS hmS n' (List.mem_of_getElem? hn')
          (by rw [lS, h1, hb])
        subst this
        have hsj : s = j := by
          have := fromMrs_node_id m C.hN d C.hd j nS hn'
          rw [hidS] at this
          exact nidAt_inj _ _ this.1
        subst hsj
        exact ⟨t, nT, htl, hnT, by rw [hy1 h1, lT], hlabST.symm⟩
      · have h2 : a2 = b := by rcases ‹a1 = b ∨ a2 = b› with h | h; exact absurd h h1; exact h
        have : nT = n' := C.spec.scopes.lblInj nT hmT n' (List.mem_of_getElem? hn')
          (by rw [lT, h2, hb])
        subst this
        have htj : t = j := by
          have := fromMrs_node_id m C.hN d C.hd j nT hn'
          rw [hidT] at this
          exact nidAt_inj _ _ this.1
        subst htj
        exact ⟨s, nS, hsl, hnS, by rw [hy2 h2, lS], hlabST⟩
    rcases hc with hbc | hcb
    · obtain ⟨k, nk, hk, hnk, hy, hlk⟩ := fromLink b c hbc (Or.inl rfl) c (fun _ => rfl)
        (fun e => e)
      exact ⟨k, nk, hk, hnk, hy, hlk.trans hlab⟩
    · obtain ⟨k, nk, hk, hnk, hy, hlk⟩ := fromLink c b hcb (Or.inr rfl) c (fun e => e)
        (fun _ => rfl)
      exact ⟨k, nk, hk, hnk, hy, hlk.trans hlab⟩

end RTCtx

end Verif.C04
