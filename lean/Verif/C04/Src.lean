/-
C04 — the in-space class stated on the SOURCE alone (`m` and `scope.representatives(m)`), and
that it implies the class stated on the DMRS of the first conversion; `strip` removes only what
the claim names when the top selects a scope, the index is an intrinsic variable and every
handle constraint is used.
-/
import Verif.C04.Total2

namespace Verif.C04
open Verif.Sem

/-! ### reachability is monotone in the edge set -/

theorem mem_symm {α : Type} (edges : List (α × α)) (x y : α) :
    (x, y) ∈ symm edges ↔ (x, y) ∈ edges ∨ (y, x) ∈ edges := by
  unfold symm
  rw [List.mem_append, List.mem_map]
  constructor
  · rintro (h | ⟨e, he, hx⟩)
    · exact Or.inl h
    · right
      have h1 : e.2 = x := (Prod.mk.inj hx).1
      have h2 : e.1 = y := (Prod.mk.inj hx).2
      rw [← h1, ← h2]; exact he
  · rintro (h | h)
    · exact Or.inl h
    · exact Or.inr ⟨(y, x), h, rfl⟩

theorem reach_mono_edges {α : Type} [DecidableEq α] (E E' : List (α × α))
    (hsub : ∀ x ∈ E, x ∈ E') (a b : α) (h : Reach (adjOf (symm E)) a b) :
    Reach (adjOf (symm E')) a b := by
  induction h with
  | refl => exact Reach.refl _
  | tail _ hc ih =>
    refine Reach.tail ih ?_
    rw [mem_adjOf, mem_symm] at hc ⊢
    rcases hc with h | h
    · exact Or.inl (hsub _ h)
    · exact Or.inr (hsub _ h)

/-! ### the MOD/EQ links of one scope -/

theorem idToNid_posOf (m : MRS) (p : Pred) (hp : p ∈ m.preds) :
    idToNid m p.1 = some (nidAt (posOf m p)) := by
  have hmem : p.1 ∈ m.ids := by
    unfold MRS.preds at hp
    exact (List.of_mem_zip hp).1
  unfold idToNid posOf
  rw [if_pos hmem]

theorem modLinksOf_mem (m : MRS) (r s' : Pred) (rest : List Pred)
    (hall : ∀ p ∈ r :: s' :: rest, p ∈ m.preds) :
    ∃ ls, modLinksOf m (r :: s' :: rest) = .ok ls ∧
      ∀ p ∈ s' :: rest,
        (⟨nidAt (posOf m p), nidAt (posOf m r), BARE_EQ_ROLE, EQ_POST⟩ : Link) ∈ ls := by
  unfold modLinksOf
  simp only
  rw [idToNid_posOf m r (hall r List.mem_cons_self)]
  simp only
  generalize hm : mapE _ (s' :: rest) = res
  cases res with
  | error e =>
    refine (mapE_not_error _ _ _ ?_ hm).elim
    intro p hp
    rw [idToNid_posOf m p (hall p (List.mem_cons_of_mem _ hp))]
    exact ⟨_, rfl⟩
  | ok ls =>
    refine ⟨ls, rfl, ?_⟩
    intro p hp
    obtain ⟨y, hy, hf⟩ := mapE_ok_mem_left _ _ _ hm p hp
    rw [idToNid_posOf m p (hall p (List.mem_cons_of_mem _ hp))] at hf
    simp only [Except.ok.injEq] at hf
    rw [hf]; exact hy

/-! ### `ScopesHeldSrc → ScopesHeld` -/

theorem srcEdges_sub (m : MRS) (hN : BaseIdsDistinct m) (reps : Reps) (d : DMRS)
    (hreps : m.representatives = .ok reps) (h1 : fromMrs m = .ok d) :
    ∀ x ∈ srcArgEdges m ++ srcModEdges m reps, x ∈ eqEdges d := by
  have hlink : ∀ l : Link, l ∈ d.links → l.post = EQ_POST → (l.start, l.stop) ∈ eqEdges d := by
    intro l hl hp
    unfold eqEdges
    exact List.mem_map.mpr ⟨l, List.mem_filter.mpr ⟨hl, by simpa using hp⟩, rfl⟩
  intro x hx
  rcases List.mem_append.mp hx with hx | hx
  · unfold srcArgEdges at hx
    obtain ⟨ei, hei, hx⟩ := List.mem_flatMap.mp hx
    obtain ⟨a, ha, hx⟩ := List.mem_filterMap.mp hx
    rw [List.mem_zipIdx_iff_getElem?] at hei
    cases hiv : ivToNid m a.2 with
    | none => rw [hiv] at hx; cases hx
    | some stop =>
      rw [hiv] at hx
      simp only at hx
      obtain ⟨j, e', hj, hq', hiv', hst⟩ := ivToNid_some m a.2 stop hiv
      rw [hst, relAt_nidAt, hj] at hx
      simp only at hx
      by_cases hlab : ei.1.label = e'.label
      · rw [if_pos hlab] at hx
        simp only [Option.some.injEq] at hx
        have hf : argLink m reps (nidAt ei.2) ei.1 a =
            .ok (some ⟨nidAt ei.2, stop, a.1, EQ_POST⟩) := by
          unfold argLink
          rw [hiv]
          simp only
          rw [epById_iv m hN j e' a.2 hj hq' hiv']
          simp only
          rw [if_pos hlab]
        have hl := (mem_fromMrs_links m reps d hreps h1 _).mpr
          (Or.inl ⟨ei.2, ei.1, a, hei, ha, hf⟩)
        have := hlink _ hl rfl
        rw [← hx, ← hst]; exact this
      · rw [if_neg hlab] at hx; cases hx
  · unfold srcModEdges at hx
    obtain ⟨s, hs, hx⟩ := List.mem_flatMap.mp hx
    rcases hs2 : s.2 with _ | ⟨r, _ | ⟨s', rest⟩⟩
    · rw [hs2] at hx; simp at hx
    · rw [hs2] at hx; simp at hx
    · rw [hs2] at hx
      simp only at hx
      obtain ⟨p, hp, hx⟩ := List.mem_map.mp hx
      have hall : ∀ q ∈ r :: s' :: rest, q ∈ m.preds := by
        intro q hq
        exact (rep_member m reps hreps s.1 s.2 (by exact hs) q (by rw [hs2]; exact hq)).1
      obtain ⟨ls, hls, hmem⟩ := modLinksOf_mem m r s' rest hall
      have hl := (mem_fromMrs_links m reps d hreps h1 _).mpr
        (Or.inr ⟨s, hs, ls, by rw [hs2]; exact hls, hmem p hp⟩)
      have := hlink _ hl rfl
      rw [← hx]; exact this

/-- **`ScopesHeld` from the source.** -/
theorem scopesHeld_of_src (m : MRS) (hN : BaseIdsDistinct m) (reps : Reps) (d : DMRS)
    (hreps : m.representatives = .ok reps) (h1 : fromMrs m = .ok d)
    (h : ScopesHeldSrc m reps = true) : ScopesHeld m d = true := by
  unfold ScopesHeldSrc at h
  unfold ScopesHeld
  simp only [List.all_eq_true, Bool.or_eq_true, bne_iff_ne, ne_eq, decide_eq_true_eq] at h ⊢
  intro ei hei ej hej
  rcases h ei hei ej hej with hne | hin
  · exact Or.inl hne
  · right
    rw [bfs_correct] at hin ⊢
    exact reach_mono_edges _ _ (srcEdges_sub m hN reps d hreps h1) _ _ hin

/-! ### `QuantHeadSrc → QuantHead` -/

/-- **O1 from the source.** -/
theorem quantHead_of_src (m : MRS) (hN : BaseIdsDistinct m) (reps : Reps) (d : DMRS)
    (hreps : m.representatives = .ok reps) (h1 : fromMrs m = .ok d)
    (h : QuantHeadSrc m reps = true) : QuantHead m d = true := by
  unfold QuantHeadSrc at h
  unfold QuantHead
  simp only [List.all_eq_true, Bool.or_eq_true, bne_iff_ne, ne_eq] at h ⊢
  intro l hl
  by_cases hr : l.role = RESTRICTION_ROLE
  · right
    rcases (mem_fromMrs_links m reps d hreps h1 l).mp hl with
      ⟨i, e, a, he, ha, hf⟩ | ⟨s, _, ls, hf, hin⟩
    · obtain ⟨hs, hrole⟩ := argLink_start_role m reps _ e a l hf
      have hsrc := h e (List.mem_of_getElem? he) a ha
      rcases hsrc with hne | hsrc
      · exact absurd (by rw [← hrole]; exact hr) hne
      rw [hs, relAt_nidAt, he]
      unfold rstrTarget at hsrc
      unfold argLink at hf
      cases hiv : ivToNid m a.2 with
      | some stop =>
        rw [hiv] at hf hsrc
        simp only at hf hsrc
        cases hep : epById m a.2 with
        | none => rw [hep] at hf; cases hf
        | some t =>
          rw [hep] at hf
          simp only [Except.ok.injEq, Option.some.injEq] at hf
          subst hf
          simp only
          obtain ⟨j, e', hj, _, _, hst⟩ := ivToNid_some m a.2 stop hiv
          rw [hst, relAt_nidAt, hj] at hsrc ⊢
          exact hsrc
      | none =>
        rw [hiv] at hf hsrc
        simp only at hf hsrc
        cases hlk : dlookup (scopalTarget m a.2).1 reps with
        | none => rw [hlk] at hf; cases hf
        | some rs =>
          rw [hlk] at hf hsrc
          cases rs with
          | nil => cases hf
          | cons r rest =>
            simp only at hf hsrc
            cases hn : idToNid m r.1 with
            | none => rw [hn] at hf; cases hf
            | some stop =>
              rw [hn] at hf
              simp only [Except.ok.injEq, Option.some.injEq] at hf
              subst hf
              simp only
              have hmem := (rep_lookup_member m reps hreps _ _ hlk r List.mem_cons_self).1
              obtain ⟨n, hn', hpred⟩ := idToNid_spec m hN r hmem
              rw [hn] at hn'
              cases hn'
              obtain ⟨p, hp1, hp2, _⟩ := predAt_some m _ _ hpred
              rw [hp1, relAt_nidAt, RTCtx.preds_snd m p r hp2]
              exact hsrc
    · exfalso
      have := (modLinksOf_role m _ _ hf l hin).1
      rw [hr] at this
      exact absurd this (by decide)
  · exact Or.inl hr

/-! ### the first conversion is total when the top scope has a representative -/

theorem fromMrs_total_of_topRep (m : MRS) (hN : BaseIdsDistinct m) (reps : Reps)
    (hreps : m.representatives = .ok reps) (hT : TopRep m reps = true) :
    ∃ d, fromMrs m = .ok d := by
  apply fromMrs_total_partial m hN
  intro reps' t hr' ht hbad
  rw [hreps] at hr'
  cases hr'
  unfold TopRep at hT
  rw [ht] at hT
  simp only at hT
  rw [hbad] at hT
  cases hT

/-! ### the in-space class on the source -/

/-- **The in-space class, on the source alone**: every hypothesis is a decidable predicate of `m`
and `reps = scope.representatives(m)`; none mentions the DMRS or the conversions. -/
structure InSpaceSrc (m : MRS) (reps : Reps) : Prop where
  hN : BaseIdsDistinct m
  hR : RolesOk m = true
  hS : IVSorts m = true
  hQ : RstrLinked m reps = true
  /-- every scope is connected through label-internal arguments and the ties between its
  representatives -/
  scopesHeld : ScopesHeldSrc m reps = true
  handleSorts : HandleSorts m = true
  topOk : TopOk m = true
  qeqOnly : QeqOnly m = true
  argsLinked : ArgsLinked m reps = true
  noCargRole : NoCargRole m = true
  oneConstraint : OneConstraint m = true
  noConstrainedLabel : NoConstrainedLabel m = true
  holesOnce : HolesOnce m = true
  quantBody : QuantBody m = true
  /-- O1 -/
  quantHead : QuantHeadSrc m reps = true
  /-- the scope the top selects has a representative (else IndexError, finding F08) -/
  topRep : TopRep m reps = true

theorem inSpace_of_src (m : MRS) (reps : Reps) (d : DMRS) (sp : InSpaceSrc m reps)
    (hreps : m.representatives = .ok reps) (h1 : fromMrs m = .ok d) : InSpace m reps d :=
  { hN := sp.hN, hR := sp.hR, hS := sp.hS, hQ := sp.hQ,
    hH := scopesHeld_of_src m sp.hN reps d hreps h1 sp.scopesHeld,
    handleSorts := sp.handleSorts, topOk := sp.topOk, qeqOnly := sp.qeqOnly,
    argsLinked := sp.argsLinked, noCargRole := sp.noCargRole, oneConstraint := sp.oneConstraint,
    noConstrainedLabel := sp.noConstrainedLabel, holesOnce := sp.holesOnce,
    quantBody := sp.quantBody,
    quantHead := quantHead_of_src m sp.hN reps d hreps h1 sp.quantHead }

/-! ### what `strip` removes -/

theorem hcLast_of_oneConstraint (m : MRS) (h : OneConstraint m = true) (hc : HCons)
    (hhc : hc ∈ m.hcons) : m.hcLast hc.hi = some hc := by
  have hnd : (m.hcons.map (·.hi)).Nodup := by
    unfold OneConstraint at h
    rw [beq_iff_eq] at h
    have h2 : (m.hcons.map (·.hi)).eraseDups.length = (m.hcons.map (·.hi)).length := by
      rw [h, List.length_map]
    exact (eraseDups_length_eq_iff _).mp h2
  cases hl : m.hcLast hc.hi with
  | none => exact absurd rfl (hcLast_none m hc.hi hl hc hhc)
  | some hc' =>
    obtain ⟨h1, h2⟩ := hcLast_some m hc.hi hc' hl
    rw [c07_inj_of_nodup_map (fun c : HCons => c.hi) m.hcons hnd hc' h1 hc hhc h2]

/-- an argument `strip` removes is none of: the intrinsic argument, the intrinsic variable of a
non-quantifier predication, a label, a constrained handle selecting a scope, a quantifier's
BODY. -/
theorem not_expressible_iff (m : MRS) (e : EP) (a : Role × Var) :
    expressible m e a = false ↔
      a.1 ≠ INTRINSIC_ROLE ∧ ivToNid m a.2 = none ∧ a.2 ∉ m.labels ∧ selectsScope m a.2 = false ∧
        ¬ (a.1 = BODY_ROLE ∧ e.isQuantifier = true) := by
  unfold expressible
  simp only [Bool.or_eq_false_iff, beq_eq_false_iff_ne, ne_eq, Option.isSome_eq_false_iff,
    Option.isNone_iff_eq_none, decide_eq_false_iff_not, Bool.and_eq_false_iff, and_assoc]
  constructor
  · rintro ⟨h1, h2, h3, h4, h5⟩
    refine ⟨h1, h2, h3, h4, ?_⟩
    rintro ⟨h6, h7⟩
    rcases h5 with h | h
    · exact h h6
    · rw [h7] at h; cases h
  · rintro ⟨h1, h2, h3, h4, h5⟩
    refine ⟨h1, h2, h3, h4, ?_⟩
    by_cases h6 : a.1 = BODY_ROLE
    · right
      cases hq : e.isQuantifier with
      | false => rfl
      | true => exact absurd ⟨h6, hq⟩ h5
    · exact Or.inl h6

end Verif.C04
