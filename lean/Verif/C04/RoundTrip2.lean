/-
C04 — round trip, part 2: everything known about `m2 = fromDmrs chosen d` (for a DMRS `d`
with pairwise distinct node ids), assembled from the loop lemmas of RoundTrip.lean.
-/
import Verif.C04.RoundTrip

namespace Verif.C04
open Verif.Sem

/-! ### small facts -/

theorem ivFold_index (R : List Nat) (d : DMRS) (qmap : List (Int × Int)) :
    ∀ (nodes : List Node) (M0 : List (Int × Var)) (f0 : VFac),
      (∀ k ∈ R, k ∈ f0.index) → ∀ k ∈ R, k ∈ (nodes.foldl (ivStep d qmap) (M0, f0)).2.index := by
  intro nodes
  induction nodes with
  | nil => intro M0 f0 h; exact h
  | cons n rest ih =>
    intro M0 f0 h
    rw [List.foldl_cons]
    by_cases hqs : n.id ∈ quantStarts d
    · have hstep : ivStep d qmap (M0, f0) n = (M0, f0) := by unfold ivStep; rw [if_pos hqs]
      rw [hstep]; exact ih M0 f0 h
    · have hstep : (ivStep d qmap (M0, f0) n).2 = (f0.new n.type n.properties).2 := by
        unfold ivStep; rw [if_neg hqs]
      have : ∀ k ∈ R, k ∈ (ivStep d qmap (M0, f0) n).2.index := by
        intro k hk; rw [hstep]; exact List.mem_cons_of_mem _ (h k hk)
      exact ih _ _ this

theorem idToLbl_vals : ∀ (nodes : List Node) (k : Nat) (acc : List (Int × Var)), 1 ≤ k →
    (∀ p ∈ acc, p.2.sort = HANDLE ∧ 1 ≤ p.2.vid) →
    ∀ p ∈ Verif.Sem.idToLbl k nodes acc, p.2.sort = HANDLE ∧ 1 ≤ p.2.vid := by
  intro nodes
  induction nodes with
  | nil => intro k acc _ h; exact h
  | cons n rest ih =>
    intro k acc hk h
    unfold Verif.Sem.idToLbl
    apply ih (k + 1) _ (by omega)
    intro p hp
    rcases mem_dset _ _ _ _ hp with rfl | hold
    · exact ⟨rfl, hk⟩
    · exact h p hold

theorem dlookup_append_some {κ ν : Type} [DecidableEq κ] (k : κ) (v : ν) (l l' : List (κ × ν))
    (h : dlookup k l = some v) : dlookup k (l ++ l') = some v := by
  induction l with
  | nil => simp [dlookup] at h
  | cons p l ih =>
    obtain ⟨k', v'⟩ := p
    by_cases hk : k' = k
    · simp only [List.cons_append, dlookup, if_pos hk] at h ⊢; exact h
    · simp only [List.cons_append, dlookup, if_neg hk] at h ⊢; exact ih h

/-- `_fill_variables` only adds missing variables. -/
theorem fillVars_lookup (vars : List (Var × Props)) (top index : Option Var) (rels : List EP)
    (hcons : List HCons) (v : Var) (ps : Props) (h : dlookup v vars = some ps) :
    dlookup v (fillVars vars top index rels hcons) = some ps := by
  have hadd : ∀ (vs : List (Var × Props)) (w : Var), dlookup v vs = some ps →
      dlookup v (if (dlookup w vs).isSome then vs else vs ++ [(w, [])]) = some ps := by
    intro vs w hv
    split
    · exact hv
    · exact dlookup_append_some _ _ _ _ hv
  have hargs : ∀ (as : List (Role × Var)) (vs : List (Var × Props)), dlookup v vs = some ps →
      dlookup v (as.foldl (fun vs a =>
        if (dlookup a.2 vs).isSome then vs else vs ++ [(a.2, [])]) vs) = some ps := by
    intro as
    induction as with
    | nil => intro vs hv; exact hv
    | cons a as ih => intro vs hv; rw [List.foldl_cons]; exact ih _ (hadd vs a.2 hv)
  have hrels : ∀ (es : List EP) (vs : List (Var × Props)), dlookup v vs = some ps →
      dlookup v (es.foldl (fun vs e => e.args.foldl (fun vs a =>
        if (dlookup a.2 vs).isSome then vs else vs ++ [(a.2, [])])
        (if (dlookup e.label vs).isSome then vs else vs ++ [(e.label, [])])) vs) = some ps := by
    intro es
    induction es with
    | nil => intro vs hv; exact hv
    | cons e es ih =>
      intro vs hv; rw [List.foldl_cons]; exact ih _ (hargs e.args _ (hadd vs e.label hv))
  have hhc : ∀ (hs : List HCons) (vs : List (Var × Props)), dlookup v vs = some ps →
      dlookup v (hs.foldl (fun vs hc =>
        if (dlookup hc.hi (if (dlookup hc.lo vs).isSome then vs else vs ++ [(hc.lo, [])])).isSome
        then (if (dlookup hc.lo vs).isSome then vs else vs ++ [(hc.lo, [])])
        else (if (dlookup hc.lo vs).isSome then vs else vs ++ [(hc.lo, [])]) ++ [(hc.hi, [])])
        vs) = some ps := by
    intro hs
    induction hs with
    | nil => intro vs hv; exact hv
    | cons c hs ih =>
      intro vs hv; rw [List.foldl_cons]; exact ih _ (hadd _ c.hi (hadd vs c.lo hv))
  unfold fillVars
  apply hhc
  apply hrels
  cases index with
  | none =>
    cases top with
    | none => exact h
    | some t => exact hadd _ t h
  | some i =>
    cases top with
    | none => exact hadd _ i h
    | some t => exact hadd _ i (hadd _ t h)

theorem qmapD_mem (d : DMRS) (qmap : List (Int × Int)) (h : qmapD d = .ok qmap) :
    ∀ p ∈ qmap, ∃ l ∈ d.links, l.role = RESTRICTION_ROLE ∧ p = (l.stop, l.start) := by
  unfold qmapD at h
  have key : ∀ (ls : List Link) (acc res : List (Int × Int)),
      (∀ l ∈ ls, l ∈ d.links ∧ l.role = RESTRICTION_ROLE) →
      (∀ p ∈ acc, ∃ l ∈ d.links, l.role = RESTRICTION_ROLE ∧ p = (l.stop, l.start)) →
      ls.foldlM (fun acc l =>
        if l.start ∈ d.ids then (Except.ok (dset l.stop l.start acc) : Except Err _)
        else .error Err.keyError) acc = .ok res →
      ∀ p ∈ res, ∃ l ∈ d.links, l.role = RESTRICTION_ROLE ∧ p = (l.stop, l.start) := by
    intro ls
    induction ls with
    | nil =>
      intro acc res _ hacc hf
      simp only [List.foldlM_nil] at hf
      cases hf; exact hacc
    | cons l ls ih =>
      intro acc res hls hacc hf
      rw [List.foldlM_cons] at hf
      by_cases h4 : l.start ∈ d.ids
      · rw [if_pos h4] at hf
        refine ih _ _ (fun l' hl' => hls l' (List.mem_cons_of_mem _ hl')) ?_ hf
        intro p hp
        rcases mem_dset _ _ _ _ hp with rfl | hold
        · obtain ⟨h1, h2⟩ := hls l List.mem_cons_self
          exact ⟨l, h1, h2, rfl⟩
        · exact hacc p hold
      · rw [if_neg h4] at hf; cases hf
  refine key _ [] qmap ?_ (by simp) h
  intro l hl
  rw [List.mem_filter] at hl
  exact ⟨hl.1, by simpa using hl.2⟩

/-! ### the assembled specification of `fromDmrs` -/

structure RTSpec (d : DMRS) (m2 : MRS) (topLbl : Option Var) (sc : List (Var × List Node))
    (lbl : Node → Var) (leqs : List (Var × Var)) (idToIv : List (Int × Var))
    (ns : List (Int × Role × Int)) (scs : List (Int × Role × String × Var))
    (lo hi : Nat) : Prop where
  scopes : ScopesSpec d topLbl sc lbl leqs
  nsMem : ∀ x ∈ ns, ∃ l ∈ d.links, x = (l.start, l.role, l.stop) ∧ nsLink d l
  nsComplete : ∀ l ∈ d.links, nsLink d l → (l.start, l.role, l.stop) ∈ ns
  scMem : ∀ x ∈ scs, ∃ l ∈ d.links, x.1 = l.start ∧ x.2.1 = l.role ∧ scRel l = some x.2.2.1 ∧
    lblOfNode sc l.stop = some x.2.2.2
  scComplete : ∀ l ∈ d.links, ∀ r, scRel l = some r →
    ∃ lb, lblOfNode sc l.stop = some lb ∧ (l.start, l.role, r, lb) ∈ scs
  len : m2.rels.length = d.nodes.length
  pos : ∀ (i : Nat) (n : Node), d.nodes[i]? = some n → ∃ e iv, m2.rels[i]? = some e ∧
    PosSpec (sc.map (fun s => s.1.vid)) d sc idToIv ns scs lo hi m2.hcons n e iv
  top : m2.top = (topNew d).1
  topVar : ∀ t, (topNew d).1 = some t → t = ⟨HANDLE, 0⟩ ∧ 0 < lo
  hcons : ∃ news, m2.hcons = hcTop (topNew d).1 topLbl ++ news ∧
    (∀ hc ∈ news, hc.rel = QEQ ∧ NewHole (sc.map (fun s => s.1.vid)) lo hi hc.hi ∧
      ∃ x ∈ scs, x.2.2.1 = QEQ ∧ hc.lo = x.2.2.2) ∧
    (news.map (·.hi.vid)).Nodup
  index : indexOf d idToIv = .ok m2.index
  ivNonQ : ∀ n ∈ d.nodes, n.id ∉ quantStarts d → ∃ iv, dlookup n.id idToIv = some iv ∧
    iv.sort = n.type.getD UNSPECIFIC ∧ iv.vid < lo ∧ m2.props iv = n.properties
  ivInj : ∀ n ∈ d.nodes, ∀ n' ∈ d.nodes, n.id ∉ quantStarts d → n'.id ∉ quantStarts d →
    ∀ iv iv', dlookup n.id idToIv = some iv → dlookup n'.id idToIv = some iv' →
      iv.vid = iv'.vid → n = n'
  ivQInj : ∀ q ∈ quantStarts d, ∀ q' ∈ quantStarts d, ∀ iv iv', dlookup q idToIv = some iv →
    dlookup q' idToIv = some iv' → iv.vid = iv'.vid → q = q'
  /-- the defining equations of the witnesses (so that further facts can be derived from the
  loops of `from_dmrs`) -/
  defs : ∃ (chosen : List Var) (qmap : List (Int × Int)) (st : BuildSt),
    scopesCh chosen d = .ok (topLbl, sc) ∧ nsArgsD d = .ok ns ∧ scArgsD d sc = .ok scs ∧
    qmapD d = .ok qmap ∧
    idToIv = (buildIvs d qmap (vfReserve (topNew d).2 sc)).1 ∧
    lo = (buildIvs d qmap (vfReserve (topNew d).2 sc)).2.vid ∧
    d.nodes.foldlM (buildRel d sc idToIv ns scs)
      { vf := (buildIvs d qmap (vfReserve (topNew d).2 sc)).2,
        hcons := hcTop (topNew d).1 topLbl, rels := [] } = .ok st ∧
    hi = st.vf.vid ∧ m2.rels = st.rels ∧ m2.hcons = st.hcons
  ivQ : ∀ q ∈ quantStarts d, ∀ iv, dlookup q idToIv = some iv →
    ∃ n ∈ d.nodes, n.id ∉ quantStarts d ∧ dlookup n.id idToIv = some iv ∧
      ∃ l ∈ d.links, l.role = RESTRICTION_ROLE ∧ l.start = q ∧ l.stop = n.id

theorem fromDmrs_spec (chosen : List Var) (d : DMRS) (hnd : d.ids.Nodup) (m2 : MRS)
    (h : fromDmrs chosen d = .ok m2) :
    ∃ topLbl sc lbl leqs idToIv ns scs lo hi,
      RTSpec d m2 topLbl sc lbl leqs idToIv ns scs lo hi := by
  obtain ⟨tsc, ns, scs, qmap, index, st, h1, h2, h3, h4, h5, h6, rfl⟩ := fromDmrs_inv chosen d m2 h
  obtain ⟨topLbl, sc⟩ := tsc
  simp only at h3 h5 h6 ⊢
  obtain ⟨lbl, leqs, S⟩ := scopesCh_spec chosen d hnd topLbl sc h1
  -- the factory states
  have hf0 : vfac0.Fresh := by intro p hp; simp [vfac0] at hp
  have hf1 : (topNew d).2.Fresh := by
    unfold topNew; split
    · exact VFac.new_fresh _ hf0 _ _
    · exact hf0
  have hfR : (vfReserve (topNew d).2 sc).Fresh := hf1
  have hRidx : ∀ k ∈ sc.map (fun s => s.1.vid), k ∈ (vfReserve (topNew d).2 sc).index := by
    intro k hk
    unfold vfReserve
    simp only [List.mem_append, List.mem_reverse]
    exact Or.inl hk
  obtain ⟨i1, i2, i3, i4, i5, i6, i7⟩ :=
    ivFold_spec d qmap (qmapD_vals d qmap h4) d.nodes [] (vfReserve (topNew d).2 sc) hnd
  have iR := ivFold_index (sc.map (fun s => s.1.vid)) d qmap d.nodes []
    (vfReserve (topNew d).2 sc) hRidx
  change _ ≤ (buildIvs d qmap (vfReserve (topNew d).2 sc)).2.vid at i1
  -- the top variable
  have htopvar : ∀ t, (topNew d).1 = some t →
      t = ⟨HANDLE, 0⟩ ∧ 0 < (buildIvs d qmap (vfReserve (topNew d).2 sc)).2.vid := by
    intro t ht
    cases hdt : d.top with
    | none => unfold topNew at ht; rw [hdt] at ht; cases ht
    | some t0 =>
      have e1 : (topNew d).1 = some ⟨HANDLE, 0⟩ := by unfold topNew; rw [hdt]; rfl
      have e2 : (vfReserve (topNew d).2 sc).vid = 1 := by unfold topNew vfReserve; rw [hdt]; rfl
      rw [e1] at ht
      cases ht
      refine ⟨rfl, ?_⟩
      rw [e2] at i1
      omega
  have hinv0 : ∀ hc ∈ hcTop (topNew d).1 topLbl,
      hc.hi.vid < (buildIvs d qmap (vfReserve (topNew d).2 sc)).2.vid := by
    intro hc hhc
    unfold hcTop at hhc
    cases ht : (topNew d).1 with
    | none => rw [ht] at hhc; simp at hhc
    | some t =>
      cases hl : topLbl with
      | none => rw [ht, hl] at hhc; simp at hhc
      | some l =>
        rw [ht, hl] at hhc
        simp only [List.mem_singleton] at hhc
        subst hhc
        obtain ⟨e, hpos⟩ := htopvar t ht
        rw [e]; exact hpos
  obtain ⟨es, news, b1, b2, b3, b4, b5, b6, b7, b8, b9, b10⟩ :=
    buildAll_spec (sc.map (fun s => s.1.vid)) d sc _ ns scs d.nodes _ st h6 hinv0 iR
  simp only [List.nil_append] at b1
  refine ⟨topLbl, sc, lbl, leqs, _, ns, scs, _, st.vf.vid,
    { scopes := S, nsMem := ?_, nsComplete := nsArgsD_complete d ns h2, scMem := ?_,
      scComplete := scArgsD_complete d sc scs h3, len := by simp [b1, b3], pos := ?_, top := rfl,
      topVar := htopvar, hcons := ⟨news, b2, ?_, b9⟩, index := h5, ivNonQ := ?_, ivInj := i7,
      ivQInj := ?_, ivQ := ?_,
      defs := ⟨chosen, qmap, st, h1, h2, h3, h4, rfl, rfl, h6, rfl, rfl, rfl⟩ }⟩
  · intro x hx
    obtain ⟨l, hl, he, hn, _⟩ := nsArgsD_mem d ns h2 x hx
    exact ⟨l, hl, he, hn⟩
  · intro x hx
    obtain ⟨l, hl, a1, a2, a3, a4, _⟩ := scArgsD_mem d sc scs h3 x hx
    exact ⟨l, hl, a1, a2, a3, a4⟩
  · intro i n hn
    obtain ⟨e, iv, he, ps⟩ := b10 i n hn
    exact ⟨e, iv, by simpa [b1] using he, ps⟩
  · intro hc hhc
    obtain ⟨c1, c2, n, _, x, hx, _, c3, c4⟩ := b8 hc hhc
    exact ⟨c1, c2, x, hx, c3, c4⟩
  · intro n hn hnq
    obtain ⟨iv, c1, c2, _, c4, c5⟩ := i4 n hn hnq
    refine ⟨iv, c1, c2, c4, ?_⟩
    unfold MRS.props
    simp only
    rw [fillVars_lookup _ _ _ _ _ iv n.properties (by rw [b6 iv c4]; exact c5)]
    rfl
  · intro q hq q' hq' iv iv' hiv hiv' hvid
    have key : ∀ q ∈ quantStarts d, ∀ iv,
        dlookup q (buildIvs d qmap (vfReserve (topNew d).2 sc)).1 = some iv →
        ∃ n ∈ d.nodes, n.id ∉ quantStarts d ∧ dlookup n.id qmap = some q ∧
          dlookup n.id (buildIvs d qmap (vfReserve (topNew d).2 sc)).1 = some iv := by
      intro q hq iv hiv
      rcases i6 q hq with hnone | ⟨n, hn, c1, c2, iv'', c3, c4⟩
      · change dlookup q (buildIvs d qmap (vfReserve (topNew d).2 sc)).1 = _ at hnone
        rw [hiv] at hnone
        simp [dlookup] at hnone
      · change dlookup q (buildIvs d qmap (vfReserve (topNew d).2 sc)).1 = _ at c3
        rw [hiv] at c3
        cases c3
        exact ⟨n, hn, c1, c2, c4⟩
    obtain ⟨n, hn, c1, c2, c3⟩ := key q hq iv hiv
    obtain ⟨n', hn', c1', c2', c3'⟩ := key q' hq' iv' hiv'
    have : n = n' := i7 n hn n' hn' c1 c1' iv iv' c3 c3' hvid
    subst this
    rw [c2] at c2'
    simpa using c2'
  · intro q hq iv hiv
    rcases i6 q hq with hnone | ⟨n, hn, c1, c2, iv', c3, c4⟩
    · change dlookup q (buildIvs d qmap (vfReserve (topNew d).2 sc)).1 = _ at hnone
      rw [hiv] at hnone
      simp [dlookup] at hnone
    · change dlookup q (buildIvs d qmap (vfReserve (topNew d).2 sc)).1 = _ at c3
      rw [hiv] at c3
      cases c3
      obtain ⟨l, hl, hr, he⟩ := qmapD_mem d qmap h4 _ (dlookup_mem c2)
      simp only [Prod.mk.injEq] at he
      exact ⟨n, hn, c1, c4, l, hl, hr, he.2.symm, he.1.symm⟩

end Verif.C04
