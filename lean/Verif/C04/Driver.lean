/- C04 line-protocol driver: `lake env lean --run Verif/C04/Driver.lean` -/
import Verif.Common.Proto
import Verif.Common.SemJson
import Verif.C04.Model
open Lean Verif.Proto Verif.Sem Verif.Sem.J Verif.C04

namespace Verif.C04.Driver

def errTag4 : Verif.C04.Err → String
  | .keyError => "KeyError"
  | .indexError => "IndexError"
  | .valueError => "MRSError"
  | .unmodelled => "unmodelled"
  | .fuel => "fuel"

def jExcept {α} (f : α → Json) : Except Verif.C04.Err α → Json
  | .ok a => jOk (f a)
  | .error e => jErr (errTag4 e)

def distinctNodeIds (d : DMRS) : Bool := d.ids.eraseDups.length == d.ids.length

/-- `{"op":"rt","m":mrs,"chosen":[var…]}` →
`{"d1": from_mrs(m), "m2": from_dmrs(d1), "d2": from_mrs(m2), "hyp": …}` -/
def handleRt (j : Json) : Except String Json := do
  let m ← ofMRS (← j.getObjVal? "m")
  let chosen ← (← arrOrEmpty j "chosen").mapM ofVar
  if !m.idsDistinct then
    return Json.mkObj [("unmodelled", Json.str "dup_ids")]
  let reps : Reps := match m.representatives with | .ok r1 => r1 | _ => []
  let repsOk : Bool := m.representatives matches .ok _
  -- the named hypotheses of the theorems that mention the source only: evaluated on every case
  let srcHyps : List (String × Json) := [
      ("baseIdsNodup", Json.bool ((m.rels.map EP.baseId).eraseDups.length == m.rels.length)),
      ("wf", Json.bool m.isWellFormed), ("ivprop", Json.bool m.hasIVProperty),
      ("rolesOk", Json.bool (RolesOk m)), ("ivSorts", Json.bool (IVSorts m)),
      ("rstrLinked", Json.bool (repsOk && RstrLinked m reps)),
      ("noDescArg", Json.bool (NoDescArg m)),
      ("handleSorts", Json.bool (HandleSorts m)), ("topOk", Json.bool (TopOk m)),
      ("qeqOnly", Json.bool (QeqOnly m)),
      ("argsLinked", Json.bool (repsOk && ArgsLinked m reps)),
      ("noCargRole", Json.bool (NoCargRole m)), ("oneConstraint", Json.bool (OneConstraint m)),
      ("noConstrainedLabel", Json.bool (NoConstrainedLabel m)), ("holesOnce", Json.bool (HolesOnce m)),
      ("quantBody", Json.bool (QuantBody m)),
      ("topRep", Json.bool (repsOk && TopRep m reps)),
      ("scopesHeldSrc", Json.bool (repsOk && ScopesHeldSrc m reps)),
      ("quantHeadSrc", Json.bool (repsOk && QuantHeadSrc m reps)),
      ("topSelects", Json.bool (TopSelects m)), ("indexIV", Json.bool (IndexIV m)),
      ("hconsUsed", Json.bool (HconsUsed m))]
  let d1 := fromMrs m
  match d1 with
  | .error _ => pure (Json.mkObj [("d1", jExcept jDMRS d1), ("hyp", Json.mkObj srcHyps)])
  | .ok d =>
    let m2 := fromDmrs chosen d
    -- … and those stated on the DMRS of the first conversion
    let hyps : List (String × Json) := srcHyps ++ [
        ("scopesHeld", Json.bool (ScopesHeld m d)), ("quantHead", Json.bool (QuantHead m d))]
    match m2 with
    | .error _ =>
      pure (Json.mkObj [("d1", jExcept jDMRS d1), ("m2", jExcept jMRS m2), ("hyp", Json.mkObj hyps)])
    | .ok mm =>
      let d2 : Json := if mm.idsDistinct then jExcept jDMRS (fromMrs mm) else jErr "unmodelled"
      let agree : Bool := match m.representatives, mm.representatives with
        | .ok r1, .ok r2 => repsPos m r1 == repsPos mm r2
        | _, _ => false
      let hyp2 := Json.mkObj (hyps ++ [("repsAgree", Json.bool agree)])
      pure (Json.mkObj [("d1", jExcept jDMRS d1), ("m2", jExcept jMRS m2), ("d2", d2), ("hyp", hyp2)])

/-- `{"op":"from_dmrs","d":dmrs,"chosen":[…]}` → `from_dmrs(d)` -/
def handleFromDmrs (j : Json) : Except String Json := do
  let d ← ofDMRS (← j.getObjVal? "d")
  let chosen ← (← arrOrEmpty j "chosen").mapM ofVar
  if !distinctNodeIds d then
    return Json.mkObj [("unmodelled", Json.str "dup_ids")]
  pure (Json.mkObj [("m2", jExcept jMRS (fromDmrs chosen d))])

def handle (j : Json) : Except String Json := do
  let op ← getStr j "op"
  match op with
  | "rt" => handleRt j
  | "from_dmrs" => handleFromDmrs j
  | _ => throw s!"bad op {op}"

end Verif.C04.Driver

def main : IO Unit := Verif.Proto.serve Verif.C04.Driver.handle
