/-
C04 — the round trip as ONE variable map, part 6: every variable of `strip m` is in the table;
assembly of `IsoVia`.
-/
import Verif.C04.Iso5

namespace Verif.C04
open Verif.Sem

section Frag
variable {m : MRS} {reps : Reps} {d : DMRS} {m2 : MRS} {chosen : List Var}

theorem mem_table_iv (hR : RolesOk m = true) (v w : Var) (h : IsIvPair m m2 v w) :
    (v, w) ∈ corrTable (strip m) m2 :=
  (mem_corrTable _ _ v w).mpr (Or.inr (Or.inl ((ivPair_strip hR v w).mpr h)))

theorem mem_table_lb (v w : Var) (h : IsLbPair m m2 v w) : (v, w) ∈ corrTable (strip m) m2 :=
  (mem_corrTable _ _ v w).mpr (Or.inr (Or.inr ((lbPair_strip v w).mpr h)))

theorem mem_table_top (v w : Var) (h : IsTopPair (strip m) m2 v w) :
    (v, w) ∈ corrTable (strip m) m2 :=
  (mem_corrTable _ _ v w).mpr (Or.inl h)

theorem pair_sort (sp : NoHoleSpace m reps) (h1 : fromMrs m = .ok d)
    (h2 : fromDmrs chosen d = .ok m2) (v w : Var) (h : (v, w) ∈ corrTable (strip m) m2) :
    w.sort = v.sort := by
  rw [mem_corrTable, ivPair_strip sp.hR, lbPair_strip] at h
  rcases h with ht | hi | hl
  · obtain ⟨_, _, hw, hv, _⟩ := topPair_facts sp h1 h2 v w ht
    rw [hw, hv]
  · obtain ⟨_, _, _, _, _, _, _, _, hs, _⟩ := ivPair_facts sp h1 h2 v w hi
    exact hs
  · obtain ⟨a, _, b, _⟩ := lbPair_facts sp h1 h2 v w hl
    rw [a, b]

/-- the top pair, when `strip` keeps the top. -/
theorem top_pair (sp : NoHoleSpace m reps) (hr : m.representatives = .ok reps)
    (h1 : fromMrs m = .ok d) (h2 : fromDmrs chosen d = .ok m2) (t : Var)
    (ht : (strip m).top = some t) :
    IsTopPair (strip m) m2 t ⟨HANDLE, 0⟩ ∧ ∃ hc p r rest ep2, m.hcLast t = some hc ∧
      hc.hi = t ∧ hc ∈ m.hcons ∧ hc.lo ∈ m.labels ∧ m.top = some t ∧
      dlookup hc.lo reps = some (r :: rest) ∧
      predAt m (nidAt p) = some r ∧ r.2.label = hc.lo ∧ m2.rels[p]? = some ep2 ∧
      m2.hcons = [⟨⟨HANDLE, 0⟩, QEQ, ep2.label⟩] := by
  obtain ⟨reps', topLbl, sc, lbl, leqs, idToIv, ns, scs, lo, hi, C⟩ :=
    rtctx m sp.hN sp.hR chosen d m2 h1 h2
  rcases top_cases sp hr h1 with ⟨hnone, _, _⟩ | ⟨t', hc, p, r, rest, a1, a2, a3, a4, a5, a6, a7, a8⟩
  · rw [hnone] at ht; cases ht
  · rw [a2] at ht
    simp only [Option.some.injEq] at ht
    subst ht
    have htn : (topNew d).1 = some ⟨HANDLE, 0⟩ := by unfold topNew; rw [a6]; rfl
    have hm2top : m2.top = some ⟨HANDLE, 0⟩ := by rw [C.spec.top]; exact htn
    obtain ⟨hc1, hc2⟩ := hcLast_some m t' hc a3
    obtain ⟨_, _, hp2, _⟩ := predAt_some m _ _ a7
    obtain ⟨p', hp', hpp, _⟩ := predAt_some m _ _ a7
    have : p' = p := (nidAt_inj _ _ hp').symm
    subst this
    obtain ⟨ep2, hep2⟩ := m2_rel_exists sp h1 h2 p' r.2 (RTCtx.preds_snd m p' r hpp)
    obtain ⟨tl, hh, htl⟩ := m2_hcons_frag sp h1 h2
    have := htl p' ep2 a6 hep2
    refine ⟨⟨a2, hm2top⟩, hc, p', r, rest, ep2, a3, hc2, hc1, a4, a1, a5, a7, a8, hep2, ?_⟩
    rw [hh, htn, this]; rfl

/-- every variable of `strip m` has a partner. -/
theorem table_total (sp : NoHoleSpace m reps) (hr : m.representatives = .ok reps)
    (h1 : fromMrs m = .ok d) (h2 : fromDmrs chosen d = .ok m2) (v : Var)
    (hv : v ∈ varsOf (strip m)) : ∃ w, (v, w) ∈ corrTable (strip m) m2 := by
  obtain ⟨reps', topLbl, sc, lbl, leqs, idToIv, ns, scs, lo, hi, C⟩ :=
    rtctx m sp.hN sp.hR chosen d m2 h1 h2
  have lblPartner : ∀ l, l ∈ m.labels → ∃ w, (l, w) ∈ corrTable (strip m) m2 := by
    intro l hl
    obtain ⟨e, he, hel⟩ := (mem_labels m l).mp hl
    obtain ⟨j, hj⟩ := List.mem_iff_getElem?.mp he
    obtain ⟨e2, he2⟩ := m2_rel_exists sp h1 h2 j e hj
    exact ⟨e2.label, mem_table_lb _ _ ⟨j, e, e2, hj, he2, hel, rfl⟩⟩
  unfold varsOf at hv
  simp only [List.mem_append, Option.mem_toList, List.mem_flatMap, List.mem_cons, List.mem_map] at hv
  rcases hv with ((ht | hi) | ⟨es, hes, hve⟩) | ⟨hc, hhc, hvh⟩
  · exact ⟨_, mem_table_top _ _ (top_pair sp hr h1 h2 v ht).1⟩
  · -- the index
    have hiv : (ivToNid m v).isSome = true := by
      unfold strip at hi
      simp only at hi
      cases hmi : m.index with
      | none => rw [hmi] at hi; cases hi
      | some x =>
        rw [hmi] at hi
        simp only at hi
        by_cases hs : (ivToNid m x).isSome = true
        · rw [if_pos hs] at hi
          simp only [Option.some.injEq] at hi
          rw [← hi]; exact hs
        · rw [if_neg hs] at hi; cases hi
    obtain ⟨nn, hnn⟩ := Option.isSome_iff_exists.mp hiv
    obtain ⟨j, ej, c1, c2, c3, _⟩ := ivToNid_some m v nn hnn
    obtain ⟨ej2, iv2, b1, b2, _⟩ := C.iv2_facts j ej c1 c2 v c3
    exact ⟨iv2, mem_table_iv sp.hR _ _ ⟨j, ej, ej2, c1, b1, c3, b2⟩⟩
  · obtain ⟨i, hi⟩ := List.mem_iff_getElem?.mp hes
    obtain ⟨e, he, rfl⟩ := strip_rel m i es hi
    obtain ⟨e2, he2⟩ := m2_rel_exists sp h1 h2 i e he
    rcases hve with hl | ⟨a, ha, hav⟩
    · exact ⟨e2.label, mem_table_lb _ _ ⟨i, e, e2, he, he2, hl.symm, rfl⟩⟩
    · simp only [List.mem_filter] at ha
      obtain ⟨w, _, hp⟩ := arg_forward sp hr h1 h2 i e e2 he he2 a.1 a.2 ha.1 ha.2
      rw [← hav]
      rcases hp with hp | hp
      · exact ⟨w, mem_table_iv sp.hR _ _ hp⟩
      · exact ⟨w, mem_table_lb _ _ hp⟩
  · -- a kept handle constraint
    have hkeep : hc ∈ m.hcons ∧ m.hcLast hc.hi = some hc ∧ hc.lo ∈ m.labels := by
      unfold strip at hhc
      simp only [List.mem_filter, Bool.and_eq_true, beq_iff_eq, decide_eq_true_eq] at hhc
      exact ⟨hhc.1, hhc.2.1.1, hhc.2.1.2⟩
    rcases hvh with rfl | hlo
    · -- the constrained handle: the top
      have htop : m.top = some hc.hi := by
        unfold strip at hhc
        simp only [List.mem_filter, Bool.and_eq_true, beq_iff_eq, decide_eq_true_eq, Bool.or_eq_true,
          List.any_eq_true] at hhc
        rcases hhc.2.2 with h | ⟨e, he, a, ha, hah⟩
        · exact h
        · exfalso
          have := sp.noConstr e he a ha
          rw [hah, hkeep.2.1] at this
          cases this
      have hst : (strip m).top = some hc.hi := by
        unfold strip
        simp only [htop]
        have : selectsScope m hc.hi = true := by
          unfold selectsScope; rw [hkeep.2.1]; simpa using hkeep.2.2
        rw [if_pos this]
      exact ⟨_, mem_table_top _ _ (top_pair sp hr h1 h2 hc.hi hst).1⟩
    · rcases hlo with rfl | hf
      · exact lblPartner hc.lo hkeep.2.2
      · simp at hf

end Frag

end Verif.C04
