/-
C04 — property theorems about the way back and the second conversion
(MRS → DMRS → MRS → DMRS), over the model `Verif.C04.Model`.

Hypotheses (each decidable, evaluated by the driver on every generated case, each shown
satisfiable by the `example` at the end):
  `BaseIdsDistinct m`  the identifiers `EP.__init__` assigns are pairwise distinct;
  `RolesOk m`          the roles of a predication are pairwise distinct (a `dict`) and none is `MOD`;
  `IVSorts m`          every non-quantifier predication has an intrinsic variable of a sort that
                       `from_dmrs` reads as an argument target (`node.type in 'xeipu'`).
All statements hold for EVERY choice `chosen` of scope labels by `scope.conjoin`.
-/
import Verif.C04.RoundTrip3

namespace Verif.C04
open Verif.Sem

/-! ## 1. "… with the top still selecting the same predication and the index the same
predication's variable" -/

/-- **Index.**  If the DMRS index is node `10000+j` (by `index_shape`: the non-quantifier
predication of `m` whose intrinsic variable is `m.index`), then the index of the MRS that comes
back is the intrinsic variable of ITS predication at position `j`, that predication is not a
quantifier, and no other non-quantifier predication has that variable.  Without a DMRS index
there is no index. -/
theorem roundtrip_index (m : MRS) (hN : BaseIdsDistinct m) (hR : RolesOk m = true)
    (hS : IVSorts m = true) (chosen : List Var) (d : DMRS) (m2 : MRS)
    (h1 : fromMrs m = .ok d) (h2 : fromDmrs chosen d = .ok m2) :
    (d.index = none → m2.index = none) ∧
    ∀ j, d.index = some (nidAt j) → ∃ v2 e2, m2.index = some v2 ∧ m2.rels[j]? = some e2 ∧
      e2.iv = some v2 ∧ e2.isQuantifier = false ∧
      ∀ k e', m2.rels[k]? = some e' → e'.isQuantifier = false → e'.iv = some v2 → k = j := by
  obtain ⟨reps, topLbl, sc, lbl, leqs, idToIv, ns, scs, lo, hi, C⟩ :=
    rtctx m hN hR chosen d m2 h1 h2
  have hidx := C.spec.index
  constructor
  · intro hnone
    unfold indexOf at hidx
    rw [hnone] at hidx
    simp only [Except.ok.injEq] at hidx
    exact hidx.symm
  · intro j hj
    obtain ⟨v, j', e, _, hej, hq, hiv, hnj⟩ := (index_shape m d h1).1 _ hj
    have : j' = j := (nidAt_inj _ _ hnj).symm
    subst this
    obtain ⟨n, e2, iv, hn, hid, he2, ps, he2iv⟩ := C.at_pos j' e hej
    -- the index variable
    unfold indexOf at hidx
    rw [hj] at hidx
    simp only [if_neg (nidAt_ne_zero j')] at hidx
    have hivk : dlookup (nidAt j') idToIv = some iv := by rw [← hid]; exact ps.ivOk
    rw [hivk] at hidx
    simp only [Except.ok.injEq] at hidx
    -- a link with role RSTR leaving node j' would make `e` a quantifier
    have noRstr : ∀ l ∈ d.links, l.start = n.id → l.role ≠ RESTRICTION_ROLE := by
      intro l hl hs hr
      have hjust := links_justified m hN reps d C.hreps h1 l hl
      have := rstr_link_quantifier m reps l hjust hr j' e (by rw [hs, hid]) hej
      rw [hq] at this; cases this
    have hnq2 : e2.isQuantifier = false := by
      cases hq2 : e2.isQuantifier with
      | false => rfl
      | true =>
        exfalso
        unfold EP.isQuantifier at hq2
        rw [List.any_eq_true] at hq2
        obtain ⟨a, ha, har⟩ := hq2
        have har : a.1 = RESTRICTION_ROLE := by simpa using har
        cases ps.origin a ha with
        | arg0 h =>
          rw [h] at har
          have har' : INTRINSIC_ROLE = RESTRICTION_ROLE := har
          exact absurd har' (by decide)
        | ns x hx hid' hr hv =>
          obtain ⟨l, hl, rfl, _⟩ := C.spec.nsMem x hx
          exact noRstr l hl hid' (by rw [← har, hr])
        | lheq x hx hid' hr hrel hv =>
          obtain ⟨l, hl, a1, a2, _⟩ := C.spec.scMem x hx
          exact noRstr l hl (by rw [← a1, hid']) (by rw [← a2, ← hr, har])
        | qeq x hx hid' hr hrel hnew hhc =>
          obtain ⟨l, hl, a1, a2, _⟩ := C.spec.scMem x hx
          exact noRstr l hl (by rw [← a1, hid']) (by rw [← a2, ← hr, har])
        | body hr _ _ _ => rw [hr] at har; exact absurd har (by decide)
    refine ⟨iv, e2, hidx.symm, he2, he2iv, hnq2, ?_⟩
    -- uniqueness
    intro k e' hk hq' hiv'
    have hklt : k < m.rels.length := by
      have := (List.getElem?_eq_some_iff.mp hk).1
      rw [C.spec.len, (nodes_shape m hN d h1).1] at this
      exact this
    obtain ⟨nk, ek2, ivk, hnk, hidk, hek2, psk, hek2iv⟩ :=
      C.at_pos k m.rels[k] (List.getElem?_eq_getElem hklt)
    rw [hk] at hek2
    cases hek2
    rw [hiv'] at hek2iv
    simp only [Option.some.injEq] at hek2iv
    have hjq : n.id ∉ quantStarts d := by
      rw [hid]; exact not_quantStart_of_nonquant m hN reps d C.hreps h1 j' e hej hq
    have hkq : nk.id ∉ quantStarts d := by
      intro hin
      unfold quantStarts at hin
      obtain ⟨l, hl, hs⟩ := List.mem_map.mp hin
      rw [List.mem_filter] at hl
      obtain ⟨hl1, hl2⟩ := hl
      have hl2 : l.role = RESTRICTION_ROLE := by simpa using hl2
      -- the RSTR link is read back, so `e'` has a RSTR argument
      have hin' : ∃ v, (RESTRICTION_ROLE, v) ∈ e'.args := by
        obtain ⟨_, c2, c3⟩ := psk.complete (C.rf nk.id)
        by_cases hsc : ∃ r, scRel l = some r
        · obtain ⟨r, hr⟩ := hsc
          obtain ⟨lb, _, hmem⟩ := C.spec.scComplete l hl1 r hr
          rcases c3 _ hmem hs with ⟨_, hm⟩ | ⟨_, hole, hm, _⟩
          · exact ⟨_, by rw [← hl2]; exact hm⟩
          · exact ⟨_, by rw [← hl2]; exact hm⟩
        · have hp1 : l.post ≠ H_POST := by
            intro hp; apply hsc; unfold scRel; rw [hp]; simp [H_POST, HEQ_POST]
          have hp2 : l.post ≠ HEQ_POST := by
            intro hp; apply hsc; unfold scRel; rw [hp]; simp
          have hnsl := nsLink_of_post m hN hS reps d C.hreps h1 l hl1
            (by rw [hl2]; decide) hp1 hp2
          obtain ⟨v, _, hm⟩ := c2 _ (C.spec.nsComplete l hl1 hnsl) hs
          exact ⟨v, by rw [← hl2]; exact hm⟩
      obtain ⟨v, hv⟩ := hin'
      have := isQuantifier_of_rstr e' v hv
      rw [hq'] at this; cases this
    have hnn : nk = n := C.spec.ivInj nk (List.mem_of_getElem? hnk) n (List.mem_of_getElem? hn)
      hkq hjq ivk iv psk.ivOk ps.ivOk (by rw [← hek2iv])
    rw [hnn, hid] at hidk
    exact (nidAt_inj _ _ hidk).symm

/-- **Top.**  If the DMRS top is node `10000+j` (by `top_shape`: the first representative of
the scope the top of `m` selects), then the MRS that comes back has a top handle, and the scope it
selects through its handle constraint is the scope of ITS predication at position `j`.  Without a
DMRS top there is no top. -/
theorem roundtrip_top (m : MRS) (hN : BaseIdsDistinct m) (hR : RolesOk m = true)
    (chosen : List Var) (d : DMRS) (m2 : MRS)
    (h1 : fromMrs m = .ok d) (h2 : fromDmrs chosen d = .ok m2) :
    (d.top = none → m2.top = none) ∧
    ∀ j, d.top = some (nidAt j) → ∃ e2, m2.rels[j]? = some e2 ∧
      m2.top = some ⟨HANDLE, 0⟩ ∧ m2.scopes.1 = some e2.label := by
  obtain ⟨reps, topLbl, sc, lbl, leqs, idToIv, ns, scs, lo, hi, C⟩ :=
    rtctx m hN hR chosen d m2 h1 h2
  constructor
  · intro hnone
    rw [C.spec.top]
    unfold topNew; rw [hnone]
  · intro j hj
    have hjin : nidAt j ∈ d.ids := (C.spec.scopes.topSome _ hj).1
    have hjlt : j < m.rels.length := (mem_fromMrs_ids m hN d h1 j).mp hjin
    obtain ⟨n, e2, iv, hn, hid, he2, ps, _⟩ := C.at_pos j m.rels[j] (List.getElem?_eq_getElem hjlt)
    have hnm : n ∈ d.nodes := List.mem_of_getElem? hn
    have htl : topLbl = some e2.label := by
      rw [C.spec.scopes.top_eq hnm (by rw [hid]; exact hj), ps.labelOk]
    have htop : m2.top = some ⟨HANDLE, 0⟩ := by
      rw [C.spec.top]; unfold topNew; rw [hj]; rfl
    refine ⟨e2, he2, htop, ?_⟩
    obtain ⟨news, hhc, _, _⟩ := C.spec.hcons
    have htn : (topNew d).1 = some ⟨HANDLE, 0⟩ := by rw [← C.spec.top]; exact htop
    have htt : m2.topTarget = some e2.label := by
      unfold MRS.topTarget
      rw [hhc, htn, htl, htop]
      simp [hcTop]
    unfold MRS.scopes
    simp only [htt]
    have hkey : e2.label ∈ dkeys m2.scopeMap := by
      rw [mem_scopeMap_keys]
      have hlen : j < m2.rels.length := (List.getElem?_eq_some_iff.mp he2).1
      obtain ⟨id, _, hp⟩ := preds_getElem? m2 j e2 he2
      exact ⟨(id, e2), List.mem_of_getElem? hp, rfl⟩
    rw [if_pos hkey]

end Verif.C04
