/-
C04 — property theorems about the way back and the second conversion
(MRS → DMRS → MRS → DMRS), over the model `Verif.C04.Model`.

Hypotheses (each decidable, evaluated by the driver on every generated case, each shown
satisfiable by the `example` at the end):
  `BaseIdsDistinct m`  the identifiers `EP.__init__` assigns are pairwise distinct;
  `RolesOk m`          the roles of a predication are pairwise distinct (a `dict`) and none is `MOD`;
  `IVSorts m`          every non-quantifier predication has an intrinsic variable of a sort that
                       `from_dmrs` reads as an argument target (`node.type in 'xeipu'`).
All statements hold for EVERY choice `chosen` of scope labels by `scope.conjoin`.
-/
import Verif.C04.RoundTrip8

namespace Verif.C04
open Verif.Sem

/-! ## 1. "… with the top still selecting the same predication and the index the same
predication's variable" -/

/-- **Index.**  If the DMRS index is node `10000+j` (by `index_shape`: the non-quantifier
predication of `m` whose intrinsic variable is `m.index`), then the index of the MRS that comes
back is the intrinsic variable of ITS predication at position `j`, that predication is not a
quantifier, and no other non-quantifier predication has that variable.  Without a DMRS index
there is no index. -/
theorem roundtrip_index (m : MRS) (hN : BaseIdsDistinct m) (hR : RolesOk m = true)
    (hS : IVSorts m = true) (chosen : List Var) (d : DMRS) (m2 : MRS)
    (h1 : fromMrs m = .ok d) (h2 : fromDmrs chosen d = .ok m2) :
    (d.index = none → m2.index = none) ∧
    ∀ j, d.index = some (nidAt j) → ∃ v2 e2, m2.index = some v2 ∧ m2.rels[j]? = some e2 ∧
      e2.iv = some v2 ∧ e2.isQuantifier = false ∧
      ∀ k e', m2.rels[k]? = some e' → e'.isQuantifier = false → e'.iv = some v2 → k = j := by
  obtain ⟨reps, topLbl, sc, lbl, leqs, idToIv, ns, scs, lo, hi, C⟩ :=
    rtctx m hN hR chosen d m2 h1 h2
  exact C.index_rt hS

/-- **Top.**  If the DMRS top is node `10000+j` (by `top_shape`: the first representative of
the scope the top of `m` selects), then the MRS that comes back has a top handle, and the scope it
selects through its handle constraint is the scope of ITS predication at position `j`.  Without a
DMRS top there is no top. -/
theorem roundtrip_top (m : MRS) (hN : BaseIdsDistinct m) (hR : RolesOk m = true)
    (chosen : List Var) (d : DMRS) (m2 : MRS)
    (h1 : fromMrs m = .ok d) (h2 : fromDmrs chosen d = .ok m2) :
    (d.top = none → m2.top = none) ∧
    ∀ j, d.top = some (nidAt j) → ∃ e2, m2.rels[j]? = some e2 ∧
      m2.top = some ⟨HANDLE, 0⟩ ∧ m2.scopes.1 = some e2.label := by
  obtain ⟨reps, topLbl, sc, lbl, leqs, idToIv, ns, scs, lo, hi, C⟩ :=
    rtctx m hN hR chosen d m2 h1 h2
  constructor
  · intro hnone
    rw [C.spec.top]
    unfold topNew; rw [hnone]
  · intro j hj
    have hjin : nidAt j ∈ d.ids := (C.spec.scopes.topSome _ hj).1
    have hjlt : j < m.rels.length := (mem_fromMrs_ids m hN d h1 j).mp hjin
    obtain ⟨n, e2, iv, hn, hid, he2, ps, _⟩ := C.at_pos j m.rels[j] (List.getElem?_eq_getElem hjlt)
    have hnm : n ∈ d.nodes := List.mem_of_getElem? hn
    have htl : topLbl = some e2.label := by
      rw [C.spec.scopes.top_eq hnm (by rw [hid]; exact hj), ps.labelOk]
    have htop : m2.top = some ⟨HANDLE, 0⟩ := by
      rw [C.spec.top]; unfold topNew; rw [hj]; rfl
    refine ⟨e2, he2, htop, ?_⟩
    obtain ⟨news, hhc, _, _⟩ := C.spec.hcons
    have htn : (topNew d).1 = some ⟨HANDLE, 0⟩ := by rw [← C.spec.top]; exact htop
    have htt : m2.topTarget = some e2.label := by
      unfold MRS.topTarget
      rw [hhc, htn, htl, htop]
      simp [hcTop]
    unfold MRS.scopes
    simp only [htt]
    have hkey : e2.label ∈ dkeys m2.scopeMap := by
      rw [mem_scopeMap_keys]
      have hlen : j < m2.rels.length := (List.getElem?_eq_some_iff.mp he2).1
      obtain ⟨id, _, hp⟩ := preds_getElem? m2 j e2 he2
      exact ⟨(id, e2), List.mem_of_getElem? hp, rfl⟩
    rw [if_pos hkey]

/-! ## 2. "… converting that MRS to DMRS again gives the same nodes, top, index and set of links" -/

/-
FULL STATEMENT (not proved in this form):
  BaseIdsDistinct m → RolesOk m → IVSorts m → RstrLinked m reps → (every scope that an argument or
  the top selects has a representative, and every scope is held together by EQ and MOD/EQ links)
  → the four equalities below.
What is proved: the statement with the hypothesis `RepsAgree` — the representatives of the MRS
that comes back sit at the same positions, scope by scope, as those of the source — in place of
the last condition.  `RepsAgree` is decidable; the driver evaluates it on every generated case
(it holds on all cases of the property's space without a starved group, i.e. outside finding F08).
Missing for the full statement: invariance of `scope.descendants` / `scope.representatives` under
the positional correspondence between `m` and `m2`.
-/

/-- the representatives of two MRSs sit at the same positions, scope by scope. -/
def RepsAgree (m m2 : MRS) (reps reps2 : Reps) : Prop := repsPos m reps = repsPos m2 reps2

instance (m m2 : MRS) (reps reps2 : Reps) : Decidable (RepsAgree m m2 reps reps2) := by
  unfold RepsAgree; infer_instance

/-- **Second conversion.**  `fromMrs (fromDmrs (fromMrs m))` has the same nodes, the same top, the
same index and the same SET of links as `fromMrs m`, for every choice of scope labels by
`conjoin` — whenever the three conversions succeed, the identifiers of `m` are pairwise distinct,
roles are `dict` keys other than `MOD`, intrinsic variables have sorts `from_dmrs` reads, every
quantifier keeps its RSTR link, and the representatives agree positionally. -/
theorem second_conversion_stable_partial (m : MRS) (hN : BaseIdsDistinct m)
    (hR : RolesOk m = true) (hS : IVSorts m = true) (chosen : List Var) (d : DMRS) (m2 : MRS)
    (d2 : DMRS) (h1 : fromMrs m = .ok d) (h2 : fromDmrs chosen d = .ok m2)
    (h3 : fromMrs m2 = .ok d2) (reps reps2 : Reps) (hr : m.representatives = .ok reps)
    (hr2 : m2.representatives = .ok reps2) (hQ : RstrLinked m reps = true)
    (hA : RepsAgree m m2 reps reps2) :
    d2.nodes = d.nodes ∧ d2.top = d.top ∧ d2.index = d.index ∧
    ∀ l, l ∈ d2.links ↔ l ∈ d.links := by
  obtain ⟨reps', topLbl, sc, lbl, leqs, idToIv, ns, scs, lo, hi, C⟩ :=
    rtctx m hN hR chosen d m2 h1 h2
  have : reps' = reps := by
    have := C.hreps
    rw [hr] at this
    simpa using this.symm
  subst this
  exact ⟨C.second_nodes hS hQ d2 h3, C.second_top hS reps2 hr2 hA d2 h3,
    C.second_index hS d2 h3, C.second_links hR hS reps2 hr2 hA d2 h3⟩

/-- the identifiers of the MRS that comes back are pairwise distinct, so every theorem of
`Props.lean` (link justification, node/top/index shape, totality) applies to the second
conversion as well. -/
theorem roundtrip_baseIds (m : MRS) (hN : BaseIdsDistinct m) (hR : RolesOk m = true)
    (hS : IVSorts m = true) (chosen : List Var) (d : DMRS) (m2 : MRS)
    (h1 : fromMrs m = .ok d) (h2 : fromDmrs chosen d = .ok m2) : BaseIdsDistinct m2 := by
  obtain ⟨reps, topLbl, sc, lbl, leqs, idToIv, ns, scs, lo, hi, C⟩ :=
    rtctx m hN hR chosen d m2 h1 h2
  exact C.baseIds2 hS

/-- the hypotheses are satisfiable together, on a structure with a quantifier, a modifier sharing
a label, a qeq-scopal and a label-scopal argument: "the big dog does not bark" (with the negated
clause also given as a direct label argument of a second operator). -/
def bigDog : MRS :=
  { top := some ⟨"h", 0⟩, index := some ⟨"e", 2⟩,
    rels := [ { predicate := "_the_q", label := ⟨"h", 4⟩,
                args := [("ARG0", ⟨"x", 3⟩), ("RSTR", ⟨"h", 5⟩), ("BODY", ⟨"h", 6⟩)] },
              { predicate := "_big_a_1", label := ⟨"h", 7⟩,
                args := [("ARG0", ⟨"e", 8⟩), ("ARG1", ⟨"x", 3⟩)] },
              { predicate := "_dog_n_1", label := ⟨"h", 7⟩, args := [("ARG0", ⟨"x", 3⟩)] },
              { predicate := "neg", label := ⟨"h", 1⟩,
                args := [("ARG0", ⟨"e", 9⟩), ("ARG1", ⟨"h", 10⟩)] },
              { predicate := "_bark_v_1", label := ⟨"h", 11⟩,
                args := [("ARG0", ⟨"e", 2⟩), ("ARG1", ⟨"x", 3⟩)] },
              { predicate := "_again_a_1", label := ⟨"h", 1⟩,
                args := [("ARG0", ⟨"e", 12⟩), ("ARG1", ⟨"h", 13⟩)] },
              { predicate := "_rain_v_1", label := ⟨"h", 13⟩, args := [("ARG0", ⟨"e", 14⟩)] } ],
    hcons := [⟨⟨"h", 0⟩, "qeq", ⟨"h", 1⟩⟩, ⟨⟨"h", 5⟩, "qeq", ⟨"h", 7⟩⟩,
              ⟨⟨"h", 10⟩, "qeq", ⟨"h", 11⟩⟩] }

/-- all three conversions succeed on `m`, every quantifier keeps its RSTR link, the
representatives agree, and the second conversion has the same nodes. -/
def stableCheck (m : MRS) (chosen : List Var) : Bool :=
  match m.representatives, fromMrs m with
  | .ok reps, .ok d =>
    RstrLinked m reps &&
    (match fromDmrs chosen d with
     | .ok m2 =>
       (match m2.representatives, fromMrs m2 with
        | .ok reps2, .ok d2 => decide (RepsAgree m m2 reps reps2) && decide (d2.nodes = d.nodes)
        | _, _ => false)
     | _ => false)
  | _, _ => false

example :
    BaseIdsDistinct bigDog ∧ RolesOk bigDog = true ∧ IVSorts bigDog = true ∧
    bigDog.isWellFormed = true ∧ stableCheck bigDog [] = true :=
  ⟨by decide, by decide, by decide, by decide, by decide⟩

end Verif.C04
