/-
C04 — property theorems about the way back and the second conversion
(MRS → DMRS → MRS → DMRS), over the model `Verif.C04.Model`.

Hypotheses (each decidable, evaluated by the driver on every generated case, each shown
satisfiable by the `example` at the end):
  `BaseIdsDistinct m`  the identifiers `EP.__init__` assigns are pairwise distinct;
  `RolesOk m`          the roles of a predication are pairwise distinct (a `dict`) and none is `MOD`;
  `IVSorts m`          every non-quantifier predication has an intrinsic variable of a sort that
                       `from_dmrs` reads as an argument target (`node.type in 'xeipu'`).
All statements hold for EVERY choice `chosen` of scope labels by `scope.conjoin`.
-/
import Verif.C04.RepsAgree5

namespace Verif.C04
open Verif.Sem

/-! ## 1. "… with the top still selecting the same predication and the index the same
predication's variable" -/

/-- **Index.**  If the DMRS index is node `10000+j` (by `index_shape`: the non-quantifier
predication of `m` whose intrinsic variable is `m.index`), then the index of the MRS that comes
back is the intrinsic variable of ITS predication at position `j`, that predication is not a
quantifier, and no other non-quantifier predication has that variable.  Without a DMRS index
there is no index. -/
theorem roundtrip_index (m : MRS) (hN : BaseIdsDistinct m) (hR : RolesOk m = true)
    (hS : IVSorts m = true) (chosen : List Var) (d : DMRS) (m2 : MRS)
    (h1 : fromMrs m = .ok d) (h2 : fromDmrs chosen d = .ok m2) :
    (d.index = none → m2.index = none) ∧
    ∀ j, d.index = some (nidAt j) → ∃ v2 e2, m2.index = some v2 ∧ m2.rels[j]? = some e2 ∧
      e2.iv = some v2 ∧ e2.isQuantifier = false ∧
      ∀ k e', m2.rels[k]? = some e' → e'.isQuantifier = false → e'.iv = some v2 → k = j := by
  obtain ⟨reps, topLbl, sc, lbl, leqs, idToIv, ns, scs, lo, hi, C⟩ :=
    rtctx m hN hR chosen d m2 h1 h2
  exact C.index_rt hS

/-- **Top.**  If the DMRS top is node `10000+j` (by `top_shape`: the first representative of
the scope the top of `m` selects), then the MRS that comes back has a top handle, and the scope it
selects through its handle constraint is the scope of ITS predication at position `j`.  Without a
DMRS top there is no top. -/
theorem roundtrip_top (m : MRS) (hN : BaseIdsDistinct m) (hR : RolesOk m = true)
    (chosen : List Var) (d : DMRS) (m2 : MRS)
    (h1 : fromMrs m = .ok d) (h2 : fromDmrs chosen d = .ok m2) :
    (d.top = none → m2.top = none) ∧
    ∀ j, d.top = some (nidAt j) → ∃ e2, m2.rels[j]? = some e2 ∧
      m2.top = some ⟨HANDLE, 0⟩ ∧ m2.scopes.1 = some e2.label := by
  obtain ⟨reps, topLbl, sc, lbl, leqs, idToIv, ns, scs, lo, hi, C⟩ :=
    rtctx m hN hR chosen d m2 h1 h2
  constructor
  · intro hnone
    rw [C.spec.top]
    unfold topNew; rw [hnone]
  · intro j hj
    have hjin : nidAt j ∈ d.ids := (C.spec.scopes.topSome _ hj).1
    have hjlt : j < m.rels.length := (mem_fromMrs_ids m hN d h1 j).mp hjin
    obtain ⟨n, e2, iv, hn, hid, he2, ps, _⟩ := C.at_pos j m.rels[j] (List.getElem?_eq_getElem hjlt)
    have hnm : n ∈ d.nodes := List.mem_of_getElem? hn
    have htl : topLbl = some e2.label := by
      rw [C.spec.scopes.top_eq hnm (by rw [hid]; exact hj), ps.labelOk]
    have htop : m2.top = some ⟨HANDLE, 0⟩ := by
      rw [C.spec.top]; unfold topNew; rw [hj]; rfl
    refine ⟨e2, he2, htop, ?_⟩
    obtain ⟨news, hhc, _, _⟩ := C.spec.hcons
    have htn : (topNew d).1 = some ⟨HANDLE, 0⟩ := by rw [← C.spec.top]; exact htop
    have htt : m2.topTarget = some e2.label := by
      unfold MRS.topTarget
      rw [hhc, htn, htl, htop]
      simp [hcTop]
    unfold MRS.scopes
    simp only [htt]
    have hkey : e2.label ∈ dkeys m2.scopeMap := by
      rw [mem_scopeMap_keys]
      have hlen : j < m2.rels.length := (List.getElem?_eq_some_iff.mp he2).1
      obtain ⟨id, _, hp⟩ := preds_getElem? m2 j e2 he2
      exact ⟨(id, e2), List.mem_of_getElem? hp, rfl⟩
    rw [if_pos hkey]

/-! ## 2. "… converting that MRS to DMRS again gives the same nodes, top, index and set of links" -/

/-
STATUS.  `second_conversion_stable_partial` below carries the decidable hypothesis `RepsAgree`
(the representatives of the MRS that comes back sit at the same positions, scope by scope, as
those of the source), which mentions `m2`.  It is discharged from hypotheses on `m` and its DMRS
by `repsAgree_of_space`, giving `second_conversion_stable`; PropsSrc.lean then removes every
hypothesis about a conversion: `second_conversion_stable_src` states the theorem from predicates
of `m` and `scope.representatives(m)` alone and PROVES that the three conversions succeed
(`roundtrip_total`, `second_conversion_total`).  Still open: the theorem without `NoDescArg`
(see the comment before `second_conversion_stable`).
-/

/-- the representatives of two MRSs sit at the same positions, scope by scope. -/
def RepsAgree (m m2 : MRS) (reps reps2 : Reps) : Prop := repsPos m reps = repsPos m2 reps2

instance (m m2 : MRS) (reps reps2 : Reps) : Decidable (RepsAgree m m2 reps reps2) := by
  unfold RepsAgree; infer_instance

/-- **Second conversion.**  `fromMrs (fromDmrs (fromMrs m))` has the same nodes, the same top, the
same index and the same SET of links as `fromMrs m`, for every choice of scope labels by
`conjoin` — whenever the three conversions succeed, the identifiers of `m` are pairwise distinct,
roles are `dict` keys other than `MOD`, intrinsic variables have sorts `from_dmrs` reads, every
quantifier keeps its RSTR link, and the representatives agree positionally. -/
theorem second_conversion_stable_partial (m : MRS) (hN : BaseIdsDistinct m)
    (hR : RolesOk m = true) (hS : IVSorts m = true) (chosen : List Var) (d : DMRS) (m2 : MRS)
    (d2 : DMRS) (h1 : fromMrs m = .ok d) (h2 : fromDmrs chosen d = .ok m2)
    (h3 : fromMrs m2 = .ok d2) (reps reps2 : Reps) (hr : m.representatives = .ok reps)
    (hr2 : m2.representatives = .ok reps2) (hQ : RstrLinked m reps = true)
    (hA : RepsAgree m m2 reps reps2) :
    d2.nodes = d.nodes ∧ d2.top = d.top ∧ d2.index = d.index ∧
    ∀ l, l ∈ d2.links ↔ l ∈ d.links := by
  obtain ⟨reps', topLbl, sc, lbl, leqs, idToIv, ns, scs, lo, hi, C⟩ :=
    rtctx m hN hR chosen d m2 h1 h2
  have : reps' = reps := by
    have := C.hreps
    rw [hr] at this
    simpa using this.symm
  subst this
  exact ⟨C.second_nodes hS hQ d2 h3, C.second_top hS reps2 hr2 hA d2 h3,
    C.second_index hS d2 h3, C.second_links hR hS reps2 hr2 hA d2 h3⟩

/-- **The representatives agree** — `RepsAgree` discharged from hypotheses on `m` alone (its DMRS
`d` is a function of `m`): in addition to the hypotheses above,
`ScopesHeld m d` — every scope of `m` is held together by the EQ links of its DMRS (no group of
members without a representative: the negation is the input class of finding F08), and
`NoDescArg m` — no predication takes, as a non-scopal argument, a scopal descendant of another
member of its own scope (so the second blocking test of `scope.representatives` never fires; the
proof uses soundness of `scope.descendants`, not its exact value, and therefore needs no
acyclicity assumption).  Both are decidable and evaluated by the driver on every case. -/
theorem repsAgree_of_space (m : MRS) (hN : BaseIdsDistinct m) (hR : RolesOk m = true)
    (hS : IVSorts m = true) (chosen : List Var) (d : DMRS) (m2 : MRS)
    (h1 : fromMrs m = .ok d) (h2 : fromDmrs chosen d = .ok m2) (reps reps2 : Reps)
    (hr : m.representatives = .ok reps) (hr2 : m2.representatives = .ok reps2)
    (hQ : RstrLinked m reps = true) (hH : ScopesHeld m d = true) (hD : NoDescArg m = true) :
    RepsAgree m m2 reps reps2 := by
  obtain ⟨reps', topLbl, sc, lbl, leqs, idToIv, ns, scs, lo, hi, C⟩ :=
    rtctx m hN hR chosen d m2 h1 h2
  have : reps' = reps := by
    have := C.hreps
    rw [hr] at this
    simpa using this.symm
  subst this
  exact C.repsAgree hR hS hQ hH hD reps2 hr2

/-
FULL STATEMENT (not proved): the theorem below without `NoDescArg m`.
Missing: when a predication takes a scopal descendant of a co-member as an argument, the blocking
test consults the VALUE of `scope.descendants`, which for cyclic scopal structures depends on the
order of the arguments; invariance of that value under the positional correspondence needs the
exact argument order of the rebuilt predications.  No counter-example is known (the driver finds
`RepsAgree` true on every generated case satisfying the other hypotheses).
-/

/-- **Second conversion, from hypotheses on `m` alone.**  For every MRS `m` with pairwise distinct
identifiers, `dict`-like roles other than `MOD`, intrinsic variables of sorts `from_dmrs` reads,
quantifiers that keep their RSTR link, scopes held together by EQ links and no argument into a
scopal descendant of a co-member, and for every choice of scope labels by `conjoin`: if the three
conversions succeed, `fromMrs (fromDmrs chosen (fromMrs m))` has the same nodes, top, index and the
same set of links as `fromMrs m`. -/
theorem second_conversion_stable (m : MRS) (hN : BaseIdsDistinct m)
    (hR : RolesOk m = true) (hS : IVSorts m = true) (chosen : List Var) (d : DMRS) (m2 : MRS)
    (d2 : DMRS) (h1 : fromMrs m = .ok d) (h2 : fromDmrs chosen d = .ok m2)
    (h3 : fromMrs m2 = .ok d2) (reps : Reps) (hr : m.representatives = .ok reps)
    (hQ : RstrLinked m reps = true) (hH : ScopesHeld m d = true) (hD : NoDescArg m = true) :
    d2.nodes = d.nodes ∧ d2.top = d.top ∧ d2.index = d.index ∧
    ∀ l, l ∈ d2.links ↔ l ∈ d.links := by
  obtain ⟨reps2, hr2⟩ := MRS.representatives_total m2
  exact second_conversion_stable_partial m hN hR hS chosen d m2 d2 h1 h2 h3 reps reps2 hr hr2 hQ
    (repsAgree_of_space m hN hR hS chosen d m2 h1 h2 reps reps2 hr hr2 hQ hH hD)

/-- the identifiers of the MRS that comes back are pairwise distinct, so every theorem of
`Props.lean` (link justification, node/top/index shape, totality) applies to the second
conversion as well. -/
theorem roundtrip_baseIds (m : MRS) (hN : BaseIdsDistinct m) (hR : RolesOk m = true)
    (hS : IVSorts m = true) (chosen : List Var) (d : DMRS) (m2 : MRS)
    (h1 : fromMrs m = .ok d) (h2 : fromDmrs chosen d = .ok m2) : BaseIdsDistinct m2 := by
  obtain ⟨reps, topLbl, sc, lbl, leqs, idToIv, ns, scs, lo, hi, C⟩ :=
    rtctx m hN hR chosen d m2 h1 h2
  exact C.baseIds2 hS

/-! ## 3. "… yields an MRS isomorphic to the original once what DMRS cannot express … is removed":
the positional form of the isomorphism

The correspondence is positional: the predication at position `i` of `m` ↦ the one at position `i`
of `m2` (`roundtrip_predications`), its intrinsic variable ↦ the intrinsic variable there, its
label ↦ the label there, the hole of its qeq argument with role `r` ↦ the hole of the argument
with role `r` there.  The theorems below state that this correspondence preserves arguments,
handle constraints and label sharing.  They are packaged as ONE injective variable map between
`strip m` and `m2` in PropsIso.lean (`roundtrip_iso`, on the class `InSpace`) and PropsSrc.lean
(`roundtrip_iso_src`, hypotheses on the source alone, conversions proved to succeed).  The two
hypotheses the packaging needs beyond the ones below, both forced by the code: (a) every scope is
held together by EQ and MOD/EQ links (no group of its members without a representative —
otherwise the round trip splits the scope, finding F08), needed for "same label in `m` ⇒ same
label in `m2`"; (b) O1: every quantifier binds the intrinsic variable of the first representative
of its restriction (otherwise the round trip rebinds it or `from_dmrs` raises KeyError;
`roundtrip_iso_needs_O1`).  `roundtrip_labels` gives the converse direction of (a)
unconditionally. -/

/-- **Arguments, forward.**  A non-scopal argument `(r, v)` of the predication at `i`, `v` the
intrinsic variable of the non-quantifier at `j`, comes back as `(r, v2)` with `v2` the intrinsic
variable of the predication at `j` of `m2`. -/
theorem roundtrip_nonscopal_args (m : MRS) (hN : BaseIdsDistinct m) (hR : RolesOk m = true)
    (hS : IVSorts m = true) (chosen : List Var) (d : DMRS) (m2 : MRS)
    (h1 : fromMrs m = .ok d) (h2 : fromDmrs chosen d = .ok m2)
    (i j : Nat) (e ej e2 ej2 : EP) (he : m.rels[i]? = some e) (hej : m.rels[j]? = some ej)
    (he2 : m2.rels[i]? = some e2) (hej2 : m2.rels[j]? = some ej2)
    (r : Role) (v : Var) (ha : (r, v) ∈ e.outArgs none) (hq : ej.isQuantifier = false)
    (hiv : ej.iv = some v) : ∃ v2, ej2.iv = some v2 ∧ (r, v2) ∈ e2.args := by
  obtain ⟨reps, topLbl, sc, lbl, leqs, idToIv, ns, scs, lo, hi, C⟩ :=
    rtctx m hN hR chosen d m2 h1 h2
  obtain ⟨o, ho, hol⟩ := fromMrs_argLink_ok m reps d C.hreps h1 i e he (r, v) ha
  obtain ⟨nn, hnn⟩ := ivToNid_isSome m v ej (List.mem_of_getElem? hej) hq hiv
  obtain ⟨l, rfl⟩ := argLink_some_of_linked m reps _ e (r, v) o ho (by
    unfold argLinked; rw [hnn]; rfl)
  have hl := hol l rfl
  obtain ⟨hstart, hrole⟩ := argLink_start_role m reps _ e (r, v) l ho
  -- the link goes to node j
  have hstop : l.stop = nidAt j := by
    unfold argLink at ho
    rw [hnn] at ho
    simp only at ho
    cases hep : epById m v with
    | none => rw [hep] at ho; cases ho
    | some t =>
      rw [hep] at ho
      simp only [Except.ok.injEq, Option.some.injEq] at ho
      rw [← ho]
      simp only
      obtain ⟨j', e', c1, c2, c3, c4⟩ := ivToNid_some m v nn hnn
      rw [c4]
      -- unique intrinsic variables (the identifiers are distinct)
      have b1 := preds_getElem?_base m hN j' e' c1
      have b2 := preds_getElem?_base m hN j ej hej
      rw [baseId_of_iv e' v c2 c3] at b1
      rw [baseId_of_iv ej v hq hiv] at b2
      have hk := preds_keys_nodup m hN
      have := key_unique hk (List.mem_of_getElem? b1) (List.mem_of_getElem? b2) rfl
      have hnd := ids_nodup m hN
      have p1 := posOf_of_getElem m hnd j' _ b1
      have p2 := posOf_of_getElem m hnd j _ b2
      rw [this] at p1
      rw [← p1, p2]
  have hpost : l.post ≠ H_POST ∧ l.post ≠ HEQ_POST := by
    unfold argLink at ho
    rw [hnn] at ho
    simp only at ho
    cases hep : epById m v with
    | none => rw [hep] at ho; cases ho
    | some t =>
      rw [hep] at ho
      simp only [Except.ok.injEq, Option.some.injEq] at ho
      rw [← ho]
      simp only
      split <;> exact ⟨by decide, by decide⟩
  have hmod : l.role ≠ BARE_EQ_ROLE := by
    intro hm
    unfold RolesOk at hR
    rw [List.all_eq_true] at hR
    have hre := hR e (List.mem_of_getElem? he)
    simp only [Bool.and_eq_true, Bool.not_eq_true', List.any_eq_false] at hre
    have := hre.2 (r, v) (mem_outArgs e _ ha).1
    rw [← hrole, hm] at this
    simp at this
  have hnsl := nsLink_of_post m hN hS reps d C.hreps h1 l hl hmod hpost.1 hpost.2
  obtain ⟨n, e2', iv, hn, hid, he2', ps, _⟩ := C.at_pos i e he
  rw [he2] at he2'; cases he2'
  obtain ⟨nj, ej2', ivj, hnj, hidj, hej2', psj, hivj⟩ := C.at_pos j ej hej
  rw [hej2] at hej2'; cases hej2'
  obtain ⟨_, c2, _⟩ := ps.complete (C.rf n.id)
  obtain ⟨v2, hv2, hm⟩ := c2 _ (C.spec.nsComplete l hl hnsl) (by rw [hstart, hid])
  have : v2 = ivj := by
    have := psj.ivOk
    rw [hidj, ← hstop, hv2] at this
    simpa using this
  subst this
  have hrole' : l.role = r := hrole
  exact ⟨v2, hivj, by rw [← hrole']; exact hm⟩

/-- **Scopal arguments, forward.**  An argument `(r, v)` of the predication at `i` that is no
intrinsic variable and selects (through its handle constraint, or directly as a label) a scope
whose first representative sits at position `p` comes back, for a direct label, as
`(r, label of m2.rels[p])`, and for a handle constraint as `(r, hole)` with a handle constraint
`hole qeq label of m2.rels[p]`. -/
theorem roundtrip_scopal_args (m : MRS) (hN : BaseIdsDistinct m) (hR : RolesOk m = true)
    (chosen : List Var) (d : DMRS) (m2 : MRS)
    (h1 : fromMrs m = .ok d) (h2 : fromDmrs chosen d = .ok m2) (reps : Reps)
    (hreps : m.representatives = .ok reps)
    (i p : Nat) (e e2 ep2 : EP) (he : m.rels[i]? = some e)
    (he2 : m2.rels[i]? = some e2) (hep2 : m2.rels[p]? = some ep2)
    (r : Role) (v : Var) (ha : (r, v) ∈ e.outArgs none) (hniv : ivToNid m v = none)
    (tgt : Pred) (rest : List Pred)
    (hlook : dlookup (scopalTarget m v).1 reps = some (tgt :: rest))
    (hp : predAt m (nidAt p) = some tgt) :
    ((scopalTarget m v).2 = HEQ_POST → (r, ep2.label) ∈ e2.args) ∧
    ((scopalTarget m v).2 = H_POST → ∃ hole, (r, hole) ∈ e2.args ∧
      (⟨hole, QEQ, ep2.label⟩ : HCons) ∈ m2.hcons) := by
  obtain ⟨reps', topLbl, sc, lbl, leqs, idToIv, ns, scs, lo, hi, C⟩ :=
    rtctx m hN hR chosen d m2 h1 h2
  have : reps' = reps := by
    have := C.hreps; rw [hreps] at this; simpa using this.symm
  subst this
  obtain ⟨o, ho, hol⟩ := fromMrs_argLink_ok m reps' d C.hreps h1 i e he (r, v) ha
  have htm := (rep_lookup_member m reps' C.hreps _ _ hlook tgt List.mem_cons_self).1
  have hnid := idToNid_pos m hN tgt htm
  have hpos : posOf m tgt = p := (nidAt_inj _ _ (predAt_pos m hN _ _ hp)).symm
  have hl_eq : o = some ⟨nidAt i, nidAt p, r, (scopalTarget m v).2⟩ := by
    unfold argLink at ho
    rw [hniv] at ho
    simp only [hlook, hnid, hpos, Except.ok.injEq] at ho
    exact ho.symm
  have hl := hol _ hl_eq
  obtain ⟨n, e2', iv, hn, hid, he2', ps, _⟩ := C.at_pos i e he
  rw [he2] at he2'; cases he2'
  have hplt : p < m.rels.length := by
    have h3 := hp
    rw [predAt_nidAt] at h3
    have h4 := (List.getElem?_eq_some_iff.mp h3).1
    unfold MRS.preds at h4
    rw [List.length_zip, ids_length] at h4
    omega
  obtain ⟨np, ep2', ivp, hnp, hidp, hep2', psp, _⟩ :=
    C.at_pos p m.rels[p] (List.getElem?_eq_getElem hplt)
  rw [hep2] at hep2'; cases hep2'
  obtain ⟨_, _, c3⟩ := ps.complete (C.rf n.id)
  have hpostcases : (scopalTarget m v).2 = H_POST ∨ (scopalTarget m v).2 = HEQ_POST := by
    unfold scopalTarget; split <;> simp
  have hne : H_POST ≠ HEQ_POST := by decide
  constructor
  · intro hheq
    have hsr : scRel ⟨nidAt i, nidAt p, r, (scopalTarget m v).2⟩ = some LHEQ := by
      unfold scRel; simp [hheq]
    obtain ⟨lb, hlb, hmem⟩ := C.spec.scComplete _ hl _ hsr
    have hlbp : lb = ep2.label := by
      have := psp.labelOk
      simp only at hlb
      rw [hidp, hlb] at this
      simpa using this
    rcases c3 _ hmem (by simp only; rw [hid]) with ⟨_, hm⟩ | ⟨hq, _⟩
    · rw [← hlbp]; exact hm
    · simp only at hq; exact absurd hq (by decide)
  · intro hh
    have hsr : scRel ⟨nidAt i, nidAt p, r, (scopalTarget m v).2⟩ = some QEQ := by
      unfold scRel; simp [hh, hne]
    obtain ⟨lb, hlb, hmem⟩ := C.spec.scComplete _ hl _ hsr
    have hlbp : lb = ep2.label := by
      have := psp.labelOk
      simp only at hlb
      rw [hidp, hlb] at this
      simpa using this
    rcases c3 _ hmem (by simp only; rw [hid]) with ⟨hq, _⟩ | ⟨_, hole, hm, _, hhc⟩
    · simp only at hq; exact absurd hq (by decide)
    · exact ⟨hole, hm, by rw [← hlbp]; exact hhc⟩

/-- **Arguments, backward.**  Every argument of a predication of `m2` other than `ARG0` is the
`BODY` hole `from_dmrs` gives a quantifier, or carries a role the predication of `m` at that
position has as well. -/
theorem roundtrip_args_backward (m : MRS) (hN : BaseIdsDistinct m) (hR : RolesOk m = true)
    (chosen : List Var) (d : DMRS) (m2 : MRS)
    (h1 : fromMrs m = .ok d) (h2 : fromDmrs chosen d = .ok m2)
    (i : Nat) (e e2 : EP) (he : m.rels[i]? = some e) (he2 : m2.rels[i]? = some e2)
    (a : Role × Var) (ha : a ∈ e2.args) :
    a.1 = INTRINSIC_ROLE ∨ (a.1 = BODY_ROLE ∧ e.isQuantifier = true) ∨
      ∃ v, (a.1, v) ∈ e.outArgs none := by
  obtain ⟨reps, topLbl, sc, lbl, leqs, idToIv, ns, scs, lo, hi, C⟩ :=
    rtctx m hN hR chosen d m2 h1 h2
  obtain ⟨n, e2', iv, hn, hid, he2', ps, _⟩ := C.at_pos i e he
  rw [he2] at he2'; cases he2'
  have fromLink : ∀ l ∈ d.links, l.start = n.id → l.role ≠ BARE_EQ_ROLE →
      ∃ v, (l.role, v) ∈ e.outArgs none := by
    intro l hl hs hmod
    obtain ⟨i', _, e', q1, _, q3, _, q5⟩ := justified_ends m reps l (C.links_just l hl)
    have : i' = i := nidAt_inj _ _ (by rw [← q1, hs, hid])
    subst this
    rw [he] at q3; cases q3
    rcases q5 with hm | hv
    · exact absurd hm hmod
    · exact hv
  cases ps.origin a ha with
  | arg0 h => left; rw [h]
  | ns x hx hidx hr hv =>
    obtain ⟨l, hl, rfl, hnsl⟩ := C.spec.nsMem x hx
    right; right
    rw [hr]
    exact fromLink l hl hidx hnsl.1
  | lheq x hx hidx hr hrel hv =>
    obtain ⟨l, hl, a1, a2, a3, _⟩ := C.spec.scMem x hx
    right; right
    rw [hr, a2]
    refine fromLink l hl (by rw [← a1, hidx]) ?_
    intro hm
    have := (fromMrs_link_role m hR reps d C.hreps h1 l hl).2 hm
    unfold scRel at a3
    rw [this] at a3
    simp [EQ_POST, HEQ_POST, H_POST] at a3
  | qeq x hx hidx hr hrel hnew hhc =>
    obtain ⟨l, hl, a1, a2, a3, _⟩ := C.spec.scMem x hx
    right; right
    rw [hr, a2]
    refine fromLink l hl (by rw [← a1, hidx]) ?_
    intro hm
    have := (fromMrs_link_role m hR reps d C.hreps h1 l hl).2 hm
    unfold scRel at a3
    rw [this] at a3
    simp [EQ_POST, HEQ_POST, H_POST] at a3
  | body hr hq hnew hfree =>
    right; left
    refine ⟨hr, ?_⟩
    unfold dIsQuantifier at hq
    rw [List.any_eq_true] at hq
    obtain ⟨l, hl, hc⟩ := hq
    simp only [Bool.and_eq_true, decide_eq_true_eq] at hc
    exact rstr_link_quantifier m reps l (C.links_just l hl) hc.2 i e (by rw [hc.1, hid]) he

/-- **Label sharing.**  Two predications of `m2` with one label come from two predications of `m`
with one label (the round trip never merges scopes), and two predications of `m` joined by an
`EQ` link of the DMRS keep one label. -/
theorem roundtrip_labels (m : MRS) (hN : BaseIdsDistinct m) (hR : RolesOk m = true)
    (chosen : List Var) (d : DMRS) (m2 : MRS)
    (h1 : fromMrs m = .ok d) (h2 : fromDmrs chosen d = .ok m2)
    (i j : Nat) (e ej e2 ej2 : EP) (he : m.rels[i]? = some e) (hej : m.rels[j]? = some ej)
    (he2 : m2.rels[i]? = some e2) (hej2 : m2.rels[j]? = some ej2) :
    (e2.label = ej2.label → e.label = ej.label) ∧
    (∀ l ∈ d.links, l.post = EQ_POST → l.start = nidAt i → l.stop = nidAt j →
      e2.label = ej2.label) := by
  obtain ⟨reps, topLbl, sc, lbl, leqs, idToIv, ns, scs, lo, hi, C⟩ :=
    rtctx m hN hR chosen d m2 h1 h2
  obtain ⟨n, e2', iv, hn, hid, he2', ps, _⟩ := C.at_pos i e he
  rw [he2] at he2'; cases he2'
  obtain ⟨nj, ej2', ivj, hnj, hidj, hej2', psj, _⟩ := C.at_pos j ej hej
  rw [hej2] at hej2'; cases hej2'
  have hilt : i < m.rels.length := (List.getElem?_eq_some_iff.mp he).1
  have hjlt : j < m.rels.length := (List.getElem?_eq_some_iff.mp hej).1
  have hsl := C.spec.scopes.sameLabel_iff (List.mem_of_getElem? hn) (List.mem_of_getElem? hnj)
  rw [ps.labelOk, psj.labelOk] at hsl
  constructor
  · intro hl
    obtain ⟨k, nk, hk, hnk, hx, hlk⟩ := C.reach_same_label i hilt n hn _ (hsl.mp (by rw [hl]))
    have : nk = nj := C.spec.scopes.lblInj nk (List.mem_of_getElem? hnk) nj
      (List.mem_of_getElem? hnj) hx.symm
    subst this
    have hkj : k = j := by
      have := fromMrs_node_id m hN d h1 k nk hnk
      rw [hidj] at this
      exact (nidAt_inj _ _ this.1).symm
    subst hkj
    have e1 : m.rels[i] = e := by
      have := he; rw [List.getElem?_eq_getElem hilt] at this; simpa using this
    have e2' : m.rels[k] = ej := by
      have := hej; rw [List.getElem?_eq_getElem hjlt] at this; simpa using this
    rw [← e1, ← e2', hlk]
  · intro l hl hp hs ht
    obtain ⟨a, b, hab, d1, d2⟩ := C.leqs_of_link l hl hp
    have la : a = lbl n := by
      have := C.spec.scopes.lblOk n (List.mem_of_getElem? hn)
      rw [hid, ← hs, d1] at this
      simpa using this
    have lb : b = lbl nj := by
      have := C.spec.scopes.lblOk nj (List.mem_of_getElem? hnj)
      rw [hidj, ← ht, d2] at this
      simpa using this
    have hreach : Reach (adjOf (symm leqs)) (lbl n) (lbl nj) := by
      refine Reach.tail (Reach.refl _) ?_
      rw [mem_adjOf, mem_symm, ← la, ← lb]
      exact Or.inl hab
    have := hsl.mpr hreach
    simpa using this

/-- the hypotheses are satisfiable together, on a structure with a quantifier, a modifier sharing
a label, a qeq-scopal and a label-scopal argument: "the big dog does not bark" (with the negated
clause also given as a direct label argument of a second operator). -/
def bigDog : MRS :=
  { top := some ⟨"h", 0⟩, index := some ⟨"e", 2⟩,
    rels := [ { predicate := "_the_q", label := ⟨"h", 4⟩,
                args := [("ARG0", ⟨"x", 3⟩), ("RSTR", ⟨"h", 5⟩), ("BODY", ⟨"h", 6⟩)] },
              { predicate := "_big_a_1", label := ⟨"h", 7⟩,
                args := [("ARG0", ⟨"e", 8⟩), ("ARG1", ⟨"x", 3⟩)] },
              { predicate := "_dog_n_1", label := ⟨"h", 7⟩, args := [("ARG0", ⟨"x", 3⟩)] },
              { predicate := "neg", label := ⟨"h", 1⟩,
                args := [("ARG0", ⟨"e", 9⟩), ("ARG1", ⟨"h", 10⟩)] },
              { predicate := "_bark_v_1", label := ⟨"h", 11⟩,
                args := [("ARG0", ⟨"e", 2⟩), ("ARG1", ⟨"x", 3⟩)] },
              { predicate := "_again_a_1", label := ⟨"h", 1⟩,
                args := [("ARG0", ⟨"e", 12⟩), ("ARG1", ⟨"h", 13⟩)] },
              { predicate := "_rain_v_1", label := ⟨"h", 13⟩, args := [("ARG0", ⟨"e", 14⟩)] } ],
    hcons := [⟨⟨"h", 0⟩, "qeq", ⟨"h", 1⟩⟩, ⟨⟨"h", 5⟩, "qeq", ⟨"h", 7⟩⟩,
              ⟨⟨"h", 10⟩, "qeq", ⟨"h", 11⟩⟩] }

/-- all three conversions succeed on `m`, every quantifier keeps its RSTR link, the scopes are
held together, no argument goes into a scopal descendant of a co-member, the representatives
agree, and the second conversion has the same nodes. -/
def stableCheck (m : MRS) (chosen : List Var) : Bool :=
  match m.representatives, fromMrs m with
  | .ok reps, .ok d =>
    RstrLinked m reps && ScopesHeld m d && NoDescArg m &&
    (match fromDmrs chosen d with
     | .ok m2 =>
       (match m2.representatives, fromMrs m2 with
        | .ok reps2, .ok d2 => decide (RepsAgree m m2 reps reps2) && decide (d2.nodes = d.nodes)
        | _, _ => false)
     | _ => false)
  | _, _ => false

example :
    BaseIdsDistinct bigDog ∧ RolesOk bigDog = true ∧ IVSorts bigDog = true ∧
    bigDog.isWellFormed = true ∧ stableCheck bigDog [] = true :=
  ⟨by decide, by decide, by decide, by decide, by decide⟩

end Verif.C04
