/-
C04 — discharging `RepsAgree`, part 1: generic facts about `scope.descendants`
(soundness: every listed descendant is reachable), `scope.representatives`
(it depends on a scope only through positions, sort keys and the blocking test) and the
scope map (it depends on the predications only through "same label").
Core Lean only.
-/
import Verif.C04.RoundTrip8

namespace Verif.C04
open Verif.Sem

/-! ### soundness of `scope.descendants` -/

section DescSound
variable {ι lam π : Type} [DecidableEq ι] [DecidableEq lam]

/-- `p` is in a scope selected by a scopal argument of `id`. -/
def Tgt (scargs : List (ι × List lam)) (scopes : List (lam × List π)) (id : ι) (p : π) : Prop :=
  ∃ labels, dlookup id scargs = some labels ∧ ∃ l ∈ labels, p ∈ (dlookup l scopes).getD []

/-- `q` is a scopal descendant of `id` (one or more steps). -/
inductive DReach (pid : π → ι) (scargs : List (ι × List lam)) (scopes : List (lam × List π)) :
    ι → π → Prop
  | base {id : ι} {p : π} : Tgt scargs scopes id p → DReach pid scargs scopes id p
  | step {id : ι} {p q : π} : Tgt scargs scopes id p → DReach pid scargs scopes (pid p) q →
      DReach pid scargs scopes id q

theorem dlookup_dextend {κ β : Type} [DecidableEq κ] (k id : κ) (xs : List β)
    (d : List (κ × List β)) :
    dlookup k (dextend id xs d) =
      if k = id then (dlookup id d).map (· ++ xs) else dlookup k d := by
  induction d with
  | nil => simp [dextend, dlookup]
  | cons p d ih =>
    obtain ⟨k', ys⟩ := p
    by_cases h : k' = id
    · subst h
      by_cases hk : k = k'
      · subst hk; simp [dextend, dlookup]
      · have hk' : ¬ k' = k := fun e => hk e.symm
        simp [dextend, dlookup, hk, hk']
    · by_cases hk : k = id
      · subst hk
        have h' : ¬ k' = k := h
        simp only [dextend, if_neg h, dlookup, if_neg h', ih, if_true]
      · by_cases hkk : k' = k
        · simp [dextend, h, dlookup, hkk, hk]
        · simp only [dextend, if_neg h, dlookup, if_neg hkk, ih, if_neg hk]

/-- every listed descendant is a descendant. -/
def DescInv (pid : π → ι) (scargs : List (ι × List lam)) (scopes : List (lam × List π))
    (descs : List (ι × List π)) : Prop :=
  ∀ id ps, dlookup id descs = some ps → ∀ q ∈ ps, DReach pid scargs scopes id q

theorem descVisit_sound (pid : π → ι) (scargs : List (ι × List lam))
    (scopes : List (lam × List π)) :
    ∀ (fuel : Nat) (descs : List (ι × List π)) (id : ι) (descs' : List (ι × List π)),
      descVisit pid scargs scopes fuel descs id = .ok descs' →
      DescInv pid scargs scopes descs → DescInv pid scargs scopes descs' := by
  intro fuel
  induction fuel with
  | zero => intro descs id descs' h; simp [descVisit] at h
  | succ fuel ih =>
    intro descs id descs' h hinv
    unfold descVisit at h
    split at h
    · simp only [Except.ok.injEq] at h; subst h; exact hinv
    · cases hl : dlookup id scargs with
      | none => rw [hl] at h; cases h
      | some labels =>
        rw [hl] at h
        simp only at h
        -- the loop over the targets
        have loop : ∀ (targets : List π) (ds ds' : List (ι × List π)),
            (∀ p ∈ targets, Tgt scargs scopes id p) →
            targets.foldlM (fun ds p => do
              let ds1 := dextend id [p] ds
              let ds2 ← descVisit pid scargs scopes fuel ds1 (pid p)
              match dlookup (pid p) ds2 with
              | none => .error .keyError
              | some sub => pure (dextend id sub ds2)) ds = .ok ds' →
            DescInv pid scargs scopes ds → DescInv pid scargs scopes ds' := by
          intro targets
          induction targets with
          | nil =>
            intro ds ds' _ hf hi
            simp only [List.foldlM_nil] at hf
            cases hf; exact hi
          | cons p rest ihl =>
            intro ds ds' htg hf hi
            rw [List.foldlM_cons] at hf
            have htp := htg p List.mem_cons_self
            -- one iteration
            cases hv : descVisit pid scargs scopes fuel (dextend id [p] ds) (pid p) with
            | error e => simp [hv, bind, Except.bind] at hf
            | ok ds2 =>
              have hi1 : DescInv pid scargs scopes (dextend id [p] ds) := by
                intro k ps hk q hq
                rw [dlookup_dextend] at hk
                by_cases hkid : k = id
                · subst hkid
                  rw [if_pos rfl] at hk
                  cases hd : dlookup k ds with
                  | none => rw [hd] at hk; cases hk
                  | some old =>
                    rw [hd] at hk
                    simp only [Option.map_some, Option.some.injEq] at hk
                    subst hk
                    rcases List.mem_append.mp hq with ho | hn
                    · exact hi k old hd q ho
                    · simp only [List.mem_singleton] at hn
                      subst hn; exact DReach.base htp
                · rw [if_neg hkid] at hk
                  exact hi k ps hk q hq
              have hi2 := ih _ _ _ hv hi1
              cases hs : dlookup (pid p) ds2 with
              | none => simp [hv, hs, bind, Except.bind] at hf
              | some sub =>
                have hi3 : DescInv pid scargs scopes (dextend id sub ds2) := by
                  intro k ps hk q hq
                  rw [dlookup_dextend] at hk
                  by_cases hkid : k = id
                  · subst hkid
                    rw [if_pos rfl] at hk
                    cases hd : dlookup k ds2 with
                    | none => rw [hd] at hk; cases hk
                    | some old =>
                      rw [hd] at hk
                      simp only [Option.map_some, Option.some.injEq] at hk
                      subst hk
                      rcases List.mem_append.mp hq with ho | hn
                      · exact hi2 k old hd q ho
                      · exact DReach.step htp (hi2 (pid p) sub hs q hn)
                  · rw [if_neg hkid] at hk
                    exact hi2 k ps hk q hq
                have hf' : rest.foldlM (fun ds p => do
                    let ds1 := dextend id [p] ds
                    let ds2 ← descVisit pid scargs scopes fuel ds1 (pid p)
                    match dlookup (pid p) ds2 with
                    | none => .error .keyError
                    | some sub => pure (dextend id sub ds2)) (dextend id sub ds2) = .ok ds' := by
                  simpa [hv, hs, bind, Except.bind, pure, Except.pure] using hf
                exact ihl _ _ (fun q hq => htg q (List.mem_cons_of_mem _ hq)) hf' hi3
        refine loop _ _ _ ?_ h ?_
        · intro p hp
          obtain ⟨l, hlm, hpl⟩ := List.mem_flatMap.mp hp
          exact ⟨labels, hl, l, hlm, hpl⟩
        · intro k ps hk q hq
          by_cases hkid : k = id
          · subst hkid
            rw [dlookup_dset_self] at hk
            cases hk; simp at hq
          · rw [dlookup_dset_ne _ _ _ _ hkid] at hk
            exact hinv k ps hk q hq

theorem descendantsOf_sound (pid : π → ι) (ids : List ι) (scargs : List (ι × List lam))
    (scopes : List (lam × List π)) (descs : List (ι × List π))
    (h : descendantsOf pid ids scargs scopes = .ok descs) : DescInv pid scargs scopes descs := by
  unfold descendantsOf at h
  have key : ∀ (l : List ι) (d0 d1 : List (ι × List π)),
      l.foldlM (fun ds i => descVisit pid scargs scopes (ids.length + 1) ds i) d0 = .ok d1 →
      DescInv pid scargs scopes d0 → DescInv pid scargs scopes d1 := by
    intro l
    induction l with
    | nil => intro d0 d1 hf hi; simp only [List.foldlM_nil] at hf; cases hf; exact hi
    | cons i rest ih =>
      intro d0 d1 hf hi
      rw [List.foldlM_cons] at hf
      cases hv : descVisit pid scargs scopes (ids.length + 1) d0 i with
      | error e => rw [hv] at hf; cases hf
      | ok dm =>
        rw [hv] at hf
        exact ih dm d1 hf (descVisit_sound pid scargs scopes _ _ _ _ hv hi)
  exact key ids [] descs h (by intro k ps hk; simp [dlookup] at hk)

end DescSound

/-! ### representatives depend on positions, keys and the blocking test only -/

/-- two lists related element by element. -/
inductive Rel2 {α β : Type} (R : α → β → Prop) : List α → List β → Prop
  | nil : Rel2 R [] []
  | cons {a : α} {b : β} {l : List α} {l' : List β} : R a b → Rel2 R l l' → Rel2 R (a :: l) (b :: l')

section RepsGeneric
variable {π π' : Type}

theorem forall₂_insertBy (R : π → π' → Prop) (key : π → Nat × Nat) (key' : π' → Nat × Nat)
    (hk : ∀ a b, R a b → key a = key' b) (x : π) (x' : π') (hx : R x x') :
    ∀ (l : List π) (l' : List π'), Rel2 R l l' →
      Rel2 R (insertBy key x l) (insertBy key' x' l') := by
  intro l l' h
  induction h with
  | nil => exact Rel2.cons hx Rel2.nil
  | @cons y y' ys ys' hy hys ih =>
    unfold insertBy
    rw [hk x x' hx, hk y y' hy]
    split
    · exact Rel2.cons hx (Rel2.cons hy hys)
    · exact Rel2.cons hy ih

theorem forall₂_sortBy (R : π → π' → Prop) (key : π → Nat × Nat) (key' : π' → Nat × Nat)
    (hk : ∀ a b, R a b → key a = key' b) :
    ∀ (l : List π) (l' : List π'), Rel2 R l l' →
      Rel2 R (sortBy key l) (sortBy key' l') := by
  intro l l' h
  induction h with
  | nil => exact Rel2.nil
  | @cons y y' ys ys' hy _ ih =>
    unfold sortBy
    exact forall₂_insertBy R key key' hk y y' hy _ _ ih

theorem forall₂_length {R : π → π' → Prop} {l : List π} {l' : List π'}
    (h : Rel2 R l l') : l.length = l'.length := by
  induction h with
  | nil => rfl
  | cons _ _ ih => simp [ih]

theorem forall₂_getElem? {R : π → π' → Prop} {l : List π} {l' : List π'}
    (h : Rel2 R l l') (k : Nat) (a : π) (ha : l[k]? = some a) :
    ∃ b, l'[k]? = some b ∧ R a b := by
  induction h generalizing k with
  | nil => simp at ha
  | @cons y y' ys ys' hy _ ih =>
    cases k with
    | zero =>
      simp only [List.getElem?_cons_zero, Option.some.injEq] at ha
      subst ha
      exact ⟨y', by simp, hy⟩
    | succ k =>
      simp only [List.getElem?_cons_succ] at ha
      obtain ⟨b, hb, hr⟩ := ih k ha
      exact ⟨b, by simpa using hb, hr⟩

theorem forall₂_map_eq {R : π → π' → Prop} (f : π → Nat) (f' : π' → Nat)
    (hf : ∀ a b, R a b → f a = f' b) {l : List π} {l' : List π'} (h : Rel2 R l l') :
    l.map f = l'.map f' := by
  induction h with
  | nil => rfl
  | cons hy _ ih => simp [hf _ _ hy, ih]

/-- filtering two related lists with tests that agree position by position. -/
theorem forall₂_filter_idx (R : π → π' → Prop) (b : Nat → π → Bool) (b' : Nat → π' → Bool) :
    ∀ (l : List π) (l' : List π') (off : Nat), Rel2 R l l' →
      (∀ k a a', l[k]? = some a → l'[k]? = some a' → b (k + off) a = b' (k + off) a') →
      Rel2 R (((l.zipIdx off).filter (fun x => !b x.2 x.1)).map (·.1))
        (((l'.zipIdx off).filter (fun x => !b' x.2 x.1)).map (·.1)) := by
  intro l l' off h
  induction h generalizing off with
  | nil => intro _; exact Rel2.nil
  | @cons y y' ys ys' hy hys ih =>
    intro hb
    have h0 := hb 0 y y' (by simp) (by simp)
    simp only [Nat.zero_add] at h0
    have hrest := ih (off + 1) (by
      intro k a a' ha ha'
      have := hb (k + 1) a a' (by simpa using ha) (by simpa using ha')
      rw [show k + 1 + off = k + (off + 1) by omega] at this
      exact this)
    simp only [List.zipIdx_cons, List.filter_cons]
    rw [h0]
    cases hbv : b' off y' with
    | true => simpa using hrest
    | false => simpa using Rel2.cons hy hrest

/-- `scope.representatives` of one scope, for two systems whose scopes correspond. -/
theorem reps_scope_agree {ι ι' : Type} [DecidableEq ι] [DecidableEq ι'] (R : π → π' → Prop)
    (pid : π → ι) (args : π → List ι) (descIds : ι → List ι) (key : π → Nat × Nat)
    (pid' : π' → ι') (args' : π' → List ι') (descIds' : ι' → List ι') (key' : π' → Nat × Nat)
    (hk : ∀ a b, R a b → key a = key' b)
    (scope : List π) (scope' : List π') (hsc : Rel2 R scope scope')
    (hb : ∀ k a a', scope[k]? = some a → scope'[k]? = some a' →
      blocked pid args descIds scope k a = blocked pid' args' descIds' scope' k a') :
    Rel2 R (sortBy key (candidates pid args descIds scope))
      (sortBy key' (candidates pid' args' descIds' scope')) := by
  apply forall₂_sortBy R key key' hk
  unfold candidates
  rw [← forall₂_length hsc]
  split
  · exact hsc
  · have := forall₂_filter_idx R (fun k a => blocked pid args descIds scope k a)
      (fun k a' => blocked pid' args' descIds' scope' k a') scope scope' 0 hsc
      (by intro k a a' ha ha'; simpa using hb k a a' ha ha')
    simpa [List.zipIdx] using this

end RepsGeneric

/-! ### the scope map depends on the predications through "same label" only -/

section ScopeMapGeneric

theorem rel2_snoc {α β : Type} {R : α → β → Prop} {l : List α} {l' : List β} {a : α} {b : β}
    (h : Rel2 R l l') (hab : R a b) : Rel2 R (l ++ [a]) (l' ++ [b]) := by
  induction h with
  | nil => exact Rel2.cons hab Rel2.nil
  | cons h1 _ ih => exact Rel2.cons h1 ih

theorem rel2_imp {α β : Type} {R S : α → β → Prop} {l : List α} {l' : List β}
    (h : Rel2 R l l') (hi : ∀ a b, R a b → S a b) : Rel2 S l l' := by
  induction h with
  | nil => exact Rel2.nil
  | cons h1 _ ih => exact Rel2.cons (hi _ _ h1) ih

/-- `scopes.setdefault(label, []).append(p)` on two corresponding scope maps. -/
theorem dpush_parallel (R : Pred → Pred → Prop) (E : Var → Var → Prop) (l l2 : Var)
    (p p2 : Pred) (hp : R p p2) (hE : E l l2) :
    ∀ (acc acc2 : List (Var × List Pred)),
      Rel2 (fun s s' => Rel2 R s.2 s'.2 ∧ (l = s.1 ↔ l2 = s'.1) ∧ E s.1 s'.1) acc acc2 →
      Rel2 (fun s s' => Rel2 R s.2 s'.2 ∧ E s.1 s'.1) (dpush l p acc) (dpush l2 p2 acc2) := by
  intro acc acc2 h
  induction h with
  | nil => exact Rel2.cons ⟨Rel2.cons hp Rel2.nil, hE⟩ Rel2.nil
  | @cons s s' rest rest' hs hrest ih =>
    obtain ⟨k, xs⟩ := s
    obtain ⟨k', xs'⟩ := s'
    obtain ⟨h1, h2, h3⟩ := hs
    simp only at h1 h2 h3
    by_cases hk : k = l
    · have hk' : k' = l2 := (h2.mp hk.symm).symm
      simp only [dpush, if_pos hk, if_pos hk']
      exact Rel2.cons ⟨rel2_snoc h1 hp, h3⟩ (rel2_imp hrest (fun a b hab => ⟨hab.1, hab.2.2⟩))
    · have hk' : ¬ k' = l2 := fun e => hk (h2.mpr e.symm).symm
      simp only [dpush, if_neg hk, if_neg hk']
      exact Rel2.cons ⟨h1, h3⟩ ih

/-- two lists of predications paired position by position. -/
def Paired (ps ps2 : List Pred) (a a2 : Pred) : Prop :=
  ∃ k : Nat, ps[k]? = some a ∧ ps2[k]? = some a2

theorem groupByLabel_parallel (R : Pred → Pred → Prop) :
    ∀ (ps ps2 : List Pred), Rel2 R ps ps2 →
      (∀ a a2 b b2, Paired ps ps2 a a2 → Paired ps ps2 b b2 →
        (a.2.label = b.2.label ↔ a2.2.label = b2.2.label)) →
      ∀ (acc acc2 : List (Var × List Pred)),
      Rel2 (fun s s' => Rel2 R s.2 s'.2 ∧
        ∀ a a2, Paired ps ps2 a a2 → (a.2.label = s.1 ↔ a2.2.label = s'.1)) acc acc2 →
      Rel2 (fun s s' => Rel2 R s.2 s'.2) (groupByLabel ps acc) (groupByLabel ps2 acc2) := by
  intro ps ps2 h
  induction h with
  | nil =>
    intro _ acc acc2 hacc
    exact rel2_imp hacc (fun a b hab => hab.1)
  | @cons p p2 rest rest2 hp hrest ih =>
    intro hpat acc acc2 hacc
    unfold groupByLabel
    have tailPaired : ∀ a a2, Paired rest rest2 a a2 → Paired (p :: rest) (p2 :: rest2) a a2 := by
      rintro a a2 ⟨k, h1, h2⟩
      exact ⟨k + 1, by simpa using h1, by simpa using h2⟩
    have headPaired : Paired (p :: rest) (p2 :: rest2) p p2 := ⟨0, by simp, by simp⟩
    apply ih (fun a a2 b b2 ha hb => hpat a a2 b b2 (tailPaired _ _ ha) (tailPaired _ _ hb))
    have := dpush_parallel R
      (fun x x2 => ∀ a a2, Paired rest rest2 a a2 → (a.2.label = x ↔ a2.2.label = x2))
      p.2.label p2.2.label p p2 hp
      (fun a a2 ha => hpat a a2 p p2 (tailPaired _ _ ha) headPaired) acc acc2
      (rel2_imp hacc (fun s s' hs => ⟨hs.1, hs.2 p p2 headPaired,
        fun a a2 ha => hs.2 a a2 (tailPaired _ _ ha)⟩))
    exact this

end ScopeMapGeneric

end Verif.C04
