/-
C04 — the round trip as ONE variable map, part 3: classes of the correspondence table, its
functionality and injectivity, on the fragment `NoHoleSpace`.
-/
import Verif.C04.Iso2

namespace Verif.C04
open Verif.Sem

section Frag
variable {m : MRS} {reps : Reps} {d : DMRS} {m2 : MRS} {chosen : List Var}

theorem ivPair_strip (hR : RolesOk m = true) (v w : Var) :
    IsIvPair (strip m) m2 v w ↔ IsIvPair m m2 v w := by
  constructor
  · rintro ⟨j, es, e2, h1, h2, h3, h4⟩
    obtain ⟨e, he, rfl⟩ := strip_rel m j es h1
    rw [strip_iv m hR e (List.mem_of_getElem? he)] at h3
    exact ⟨j, e, e2, he, h2, h3, h4⟩
  · rintro ⟨j, e, e2, h1, h2, h3, h4⟩
    refine ⟨j, { e with args := e.args.filter (expressible m e) }, e2,
      by rw [strip_rels_getElem, h1]; rfl, h2, ?_, h4⟩
    rw [strip_iv m hR e (List.mem_of_getElem? h1)]; exact h3

theorem lbPair_strip (v w : Var) : IsLbPair (strip m) m2 v w ↔ IsLbPair m m2 v w := by
  constructor
  · rintro ⟨j, es, e2, h1, h2, h3, h4⟩
    obtain ⟨e, he, rfl⟩ := strip_rel m j es h1
    exact ⟨j, e, e2, he, h2, h3, h4⟩
  · rintro ⟨j, e, e2, h1, h2, h3, h4⟩
    exact ⟨j, { e with args := e.args.filter (expressible m e) }, e2,
      by rw [strip_rels_getElem, h1]; rfl, h2, h3, h4⟩

/-- facts about a pair of intrinsic variables. -/
theorem ivPair_facts (sp : NoHoleSpace m reps) (h1 : fromMrs m = .ok d)
    (h2 : fromDmrs chosen d = .ok m2) (v w : Var) (h : IsIvPair m m2 v w) :
    ∃ (j : Nat) (e e2 : EP), m.rels[j]? = some e ∧ m2.rels[j]? = some e2 ∧ e.iv = some v ∧
      e2.iv = some w ∧
      e2.isQuantifier = false ∧ w.sort = v.sort ∧ v.sort ≠ HANDLE ∧ w.sort ≠ HANDLE ∧
      m2.props w = m.props v := by
  obtain ⟨reps', topLbl, sc, lbl, leqs, idToIv, ns, scs, lo, hi, C⟩ :=
    rtctx m sp.hN sp.hR chosen d m2 h1 h2
  obtain ⟨j, e, e2, a1, a2, a3, a4⟩ := h
  have hq := sp.noQuant e (List.mem_of_getElem? a1)
  obtain ⟨ej2, iv2, b1, b2, b3, b4, _⟩ := C.iv2_facts j e a1 hq v a3
  rw [a2] at b1
  simp only [Option.some.injEq] at b1
  subst b1
  rw [a4] at b2
  simp only [Option.some.injEq] at b2
  subst b2
  have hsv : v.sort ≠ HANDLE := by
    have hS := sp.hS
    unfold IVSorts at hS
    rw [List.all_eq_true] at hS
    have := hS e (List.mem_of_getElem? a1)
    rw [hq, a3] at this
    exact (sort_of_infix v.sort (by simpa using this)).1
  -- properties
  obtain ⟨n, e2', iv, hn, hid, he2', ps, he2iv⟩ := C.at_pos j e a1
  rw [a2] at he2'; cases he2'
  rw [a4] at he2iv
  simp only [Option.some.injEq] at he2iv
  subst he2iv
  have hnq : n.id ∉ quantStarts d := by
    rw [hid]; exact not_quantStart_of_nonquant m sp.hN reps' d C.hreps h1 j e a1 hq
  obtain ⟨iv', c1, _, _, c4⟩ := C.spec.ivNonQ n (List.mem_of_getElem? hn) hnq
  rw [ps.ivOk] at c1
  cases c1
  obtain ⟨_, hsh⟩ := nodes_shape m sp.hN d h1
  obtain ⟨n', hn', _, _, _, _, _, _, _, hty, _⟩ := hsh j e a1
  rw [hn] at hn'; cases hn'
  obtain ⟨_, t2⟩ := hty hq v a3
  exact ⟨j, e, e2, a1, a2, a3, a4, b3, b4, hsv, by rw [b4]; exact hsv, by rw [c4, t2]⟩

/-- facts about a pair of labels. -/
theorem lbPair_facts (sp : NoHoleSpace m reps) (h1 : fromMrs m = .ok d)
    (h2 : fromDmrs chosen d = .ok m2) (v w : Var) (h : IsLbPair m m2 v w) :
    v.sort = HANDLE ∧ v ∈ m.labels ∧ w.sort = HANDLE ∧ 1 ≤ w.vid := by
  obtain ⟨reps', topLbl, sc, lbl, leqs, idToIv, ns, scs, lo, hi, C⟩ :=
    rtctx m sp.hN sp.hR chosen d m2 h1 h2
  obtain ⟨j, e, e2, a1, a2, a3, a4⟩ := h
  obtain ⟨n, e2', iv, hn, hid, he2', ps, _⟩ := C.at_pos j e a1
  rw [a2] at he2'; cases he2'
  obtain ⟨_, p2, p3⟩ := C.label_props (List.mem_of_getElem? hn) ps
  refine ⟨by rw [← a3]; exact sp.labelSort e (List.mem_of_getElem? a1), ?_, by rw [← a4]; exact p2,
    by rw [← a4]; exact p3⟩
  unfold MRS.labels
  exact List.mem_map.mpr ⟨e, List.mem_of_getElem? a1, a3⟩

/-- facts about the pair of tops. -/
theorem topPair_facts (sp : NoHoleSpace m reps) (h1 : fromMrs m = .ok d)
    (h2 : fromDmrs chosen d = .ok m2) (v w : Var) (h : IsTopPair (strip m) m2 v w) :
    m.top = some v ∧ selectsScope m v = true ∧ w = ⟨HANDLE, 0⟩ ∧ v.sort = HANDLE ∧ v ∉ m.labels := by
  obtain ⟨reps', topLbl, sc, lbl, leqs, idToIv, ns, scs, lo, hi, C⟩ :=
    rtctx m sp.hN sp.hR chosen d m2 h1 h2
  obtain ⟨a1, a2⟩ := h
  have hmt : m.top = some v ∧ selectsScope m v = true := by
    unfold strip at a1
    simp only at a1
    cases ht : m.top with
    | none => rw [ht] at a1; cases a1
    | some t =>
      rw [ht] at a1
      simp only at a1
      by_cases hs : selectsScope m t = true
      · rw [if_pos hs] at a1
        simp only [Option.some.injEq] at a1
        subst a1
        exact ⟨rfl, hs⟩
      · rw [if_neg hs] at a1; cases a1
  have hw : w = ⟨HANDLE, 0⟩ := by
    have := C.spec.top
    rw [a2] at this
    exact (C.spec.topVar w this.symm).1
  obtain ⟨t1, t2, _⟩ := sp.topOk v hmt.1
  exact ⟨hmt.1, hmt.2, hw, t1, t2⟩

/-- the table of `(strip m, m2)` is functional. -/
theorem corr_functional (sp : NoHoleSpace m reps) (hH : ScopesHeld m d = true)
    (h1 : fromMrs m = .ok d) (h2 : fromDmrs chosen d = .ok m2) :
    ∀ v w w', (v, w) ∈ corrTable (strip m) m2 → (v, w') ∈ corrTable (strip m) m2 → w = w' := by
  obtain ⟨reps', topLbl, sc, lbl, leqs, idToIv, ns, scs, lo, hi, C⟩ :=
    rtctx m sp.hN sp.hR chosen d m2 h1 h2
  intro v w w' hw hw'
  rw [mem_corrTable, ivPair_strip sp.hR, lbPair_strip] at hw hw'
  have ivlb : ∀ x y y', IsIvPair m m2 x y → IsLbPair m m2 x y' → False := by
    intro x y y' hi hl
    obtain ⟨_, _, _, _, _, _, _, _, _, hs, _, _⟩ := ivPair_facts sp h1 h2 x y hi
    exact hs (lbPair_facts sp h1 h2 x y' hl).1
  have topiv : ∀ x y y', IsTopPair (strip m) m2 x y → IsIvPair m m2 x y' → False := by
    intro x y y' ht hi
    obtain ⟨_, _, _, _, _, _, _, _, _, hs, _, _⟩ := ivPair_facts sp h1 h2 x y' hi
    exact hs (topPair_facts sp h1 h2 x y ht).2.2.2.1
  have toplb : ∀ x y y', IsTopPair (strip m) m2 x y → IsLbPair m m2 x y' → False := by
    intro x y y' ht hl
    exact (topPair_facts sp h1 h2 x y ht).2.2.2.2 (lbPair_facts sp h1 h2 x y' hl).2.1
  rcases hw with ht | hi | hl
  · rcases hw' with ht' | hi' | hl'
    · rw [(topPair_facts sp h1 h2 v w ht).2.2.1, (topPair_facts sp h1 h2 v w' ht').2.2.1]
    · exact (topiv v w w' ht hi').elim
    · exact (toplb v w w' ht hl').elim
  · rcases hw' with ht' | hi' | hl'
    · exact (topiv v w' w ht' hi).elim
    · obtain ⟨j, e, e2, a1, a2, a3, a4⟩ := hi
      obtain ⟨j', e', e2', b1, b2, b3, b4⟩ := hi'
      -- equal intrinsic variables of non-quantifiers: the same position
      have hq := sp.noQuant e (List.mem_of_getElem? a1)
      have hq' := sp.noQuant e' (List.mem_of_getElem? b1)
      have p1 := preds_getElem?_base m sp.hN j e a1
      have p2 := preds_getElem?_base m sp.hN j' e' b1
      rw [baseId_of_iv e v hq a3] at p1
      rw [baseId_of_iv e' v hq' b3] at p2
      have hk := preds_keys_nodup m sp.hN
      have := key_unique hk (List.mem_of_getElem? p1) (List.mem_of_getElem? p2) rfl
      have hnd := ids_nodup m sp.hN
      have q1 := posOf_of_getElem m hnd j _ p1
      have q2 := posOf_of_getElem m hnd j' _ p2
      rw [this] at q1
      have hjj : j = j' := by rw [← q1, q2]
      subst hjj
      rw [a2] at b2
      simp only [Option.some.injEq] at b2
      subst b2
      rw [a4] at b4
      simpa using b4
    · exact (ivlb v w w' hi hl').elim
  · rcases hw' with ht' | hi' | hl'
    · exact (toplb v w' w ht' hl).elim
    · exact (ivlb v w' w hi' hl).elim
    · obtain ⟨j, e, e2, a1, a2, a3, a4⟩ := hl
      obtain ⟨j', e', e2', b1, b2, b3, b4⟩ := hl'
      rw [← a4, ← b4]
      exact (C.labels_iff hH j j' e e' e2 e2' a1 b1 a2 b2).mp (by rw [a3, b3])

/-- the table is injective: two pairs with one right-hand side have one left-hand side. -/
theorem corr_injective (sp : NoHoleSpace m reps) (hH : ScopesHeld m d = true)
    (h1 : fromMrs m = .ok d) (h2 : fromDmrs chosen d = .ok m2) :
    ∀ v v' w, (v, w) ∈ corrTable (strip m) m2 → (v', w) ∈ corrTable (strip m) m2 → v = v' := by
  obtain ⟨reps', topLbl, sc, lbl, leqs, idToIv, ns, scs, lo, hi, C⟩ :=
    rtctx m sp.hN sp.hR chosen d m2 h1 h2
  intro v v' w hw hw'
  rw [mem_corrTable, ivPair_strip sp.hR, lbPair_strip] at hw hw'
  have ivlb : ∀ x x' y, IsIvPair m m2 x y → IsLbPair m m2 x' y → False := by
    intro x x' y hi hl
    obtain ⟨_, _, _, _, _, _, _, _, _, _, hs, _⟩ := ivPair_facts sp h1 h2 x y hi
    exact hs (lbPair_facts sp h1 h2 x' y hl).2.2.1
  have topiv : ∀ x x' y, IsTopPair (strip m) m2 x y → IsIvPair m m2 x' y → False := by
    intro x x' y ht hi
    obtain ⟨_, _, _, _, _, _, _, _, _, _, hs, _⟩ := ivPair_facts sp h1 h2 x' y hi
    rw [(topPair_facts sp h1 h2 x y ht).2.2.1] at hs
    exact hs rfl
  have toplb : ∀ x x' y, IsTopPair (strip m) m2 x y → IsLbPair m m2 x' y → False := by
    intro x x' y ht hl
    have := (lbPair_facts sp h1 h2 x' y hl).2.2.2
    rw [(topPair_facts sp h1 h2 x y ht).2.2.1] at this
    simp only at this
    omega
  rcases hw with ht | hi | hl
  · rcases hw' with ht' | hi' | hl'
    · have a := (topPair_facts sp h1 h2 v w ht).1
      have b := (topPair_facts sp h1 h2 v' w ht').1
      rw [a] at b
      simpa using b
    · exact (topiv v v' w ht hi').elim
    · exact (toplb v v' w ht hl').elim
  · rcases hw' with ht' | hi' | hl'
    · exact (topiv v' v w ht' hi).elim
    · obtain ⟨j, e, e2, a1, a2, a3, a4, a5, _⟩ := ivPair_facts sp h1 h2 v w hi
      obtain ⟨j', e', e2', b1, b2, b3, b4, b5, _⟩ := ivPair_facts sp h1 h2 v' w hi'
      have hjj : j' = j := C.iv_unique sp.hS j j' e2 e2' a2 b2 a5 b5 w a4 b4
      subst hjj
      rw [a1] at b1
      simp only [Option.some.injEq] at b1
      subst b1
      rw [a3] at b3
      simpa using b3
    · exact (ivlb v v' w hi hl').elim
  · rcases hw' with ht' | hi' | hl'
    · exact (toplb v' v w ht' hl).elim
    · exact (ivlb v' v w hi' hl).elim
    · obtain ⟨j, e, e2, a1, a2, a3, a4⟩ := hl
      obtain ⟨j', e', e2', b1, b2, b3, b4⟩ := hl'
      rw [← a3, ← b3]
      exact (C.labels_iff hH j j' e e' e2 e2' a1 b1 a2 b2).mpr (by rw [a4, b4])

end Frag

end Verif.C04
