/-
C04 — holes, part 3: (U) and (O) for the MRS that comes back, and "no duplicate links".
-/
import Verif.C04.Holes2

namespace Verif.C04
open Verif.Sem

theorem ivFold_vals (d : DMRS) (qmap : List (Int × Int)) :
    ∀ (nodes : List Node) (M0 : List (Int × Var)) (f0 : VFac),
      (∀ p ∈ M0, p.2.vid < f0.vid) →
      ∀ p ∈ (nodes.foldl (ivStep d qmap) (M0, f0)).1,
        p.2.vid < (nodes.foldl (ivStep d qmap) (M0, f0)).2.vid := by
  intro nodes
  induction nodes with
  | nil => intro M0 f0 h; exact h
  | cons n rest ih =>
    intro M0 f0 h
    rw [List.foldl_cons]
    have key : ∀ p ∈ (ivStep d qmap (M0, f0) n).1, p.2.vid < (ivStep d qmap (M0, f0) n).2.vid := by
      by_cases hqs : n.id ∈ quantStarts d
      · have hstep : ivStep d qmap (M0, f0) n = (M0, f0) := by unfold ivStep; rw [if_pos hqs]
        rw [hstep]; exact h
      · have hstep : ivStep d qmap (M0, f0) n =
            (match dlookup n.id qmap with
              | some q => dset q (f0.new n.type n.properties).1 (dset n.id (f0.new n.type n.properties).1 M0)
              | none => dset n.id (f0.new n.type n.properties).1 M0, (f0.new n.type n.properties).2) := by
          unfold ivStep; rw [if_neg hqs]; rfl
        rw [hstep]
        have hnext := VFac.new_vid_next f0 n.type n.properties
        have hge := VFac.new_vid_ge f0 n.type n.properties
        have old : ∀ p ∈ M0, p.2.vid < (f0.new n.type n.properties).2.vid := by
          intro p hp; have := h p hp; omega
        have new1 : ∀ p ∈ dset n.id (f0.new n.type n.properties).1 M0,
            p.2.vid < (f0.new n.type n.properties).2.vid := by
          intro p hp
          rcases mem_dset _ _ _ _ hp with rfl | ho
          · rw [hnext]; exact Nat.lt_succ_self _
          · exact old p ho
        intro p hp
        simp only at hp ⊢
        cases hl : dlookup n.id qmap with
        | none => rw [hl] at hp; exact new1 p hp
        | some q =>
          rw [hl] at hp
          simp only at hp
          rcases mem_dset _ _ _ _ hp with rfl | ho
          · rw [hnext]; exact Nat.lt_succ_self _
          · exact new1 p ho
    exact ih (ivStep d qmap (M0, f0) n).1 (ivStep d qmap (M0, f0) n).2 key

theorem lblOfNode_key (sc : List (Var × List Node)) (i : Int) (l : Var)
    (h : lblOfNode sc i = some l) : l.vid ∈ sc.map (fun s => s.1.vid) := by
  unfold lblOfNode at h
  cases hf : sc.reverse.find? (fun s => s.2.any (fun n => n.id = i)) with
  | none => rw [hf] at h; cases h
  | some s =>
    rw [hf] at h
    simp only [Option.map_some, Option.some.injEq] at h
    rw [← h]
    exact List.mem_map_of_mem (f := fun s => s.1.vid)
      (List.mem_reverse.mp (List.mem_of_find?_eq_some hf))

/-- (U) and (O) for the MRS that comes back. -/
theorem RTSpec.holes {d : DMRS} {m2 : MRS} {topLbl : Option Var} {sc : List (Var × List Node)}
    {lbl : Node → Var} {leqs : List (Var × Var)} {idToIv : List (Int × Var)}
    {ns : List (Int × Role × Int)} {scs : List (Int × Role × String × Var)} {lo hi : Nat}
    (S : RTSpec d m2 topLbl sc lbl leqs idToIv ns scs lo hi) :
    (∀ (i i' : Nat) (e e' : EP) (a a' : Role × Var), m2.rels[i]? = some e → m2.rels[i']? = some e' →
      a ∈ e.args → a' ∈ e'.args → a.2 = a'.2 → FreshV (sc.map (fun s => s.1.vid)) lo a.2 →
      i = i' ∧ a = a') ∧
    ((∀ n ∈ d.nodes, ScRolesNodup scs n.id) → ∀ hc ∈ m2.hcons,
      hc ∈ hcTop (topNew d).1 topLbl ∨
      ∃ (i : Nat) (n : Node) (e : EP), d.nodes[i]? = some n ∧ m2.rels[i]? = some e ∧
        ∃ x ∈ scs, x.1 = n.id ∧ x.2.2.1 = QEQ ∧ hc.lo = x.2.2.2 ∧ (x.2.1, hc.hi) ∈ e.args) ∧
    (∀ (i : Nat) (n : Node) (e : EP), d.nodes[i]? = some n → m2.rels[i]? = some e →
      dIsQuantifier d n.id = true → ∃ w, (BODY_ROLE, w) ∈ e.args) := by
  obtain ⟨chosen, qmap, st, e1, e2, e3, e4, e5, e6, e7, e8, e9, e10⟩ := S.defs
  have hlab : ∀ x ∈ scs, x.2.2.2.vid ∈ sc.map (fun s => s.1.vid) := by
    intro x hx
    obtain ⟨l, _, _, _, _, a4, _⟩ := scArgsD_mem d sc scs e3 x hx
    exact lblOfNode_key sc _ _ a4
  have hM : ∀ p ∈ idToIv, p.2.vid < lo := by
    rw [e5, e6]
    exact ivFold_vals d qmap d.nodes [] _ (by simp)
  have hRidx : ∀ k ∈ sc.map (fun s => s.1.vid),
      k ∈ (buildIvs d qmap (vfReserve (topNew d).2 sc)).2.index := by
    apply ivFold_index
    intro k hk
    unfold vfReserve
    simp only [List.mem_append, List.mem_reverse]
    exact Or.inl hk
  have hinv0 : ∀ hc ∈ hcTop (topNew d).1 topLbl,
      hc.hi.vid < (buildIvs d qmap (vfReserve (topNew d).2 sc)).2.vid := by
    intro hc hhc
    unfold hcTop at hhc
    cases ht : (topNew d).1 with
    | none => rw [ht] at hhc; simp at hhc
    | some t =>
      cases hl : topLbl with
      | none => rw [ht, hl] at hhc; simp at hhc
      | some l =>
        rw [ht, hl] at hhc
        simp only [List.mem_singleton] at hhc
        subst hhc
        obtain ⟨e, hpos⟩ := S.topVar t ht
        rw [e, ← e6]; exact hpos
  obtain ⟨es, r1, _, r3, r4, r5⟩ := buildAll_extra (sc.map (fun s => s.1.vid)) lo d sc idToIv ns scs hM hlab
    d.nodes _ st e7 hinv0 hRidx (by rw [e6]; exact Nat.le_refl _)
  simp only [List.nil_append] at r1
  have hrels : m2.rels = es := by rw [e9, r1]
  refine ⟨?_, ?_, ?_⟩
  · intro i i' e e' a a' hi hi'
    rw [hrels] at hi hi'
    exact r3 i i' e e' a a' hi hi'
  · intro hnd hc hhc
    obtain ⟨news, hn, _, _⟩ := S.hcons
    rw [hn] at hhc
    rcases List.mem_append.mp hhc with ht | hnew
    · exact Or.inl ht
    · right
      have hst : st.hcons = hcTop (topNew d).1 topLbl ++ news := by rw [← e10, hn]
      obtain ⟨i, n, e, c1, c2, c3⟩ := r4 hnd news hst hc hnew
      exact ⟨i, n, e, c1, by rw [hrels]; exact c2, c3⟩
  · intro i n e hn he
    rw [hrels] at he
    exact r5 i n e hn he

end Verif.C04
