/-
C04 — the round trip as ONE variable map, general case, part 3: the table is functional and
injective.
-/
import Verif.C04.Iso8

namespace Verif.C04
open Verif.Sem

/-- what the top of `m` becomes (general form of `top_cases`). -/
theorem top_casesG {m : MRS} {reps : Reps} {d : DMRS} (hN : BaseIdsDistinct m)
    (htl : ∀ t, m.top = some t → t ∉ m.labels) (hr : m.representatives = .ok reps)
    (h1 : fromMrs m = .ok d) :
    ((strip m).top = none ∧ d.top = none) ∨
    (∃ t hc p r rest, m.top = some t ∧ (strip m).top = some t ∧ m.hcLast t = some hc ∧
      hc.lo ∈ m.labels ∧ dlookup hc.lo reps = some (r :: rest) ∧ d.top = some (nidAt p) ∧
      predAt m (nidAt p) = some r ∧ r.2.label = hc.lo) := by
  obtain ⟨t1, t2⟩ := top_shape m hN reps d hr h1
  have hstrip : ∀ t, m.top = some t →
      (strip m).top = if selectsScope m t then some t else none := by
    intro t ht; unfold strip; simp only [ht]
  cases hmt : m.top with
  | none =>
    left
    exact ⟨by unfold strip; simp only [hmt], t1 hmt⟩
  | some t =>
    have tl := htl t hmt
    cases hlast : m.hcLast t with
    | none =>
      left
      have hsel : selectsScope m t = false := by unfold selectsScope; rw [hlast]
      have hlbl : (m.hcmap t).getD t = t := by unfold MRS.hcmap; rw [hlast]; rfl
      refine ⟨by rw [hstrip t hmt, hsel]; rfl, ?_⟩
      rcases t2 t hmt with ⟨_, h⟩ | ⟨r, rest, n, hlook, _, _, hrl⟩
      · exact h
      · exfalso
        rw [hlbl] at hlook hrl
        have := (rep_lookup_member m reps hr _ _ hlook r List.mem_cons_self).1
        exact tl ((mem_labels m t).mpr ⟨r.2, by
          rw [← preds_map_snd m]; exact List.mem_map_of_mem this, hrl⟩)
    | some hc =>
      have hlbl : (m.hcmap t).getD t = hc.lo := by unfold MRS.hcmap; rw [hlast]; rfl
      by_cases hlo : hc.lo ∈ m.labels
      · right
        have hsel : selectsScope m t = true := by
          unfold selectsScope; rw [hlast]; simpa using hlo
        rcases t2 t hmt with ⟨hnone, _⟩ | ⟨r, rest, n, hlook, hdt, hpred, hrl⟩
        · exfalso
          rw [hlbl] at hnone
          obtain ⟨rs, hrs⟩ := label_key m reps hr hc.lo hlo
          rw [hrs] at hnone; cases hnone
        · obtain ⟨p, hp, _, _⟩ := predAt_some m _ _ hpred
          rw [hlbl] at hlook hrl
          exact ⟨t, hc, p, r, rest, rfl, by rw [hstrip t hmt, hsel]; rfl, hlast, hlo, hlook,
            by rw [hdt, hp], by rw [← hp]; exact hpred, hrl⟩
      · left
        have hsel : selectsScope m t = false := by
          unfold selectsScope; rw [hlast]; simpa using hlo
        refine ⟨by rw [hstrip t hmt, hsel]; rfl, ?_⟩
        rcases t2 t hmt with ⟨_, h⟩ | ⟨r, rest, n, hlook, _, _, hrl⟩
        · exact h
        · exfalso
          rw [hlbl] at hlook hrl
          have := (rep_lookup_member m reps hr _ _ hlook r List.mem_cons_self).1
          exact hlo ((mem_labels m hc.lo).mpr ⟨r.2, by
            rw [← preds_map_snd m]; exact List.mem_map_of_mem this, hrl⟩)

namespace RTCtx
variable {m : MRS} {d : DMRS} {m2 : MRS} {reps : Reps} {topLbl : Option Var}
  {sc : List (Var × List Node)} {lbl : Node → Var} {leqs : List (Var × Var)}
  {idToIv : List (Int × Var)} {ns : List (Int × Role × Int)}
  {scs : List (Int × Role × String × Var)} {lo hi : Nat}

/-- the top pair, when `strip` keeps the top (general form of `top_pair`). -/
theorem topPairG (C : RTCtx m d m2 reps topLbl sc lbl leqs idToIv ns scs lo hi)
    (sp : InSpace m reps d) (t : Var) (ht : (strip m).top = some t) :
    IsTopPairG m m2 t ⟨HANDLE, 0⟩ ∧ 0 < lo ∧ ∃ hc p r rest ep2, m.hcLast t = some hc ∧
      hc.hi = t ∧ hc ∈ m.hcons ∧ hc.lo ∈ m.labels ∧ m.top = some t ∧
      dlookup hc.lo reps = some (r :: rest) ∧ m.rels[p]? = some r.2 ∧
      predAt m (nidAt p) = some r ∧ r.2.label = hc.lo ∧ m2.rels[p]? = some ep2 ∧
      (⟨⟨HANDLE, 0⟩, QEQ, ep2.label⟩ : HCons) ∈ m2.hcons ∧
      hcTop (topNew d).1 topLbl = [⟨⟨HANDLE, 0⟩, QEQ, ep2.label⟩] := by
  rcases top_casesG sp.hN (fun t ht => (sp.topNot t ht).1) C.hreps C.hd with
    ⟨hnone, _⟩ | ⟨t', hc, p, r, rest, a1, a2, a3, a4, a5, a6, a7, a8⟩
  · rw [hnone] at ht; cases ht
  · rw [a2] at ht
    simp only [Option.some.injEq] at ht
    subst ht
    have htn : (topNew d).1 = some ⟨HANDLE, 0⟩ := by unfold topNew; rw [a6]; rfl
    have hm2top : m2.top = some ⟨HANDLE, 0⟩ := by rw [C.spec.top]; exact htn
    obtain ⟨hc1, hc2⟩ := hcLast_some m t' hc a3
    obtain ⟨p', hp', hpp, _⟩ := predAt_some m _ _ a7
    have : p' = p := (nidAt_inj _ _ hp').symm
    subst this
    have hrel := preds_snd m p' r hpp
    obtain ⟨np, ep2, ivp, hnp, hidp, hep2, psp, _⟩ := C.at_pos p' r.2 hrel
    have htl : topLbl = some ep2.label := by
      rw [C.spec.scopes.top_eq (List.mem_of_getElem? hnp) (by rw [hidp]; exact a6), psp.labelOk]
    obtain ⟨news, hh, _, _⟩ := C.spec.hcons
    have hct : hcTop (topNew d).1 topLbl = [⟨⟨HANDLE, 0⟩, QEQ, ep2.label⟩] := by
      rw [htn, htl]; rfl
    refine ⟨⟨a2, hm2top⟩, (C.spec.topVar _ htn).2, hc, p', r, rest, ep2, a3, hc2, hc1, a4, a1, a5,
      hrel, a7, a8, hep2, ?_, hct⟩
    rw [hh, hct]; simp

/-- the table is functional. -/
theorem corrG_functional (C : RTCtx m d m2 reps topLbl sc lbl leqs idToIv ns scs lo hi)
    (sp : InSpace m reps d) :
    ∀ v w w', (v, w) ∈ corrTableG m m2 → (v, w') ∈ corrTableG m m2 → w = w' := by
  intro v w w' hw hw'
  rw [mem_corrTableG] at hw hw'
  have topFacts : ∀ x y, IsTopPairG m m2 x y →
      m.top = some x ∧ y = ⟨HANDLE, 0⟩ ∧ x.sort = HANDLE := by
    intro x y ht
    obtain ⟨hp, _, hc, p, r, rest, ep2, _, _, _, _, b5, _⟩ := C.topPairG sp x ht.1
    have := hp.2
    rw [ht.2] at this
    exact ⟨b5, by simpa using this, sp.topSort x b5⟩
  have topiv : ∀ x y y', IsTopPairG m m2 x y → IsIvPair m m2 x y' → False := by
    intro x y y' ht hi
    exact (C.ivPair_factsG sp x y' hi).2.1 (topFacts x y ht).2.2
  have toplb : ∀ x y y', IsTopPairG m m2 x y → IsLbPair m m2 x y' → False := by
    intro x y y' ht hl
    exact (sp.topNot x (topFacts x y ht).1).1 (C.lbPair_factsG sp x y' hl).2.1
  have tophole : ∀ x y y', IsTopPairG m m2 x y → IsHolePair m m2 x y' → False := by
    intro x y y' ht hh
    obtain ⟨_, _, _, _, j, e, e2, r, c1, _, c3, _, _⟩ := C.holePair_facts sp x y' hh
    exact (sp.topNot x (topFacts x y ht).1).2 e (List.mem_of_getElem? c1) _ c3 rfl
  have ivlb : ∀ x y y', IsIvPair m m2 x y → IsLbPair m m2 x y' → False := by
    intro x y y' hi hl
    exact (C.ivPair_factsG sp x y hi).2.1 (C.lbPair_factsG sp x y' hl).1
  have ivhole : ∀ x y y', IsIvPair m m2 x y → IsHolePair m m2 x y' → False := by
    intro x y y' hi hh
    have h1 := (C.ivPair_factsG sp x y hi).2.2.2.2
    rw [(C.holePair_facts sp x y' hh).2.1] at h1
    cases h1
  have lbhole : ∀ x y y', IsLbPair m m2 x y → IsHolePair m m2 x y' → False := by
    intro x y y' hl hh
    exact (C.holePair_facts sp x y' hh).2.2.1 (C.lbPair_factsG sp x y hl).2.1
  rcases hw with ht | hi | hl | hh
  · rcases hw' with ht' | hi' | hl' | hh'
    · rw [(topFacts v w ht).2.1, (topFacts v w' ht').2.1]
    · exact (topiv v w w' ht hi').elim
    · exact (toplb v w w' ht hl').elim
    · exact (tophole v w w' ht hh').elim
  · rcases hw' with ht' | hi' | hl' | hh'
    · exact (topiv v w' w ht' hi).elim
    · obtain ⟨p, ep, ep2, a1, a2, a3, a4, a5, _⟩ := C.ivPair_norm sp v w hi
      obtain ⟨p', ep', ep2', b1, b2, b3, b4, b5, _⟩ := C.ivPair_norm sp v w' hi'
      have q1 := preds_getElem?_base m sp.hN p ep a1
      have q2 := preds_getElem?_base m sp.hN p' ep' b1
      rw [baseId_of_iv ep v a3 a4] at q1
      rw [baseId_of_iv ep' v b3 b4] at q2
      have hk := preds_keys_nodup m sp.hN
      have := key_unique hk (List.mem_of_getElem? q1) (List.mem_of_getElem? q2) rfl
      have hnd := ids_nodup m sp.hN
      have r1 := posOf_of_getElem m hnd p _ q1
      have r2 := posOf_of_getElem m hnd p' _ q2
      rw [this] at r1
      have hpp : p = p' := by rw [← r1, r2]
      subst hpp
      rw [a2] at b2
      simp only [Option.some.injEq] at b2
      subst b2
      rw [a5] at b5
      simpa using b5
    · exact (ivlb v w w' hi hl').elim
    · exact (ivhole v w w' hi hh').elim
  · rcases hw' with ht' | hi' | hl' | hh'
    · exact (toplb v w' w ht' hl).elim
    · exact (ivlb v w' w hi' hl).elim
    · obtain ⟨j, e, e2, a1, a2, a3, a4⟩ := hl
      obtain ⟨j', e', e2', b1, b2, b3, b4⟩ := hl'
      rw [← a4, ← b4]
      exact (C.labels_iff sp.hH j j' e e' e2 e2' a1 b1 a2 b2).mp (by rw [a3, b3])
    · exact (lbhole v w w' hl hh').elim
  · rcases hw' with ht' | hi' | hl' | hh'
    · exact (tophole v w' w ht' hh).elim
    · exact (ivhole v w' w hi' hh).elim
    · exact (lbhole v w' w hl' hh).elim
    · obtain ⟨j, e, e2, a, a1, a2, a3, a4, a5, a6⟩ := hh
      obtain ⟨j', e', e2', a', b1, b2, b3, b4, b5, b6⟩ := hh'
      obtain ⟨hjj, haa⟩ := sp.holeOnce j j' e e' a a' a1 b1 a3 b3 a4 b4 (by rw [a5, b5])
      subst hjj; subst haa
      rw [a2] at b2
      simp only [Option.some.injEq] at b2
      subst b2
      rw [a6] at b6
      simpa using b6

/-- the table is injective. -/
theorem corrG_injective (C : RTCtx m d m2 reps topLbl sc lbl leqs idToIv ns scs lo hi)
    (sp : InSpace m reps d) :
    ∀ v v' w, (v, w) ∈ corrTableG m m2 → (v', w) ∈ corrTableG m m2 → v = v' := by
  intro v v' w hw hw'
  rw [mem_corrTableG] at hw hw'
  have topFacts : ∀ x y, IsTopPairG m m2 x y →
      (strip m).top = some x ∧ y = ⟨HANDLE, 0⟩ ∧ 0 < lo := by
    intro x y ht
    obtain ⟨hp, hlo, _⟩ := C.topPairG sp x ht.1
    have := hp.2
    rw [ht.2] at this
    exact ⟨ht.1, by simpa using this, hlo⟩
  have topiv : ∀ x x' y, IsTopPairG m m2 x y → IsIvPair m m2 x' y → False := by
    intro x x' y ht hi
    have := (C.ivPair_factsG sp x' y hi).2.2.1
    rw [(topFacts x y ht).2.1] at this
    exact this rfl
  have toplb : ∀ x x' y, IsTopPairG m m2 x y → IsLbPair m m2 x' y → False := by
    intro x x' y ht hl
    have := (C.lbPair_factsG sp x' y hl).2.2.2.1
    rw [(topFacts x y ht).2.1] at this
    simp only at this
    omega
  have tophole : ∀ x x' y, IsTopPairG m m2 x y → IsHolePair m m2 x' y → False := by
    intro x x' y ht hh
    have := (C.holePair_facts sp x' y hh).2.2.2.1.2.1
    have h0 := (topFacts x y ht).2.2
    rw [(topFacts x y ht).2.1] at this
    simp only at this
    omega
  have ivlb : ∀ x x' y, IsIvPair m m2 x y → IsLbPair m m2 x' y → False := by
    intro x x' y hi hl
    exact (C.ivPair_factsG sp x y hi).2.2.1 (C.lbPair_factsG sp x' y hl).2.2.1
  have ivhole : ∀ x x' y, IsIvPair m m2 x y → IsHolePair m m2 x' y → False := by
    intro x x' y hi hh
    exact (C.ivPair_factsG sp x y hi).2.2.1 (C.holePair_facts sp x' y hh).2.2.2.1.1
  have lbhole : ∀ x x' y, IsLbPair m m2 x y → IsHolePair m m2 x' y → False := by
    intro x x' y hl hh
    exact (C.holePair_facts sp x' y hh).2.2.2.1.2.2 (C.lbPair_factsG sp x y hl).2.2.2.2
  rcases hw with ht | hi | hl | hh
  · rcases hw' with ht' | hi' | hl' | hh'
    · have a := (topFacts v w ht).1
      have b := (topFacts v' w ht').1
      rw [a] at b
      simpa using b
    · exact (topiv v v' w ht hi').elim
    · exact (toplb v v' w ht hl').elim
    · exact (tophole v v' w ht hh').elim
  · rcases hw' with ht' | hi' | hl' | hh'
    · exact (topiv v' v w ht' hi).elim
    · obtain ⟨p, ep, ep2, a1, a2, a3, a4, a5, a6⟩ := C.ivPair_norm sp v w hi
      obtain ⟨p', ep', ep2', b1, b2, b3, b4, b5, b6⟩ := C.ivPair_norm sp v' w hi'
      have hpp : p' = p := C.iv_unique sp.hS p p' ep2 ep2' a2 b2 a6 b6 w a5 b5
      subst hpp
      rw [a1] at b1
      simp only [Option.some.injEq] at b1
      subst b1
      rw [a4] at b4
      simpa using b4
    · exact (ivlb v v' w hi hl').elim
    · exact (ivhole v v' w hi hh').elim
  · rcases hw' with ht' | hi' | hl' | hh'
    · exact (toplb v' v w ht' hl).elim
    · exact (ivlb v' v w hi' hl).elim
    · obtain ⟨j, e, e2, a1, a2, a3, a4⟩ := hl
      obtain ⟨j', e', e2', b1, b2, b3, b4⟩ := hl'
      rw [← a3, ← b3]
      exact (C.labels_iff sp.hH j j' e e' e2 e2' a1 b1 a2 b2).mpr (by rw [a4, b4])
    · exact (lbhole v v' w hl hh').elim
  · rcases hw' with ht' | hi' | hl' | hh'
    · exact (tophole v' v w ht' hh).elim
    · exact (ivhole v' v w hi' hh).elim
    · exact (lbhole v' v w hl' hh).elim
    · obtain ⟨_, _, _, hf, j, e, e2, r, a1, a2, a3, a4, _⟩ := C.holePair_facts sp v w hh
      obtain ⟨_, _, _, _, j', e', e2', r', b1, b2, b3, b4, _⟩ := C.holePair_facts sp v' w hh'
      obtain ⟨hjj, hrr⟩ := (RTSpec.holes C.spec).1 j j' e2 e2' (r, w) (r', w) a2 b2 a4 b4 rfl hf
      subst hjj
      simp only [Prod.mk.injEq, and_true] at hrr
      subst hrr
      rw [a1] at b1
      simp only [Option.some.injEq] at b1
      subst b1
      have hkeys := keys_nodup_of_rolesOk m sp.hR e (List.mem_of_getElem? a1)
      have := key_unique hkeys a3 b3 rfl
      exact congrArg Prod.snd this

end RTCtx

end Verif.C04
