/-
C04 — round trip, part 8: the second conversion has the same set of links and the same top.
-/
import Verif.C04.RoundTrip7

namespace Verif.C04
open Verif.Sem

theorem mem_outArgs_of (e : EP) (a : Role × Var) (h : a ∈ e.args) (h0 : a.1 ≠ INTRINSIC_ROLE)
    (hc : a.1 ≠ CONSTANT_ROLE) : a ∈ e.outArgs none := by
  unfold EP.outArgs
  rw [List.mem_filter]
  exact ⟨h, by simp [h0, hc]⟩

theorem scRel_lheq (l : Link) (r : String) (h : scRel l = some r) (hr : r = LHEQ) :
    l.post = HEQ_POST := by
  unfold scRel at h
  split at h
  · assumption
  · split at h
    · simp only [Option.some.injEq] at h
      rw [hr] at h
      exact absurd h (by decide)
    · cases h

theorem scRel_qeq (l : Link) (r : String) (h : scRel l = some r) (hr : r = QEQ) :
    l.post = H_POST := by
  unfold scRel at h
  split at h
  · simp only [Option.some.injEq] at h
    rw [hr] at h
    exact absurd h (by decide)
  · split at h
    · assumption
    · cases h

theorem scRel_none (l : Link) (h : ¬ ∃ r, scRel l = some r) :
    l.post ≠ H_POST ∧ l.post ≠ HEQ_POST := by
  constructor
  · intro hp; apply h; unfold scRel; rw [hp]; simp [H_POST, HEQ_POST]
  · intro hp; apply h; unfold scRel; rw [hp]; simp

namespace RTCtx
variable {m : MRS} {d : DMRS} {m2 : MRS} {reps : Reps} {topLbl : Option Var}
  {sc : List (Var × List Node)} {lbl : Node → Var} {leqs : List (Var × Var)}
  {idToIv : List (Int × Var)} {ns : List (Int × Role × Int)}
  {scs : List (Int × Role × String × Var)} {lo hi : Nat}

/-- the `MOD/EQ` links of corresponding scopes coincide. -/
theorem mod_transfer (m m2 : MRS) (hN : BaseIdsDistinct m) (hN2 : BaseIdsDistinct m2)
    (reps reps2 : Reps) (hr : m.representatives = .ok reps)
    (hr2 : m2.representatives = .ok reps2) (hA : repsPos m reps = repsPos m2 reps2)
    (s : Var × List Pred) (hs : s ∈ reps) (ls : List Link) (hf : modLinksOf m s.2 = .ok ls) :
    ∃ s2 ∈ reps2, modLinksOf m2 s2.2 = .ok ls := by
  obtain ⟨s2, hs2, hmap⟩ := reps_transfer m m2 reps reps2 hA s hs
  refine ⟨s2, hs2, ?_⟩
  rw [modLinksOf_pos m hN s.2 (fun r hr' => (rep_member m reps hr s.1 s.2 hs r hr').1)] at hf
  rw [modLinksOf_pos m2 hN2 s2.2 (fun r hr' => (rep_member m2 reps2 hr2 s2.1 s2.2 hs2 r hr').1),
    hmap]
  exact hf

/-- **second conversion, links**: the same set. -/
theorem second_links (C : RTCtx m d m2 reps topLbl sc lbl leqs idToIv ns scs lo hi)
    (hR : RolesOk m = true) (hS : IVSorts m = true) (reps2 : Reps)
    (hr2 : m2.representatives = .ok reps2) (hA : repsPos m reps = repsPos m2 reps2)
    (d2 : DMRS) (h3 : fromMrs m2 = .ok d2) (l : Link) : l ∈ d2.links ↔ l ∈ d.links := by
  have hN2 := C.baseIds2 hS
  constructor
  · intro hl
    rw [mem_fromMrs_links m2 reps2 d2 hr2 h3] at hl
    rcases hl with ⟨i, e2, a, he2, ha, hf⟩ | ⟨s2, hs2, ls, hf, hin⟩
    · have hilt := C.pos_lt i e2 he2
      obtain ⟨n, e2', iv, hn, hid, he2', ps, _⟩ :=
        C.at_pos i m.rels[i] (List.getElem?_eq_getElem hilt)
      rw [he2] at he2'; cases he2'
      obtain ⟨ham, hne0, _⟩ := mem_outArgs e2 a ha
      cases ps.origin a ham with
      | arg0 h => rw [h] at hne0; exact absurd rfl hne0
      | ns x hx hidx hr hv =>
        obtain ⟨l0, hl0, rfl, hnsl⟩ := C.spec.nsMem x hx
        have := C.argLink_ns hS reps2 l0 hl0 hnsl i (hidx.trans hid) e2 he2 a.2 hv
        have ha' : a = (l0.role, a.2) := Prod.ext hr rfl
        rw [ha', this] at hf
        simp only [Except.ok.injEq, Option.some.injEq] at hf
        rw [← hf]; exact hl0
      | lheq x hx hidx hr hrel hv =>
        obtain ⟨l0, hl0, a1, a2, a3, a4⟩ := C.spec.scMem x hx
        have hp := scRel_lheq l0 _ a3 hrel
        have := C.argLink_sc hS reps2 hr2 hA l0 hl0 i (by rw [← a1, hidx, hid]) e2 x.2.2.2 a4 a.2
          (Or.inl ⟨hp, hv⟩)
        have ha' : a = (l0.role, a.2) := Prod.ext (by rw [hr, a2]) rfl
        rw [ha', this] at hf
        simp only [Except.ok.injEq, Option.some.injEq] at hf
        rw [← hf]; exact hl0
      | qeq x hx hidx hr hrel hnew hhc =>
        obtain ⟨l0, hl0, a1, a2, a3, a4⟩ := C.spec.scMem x hx
        have hp := scRel_qeq l0 _ a3 hrel
        have := C.argLink_sc hS reps2 hr2 hA l0 hl0 i (by rw [← a1, hidx, hid]) e2 x.2.2.2 a4 a.2
          (Or.inr ⟨hp, hnew, hhc⟩)
        have ha' : a = (l0.role, a.2) := Prod.ext (by rw [hr, a2]) rfl
        rw [ha', this] at hf
        simp only [Except.ok.injEq, Option.some.injEq] at hf
        rw [← hf]; exact hl0
      | body hr hq hnew hfree =>
        have := C.argLink_body hS reps2 hr2 (nidAt i) e2 a.1 a.2 hnew hfree
        rw [show a = (a.1, a.2) from rfl, this] at hf
        cases hf
    · obtain ⟨s, hs, hf'⟩ := mod_transfer m2 m hN2 C.hN reps2 reps hr2 C.hreps hA.symm s2 hs2 ls hf
      rw [mem_fromMrs_links m reps d C.hreps C.hd]
      exact Or.inr ⟨s, hs, ls, hf', hin⟩
  · intro hl
    have hl' := hl
    rw [mem_fromMrs_links m reps d C.hreps C.hd] at hl'
    rcases hl' with ⟨i, e, a, he, ha, hf⟩ | ⟨s, hs, ls, hf, hin⟩
    · obtain ⟨hstart, hrole⟩ := argLink_start_role m reps _ e a l hf
      obtain ⟨n, e2, iv, hn, hid, he2, ps, _⟩ := C.at_pos i e he
      obtain ⟨hne0, hmodp⟩ := fromMrs_link_role m hR reps d C.hreps C.hd l hl
      obtain ⟨_, _, hnec⟩ := mem_outArgs e a ha
      obtain ⟨c1, c2, c3⟩ := ps.complete (C.rf n.id)
      have hsn : l.start = n.id := by rw [hstart, hid]
      rw [mem_fromMrs_links m2 reps2 d2 hr2 h3]
      by_cases hsc : ∃ r, scRel l = some r
      · obtain ⟨r, hr⟩ := hsc
        obtain ⟨lb, hlb, hmem⟩ := C.spec.scComplete l hl r hr
        rcases c3 _ hmem hsn with ⟨hrel, hm⟩ | ⟨hrel, hole, hm, hnew, hhc⟩
        · have hp := scRel_lheq l r hr hrel
          have := C.argLink_sc hS reps2 hr2 hA l hl i hstart e2 lb hlb lb (Or.inl ⟨hp, rfl⟩)
          exact Or.inl ⟨i, e2, (l.role, lb), he2,
            mem_outArgs_of e2 _ hm hne0 (by rw [hrole]; exact hnec), this⟩
        · have hp := scRel_qeq l r hr hrel
          have := C.argLink_sc hS reps2 hr2 hA l hl i hstart e2 lb hlb hole
            (Or.inr ⟨hp, hnew, hhc⟩)
          exact Or.inl ⟨i, e2, (l.role, hole), he2,
            mem_outArgs_of e2 _ hm hne0 (by rw [hrole]; exact hnec), this⟩
      · obtain ⟨hp1, hp2⟩ := scRel_none l hsc
        have hmod : l.role ≠ BARE_EQ_ROLE := by
          intro hm
          have := hmodp hm
          -- a MOD-role link has post EQ; it would have to be a MOD/EQ link, but this one is an
          -- argument link of a predication whose roles exclude MOD
          unfold RolesOk at hR
          rw [List.all_eq_true] at hR
          have hre := hR e (List.mem_of_getElem? he)
          simp only [Bool.and_eq_true, Bool.not_eq_true', List.any_eq_false] at hre
          have := hre.2 a (mem_outArgs e a ha).1
          rw [← hrole, hm] at this
          simp at this
        have hnsl := nsLink_of_post m C.hN hS reps d C.hreps C.hd l hl hmod hp1 hp2
        obtain ⟨v, hv, hm⟩ := c2 _ (C.spec.nsComplete l hl hnsl) hsn
        have := C.argLink_ns hS reps2 l hl hnsl i hstart e2 he2 v hv
        exact Or.inl ⟨i, e2, (l.role, v), he2,
          mem_outArgs_of e2 _ hm hne0 (by rw [hrole]; exact hnec), this⟩
    · obtain ⟨s2, hs2, hf'⟩ := mod_transfer m m2 C.hN hN2 reps reps2 C.hreps hr2 hA s hs ls hf
      rw [mem_fromMrs_links m2 reps2 d2 hr2 h3]
      exact Or.inr ⟨s2, hs2, ls, hf', hin⟩

/-- **second conversion, top.** -/
theorem second_top (C : RTCtx m d m2 reps topLbl sc lbl leqs idToIv ns scs lo hi)
    (hS : IVSorts m = true) (reps2 : Reps)
    (hr2 : m2.representatives = .ok reps2) (hA : repsPos m reps = repsPos m2 reps2)
    (d2 : DMRS) (h3 : fromMrs m2 = .ok d2) : d2.top = d.top := by
  obtain ⟨top2, _, _, htop2, _, _, hd2⟩ := fromMrs_ok m2 reps2 d2 hr2 h3
  have hdt2 : d2.top = top2 := by rw [hd2]
  obtain ⟨t1, t2⟩ := top_shape m C.hN reps d C.hreps C.hd
  cases hdt : d.top with
  | none =>
    -- no top in the DMRS: no top handle in `m2`
    have hm2 : m2.top = none := by rw [C.spec.top]; unfold topNew; rw [hdt]
    unfold getTop at htop2
    rw [hm2] at htop2
    simp only [Except.ok.injEq] at htop2
    rw [hdt2, ← htop2]
  | some t =>
    cases hmt : m.top with
    | none => rw [t1 hmt] at hdt; cases hdt
    | some tv =>
      rcases t2 tv hmt with ⟨_, hnone⟩ | ⟨r, rest, n, hlook, hdtop, hpred, _⟩
      · rw [hnone] at hdt; cases hdt
      · rw [hdt] at hdtop
        simp only [Option.some.injEq] at hdtop
        subst hdtop
        obtain ⟨j, hj, _, hjlt⟩ := predAt_some m _ _ hpred
        subst hj
        obtain ⟨nj, e2, iv, hnj, hidj, he2, ps, _⟩ :=
          C.at_pos j m.rels[j] (List.getElem?_eq_getElem hjlt)
        have htl : topLbl = some e2.label := by
          rw [C.spec.scopes.top_eq (List.mem_of_getElem? hnj) (by rw [hidj]; exact hdt),
            ps.labelOk]
        have hm2top : m2.top = some ⟨HANDLE, 0⟩ := by
          rw [C.spec.top]; unfold topNew; rw [hdt]; rfl
        have htn : (topNew d).1 = some ⟨HANDLE, 0⟩ := by rw [← C.spec.top]; exact hm2top
        -- the constraint on the top handle
        have hlast : m2.hcLast ⟨HANDLE, 0⟩ = some ⟨⟨HANDLE, 0⟩, QEQ, e2.label⟩ := by
          obtain ⟨news, e1, h2, h3', _⟩ := C.hcons_his
          have hmem : (⟨⟨HANDLE, 0⟩, QEQ, e2.label⟩ : HCons) ∈ m2.hcons := by
            rw [e1, htn, htl]; simp [hcTop]
          cases hf : m2.hcLast ⟨HANDLE, 0⟩ with
          | none => exact absurd rfl (hcLast_none m2 _ hf _ hmem)
          | some hc =>
            obtain ⟨hc1, hc2⟩ := hcLast_some m2 _ hc hf
            rw [e1] at hc1
            rcases List.mem_append.mp hc1 with ht | hn
            · rw [htn, htl] at ht
              simp only [hcTop, List.mem_singleton] at ht
              rw [ht]
            · exfalso
              have hpos := (h2 (⟨⟨HANDLE, 0⟩, QEQ, e2.label⟩ : HCons)
                (by rw [htn, htl]; simp [hcTop])).2
              have := (h3' hc hn).2.1
              rw [hc2] at this
              simp only at this
              omega
        obtain ⟨r', rest', hlook2, hnid⟩ :=
          C.rep_target hS reps2 hr2 hA _ (dlookup_mem hlook) r rest rfl j hpred e2 he2
        unfold getTop at htop2
        rw [hm2top] at htop2
        simp only at htop2
        have hcm : (m2.hcmap ⟨HANDLE, 0⟩).getD ⟨HANDLE, 0⟩ = e2.label := by
          unfold MRS.hcmap; rw [hlast]; rfl
        rw [hcm, hlook2] at htop2
        simp only [hnid, Except.ok.injEq] at htop2
        rw [hdt2, ← htop2]

end RTCtx

end Verif.C04
