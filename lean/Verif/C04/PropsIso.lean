/-
C04 — "Converting a well-formed MRS to DMRS and back yields an MRS isomorphic to the original
once what DMRS cannot express (arguments that are not the intrinsic variable of any predication,
and individual constraints) is removed, with the top still selecting the same predication and
the index the same predication's variable": the isomorphism as ONE variable map.

`strip`, `IsoVia`, `varsOf` are defined in Model.lean; the map is read off the table
`corrTable (strip m) m2` (tops, intrinsic variables and labels of the predications at the same
position).
-/
import Verif.C04.Iso6
import Verif.C04.Iso12

namespace Verif.C04
open Verif.Sem

/-
FULL STATEMENT: `roundtrip_iso` at the end of this file — for every `m` of the in-space class
`InSpace` (Iso7.lean: the conjunction of fifteen named, decidable hypotheses, all evaluated by the
driver on every generated case) and every choice of scope labels,
`∃ f, IsoVia f (strip m) (fromDmrs chosen (fromMrs m))`.
`roundtrip_iso` still assumes that the way back succeeds (`h2`) and states two hypotheses on the
DMRS of the first conversion (`ScopesHeld m d`, `QuantHead m d`); PropsSrc.lean proves the success
(`roundtrip_total`, `roundtrip_iso_total`) and restates the theorem from predicates of the source
alone (`roundtrip_iso_src` on `InSpaceSrc`).
`roundtrip_iso_partial` (kept) is the earlier result on the fragment `NoHoleSpace` — no quantifiers
and no argument constrained by a handle constraint.
The two pieces the general theorem needed beyond the fragment:
 (a) holes: two different (position, role) pairs get two DIFFERENT fresh holes, distinct from all
     labels and intrinsic variables, every hole has exactly one handle constraint, every new
     handle constraint belongs to a hole, and every quantifier gets a BODY (Holes1-4.lean:
     invariants of `scStep`/`buildRel`, and `scRoles_nodup`: the argument links of one node have
     different roles);
 (b) quantifiers: `f` sends the bound variable to the intrinsic variable of the RSTR target, which
     is right exactly under O1 = `QuantHead` ("each quantifier binds the first representative of
     its restriction"); `roundtrip_iso_needs_O1` shows on a concrete MRS that without O1 (all other
     fourteen hypotheses holding) no map exists: the round trip rebinds the quantifier.
-/

/-- **Isomorphism by one variable map** (fragment).  For every MRS without quantifiers and
without constrained arguments (`NoHoleSpace`), whose scopes are held together by EQ links
(`ScopesHeld`), and every choice of scope labels: the MRS that comes back is `strip m` with its
variables renamed by an injective, sort-preserving map — same predications in the same order,
labels, arguments role by role, handle constraints, top and index mapped, properties of intrinsic
variables preserved, no individual constraints. -/
theorem roundtrip_iso_partial (m : MRS) (reps : Reps) (sp : NoHoleSpace m reps)
    (chosen : List Var) (d : DMRS) (m2 : MRS) (hr : m.representatives = .ok reps)
    (h1 : fromMrs m = .ok d) (h2 : fromDmrs chosen d = .ok m2) (hH : ScopesHeld m d = true) :
    ∃ f : Var → Var, IsoVia f (strip m) m2 := by
  obtain ⟨reps', topLbl, sc, lbl, leqs, idToIv, ns, scs, lo, hi, C⟩ :=
    rtctx m sp.hN sp.hR chosen d m2 h1 h2
  have hfun := corr_functional sp hH h1 h2
  have hinj := corr_injective sp hH h1 h2
  have fOf : ∀ v w, (v, w) ∈ corrTable (strip m) m2 → corrMap (strip m) m2 v = w :=
    fun v w h => corrMap_of_mem _ _ hfun v w h
  have fPair : ∀ v w, (IsIvPair m m2 v w ∨ IsLbPair m m2 v w) → corrMap (strip m) m2 v = w := by
    intro v w h
    rcases h with h | h
    · exact fOf v w (mem_table_iv sp.hR v w h)
    · exact fOf v w (mem_table_lb v w h)
  have hlen : (strip m).rels.length = m2.rels.length := by
    unfold strip
    simp only [List.length_map]
    rw [C.spec.len, (nodes_shape m sp.hN d h1).1]
  refine ⟨corrMap (strip m) m2,
    { len := hlen, rels := ?_, hconsF := ?_, hconsB := ?_, top := ?_, index := ?_,
      icons := (fromDmrs_rels chosen d m2 h2).2, inj := ?_, sorts := ?_ }⟩
  · -- predications
    intro i es e2 hes he2
    obtain ⟨e, he, rfl⟩ := strip_rel m i es hes
    have hface : epFace e2 = epFace e := by
      have := (roundtrip_predications m sp.hN chosen d m2 h1 h2).1
      have h3 : (m2.rels.map epFace)[i]? = (m.rels.map epFace)[i]? := by rw [this]
      rw [List.getElem?_map, List.getElem?_map, he2, he] at h3
      simpa using h3
    refine ⟨?_, ?_, ?_, ?_, ?_⟩
    · unfold epFace at hface; exact hface.symm
    · exact (fPair _ _ (Or.inr ⟨i, e, e2, he, he2, rfl, rfl⟩)).symm
    · intro r v hv
      simp only [List.mem_filter] at hv
      obtain ⟨w, hw, hp⟩ := arg_forward sp hr h1 h2 i e e2 he he2 r v hv.1 hv.2
      rw [fPair v w hp]; exact hw
    · intro r w hw
      obtain ⟨v, hv, hx, hp⟩ := arg_backward sp hr h1 h2 i e e2 he he2 r w hw
      exact ⟨v, by simp only [List.mem_filter]; exact ⟨hv, hx⟩, (fPair v w hp).symm⟩
    · intro v hv
      rw [strip_iv m sp.hR e (List.mem_of_getElem? he)] at hv
      obtain ⟨_, e2', iv, _, _, he2', _, he2iv⟩ := C.at_pos i e he
      rw [he2] at he2'; cases he2'
      have hp : IsIvPair m m2 v iv := ⟨i, e, e2, he, he2, hv, he2iv⟩
      rw [fPair v iv (Or.inl hp)]
      obtain ⟨_, _, _, _, _, _, _, _, _, _, _, hprops⟩ := ivPair_facts sp h1 h2 v iv hp
      exact hprops
  · -- handle constraints, forward
    intro hc hhc
    have hkeep : hc ∈ m.hcons ∧ m.hcLast hc.hi = some hc ∧ hc.lo ∈ m.labels ∧ m.top = some hc.hi := by
      unfold strip at hhc
      simp only [List.mem_filter, Bool.and_eq_true, beq_iff_eq, decide_eq_true_eq, Bool.or_eq_true,
        List.any_eq_true] at hhc
      refine ⟨hhc.1, hhc.2.1.1, hhc.2.1.2, ?_⟩
      rcases hhc.2.2 with h | ⟨e, he, a, ha, hah⟩
      · exact h
      · exfalso
        have := sp.noConstr e he a ha
        rw [hah, hhc.2.1.1] at this
        cases this
    have hst : (strip m).top = some hc.hi := by
      unfold strip
      simp only [hkeep.2.2.2]
      have : selectsScope m hc.hi = true := by
        unfold selectsScope; rw [hkeep.2.1]; simpa using hkeep.2.2.1
      rw [if_pos this]
    obtain ⟨htp, hc', p, r, rest, ep2, b1, _, _, _, b5, _, b7, b8, b9, b10⟩ :=
      top_pair sp hr h1 h2 hc.hi hst
    rw [hkeep.2.1] at b1
    simp only [Option.some.injEq] at b1
    subst b1
    obtain ⟨_, _, hpp, _⟩ := predAt_some m _ _ b7
    obtain ⟨p', hp', hpp', _⟩ := predAt_some m _ _ b7
    have : p' = p := (nidAt_inj _ _ hp').symm
    subst this
    rw [b10, fOf _ _ (mem_table_top _ _ htp), sp.topQeq hc.hi hc b5 hkeep.2.1,
      fPair hc.lo ep2.label (Or.inr ⟨p', r.2, ep2, RTCtx.preds_snd m p' r hpp', b9, b8, rfl⟩)]
    simp
  · -- handle constraints, backward
    intro hc2 hhc2
    obtain ⟨tl, hh, _⟩ := m2_hcons_frag sp h1 h2
    cases htn : (topNew d).1 with
    | none => rw [hh, htn] at hhc2; simp [hcTop] at hhc2
    | some t2 =>
      -- the DMRS has a top
      have hdt : ∃ n, d.top = some n := by
        unfold topNew at htn
        cases hd : d.top with
        | none => rw [hd] at htn; cases htn
        | some n => exact ⟨n, rfl⟩
      obtain ⟨n, hdn⟩ := hdt
      rcases top_cases sp hr h1 with ⟨_, hnone, _⟩ | ⟨t, hc, p, r, rest, a1, a2, a3, a4, a5, a6, a7, a8⟩
      · rw [hnone] at hdn; cases hdn
      · obtain ⟨htp, hc', p', r', rest', ep2, b1, b2, b3, b4, b5, b6, b7, b8, b9, b10⟩ :=
          top_pair sp hr h1 h2 t a2
        rw [a3] at b1
        simp only [Option.some.injEq] at b1
        subst b1
        rw [b10] at hhc2
        simp only [List.mem_singleton] at hhc2
        have hmem : hc ∈ (strip m).hcons := by
          unfold strip
          simp only [List.mem_filter, Bool.and_eq_true, beq_iff_eq, decide_eq_true_eq,
            Bool.or_eq_true, List.any_eq_true]
          exact ⟨b3, ⟨by rw [b2]; exact a3, b4⟩, Or.inl (by rw [b2]; exact a1)⟩
        obtain ⟨_, _, hpp', _⟩ := predAt_some m _ _ b7
        obtain ⟨p'', hp'', hpp'', _⟩ := predAt_some m _ _ b7
        have : p'' = p' := (nidAt_inj _ _ hp'').symm
        subst this
        refine ⟨hc, hmem, ?_⟩
        rw [hhc2, b2, fOf _ _ (mem_table_top _ _ htp), sp.topQeq t hc a1 a3,
          fPair hc.lo ep2.label (Or.inr ⟨p'', r'.2, ep2, RTCtx.preds_snd m p'' r' hpp'', b9, b8, rfl⟩)]
  · -- top
    rcases top_cases sp hr h1 with ⟨hs, hnone, _⟩ | ⟨t, hc, p, r, rest, a1, a2, a3, a4, a5, a6, a7, a8⟩
    · rw [hs, C.spec.top]
      unfold topNew; rw [hnone]; rfl
    · obtain ⟨htp, _⟩ := top_pair sp hr h1 h2 t a2
      rw [a2, htp.2]
      simp only [Option.map_some]
      rw [fOf _ _ (mem_table_top _ _ htp)]
  · -- index
    obtain ⟨k1, k2⟩ := roundtrip_index m sp.hN sp.hR sp.hS chosen d m2 h1 h2
    obtain ⟨rp, hrp⟩ := MRS.representatives_total m
    obtain ⟨_, _, _, _, _, _, hd⟩ := fromMrs_ok m rp d hrp h1
    have hdi : d.index = getIndex m := by rw [hd]
    unfold getIndex at hdi
    have hsi : (strip m).index = (match m.index with
        | some v => if (ivToNid m v).isSome then some v else none
        | none => none) := rfl
    rw [hsi]
    cases hmi : m.index with
    | none =>
      rw [hmi] at hdi
      simp only [Option.bind_none] at hdi
      rw [k1 hdi]; rfl
    | some v =>
      rw [hmi] at hdi
      simp only [Option.bind_some] at hdi
      cases hiv : ivToNid m v with
      | none =>
        rw [hiv] at hdi
        simp only [hiv, Option.isSome_none, Bool.false_eq_true, if_false]
        rw [k1 hdi]; rfl
      | some nn =>
        rw [hiv] at hdi
        obtain ⟨j, ej, c1, c2, c3, c4⟩ := ivToNid_some m v nn hiv
        subst c4
        obtain ⟨v2, e2, i1, i2, i3, _, _⟩ := k2 j hdi
        simp only [hiv, Option.isSome_some, if_true, Option.map_some]
        rw [i1, fPair v v2 (Or.inl ⟨j, ej, e2, c1, i2, c3, i3⟩)]
  · -- injective
    intro v hv w hw hfw
    obtain ⟨x, hx⟩ := table_total sp hr h1 h2 v hv
    obtain ⟨y, hy⟩ := table_total sp hr h1 h2 w hw
    rw [fOf v x hx, fOf w y hy] at hfw
    subst hfw
    exact hinj v w x hx hy
  · -- sorts
    intro v hv
    obtain ⟨x, hx⟩ := table_total sp hr h1 h2 v hv
    rw [fOf v x hx]
    exact pair_sort sp h1 h2 v x hx

/-- the fragment is inhabited, with shared labels, a label-scopal argument, an unexpressed
argument and a constant: "(the) big dog barks, again [rain]" without the quantifier. -/
def bigDogNoQ : MRS :=
  { top := some ⟨"h", 0⟩, index := some ⟨"e", 2⟩,
    rels := [ { predicate := "_big_a_1", label := ⟨"h", 1⟩,
                args := [("ARG0", ⟨"e", 8⟩), ("ARG1", ⟨"x", 3⟩)] },
              { predicate := "named", label := ⟨"h", 1⟩, args := [("ARG0", ⟨"x", 3⟩)],
                carg := some "x3" },
              { predicate := "_bark_v_1", label := ⟨"h", 1⟩,
                args := [("ARG0", ⟨"e", 2⟩), ("ARG1", ⟨"x", 3⟩), ("ARG2", ⟨"i", 9⟩)] },
              { predicate := "_again_a_1", label := ⟨"h", 1⟩,
                args := [("ARG0", ⟨"e", 12⟩), ("ARG1", ⟨"h", 13⟩)] },
              { predicate := "_rain_v_1", label := ⟨"h", 13⟩, args := [("ARG0", ⟨"e", 14⟩)] } ],
    hcons := [⟨⟨"h", 0⟩, "qeq", ⟨"h", 1⟩⟩],
    icons := [⟨⟨"e", 2⟩, "topic", ⟨"x", 3⟩⟩] }

def noHoleCheck (m : MRS) : Bool :=
  match m.representatives, fromMrs m with
  | .ok reps, .ok d =>
    decide (BaseIdsDistinct m) && RolesOk m && IVSorts m &&
    m.rels.all (fun e => !e.isQuantifier) &&
    m.rels.all (fun e => e.args.all (fun a => (m.hcLast a.2).isNone && a.1 != CONSTANT_ROLE)) &&
    m.rels.all (fun e => e.label.sort == HANDLE) &&
    (match m.top with
      | some t => t.sort == HANDLE && !decide (t ∈ m.labels) &&
          m.rels.all (fun e => e.args.all (fun a => a.2 != t)) &&
          (match m.hcLast t with | some hc => hc.rel == QEQ | none => true)
      | none => true) &&
    m.rels.all (fun e => (e.outArgs none).all (fun a => !decide (a.2 ∈ m.labels) || argLinked m reps a.2)) &&
    ScopesHeld m d && (fromDmrs [] d matches .ok _)
  | _, _ => false

example : bigDogNoQ.isWellFormed = true ∧ noHoleCheck bigDogNoQ = true := ⟨by decide, by decide⟩

/-! ## The general theorem -/

/-- **Isomorphism by one variable map.**  For every MRS of the in-space class `InSpace` (base ids
distinct, roles distinct per predication, intrinsic-variable sorts, every quantifier linked to its
restriction, scopes held together, handle sorts, top neither label nor argument, qeq only, every
expressible argument linked, no CARG role among the arguments, one constraint per handle, no
constrained label, each hole used once, every quantifier has a BODY hole, and O1: every quantifier
binds the first representative of its restriction) and every choice of scope labels, the MRS that
comes back is `strip m` with its variables renamed by ONE injective, sort-preserving map: same
predications in the same order, labels, arguments role by role (holes and bound variables
included), handle constraints in both directions, top and index mapped, properties of intrinsic
variables preserved, no individual constraints. -/
theorem roundtrip_iso (m : MRS) (reps : Reps) (d : DMRS) (sp : InSpace m reps d)
    (chosen : List Var) (m2 : MRS) (hr : m.representatives = .ok reps)
    (h1 : fromMrs m = .ok d) (h2 : fromDmrs chosen d = .ok m2) :
    ∃ f : Var → Var, IsoVia f (strip m) m2 := by
  obtain ⟨reps', topLbl, sc, lbl, leqs, idToIv, ns, scs, lo, hi, C⟩ :=
    rtctx m sp.hN sp.hR chosen d m2 h1 h2
  have : reps' = reps := by
    have := C.hreps
    rw [hr] at this
    cases this; rfl
  subst this
  exact ⟨corrMapG m m2, C.isoG sp chosen h2⟩

/-- the in-space class as one Boolean (what the driver evaluates per case, field by field). -/
def inSpaceButO1 (m : MRS) (reps : Reps) (d : DMRS) : Bool :=
  decide (BaseIdsDistinct m) && RolesOk m && IVSorts m && RstrLinked m reps && ScopesHeld m d &&
  HandleSorts m && TopOk m && QeqOnly m && ArgsLinked m reps && NoCargRole m && OneConstraint m &&
  NoConstrainedLabel m && HolesOnce m && QuantBody m

def inSpaceCheck (m : MRS) (reps : Reps) (d : DMRS) : Bool :=
  inSpaceButO1 m reps d && QuantHead m d

theorem inSpace_of_check (m : MRS) (reps : Reps) (d : DMRS) (h : inSpaceCheck m reps d = true) :
    InSpace m reps d := by
  unfold inSpaceCheck inSpaceButO1 at h
  simp only [Bool.and_eq_true, decide_eq_true_eq, and_assoc] at h
  obtain ⟨a1, a2, a3, a4, a5, a6, a7, a8, a9, a10, a11, a12, a13, a14, a15⟩ := h
  exact ⟨a1, a2, a3, a4, a5, a6, a7, a8, a9, a10, a11, a12, a13, a14, a15⟩

/-- `InSpace` is inhabited by a structure with a quantifier, a modifier sharing a label, a
qeq-scopal and a label-scopal argument (`bigDog` of PropsRT.lean), so `roundtrip_iso` applies. -/
def inSpaceRun (m : MRS) (chosen : List Var) : Bool :=
  match m.representatives, fromMrs m with
  | .ok reps, .ok d => inSpaceCheck m reps d && (fromDmrs chosen d matches .ok _)
  | _, _ => false

example : bigDog.isWellFormed = true ∧ inSpaceRun bigDog [] = true := ⟨by decide, by decide⟩

/-! ## O1 is necessary -/

/-- "the cat barks", with a second noun sharing the restriction's label and standing FIRST: the
quantifier binds `x4` (the cat), the first representative of its restriction `h5` is the dog. -/
def rebind : MRS :=
  { top := some ⟨"h", 0⟩, index := some ⟨"e", 2⟩,
    rels := [ { predicate := "_the_q", label := ⟨"h", 6⟩,
                args := [("ARG0", ⟨"x", 4⟩), ("RSTR", ⟨"h", 7⟩), ("BODY", ⟨"h", 8⟩)] },
              { predicate := "_dog_n_1", label := ⟨"h", 5⟩, args := [("ARG0", ⟨"x", 3⟩)] },
              { predicate := "_cat_n_1", label := ⟨"h", 5⟩, args := [("ARG0", ⟨"x", 4⟩)] },
              { predicate := "_bark_v_1", label := ⟨"h", 1⟩,
                args := [("ARG0", ⟨"e", 2⟩), ("ARG1", ⟨"x", 4⟩)] } ],
    hcons := [⟨⟨"h", 0⟩, "qeq", ⟨"h", 1⟩⟩, ⟨⟨"h", 7⟩, "qeq", ⟨"h", 5⟩⟩] }

def rebindReps : Reps := match rebind.representatives with | .ok r => r | _ => []
def rebindD : DMRS := match fromMrs rebind with | .ok d => d | _ => default
def rebindBack : MRS := match fromDmrs [] rebindD with | .ok m2 => m2 | _ => default

/-- **O1 is necessary.**  `rebind` is well-formed and satisfies the other fourteen hypotheses of
`InSpace`; only O1 (`QuantHead`) fails.  Both conversions succeed, and NO variable map makes the
result isomorphic to `strip rebind`: in `rebind` the quantifier's ARG0 is the verb's ARG1, in the
MRS that comes back it is not (the quantifier now binds the dog's variable: the rebinding). -/
theorem roundtrip_iso_needs_O1 :
    rebind.isWellFormed = true ∧ rebind.representatives = .ok rebindReps ∧
    fromMrs rebind = .ok rebindD ∧ fromDmrs [] rebindD = .ok rebindBack ∧
    inSpaceButO1 rebind rebindReps rebindD = true ∧ QuantHead rebind rebindD = false ∧
    ¬ ∃ f : Var → Var, IsoVia f (strip rebind) rebindBack := by
  have e1 : okIs rebind.representatives rebindReps = true := by decide
  have e2 : okIs (fromMrs rebind) rebindD = true := by decide
  have e3 : okIs (fromDmrs [] rebindD) rebindBack = true := by decide
  refine ⟨by decide, eq_of_okIs _ _ e1, eq_of_okIs _ _ e2, eq_of_okIs _ _ e3, by decide,
    by decide, ?_⟩
  intro ⟨f, h⟩
  have h1 : sharedArg (strip rebind) 0 3 "ARG0" "ARG1" = true := by decide
  have h2 : sharedArg rebindBack 0 3 "ARG0" "ARG1" = false := by decide
  rw [h.sharedArg 0 3 "ARG0" "ARG1" h1] at h2
  cases h2

end Verif.C04
