/-
C04 — round trip, part 4: quantifier flags, intrinsic variables and identifiers of the MRS
that comes back (`m2 = fromDmrs chosen (fromMrs m)`).
-/
import Verif.C04.RoundTrip3

namespace Verif.C04
open Verif.Sem

theorem sort_of_infix (s : String) (h : isInfix s.toList "xeipu".toList = true) :
    s ≠ HANDLE ∧ s ≠ "q" := by
  constructor
  · intro e; rw [e] at h; revert h; decide
  · intro e; rw [e] at h; revert h; decide

/-- every argument of a predication of `m` got an answer from `argLink` (the conversion
succeeded), and a `some` answer is a link of the DMRS. -/
theorem fromMrs_argLink_ok (m : MRS) (reps : Reps) (d : DMRS)
    (hreps : m.representatives = .ok reps) (h : fromMrs m = .ok d) (i : Nat) (e : EP)
    (he : m.rels[i]? = some e) (a : Role × Var) (ha : a ∈ e.outArgs none) :
    ∃ o, argLink m reps (nidAt i) e a = .ok o ∧ ∀ l, o = some l → l ∈ d.links := by
  obtain ⟨top, nodes, links, _, _, hlinks, hdeq⟩ := fromMrs_ok m reps d hreps h
  have hl := hlinks
  unfold mrsToLinks at hlinks
  cases hargs : mapE (argLinksOf m reps) m.rels.zipIdx with
  | error e' => rw [hargs] at hlinks; cases hlinks
  | ok argls =>
    have hz : (e, i) ∈ m.rels.zipIdx := List.mem_zipIdx_iff_getElem?.mpr he
    obtain ⟨ols, _, hfo⟩ := mapE_ok_mem_left _ _ _ hargs (e, i) hz
    unfold argLinksOf at hfo
    obtain ⟨o, _, hfa⟩ := mapE_ok_mem_left _ _ _ hfo a ha
    refine ⟨o, hfa, ?_⟩
    intro l hol
    subst hol
    rw [mem_fromMrs_links m reps d hreps h]
    exact Or.inl ⟨i, e, a, he, ha, hfa⟩

theorem argLink_some_of_linked (m : MRS) (reps : Reps) (s : Int) (e : EP) (a : Role × Var)
    (o : Option Link) (h : argLink m reps s e a = .ok o)
    (hl : argLinked m reps a.2 = true) : ∃ l, o = some l := by
  unfold argLinked at hl
  unfold argLink at h
  cases hiv : ivToNid m a.2 with
  | some stop =>
    rw [hiv] at h
    simp only at h
    cases hep : epById m a.2 with
    | none => rw [hep] at h; cases h
    | some t =>
      rw [hep] at h
      simp only [Except.ok.injEq] at h
      exact ⟨_, h.symm⟩
  | none =>
    rw [hiv] at h hl
    simp only [Option.isSome_none, Bool.false_or] at hl
    simp only at h
    cases hlk : dlookup (scopalTarget m a.2).1 reps with
    | none => rw [hlk] at hl; cases hl
    | some rs =>
      rw [hlk] at h hl
      cases rs with
      | nil => cases hl
      | cons r rest =>
        simp only at h
        cases hn : idToNid m r.1 with
        | none => rw [hn] at h; cases h
        | some stop =>
          rw [hn] at h
          simp only [Except.ok.injEq] at h
          exact ⟨_, h.symm⟩

namespace RTCtx
variable {m : MRS} {d : DMRS} {m2 : MRS} {reps : Reps} {topLbl : Option Var}
  {sc : List (Var × List Node)} {lbl : Node → Var} {leqs : List (Var × Var)}
  {idToIv : List (Int × Var)} {ns : List (Int × Role × Int)}
  {scs : List (Int × Role × String × Var)} {lo hi : Nat}

theorem links_just (C : RTCtx m d m2 reps topLbl sc lbl leqs idToIv ns scs lo hi) :
    ∀ l ∈ d.links, Justified m reps l :=
  links_justified m C.hN reps d C.hreps C.hd

/-- positions of `m2` are positions of `m`. -/
theorem pos_lt (C : RTCtx m d m2 reps topLbl sc lbl leqs idToIv ns scs lo hi) (k : Nat) (e' : EP)
    (hk : m2.rels[k]? = some e') : k < m.rels.length := by
  have := (List.getElem?_eq_some_iff.mp hk).1
  rw [C.spec.len, (nodes_shape m C.hN d C.hd).1] at this
  exact this

/-- a RSTR argument of a rebuilt predication comes from a RSTR link leaving its node. -/
theorem rstr_arg_link (C : RTCtx m d m2 reps topLbl sc lbl leqs idToIv ns scs lo hi)
    {n : Node} {e2 : EP} {iv : Var}
    (ps : PosSpec (sc.map (fun s => s.1.vid)) d sc idToIv ns scs lo hi m2.hcons n e2 iv)
    (hq2 : e2.isQuantifier = true) :
    ∃ l ∈ d.links, l.start = n.id ∧ l.role = RESTRICTION_ROLE := by
  unfold EP.isQuantifier at hq2
  rw [List.any_eq_true] at hq2
  obtain ⟨a, ha, har⟩ := hq2
  have har : a.1 = RESTRICTION_ROLE := by simpa using har
  cases ps.origin a ha with
  | arg0 h =>
    rw [h] at har
    have har' : INTRINSIC_ROLE = RESTRICTION_ROLE := har
    exact absurd har' (by decide)
  | ns x hx hid' hr hv =>
    obtain ⟨l, hl, rfl, _⟩ := C.spec.nsMem x hx
    exact ⟨l, hl, hid', by rw [← har, hr]⟩
  | lheq x hx hid' hr hrel hv =>
    obtain ⟨l, hl, a1, a2, _⟩ := C.spec.scMem x hx
    exact ⟨l, hl, by rw [← a1, hid'], by rw [← a2, ← hr, har]⟩
  | qeq x hx hid' hr hrel hnew hhc =>
    obtain ⟨l, hl, a1, a2, _⟩ := C.spec.scMem x hx
    exact ⟨l, hl, by rw [← a1, hid'], by rw [← a2, ← hr, har]⟩
  | body hr _ _ _ =>
    rw [hr] at har
    exact absurd har (by decide)

/-- a RSTR link leaving a node is read back: the rebuilt predication is a quantifier. -/
theorem rstr_link_arg (C : RTCtx m d m2 reps topLbl sc lbl leqs idToIv ns scs lo hi)
    (hS : IVSorts m = true) {n : Node} {e2 : EP} {iv : Var}
    (ps : PosSpec (sc.map (fun s => s.1.vid)) d sc idToIv ns scs lo hi m2.hcons n e2 iv)
    (l : Link) (hl1 : l ∈ d.links) (hs : l.start = n.id) (hl2 : l.role = RESTRICTION_ROLE) :
    e2.isQuantifier = true := by
  obtain ⟨_, c2, c3⟩ := ps.complete (C.rf n.id)
  have hin' : ∃ v, (RESTRICTION_ROLE, v) ∈ e2.args := by
    by_cases hsc : ∃ r, scRel l = some r
    · obtain ⟨r, hr⟩ := hsc
      obtain ⟨lb, _, hmem⟩ := C.spec.scComplete l hl1 r hr
      rcases c3 _ hmem hs with ⟨_, hm⟩ | ⟨_, hole, hm, _⟩
      · exact ⟨_, by rw [← hl2]; exact hm⟩
      · exact ⟨_, by rw [← hl2]; exact hm⟩
    · have hp1 : l.post ≠ H_POST := by
        intro hp; apply hsc; unfold scRel; rw [hp]; simp [H_POST, HEQ_POST]
      have hp2 : l.post ≠ HEQ_POST := by
        intro hp; apply hsc; unfold scRel; rw [hp]; simp
      have hnsl := nsLink_of_post m C.hN hS reps d C.hreps C.hd l hl1
        (by rw [hl2]; decide) hp1 hp2
      obtain ⟨v, _, hm⟩ := c2 _ (C.spec.nsComplete l hl1 hnsl) hs
      exact ⟨v, by rw [← hl2]; exact hm⟩
  obtain ⟨v, hv⟩ := hin'
  exact isQuantifier_of_rstr e2 v hv

theorem mem_quantStarts (d : DMRS) (i : Int) :
    i ∈ quantStarts d ↔ ∃ l ∈ d.links, l.start = i ∧ l.role = RESTRICTION_ROLE := by
  unfold quantStarts
  constructor
  · intro h
    obtain ⟨l, hl, hs⟩ := List.mem_map.mp h
    rw [List.mem_filter] at hl
    exact ⟨l, hl.1, hs, by simpa using hl.2⟩
  · rintro ⟨l, hl, hs, hr⟩
    exact List.mem_map.mpr ⟨l, List.mem_filter.mpr ⟨hl, by simpa using hr⟩, hs⟩

/-- the quantifier flag of the rebuilt predication = "its node starts a RSTR link". -/
theorem quant_iff_qs (C : RTCtx m d m2 reps topLbl sc lbl leqs idToIv ns scs lo hi)
    (hS : IVSorts m = true) {n : Node} {e2 : EP} {iv : Var}
    (ps : PosSpec (sc.map (fun s => s.1.vid)) d sc idToIv ns scs lo hi m2.hcons n e2 iv) :
    e2.isQuantifier = true ↔ n.id ∈ quantStarts d := by
  rw [mem_quantStarts]
  constructor
  · exact C.rstr_arg_link ps
  · rintro ⟨l, hl, hs, hr⟩
    exact C.rstr_link_arg hS ps l hl hs hr

/-- a quantifier of `m` whose RSTR produces a link is a quantifier of `m2`, and a quantifier of
`m2` was one of `m`. -/
theorem quant_of_m (C : RTCtx m d m2 reps topLbl sc lbl leqs idToIv ns scs lo hi)
    (hS : IVSorts m = true) (hQ : RstrLinked m reps = true) (i : Nat) (e : EP)
    (he : m.rels[i]? = some e) {n : Node} {e2 : EP} {iv : Var} (hid : n.id = nidAt i)
    (ps : PosSpec (sc.map (fun s => s.1.vid)) d sc idToIv ns scs lo hi m2.hcons n e2 iv) :
    e2.isQuantifier = e.isQuantifier := by
  cases hq : e.isQuantifier with
  | false =>
    cases hq2 : e2.isQuantifier with
    | false => rfl
    | true =>
      exfalso
      obtain ⟨l, hl, hs, hr⟩ := C.rstr_arg_link ps hq2
      have := rstr_link_quantifier m reps l (C.links_just l hl) hr i e (by rw [hs, hid]) he
      rw [hq] at this; cases this
  | true =>
    have hq' := hq
    unfold EP.isQuantifier at hq
    rw [List.any_eq_true] at hq
    obtain ⟨a, ha, har⟩ := hq
    have har : a.1 = RESTRICTION_ROLE := by simpa using har
    have hout : a ∈ e.outArgs none := by
      unfold EP.outArgs
      rw [List.mem_filter]
      refine ⟨ha, ?_⟩
      rw [har]
      simp [RESTRICTION_ROLE, INTRINSIC_ROLE, CONSTANT_ROLE]
    obtain ⟨o, ho, hol⟩ := fromMrs_argLink_ok m reps d C.hreps C.hd i e he a hout
    have hlinked : argLinked m reps a.2 = true := by
      unfold RstrLinked at hQ
      rw [List.all_eq_true] at hQ
      have := hQ e (List.mem_of_getElem? he)
      rw [List.all_eq_true] at this
      have := this a ha
      rw [har] at this
      simpa using this
    obtain ⟨l, rfl⟩ := argLink_some_of_linked m reps _ e a o ho hlinked
    obtain ⟨hs, hr⟩ := argLink_start_role m reps _ e a l ho
    exact C.rstr_link_arg hS ps l (hol l rfl) (by rw [hs, hid]) (by rw [hr, har])

/-- non-quantifier predications of `m2` have pairwise different intrinsic variables. -/
theorem iv_unique (C : RTCtx m d m2 reps topLbl sc lbl leqs idToIv ns scs lo hi)
    (hS : IVSorts m = true) (j k : Nat) (e e' : EP) (hj : m2.rels[j]? = some e)
    (hk : m2.rels[k]? = some e') (hq : e.isQuantifier = false) (hq' : e'.isQuantifier = false)
    (v : Var) (hv : e.iv = some v) (hv' : e'.iv = some v) : k = j := by
  have hjlt := C.pos_lt j e hj
  have hklt := C.pos_lt k e' hk
  obtain ⟨n, e2, iv, hn, hid, he2, ps, he2iv⟩ :=
    C.at_pos j m.rels[j] (List.getElem?_eq_getElem hjlt)
  obtain ⟨nk, ek2, ivk, hnk, hidk, hek2, psk, hek2iv⟩ :=
    C.at_pos k m.rels[k] (List.getElem?_eq_getElem hklt)
  rw [hj] at he2; cases he2
  rw [hk] at hek2; cases hek2
  rw [hv] at he2iv; rw [hv'] at hek2iv
  simp only [Option.some.injEq] at he2iv hek2iv
  have hjq : n.id ∉ quantStarts d := by
    intro hin
    have := (C.quant_iff_qs hS ps).2 hin
    rw [hq] at this; cases this
  have hkq : nk.id ∉ quantStarts d := by
    intro hin
    have := (C.quant_iff_qs hS psk).2 hin
    rw [hq'] at this; cases this
  have hnn : nk = n := C.spec.ivInj nk (List.mem_of_getElem? hnk) n (List.mem_of_getElem? hn)
    hkq hjq ivk iv psk.ivOk ps.ivOk (by rw [← he2iv, ← hek2iv])
  rw [hnn, hid] at hidk
  exact (nidAt_inj _ _ hidk).symm

/-- the sort of the intrinsic variable of a non-quantifier predication of `m2`. -/
theorem iv_sort (C : RTCtx m d m2 reps topLbl sc lbl leqs idToIv ns scs lo hi)
    (hS : IVSorts m = true) (k : Nat) (e' : EP) (hk : m2.rels[k]? = some e')
    (hq' : e'.isQuantifier = false) (v : Var) (hv : e'.iv = some v) :
    v.sort ≠ HANDLE ∧ v.sort ≠ "q" ∧ v.vid < lo := by
  have hklt := C.pos_lt k e' hk
  obtain ⟨nk, ek2, ivk, hnk, hidk, hek2, psk, hek2iv⟩ :=
    C.at_pos k m.rels[k] (List.getElem?_eq_getElem hklt)
  rw [hk] at hek2; cases hek2
  rw [hv] at hek2iv
  simp only [Option.some.injEq] at hek2iv
  subst hek2iv
  have hkq : nk.id ∉ quantStarts d := by
    intro hin
    have := (C.quant_iff_qs hS psk).2 hin
    rw [hq'] at this; cases this
  obtain ⟨iv', c1, c2, c3, _⟩ := C.spec.ivNonQ nk (List.mem_of_getElem? hnk) hkq
  rw [psk.ivOk] at c1
  cases c1
  -- the node type
  obtain ⟨_, hsh⟩ := nodes_shape m C.hN d C.hd
  obtain ⟨n', hn', _, _, _, _, _, _, hqt, hty, hnone⟩ := hsh k m.rels[k] (List.getElem?_eq_getElem hklt)
  rw [hnk] at hn'
  cases hn'
  refine ⟨?_, ?_, c3⟩
  all_goals
    cases hqm : m.rels[k].isQuantifier with
    | true =>
      rw [c2, (hqt hqm).1]
      decide
    | false =>
      unfold IVSorts at hS
      rw [List.all_eq_true] at hS
      have := hS m.rels[k] (List.getElem_mem hklt)
      rw [hqm] at this
      cases hiv : m.rels[k].iv with
      | none => rw [hiv] at this; simp at this
      | some w =>
        rw [hiv] at this
        simp only [Bool.false_or] at this
        rw [c2, (hty hqm w hiv).1]
        first
          | exact (sort_of_infix w.sort this).1
          | exact (sort_of_infix w.sort this).2

end RTCtx

end Verif.C04
