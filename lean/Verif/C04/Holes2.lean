/-
C04 — holes, part 2: the invariants (U) and (O) through `buildRel` and the loop over the nodes.
-/
import Verif.C04.Holes1

namespace Verif.C04
open Verif.Sem

/-- the scopal argument entries of node `nid` carry pairwise different roles. -/
def ScRolesNodup (scs : List (Int × Role × String × Var)) (nid : Int) : Prop :=
  ((scs.filter (fun a => a.1 = nid)).map (·.2.1)).Nodup

theorem buildRel_extra (R : List Nat) (b : Nat) (d : DMRS) (sc : List (Var × List Node))
    (idToIv : List (Int × Var)) (ns : List (Int × Role × Int))
    (scs : List (Int × Role × String × Var)) (st st' : BuildSt) (n : Node)
    (h : buildRel d sc idToIv ns scs st n = .ok st') (hR : ∀ k ∈ R, k ∈ st.vf.index)
    (hb : b ≤ st.vf.vid) (hM : ∀ p ∈ idToIv, p.2.vid < b) (hlab : ∀ x ∈ scs, x.2.2.2.vid ∈ R) :
    ∃ e, st'.rels = st.rels ++ [e] ∧
      (∀ a ∈ e.args, ∀ a' ∈ e.args, a.2 = a'.2 → FreshV R b a.2 → a = a') ∧
      (ScRolesNodup scs n.id → ∀ news, st'.hcons = st.hcons ++ news → ∀ hc ∈ news,
        ∃ x ∈ scs, x.1 = n.id ∧ x.2.2.1 = QEQ ∧ hc.lo = x.2.2.2 ∧ (x.2.1, hc.hi) ∈ e.args) ∧
      (dIsQuantifier d n.id = true → ∃ w, (BODY_ROLE, w) ∈ e.args) := by
  unfold buildRel at h
  cases hlbl : lblOfNode sc n.id with
  | none => rw [hlbl] at h; cases h
  | some label =>
    cases hiv : dlookup n.id idToIv with
    | none => rw [hlbl, hiv] at h; cases h
    | some iv =>
      rw [hlbl, hiv] at h
      simp only at h
      cases hns : (ns.filter (fun a => a.1 = n.id)).foldlM (nsStep idToIv) [(INTRINSIC_ROLE, iv)] with
      | error e => rw [hns] at h; cases h
      | ok args1 =>
        rw [hns] at h
        simp only at h
        cases hsc : (scs.filter (fun a => a.1 = n.id)).foldlM scStep (args1, st.vf, st.hcons) with
        | error e => rw [hsc] at h; cases h
        | ok acc =>
          obtain ⟨args2, vf2, hcons2⟩ := acc
          rw [hsc] at h
          simp only [Except.ok.injEq] at h
          obtain ⟨n1, _⟩ := nsFold_spec idToIv _ _ _ hns
          -- no value of args1 is fresh
          have nofresh : ∀ a ∈ args1, ¬ FreshV R b a.2 := by
            intro a ha hf
            rcases n1 a ha with h0 | ⟨x, _, _, hv⟩
            · simp only [List.mem_singleton] at h0
              rw [h0] at hf
              have := hM _ (dlookup_mem hiv)
              have := hf.2.1
              simp only at *
              omega
            · have := hM _ (dlookup_mem hv)
              have := hf.2.1
              simp only at *
              omega
          obtain ⟨u1, u2, u3⟩ := scFold_extra R b _ _ _ hsc hR
            (fun x hx => hlab x (List.mem_filter.mp hx).1)
            (fun a ha hf => absurd hf (nofresh a ha))
            (fun a ha _ _ _ hf => absurd hf (nofresh a ha))
          have sR := scFold_index R _ _ _ hsc hR
          obtain ⟨s1, _, _, _, _, _⟩ := scFold_spec R _ _ _ hsc hR
          simp only at u1 u2 u3 sR s1
          have liftx : ∀ (args : List (Role × Var)) (hc : HCons),
              (∃ x ∈ scs.filter (fun a => a.1 = n.id), x.2.2.1 = QEQ ∧ hc.lo = x.2.2.2 ∧
                (x.2.1, hc.hi) ∈ args) →
              ∃ x ∈ scs, x.1 = n.id ∧ x.2.2.1 = QEQ ∧ hc.lo = x.2.2.2 ∧ (x.2.1, hc.hi) ∈ args := by
            rintro args hc ⟨x, hx, c1, c2, c3⟩
            obtain ⟨hx1, hx2⟩ := List.mem_filter.mp hx
            exact ⟨x, hx1, by simpa using hx2, c1, c2, c3⟩
          by_cases hbq : (dIsQuantifier d n.id && !(args2.any (fun a => a.1 == BODY_ROLE))) = true
          · rw [if_pos hbq] at h
            simp only [Bool.and_eq_true, Bool.not_eq_true', List.any_eq_false] at hbq
            have hnob' : ∀ a ∈ args2, a.1 ≠ BODY_ROLE := by
              intro a ha; simpa using hbq.2 a ha
            have hge := VFac.new_vid_ge vf2 (some HANDLE) []
            refine ⟨{ predicate := n.predicate, label := label,
                      args := dset BODY_ROLE (vf2.new (some HANDLE) []).1 args2,
                      carg := n.carg, lnk := n.lnk, surface := n.surface, base := n.base }, ?_, ?_, ?_,
              fun _ => ⟨_, mem_dset_self _ _ _⟩⟩
            · rw [← h]
            · intro a ha a' ha' he hf
              simp only at ha ha'
              rcases mem_dset _ _ _ _ ha with rfl | hold
              · rcases mem_dset _ _ _ _ ha' with rfl | hold'
                · rfl
                · exfalso
                  have := u1 a' hold' (by rw [← he]; exact hf)
                  rw [← he] at this
                  simp only at this
                  omega
              · rcases mem_dset _ _ _ _ ha' with rfl | hold'
                · exfalso
                  have := u1 a hold hf
                  rw [he] at this
                  simp only at this
                  omega
                · exact u2 a hold a' hold' he hf
            · intro hnd news hn hc hhc
              rw [← h] at hn
              simp only at hn
              obtain ⟨x, hx, c1, c2, c3, c4⟩ := liftx args2 hc (u3 hnd news hn hc hhc)
              exact ⟨x, hx, c1, c2, c3, mem_dset_of_ne _ _ _ _ c4 (hnob' _ c4)⟩
          · rw [if_neg hbq] at h
            refine ⟨{ predicate := n.predicate, label := label, args := args2,
                      carg := n.carg, lnk := n.lnk, surface := n.surface, base := n.base }, ?_, u2, ?_, ?_⟩
            · rw [← h]
            · intro hnd news hn hc hhc
              rw [← h] at hn
              simp only at hn
              exact liftx args2 hc (u3 hnd news hn hc hhc)
            · intro hq
              simp only [Bool.and_eq_true, Bool.not_eq_true', not_and, Bool.not_eq_false] at hbq
              have := hbq hq
              rw [List.any_eq_true] at this
              obtain ⟨a, ha, hab⟩ := this
              exact ⟨a.2, by
                have : a.1 = BODY_ROLE := by simpa using hab
                rw [← this]; exact ha⟩

theorem buildAll_extra (R : List Nat) (b : Nat) (d : DMRS) (sc : List (Var × List Node))
    (idToIv : List (Int × Var)) (ns : List (Int × Role × Int))
    (scs : List (Int × Role × String × Var)) (hM : ∀ p ∈ idToIv, p.2.vid < b)
    (hlab : ∀ x ∈ scs, x.2.2.2.vid ∈ R) :
    ∀ (nodes : List Node) (st st' : BuildSt),
      nodes.foldlM (buildRel d sc idToIv ns scs) st = .ok st' →
      (∀ hc ∈ st.hcons, hc.hi.vid < st.vf.vid) → (∀ k ∈ R, k ∈ st.vf.index) → b ≤ st.vf.vid →
      ∃ es, st'.rels = st.rels ++ es ∧
        (∀ (i : Nat) (e : EP) (a : Role × Var), es[i]? = some e → a ∈ e.args → FreshV R b a.2 →
          st.vf.vid ≤ a.2.vid) ∧
        (∀ (i i' : Nat) (e e' : EP) (a a' : Role × Var), es[i]? = some e → es[i']? = some e' →
          a ∈ e.args → a' ∈ e'.args → a.2 = a'.2 → FreshV R b a.2 → i = i' ∧ a = a') ∧
        ((∀ n ∈ nodes, ScRolesNodup scs n.id) → ∀ news, st'.hcons = st.hcons ++ news →
          ∀ hc ∈ news, ∃ (i : Nat) (n : Node) (e : EP), nodes[i]? = some n ∧ es[i]? = some e ∧
            ∃ x ∈ scs, x.1 = n.id ∧ x.2.2.1 = QEQ ∧ hc.lo = x.2.2.2 ∧ (x.2.1, hc.hi) ∈ e.args) ∧
        (∀ (i : Nat) (n : Node) (e : EP), nodes[i]? = some n → es[i]? = some e →
          dIsQuantifier d n.id = true → ∃ w, (BODY_ROLE, w) ∈ e.args) := by
  intro nodes
  induction nodes with
  | nil =>
    intro st st' h _ _ _
    simp only [List.foldlM_nil] at h
    cases h
    refine ⟨[], by simp, by simp, by simp, ?_, by simp⟩
    intro _ news hn hc hhc
    have : news = [] :=
      (List.append_cancel_left (as := st.hcons) (bs := []) (cs := news) (by simpa using hn)).symm
    rw [this] at hhc; cases hhc
  | cons n rest ih =>
    intro st st' h hinv hR hb
    rw [List.foldlM_cons] at h
    cases h1 : buildRel d sc idToIv ns scs st n with
    | error e => rw [h1] at h; cases h
    | ok st1 =>
      rw [h1] at h
      obtain ⟨e0, iv0, sp⟩ := buildRel_spec R d sc idToIv ns scs st st1 n h1 hR
      obtain ⟨e, he, hu, ho, hbody⟩ := buildRel_extra R b d sc idToIv ns scs st st1 n h1 hR hb hM hlab
      have hee : e0 = e := by
        have := sp.rels
        rw [he] at this
        simpa using this.symm
      subst hee
      have hinv1 := sp.hcBelow hinv
      have hb1 : b ≤ st1.vf.vid := Nat.le_trans hb sp.mono
      obtain ⟨es, r1, r2, r3, r4, r5⟩ := ih st1 st' h hinv1 sp.idx hb1
      obtain ⟨news1, q1, _, _⟩ := sp.hcons
      -- fresh values of the head lie in [st.vf.vid, st1.vf.vid)
      have headRange : ∀ a ∈ e0.args, FreshV R b a.2 →
          st.vf.vid ≤ a.2.vid ∧ a.2.vid < st1.vf.vid := by
        intro a ha hf
        have := origin_fresh (sp.origin hinv a ha) (hM _ (dlookup_mem sp.ivOk)) hM hlab hf
        exact ⟨this.2.1, this.2.2.1⟩
      refine ⟨e0 :: es, by rw [r1, he]; simp, ?_, ?_, ?_, ?_⟩
      · intro i e' a hi ha hf
        cases i with
        | zero =>
          simp only [List.getElem?_cons_zero, Option.some.injEq] at hi
          subst hi
          exact (headRange a ha hf).1
        | succ k =>
          simp only [List.getElem?_cons_succ] at hi
          exact Nat.le_trans sp.mono (r2 k e' a hi ha hf)
      · intro i i' e1 e2 a a' hi hi' ha ha' he' hf
        cases i with
        | zero =>
          simp only [List.getElem?_cons_zero, Option.some.injEq] at hi
          subst hi
          cases i' with
          | zero =>
            simp only [List.getElem?_cons_zero, Option.some.injEq] at hi'
            subst hi'
            exact ⟨rfl, hu a ha a' ha' he' hf⟩
          | succ k' =>
            exfalso
            simp only [List.getElem?_cons_succ] at hi'
            have h1' := (headRange a ha hf).2
            have h2' := r2 k' e2 a' hi' ha' (by rw [← he']; exact hf)
            rw [← he'] at h2'
            omega
        | succ k =>
          simp only [List.getElem?_cons_succ] at hi
          cases i' with
          | zero =>
            exfalso
            simp only [List.getElem?_cons_zero, Option.some.injEq] at hi'
            subst hi'
            have h1' := (headRange a' ha' (by rw [← he']; exact hf)).2
            have h2' := r2 k e1 a hi ha hf
            rw [he'] at h2'
            omega
          | succ k' =>
            simp only [List.getElem?_cons_succ] at hi'
            obtain ⟨c1, c2⟩ := r3 k k' e1 e2 a a' hi hi' ha ha' he' hf
            exact ⟨by rw [c1], c2⟩
      · intro hnd news hn hc hhc
        -- split the new constraints into the head's and the tail's
        obtain ⟨_, news2, _, q2, _⟩ := buildAll_spec R d sc idToIv ns scs rest st1 st' h hinv1 sp.idx
        have hnews : news = news1 ++ news2 := by
          rw [q2, q1, List.append_assoc] at hn
          exact (List.append_cancel_left hn).symm
        rw [hnews] at hhc
        rcases List.mem_append.mp hhc with hh | ht
        · obtain ⟨x, hx, c1, c2, c3, c4⟩ := ho (hnd n List.mem_cons_self) news1 q1 hc hh
          exact ⟨0, n, e0, by simp, by simp, x, hx, c1, c2, c3, c4⟩
        · obtain ⟨i, n', e', c1, c2, c3⟩ :=
            r4 (fun n' hn' => hnd n' (List.mem_cons_of_mem _ hn')) news2 q2 hc ht
          exact ⟨i + 1, n', e', by simpa using c1, by simpa using c2, c3⟩
      · intro i n' e' hi he' hq
        cases i with
        | zero =>
          simp only [List.getElem?_cons_zero, Option.some.injEq] at hi he'
          subst hi; subst he'
          exact hbody hq
        | succ k =>
          simp only [List.getElem?_cons_succ] at hi he'
          exact r5 k n' e' hi he' hq

end Verif.C04
