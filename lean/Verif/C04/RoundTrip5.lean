/-
C04 — round trip, part 5: the second conversion — identifiers, nodes and index.
-/
import Verif.C04.RoundTrip4

namespace Verif.C04
open Verif.Sem

namespace RTCtx
variable {m : MRS} {d : DMRS} {m2 : MRS} {reps : Reps} {topLbl : Option Var}
  {sc : List (Var × List Node)} {lbl : Node → Var} {leqs : List (Var × Var)}
  {idToIv : List (Int × Var)} {ns : List (Int × Role × Int)}
  {scs : List (Int × Role × String × Var)} {lo hi : Nat}

/-- the identifiers `EP.__init__` gives the predications of `m2` are pairwise distinct. -/
theorem baseIds2 (C : RTCtx m d m2 reps topLbl sc lbl leqs idToIv ns scs lo hi)
    (hS : IVSorts m = true) : BaseIdsDistinct m2 := by
  unfold BaseIdsDistinct
  rw [List.Nodup, List.pairwise_iff_getElem]
  intro i j hi hj hij heq
  simp only [List.length_map] at hi hj
  simp only [List.getElem_map] at heq
  have hei : m2.rels[i]? = some m2.rels[i] := List.getElem?_eq_getElem hi
  have hej : m2.rels[j]? = some m2.rels[j] := List.getElem?_eq_getElem hj
  have hilt := C.pos_lt i _ hei
  have hjlt := C.pos_lt j _ hej
  obtain ⟨ni, ei, ivi, hni, hidi, he2i, psi, hivi⟩ :=
    C.at_pos i m.rels[i] (List.getElem?_eq_getElem hilt)
  obtain ⟨nj, ej, ivj, hnj, hidj, he2j, psj, hivj⟩ :=
    C.at_pos j m.rels[j] (List.getElem?_eq_getElem hjlt)
  rw [hei] at he2i; cases he2i
  rw [hej] at he2j; cases he2j
  unfold EP.baseId at heq
  rw [hivi, hivj] at heq
  simp only [Option.getD_some] at heq
  have hne : i ≠ j := Nat.ne_of_lt hij
  cases hqi : m2.rels[i].isQuantifier with
  | false =>
    cases hqj : m2.rels[j].isQuantifier with
    | false =>
      rw [hqi, hqj] at heq
      simp only [Bool.false_eq_true, if_false] at heq
      subst heq
      exact hne (C.iv_unique hS j i _ _ hej hei hqj hqi ivi hivj hivi)
    | true =>
      rw [hqi, hqj] at heq
      simp only [Bool.false_eq_true, if_false, if_true] at heq
      have := (C.iv_sort hS i _ hei hqi ivi hivi).2.1
      rw [heq] at this
      exact this rfl
  | true =>
    cases hqj : m2.rels[j].isQuantifier with
    | false =>
      rw [hqi, hqj] at heq
      simp only [Bool.false_eq_true, if_false, if_true] at heq
      have := (C.iv_sort hS j _ hej hqj ivj hivj).2.1
      rw [← heq] at this
      exact this rfl
    | true =>
      rw [hqi, hqj] at heq
      simp only [if_true, Var.mk.injEq, true_and] at heq
      have h1 := (C.quant_iff_qs hS psi).1 hqi
      have h2 := (C.quant_iff_qs hS psj).1 hqj
      have := C.spec.ivQInj _ h1 _ h2 ivi ivj psi.ivOk psj.ivOk heq
      rw [hidi, hidj] at this
      exact hne (nidAt_inj _ _ this)

/-- **second conversion, nodes.** -/
theorem second_nodes (C : RTCtx m d m2 reps topLbl sc lbl leqs idToIv ns scs lo hi)
    (hS : IVSorts m = true) (hQ : RstrLinked m reps = true) (d2 : DMRS)
    (h3 : fromMrs m2 = .ok d2) : d2.nodes = d.nodes := by
  have hN2 := C.baseIds2 hS
  obtain ⟨hlen, hsh⟩ := nodes_shape m C.hN d C.hd
  obtain ⟨hlen2, hsh2⟩ := nodes_shape m2 hN2 d2 h3
  apply List.ext_getElem?
  intro i
  cases he : m.rels[i]? with
  | none =>
    have h1 : m.rels.length ≤ i := List.getElem?_eq_none_iff.mp he
    rw [List.getElem?_eq_none_iff.mpr (by rw [hlen2, C.spec.len, hlen]; exact h1),
      List.getElem?_eq_none_iff.mpr (by rw [hlen]; exact h1)]
  | some e =>
    obtain ⟨n, e2, iv, hn, hid, he2, ps, he2iv⟩ := C.at_pos i e he
    obtain ⟨n', hn', a1, a2, a3, a4, a5, a6, a7, a8, a9⟩ := hsh i e he
    rw [hn] at hn'; cases hn'
    obtain ⟨n2, hn2, b1, b2, b3, b4, b5, b6, b7, b8, b9⟩ := hsh2 i e2 he2
    rw [hn, hn2]
    have hface := ps.face
    unfold epFace nodeFace at hface
    simp only [Prod.mk.injEq] at hface
    obtain ⟨f1, f2, f3, f4, f5⟩ := hface
    have hq := C.quant_of_m hS hQ i e he hid ps
    have hty : n2.type = n.type ∧ n2.properties = n.properties := by
      cases hqe : e.isQuantifier with
      | true =>
        rw [hqe] at hq
        obtain ⟨t1, t2⟩ := a7 hqe
        obtain ⟨t3, t4⟩ := b7 hq
        rw [t1, t2, t3, t4]; exact ⟨rfl, rfl⟩
      | false =>
        rw [hqe] at hq
        obtain ⟨t3, t4⟩ := b8 hq iv he2iv
        have hnq : n.id ∉ quantStarts d := by
          rw [hid]; exact not_quantStart_of_nonquant m C.hN reps d C.hreps C.hd i e he hqe
        obtain ⟨iv', c1, c2, _, c4⟩ := C.spec.ivNonQ n (List.mem_of_getElem? hn) hnq
        rw [ps.ivOk] at c1
        cases c1
        rw [t3, t4, c4, c2]
        refine ⟨?_, rfl⟩
        cases hiv : e.iv with
        | none => rw [(a9 hqe hiv).1]; rfl
        | some w => rw [(a8 hqe w hiv).1]; rfl
    cases n2
    cases n
    simp only at b1 b2 b3 b4 b5 b6 a1 f1 f2 f3 f4 f5 hty
    simp only [Option.some.injEq, Node.mk.injEq]
    refine ⟨by rw [b1, a1], by rw [b2, f1], hty.1, hty.2, by rw [b3, f2], by rw [b4, f3],
      by rw [b5, f4], by rw [b6, f5]⟩

/-- the index of the MRS that comes back (see `roundtrip_index`). -/
theorem index_rt (C : RTCtx m d m2 reps topLbl sc lbl leqs idToIv ns scs lo hi)
    (hS : IVSorts m = true) :
    (d.index = none → m2.index = none) ∧
    ∀ j, d.index = some (nidAt j) → ∃ v2 e2, m2.index = some v2 ∧ m2.rels[j]? = some e2 ∧
      e2.iv = some v2 ∧ e2.isQuantifier = false ∧
      ∀ k e', m2.rels[k]? = some e' → e'.isQuantifier = false → e'.iv = some v2 → k = j := by
  have hidx := C.spec.index
  constructor
  · intro hnone
    unfold indexOf at hidx
    rw [hnone] at hidx
    simp only [Except.ok.injEq] at hidx
    exact hidx.symm
  · intro j hj
    obtain ⟨v, j', e, _, hej, hq, hiv, hnj⟩ := (index_shape m d C.hd).1 _ hj
    have : j' = j := (nidAt_inj _ _ hnj).symm
    subst this
    obtain ⟨n, e2, iv, hn, hid, he2, ps, he2iv⟩ := C.at_pos j' e hej
    unfold indexOf at hidx
    rw [hj] at hidx
    simp only [if_neg (nidAt_ne_zero j')] at hidx
    have hivk : dlookup (nidAt j') idToIv = some iv := by rw [← hid]; exact ps.ivOk
    rw [hivk] at hidx
    simp only [Except.ok.injEq] at hidx
    have hnq2 : e2.isQuantifier = false := by
      cases hq2 : e2.isQuantifier with
      | false => rfl
      | true =>
        exfalso
        obtain ⟨l, hl, hs, hr⟩ := C.rstr_arg_link ps hq2
        have := rstr_link_quantifier m reps l (C.links_just l hl) hr j' e (by rw [hs, hid]) hej
        rw [hq] at this; cases this
    refine ⟨iv, e2, hidx.symm, he2, he2iv, hnq2, ?_⟩
    intro k e' hk hq' hiv'
    exact C.iv_unique hS j' k e2 e' he2 hk hnq2 hq' iv he2iv hiv'

/-- **second conversion, index.** -/
theorem second_index (C : RTCtx m d m2 reps topLbl sc lbl leqs idToIv ns scs lo hi)
    (hS : IVSorts m = true) (d2 : DMRS) (h3 : fromMrs m2 = .ok d2) :
    d2.index = d.index := by
  obtain ⟨r2, hr2⟩ := MRS.representatives_total m2
  obtain ⟨_, _, _, _, _, _, hd2⟩ := fromMrs_ok m2 r2 d2 hr2 h3
  have hidx : d2.index = getIndex m2 := by rw [hd2]
  obtain ⟨k1, k2⟩ := C.index_rt hS
  cases hdi : d.index with
  | none =>
    rw [hidx]; unfold getIndex; rw [k1 hdi]; rfl
  | some t =>
    obtain ⟨v, j, e, _, _, _, _, hnj⟩ := (index_shape m d C.hd).1 t hdi
    subst hnj
    obtain ⟨v2, e2, i1, i2, i3, i4, i5⟩ := k2 j hdi
    rw [hidx]
    unfold getIndex
    rw [i1]
    simp only [Option.bind_some]
    obtain ⟨n', hn'⟩ := ivToNid_isSome m2 v2 e2 (List.mem_of_getElem? i2) i4 i3
    obtain ⟨j', e', c1, c2, c3, c4⟩ := ivToNid_some m2 v2 n' hn'
    rw [hn', c4, i5 j' e' c1 c2 c3]

end RTCtx

end Verif.C04
