/-
C04 — totality of the way back, part 2: the DMRS `from_mrs` produces satisfies `DmrsOk` whenever
the identifiers are distinct and O1 holds, so `from_dmrs` returns an MRS; and the second
conversion `from_mrs (from_dmrs (from_mrs m))` returns a DMRS when the representatives agree.
-/
import Verif.C04.Total1
import Verif.C04.Iso12

namespace Verif.C04
open Verif.Sem

/-- O1 unpacked from `QuantHead` alone. -/
theorem quantHead_unpack {m : MRS} {d : DMRS} (hQ : QuantHead m d = true) (l : Link)
    (hl : l ∈ d.links) (hr : l.role = RESTRICTION_ROLE) (i j : Nat) (hs : l.start = nidAt i)
    (ht : l.stop = nidAt j) (e : EP) (he : m.rels[i]? = some e) :
    ∃ ej v, m.rels[j]? = some ej ∧ ej.isQuantifier = false ∧ e.iv = some v ∧ ej.iv = some v := by
  unfold QuantHead at hQ
  simp only [List.all_eq_true, Bool.or_eq_true, bne_iff_ne, ne_eq] at hQ
  rcases hQ l hl with h | h
  · exact absurd hr h
  · rw [hs, ht, relAt_nidAt, relAt_nidAt, he] at h
    cases hj : m.rels[j]? with
    | none => rw [hj] at h; cases h
    | some ej =>
      rw [hj] at h
      simp only [Bool.and_eq_true, Bool.not_eq_true', beq_iff_eq] at h
      obtain ⟨⟨h1, h2⟩, h3⟩ := h
      obtain ⟨v, hv⟩ := Option.isSome_iff_exists.mp h2
      exact ⟨ej, v, rfl, h1, hv, by rw [h3, hv]⟩

theorem baseId_of_quant (e : EP) (v : Var) (hq : e.isQuantifier = true) (hiv : e.iv = some v) :
    e.baseId = ⟨"q", v.vid⟩ := by
  unfold EP.baseId
  simp [hq, hiv]

/-- **The DMRS of the first conversion is a good input of the second**, under distinct
identifiers and O1. -/
theorem dmrsOk_of_fromMrs (m : MRS) (hN : BaseIdsDistinct m) (reps : Reps) (d : DMRS)
    (hreps : m.representatives = .ok reps) (h1 : fromMrs m = .ok d)
    (hQ : QuantHead m d = true) : DmrsOk d := by
  have hjust := links_justified m hN reps d hreps h1
  have hnd := fromMrs_ids_nodup m hN d h1
  have hends : ∀ l ∈ d.links, ∃ i j e, l.start = nidAt i ∧ l.stop = nidAt j ∧
      m.rels[i]? = some e ∧ j < m.rels.length := by
    intro l hl
    obtain ⟨i, j, e, a1, a2, a3, a4, _⟩ := justified_ends m reps l (hjust l hl)
    exact ⟨i, j, e, a1, a2, a3, a4⟩
  -- a quantifier start is a quantifier predication
  have hqs : ∀ (i : Nat) (e : EP), m.rels[i]? = some e → nidAt i ∈ quantStarts d →
      e.isQuantifier = true := by
    intro i e he hq
    obtain ⟨l, hl, hs, hr⟩ := (RTCtx.mem_quantStarts d _).mp hq
    exact rstr_link_quantifier m reps l (hjust l hl) hr i e hs he
  refine
    { nd := hnd, ends := ?_, top := ?_, index := ?_, rstrTgt := ?_, rstrFun := ?_, nsTgt := ?_ }
  · intro l hl
    obtain ⟨i, j, e, a1, a2, a3, a4⟩ := hends l hl
    rw [a1, a2]
    exact ⟨(mem_fromMrs_ids m hN d h1 i).mpr (List.getElem?_eq_some_iff.mp a3).1,
      (mem_fromMrs_ids m hN d h1 j).mpr a4⟩
  · intro t ht
    obtain ⟨t1, t2⟩ := top_shape m hN reps d hreps h1
    cases hmt : m.top with
    | none => rw [t1 hmt] at ht; cases ht
    | some tv =>
      rcases t2 tv hmt with ⟨_, hnone⟩ | ⟨r, rest, n, _, hdtop, hpred, _⟩
      · rw [hnone] at ht; cases ht
      · rw [ht] at hdtop
        cases hdtop
        obtain ⟨j, hj, _, hjlt⟩ := predAt_some m _ _ hpred
        rw [hj]
        exact (mem_fromMrs_ids m hN d h1 j).mpr hjlt
  · intro n hn
    obtain ⟨v, j, e, _, he, hq, _, hnj⟩ := (index_shape m d h1).1 n hn
    rw [hnj]
    refine ⟨(mem_fromMrs_ids m hN d h1 j).mpr (List.getElem?_eq_some_iff.mp he).1, ?_⟩
    intro hin
    rw [hqs j e he hin] at hq
    cases hq
  · intro l hl hr hin
    obtain ⟨i, j, e, a1, a2, a3, _⟩ := hends l hl
    obtain ⟨ej, v, b1, b2, _, _⟩ := quantHead_unpack hQ l hl hr i j a1 a2 e a3
    rw [a2] at hin
    rw [hqs j ej b1 hin] at b2
    cases b2
  · intro l hl l' hl' hr hr' hst
    obtain ⟨i, j, e, a1, a2, a3, _⟩ := hends l hl
    obtain ⟨i', j', e', a1', a2', a3', _⟩ := hends l' hl'
    have hjj : j' = j := nidAt_inj _ _ (by rw [← a2, ← a2', hst])
    subst hjj
    obtain ⟨ej, v, b1, _, b3, b4⟩ := quantHead_unpack hQ l hl hr i j' a1 a2 e a3
    obtain ⟨ej', v', b1', _, b3', b4'⟩ := quantHead_unpack hQ l' hl' hr' i' j' a1' a2' e' a3'
    rw [b1] at b1'
    cases b1'
    rw [b4] at b4'
    cases b4'
    have hq := rstr_link_quantifier m reps l (hjust l hl) hr i e a1 a3
    have hq' := rstr_link_quantifier m reps l' (hjust l' hl') hr' i' e' a1' a3'
    have hb : e.baseId = e'.baseId := by
      rw [baseId_of_quant e v hq b3, baseId_of_quant e' v hq' b3']
    have hii : i' = i := by
      have hi := (List.getElem?_eq_some_iff.mp a3).1
      have hi' := (List.getElem?_eq_some_iff.mp a3').1
      have e1 : (m.rels.map EP.baseId)[i]? = some e.baseId := by
        rw [List.getElem?_map, a3]; rfl
      have e2 : (m.rels.map EP.baseId)[i']? = some e'.baseId := by
        rw [List.getElem?_map, a3']; rfl
      exact (List.getElem?_inj (by rw [List.length_map]; exact hi') hN).mp (by rw [e1, e2, hb])
    rw [a1, a1', hii]
  · intro l hl hns hin
    obtain ⟨i, j, e, _, a2, _, a4⟩ := hends l hl
    obtain ⟨_, _, _, n, t, hn, ht, _⟩ := hns
    rw [a2] at hin hn
    have hj : m.rels[j]? = some m.rels[j] := List.getElem?_eq_getElem a4
    have hq := hqs j m.rels[j] hj hin
    obtain ⟨n', hn', hid, _, _, _, _, _, hty, _⟩ := (nodes_shape m hN d h1).2 j m.rels[j] hj
    have := nodeById_of_getElem d hnd j n' hn'
    rw [hid, hn] at this
    cases this
    rw [(hty hq).1] at ht
    cases ht

namespace RTCtx
variable {m : MRS} {d : DMRS} {m2 : MRS} {reps : Reps} {topLbl : Option Var}
  {sc : List (Var × List Node)} {lbl : Node → Var} {leqs : List (Var × Var)}
  {idToIv : List (Int × Var)} {ns : List (Int × Role × Int)}
  {scs : List (Int × Role × String × Var)} {lo hi : Nat}

/-- **The second conversion returns a DMRS** (no IndexError, no KeyError) when the representatives
of the MRS that came back sit at the same positions as those of the source. -/
theorem second_total (C : RTCtx m d m2 reps topLbl sc lbl leqs idToIv ns scs lo hi)
    (hS : IVSorts m = true) (reps2 : Reps)
    (hr2 : m2.representatives = .ok reps2) (hA : repsPos m reps = repsPos m2 reps2) :
    ∃ d2, fromMrs m2 = .ok d2 := by
  apply fromMrs_total_partial m2 (C.baseIds2 hS)
  intro reps2' t2 hr2' hm2t
  rw [hr2] at hr2'
  cases hr2'
  obtain ⟨t1, t2'⟩ := top_shape m C.hN reps d C.hreps C.hd
  cases hdt : d.top with
  | none =>
    have hm2 : m2.top = none := by rw [C.spec.top]; unfold topNew; rw [hdt]
    rw [hm2] at hm2t; cases hm2t
  | some t =>
    cases hmt : m.top with
    | none => rw [t1 hmt] at hdt; cases hdt
    | some tv =>
      rcases t2' tv hmt with ⟨_, hnone⟩ | ⟨r, rest, n, hlook, hdtop, hpred, _⟩
      · rw [hnone] at hdt; cases hdt
      · rw [hdt] at hdtop
        simp only [Option.some.injEq] at hdtop
        subst hdtop
        obtain ⟨j, hj, _, hjlt⟩ := predAt_some m _ _ hpred
        subst hj
        obtain ⟨nj, e2, iv, hnj, hidj, he2, ps, _⟩ :=
          C.at_pos j m.rels[j] (List.getElem?_eq_getElem hjlt)
        have htl : topLbl = some e2.label := by
          rw [C.spec.scopes.top_eq (List.mem_of_getElem? hnj) (by rw [hidj]; exact hdt),
            ps.labelOk]
        have hm2top : m2.top = some ⟨HANDLE, 0⟩ := by
          rw [C.spec.top]; unfold topNew; rw [hdt]; rfl
        have htn : (topNew d).1 = some ⟨HANDLE, 0⟩ := by rw [← C.spec.top]; exact hm2top
        have hlast : m2.hcLast ⟨HANDLE, 0⟩ = some ⟨⟨HANDLE, 0⟩, QEQ, e2.label⟩ := by
          obtain ⟨news, e1, h2, h3', _⟩ := C.hcons_his
          have hmem : (⟨⟨HANDLE, 0⟩, QEQ, e2.label⟩ : HCons) ∈ m2.hcons := by
            rw [e1, htn, htl]; simp [hcTop]
          cases hf : m2.hcLast ⟨HANDLE, 0⟩ with
          | none => exact absurd rfl (hcLast_none m2 _ hf _ hmem)
          | some hc =>
            obtain ⟨hc1, hc2⟩ := hcLast_some m2 _ hc hf
            rw [e1] at hc1
            rcases List.mem_append.mp hc1 with ht | hn
            · rw [htn, htl] at ht
              simp only [hcTop, List.mem_singleton] at ht
              rw [ht]
            · exfalso
              have hpos := (h2 (⟨⟨HANDLE, 0⟩, QEQ, e2.label⟩ : HCons)
                (by rw [htn, htl]; simp [hcTop])).2
              have := (h3' hc hn).2.1
              rw [hc2] at this
              simp only at this
              omega
        obtain ⟨r', rest', hlook2, _⟩ :=
          C.rep_target hS reps2 hr2 hA _ (dlookup_mem hlook) r rest rfl j hpred e2 he2
        rw [hm2top] at hm2t
        cases hm2t
        have hcm : (m2.hcmap ⟨HANDLE, 0⟩).getD ⟨HANDLE, 0⟩ = e2.label := by
          unfold MRS.hcmap; rw [hlast]; rfl
        rw [hcm, hlook2]
        intro hbad
        cases hbad

end RTCtx

end Verif.C04
