/-
C02 — character-level model of `_SimpleDMRSLexer` (delphin/codecs/simpledmrs.py; delphin/util.py
`Lexer.prelex`), the single-line layout of a token list, and the text-level encoder/decoder built on the
token-level model of `Model.lean`.

The fifteen token classes (pinned as `c02LexerTokens`, in this order) are tried at every position of every
line (`s.splitlines()`), first alternative wins, each class with its own regex semantics:

  `{` `}` `[` `]` `(` `)`                       single characters
  LNK      `<(?:-?\d+[:#]-?\d+|@\d+|\d+(?: +\d+)*)>`    — `Verif.C01.Lex.mLnk` (the same class as SimpleMRS)
  DQSTRING `"([^"\\]*(?:\\.[^"\\]*)*)"`         — `Verif.Codec.scanDQ` (token text = group 1)
  `:` `/` `=` `;`                               single characters
  ARROW    `(--|->)`
  SYMBOL   `[^\s"'()\/:;<=>[\]{}]+`             the longest run
  UNEXPECTED `[^\s]`                            → DMRSSyntaxError
`finditer` skips what no class matches, i.e. white space only.  `\d` is modelled for ASCII digits, `\s` is
`Verif.C01.isPySpace` (Python's Unicode white space).
-/
import Verif.C02.Model
import Verif.C01.Lexer

namespace Verif.C02
open Verif.Codec Verif.Py

abbrev isPySpace := Verif.C01.isPySpace
abbrev isLineBreak := Verif.C01.Lex.isLineBreak

/-- the SYMBOL character class `[^\s"'()\/:;<=>[\]{}]`. -/
def symCh (c : Char) : Bool :=
  !isPySpace c && c ≠ '"' && c ≠ '\'' && c ≠ '(' && c ≠ ')' && c ≠ '/' && c ≠ ':' && c ≠ ';' &&
  c ≠ '<' && c ≠ '=' && c ≠ '>' && c ≠ '[' && c ≠ ']' && c ≠ '{' && c ≠ '}'

inductive Step where
  | tok (t : T) (rest : Str)
  | skip (rest : Str)
  | unexpected
deriving Repr

/-- one `finditer` step at the head `c :: r` of a line remainder. -/
def step (c : Char) (r : Str) : Step :=
  if c = '{' then .tok tLBRACE r
  else if c = '}' then .tok tRBRACE r
  else if c = '[' then .tok tLBRACKET r
  else if c = ']' then .tok tRBRACKET r
  else if c = '(' then .tok tLPAREN r
  else if c = ')' then .tok tRPAREN r
  else if c = '<' then
    match Verif.C01.Lex.mLnk r with
    | some (t, r') => .tok ⟨.lnk, t⟩ r'
    | none => .unexpected
  else if c = '"' then
    match scanDQ r with
    | some (t, r') => .tok ⟨.dq, t⟩ r'
    | none => .unexpected
  else if c = ':' then .tok tCOLON r
  else if c = '/' then .tok tSLASH r
  else if c = '=' then .tok tEQUALS r
  else if c = ';' then .tok tSEMI r
  else if c = '-' ∧ r.head? = some '-' then .tok ⟨.arrow, S "--"⟩ r.tail
  else if c = '-' ∧ r.head? = some '>' then .tok ⟨.arrow, S "->"⟩ r.tail
  else if symCh c then .tok (sym ((c :: r).takeWhile symCh)) ((c :: r).dropWhile symCh)
  else if isPySpace c then .skip r
  else .unexpected

/-- all tokens of one line (`none`: UNEXPECTED, i.e. DMRSSyntaxError); fuel = length + 1. -/
def lexLine : Nat → Str → Option (List T)
  | 0, _ => some []
  | _ + 1, [] => some []
  | fuel + 1, c :: r =>
    match step c r with
    | .tok t rest => (lexLine fuel rest).map (t :: ·)
    | .skip rest => lexLine fuel rest
    | .unexpected => none

/-- `_SimpleDMRSLexer.prelex(s.splitlines())`, all tokens (the real lexer is lazy with a 1024-token buffer:
an UNEXPECTED character further ahead is only reported when it is reached). -/
def lexText (s : Str) : Option (List T) :=
  (Verif.C01.Lex.splitLines s).foldr (fun l acc => match lexLine (l.length + 1) l, acc with
    | some a, some b => some (a ++ b)
    | _, _ => none) (some [])

/-! ### the single-line layout -/

/-- the characters a token contributes to the text. -/
def tokText (t : T) : Str :=
  if t.kind = .dq then '"' :: t.text ++ ['"'] else t.text

/-- no blank between `t` and `u` in the text the encoder writes: after `[ ( : / =`, and before
`] ) ; : / = (` and before an alignment. -/
def glue (t u : T) : Bool :=
  t.kind = .lbracket || t.kind = .lparen || t.kind = .colon || t.kind = .slash || t.kind = .equals ||
  u.kind = .rbracket || u.kind = .rparen || u.kind = .semicolon || u.kind = .colon || u.kind = .slash ||
  u.kind = .equals || u.kind = .lparen || u.kind = .lnk

/-- `_encode` with `indent=None`: `dmrs id { [<0:5> "s" top=10000] 10000 [pred<0:4>("c") e K=v]; 10000:ARG1/NEQ -> 10001; }`. -/
def render : List T → Str
  | [] => []
  | [t] => tokText t
  | t :: u :: r => if glue t u then tokText t ++ render (u :: r) else tokText t ++ ' ' :: render (u :: r)

/-- `encode(d, properties, lnk)` / `dumps(ds, …)` with `indent=None`, as text. -/
def encodeText (o : Opts) (d : DMRS) : Str := render (encDmrsToks o d)
def encodeTextList (o : Opts) (ds : List DMRS) : Str := render (ds.flatMap (encDmrsToks o))

/-- `decode(s)`. -/
def decodeText (s : Str) : Except Err DMRS :=
  match lexText s with
  | none => .error .syntax
  | some ts =>
    match decDmrs ts with
    | .ok (d, _) => .ok d
    | .error e => .error e

/-- `loads(s)`. -/
def decodeTextList (s : Str) : Except Err (List DMRS) :=
  match lexText s with
  | none => .error .syntax
  | some ts => decodeList ts

/-! ### what the text can carry (decidable) -/

def noBreak (s : Str) : Bool := s.all (fun c => !isLineBreak c)

/-- a SYMBOL token text: non-empty, symbol characters only, not beginning with an arrow. -/
def symOK (s : Str) : Bool :=
  !s.isEmpty && s.all symCh && !(s.take 2 = S "--")

/-- the alignments the LNK class accepts: token and edge ids are natural numbers, at least one token id. -/
def lnkOK : Lnk → Bool
  | .unspec => false
  | .charspan _ _ => true
  | .chartspan _ _ => true
  | .tokens ts => !ts.isEmpty && ts.all (fun t => decide (0 ≤ t))
  | .edge n => decide (0 ≤ n)

def optOK (f : Str → Bool) : Option Str → Bool
  | none => true
  | some s => f s

def nodeLexOK (n : Node) : Bool :=
  symOK n.pred && (n.lnk = .unspec || lnkOK n.lnk) && optOK noBreak n.carg && optOK symOK n.type &&
  n.props.all (fun kv => symOK kv.1 && symOK kv.2)

def linkLexOK (l : Link) : Bool :=
  (match l.role with | none => true | some [] => true | some r => symOK r) &&
  (match l.post with | none => true | some p => symOK p)

/-- `LexOK d`: every printed piece of `d` is one token of its class (the format's symbol alphabet). -/
def lexOK (d : DMRS) : Bool :=
  optOK symOK d.identifier && d.nodes.all nodeLexOK && d.links.all linkLexOK &&
  (!d.lnk.truthy || lnkOK d.lnk) && optOK noBreak d.surface

end Verif.C02

namespace Verif.C02
open Verif.Codec Verif.Py

/-! ### the indented layout (`indent=k`: one item per line, `k` blanks in front) -/

/-- `'\n'.join(lines)`. -/
def joinNL : List Str → Str
  | [] => []
  | [l] => l
  | l :: l2 :: ls => l ++ '\n' :: joinNL (l2 :: ls)

/-- the lines of `_encode_dmrs(d, …, indent=k)` as (indentation, tokens): `dmrs id {`, the bracketed graph
attributes if any, one line per node and per link, and `}`. -/
def tokLines (o : Opts) (k : Nat) (d : DMRS) : List (Nat × List T) :=
  [(0, sym (S "dmrs") :: identToks d.identifier ++ [tLBRACE])] ++
  (if (attrToks o d).isEmpty then [] else [(k, attrToks o d)]) ++
  d.nodes.map (fun n => (k, encNodeToks o n)) ++ d.links.map (fun l => (k, encLinkToks l)) ++
  [(0, [tRBRACE])]

def lineText (p : Nat × List T) : Str := List.replicate p.1 ' ' ++ render p.2

/-- `encode(d, properties, lnk, indent=k)` and `dumps(ds, …, indent=k)` as text. -/
def encodeTextIndent (o : Opts) (k : Nat) (d : DMRS) : Str := joinNL ((tokLines o k d).map lineText)
def encodeTextIndentList (o : Opts) (k : Nat) (ds : List DMRS) : Str :=
  joinNL ((ds.flatMap (tokLines o k)).map lineText)

end Verif.C02
