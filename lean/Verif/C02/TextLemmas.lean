/-
C02 — the format-string model of the SimpleDMRS encoder (`encNodeText`, `encLinkText`, `encDmrsText`,
`encListText` of Model.lean: a literal transcription of `_encode`, `_encode_dmrs`, `_encode_attrs`,
`_encode_node`, `_encode_sortinfo`, `_encode_link`) writes exactly the layouts `render` / `tokLines` of the
token lists `encDmrsToks` on which the lexer and round-trip theorems are proved.  No hypothesis on `d`.
-/
import Verif.C02.Model
import Verif.C02.Lexer

namespace Verif.C02
open Verif.Codec Verif.Py

/-! ### `render` with the previous token kind as state -/

/-- `glue` only looks at the kinds. -/
def glueK (k u : K) : Bool :=
  k = .lbracket || k = .lparen || k = .colon || k = .slash || k = .equals ||
  u = .rbracket || u = .rparen || u = .semicolon || u = .colon || u = .slash ||
  u = .equals || u = .lparen || u = .lnk

theorem glue_eq (t u : T) : glue t u = glueK t.kind u.kind := rfl

/-- the text that follows a token of kind `k`. -/
def renderAfter : K → List T → Str
  | _, [] => []
  | k, u :: r => (if glueK k u.kind then tokText u else ' ' :: tokText u) ++ renderAfter u.kind r

def lastK : K → List T → K
  | k, [] => k
  | _, u :: r => lastK u.kind r

theorem render_cons (t : T) (r : List T) : render (t :: r) = tokText t ++ renderAfter t.kind r := by
  induction r generalizing t with
  | nil => simp [render, renderAfter]
  | cons u r ih =>
    have ih' := ih u
    by_cases h : glue t u = true
    · have h' : glueK t.kind u.kind = true := h
      simp [render, renderAfter, h, h', ih']
    · have h' : ¬ glueK t.kind u.kind = true := h
      simp [render, renderAfter, h, h', ih']

theorem renderAfter_append (k : K) (a b : List T) :
    renderAfter k (a ++ b) = renderAfter k a ++ renderAfter (lastK k a) b := by
  induction a generalizing k with
  | nil => simp [renderAfter, lastK]
  | cons u a ih => simp [renderAfter, lastK, ih]

theorem lastK_append (k : K) (a b : List T) : lastK k (a ++ b) = lastK (lastK k a) b := by
  induction a generalizing k with
  | nil => simp [lastK]
  | cons u a ih => simp [lastK, ih]

theorem render_append (t : T) (a b : List T) :
    render (t :: a ++ b) = render (t :: a) ++ renderAfter (lastK t.kind a) b := by
  rw [List.cons_append, render_cons, render_cons, renderAfter_append, List.append_assoc]

/-- the kinds after which a blank is written in front of a symbol. -/
def Loose (k : K) : Prop := k = .symbol ∨ k = .lnk ∨ k = .rparen ∨ k = .dq

/-- `' ' + ' '.join(xs)` for a non-empty list, `''` otherwise. -/
def spaced (xs : List Str) : Str := xs.flatMap (fun x => ' ' :: x)

theorem spaced_eq (xs : List Str) : (if xs.isEmpty then [] else ' ' :: joinSp xs) = spaced xs := by
  induction xs with
  | nil => rfl
  | cons x xs ih =>
    cases xs with
    | nil => simp [spaced, joinSp]
    | cons y ys =>
      simp only [List.isEmpty_cons, Bool.false_eq_true, ↓reduceIte] at ih
      simp only [List.isEmpty_cons, Bool.false_eq_true, ↓reduceIte, joinSp, spaced, List.flatMap_cons]
      simp only [spaced, List.flatMap_cons] at ih
      rw [← ih]
      simp

theorem joinSp_cons (x : Str) (xs : List Str) : joinSp (x :: xs) = x ++ spaced xs := by
  cases xs with
  | nil => simp [joinSp, spaced]
  | cons y ys =>
    have := spaced_eq (y :: ys)
    simp only [List.isEmpty_cons, Bool.false_eq_true, ↓reduceIte] at this
    simp only [joinSp]
    rw [← this]

theorem joinStr_cons (delim x : Str) (xs : List Str) :
    joinStr delim (x :: xs) = x ++ xs.flatMap (fun y => delim ++ y) := by
  induction xs generalizing x with
  | nil => simp [joinStr]
  | cons y ys ih => simp [joinStr, ih y]

/-! ### the pieces of a node -/

theorem ra_props (k : K) (hk : Loose k) (ps : Props) :
    renderAfter k (ps.flatMap propToks) = spaced (ps.map (fun kv => kv.1 ++ '=' :: kv.2)) ∧
    Loose (lastK k (ps.flatMap propToks)) := by
  induction ps generalizing k with
  | nil => exact ⟨rfl, hk⟩
  | cons kv ps ih =>
    have hstep : renderAfter k (propToks kv ++ ps.flatMap propToks) =
        (' ' :: (kv.1 ++ '=' :: kv.2)) ++ renderAfter .symbol (ps.flatMap propToks) := by
      rcases hk with h | h | h | h <;> subst h <;>
        simp [propToks, renderAfter, glueK, sym, tEQUALS, tokText, S]
    have hlast : lastK k (propToks kv ++ ps.flatMap propToks) = lastK .symbol (ps.flatMap propToks) := by
      simp [propToks, lastK, sym, tEQUALS]
    have := ih .symbol (Or.inl rfl)
    simp only [List.flatMap_cons, List.map_cons, spaced]
    rw [hstep, hlast]
    exact ⟨by rw [this.1]; simp [spaced], this.2⟩

/-- the optional type as a list of printed items. -/
def typeItems (n : Node) : List Str :=
  match n.type with
  | some t => if t ≠ S "u" then [t] else []
  | none => []

theorem ra_type (k : K) (hk : Loose k) (n : Node) :
    renderAfter k (typeToks n) = spaced (typeItems n) ∧ Loose (lastK k (typeToks n)) := by
  unfold typeToks typeItems
  cases n.type with
  | none => exact ⟨rfl, hk⟩
  | some t =>
    by_cases h : t = S "u"
    · simp only [h, ne_eq, not_true_eq_false, ↓reduceIte]; exact ⟨rfl, hk⟩
    · simp only [ne_eq, h, not_false_eq_true, ↓reduceIte]
      refine ⟨?_, Or.inl rfl⟩
      rcases hk with h | h | h | h <;> subst h <;> simp [renderAfter, glueK, sym, tokText, spaced]

theorem sortinfoItems_eq (o : Opts) (n : Node) :
    sortinfoItems o n = typeItems n ++ (if o.properties then n.props.map (fun kv => kv.1 ++ '=' :: kv.2) else []) := rfl

theorem spaced_append (a b : List Str) : spaced (a ++ b) = spaced a ++ spaced b := by simp [spaced]

/-- the optional `("carg")`. -/
def cargText : Option Str → Str
  | none => []
  | some c => S "(\"" ++ escapeDQ c ++ S "\")"

theorem encSortinfoText_eq (o : Opts) (n : Node) : encSortinfoText o n = spaced (sortinfoItems o n) := spaced_eq _

theorem encNodeText_eq (o : Opts) (n : Node) :
    encNodeText o n = intStr n.id ++ S " [" ++ n.pred ++ (if o.lnk then n.lnk.str else []) ++ cargText n.carg ++
      encSortinfoText o n ++ S "];" := by
  unfold encNodeText cargText
  cases n.carg <;> rfl

theorem ra_carg (k : K) (hk : k = .symbol ∨ k = .lnk) (c : Option Str) :
    renderAfter k (cargToks c) = cargText c ∧
    Loose (lastK k (cargToks c)) := by
  cases c with
  | none => exact ⟨rfl, by rcases hk with h | h <;> subst h <;> simp [cargToks, lastK, Loose]⟩
  | some c =>
    refine ⟨?_, by simp [cargToks, lastK, tRPAREN, Loose]⟩
    rcases hk with h | h <;> subst h <;>
      simp [cargToks, cargText, renderAfter, glueK, tLPAREN, tRPAREN, tokText, S]

theorem ra_lnk (l : Lnk) :
    renderAfter .symbol (lnkToks l) = l.str ∧
    (lastK .symbol (lnkToks l) = .symbol ∨ lastK .symbol (lnkToks l) = .lnk) := by
  unfold lnkToks
  by_cases h : l = .unspec
  · subst h; exact ⟨rfl, Or.inl rfl⟩
  · simp only [h, ↓reduceIte]
    exact ⟨by simp [renderAfter, glueK, tokText], Or.inr rfl⟩

/-- everything of a node after its predicate. -/
def nodeTail (o : Opts) (n : Node) : List T :=
  (if o.lnk then lnkToks n.lnk else []) ++ cargToks n.carg ++
  typeToks n ++ (if o.properties then n.props.flatMap propToks else []) ++ [tRBRACKET, tSEMI]

theorem ra_nodeTail (o : Opts) (n : Node) :
    renderAfter .symbol (nodeTail o n) =
      (if o.lnk then n.lnk.str else []) ++ cargText n.carg ++ encSortinfoText o n ++ S "];" := by
  rw [encSortinfoText_eq, sortinfoItems_eq, spaced_append]
  unfold nodeTail
  have hL : renderAfter .symbol (if o.lnk then lnkToks n.lnk else []) = (if o.lnk then n.lnk.str else []) ∧
      (lastK .symbol (if o.lnk then lnkToks n.lnk else []) = .symbol ∨
       lastK .symbol (if o.lnk then lnkToks n.lnk else []) = .lnk) := by
    cases o.lnk with
    | false => exact ⟨rfl, Or.inl rfl⟩
    | true => exact ra_lnk n.lnk
  generalize (if o.lnk then lnkToks n.lnk else []) = L at hL
  obtain ⟨hL1, hL2⟩ := hL
  have hC := ra_carg (lastK .symbol L) hL2 n.carg
  obtain ⟨hC1, hC2⟩ := hC
  have hT := ra_type _ hC2 n
  obtain ⟨hT1, hT2⟩ := hT
  have hP : renderAfter (lastK (lastK (lastK .symbol L) (cargToks n.carg)) (typeToks n))
        (if o.properties then n.props.flatMap propToks else []) =
        spaced (if o.properties then n.props.map (fun kv => kv.1 ++ '=' :: kv.2) else []) := by
    cases o.properties with
    | false => rfl
    | true => exact (ra_props _ hT2 n.props).1
  simp only [renderAfter_append, List.append_assoc]
  rw [hL1, hC1, hT1, hP]
  simp [renderAfter, glueK, tRBRACKET, tSEMI, tokText, S]

theorem encNodeToks_split (o : Opts) (n : Node) :
    encNodeToks o n = [sym (intStr n.id), tLBRACKET, sym n.pred] ++ nodeTail o n := by
  simp [encNodeToks, nodeTail]

/-- `_encode_node`'s text is the single-line layout of the node's tokens. -/
theorem render_node (o : Opts) (n : Node) : render (encNodeToks o n) = encNodeText o n := by
  rw [encNodeToks_split]
  simp only [List.cons_append, List.nil_append, render_cons]
  simp only [renderAfter, sym, tLBRACKET]
  rw [ra_nodeTail, encNodeText_eq]
  simp [glueK, tokText, S]

theorem lastK_node (k : K) (o : Opts) (n : Node) : lastK k (encNodeToks o n) = .semicolon := by
  simp [encNodeToks, lastK_append, lastK, tSEMI]

/-! ### links -/

theorem encLinkToks_cons (l : Link) :
    encLinkToks l = sym (intStr l.start) ::
      (tCOLON :: (roleToks l.role ++ [tSLASH, sym (fmtOpt l.post), ⟨.arrow, arrowOf l⟩, sym (intStr l.stop), tSEMI])) := by
  simp [encLinkToks]

theorem render_link (l : Link) : render (encLinkToks l) = encLinkText l := by
  rw [encLinkToks_cons, render_cons]
  unfold encLinkText
  rcases hr : l.role with _ | (_ | ⟨c, r⟩) <;>
    simp [roleToks, renderAfter, glueK, sym, tCOLON, tSLASH, tSEMI, tokText, S]

theorem lastK_link (k : K) (l : Link) : lastK k (encLinkToks l) = .semicolon := by
  simp [encLinkToks, lastK_append, lastK, tSEMI]

/-- an item (node or link) written after `{`, `]` or `;` -/
def ItemPrev (k : K) : Prop := k = .lbrace ∨ k = .rbracket ∨ k = .semicolon

theorem ra_item (k : K) (hk : ItemPrev k) (s : Str) (r : List T) :
    renderAfter k (sym s :: r) = ' ' :: render (sym s :: r) := by
  rw [render_cons]
  rcases hk with h | h | h <;> subst h <;> simp [renderAfter, glueK, sym, tokText]

theorem ra_nodes (k : K) (hk : ItemPrev k) (o : Opts) (ns : List Node) :
    renderAfter k (ns.flatMap (encNodeToks o)) = spaced (ns.map (encNodeText o)) ∧
    ItemPrev (lastK k (ns.flatMap (encNodeToks o))) := by
  induction ns generalizing k with
  | nil => exact ⟨rfl, hk⟩
  | cons n ns ih =>
    simp only [List.flatMap_cons, renderAfter_append, lastK_append, lastK_node, List.map_cons]
    have h1 : renderAfter k (encNodeToks o n) = ' ' :: encNodeText o n := by
      rw [← render_node, encNodeToks_split]
      exact ra_item k hk _ _
    have := ih .semicolon (Or.inr (Or.inr rfl))
    exact ⟨by rw [h1, this.1]; simp [spaced], this.2⟩

theorem ra_links (k : K) (hk : ItemPrev k) (ls : List Link) :
    renderAfter k (ls.flatMap encLinkToks) = spaced (ls.map encLinkText) ∧
    ItemPrev (lastK k (ls.flatMap encLinkToks)) := by
  induction ls generalizing k with
  | nil => exact ⟨rfl, hk⟩
  | cons l ls ih =>
    simp only [List.flatMap_cons, renderAfter_append, lastK_append, lastK_link, List.map_cons]
    have h1 : renderAfter k (encLinkToks l) = ' ' :: encLinkText l := by
      rw [← render_link, encLinkToks_cons]
      exact ra_item k hk _ _
    have := ih .semicolon (Or.inr (Or.inr rfl))
    exact ⟨by rw [h1, this.1]; simp [spaced], this.2⟩

/-! ### the graph attributes -/

/-- the inner tokens of the attribute bracket. -/
def attrInner (o : Opts) (d : DMRS) : List T :=
  (if o.lnk then
     (if d.lnk.truthy then [(⟨.lnk, d.lnk.str⟩ : T)] else []) ++
     (match d.surface with | some s => [(⟨.dq, escapeDQ s⟩ : T)] | none => [])
   else []) ++
  (match d.top with | some t => [sym (S "top"), tEQUALS, sym (intStr t)] | none => []) ++
  (match d.index with | some t => [sym (S "index"), tEQUALS, sym (intStr t)] | none => [])

theorem attrToks_eq (o : Opts) (d : DMRS) :
    attrToks o d = if (attrInner o d).isEmpty then [] else tLBRACKET :: attrInner o d ++ [tRBRACKET] := rfl

/-- the attribute items one after the other, each preceded by a blank except directly after `[`. -/
def AttrPrev (k : K) : Prop := k = .lbracket ∨ Loose k

def lead (k : K) (xs : List Str) : Str :=
  match xs with
  | [] => []
  | x :: r => (if k = .lbracket then x else ' ' :: x) ++ spaced r

theorem lead_append (k : K) (a b : List Str) :
    lead k (a ++ b) = if a.isEmpty then lead k b else lead k a ++ spaced b := by
  cases a with
  | nil => rfl
  | cons x r => simp [lead, spaced]

theorem ra_kv (k : K) (hk : AttrPrev k) (name : Str) (v : Str) :
    renderAfter k [sym name, tEQUALS, sym v] = lead k [name ++ '=' :: v] := by
  rcases hk with h | h | h | h | h <;> subst h <;>
    simp [renderAfter, glueK, sym, tEQUALS, tokText, lead, spaced, S]

theorem ra_attrInner (o : Opts) (d : DMRS) :
    renderAfter .lbracket (attrInner o d) = joinSp (attrItems o d) ∧
    ((attrInner o d).isEmpty = (attrItems o d).isEmpty) := by
  unfold attrInner attrItems
  obtain ⟨op, ol⟩ := o
  cases ol <;> cases htr : d.lnk.truthy <;> cases hs : d.surface <;> cases ht : d.top <;> cases hi : d.index <;>
    simp [renderAfter, glueK, sym, tEQUALS, tokText, joinSp, S]

theorem render_attrs (o : Opts) (d : DMRS) (h : (attrItems o d).isEmpty = false) :
    render (attrToks o d) = '[' :: joinSp (attrItems o d) ++ [']'] := by
  obtain ⟨h1, h2⟩ := ra_attrInner o d
  rw [attrToks_eq, h2, h]
  simp only [Bool.false_eq_true, ↓reduceIte, List.cons_append, render_cons, renderAfter_append]
  have hk : tLBRACKET.kind = K.lbracket := rfl
  rw [hk, h1]
  simp [renderAfter, glueK, tRBRACKET, tLBRACKET, tokText, S]

theorem attrToks_nil (o : Opts) (d : DMRS) (h : (attrItems o d).isEmpty = true) : attrToks o d = [] := by
  obtain ⟨_, h2⟩ := ra_attrInner o d
  rw [attrToks_eq, h2, h]; rfl

theorem lastK_attrs (o : Opts) (d : DMRS) : ItemPrev (lastK .lbrace (attrToks o d)) := by
  rw [attrToks_eq]
  split
  · exact Or.inl rfl
  · simp only [lastK, lastK_append]
    exact Or.inr (Or.inl rfl)

/-- the bracketed attributes as a list of at most one text item (`_encode_attrs`). -/
def attrTexts (o : Opts) (d : DMRS) : List Str :=
  if (attrItems o d).isEmpty then [] else ['[' :: joinSp (attrItems o d) ++ [']']]

theorem ra_attrs (o : Opts) (d : DMRS) :
    renderAfter .lbrace (attrToks o d) = spaced (attrTexts o d) := by
  unfold attrTexts
  cases h : (attrItems o d).isEmpty with
  | true => rw [attrToks_nil o d h]; rfl
  | false =>
    have hr := render_attrs o d h
    have hne : attrToks o d = tLBRACKET :: (attrInner o d ++ [tRBRACKET]) := by
      obtain ⟨_, h2⟩ := ra_attrInner o d
      rw [attrToks_eq, h2, h]; rfl
    rw [hne] at hr ⊢
    rw [render_cons] at hr
    simp only [renderAfter, glueK, tLBRACKET]
    simp only [tLBRACKET] at hr
    simp [spaced, ← hr]

/-! ### a graph and a document, single-line layout -/

/-- the first line `dmrs {` / `dmrs id {`. -/
def startToks (d : DMRS) : List T := sym (S "dmrs") :: identToks d.identifier ++ [tLBRACE]
def startText (d : DMRS) : Str :=
  match d.identifier with | none => S "dmrs {" | some i => S "dmrs " ++ i ++ S " {"

theorem render_start (d : DMRS) : render (startToks d) = startText d := by
  unfold startToks startText
  cases d.identifier <;> simp [identToks, render_cons, renderAfter, glueK, sym, tLBRACE, tokText, S]

theorem lastK_start (k : K) (d : DMRS) : lastK k (startToks d) = .lbrace := by
  unfold startToks
  cases d.identifier <;> simp [identToks, lastK, tLBRACE]

/-- the body between `{` and `}`. -/
def bodyToks (o : Opts) (d : DMRS) : List T :=
  attrToks o d ++ d.nodes.flatMap (encNodeToks o) ++ d.links.flatMap encLinkToks

theorem encDmrsToks_split (o : Opts) (d : DMRS) :
    encDmrsToks o d = startToks d ++ bodyToks o d ++ [tRBRACE] := by
  simp [encDmrsToks, startToks, bodyToks]

theorem ra_body (o : Opts) (d : DMRS) :
    renderAfter .lbrace (bodyToks o d) =
      spaced (attrTexts o d ++ d.nodes.map (encNodeText o) ++ d.links.map encLinkText) ∧
    ItemPrev (lastK .lbrace (bodyToks o d)) := by
  unfold bodyToks
  simp only [renderAfter_append, lastK_append, spaced_append]
  have hA := ra_attrs o d
  have hAk := lastK_attrs o d
  have hN := ra_nodes _ hAk o d.nodes
  have hL := ra_links _ hN.2 d.links
  exact ⟨by rw [hA, hN.1, hL.1], hL.2⟩

theorem spaced_as_flatMap (xs : List Str) : xs.flatMap (fun y => [' '] ++ y) = spaced xs := by
  simp [spaced]

/-- `_encode_dmrs(d, properties, lnk, None)` is the single-line layout of `encDmrsToks o d`. -/
theorem encDmrsText_none (o : Opts) (d : DMRS) : encDmrsText o none d = render (encDmrsToks o d) := by
  have hs : encDmrsToks o d =
      sym (S "dmrs") :: (identToks d.identifier ++ [tLBRACE]) ++ (bodyToks o d ++ [tRBRACE]) := by
    simp [encDmrsToks, bodyToks]
  have hb := ra_body o d
  have hk : lastK (sym (S "dmrs")).kind (identToks d.identifier ++ [tLBRACE]) = .lbrace := by
    cases d.identifier <;> rfl
  have hend : renderAfter (lastK .lbrace (bodyToks o d)) [tRBRACE] = S " }" := by
    rcases hb.2 with h | h | h <;> rw [h] <;> simp [renderAfter, glueK, tRBRACE, tokText, S]
  have hr : render (sym (S "dmrs") :: (identToks d.identifier ++ [tLBRACE])) = startText d := render_start d
  rw [hs, render_append, hk, renderAfter_append, hb.1, hend, hr]
  unfold encDmrsText startText attrTexts
  simp only [List.singleton_append]
  cases d.identifier <;> cases (attrItems o d).isEmpty <;> simp [joinStr_cons, spaced, List.append_assoc]

theorem encDmrsToks_head (o : Opts) (d : DMRS) :
    ∃ r, encDmrsToks o d = sym (S "dmrs") :: r ∧ lastK .symbol r = .rbrace := by
  refine ⟨identToks d.identifier ++ tLBRACE :: attrToks o d ++
    d.nodes.flatMap (encNodeToks o) ++ d.links.flatMap encLinkToks ++ [tRBRACE], rfl, ?_⟩
  simp [lastK_append, lastK, tRBRACE]

theorem ra_graphs (o : Opts) (es : List DMRS) :
    renderAfter .rbrace (es.flatMap (encDmrsToks o)) = es.flatMap (fun e => [' '] ++ render (encDmrsToks o e)) := by
  induction es with
  | nil => rfl
  | cons e es ih =>
    obtain ⟨r, hr, hl⟩ := encDmrsToks_head o e
    simp only [List.flatMap_cons, renderAfter_append]
    rw [hr, render_cons]
    have hk : (sym (S "dmrs")).kind = K.symbol := rfl
    simp only [lastK, renderAfter, hk]
    rw [hl, ih]
    simp [glueK]

/-- `_encode(ds, properties, lnk, None)` (`dumps`, and `encode` with `ds = [d]`). -/
theorem encListText_none (o : Opts) (ds : List DMRS) : encListText o none ds = encodeTextList o ds := by
  unfold encListText encodeTextList
  cases ds with
  | nil => rfl
  | cons d ds =>
    simp only [List.map_cons, joinStr_cons, List.flatMap_cons, encDmrsText_none]
    obtain ⟨r, hr, hl⟩ := encDmrsToks_head o d
    have hk : (sym (S "dmrs")).kind = K.symbol := rfl
    rw [hr, render_append, hk, hl, ra_graphs]
    simp [List.flatMap_map, encDmrsText_none]

/-! ### the indented layout -/

theorem joinNL_cons (x : Str) (xs : List Str) : joinNL (x :: xs) = x ++ xs.flatMap (fun y => '\n' :: y) := by
  induction xs generalizing x with
  | nil => simp [joinNL]
  | cons y ys ih => simp [joinNL, ih y]

theorem joinNL_append (x : Str) (xs : List Str) (y : Str) (ys : List Str) :
    joinNL ((x :: xs) ++ (y :: ys)) = joinNL (x :: xs) ++ '\n' :: joinNL (y :: ys) := by
  simp [joinNL_cons]

theorem render_rbrace : render [tRBRACE] = S "}" := rfl

/-- `_encode_dmrs(d, properties, lnk, k)` is the line layout `tokLines`. -/
theorem encDmrsText_some (o : Opts) (k : Nat) (d : DMRS) : encDmrsText o (some k) d = encodeTextIndent o k d := by
  unfold encDmrsText encodeTextIndent tokLines
  have hst : sym (S "dmrs") :: identToks d.identifier ++ [tLBRACE] = startToks d := rfl
  rw [hst]
  have hattr : (if (attrToks o d).isEmpty then [] else [(k, attrToks o d)]).map lineText =
      (attrTexts o d).map (fun t => List.replicate k ' ' ++ t) := by
    unfold attrTexts
    cases h : (attrItems o d).isEmpty with
    | true => rw [attrToks_nil o d h]; rfl
    | false =>
      have hne : (attrToks o d).isEmpty = false := by
        obtain ⟨_, h2⟩ := ra_attrInner o d
        rw [attrToks_eq, h2, h]; rfl
      simp [hne, lineText, render_attrs o d h]
  simp only [List.cons_append, List.nil_append, List.map_cons, List.map_append, List.map_map,
    joinNL_cons, joinStr_cons, hattr]
  simp only [lineText, List.replicate_zero, List.nil_append, render_start, render_rbrace]
  simp only [Function.comp_def]
  simp only [lineText, render_node, render_link]
  unfold attrTexts startText
  cases d.identifier <;> cases (attrItems o d).isEmpty <;>
    simp [List.flatMap_append, List.flatMap_map, S, List.append_assoc]

theorem lines_cons (o : Opts) (k : Nat) (e : DMRS) : ∃ y ys, (tokLines o k e).map lineText = y :: ys := ⟨_, _, rfl⟩

theorem indentList_cons (o : Opts) (k : Nat) : ∀ (ds : List DMRS) (d : DMRS),
    joinNL (((d :: ds).flatMap (tokLines o k)).map lineText) =
      encodeTextIndent o k d ++ ds.flatMap (fun e => '\n' :: encodeTextIndent o k e)
  | [], d => by simp [encodeTextIndent]
  | e :: es, d => by
    have ih := indentList_cons o k es e
    obtain ⟨x, xs, hx⟩ := lines_cons o k d
    obtain ⟨y, ys, hy⟩ : ∃ y ys, ((e :: es).flatMap (tokLines o k)).map lineText = y :: ys := by
      obtain ⟨y, ys, hy⟩ := lines_cons o k e
      exact ⟨y, ys ++ _, by rw [List.flatMap_cons, List.map_append, hy]; rfl⟩
    rw [List.flatMap_cons, List.map_append, hx, hy, joinNL_append, ← hy, ih, ← hx]
    simp [encodeTextIndent]

/-- `_encode(ds, properties, lnk, k)`. -/
theorem encListText_some (o : Opts) (k : Nat) (ds : List DMRS) :
    encListText o (some k) ds = encodeTextIndentList o k ds := by
  unfold encListText encodeTextIndentList
  cases ds with
  | nil => rfl
  | cons d ds =>
    rw [indentList_cons]
    have hf : encDmrsText o (some k) = encodeTextIndent o k := funext (encDmrsText_some o k)
    simp [joinStr_cons, hf, List.flatMap_map]

end Verif.C02
