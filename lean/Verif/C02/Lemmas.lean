/- C02 — helper lemmas: normalizeTop, dict, SimpleDMRS token round trip. -/
import Verif.C02.Model
import Verif.Common.CodecLemmas
import Verif.Common.SemLemmas

namespace Verif.C02
open Verif.Codec Verif.Py

/-! ### normalizeTop -/

theorem top_node_id_eq : TOP_NODE_ID = 0 := rfl

theorem normalizeTop_links (top : Option Int) (ls : List Link) :
    (normalizeTop top ls).2 = ls.filter (fun l => l.start ≠ TOP_NODE_ID) := by
  induction ls generalizing top with
  | nil => rfl
  | cons l ls ih =>
    by_cases h : l.start = TOP_NODE_ID
    · simp [normalizeTop, h, ih]
    · simp [normalizeTop, h, ih]

theorem normalizeTop_top_some (t : Int) (ls : List Link) : (normalizeTop (some t) ls).1 = some t := by
  induction ls with
  | nil => rfl
  | cons l ls ih =>
    by_cases h : l.start = TOP_NODE_ID
    · simp [normalizeTop, h, ih]
    · simp [normalizeTop, h, ih]

theorem normalizeTop_top_none (ls : List Link) :
    (normalizeTop none ls).1 = (ls.find? (fun l => l.start = TOP_NODE_ID)).map (·.stop) := by
  induction ls with
  | nil => rfl
  | cons l ls ih =>
    by_cases h : l.start = TOP_NODE_ID
    · simp [normalizeTop, h, normalizeTop_top_some]
    · simp [normalizeTop, h, ih]

theorem normalizeTop_wf (top : Option Int) (ls : List Link) :
    ∀ l ∈ (normalizeTop top ls).2, l.start ≠ TOP_NODE_ID := by
  intro l hl
  rw [normalizeTop_links] at hl
  simpa using (List.mem_filter.mp hl).2

theorem normalizeTop_of_wf (top : Option Int) (ls : List Link) (h : ∀ l ∈ ls, l.start ≠ TOP_NODE_ID) :
    normalizeTop top ls = (top, ls) := by
  induction ls with
  | nil => rfl
  | cons l ls ih =>
    have hl := h l (by simp)
    have ih' := ih (fun x hx => h x (by simp [hx]))
    simp [normalizeTop, hl, ih']

theorem normalizeTop_idem (top : Option Int) (ls : List Link) :
    normalizeTop (normalizeTop top ls).1 (normalizeTop top ls).2 = normalizeTop top ls :=
  normalizeTop_of_wf _ _ (normalizeTop_wf top ls)

theorem mkDMRS_wf (top index : Option Int) (ns : List Node) (ls : List Link) (lnk : Lnk) (s i : Option Str) :
    (mkDMRS top index ns ls lnk s i).WF := by
  intro l hl
  exact normalizeTop_wf top ls l hl

theorem mkDMRS_of_wf (top index : Option Int) (ns : List Node) (ls : List Link) (lnk : Lnk) (s i : Option Str)
    (h : ∀ l ∈ ls, l.start ≠ TOP_NODE_ID) :
    mkDMRS top index ns ls lnk s i =
      { top := top, index := index, nodes := ns, links := ls, lnk := lnk, surface := s, identifier := i } := by
  simp [mkDMRS, normalizeTop_of_wf top ls h]

/-! ### dict -/

theorem dset_fresh {ν : Type} (k : Str) (v : ν) (ps : List (Str × ν)) (h : k ∉ ps.map (·.1)) :
    dset k v ps = ps ++ [(k, v)] := by
  induction ps with
  | nil => rfl
  | cons p ps ih =>
    obtain ⟨k', v'⟩ := p
    have h1 : ¬ k' = k := fun e => h (by simp [e])
    have h2 : k ∉ ps.map (·.1) := fun hm => h (by simp only [List.map_cons]; exact List.mem_cons_of_mem _ hm)
    simp [dset, h1, ih h2]

theorem foldl_dset {ν : Type} (ps acc : List (Str × ν)) (h : ((acc ++ ps).map (·.1)).Nodup) :
    ps.foldl (fun acc p => dset p.1 p.2 acc) acc = acc ++ ps := by
  induction ps generalizing acc with
  | nil => simp
  | cons p ps ih =>
    have hp : p.1 ∉ acc.map (·.1) := by
      simp only [List.map_append, List.map_cons] at h
      have := (List.nodup_append.mp h).2.2
      intro hmem
      exact this _ hmem _ (by simp) rfl
    simp only [List.foldl_cons]
    rw [dset_fresh _ _ _ hp, ih]
    · simp
    · simpa using h

theorem pyDict_of_nodup {ν : Type} (ps : List (Str × ν)) (h : (ps.map (·.1)).Nodup) : pyDict ps = ps := by
  have := foldl_dset ps [] (by simpa using h)
  simpa [pyDict] using this

/-! ### case mapping on what the encoder prints -/

theorem map_eq_self {α : Type} {f : α → α} {l : List α} (h : ∀ x ∈ l, f x = x) : l.map f = l := by
  induction l with
  | nil => rfl
  | cons a l ih =>
    simp only [List.map_cons]
    rw [h a (by simp), ih (fun x hx => h x (by simp [hx]))]

theorem lowerC_digit (c : Char) (h : c.isDigit = true) : lowerC c = c := by
  have h2 : c.toNat ≤ 57 := by
    simp [Char.isDigit, UInt32.le_iff_toNat_le] at h
    exact h.2
  unfold lowerC
  split
  · omega
  · rfl

theorem lower_intStr (i : Int) : lower (intStr i) = intStr i := by
  unfold lower
  apply map_eq_self
  intro c hc
  rcases mem_intStr hc with h | h
  · exact lowerC_digit c h
  · subst h; decide

theorem upper_top : upper (S "top") = S "TOP" := by decide
theorem upper_index : upper (S "index") = S "INDEX" := by decide

/-! ### SimpleDMRS: pieces, each with remainder -/

theorem decProps_enc (ps : Props) (rest : List T) :
    decProps (ps.flatMap propToks ++ tRBRACKET :: rest) =
      .ok (ps.map (fun kv => (upper kv.1, lower kv.2)), rest) := by
  induction ps with
  | nil =>
    rw [decProps.eq_def]
    simp [tRBRACKET]
  | cons kv ps ih =>
    simp only [List.flatMap_cons, propToks, List.cons_append, List.nil_append, List.map_cons]
    rw [decProps.eq_def]
    simp [sym, tEQUALS, ih]

theorem props_norm (ps : Props) (hu : ∀ kv ∈ ps, upper kv.1 = kv.1) (hl : ∀ kv ∈ ps, lower kv.2 = kv.2) :
    ps.map (fun kv => (upper kv.1, lower kv.2)) = ps := by
  apply map_eq_self
  intro kv hkv
  rw [hu kv hkv, hl kv hkv]

theorem decLnk_enc (l : Lnk) (t : T) (rest : List T) (ht : t.kind ≠ .lnk) :
    decLnk (lnkToks l ++ t :: rest) = .ok (l, t :: rest) := by
  unfold lnkToks
  split
  · next h => subst h; simp [decLnk, acceptK, ht]
  · next h =>
    simp only [List.cons_append, List.nil_append, decLnk, acceptK]
    simp [lnk_roundtrip]

theorem decLnk_skip (t : T) (rest : List T) (ht : t.kind ≠ .lnk) :
    decLnk (t :: rest) = .ok (.unspec, t :: rest) := by
  simp [decLnk, acceptK, ht]

theorem decCarg_enc (c : Option Str) (t : T) (rest : List T) (ht : t.kind ≠ .lparen) :
    decCarg (cargToks c ++ t :: rest) = .ok (c, t :: rest) := by
  cases c with
  | none => simp [cargToks, decCarg, acceptK, ht]
  | some c => simp [cargToks, decCarg, acceptK, expectK, tLPAREN, tRPAREN, unescapeDQ_escapeDQ]

/-- the list of properties that is printed -/
def printedProps (o : Opts) (n : Node) : Props := if o.properties then n.props else []

theorem printedProps_toks (o : Opts) (n : Node) :
    (if o.properties then n.props.flatMap propToks else []) = (printedProps o n).flatMap propToks := by
  unfold printedProps; split <;> simp

theorem decProps_printed (o : Opts) (n : Node) (hn : NodeOKS n) (rest : List T) :
    decProps ((printedProps o n).flatMap propToks ++ tRBRACKET :: rest) = .ok (printedProps o n, rest) := by
  rw [decProps_enc, props_norm]
  · intro kv hkv
    unfold printedProps at hkv
    split at hkv
    · exact hn.upperKeys kv hkv
    · simp at hkv
  · intro kv hkv
    unfold printedProps at hkv
    split at hkv
    · exact hn.lowerVals kv hkv
    · simp at hkv

/-- the node type is read back (as `dropU`), looking one token ahead for `=` -/
theorem decType_enc (n : Node) (q : Props) (rest : List T) :
    decType (typeToks n ++ q.flatMap propToks ++ tRBRACKET :: tSEMI :: rest) =
      .ok (dropU n.type, q.flatMap propToks ++ tRBRACKET :: tSEMI :: rest) := by
  unfold typeToks dropU
  cases hty : n.type with
  | none =>
    cases q with
    | nil => simp [decType, peek1Kind, tRBRACKET, tSEMI, acceptK]
    | cons kv q' => simp [decType, peek1Kind, propToks, tEQUALS, sym]
  | some t =>
    by_cases hu : t = S "u"
    · subst hu
      cases q with
      | nil => simp [decType, peek1Kind, tRBRACKET, tSEMI, acceptK]
      | cons kv q' => simp [decType, peek1Kind, propToks, tEQUALS, sym]
    · cases q with
      | nil => simp [hu, decType, peek1Kind, tRBRACKET, acceptK, sym]
      | cons kv q' => simp [hu, decType, peek1Kind, propToks, acceptK, sym]

theorem pInt_intStr (i : Int) : pInt (intStr i) = .ok i := by
  simp [pInt, parseInt_intStr]

theorem encNodeToks_eq (o : Opts) (n : Node) :
    encNodeToks o n = sym (intStr n.id) :: tLBRACKET :: sym n.pred ::
      ((if o.lnk then lnkToks n.lnk else []) ++ (cargToks n.carg ++
        (typeToks n ++ (printedProps o n).flatMap propToks ++ tRBRACKET :: tSEMI :: []))) := by
  simp [encNodeToks, printedProps_toks]

theorem cargToks_head (c : Option Str) (t : T) (rest : List T) (h : t.kind ≠ .lnk) :
    ∃ t' r', cargToks c ++ t :: rest = t' :: r' ∧ t'.kind ≠ .lnk := by
  cases c with
  | none => exact ⟨t, rest, rfl, h⟩
  | some c => exact ⟨tLPAREN, _, rfl, by decide⟩

theorem typeProps_head (n : Node) (q : Props) (rest : List T) :
    ∃ t' r', typeToks n ++ q.flatMap propToks ++ tRBRACKET :: rest = t' :: r' ∧ t'.kind ≠ .lnk ∧ t'.kind ≠ .lparen := by
  unfold typeToks
  cases n.type with
  | none =>
    cases q with
    | nil => exact ⟨tRBRACKET, rest, rfl, by decide, by decide⟩
    | cons kv q' => exact ⟨sym kv.1, tEQUALS :: sym kv.2 :: (q'.flatMap propToks ++ tRBRACKET :: rest), by simp [propToks], by simp [sym], by simp [sym]⟩
  | some t =>
    by_cases hu : t = S "u"
    · cases q with
      | nil => exact ⟨tRBRACKET, rest, by simp [hu], by decide, by decide⟩
      | cons kv q' => exact ⟨sym kv.1, tEQUALS :: sym kv.2 :: (q'.flatMap propToks ++ tRBRACKET :: rest), by simp [hu, propToks], by simp [sym], by simp [sym]⟩
    · exact ⟨sym t, q.flatMap propToks ++ tRBRACKET :: rest, by simp [hu], by simp [sym], by simp [sym]⟩

/-- one node, called as `_decode_node` is: after `nodeid [` -/
theorem decNode_enc (o : Opts) (n : Node) (hn : NodeOKS n) (rest : List T) :
    decNode (intStr n.id) (sym n.pred ::
      ((if o.lnk then lnkToks n.lnk else []) ++ (cargToks n.carg ++
        (typeToks n ++ (printedProps o n).flatMap propToks ++ tRBRACKET :: tSEMI :: rest)))) =
    .ok (viewNodeS o n, rest) := by
  obtain ⟨t2, r2, h2, h2l, h2p⟩ := typeProps_head n (printedProps o n) (tSEMI :: rest)
  obtain ⟨t1, r1, h1, h1l⟩ := cargToks_head n.carg t2 r2 h2l
  have hlnk : decLnk ((if o.lnk then lnkToks n.lnk else []) ++ (cargToks n.carg ++
        (typeToks n ++ (printedProps o n).flatMap propToks ++ tRBRACKET :: tSEMI :: rest))) =
      .ok ((if o.lnk then n.lnk else .unspec), cargToks n.carg ++
        (typeToks n ++ (printedProps o n).flatMap propToks ++ tRBRACKET :: tSEMI :: rest)) := by
    rw [h2, h1]
    split
    · exact decLnk_enc _ _ _ h1l
    · simpa using decLnk_skip t1 r1 h1l
  have hcarg : decCarg (cargToks n.carg ++
        (typeToks n ++ (printedProps o n).flatMap propToks ++ tRBRACKET :: tSEMI :: rest)) =
      .ok (n.carg, typeToks n ++ (printedProps o n).flatMap propToks ++ tRBRACKET :: tSEMI :: rest) := by
    rw [h2]
    exact decCarg_enc _ _ _ h2p
  have hprops : pyDict (printedProps o n) = printedProps o n := by
    apply pyDict_of_nodup
    unfold printedProps
    split
    · exact hn.keys
    · simp
  unfold decNode
  simp only [expectK, sym, if_true]
  rw [hlnk]
  simp only []
  rw [hcarg]
  simp only []
  rw [decType_enc]
  simp only []
  rw [decProps_printed o n hn]
  simp only [tSEMI, if_true, pInt_intStr, hprops]
  simp [viewNodeS, printedProps]

/-- one link, called as `_decode_link` is: after `start :` -/
theorem decLink_enc (l : Link) (hl : LinkOKS l) (rest : List T) :
    decLink (intStr l.start) (roleToks l.role ++
      (tSLASH :: sym (fmtOpt l.post) :: ⟨.arrow, arrowOf l⟩ :: sym (intStr l.stop) :: tSEMI :: rest)) =
    .ok (l, rest) := by
  obtain ⟨start, stop, role, post⟩ := l
  have hp := hl.post
  have hr := hl.roleNe
  simp only at hp hr
  cases post with
  | none => exact absurd rfl hp
  | some p =>
    cases role with
    | none =>
      simp [decLink, roleToks, acceptK, expectK, tSLASH, sym, tSEMI, fmtOpt, pInt_intStr]
    | some r =>
      cases r with
      | nil => exact absurd rfl hr
      | cons c r =>
        simp [decLink, roleToks, acceptK, expectK, tSLASH, sym, tSEMI, fmtOpt, pInt_intStr]

theorem encLinkToks_eq (l : Link) :
    encLinkToks l = sym (intStr l.start) :: tCOLON :: (roleToks l.role ++
      (tSLASH :: sym (fmtOpt l.post) :: ⟨.arrow, arrowOf l⟩ :: sym (intStr l.stop) :: tSEMI :: [])) := by
  simp [encLinkToks]

/-- the node/link loop up to and including `}` -/
theorem decItems_links (ls : List Link) (hl : ∀ l ∈ ls, LinkOKS l) (rest : List T) (fuel : Nat)
    (hf : ls.length < fuel) :
    decItems fuel (ls.flatMap encLinkToks ++ tRBRACE :: rest) = .ok ([], ls, rest) := by
  induction ls generalizing fuel with
  | nil =>
    cases fuel with
    | zero => simp at hf
    | succ f => simp [decItems, tRBRACE]
  | cons l ls ih =>
    cases fuel with
    | zero => simp at hf
    | succ f =>
      have hdl := decLink_enc l (hl l (by simp)) (ls.flatMap encLinkToks ++ tRBRACE :: rest)
      simp only [List.flatMap_cons, encLinkToks_eq, List.cons_append, List.append_assoc, List.nil_append]
      rw [decItems]
      simp only [sym, tCOLON]
      simp only [sym] at hdl
      simp [hdl, ih (fun x hx => hl x (by simp [hx])) f (by simp at hf; omega)]

theorem decItems_enc (o : Opts) (ns : List Node) (ls : List Link) (hn : ∀ n ∈ ns, NodeOKS n)
    (hl : ∀ l ∈ ls, LinkOKS l) (rest : List T) (fuel : Nat) (hf : ns.length + ls.length < fuel) :
    decItems fuel (ns.flatMap (encNodeToks o) ++ (ls.flatMap encLinkToks ++ tRBRACE :: rest)) =
      .ok (ns.map (viewNodeS o), ls, rest) := by
  induction ns generalizing fuel with
  | nil => simpa using decItems_links ls hl rest fuel (by simpa using hf)
  | cons n ns ih =>
    cases fuel with
    | zero => simp at hf
    | succ f =>
      have hdn := decNode_enc o n (hn n (by simp))
        (ns.flatMap (encNodeToks o) ++ (ls.flatMap encLinkToks ++ tRBRACE :: rest))
      simp only [List.flatMap_cons, encNodeToks_eq, List.cons_append, List.append_assoc, List.nil_append]
      rw [decItems]
      simp only [sym, tLBRACKET]
      simp only [List.append_assoc, sym] at hdn
      simp [hdn, ih (fun x hx => hn x (by simp [hx])) f (by simp at hf; omega)]

/-! ### graph attributes -/

theorem decProps_stop (x : Str) (r : List T) : decProps (⟨.rbracket, x⟩ :: r) = .ok ([], r) := by
  rw [decProps.eq_def]; simp

theorem decProps_step (a e b : Str) (r : List T) :
    decProps (⟨.symbol, a⟩ :: ⟨.equals, e⟩ :: ⟨.symbol, b⟩ :: r) =
      (match decProps r with
       | .ok (ps, r') => .ok ((upper a, lower b) :: ps, r')
       | .error err => .error err) := by
  rw [decProps.eq_def]
  cases h : decProps r <;> simp [h]

theorem decAttrs_enc (o : Opts) (d : DMRS) (t : T) (rest : List T) (ht : t.kind ≠ .lbracket) :
    decAttrs (attrToks o d ++ t :: rest) =
      .ok ((if o.lnk && d.lnk.truthy then d.lnk else .unspec, if o.lnk then d.surface else none,
            d.top.map intStr, d.index.map intStr), t :: rest) := by
  have hne : S "TOP" ≠ S "INDEX" := by decide
  have hne' : S "INDEX" ≠ S "TOP" := by decide
  obtain ⟨op, ol⟩ := o
  cases ol <;> cases htr : d.lnk.truthy <;> cases hs : d.surface <;> cases htop : d.top <;> cases hidx : d.index <;>
    simp [attrToks, decAttrs, acceptK, ht, htr, hs, htop, hidx, decLnk, lnk_roundtrip, tLBRACKET, tRBRACKET, decProps_stop,
      decProps_step, unescapeDQ_escapeDQ, pyDict, dset, dget, upper_top, upper_index, lower_intStr, hne, hne', sym, tEQUALS]

/-! ### the whole graph -/

theorem optInt_intStr (x : Option Int) : optInt (x.map intStr) = .ok x := by
  cases x <;> simp [optInt, pInt_intStr]

theorem length_flatMap_ge {α : Type} (f : α → List T) (xs : List α) (h : ∀ x ∈ xs, 1 ≤ (f x).length) :
    xs.length ≤ (xs.flatMap f).length := by
  induction xs with
  | nil => simp
  | cons x xs ih =>
    have := h x (by simp)
    have := ih (fun y hy => h y (by simp [hy]))
    simp only [List.flatMap_cons, List.length_append, List.length_cons]
    omega

theorem items_length (o : Opts) (ns : List Node) (ls : List Link) (rest : List T) :
    ns.length + ls.length <
      (ns.flatMap (encNodeToks o) ++ (ls.flatMap encLinkToks ++ tRBRACE :: rest)).length := by
  have h1 := length_flatMap_ge (encNodeToks o) ns (by intro n _; simp [encNodeToks])
  have h2 := length_flatMap_ge encLinkToks ls (by intro l _; simp [encLinkToks])
  simp only [List.length_append, List.length_cons]
  omega

theorem items_head (o : Opts) (ns : List Node) (ls : List Link) (rest : List T) :
    ∃ t r, ns.flatMap (encNodeToks o) ++ (ls.flatMap encLinkToks ++ tRBRACE :: rest) = t :: r ∧ t.kind ≠ .lbracket := by
  cases ns with
  | cons n ns =>
    rw [List.flatMap_cons, encNodeToks_eq]
    exact ⟨_, _, rfl, by simp [sym]⟩
  | nil =>
    cases ls with
    | cons l ls =>
      rw [List.flatMap_cons, encLinkToks_eq]
      exact ⟨_, _, rfl, by simp [sym]⟩
    | nil => exact ⟨tRBRACE, rest, by simp, by decide⟩

/-- SimpleDMRS token-level round trip with remainder. -/
theorem decDmrs_encDmrsToks (o : Opts) (d : DMRS) (hwf : d.WF) (hx : ExpressibleSD d) (rest : List T) :
    decDmrs (encDmrsToks o d ++ rest) = .ok (viewS o d, rest) := by
  obtain ⟨t, r, hitems, htk⟩ := items_head o d.nodes d.links rest
  have hshape : encDmrsToks o d ++ rest =
      sym (S "dmrs") :: (identToks d.identifier ++ tLBRACE :: (attrToks o d ++
        (d.nodes.flatMap (encNodeToks o) ++ (d.links.flatMap encLinkToks ++ tRBRACE :: rest)))) := by
    simp [encDmrsToks]
  rw [hshape]
  have hattrs := decAttrs_enc o d t r htk
  rw [← hitems] at hattrs
  have hitemsdec := decItems_enc o d.nodes d.links hx.1 hx.2 rest
    ((d.nodes.flatMap (encNodeToks o) ++ (d.links.flatMap encLinkToks ++ tRBRACE :: rest)).length + 1)
    (by have := items_length o d.nodes d.links rest; omega)
  have hmk := fun i => mkDMRS_of_wf d.top d.index (d.nodes.map (viewNodeS o)) d.links
    (if o.lnk && d.lnk.truthy then d.lnk else .unspec) (if o.lnk then d.surface else none) i hwf
  unfold decDmrs
  cases hid : d.identifier with
  | none =>
    simp only [identToks, List.nil_append, sym, acceptK, expectK, tLBRACE]
    simp only [show (K.lbrace = K.symbol) = False from by simp, if_false, if_true, ne_eq, not_true_eq_false]
    rw [hattrs]
    simp only []
    rw [hitemsdec]
    simp only [optInt_intStr]
    rw [hmk]
    simp [viewS, hid]
  | some i =>
    simp only [identToks, List.cons_append, List.nil_append, sym, acceptK, expectK, tLBRACE]
    simp only [if_true, ne_eq, not_true_eq_false, if_false]
    rw [hattrs]
    simp only []
    rw [hitemsdec]
    simp only [optInt_intStr]
    rw [hmk]
    simp [viewS, hid]

theorem encDmrsToks_cons (o : Opts) (d : DMRS) : ∃ r, encDmrsToks o d = sym (S "dmrs") :: r := ⟨_, rfl⟩

theorem decList_enc (o : Opts) (ds : List DMRS) (h : ∀ d ∈ ds, d.WF ∧ ExpressibleSD d) (fuel : Nat)
    (hf : ds.length ≤ fuel) :
    decList fuel (ds.flatMap (encDmrsToks o)) = .ok (ds.map (viewS o)) := by
  induction ds generalizing fuel with
  | nil => cases fuel <;> simp [decList]
  | cons d ds ih =>
    cases fuel with
    | zero => simp at hf
    | succ f =>
      obtain ⟨r, hr⟩ := encDmrsToks_cons o d
      have hd := decDmrs_encDmrsToks o d (h d (by simp)).1 (h d (by simp)).2 (ds.flatMap (encDmrsToks o))
      have ih' := ih (fun x hx => h x (by simp [hx])) f (by simp at hf; omega)
      simp only [List.flatMap_cons]
      rw [hr] at hd ⊢
      simp only [List.cons_append] at hd ⊢
      rw [decList, hd]
      simp [ih']

/-- the list API: `loads(dumps(ds))` at token level -/
theorem decodeList_encDmrsToks (o : Opts) (ds : List DMRS) (h : ∀ d ∈ ds, d.WF ∧ ExpressibleSD d) :
    decodeList (ds.flatMap (encDmrsToks o)) = .ok (ds.map (viewS o)) := by
  unfold decodeList
  apply decList_enc o ds h
  apply length_flatMap_ge
  intro d _
  obtain ⟨r, hr⟩ := encDmrsToks_cons o d
  simp [hr]

/-! ### DMRS-JSON -/

theorem strVals_map (ps : Props) : strVals (ps.map (fun kv => (kv.1, JV.str kv.2))) = .ok ps := by
  induction ps with
  | nil => rfl
  | cons kv ps ih => simp [strVals, ih]

theorem dget_not_mem {ν : Type} (k : Str) (ps : List (Str × ν)) (h : k ∉ ps.map (·.1)) : dget k ps = none := by
  induction ps with
  | nil => rfl
  | cons p ps ih =>
    obtain ⟨k', v'⟩ := p
    have h1 : ¬ k' = k := fun e => h (by simp [e])
    have h2 : k ∉ ps.map (·.1) := fun hm => h (by simp only [List.map_cons]; exact List.mem_cons_of_mem _ hm)
    simp [dget, h1, ih h2]

theorem derase_not_mem {ν : Type} (k : Str) (ps : List (Str × ν)) (h : k ∉ ps.map (·.1)) : derase k ps = ps := by
  induction ps with
  | nil => rfl
  | cons p ps ih =>
    obtain ⟨k', v'⟩ := p
    have h1 : ¬ k' = k := fun e => h (by simp [e])
    have h2 : k ∉ ps.map (·.1) := fun hm => h (by simp only [List.map_cons]; exact List.mem_cons_of_mem _ hm)
    simp [derase, h1, ih h2]

theorem dget_fresh_append {ν : Type} (k : Str) (v : ν) (ps : List (Str × ν)) (h : k ∉ ps.map (·.1)) :
    dget k (ps ++ [(k, v)]) = some v := by
  induction ps with
  | nil => simp [dget]
  | cons p ps ih =>
    obtain ⟨k', v'⟩ := p
    have h1 : ¬ k' = k := fun e => h (by simp [e])
    have h2 : k ∉ ps.map (·.1) := fun hm => h (by simp only [List.map_cons]; exact List.mem_cons_of_mem _ hm)
    simp [dget, h1, ih h2]

theorem derase_fresh_append {ν : Type} (k : Str) (v : ν) (ps : List (Str × ν)) (h : k ∉ ps.map (·.1)) :
    derase k (ps ++ [(k, v)]) = ps := by
  induction ps with
  | nil => simp [derase]
  | cons p ps ih =>
    obtain ⟨k', v'⟩ := p
    have h1 : ¬ k' = k := fun e => h (by simp [e])
    have h2 : k ∉ ps.map (·.1) := fun hm => h (by simp only [List.map_cons]; exact List.mem_cons_of_mem _ hm)
    simp [derase, h1, ih h2]

/-- the facts about `Node.sortinfo` that the JSON decoder uses -/
theorem sortinfo_facts (n : Node) (hn : NodeOKJ n) :
    dget CVARSORT n.sortinfo = n.type ∧ derase CVARSORT n.sortinfo = n.props ∧
    (n.sortinfo.isEmpty = true → n.type = none ∧ n.props = []) := by
  have hcv : CVARSORT ∉ n.props.map (·.1) := by
    intro hm
    obtain ⟨kv, hkv, he⟩ := List.mem_map.mp hm
    exact hn.noCv kv hkv he
  have hp := pyDict_of_nodup n.props hn.keys
  unfold Node.sortinfo
  cases hty : n.type with
  | none =>
    simp only [hp]
    refine ⟨dget_not_mem _ _ hcv, derase_not_mem _ _ hcv, ?_⟩
    intro he
    simpa using he
  | some t =>
    simp only [hp]
    rw [dset_fresh _ _ _ hcv]
    refine ⟨dget_fresh_append _ _ _ hcv, derase_fresh_append _ _ _ hcv, ?_⟩
    intro he
    simp at he

theorem nodeOfDict_nodeToDict (o : Opts) (n : Node) (hn : NodeOKJ n) :
    nodeOfDict (nodeToDict o n) = .ok (viewNodeJ o n) := by
  obtain ⟨h1, h2, h3⟩ := sortinfo_facts n hn
  have h0 := strVals_map n.sortinfo
  unfold nodeToDict
  generalize n.sortinfo = si at *
  obtain ⟨op, ol⟩ := o
  cases op <;> cases ol <;> cases hc : n.carg <;> cases hs : n.surface <;> cases hb : n.base <;>
    cases ht : n.lnk.truthy <;> cases he : si.isEmpty <;>
    simp (config := { decide := true }) [nodeOfDict, optField, dget, S, h0, h1, h2, hc, hs, hb, ht, getOptStr, lnkOfDict, jLnk,
      viewNodeJ, viewLnkJ] <;>
    (have h4 := h3 he; simp [h4.1, h4.2, derase])

theorem linkOfDict_linkToDict (l : Link) : linkOfDict (linkToDict l) = .ok l := by
  obtain ⟨a, b, r, p⟩ := l
  cases r <;> cases p <;>
    simp (config := { decide := true }) [linkOfDict, linkToDict, dget, S, getOptStr, jOptStr]

theorem mapMExcept_map {α β γ : Type} (f : β → Except Err γ) (g : α → β) (h : α → γ) (xs : List α)
    (hx : ∀ x ∈ xs, f (g x) = .ok (h x)) : mapMExcept f (xs.map g) = .ok (xs.map h) := by
  induction xs with
  | nil => rfl
  | cons x xs ih =>
    simp [mapMExcept, hx x (by simp), ih (fun y hy => hx y (by simp [hy]))]

/-- DMRS-JSON dictionary round trip. -/
theorem fromDict_toDict (o : Opts) (d : DMRS) (hwf : d.WF) (hx : ExpressibleJ d) :
    fromDict (toDict o d) = .ok (viewJ o d) := by
  have hns := mapMExcept_map nodeOfDict (nodeToDict o) (viewNodeJ o) d.nodes
    (fun n hn => nodeOfDict_nodeToDict o n (hx n hn))
  have hls := mapMExcept_map linkOfDict linkToDict id d.links (fun l _ => linkOfDict_linkToDict l)
  simp only [List.map_id] at hls
  have hmk := fun top index lnk s i => mkDMRS_of_wf top index (d.nodes.map (viewNodeJ o)) d.links lnk s i hwf
  unfold toDict
  obtain ⟨op, ol⟩ := o
  cases hidx : d.index with
  | none =>
    cases ol <;> cases htop : d.top <;> cases hs : d.surface <;> cases hi : d.identifier <;>
      cases ht : d.lnk.truthy <;>
      simp (config := { decide := true }) [fromDict, optField, dget, S, getArr, hns, hls, getOptInt, getOptStr, lnkOfDict, jLnk,
        hmk, viewJ, viewLnkJ, htop, hidx, hs, hi, ht]
  | some ix =>
    by_cases hz : ix = 0 <;>
      cases ol <;> cases htop : d.top <;> cases hs : d.surface <;> cases hi : d.identifier <;>
      cases ht : d.lnk.truthy <;>
      simp (config := { decide := true }) [fromDict, optField, dget, S, getArr, hns, hls, getOptInt, getOptStr, lnkOfDict, jLnk,
        hmk, viewJ, viewLnkJ, htop, hidx, hs, hi, ht, hz]
/-! ### DMRX -/

theorem nodup_of_map {α β : Type} (f : α → β) (l : List α) (h : (l.map f).Nodup) : l.Nodup := by
  induction l with
  | nil => simp
  | cons a l ih =>
    simp only [List.map_cons, List.nodup_cons] at h ⊢
    exact ⟨fun hm => h.1 (List.mem_map_of_mem hm), ih h.2⟩

theorem lower_cvarsort : lower CVARSORT = CVARSORT := by decide

/-- what `_decode_sortinfo` + the `cvarsort` pop make of the attributes `_encode_node` wrote -/
def decSortinfo (attrs : List (Str × Str)) : Option Str × Props :=
  let sortinfo := pyDict (attrs.map (fun kv => ((if kv.1 ≠ CVARSORT then upper kv.1 else kv.1), lower kv.2)))
  ((dget CVARSORT sortinfo).map lower, derase CVARSORT sortinfo)

theorem sortinfoX_rt (n : Node) (hn : NodeOKX n) :
    decSortinfo (pyDict (n.sortinfo.map (fun kv => (lower kv.1, lower kv.2)))) = (n.type, n.props) := by
  have hk : KeysNodup n.props := by
    have := hn.keys
    unfold KeysNodup
    have h2 : n.props.map (fun kv => lower kv.1) = (n.props.map (·.1)).map lower := by simp [List.map_map, Function.comp_def]
    rw [h2] at this
    exact nodup_of_map _ _ this
  have hcv : CVARSORT ∉ n.props.map (·.1) := by
    intro hm
    obtain ⟨kv, hkv, he⟩ := List.mem_map.mp hm
    apply hn.noCv kv hkv
    rw [he]; exact lower_cvarsort
  have hcvl : CVARSORT ∉ (n.props.map (fun kv => (lower kv.1, lower kv.2))).map (·.1) := by
    intro hm
    simp only [List.map_map, List.mem_map, Function.comp] at hm
    obtain ⟨kv, hkv, he⟩ := hm
    exact hn.noCv kv hkv he
  have hp := pyDict_of_nodup n.props hk
  have hback : (n.props.map (fun kv => (lower kv.1, lower kv.2))).map
      (fun kv => ((if kv.1 ≠ CVARSORT then upper kv.1 else kv.1), lower kv.2)) = n.props := by
    rw [List.map_map]
    apply map_eq_self
    intro kv hkv
    simp only [Function.comp, hn.noCv kv hkv, ne_eq, not_false_eq_true, if_true, hn.keyRT kv hkv, hn.lowerVals kv hkv]
  have hlk : ((n.props.map (fun kv => (lower kv.1, lower kv.2))).map (·.1)).Nodup := by
    simpa [List.map_map, Function.comp_def] using hn.keys
  unfold decSortinfo Node.sortinfo
  cases hty : n.type with
  | none =>
    simp only [hp]
    rw [pyDict_of_nodup _ hlk, hback, hp, dget_not_mem _ _ hcv, derase_not_mem _ _ hcv]
    rfl
  | some t =>
    have ht := hn.lowerType t hty
    simp only [hp]
    rw [dset_fresh _ _ _ hcv]
    simp only [List.map_append, List.map_cons, List.map_nil, lower_cvarsort, ht]
    have hlk2 : ((n.props.map (fun kv => (lower kv.1, lower kv.2)) ++ [(CVARSORT, t)]).map (·.1)).Nodup := by
      simp only [List.map_append, List.map_cons, List.map_nil]
      apply List.nodup_append.mpr
      refine ⟨hlk, by simp, ?_⟩
      intro a ha b hb
      simp at hb
      subst hb
      intro e; subst e
      exact hcvl ha
    rw [pyDict_of_nodup _ hlk2]
    simp only [List.map_append, hback, List.map_cons, List.map_nil, ne_eq, not_true_eq_false, if_false, ht]
    have hk2 : ((n.props ++ [(CVARSORT, t)]).map (·.1)).Nodup := by
      simp only [List.map_append, List.map_cons, List.map_nil]
      apply List.nodup_append.mpr
      refine ⟨hk, by simp, ?_⟩
      intro a ha b hb
      simp at hb
      subst hb
      intro e; subst e
      exact hcv ha
    rw [pyDict_of_nodup _ hk2, dget_fresh_append _ _ _ hcv, derase_fresh_append _ _ _ hcv]
    simp [ht]

/-- a predicate survives `_encode_pred`/`_decode_pred` (and its element is not called `sortinfo`) -/
def PredRT (p : Str) : Prop := ∃ e, encPredX p = .ok e ∧ decPredX e = .ok p ∧ e.tag ≠ S "sortinfo"

theorem predRT_gpred (p : Str) (hn : normalizePred p = p) (hne : p ≠ []) (hs : isSurface p = false) : PredRT p := by
  refine ⟨{ tag := S "gpred", attrs := [], text := some p }, ?_, ?_, by simp (config := { decide := true }) [S]⟩
  · simp [encPredX, hn, hs]
  · cases p with
    | nil => exact absurd rfl hne
    | cons c r => simp [decPredX, xmlText, hn]

theorem pInt_m1 : pInt (S "-1") = .ok (-1) := by decide

def mkNodeX (o : Opts) (n : Node) (pe : XLeaf) : XMid :=
  { tag := S "node",
    attrs := [(S "nodeid", intStr n.id)] ++
      (if o.lnk then [(S "cfrom", intStr n.lnk.cfrom), (S "cto", intStr n.lnk.cto)] ++
         optAttr "surface" n.surface ++ optAttr "base" n.base else []) ++
      optAttr "carg" n.carg,
    children := [pe, { tag := S "sortinfo",
                       attrs := if o.properties then pyDict (n.sortinfo.map (fun kv => (lower kv.1, lower kv.2))) else [],
                       text := none }] }

theorem encNodeX_ok (o : Opts) (n : Node) (pe : XLeaf) (h : encPredX n.pred = .ok pe) :
    encNodeX o n = .ok (mkNodeX o n pe) := by
  unfold encNodeX
  simp only [h]
  rfl

theorem decNodeX_mkNodeX (o : Opts) (n : Node) (hn : NodeOKX n) (pe : XLeaf)
    (hpd : decPredX pe = .ok n.pred) (hpt : pe.tag ≠ S "sortinfo") :
    decNodeX (mkNodeX o n pe) = .ok (viewNodeX o n) := by
  have hsi := sortinfoX_rt n hn
  unfold decSortinfo at hsi
  simp only [Prod.mk.injEq] at hsi
  obtain ⟨hsi1, hsi2⟩ := hsi
  have hpt' : ¬ pe.tag = ['s', 'o', 'r', 't', 'i', 'n', 'f', 'o'] := by simpa [S] using hpt
  have hm1 : pInt ['-', '1'] = .ok (-1) := by decide
  have hnil : pyDict ([] : List (Str × Str)) = [] := rfl
  simp only [ne_eq, ite_not] at hsi1 hsi2
  obtain ⟨op, ol⟩ := o
  cases op <;> cases ol <;> cases hc : n.carg <;> cases hs : n.surface <;> cases hb : n.base <;>
    simp (config := { decide := true }) [mkNodeX, decNodeX, optAttr, dget, S, hpt', hpd, pInt_intStr, decLnkX, hm1, hsi1, hsi2,
      viewNodeX, hnil, derase, List.find?, hc, hs, hb]

theorem decLinkX_encLinkX (l : Link) (hl : LinkOKX l) : decLinkX (encLinkX l) = .ok l := by
  obtain ⟨a, b, r, p⟩ := l
  have h1 := hl.roleNe
  have h2 := hl.postNe
  simp only at h1 h2
  cases r with
  | none =>
    cases p with
    | none => simp (config := { decide := true }) [decLinkX, encLinkX, dget, S, pInt_intStr, List.find?, xmlText]
    | some p =>
      cases p with
      | nil => exact absurd rfl h2
      | cons c p => simp (config := { decide := true }) [decLinkX, encLinkX, dget, S, pInt_intStr, List.find?, xmlText]
  | some r =>
    cases r with
    | nil => exact absurd rfl h1
    | cons c r =>
      cases p with
      | none => simp (config := { decide := true }) [decLinkX, encLinkX, dget, S, pInt_intStr, List.find?, xmlText]
      | some p =>
        cases p with
        | nil => exact absurd rfl h2
        | cons c p => simp (config := { decide := true }) [decLinkX, encLinkX, dget, S, pInt_intStr, List.find?, xmlText]

theorem nodesX_rt (o : Opts) (ns : List Node) (hn : ∀ n ∈ ns, NodeOKX n) (hp : ∀ n ∈ ns, PredRT n.pred) :
    ∃ es, mapMExcept (encNodeX o) ns = .ok es ∧ mapMExcept decNodeX es = .ok (ns.map (viewNodeX o)) ∧
      ∀ e ∈ es, e.tag = S "node" := by
  induction ns with
  | nil => exact ⟨[], rfl, rfl, by simp⟩
  | cons n ns ih =>
    obtain ⟨es, h1, h2, h3⟩ := ih (fun x hx => hn x (by simp [hx])) (fun x hx => hp x (by simp [hx]))
    obtain ⟨pe, hpe, hpd, hpt⟩ := hp n (by simp)
    refine ⟨mkNodeX o n pe :: es, ?_, ?_, ?_⟩
    · simp [mapMExcept, encNodeX_ok o n pe hpe, h1]
    · simp [mapMExcept, decNodeX_mkNodeX o n (hn n (by simp)) pe hpd hpt, h2]
    · intro e he
      rcases List.mem_cons.mp he with h | h
      · subst h; rfl
      · exact h3 e h

theorem filter_nodes (es : List XMid) (ls : List Link) (h : ∀ e ∈ es, e.tag = S "node") :
    (es ++ ls.map encLinkX).filter (fun c => c.tag = S "node") = es ∧
    (es ++ ls.map encLinkX).filter (fun c => c.tag = S "link") = ls.map encLinkX := by
  have hne : ¬ (S "link" = S "node") := by decide
  have hne' : ¬ (S "node" = S "link") := by decide
  constructor
  · rw [List.filter_append]
    have h1 : es.filter (fun c => c.tag = S "node") = es := by
      apply List.filter_eq_self.mpr
      intro e he; simp [h e he]
    have h2 : (ls.map encLinkX).filter (fun c => decide (c.tag = S "node")) = [] := by
      apply List.filter_eq_nil_iff.mpr
      intro e he
      obtain ⟨l, _, rfl⟩ := List.mem_map.mp he
      simp [encLinkX, hne]
    rw [h1, h2]; simp
  · rw [List.filter_append]
    have h1 : es.filter (fun c => decide (c.tag = S "link")) = [] := by
      apply List.filter_eq_nil_iff.mpr
      intro e he; simp [h e he, hne']
    have h2 : (ls.map encLinkX).filter (fun c => decide (c.tag = S "link")) = ls.map encLinkX := by
      apply List.filter_eq_self.mpr
      intro e he
      obtain ⟨l, _, rfl⟩ := List.mem_map.mp he
      simp [encLinkX]
    rw [h1, h2]; simp

theorem optIntX_intStr (x : Option Int) : optIntX (x.map intStr) = .ok x := by
  cases x with
  | none => rfl
  | some i =>
    have hne := intStr_ne_nil i
    have hp := pInt_intStr i
    simp only [Option.map]
    cases h : intStr i with
    | nil => exact absurd h hne
    | cons c r =>
      rw [h] at hp
      simp [optIntX, optInt, hp]

def mkX (o : Opts) (d : DMRS) (es : List XMid) : XDmrs :=
  { attrs :=
      (if o.lnk then [(S "cfrom", intStr d.lnk.cfrom), (S "cto", intStr d.lnk.cto)] else []) ++
      optAttr "top" (d.top.map intStr) ++ optAttr "index" (d.index.map intStr) ++
      (if o.lnk then optAttr "surface" d.surface else []) ++
      optAttr "ident" d.identifier,
    children := es ++ d.links.map encLinkX }

/-- DMRX tree round trip; the hypothesis `PredRT` (a predicate survives `<realpred>`/`<gpred>`) is proved for
abstract predicates (`predRT_gpred`) and compared with the real code for every generated predicate. -/
theorem ofXml_toXml (o : Opts) (d : DMRS) (hwf : d.WF) (hx : ExpressibleX d) (hp : ∀ n ∈ d.nodes, PredRT n.pred) :
    ∃ x, toXml o d = .ok x ∧ ofXml x = .ok (viewX o d) := by
  obtain ⟨es, h1, h2, h3⟩ := nodesX_rt o d.nodes hx.1 hp
  obtain ⟨hf1, hf2⟩ := filter_nodes es d.links h3
  have hls := mapMExcept_map decLinkX encLinkX id d.links (fun l hl => decLinkX_encLinkX l (hx.2 l hl))
  simp only [List.map_id] at hls
  have hmk := fun top index lnk s i => mkDMRS_of_wf top index (d.nodes.map (viewNodeX o)) d.links lnk s i hwf
  have hm1 : pInt ['-', '1'] = .ok (-1) := by decide
  refine ⟨mkX o d es, by simp only [toXml, h1]; rfl, ?_⟩
  have ht := optIntX_intStr d.top
  have hi' := optIntX_intStr d.index
  unfold ofXml mkX
  simp only [hf1, hf2, h2, hls]
  obtain ⟨op, ol⟩ := o
  cases ol <;> cases htop : d.top <;> cases hidx : d.index <;> cases hs : d.surface <;> cases hi : d.identifier <;>
    simp only [htop, hidx, Option.map] at ht hi' <;>
    simp (config := { decide := true }) [optAttr, dget, S, ht, hi', decLnkX, pInt_intStr, hm1, hmk, viewX, htop, hidx, hs, hi]
/-! ### DMRS-PENMAN: the renumbering -/

theorem top_mem_mainComponent (d : DMRS) (t : Int) (ht : d.top = some t) : t ∈ mainComponent d := by
  unfold mainComponent
  cases hn : d.nodes with
  | nil => simp [ht]
  | cons n ns =>
    simp only [ht]
    exact (Verif.Sem.bfs_closed _ t).1

/-- the renumbering is injective on the kept identifiers -/
theorem renId_injOn (d : DMRS) (a b : Int)
    (ha : a ∈ (pOrder d).map (·.id)) (hb : b ∈ (pOrder d).map (·.id)) (h : renId d a = renId d b) : a = b := by
  unfold renId at h
  have h' : ((pOrder d).map (·.id)).idxOf a = ((pOrder d).map (·.id)).idxOf b := by omega
  have la := List.idxOf_lt_length_iff.mpr ha
  have lb := List.idxOf_lt_length_iff.mpr hb
  have ea := List.getElem_idxOf la
  have eb := List.getElem_idxOf lb
  rw [← ea, ← eb]
  simp [h']

/-- … onto `10000 … 10000 + k - 1` where `k` is the number of kept nodes -/
theorem renId_range (d : DMRS) (a : Int) (ha : a ∈ (pOrder d).map (·.id)) :
    FIRST_NODE_ID ≤ renId d a ∧ renId d a < FIRST_NODE_ID + ((pOrder d).length : Int) := by
  have la := List.idxOf_lt_length_iff.mpr ha
  simp only [List.length_map] at la
  unfold renId
  constructor <;> omega

/-- in order of first appearance: the `i`-th kept node gets `10000 + i` -/
theorem renId_getElem (d : DMRS) (hnd : ((pOrder d).map (·.id)).Nodup) (i : Nat) (hi : i < (pOrder d).length) :
    renId d ((pOrder d)[i]).id = FIRST_NODE_ID + (i : Int) := by
  unfold renId
  have h := List.Nodup.idxOf_getElem hnd i (by simpa using hi)
  simp only [List.getElem_map] at h
  rw [h]

/-- the top node is the first kept node, so it becomes `10000` -/
theorem renId_top (d : DMRS) (t : Int) (ht : d.top = some t) (hmem : t ∈ d.nodes.map (·.id)) :
    renId d t = FIRST_NODE_ID := by
  obtain ⟨n, hn, hid⟩ := List.mem_map.mp hmem
  have hA : n ∈ d.nodes.filter (fun n => d.top = some n.id) := by
    simp [List.mem_filter, hn, ht, hid]
  cases hAe : d.nodes.filter (fun n => d.top = some n.id) with
  | nil => rw [hAe] at hA; cases hA
  | cons a A =>
    have ha : a ∈ d.nodes.filter (fun n => d.top = some n.id) := by rw [hAe]; simp
    have haid : a.id = t := by
      have := (List.mem_filter.mp ha).2
      simp [ht] at this
      exact this.symm
    have hcomp : a.id ∈ mainComponent d := by rw [haid]; exact top_mem_mainComponent d t ht
    have hp : ∃ r, pOrder d = a :: r := by
      unfold pOrder
      rw [hAe]
      simp only [List.cons_append, List.filter_cons, hcomp, decide_true, if_true]
      exact ⟨_, rfl⟩
    obtain ⟨r, hr⟩ := hp
    unfold renId
    rw [hr]
    simp [haid]

theorem length_filter_split {α : Type} (p : α → Bool) (l : List α) :
    (l.filter p).length + (l.filter (fun x => !p x)).length = l.length := by
  induction l with
  | nil => rfl
  | cons a l ih =>
    cases h : p a <;> simp [h] <;> omega

/-- "for graphs connected from the top": nothing is dropped -/
theorem pOrder_length_of_connected (d : DMRS) (hc : ∀ n ∈ d.nodes, n.id ∈ mainComponent d) :
    (pOrder d).length = d.nodes.length := by
  unfold pOrder
  rw [List.filter_eq_self.mpr]
  · rw [List.length_append]
    have := length_filter_split (fun n => decide (d.top = some n.id)) d.nodes
    simpa using this
  · intro n hn
    rcases List.mem_append.mp hn with h | h
    · simpa using hc n (List.mem_filter.mp h).1
    · simpa using hc n (List.mem_filter.mp h).1
/-! ### surface predicates through `<realpred>` -/

theorem ofNat_add32 : ∀ n < 91, 65 ≤ n → (Char.ofNat (n + 32)).toNat = n + 32 := by decide

theorem lowerC_idem (c : Char) : lowerC (lowerC c) = lowerC c := by
  unfold lowerC
  by_cases h : 65 ≤ c.toNat ∧ c.toNat ≤ 90
  · have := ofNat_add32 c.toNat (by omega) h.1
    simp only [h, and_self, if_true, this]
    split
    · omega
    · rfl
  · simp [h]

theorem lower_idem (s : Str) : lower (lower s) = lower s := by
  unfold lower
  rw [List.map_map]
  apply List.map_congr_left
  intro c _
  exact lowerC_idem c

theorem lower_length (s : Str) : (lower s).length = s.length := by simp [lower]

theorem stripRel_spec (s : Str) : (stripRel s).length ≤ s.length ∧ ((stripRel s).length = s.length → stripRel s = s) := by
  unfold stripRel
  split
  · next h =>
    have h4 : (s.drop (s.length - 4)).length = 4 := by
      have := congrArg List.length h
      rw [lower_length] at this
      simpa [S] using this
    simp only [List.length_drop] at h4
    constructor
    · simp [List.length_take]
    · intro he
      simp only [List.length_take] at he
      omega
  · exact ⟨Nat.le_refl _, fun _ => rfl⟩

theorem stripPred_fixed (s : Str) (h : (stripPred s).length = s.length) : stripPred s = s := by
  unfold stripPred at h ⊢
  simp only at h ⊢
  split at h
  · next hq =>
    exfalso
    have h1 := (stripRel_spec ((s.drop 1).dropLast)).1
    have hne : s ≠ [] := by intro e; simp [e] at hq
    have : ((s.drop 1).dropLast).length < s.length := by
      cases s with
      | nil => exact absurd rfl hne
      | cons a t => simp; omega
    omega
  · split at h
    · next hq =>
      exfalso
      have h1 := (stripRel_spec (s.drop 1)).1
      have hne : s ≠ [] := by intro e; simp [e] at hq
      have : (s.drop 1).length < s.length := by
        cases s with
        | nil => exact absurd rfl hne
        | cons a t => simp
      omega
    · next hq1 hq2 =>
      simp only [hq1, hq2, if_false]
      exact (stripRel_spec s).2 h

theorem norm_fixed (p : Str) (hn : normalizePred p = p) : stripPred p = p ∧ lower p = p := by
  have hl : lower p = p := by
    have : lower (normalizePred p) = normalizePred p := by unfold normalizePred; exact lower_idem _
    rw [hn] at this; exact this
  have hlen : (stripPred p).length = p.length := by
    have := congrArg List.length hn
    unfold normalizePred at this
    rw [lower_length] at this
    exact this
  exact ⟨stripPred_fixed p hlen, hl⟩

theorem splitOn_pieces (c : Char) (s : Str) : ∀ piece ∈ splitOn c s, c ∉ piece ∧ ∀ x ∈ piece, x ∈ s := by
  induction s with
  | nil => intro piece hp; simp [splitOn] at hp; subst hp; simp
  | cons a t ih =>
    intro piece hp
    unfold splitOn at hp
    split at hp
    · rcases List.mem_cons.mp hp with h | h
      · subst h; simp
      · obtain ⟨h1, h2⟩ := ih piece h
        exact ⟨h1, fun x hx => List.mem_cons_of_mem _ (h2 x hx)⟩
    · next hne =>
      cases hsp : splitOn c t with
      | nil =>
        rw [hsp] at hp
        simp [consHead] at hp
        subst hp
        exact ⟨by simp; exact fun e => hne e.symm, by simp⟩
      | cons q qs =>
        rw [hsp] at hp
        simp only [consHead] at hp
        rcases List.mem_cons.mp hp with h | h
        · subst h
          obtain ⟨h1, h2⟩ := ih q (by rw [hsp]; simp)
          refine ⟨?_, ?_⟩
          · intro hm
            rcases List.mem_cons.mp hm with e | e
            · exact hne e.symm
            · exact h1 e
          · intro x hx
            rcases List.mem_cons.mp hx with e | e
            · subst e; simp
            · exact List.mem_cons_of_mem _ (h2 x e)
        · obtain ⟨h1, h2⟩ := ih piece (by rw [hsp]; exact List.mem_cons_of_mem _ h)
          exact ⟨h1, fun x hx => List.mem_cons_of_mem _ (h2 x hx)⟩

theorem splitOn_ne_nil' (c : Char) (s : Str) : splitOn c s ≠ [] := by
  cases s with
  | nil => simp [splitOn]
  | cons a t =>
    unfold splitOn
    split
    · simp
    · cases splitOn c t <;> simp [consHead]

theorem joinWith_splitOn (c : Char) (s : Str) : joinWith c (splitOn c s) = s := by
  induction s with
  | nil => rfl
  | cons a t ih =>
    unfold splitOn
    split
    · next h =>
      subst h
      cases hsp : splitOn a t with
      | nil => exact absurd hsp (splitOn_ne_nil' a t)
      | cons q qs =>
        rw [hsp] at ih
        simp [joinWith, ih]
    · cases hsp : splitOn c t with
      | nil => exact absurd hsp (splitOn_ne_nil' c t)
      | cons q qs =>
        rw [hsp] at ih
        cases qs with
        | nil => simp only [consHead, joinWith] at ih ⊢; rw [ih]
        | cons q2 qs2 => simp only [consHead, joinWith] at ih ⊢; rw [← ih]; simp

theorem lemmaOK_piece (r piece : Str) (hws : r.any isWs = false) (hp : piece ∈ splitOn '_' r) (hne : piece ≠ []) :
    lemmaOK piece = true := by
  obtain ⟨h1, h2⟩ := splitOn_pieces '_' r piece hp
  unfold lemmaOK
  have : piece.any (fun c => isWs c || c = '_') = false := by
    rw [List.any_eq_false]
    intro x hx
    have hx1 : isWs x = false := by
      have := List.any_eq_false.mp hws x (h2 x hx)
      simpa using this
    have hx2 : x ≠ '_' := fun e => h1 (e ▸ hx)
    simp [hx1, hx2]
  cases piece with
  | nil => exact absurd rfl hne
  | cons a t => simp [this]

theorem isPos_lower (pos : Str) (h : isPos pos = true) : ((lower pos).length = 1 && isPos (lower pos)) = true := by
  unfold isPos at h
  match pos, h with
  | [c], h =>
    simp only [lower, List.map_cons, List.map_nil, List.length_cons, List.length_nil, isPos, lowerC_idem]
    simpa using h

theorem predRT_surface (p : Str) (hn : normalizePred p = p) (hs : isSurface p = true) : PredRT p := by
  obtain ⟨hsp, hl⟩ := norm_fixed p hn
  have hss : strictSurface p = true := by unfold isSurface at hs; rw [hsp] at hs; exact hs
  unfold strictSurface at hss
  cases p with
  | nil => simp at hss
  | cons c0 r =>
    have hc0 : c0 = '_' := by
      apply Classical.byContradiction
      intro hc
      split at hss
      · next heq => simp only [List.cons.injEq] at heq; exact hc heq.1
      · simp at hss
    subst hc0
    simp only [Bool.and_eq_true, Bool.not_eq_true'] at hss
    obtain ⟨hws, hparts⟩ := hss
    have hjoin := joinWith_splitOn '_' r
    cases hsplit : splitOn '_' r with
    | nil => rw [hsplit] at hparts; simp at hparts
    | cons l rest1 =>
      cases rest1 with
      | nil => rw [hsplit] at hparts; simp at hparts
      | cons pos rest2 =>
        cases rest2 with
        | nil =>
          rw [hsplit] at hparts hjoin
          simp only [Bool.and_eq_true, Bool.not_eq_true', List.isEmpty_eq_false_iff] at hparts
          obtain ⟨hlne, hpos⟩ := hparts
          have hlok := lemmaOK_piece r l hws (by rw [hsplit]; simp) hlne
          have hposok := isPos_lower pos hpos
          simp only [joinWith] at hjoin
          refine ⟨{ tag := S "realpred", attrs := [(S "lemma", l), (S "pos", pos)], text := none }, ?_, ?_, (by decide : S "realpred" ≠ S "sortinfo")⟩
          · simp [encPredX, hn, hs, splitPred, hsp, hsplit]
          · have hcreate : createPred l pos none = .ok ('_' :: r) := by
              simp [createPred, hlok, hposok, hjoin]
            simp (config := { decide := true }) [decPredX, dget, S, hcreate]
            simpa [S] using hn
        | cons x rest3 =>
          cases rest3 with
          | nil =>
            rw [hsplit] at hparts hjoin
            simp only [Bool.and_eq_true, Bool.not_eq_true', List.isEmpty_eq_false_iff] at hparts
            obtain ⟨⟨hlne, hpos⟩, hxne⟩ := hparts
            have hlok := lemmaOK_piece r l hws (by rw [hsplit]; simp) hlne
            have hxok := lemmaOK_piece r x hws (by rw [hsplit]; simp) hxne
            have hposok := isPos_lower pos hpos
            simp only [joinWith] at hjoin
            have hxe : x.isEmpty = false := by cases x with
              | nil => exact absurd rfl hxne
              | cons _ _ => rfl
            refine ⟨{ tag := S "realpred", attrs := [(S "lemma", l), (S "pos", pos), (S "sense", x)], text := none }, ?_, ?_, (by decide : S "realpred" ≠ S "sortinfo")⟩
            · simp [encPredX, hn, hs, splitPred, hsp, hsplit, hxe]
            · have hcreate : createPred l pos (some x) = .ok ('_' :: r) := by
                simp [createPred, hlok, hxok, hposok, ← hjoin]
              simp (config := { decide := true }) [decPredX, dget, S, hcreate]
              simpa [S] using hn
          | cons y rest4 => rw [hsplit] at hparts; simp at hparts

/-- every normalised, non-empty predicate survives the DMRX predicate element -/
theorem predRT_of_normal (p : Str) (hn : normalizePred p = p) (hne : p ≠ []) : PredRT p := by
  cases hs : isSurface p with
  | true => exact predRT_surface p hn hs
  | false => exact predRT_gpred p hn hne hs
/-! ### re-encoding at tree / dictionary level -/

def SpanOrNone (l : Lnk) : Prop := l = .unspec ∨ ∃ a b, l = .charspan a b

theorem jLnk_view (l : Lnk) (h : SpanOrNone l) :
    (viewLnkJ l).truthy = l.truthy ∧ (l.truthy = true → jLnk (viewLnkJ l) = jLnk l) := by
  rcases h with h | ⟨a, b, h⟩
  · subst h; simp [viewLnkJ, Lnk.truthy]
  · subst h
    cases ht : (Lnk.charspan a b).truthy
    · have hv : viewLnkJ (.charspan a b) = .unspec := by simp [viewLnkJ, ht]
      rw [hv]
      exact ⟨rfl, by simp⟩
    · have hv : viewLnkJ (.charspan a b) = .charspan a b := by simp [viewLnkJ, ht, Lnk.cfrom, Lnk.cto]
      rw [hv]
      exact ⟨ht, fun _ => rfl⟩

theorem nodeToDict_view (o : Opts) (n : Node) (h : SpanOrNone n.lnk) :
    nodeToDict o (viewNodeJ o n) = nodeToDict o n := by
  obtain ⟨h1, h2⟩ := jLnk_view n.lnk h
  obtain ⟨op, ol⟩ := o
  cases op <;> cases ol <;> cases ht : n.lnk.truthy <;>
    simp [nodeToDict, viewNodeJ, Node.sortinfo, h1, ht, h2]

theorem toDict_view (o : Opts) (d : DMRS) (hn : ∀ n ∈ d.nodes, SpanOrNone n.lnk) (hg : SpanOrNone d.lnk) :
    toDict o (viewJ o d) = toDict o d := by
  obtain ⟨h1, h2⟩ := jLnk_view d.lnk hg
  have hnodes : (d.nodes.map (viewNodeJ o)).map (nodeToDict o) = d.nodes.map (nodeToDict o) := by
    rw [List.map_map]
    apply List.map_congr_left
    intro n hnm
    exact nodeToDict_view o n (hn n hnm)
  obtain ⟨op, ol⟩ := o
  cases ol <;> cases ht : d.lnk.truthy <;> cases hi : d.index <;>
    simp [toDict, viewJ, hnodes, h1, ht, h2, hi] <;>
    (split <;> simp_all)

theorem encNodeX_view (o : Opts) (n : Node) : encNodeX o (viewNodeX o n) = encNodeX o n := by
  unfold encNodeX
  have hp : (viewNodeX o n).pred = n.pred := rfl
  rw [hp]
  cases encPredX n.pred with
  | error e => rfl
  | ok pe =>
    obtain ⟨op, ol⟩ := o
    cases op <;> cases ol <;> simp only [viewNodeX, Node.sortinfo, Lnk.cfrom, Lnk.cto, if_true] <;> rfl

theorem mapMExcept_congr {α β : Type} (f g : α → Except Err β) (xs : List α) (h : ∀ x ∈ xs, f x = g x) :
    mapMExcept f xs = mapMExcept g xs := by
  induction xs with
  | nil => rfl
  | cons x xs ih => simp [mapMExcept, h x (by simp), ih (fun y hy => h y (by simp [hy]))]

theorem toXml_view (o : Opts) (d : DMRS) : toXml o (viewX o d) = toXml o d := by
  have hnodes : mapMExcept (encNodeX o) (d.nodes.map (viewNodeX o)) = mapMExcept (encNodeX o) d.nodes := by
    have : ∀ (xs : List Node), mapMExcept (encNodeX o) (xs.map (viewNodeX o)) = mapMExcept (encNodeX o) xs := by
      intro xs
      induction xs with
      | nil => rfl
      | cons x xs ih => simp [mapMExcept, encNodeX_view, ih]
    exact this d.nodes
  obtain ⟨op, ol⟩ := o
  cases ol <;> simp [toXml, viewX, hnodes, Lnk.cfrom, Lnk.cto]
end Verif.C02
