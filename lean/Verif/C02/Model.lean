/-
C02 — DMRS serialisations (SimpleDMRS, DMRX, DMRS-JSON, DMRS-PENMAN): executable model.

Anchors in /repo (state after the `fix:` commits 075a820, 5202cab, 420a408, 19118a7, bcfe60c, b04427e, 32cdf83):
  delphin/dmrs/_dmrs.py        Node.__init__/sortinfo, Link, DMRS.__init__, _normalize_top_and_links
  delphin/codecs/simpledmrs.py _encode* (format strings), _decode_dmrs/_decode_node/_decode_link/
                               _decode_properties/_decode_lnk over the token stream of _SimpleDMRSLexer
  delphin/codecs/dmrx.py       _encode_dmrs/_encode_node/_encode_pred/_encode_link (ElementTree built),
                               _decode_dmrs/_decode_node/_decode_pred/_decode_sortinfo/_decode_link/_decode_lnk
  delphin/codecs/dmrsjson.py   to_dict / from_dict
  delphin/codecs/dmrspenman.py to_triples / from_triples
  delphin/predicate.py         _strip_predicate, normalize, is_surface, split, create
  delphin/lnk.py               via Verif.Common.Codec (Lnk, Lnk.str, Lnk.parse, truthy, cfrom, cto)
  delphin/util.py              _bfs via Verif.Sem.bfs; LookaheadLexer next/peek/accept/expect/choice
  delphin/sembase.py           property_priority

Parameters (identity on the fragments the encoders build, checked by side oracles in harness/c02.py):
`xml.etree` (tostring/fromstring), `json` (dumps/loads), `penman` (encode/decode of a triple list,
order of first source occurrence preserved), and the regex lexer of SimpleDMRS (the model's token
lists are compared with the real lexer's output on every generated text).
Case mapping (`str.upper/lower`) is modelled for ASCII letters only; generators keep property names,
values, types and predicates in the range where Python agrees.
-/
import Verif.Common.Codec
import Verif.Common.Sem
import Verif.Generated.TablesC02

namespace Verif.C02
open Verif.Codec Verif.Py

deriving instance DecidableEq for Except

/-! ### strings -/

def lowerC (c : Char) : Char := if 65 ≤ c.toNat ∧ c.toNat ≤ 90 then Char.ofNat (c.toNat + 32) else c
def upperC (c : Char) : Char := if 97 ≤ c.toNat ∧ c.toNat ≤ 122 then Char.ofNat (c.toNat - 32) else c
/-- `str.lower()` (ASCII). -/
def lower (s : Str) : Str := s.map lowerC
/-- `str.upper()` (ASCII). -/
def upper (s : Str) : Str := s.map upperC
/-- `str.islower()` (ASCII): at least one lower-case letter and no upper-case letter. -/
def isLowerStr (s : Str) : Bool :=
  s.any (fun c => 97 ≤ c.toNat ∧ c.toNat ≤ 122) && !s.any (fun c => 65 ≤ c.toNat ∧ c.toNat ≤ 90)

def S (s : String) : Str := s.toList

/-! ### dict as insertion-ordered association list -/

abbrev Props := List (Str × Str)

def dget {ν : Type} (k : Str) : List (Str × ν) → Option ν
  | [] => none
  | (k', v) :: r => if k' = k then some v else dget k r

/-- `d[k] = v`: update in place, else append. -/
def dset {ν : Type} (k : Str) (v : ν) : List (Str × ν) → List (Str × ν)
  | [] => [(k, v)]
  | (k', v') :: r => if k' = k then (k', v) :: r else (k', v') :: dset k v r

def derase {ν : Type} (k : Str) : List (Str × ν) → List (Str × ν)
  | [] => []
  | (k', v') :: r => if k' = k then r else (k', v') :: derase k r

/-- `dict(pairs)` / a dict comprehension over `pairs`. -/
def pyDict {ν : Type} (ps : List (Str × ν)) : List (Str × ν) :=
  ps.foldl (fun acc p => dset p.1 p.2 acc) []

/-! ### structures (`delphin.dmrs`) -/

structure Node where
  id : Int
  pred : Str
  type : Option Str := none
  props : Props := []
  carg : Option Str := none
  lnk : Lnk := .unspec
  surface : Option Str := none
  base : Option Str := none
deriving DecidableEq, Repr, Inhabited

structure Link where
  start : Int
  stop : Int            -- `end`
  role : Option Str
  post : Option Str     -- `None` only out of DMRX/JSON input without a post
deriving DecidableEq, Repr, Inhabited

structure DMRS where
  top : Option Int
  index : Option Int
  nodes : List Node
  links : List Link
  lnk : Lnk := .unspec
  surface : Option Str := none
  identifier : Option Str := none
deriving DecidableEq, Repr, Inhabited

structure Opts where
  properties : Bool
  lnk : Bool
deriving DecidableEq, Repr

inductive Err where
  | syntax      -- DMRSSyntaxError
  | eof         -- StopIteration out of the token buffer
  | value       -- ValueError (int(), unpacking)
  | key         -- KeyError
  | attr        -- AttributeError
  | index       -- IndexError
  | type        -- TypeError
  | pred        -- PredicateError
  | unmodelled  -- input outside what the model describes
deriving DecidableEq, Repr

def TOP_NODE_ID : Int := Verif.Tables.c02TopNodeId
def FIRST_NODE_ID : Int := Verif.Tables.c02FirstNodeId
def CVARSORT : Str := S Verif.Tables.c02Cvarsort
def EQ_POST : Str := S Verif.Tables.c02EqPost
def RSTR : Str := S Verif.Tables.c02RestrictionRole

/-- `_normalize_top_and_links`: the loop over `links`. -/
def normalizeTop (top : Option Int) : List Link → Option Int × List Link
  | [] => (top, [])
  | l :: ls =>
    if l.start = TOP_NODE_ID then
      normalizeTop (match top with | none => some l.stop | some t => some t) ls
    else
      let r := normalizeTop top ls
      (r.1, l :: r.2)

/-- `DMRS.__init__` (ids already `int`). -/
def mkDMRS (top index : Option Int) (nodes : List Node) (links : List Link)
    (lnk : Lnk) (surface identifier : Option Str) : DMRS :=
  let r := normalizeTop top links
  { top := r.1, index := index, nodes := nodes, links := r.2, lnk := lnk,
    surface := surface, identifier := identifier }

/-- class invariant established by the constructor -/
def DMRS.WF (d : DMRS) : Prop := ∀ l ∈ d.links, l.start ≠ TOP_NODE_ID

/-! ## SimpleDMRS -/

inductive K where
  | lbrace | rbrace | lbracket | rbracket | lparen | rparen | lnk | dq
  | colon | slash | equals | semicolon | arrow | symbol
deriving DecidableEq, Repr

abbrev T := Tok K

def sym (s : Str) : T := ⟨.symbol, s⟩
def tLBRACE : T := ⟨.lbrace, S "{"⟩
def tRBRACE : T := ⟨.rbrace, S "}"⟩
def tLBRACKET : T := ⟨.lbracket, S "["⟩
def tRBRACKET : T := ⟨.rbracket, S "]"⟩
def tLPAREN : T := ⟨.lparen, S "("⟩
def tRPAREN : T := ⟨.rparen, S ")"⟩
def tCOLON : T := ⟨.colon, S ":"⟩
def tSLASH : T := ⟨.slash, S "/"⟩
def tEQUALS : T := ⟨.equals, S "="⟩
def tSEMI : T := ⟨.semicolon, S ";"⟩

/-! ### encoder: text (the format strings) -/

/-- the list `sortinfo` of `_encode_sortinfo`. -/
def sortinfoItems (o : Opts) (n : Node) : List Str :=
  (match n.type with
   | some t => if t ≠ S "u" then [t] else []
   | none => []) ++
  (if o.properties then n.props.map (fun kv => kv.1 ++ '=' :: kv.2) else [])

def encSortinfoText (o : Opts) (n : Node) : Str :=
  let xs := sortinfoItems o n
  if xs.isEmpty then [] else ' ' :: joinSp xs

/-- `_encode_node`. -/
def encNodeText (o : Opts) (n : Node) : Str :=
  intStr n.id ++ S " [" ++ n.pred ++ (if o.lnk then n.lnk.str else []) ++
  (match n.carg with
   | none => []
   | some c => S "(\"" ++ escapeDQ c ++ S "\")") ++
  encSortinfoText o n ++ S "];"

def roleTruthy : Option Str → Bool
  | some (_ :: _) => true
  | _ => false

/-- `'{}'.format(x)` of an optional string (`None` prints as "None"). -/
def fmtOpt : Option Str → Str
  | some s => s
  | none => S "None"

def arrowOf (l : Link) : Str :=
  if roleTruthy l.role || l.post ≠ some EQ_POST then S "->" else S "--"

/-- `_encode_link`. -/
def encLinkText (l : Link) : Str :=
  intStr l.start ++ ':' :: (match l.role with | some r => r | none => []) ++ '/' :: fmtOpt l.post ++
  ' ' :: arrowOf l ++ ' ' :: intStr l.stop ++ [';']

/-- the list `attrs` of `_encode_attrs` before bracketing. -/
def attrItems (o : Opts) (d : DMRS) : List Str :=
  (if o.lnk then
     (if d.lnk.truthy then [d.lnk.str] else []) ++
     (match d.surface with | some s => ['"' :: escapeDQ s ++ ['"']] | none => [])
   else []) ++
  (match d.top with | some t => [S "top=" ++ intStr t] | none => []) ++
  (match d.index with | some t => [S "index=" ++ intStr t] | none => [])

/-- `delim.join(parts)`. -/
def joinStr (delim : Str) : List Str → Str
  | [] => []
  | [p] => p
  | p :: ps => p ++ delim ++ joinStr delim ps

/-- `_encode_dmrs`; `indent = none` is the one-line layout. -/
def encDmrsText (o : Opts) (indent : Option Nat) (d : DMRS) : Str :=
  let delim := match indent with | none => [' '] | some k => '\n' :: List.replicate k ' '
  let stop := match indent with | none => S " }" | some _ => S "\n}"
  let start := match d.identifier with | none => S "dmrs {" | some i => S "dmrs " ++ i ++ S " {"
  let attrs := attrItems o d
  let attrs := if attrs.isEmpty then [] else ['[' :: joinSp attrs ++ [']']]
  joinStr delim ([start] ++ attrs ++ d.nodes.map (encNodeText o) ++ d.links.map encLinkText) ++ stop

/-- `_encode` (`dumps`). -/
def encListText (o : Opts) (indent : Option Nat) (ds : List DMRS) : Str :=
  joinStr (match indent with | none => [' '] | some _ => ['\n']) (ds.map (encDmrsText o indent))

/-! ### encoder: tokens (what the lexer makes of the text above when every printed piece is a
single token of its class — `LexOK` in harness/c02.py; compared with the real lexer per case) -/

def propToks (kv : Str × Str) : List T := [sym kv.1, tEQUALS, sym kv.2]

def typeToks (n : Node) : List T :=
  match n.type with
  | some t => if t ≠ S "u" then [sym t] else []
  | none => []

def lnkToks (l : Lnk) : List T := if l = .unspec then [] else [⟨.lnk, l.str⟩]

def cargToks : Option Str → List T
  | none => []
  | some c => [tLPAREN, ⟨.dq, escapeDQ c⟩, tRPAREN]

def encNodeToks (o : Opts) (n : Node) : List T :=
  [sym (intStr n.id), tLBRACKET, sym n.pred] ++ (if o.lnk then lnkToks n.lnk else []) ++ cargToks n.carg ++
  typeToks n ++ (if o.properties then n.props.flatMap propToks else []) ++ [tRBRACKET, tSEMI]

def roleToks : Option Str → List T
  | some (c :: r) => [sym (c :: r)]
  | _ => []

def encLinkToks (l : Link) : List T :=
  [sym (intStr l.start), tCOLON] ++ roleToks l.role ++
  [tSLASH, sym (fmtOpt l.post), ⟨.arrow, arrowOf l⟩, sym (intStr l.stop), tSEMI]

def attrToks (o : Opts) (d : DMRS) : List T :=
  let inner :=
    (if o.lnk then
       (if d.lnk.truthy then [(⟨.lnk, d.lnk.str⟩ : T)] else []) ++
       (match d.surface with | some s => [(⟨.dq, escapeDQ s⟩ : T)] | none => [])
     else []) ++
    (match d.top with | some t => [sym (S "top"), tEQUALS, sym (intStr t)] | none => []) ++
    (match d.index with | some t => [sym (S "index"), tEQUALS, sym (intStr t)] | none => [])
  if inner.isEmpty then [] else tLBRACKET :: inner ++ [tRBRACKET]

def identToks : Option Str → List T
  | none => []
  | some i => [sym i]

def encDmrsToks (o : Opts) (d : DMRS) : List T :=
  sym (S "dmrs") :: identToks d.identifier ++ tLBRACE :: attrToks o d ++
  d.nodes.flatMap (encNodeToks o) ++ d.links.flatMap encLinkToks ++ [tRBRACE]

/-! ### decoder over tokens -/

/-- `lexer.expect_type(k)`. -/
def expectK (k : K) : List T → Except Err (Str × List T)
  | [] => .error .eof
  | t :: r => if t.kind = k then .ok (t.text, r) else .error .syntax

/-- `lexer.accept_type(k)` (peeking past the end raises StopIteration). -/
def acceptK (k : K) : List T → Except Err (Option Str × List T)
  | [] => .error .eof
  | t :: r => if t.kind = k then .ok (some t.text, r) else .ok (none, t :: r)

def lnkErr : LnkErr → Err
  | .lnkError => .unmodelled
  | .valueError => .value

/-- `_decode_lnk`. -/
def decLnk (ts : List T) : Except Err (Lnk × List T) :=
  match acceptK .lnk ts with
  | .error e => .error e
  | .ok (none, r) => .ok (.unspec, r)
  | .ok (some s, r) =>
    match Lnk.parse s with
    | .ok l => .ok (l, r)
    | .error e => .error (lnkErr e)

/-- `_decode_properties`: `(prop.upper(), val.lower())` until and including `]`. -/
def decProps : List T → Except Err (Props × List T)
  | [] => .error .eof
  | t :: ts =>
    if t.kind = .rbracket then .ok ([], ts)
    else if t.kind ≠ .symbol then .error .syntax
    else match ts with
      | [] => .error .eof
      | e :: ts2 =>
        if e.kind ≠ .equals then .error .syntax
        else match ts2 with
          | [] => .error .eof
          | v :: ts3 =>
            if v.kind ≠ .symbol then .error .syntax
            else match decProps ts3 with
              | .ok (ps, r) => .ok ((upper t.text, lower v.text) :: ps, r)
              | .error err => .error err

/-- `lexer.peek(1)[0]`: an empty buffer raises StopIteration, a buffer of one token IndexError
(`_buffer_fill` reports success, then `buffer[1]`). -/
def peek1Kind : List T → Except Err K
  | _ :: t :: _ => .ok t.kind
  | [_] => .error .index
  | [] => .error .eof

def pInt (s : Str) : Except Err Int :=
  match parseInt s with
  | some i => .ok i
  | none => .error .value

/-- the optional `("carg")`. -/
def decCarg (ts : List T) : Except Err (Option Str × List T) :=
  match acceptK .lparen ts with
  | .error e => .error e
  | .ok (none, r) => .ok (none, r)
  | .ok (some _, r) =>
    match expectK .dq r with
    | .error e => .error e
    | .ok (c, r2) =>
      match expectK .rparen r2 with
      | .error e => .error e
      | .ok (_, r3) => .ok (some (unescapeDQ c), r3)

/-- the node type: `if lexer.peek(1)[0] != EQUALS: nodetype = lexer.accept_type(SYMBOL)`. -/
def decType (ts : List T) : Except Err (Option Str × List T) :=
  match peek1Kind ts with
  | .error e => .error e
  | .ok k => if k ≠ .equals then acceptK .symbol ts else .ok (none, ts)

/-- `_decode_node` (called after `nodeid [`). -/
def decNode (nodeid : Str) (ts : List T) : Except Err (Node × List T) :=
  match expectK .symbol ts with
  | .error e => .error e
  | .ok (pred, r1) =>
    match decLnk r1 with
    | .error e => .error e
    | .ok (lnk, r2) =>
      match decCarg r2 with
      | .error e => .error e
      | .ok (carg, r3) =>
        match decType r3 with
        | .error e => .error e
        | .ok (ty, r4) =>
          match decProps r4 with
          | .error e => .error e
          | .ok (ps, r5) =>
            match expectK .semicolon r5 with
            | .error e => .error e
            | .ok (_, r6) =>
              match pInt nodeid with
              | .error e => .error e
              | .ok i => .ok ({ id := i, pred := pred, type := ty, props := pyDict ps, carg := carg, lnk := lnk }, r6)

/-- `_decode_link` (called after `start :`). -/
def decLink (start : Str) (ts : List T) : Except Err (Link × List T) :=
  match acceptK .symbol ts with
  | .error e => .error e
  | .ok (role, r1) =>
    match expectK .slash r1 with
    | .error e => .error e
    | .ok (_, r2) =>
      match expectK .symbol r2 with
      | .error e => .error e
      | .ok (post, r3) =>
        match expectK .arrow r3 with
        | .error e => .error e
        | .ok (_, r4) =>
          match expectK .symbol r4 with
          | .error e => .error e
          | .ok (stop, r5) =>
            match expectK .semicolon r5 with
            | .error e => .error e
            | .ok (_, r6) =>
              match pInt start with
              | .error e => .error e
              | .ok s =>
                match pInt stop with
                | .error e => .error e
                | .ok t => .ok ({ start := s, stop := t, role := role, post := some post }, r6)

/-- the `while lexer.peek()[0] != RBRACE` loop of `_decode_dmrs` with the closing `expect_type(RBRACE)`;
fuel: every round consumes tokens, `decDmrs` passes the token count plus one (never exhausted). -/
def decItems : Nat → List T → Except Err (List Node × List Link × List T)
  | 0, _ => .error .unmodelled
  | _ + 1, [] => .error .eof
  | fuel + 1, t :: r =>
    if t.kind = .rbrace then .ok ([], [], r)
    else if t.kind ≠ .symbol then .error .syntax
    else match r with
      | [] => .error .eof
      | c :: r2 =>
        if c.kind = .lbracket then
          match decNode t.text r2 with
          | .error e => .error e
          | .ok (n, r3) =>
            match decItems fuel r3 with
            | .error e => .error e
            | .ok (ns, ls, rest) => .ok (n :: ns, ls, rest)
        else if c.kind = .colon then
          match decLink t.text r2 with
          | .error e => .error e
          | .ok (l, r3) =>
            match decItems fuel r3 with
            | .error e => .error e
            | .ok (ns, ls, rest) => .ok (ns, l :: ls, rest)
        else .error .syntax

def optInt : Option Str → Except Err (Option Int)
  | none => .ok none
  | some s => match pInt s with
    | .ok i => .ok (some i)
    | .error e => .error e

/-- the bracketed graph attributes: lnk, surface, TOP/INDEX. -/
def decAttrs (ts : List T) : Except Err ((Lnk × Option Str × Option Str × Option Str) × List T) :=
  match acceptK .lbracket ts with
  | .error e => .error e
  | .ok (none, r) => .ok ((.unspec, none, none, none), r)
  | .ok (some _, r) =>
    match decLnk r with
    | .error e => .error e
    | .ok (lnk, r2) =>
      match acceptK .dq r2 with
      | .error e => .error e
      | .ok (surf, r3) =>
        match decProps r3 with
        | .error e => .error e
        | .ok (ps, r4) =>
          let gp := pyDict ps
          .ok ((lnk, surf.map unescapeDQ, dget (S "TOP") gp, dget (S "INDEX") gp), r4)

/-- `_decode_dmrs`. -/
def decDmrs (ts : List T) : Except Err (DMRS × List T) :=
  match ts with
  | [] => .error .eof
  | t0 :: r0 =>
    if t0.text ≠ S "dmrs" then .error .syntax
    else match acceptK .symbol r0 with
      | .error e => .error e
      | .ok (ident, r1) =>
        match expectK .lbrace r1 with
        | .error e => .error e
        | .ok (_, r2) =>
          match decAttrs r2 with
          | .error e => .error e
          | .ok ((lnk, surf, top, index), r3) =>
            match decItems (r3.length + 1) r3 with
            | .error e => .error e
            | .ok (ns, ls, rest) =>
              match optInt top with
              | .error e => .error e
              | .ok top' =>
                match optInt index with
                | .error e => .error e
                | .ok index' => .ok (mkDMRS top' index' ns ls lnk surf ident, rest)

/-- `_decode` (`loads`): `while lexer.peek(): yield _decode_dmrs(lexer)`; a StopIteration ends the
list silently. -/
def decList : Nat → List T → Except Err (List DMRS)
  | 0, _ => .ok []
  | _ + 1, [] => .ok []
  | fuel + 1, t :: ts =>
    match decDmrs (t :: ts) with
    | .error .eof => .ok []
    | .error e => .error e
    | .ok (d, rest) =>
      match decList fuel rest with
      | .error e => .error e
      | .ok ds => .ok (d :: ds)

def decodeList (ts : List T) : Except Err (List DMRS) := decList ts.length ts

/-! ### what SimpleDMRS keeps -/

/-- F11: type `u` is not written. -/
def dropU : Option Str → Option Str
  | some t => if t = S "u" then none else some t
  | none => none

def viewNodeS (o : Opts) (n : Node) : Node :=
  { id := n.id, pred := n.pred, type := dropU n.type,
    props := if o.properties then n.props else [],
    carg := n.carg, lnk := if o.lnk then n.lnk else .unspec }

def viewS (o : Opts) (d : DMRS) : DMRS :=
  { top := d.top, index := d.index, nodes := d.nodes.map (viewNodeS o), links := d.links,
    lnk := if o.lnk && d.lnk.truthy then d.lnk else .unspec,
    surface := if o.lnk then d.surface else none,
    identifier := d.identifier }

/-! ## predicates (`delphin/predicate.py`) -/

def isWs (c : Char) : Bool :=
  c = ' ' || c = '\t' || c = '\n' || c = '\r' || c = '\x0b' || c = '\x0c' ||
  c = Char.ofNat 0x1c || c = Char.ofNat 0x1d || c = Char.ofNat 0x1e || c = Char.ofNat 0x1f ||
  c = Char.ofNat 0x85 || c = Char.ofNat 0xa0 || c = Char.ofNat 0x3000

/-- `s[-4:].lower() == '_rel'` then `s[:-4]`. -/
def stripRel (s : Str) : Str :=
  if lower (s.drop (s.length - 4)) = S "_rel" then s.take (s.length - 4) else s

/-- `_strip_predicate`. -/
def stripPred (s : Str) : Str :=
  let s1 :=
    if s.head? = some '"' ∧ s.getLast? = some '"' then (s.drop 1).dropLast
    else if s.head? = some '\'' then s.drop 1
    else s
  stripRel s1

/-- `normalize`. -/
def normalizePred (s : Str) : Str := lower (stripPred s)

def isPos (p : Str) : Bool :=
  match p with
  | [c] => (lowerC c) ∈ (Verif.Tables.c02Pos).toList
  | _ => false

/-- group 1 of `_strict_predicate_re` on an already stripped string: `_lemma_pos(_sense)?`. -/
def strictSurface (s : Str) : Bool :=
  match s with
  | '_' :: r =>
    !(r.any isWs) &&
    (match splitOn '_' r with
     | [l, p] => !l.isEmpty && isPos p
     | [l, p, x] => !l.isEmpty && isPos p && !x.isEmpty
     | _ => false)
  | _ => false

/-- `is_surface`. -/
def isSurface (s : Str) : Bool := strictSurface (stripPred s)

/-- `split` on a string for which `is_surface` holds. -/
def splitPred (s : Str) : Except Err (Str × Str × Option Str) :=
  match stripPred s with
  | '_' :: r =>
    (match splitOn '_' r with
     | [l, p] => .ok (l, p, none)
     | [l, p, x] => .ok (l, p, some x)
     | _ => .error .unmodelled)
  | _ => .error .unmodelled

def lemmaOK (s : Str) : Bool := !s.isEmpty && !(s.any (fun c => isWs c || c = '_'))

/-- `create`. -/
def createPred (lemma pos : Str) (sense : Option Str) : Except Err Str :=
  if !lemmaOK lemma then .error .pred
  else if !((lower pos).length = 1 && isPos (lower pos)) then .error .pred
  else match sense with
    | none => .ok ('_' :: lemma ++ '_' :: pos)
    | some x =>
      if !lemmaOK x then .error .pred
      else .ok ('_' :: lemma ++ '_' :: pos ++ '_' :: x)

/-! ## DMRX (the ElementTree the codec builds / reads, three levels deep) -/

structure XLeaf where
  tag : Str
  attrs : List (Str × Str)
  text : Option Str
deriving DecidableEq, Repr

structure XMid where
  tag : Str
  attrs : List (Str × Str)
  children : List XLeaf
deriving DecidableEq, Repr

structure XDmrs where
  attrs : List (Str × Str)
  children : List XMid
deriving DecidableEq, Repr

/-- `Node.sortinfo`. -/
def Node.sortinfo (n : Node) : Props :=
  match n.type with
  | some t => dset CVARSORT t (pyDict n.props)
  | none => pyDict n.props

/-- `_encode_pred`. -/
def encPredX (p : Str) : Except Err XLeaf :=
  let p := normalizePred p
  if isSurface p then
    match splitPred p with
    | .error e => .error e
    | .ok (l, pos, sense) =>
      .ok { tag := S "realpred",
            attrs := [(S "lemma", l), (S "pos", pos)] ++ (match sense with | some x => (if x.isEmpty then [] else [(S "sense", x)]) | none => []),
            text := none }
  else .ok { tag := S "gpred", attrs := [], text := some p }

def optAttr (k : String) : Option Str → List (Str × Str)
  | some v => [(S k, v)]
  | none => []

/-- `_encode_node`. -/
def encNodeX (o : Opts) (n : Node) : Except Err XMid :=
  match encPredX n.pred with
  | .error e => .error e
  | .ok pe =>
    .ok { tag := S "node",
          attrs := [(S "nodeid", intStr n.id)] ++
            (if o.lnk then [(S "cfrom", intStr n.lnk.cfrom), (S "cto", intStr n.lnk.cto)] ++
               optAttr "surface" n.surface ++ optAttr "base" n.base else []) ++
            optAttr "carg" n.carg,
          children := [pe, { tag := S "sortinfo",
                             attrs := if o.properties then pyDict (n.sortinfo.map (fun kv => (lower kv.1, lower kv.2))) else [],
                             text := none }] }

/-- `_encode_link`. -/
def encLinkX (l : Link) : XMid :=
  { tag := S "link", attrs := [(S "from", intStr l.start), (S "to", intStr l.stop)],
    children := [{ tag := S "rargname", attrs := [], text := l.role },
                 { tag := S "post", attrs := [], text := l.post }] }

def mapMExcept {α β} (f : α → Except Err β) : List α → Except Err (List β)
  | [] => .ok []
  | a :: as =>
    match f a with
    | .error e => .error e
    | .ok b =>
      match mapMExcept f as with
      | .error e => .error e
      | .ok bs => .ok (b :: bs)

/-- `_encode_dmrs`. -/
def toXml (o : Opts) (d : DMRS) : Except Err XDmrs :=
  match mapMExcept (encNodeX o) d.nodes with
  | .error e => .error e
  | .ok ns =>
    .ok { attrs :=
            (if o.lnk then [(S "cfrom", intStr d.lnk.cfrom), (S "cto", intStr d.lnk.cto)] else []) ++
            optAttr "top" (d.top.map intStr) ++ optAttr "index" (d.index.map intStr) ++
            (if o.lnk then optAttr "surface" d.surface else []) ++
            optAttr "ident" d.identifier,
          children := ns ++ d.links.map encLinkX }

/-- an ElementTree writes empty text as no text: `<rargname />` reads back as `None`. -/
def xmlText : Option Str → Option Str
  | some [] => none
  | t => t

/-- `_decode_lnk`: `Lnk.charspan(elem.get('cfrom','-1'), elem.get('cto','-1'))`. -/
def decLnkX (attrs : List (Str × Str)) : Except Err Lnk :=
  match pInt ((dget (S "cfrom") attrs).getD (S "-1")), pInt ((dget (S "cto") attrs).getD (S "-1")) with
  | .ok a, .ok b => .ok (.charspan a b)
  | .error e, _ => .error e
  | _, .error e => .error e

/-- `_decode_pred`. -/
def decPredX (e : XLeaf) : Except Err Str :=
  if e.tag = S "gpred" then
    match xmlText e.text with
    | some t => .ok (normalizePred t)
    | none => .error .attr
  else if e.tag = S "realpred" then
    match dget (S "lemma") e.attrs, dget (S "pos") e.attrs with
    | some l, some p =>
      (match createPred l p (dget (S "sense") e.attrs) with
       | .ok s => .ok (normalizePred s)
       | .error err => .error err)
    | _, _ => .error .type
  else .error .unmodelled

/-- `_decode_node`. -/
def decNodeX (e : XMid) : Except Err Node :=
  match e.children.find? (fun c => c.tag = S "sortinfo"), e.children.head? with
  | some si, some pe =>
    let sortinfo := pyDict (si.attrs.map (fun kv => ((if kv.1 ≠ CVARSORT then upper kv.1 else kv.1), lower kv.2)))
    let ty := (dget CVARSORT sortinfo).map lower
    let props := derase CVARSORT sortinfo
    match dget (S "nodeid") e.attrs with
    | none => .error .type
    | some ids =>
      match pInt ids, decPredX pe, decLnkX e.attrs with
      | .ok i, .ok p, .ok l =>
        .ok { id := i, pred := p, type := ty, props := props, lnk := l,
              surface := dget (S "surface") e.attrs, base := dget (S "base") e.attrs,
              carg := dget (S "carg") e.attrs }
      | .error err, _, _ => .error err
      | _, .error err, _ => .error err
      | _, _, .error err => .error err
  | _, _ => .error .attr

/-- `_decode_link`. -/
def decLinkX (e : XMid) : Except Err Link :=
  match dget (S "from") e.attrs, dget (S "to") e.attrs with
  | some a, some b =>
    (match pInt a, pInt b with
     | .ok s, .ok t =>
       .ok { start := s, stop := t,
             role := (e.children.find? (fun c => c.tag = S "rargname")).bind (fun c => xmlText c.text),
             post := (e.children.find? (fun c => c.tag = S "post")).bind (fun c => xmlText c.text) }
     | .error err, _ => .error err
     | _, .error err => .error err)
  | _, _ => .error .type

/-- `DMRS(top=...)` with a string: `if top: top = int(top)`; an empty string stays a string. -/
def optIntX : Option Str → Except Err (Option Int)
  | none => .ok none
  | some [] => .error .unmodelled
  | some s => optInt (some s)

/-- `_decode_dmrs`. -/
def ofXml (x : XDmrs) : Except Err DMRS :=
  match mapMExcept decNodeX (x.children.filter (fun c => c.tag = S "node")),
        mapMExcept decLinkX (x.children.filter (fun c => c.tag = S "link")),
        decLnkX x.attrs with
  | .ok ns, .ok ls, .ok lnk =>
    (match optIntX (dget (S "top") x.attrs), optIntX (dget (S "index") x.attrs) with
     | .ok top, .ok index =>
       .ok (mkDMRS top index ns ls lnk (dget (S "surface") x.attrs) (dget (S "ident") x.attrs))
     | .error e, _ => .error e
     | _, .error e => .error e)
  | .error e, _, _ => .error e
  | _, .error e, _ => .error e
  | _, _, .error e => .error e

/-- what DMRX keeps. -/
def viewNodeX (o : Opts) (n : Node) : Node :=
  { id := n.id, pred := n.pred,
    type := if o.properties then n.type else none,
    props := if o.properties then n.props else [],
    carg := n.carg,
    lnk := if o.lnk then .charspan n.lnk.cfrom n.lnk.cto else .charspan (-1) (-1),
    surface := if o.lnk then n.surface else none,
    base := if o.lnk then n.base else none }

def viewX (o : Opts) (d : DMRS) : DMRS :=
  { top := d.top, index := d.index, nodes := d.nodes.map (viewNodeX o), links := d.links,
    lnk := if o.lnk then .charspan d.lnk.cfrom d.lnk.cto else .charspan (-1) (-1),
    surface := if o.lnk then d.surface else none,
    identifier := d.identifier }

/-! ## DMRS-JSON -/

inductive JV where
  | null
  | int (i : Int)
  | str (s : Str)
  | arr (xs : List JV)
  | obj (kvs : List (Str × JV))
deriving Repr, Inhabited

def jOptStr : Option Str → JV
  | some s => .str s
  | none => .null

def jLnk (l : Lnk) : JV := .obj [(S "from", .int l.cfrom), (S "to", .int l.cto)]

def optField (k : String) (v : Option JV) : List (Str × JV) :=
  match v with
  | some j => [(S k, j)]
  | none => []

/-- the node part of `to_dict`. -/
def nodeToDict (o : Opts) (n : Node) : JV :=
  .obj ([(S "nodeid", .int n.id), (S "predicate", .str n.pred)] ++
    (if o.properties && !n.sortinfo.isEmpty then [(S "sortinfo", .obj (n.sortinfo.map (fun kv => (kv.1, JV.str kv.2))))] else []) ++
    optField "carg" (n.carg.map .str) ++
    (if o.lnk then
       (if n.lnk.truthy then [(S "lnk", jLnk n.lnk)] else []) ++
       optField "surface" (n.surface.map .str) ++ optField "base" (n.base.map .str)
     else []))

def linkToDict (l : Link) : JV :=
  .obj [(S "from", .int l.start), (S "to", .int l.stop), (S "rargname", jOptStr l.role), (S "post", jOptStr l.post)]

/-- `to_dict`. -/
def toDict (o : Opts) (d : DMRS) : JV :=
  .obj ([(S "nodes", .arr (d.nodes.map (nodeToDict o))), (S "links", .arr (d.links.map linkToDict))] ++
    optField "top" (d.top.map .int) ++
    (match d.index with | some i => (if i ≠ 0 then [(S "index", JV.int i)] else []) | none => []) ++
    (if o.lnk then
       (if d.lnk.truthy then [(S "lnk", jLnk d.lnk)] else []) ++ optField "surface" (d.surface.map .str)
     else []) ++
    optField "identifier" (d.identifier.map .str))

/-- `x.get(k)` where a missing key and JSON null both give `None`; anything but a string is outside the model. -/
def getOptStr (k : String) (kvs : List (Str × JV)) : Except Err (Option Str) :=
  match dget (S k) kvs with
  | none => .ok none
  | some .null => .ok none
  | some (.str s) => .ok (some s)
  | some _ => .error .unmodelled

def getOptInt (k : String) (kvs : List (Str × JV)) : Except Err (Option Int) :=
  match dget (S k) kvs with
  | none => .ok none
  | some .null => .ok none
  | some (.int i) => .ok (some i)
  | some _ => .error .unmodelled

/-- `_lnk`. -/
def lnkOfDict (kvs : List (Str × JV)) : Except Err Lnk :=
  match dget (S "lnk") kvs with
  | none => .ok .unspec
  | some .null => .ok .unspec
  | some (.obj l) =>
    (match dget (S "from") l, dget (S "to") l with
     | some (.int a), some (.int b) => .ok (.charspan a b)
     | none, _ => .error .key
     | _, none => .error .key
     | _, _ => .error .unmodelled)
  | some _ => .error .type

def strVals : List (Str × JV) → Except Err Props
  | [] => .ok []
  | (k, .str v) :: r => (match strVals r with | .ok ps => .ok ((k, v) :: ps) | .error e => .error e)
  | _ => .error .unmodelled

def nodeOfDict (j : JV) : Except Err Node :=
  match j with
  | .obj kvs =>
    let si : Except Err Props :=
      match dget (S "sortinfo") kvs with
      | none => .ok []
      | some (.obj s) => strVals s
      | some _ => .error .unmodelled
    (match si with
     | .error e => .error e
     | .ok sortinfo =>
       let ty := dget CVARSORT sortinfo
       let props := derase CVARSORT sortinfo
       match dget (S "nodeid") kvs, dget (S "predicate") kvs with
       | some (.int i), some (.str p) =>
         (match getOptStr "carg" kvs, lnkOfDict kvs, getOptStr "surface" kvs, getOptStr "base" kvs with
          | .ok carg, .ok lnk, .ok surf, .ok base =>
            .ok { id := i, pred := p, type := ty, props := props, carg := carg, lnk := lnk, surface := surf, base := base }
          | .error e, _, _, _ => .error e
          | _, .error e, _, _ => .error e
          | _, _, .error e, _ => .error e
          | _, _, _, .error e => .error e)
       | none, _ => .error .key
       | _, none => .error .key
       | _, _ => .error .unmodelled)
  | _ => .error .unmodelled

def linkOfDict (j : JV) : Except Err Link :=
  match j with
  | .obj kvs =>
    (match dget (S "from") kvs, dget (S "to") kvs with
     | some (.int a), some (.int b) =>
       (match getOptStr "rargname" kvs, getOptStr "post" kvs with
        | .ok r, .ok p => .ok { start := a, stop := b, role := r, post := p }
        | .error e, _ => .error e
        | _, .error e => .error e)
     | none, _ => .error .key
     | _, none => .error .key
     | _, _ => .error .unmodelled)
  | _ => .error .unmodelled

def getArr (k : String) (kvs : List (Str × JV)) : Except Err (List JV) :=
  match dget (S k) kvs with
  | none => .ok []
  | some (.arr xs) => .ok xs
  | some _ => .error .unmodelled

/-- `from_dict`. -/
def fromDict (j : JV) : Except Err DMRS :=
  match j with
  | .obj kvs =>
    (match getArr "nodes" kvs, getArr "links" kvs with
     | .ok njs, .ok ljs =>
       (match mapMExcept nodeOfDict njs, mapMExcept linkOfDict ljs with
        | .ok ns, .ok ls =>
          (match getOptInt "top" kvs, getOptInt "index" kvs, lnkOfDict kvs, getOptStr "surface" kvs, getOptStr "identifier" kvs with
           | .ok top, .ok index, .ok lnk, .ok surf, .ok ident => .ok (mkDMRS top index ns ls lnk surf ident)
           | .error e, _, _, _, _ => .error e
           | _, .error e, _, _, _ => .error e
           | _, _, .error e, _, _ => .error e
           | _, _, _, .error e, _ => .error e
           | _, _, _, _, .error e => .error e)
        | .error e, _ => .error e
        | _, .error e => .error e)
     | .error e, _ => .error e
     | _, .error e => .error e)
  | _ => .error .unmodelled

/-- what the JSON form keeps of an alignment: `{'from': cfrom, 'to': cto}` when truthy. -/
def viewLnkJ (l : Lnk) : Lnk := if l.truthy then .charspan l.cfrom l.cto else .unspec

def viewNodeJ (o : Opts) (n : Node) : Node :=
  { id := n.id, pred := n.pred,
    type := if o.properties then n.type else none,
    props := if o.properties then n.props else [],
    carg := n.carg,
    lnk := if o.lnk then viewLnkJ n.lnk else .unspec,
    surface := if o.lnk then n.surface else none,
    base := if o.lnk then n.base else none }

def viewJ (o : Opts) (d : DMRS) : DMRS :=
  { top := d.top,
    index := (match d.index with | some i => (if i ≠ 0 then some i else none) | none => none),
    nodes := d.nodes.map (viewNodeJ o), links := d.links,
    lnk := if o.lnk then viewLnkJ d.lnk else .unspec,
    surface := if o.lnk then d.surface else none,
    identifier := d.identifier }

/-! ## DMRS-PENMAN -/

abbrev Triple := Str × Str × Str

def linkEdges (d : DMRS) : List (Int × Int) := d.links.map (fun l => (l.start, l.stop))

/-- `_bfs(g, start=d.top)` as a membership test (`g` has every node id as a key). -/
def mainComponent (d : DMRS) : List Int :=
  match d.nodes with
  | [] => (match d.top with | some t => [t] | none => [])
  | n0 :: _ =>
    let start := match d.top with | some t => t | none => n0.id
    Verif.Sem.bfs (Verif.Sem.symm (linkEdges d)) start

/-- `d.is_quantifier(id)`. -/
def isQuantifier (d : DMRS) (id : Int) : Bool :=
  d.links.any (fun l => l.start = id && l.role = some RSTR)

def typeTruthy : Option Str → Bool
  | some (_ :: _) => true
  | _ => false

/-- `while var in predicates: var += '_'` (fix 32cdf83); the loop ends after at most `len(predicates)` rounds
(the candidates get longer and longer), the model runs it with that fuel plus one (`freshen_not_mem`). -/
def freshen (preds : List Str) : Nat → Str → Str
  | 0, v => v
  | f + 1, v => if v ∈ preds then freshen preds f (v ++ ['_']) else v

/-- `'q' + str(i)` for a quantifier, else `(type or '_') + str(i)` (1-based position). -/
def baseVar (d : DMRS) (i : Nat) (n : Node) : Str :=
  if isQuantifier d n.id then 'q' :: natStr i
  else (match n.type with | some (c :: r) => c :: r | _ => ['_']) ++ natStr i

/-- the variable of the `i`-th node: `baseVar`, then underscores appended until it is not the predicate of any
node of the graph. -/
def varName (d : DMRS) (i : Nat) (n : Node) : Str :=
  freshen (d.nodes.map (·.pred)) (d.nodes.length + 1) (baseVar d i n)

def enumFrom1 {α} : Nat → List α → List (Nat × α)
  | _, [] => []
  | i, a :: as => (i, a) :: enumFrom1 (i + 1) as

/-- `idmap` (later duplicates of an id overwrite). -/
def idMap (d : DMRS) : List (Int × Str) :=
  (enumFrom1 1 d.nodes).foldl (fun acc p =>
    let k := p.2.id
    let v := varName d p.1 p.2
    if acc.any (fun q => q.1 = k) then acc.map (fun q => if q.1 = k then (k, v) else q) else acc ++ [(k, v)]) []

def idGet (m : List (Int × Str)) (k : Int) : Option Str := (m.find? (fun q => q.1 = k)).map (·.2)

/-- `property_priority` -/
def propPriority (k : Str) : Nat × Str :=
  let u := upper k
  let idx := (Verif.Tables.c02CommonProperties.map S).findIdx (fun p => p = u)
  (idx, k)

def strLt : Str → Str → Bool
  | [], [] => false
  | [], _ :: _ => true
  | _ :: _, [] => false
  | a :: as, b :: bs => if a.toNat < b.toNat then true else if a.toNat > b.toNat then false else strLt as bs

def keyLe (a b : Nat × Str) : Bool := a.1 < b.1 || (a.1 = b.1 && !(strLt b.2 a.2))

def insertSorted (x : Str × Str) : Props → Props
  | [] => [x]
  | y :: ys => if keyLe (propPriority y.1) (propPriority x.1) then y :: insertSorted x ys else x :: y :: ys

/-- `sorted(node.properties, key=property_priority)` (stable). -/
def sortProps (ps : Props) : Props := ps.foldl (fun acc x => insertSorted x acc) []

def nodeTriples (o : Opts) (v : Str) (n : Node) : List Triple :=
  [(v, S ":instance", n.pred)] ++
  (if o.lnk && n.lnk.truthy then [(v, S ":lnk", '"' :: n.lnk.str ++ ['"'])] else []) ++
  (match n.carg with | some c => [(v, S ":carg", '"' :: escapeDQ c ++ ['"'])] | none => []) ++
  (match n.type with | some (c :: r) => [(v, ':' :: CVARSORT, c :: r)] | _ => []) ++
  (if o.properties then (sortProps (pyDict n.props)).map (fun kv => (v, ':' :: lower kv.1, kv.2)) else [])

/-- `to_triples`. -/
def toTriples (o : Opts) (d : DMRS) : Except Err (List Triple) :=
  let ids := d.nodes.map (·.id)
  if d.links.any (fun l => l.start ∉ ids || l.stop ∉ ids) then .error .key
  else
    let comp := mainComponent d
    let m := idMap d
    let nodes := d.nodes.filter (fun n => d.top = some n.id) ++ d.nodes.filter (fun n => d.top ≠ some n.id)
    let nts := nodes.flatMap (fun n =>
      if n.id ∈ comp then (match idGet m n.id with | some v => nodeTriples o v n | none => []) else [])
    let inl := d.links.filter (fun l => l.start ∈ comp && l.stop ∈ comp)
    if inl.any (fun l => l.role.isNone) then .error .attr
    else
      .ok (nts ++ inl.filterMap (fun l =>
        match idGet m l.start, idGet m l.stop, l.role with
        | some s, some t, some r => some (s, ':' :: upper r ++ '-' :: fmtOpt l.post, t)
        | _, _, _ => none))

/-- the per-variable record `nd[src]`. -/
structure PNode where
  var : Str
  pred : Option Str := none
  lnk : Lnk := .unspec
  type : Option Str := none
  props : Props := []
  carg : Option Str := none
deriving Repr

structure PState where
  top : Option Str := none
  nodes : List PNode := []                       -- in order of first appearance (`nids` + `nd`)
  edges : List (Str × Str × Str × Str) := []
deriving Repr

def lstripColon : Str → Str
  | ':' :: r => lstripColon r
  | s => s

def stripChars (cs : List Char) (s : Str) : Str :=
  ((s.dropWhile (· ∈ cs)).reverse.dropWhile (· ∈ cs)).reverse

/-- `rel.rsplit('-', 1)` into exactly two parts. -/
def rsplitDash (s : Str) : Option (Str × Str) :=
  let r := s.reverse
  if '-' ∈ r then
    some ((r.dropWhile (· ≠ '-')).drop 1 |>.reverse, (r.takeWhile (· ≠ '-')).reverse)
  else none

def updNode (v : Str) (f : PNode → PNode) : List PNode → List PNode
  | [] => []
  | n :: ns => if n.var = v then f n :: ns else n :: updNode v f ns

/-- one round of the `for src, rel, tgt in triples` loop of `from_triples`. -/
def stepTriple (st : PState) (t : Triple) : Except Err PState :=
  let src := t.1
  let rel := lstripColon t.2.1
  let tgt := t.2.2
  let st := if st.nodes.any (fun n => n.var = src) then st
            else { st with top := (match st.top with | none => some src | some x => some x),
                           nodes := st.nodes ++ [{ var := src }] }
  if rel = S "instance" then .ok { st with nodes := updNode src (fun n => { n with pred := some tgt }) st.nodes }
  else if rel = S "lnk" then
    match splitOn ':' (stripChars ['"', '<', '>'] tgt) with
    | [a, b] =>
      (match parseInt a, parseInt b with
       | some x, some y => .ok { st with nodes := updNode src (fun n => { n with lnk := .charspan x y }) st.nodes }
       | _, _ => .error .value)
    | _ => .error .value
  else if rel = S "carg" then
    match tgt with
    | [] => .error .index
    | c :: _ =>
      let v := if c = '"' ∧ tgt.getLast? = some '"' then unescapeDQ ((tgt.drop 1).dropLast) else tgt
      .ok { st with nodes := updNode src (fun n => { n with carg := some v }) st.nodes }
  else if rel = CVARSORT then .ok { st with nodes := updNode src (fun n => { n with type := some tgt }) st.nodes }
  else if isLowerStr rel then
    .ok { st with nodes := updNode src (fun n => { n with props := dset (upper rel) tgt n.props }) st.nodes }
  else
    match rsplitDash rel with
    | some (r, p) => .ok { st with edges := st.edges ++ [(src, tgt, r, p)] }
    | none => .error .value

def foldTriples : PState → List Triple → Except Err PState
  | st, [] => .ok st
  | st, t :: ts =>
    match stepTriple st t with
    | .error e => .error e
    | .ok st' => foldTriples st' ts

def indexOfVar (v : Str) : List PNode → Option Nat
  | [] => none
  | n :: ns => if n.var = v then some 0 else (indexOfVar v ns).map (· + 1)

/-- `from_triples`. -/
def fromTriples (ts : List Triple) : Except Err DMRS :=
  match foldTriples {} ts with
  | .error e => .error e
  | .ok st =>
    let nid (v : Str) : Option Int := (indexOfVar v st.nodes).map (fun i => FIRST_NODE_ID + (i : Int))
    let nodes := (enumFrom1 0 st.nodes).map (fun p =>
      ({ id := FIRST_NODE_ID + (p.1 : Int), pred := p.2.pred.getD [], type := p.2.type, props := p.2.props,
         carg := p.2.carg, lnk := p.2.lnk } : Node))
    if st.nodes.any (fun n => n.pred.isNone) then .error .unmodelled   -- a Node with predicate None
    else
    match mapMExcept (fun (e : Str × Str × Str × Str) =>
        match nid e.1, nid e.2.1 with
        | some s, some t => .ok ({ start := s, stop := t, role := some e.2.2.1, post := some e.2.2.2 } : Link)
        | _, _ => .error .key) st.edges with
    | .error e => .error e
    | .ok links =>
      match st.top.bind nid with
      | none => .error .key
      | some top => .ok (mkDMRS (some top) none nodes links .unspec none none)


/-- what DMRS-PENMAN keeps: the part connected to the top, nodes in the order top-first, renumbered from
`FIRST_NODE_ID`; no index, no surface/base strings, no graph-level lnk/surface/identifier. -/
def pOrder (d : DMRS) : List Node :=
  (d.nodes.filter (fun n => d.top = some n.id) ++ d.nodes.filter (fun n => d.top ≠ some n.id)).filter
    (fun n => n.id ∈ mainComponent d)

/-- the documented renumbering: position in order of first appearance, from 10000. -/
def renId (d : DMRS) (i : Int) : Int := FIRST_NODE_ID + (((pOrder d).map (·.id)).idxOf i : Nat)

def viewNodeP (o : Opts) (d : DMRS) (n : Node) : Node :=
  { id := renId d n.id, pred := n.pred,
    type := (match n.type with | some (c :: r) => some (c :: r) | _ => none),
    props := if o.properties then sortProps n.props else [],
    carg := n.carg,
    lnk := if o.lnk && n.lnk.truthy then n.lnk else .unspec }

def viewP (o : Opts) (d : DMRS) : DMRS :=
  { top := d.top.map (renId d), index := none,
    nodes := (pOrder d).map (viewNodeP o d),
    links := (d.links.filter (fun l => l.start ∈ mainComponent d && l.stop ∈ mainComponent d)).map
      (fun l => { l with start := renId d l.start, stop := renId d l.stop }),
    lnk := .unspec, surface := none, identifier := none }

/-! ## expressibility predicates (hypotheses of the round-trip theorems; `harness/c02.py` has the same
predicates in Python and generates inside and outside of them) -/

/-- a Python dict: keys pairwise different. -/
def KeysNodup (ps : Props) : Prop := (ps.map (·.1)).Nodup

/-- SimpleDMRS, token level: names are written as they are and read with `.upper()`, values with `.lower()`. -/
structure NodeOKS (n : Node) : Prop where
  keys : KeysNodup n.props
  upperKeys : ∀ kv ∈ n.props, upper kv.1 = kv.1
  lowerVals : ∀ kv ∈ n.props, lower kv.2 = kv.2
  typeNe : n.type ≠ some []

structure LinkOKS (l : Link) : Prop where
  roleNe : l.role ≠ some []
  post : l.post ≠ none

def ExpressibleSD (d : DMRS) : Prop := (∀ n ∈ d.nodes, NodeOKS n) ∧ (∀ l ∈ d.links, LinkOKS l)

/-- DMRX: predicate in normal form, names survive `.lower()` then `.upper()`, values and type are lower-case. -/
structure NodeOKX (n : Node) : Prop where
  predNorm : normalizePred n.pred = n.pred
  predNe : n.pred ≠ []
  keys : (n.props.map (fun kv => lower kv.1)).Nodup
  keyRT : ∀ kv ∈ n.props, upper (lower kv.1) = kv.1
  noCv : ∀ kv ∈ n.props, lower kv.1 ≠ CVARSORT
  lowerVals : ∀ kv ∈ n.props, lower kv.2 = kv.2
  lowerType : ∀ t, n.type = some t → lower t = t

structure LinkOKX (l : Link) : Prop where
  roleNe : l.role ≠ some []
  postNe : l.post ≠ some []

def ExpressibleX (d : DMRS) : Prop := (∀ n ∈ d.nodes, NodeOKX n) ∧ (∀ l ∈ d.links, LinkOKX l)

/-- DMRS-JSON: only the reserved name `cvarsort` is excluded. -/
structure NodeOKJ (n : Node) : Prop where
  keys : KeysNodup n.props
  noCv : ∀ kv ∈ n.props, kv.1 ≠ CVARSORT

def ExpressibleJ (d : DMRS) : Prop := ∀ n ∈ d.nodes, NodeOKJ n

/-- DMRS-PENMAN. -/
structure NodeOKP (n : Node) : Prop where
  keys : (n.props.map (fun kv => lower kv.1)).Nodup
  keyRT : ∀ kv ∈ n.props, upper (lower kv.1) = kv.1
  keyLower : ∀ kv ∈ n.props, isLowerStr (lower kv.1) = true
  keyFree : ∀ kv ∈ n.props, lower kv.1 ≠ S "instance" ∧ lower kv.1 ≠ S "lnk" ∧ lower kv.1 ≠ S "carg" ∧
              lower kv.1 ≠ CVARSORT ∧ (lower kv.1).head? ≠ some ':'
  lnkSpan : n.lnk = .unspec ∨ ∃ a b, n.lnk = .charspan a b

structure LinkOKP (l : Link) : Prop where
  role : ∃ r, l.role = some r ∧ upper r = r ∧ r.head? ≠ some ':'
  post : ∃ p, l.post = some p ∧ '-' ∉ p
  notLower : ∀ r p, l.role = some r → l.post = some p → isLowerStr (r ++ '-' :: p) = false

structure ExpressibleP (d : DMRS) : Prop where
  nodes : ∀ n ∈ d.nodes, NodeOKP n
  links : ∀ l ∈ d.links, LinkOKP l
  ids : (d.nodes.map (·.id)).Nodup
  ends : ∀ l ∈ d.links, l.start ∈ d.nodes.map (·.id) ∧ l.stop ∈ d.nodes.map (·.id)
  top : ∃ t, d.top = some t ∧ t ∈ d.nodes.map (·.id)
  vars : ((idMap d).map (·.2)).Nodup

end Verif.C02
