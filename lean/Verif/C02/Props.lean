/-
C02 — "DMRS serializations are lossless and stable (SimpleDMRS, DMRX, JSON, PENMAN)": property theorems.

All statements are about the model `Verif.C02.Model` (tied to /repo by the correspondence run of
harness/c02.py).  Proofs are in `Verif.C02.Lemmas`; this file states the clauses.
-/
import Verif.C02.Model
import Verif.C02.Lemmas
import Verif.C02.PLemmas
import Verif.C02.LexLemmas
import Verif.C02.TextLemmas
import Verif.C02.XText
import Verif.C02.VarLemmas

namespace Verif.C02
open Verif.Codec Verif.Py

/-! ## SimpleDMRS -/

/-- "For every DMRS, decoding its SimpleDMRS … encoding yields the same node identifiers, predicates,
node types, properties, constants, surface alignments, links (start, end, role, post) and top/index":
token-level round trip with an arbitrary remainder `rest`, for every option setting.  `viewS` is the
identity on all these fields except that (a) suppressed information is removed (next theorems) and
(b) a node type `u` is read back as `None` (known finding F11, `dropU`).

FULL STATEMENT (not provable, F11): `decDmrs (encDmrsToks o d ++ rest) = .ok (keptS o d, rest)` for every
expressible `d`; the missing hypothesis is `NoTypeU d` — see `simpledmrs_roundtrip_partial` and
`simpledmrs_cex_type_u`. -/
theorem simpledmrs_roundtrip_view (o : Opts) (d : DMRS) (hwf : d.WF) (hx : ExpressibleSD d) (rest : List T) :
    decDmrs (encDmrsToks o d ++ rest) = .ok (viewS o d, rest) :=
  decDmrs_encDmrsToks o d hwf hx rest

/-- no node has the type `u` -/
def NoTypeU (d : DMRS) : Prop := ∀ n ∈ d.nodes, n.type ≠ some (S "u")

/-- what the property promises to keep under the options `o`: every listed field unchanged; only the
suppressed information removed (node/graph surface strings and base forms are not part of SimpleDMRS). -/
def keptNodeS (o : Opts) (n : Node) : Node :=
  { id := n.id, pred := n.pred, type := n.type, props := if o.properties then n.props else [],
    carg := n.carg, lnk := if o.lnk then n.lnk else .unspec }

def keptS (o : Opts) (d : DMRS) : DMRS :=
  { top := d.top, index := d.index, nodes := d.nodes.map (keptNodeS o), links := d.links,
    lnk := if o.lnk && d.lnk.truthy then d.lnk else .unspec,
    surface := if o.lnk then d.surface else none, identifier := d.identifier }

/-- the main clause for SimpleDMRS under the hypothesis forced by F11 -/
theorem simpledmrs_roundtrip_partial (o : Opts) (d : DMRS) (hwf : d.WF) (hx : ExpressibleSD d)
    (hu : NoTypeU d) (rest : List T) :
    decDmrs (encDmrsToks o d ++ rest) = .ok (keptS o d, rest) := by
  rw [decDmrs_encDmrsToks o d hwf hx rest]
  have : d.nodes.map (viewNodeS o) = d.nodes.map (keptNodeS o) := by
    apply List.map_congr_left
    intro n hn
    have := hu n hn
    unfold viewNodeS keptNodeS dropU
    cases hty : n.type with
    | none => rfl
    | some t =>
      have hne : t ≠ S "u" := by intro e; apply this; rw [hty, e]
      simp [hne]
  simp [viewS, keptS, this]

/-- the witness of F11: `Node(10000, '_x_n_1', 'u')` -/
def dTypeU : DMRS :=
  { top := some 10000, index := none, nodes := [{ id := 10000, pred := S "_x_n_1", type := some (S "u") }], links := [] }

example : dTypeU.WF := by intro l hl; cases hl
example : ExpressibleSD dTypeU := by
  refine ⟨?_, by intro l hl; cases hl⟩
  intro n hn
  simp [dTypeU] at hn
  subst hn
  exact ⟨by simp [KeysNodup], by simp, by simp, by decide⟩

def typesOf : Except Err (DMRS × List T) → List (Option Str)
  | .ok (d, _) => d.nodes.map (fun n => n.type)
  | .error _ => []

/-- F11 (still present): the node type `u` is not written, so it is read back as `None`. -/
theorem simpledmrs_cex_type_u :
    decDmrs (encDmrsToks ⟨true, true⟩ dTypeU) ≠ .ok (keptS ⟨true, true⟩ dTypeU, []) ∧
    (match decDmrs (encDmrsToks ⟨true, true⟩ dTypeU) with
     | .ok (d', _) => d'.nodes.map (·.type) = [none]
     | .error _ => False) := by
  have h := decDmrs_encDmrsToks ⟨true, true⟩ dTypeU (by intro l hl; cases hl)
    (by
      refine ⟨?_, by intro l hl; cases hl⟩
      intro n hn
      simp [dTypeU] at hn
      subst hn
      exact ⟨by simp [KeysNodup], by simp, by simp, by decide⟩) []
  simp only [List.append_nil] at h
  rw [h]
  constructor
  · intro e
    have := congrArg typesOf e
    simp [typesOf, viewS, keptS, viewNodeS, keptNodeS, dTypeU, dropU] at this
  · simp [viewS, viewNodeS, dTypeU, dropU]

/-- "… crossed with … single vs. list API": `loads(dumps(ds))` at token level. -/
theorem simpledmrs_list_roundtrip (o : Opts) (ds : List DMRS) (h : ∀ d ∈ ds, d.WF ∧ ExpressibleSD d) :
    decodeList (ds.flatMap (encDmrsToks o)) = .ok (ds.map (viewS o)) :=
  decodeList_encDmrsToks o ds h

/-- (Definitional: this unfolds the view `viewS`; its content is carried by the round-trip theorems, which land
on `viewS`.)  "Suppressing properties … or alignments removes exactly that information" (SimpleDMRS keeps the
node type outside the property list): with `properties = false` the decoded nodes have no properties and
keep id, predicate, type (up to F11), constant and alignment; with `lnk = false` no alignment and no
surface string. -/
theorem simpledmrs_suppression (o : Opts) (d : DMRS) :
    (viewS o d).nodes.map (·.id) = d.nodes.map (·.id) ∧
    (viewS o d).nodes.map (·.pred) = d.nodes.map (·.pred) ∧
    (viewS o d).nodes.map (·.carg) = d.nodes.map (·.carg) ∧
    (viewS o d).nodes.map (·.type) = d.nodes.map (fun n => dropU n.type) ∧
    (viewS o d).nodes.map (·.props) = d.nodes.map (fun n => if o.properties then n.props else []) ∧
    (viewS o d).nodes.map (·.lnk) = d.nodes.map (fun n => if o.lnk then n.lnk else .unspec) ∧
    (viewS o d).links = d.links ∧ (viewS o d).top = d.top ∧ (viewS o d).index = d.index ∧
    (viewS o d).identifier = d.identifier ∧
    (viewS o d).surface = (if o.lnk then d.surface else none) := by
  simp [viewS, viewNodeS, List.map_map, Function.comp_def]

/-- "re-encoding reproduces the text" (token level): encoding the decoded graph gives the same tokens. -/
theorem simpledmrs_stable (o : Opts) (d : DMRS) : encDmrsToks o (viewS o d) = encDmrsToks o d := by
  have hn : ∀ n : Node, encNodeToks o (viewNodeS o n) = encNodeToks o n := by
    intro n
    obtain ⟨op, ol⟩ := o
    cases op <;> cases ol <;> cases hty : n.type <;>
      simp [encNodeToks, viewNodeS, typeToks, dropU, hty, lnkToks] <;>
      (split <;> simp_all)
  obtain ⟨op, ol⟩ := o
  have hnodes : (d.nodes.map (viewNodeS ⟨op, ol⟩)).flatMap (encNodeToks ⟨op, ol⟩) = d.nodes.flatMap (encNodeToks ⟨op, ol⟩) := by
    rw [List.flatMap_map]
    congr 1
    funext n
    exact hn n
  unfold encDmrsToks
  simp only [viewS]
  rw [hnodes]
  congr 3
  have hun : Lnk.unspec.truthy = false := rfl
  cases ol <;> cases htr : d.lnk.truthy <;> simp [attrToks, htr, hun]

/-! ## SimpleDMRS at the level of the text -/

/-- The character-level model `lexText` of `_SimpleDMRSLexer` (the fifteen token classes pinned in
`c02LexerTokens`, tried in order at every position of every line) reads the single-line text
`render (encDmrsToks o d)` — the text `encode(d, indent=None)` writes, compared with the real encoder on
every generated case — back into exactly the token list, for every `d` whose printed pieces are tokens of
their classes (`lexOK`, a decidable predicate: symbols over `[^\s"'()\/:;<=>[\]{}]` not starting with `--`,
strings without line breaks, alignments the LNK class accepts). -/
theorem simpledmrs_lexer_roundtrip (o : Opts) (d : DMRS) (h : lexOK d = true) :
    lexText (encodeText o d) = some (encDmrsToks o d) :=
  lexText_encodeText o d h

/-- … for any list of lexically expressible tokens, not only those of an encoding -/
theorem simpledmrs_lexer_render (ts : List T) (hok : ∀ t ∈ ts, TokOK t) : lexText (render ts) = some ts :=
  lexText_render ts hok

/-- "For every DMRS, decoding its SimpleDMRS … encoding yields the same node identifiers, predicates, node
types, properties, constants, surface alignments, links … and top/index", now from characters to characters:
`decode(encode(d)) = viewS o d` (view as in `simpledmrs_roundtrip_view`: F11 maps type `u` to `None`). -/
theorem simpledmrs_text_roundtrip (o : Opts) (d : DMRS) (hwf : d.WF) (hx : ExpressibleSD d) (hl : lexOK d = true) :
    decodeText (encodeText o d) = .ok (viewS o d) :=
  decodeText_encodeText o d hwf hx hl

/-- the main clause under the hypothesis forced by F11, at text level -/
theorem simpledmrs_text_roundtrip_partial (o : Opts) (d : DMRS) (hwf : d.WF) (hx : ExpressibleSD d)
    (hl : lexOK d = true) (hu : NoTypeU d) :
    decodeText (encodeText o d) = .ok (keptS o d) := by
  have h1 := simpledmrs_roundtrip_view o d hwf hx []
  have h2 := simpledmrs_roundtrip_partial o d hwf hx hu []
  rw [h1] at h2
  have : viewS o d = keptS o d := by injection h2 with h; exact (Prod.mk.inj h).1
  rw [decodeText_encodeText o d hwf hx hl, this]

/-- multi-graph documents: `loads(dumps(ds))` at text level -/
theorem simpledmrs_text_list_roundtrip (o : Opts) (ds : List DMRS)
    (h : ∀ d ∈ ds, d.WF ∧ ExpressibleSD d) (hl : ∀ d ∈ ds, lexOK d = true) :
    decodeTextList (encodeTextList o ds) = .ok (ds.map (viewS o)) :=
  decodeTextList_encodeTextList o ds h hl

/-- "re-encoding reproduces the text": the text of the decoded graph is the same text -/
theorem simpledmrs_text_stable (o : Opts) (d : DMRS) : encodeText o (viewS o d) = encodeText o d := by
  unfold encodeText
  rw [simpledmrs_stable]

/-- the same in the indented layout (`indent=k`: `dmrs id {`, then one line per item with `k` blanks in front,
then `}`; graphs of a document separated by line feeds) — the lexer works line by line (`s.splitlines()`) -/
theorem simpledmrs_text_roundtrip_indent (o : Opts) (k : Nat) (d : DMRS) (hwf : d.WF) (hx : ExpressibleSD d)
    (hl : lexOK d = true) : decodeText (encodeTextIndent o k d) = .ok (viewS o d) :=
  decodeText_encodeTextIndent o k d hwf hx hl

theorem simpledmrs_text_list_roundtrip_indent (o : Opts) (k : Nat) (ds : List DMRS)
    (h : ∀ d ∈ ds, d.WF ∧ ExpressibleSD d) (hl : ∀ d ∈ ds, lexOK d = true) :
    decodeTextList (encodeTextIndentList o k ds) = .ok (ds.map (viewS o)) :=
  decodeTextList_encodeTextIndentList o k ds h hl

/-- indentation changes the layout only: both layouts lex to the same tokens -/
theorem simpledmrs_indent_same_tokens (o : Opts) (k : Nat) (d : DMRS) (hl : lexOK d = true) :
    lexText (encodeTextIndent o k d) = lexText (encodeText o d) := by
  rw [lexText_encodeTextIndent o k d hl, lexText_encodeText o d hl]

/-- … and in the indented layout -/
theorem simpledmrs_text_stable_indent (o : Opts) (k : Nat) (d : DMRS) :
    encodeTextIndent o k (viewS o d) = encodeTextIndent o k d := by
  unfold encodeTextIndent
  rw [tokLines_view]

example : lexOK dTypeU = true := by decide


/-! ## SimpleDMRS: the format strings themselves

`encListText o indent ds` is the literal transcription of `_encode` / `_encode_dmrs` / `_encode_attrs` /
`_encode_node` / `_encode_sortinfo` / `_encode_link` (the two format strings pinned in `c02SdFormats`); it is
compared with the text of the real `encode`/`dumps` on EVERY generated case, inside and outside the lexical
domain, for every indent setting.  The theorems above are about the layouts `render` / `tokLines` of the token
lists; the next theorem says these are the same texts, for every graph, without any hypothesis. -/

/-- the text the format strings write is the single-line layout (`indent=None/False`) resp. the line layout
(`indent=k`; `True` is 2) of the token lists `encDmrsToks` -/
theorem simpledmrs_format_is_layout (o : Opts) (ds : List DMRS) :
    encListText o none ds = encodeTextList o ds ∧
    (∀ k, encListText o (some k) ds = encodeTextIndentList o k ds) ∧
    (∀ d, encDmrsText o none d = encodeText o d) ∧
    (∀ k d, encDmrsText o (some k) d = encodeTextIndent o k d) :=
  ⟨encListText_none o ds, fun k => encListText_some o k ds, fun d => encDmrsText_none o d,
   fun k d => encDmrsText_some o k d⟩

/-- `encode(d, …, indent)` is `_encode([d], …)` -/
theorem encListText_single (o : Opts) (indent : Option Nat) (d : DMRS) :
    encListText o indent [d] = encDmrsText o indent d := by
  simp [encListText, joinStr]

/-- "For every DMRS, decoding its SimpleDMRS … encoding yields the same …; crossed with properties/lnk/indent
options": `decode(encode(d, properties, lnk, indent))`, on the text the format strings write, for every option
setting and every indent (`none`, or `some k` blanks). -/
theorem simpledmrs_encode_decode (o : Opts) (indent : Option Nat) (d : DMRS) (hwf : d.WF) (hx : ExpressibleSD d)
    (hl : lexOK d = true) : decodeText (encListText o indent [d]) = .ok (viewS o d) := by
  rw [encListText_single]
  cases indent with
  | none => rw [encDmrsText_none]; exact decodeText_encodeText o d hwf hx hl
  | some k => rw [encDmrsText_some]; exact decodeText_encodeTextIndent o k d hwf hx hl

/-- … "single vs. list API": `loads(dumps(ds, properties, lnk, indent))` -/
theorem simpledmrs_dumps_loads (o : Opts) (indent : Option Nat) (ds : List DMRS)
    (h : ∀ d ∈ ds, d.WF ∧ ExpressibleSD d) (hl : ∀ d ∈ ds, lexOK d = true) :
    decodeTextList (encListText o indent ds) = .ok (ds.map (viewS o)) := by
  cases indent with
  | none => rw [encListText_none]; exact decodeTextList_encodeTextList o ds h hl
  | some k => rw [encListText_some]; exact decodeTextList_encodeTextIndentList o k ds h hl

/-- "re-encoding reproduces the text": `dumps(loads(dumps(ds)))` is `dumps(ds)`, character by character, for
every indent — no hypothesis on the graphs (F11 included: a type `u` is not written either time) -/
theorem simpledmrs_dumps_stable (o : Opts) (indent : Option Nat) (ds : List DMRS) :
    encListText o indent (ds.map (viewS o)) = encListText o indent ds := by
  cases indent with
  | none =>
    rw [encListText_none, encListText_none]
    unfold encodeTextList
    rw [List.flatMap_map]
    congr 2
    funext d
    exact simpledmrs_stable o d
  | some k =>
    rw [encListText_some, encListText_some]
    unfold encodeTextIndentList
    rw [List.flatMap_map]
    congr 3
    funext d
    exact tokLines_view o k d

/-- the lexical hypothesis is needed: a predicate with a blank in it is written as it is and read as two
symbols (the decoder then takes the second for the node type) -/
def dBlank : DMRS :=
  { top := none, index := none, nodes := [{ id := 10000, pred := S "a b" }], links := [] }

theorem simpledmrs_lexOK_needed :
    lexOK dBlank = false ∧ ExpressibleSD dBlank ∧ dBlank.WF ∧
    decodeText (encListText ⟨true, true⟩ none [dBlank]) ≠ .ok (viewS ⟨true, true⟩ dBlank) := by
  have hwf : dBlank.WF := by intro l hl; cases hl
  have hx : ExpressibleSD dBlank := by
    refine ⟨?_, by intro l hl; cases hl⟩
    intro n hn
    simp [dBlank] at hn
    subst hn
    exact ⟨by simp [KeysNodup], by simp, by simp, by decide⟩
  exact ⟨by decide, hx, hwf, by decide⟩

/-! ## DMRS-JSON and DMRX -/

/-- "decoding its … DMRS-JSON encoding yields the same node identifiers, predicates, node types,
properties, constants, surface alignments, links … and top/index": dictionary round trip (`json` itself is a
parameter).  `viewJ` is the identity on a graph whose alignments are character spans, except for
suppressed information (next theorem). -/
theorem dmrsjson_roundtrip (o : Opts) (d : DMRS) (hwf : d.WF) (hx : ExpressibleJ d) :
    fromDict (toDict o d) = .ok (viewJ o d) :=
  fromDict_toDict o d hwf hx

/-- with everything switched on the JSON view is the identity on nodes whose alignment is a character
span or absent -/
theorem viewNodeJ_id (n : Node) (h : n.lnk = .unspec ∨ ∃ a b, n.lnk = .charspan a b ∧ ¬ (a = -1 ∧ b = -1)) :
    viewNodeJ ⟨true, true⟩ n = n := by
  obtain ⟨id, pred, type, props, carg, lnk, surface, base⟩ := n
  simp only at h
  rcases h with h | ⟨a, b, h, hab⟩
  · subst h; simp [viewNodeJ, viewLnkJ, Lnk.truthy]
  · subst h
    have : (Lnk.charspan a b).truthy = true := by
      simp only [Lnk.truthy]
      by_cases ha : a = -1 <;> by_cases hb : b = -1 <;> simp_all
    simp [viewNodeJ, viewLnkJ, this, Lnk.cfrom, Lnk.cto]

/-- (Definitional: this unfolds the views `viewJ`/`viewX`; the content is carried by `dmrsjson_roundtrip` and
`dmrx_roundtrip`, which land on them.)
"Suppressing properties (together with the node type in the formats that store the type among the
properties) … removes exactly that information": in DMRX and DMRS-JSON `properties = false` removes
properties AND type, nothing else; `lnk = false` removes alignment and surface/base strings, nothing else. -/
theorem sortinfo_formats_suppression (o : Opts) (d : DMRS) :
    (viewJ o d).nodes.map (·.type) = d.nodes.map (fun n => if o.properties then n.type else none) ∧
    (viewX o d).nodes.map (·.type) = d.nodes.map (fun n => if o.properties then n.type else none) ∧
    (viewJ o d).nodes.map (·.props) = d.nodes.map (fun n => if o.properties then n.props else []) ∧
    (viewX o d).nodes.map (·.props) = d.nodes.map (fun n => if o.properties then n.props else []) ∧
    (viewJ o d).nodes.map (fun n => (n.id, n.pred, n.carg)) = d.nodes.map (fun n => (n.id, n.pred, n.carg)) ∧
    (viewX o d).nodes.map (fun n => (n.id, n.pred, n.carg)) = d.nodes.map (fun n => (n.id, n.pred, n.carg)) ∧
    (viewJ o d).nodes.map (fun n => (n.surface, n.base)) =
      d.nodes.map (fun n => if o.lnk then (n.surface, n.base) else (none, none)) ∧
    (viewX o d).nodes.map (fun n => (n.surface, n.base)) =
      d.nodes.map (fun n => if o.lnk then (n.surface, n.base) else (none, none)) ∧
    (viewJ o d).links = d.links ∧ (viewX o d).links = d.links ∧
    (viewJ o d).top = d.top ∧ (viewX o d).top = d.top ∧ (viewX o d).index = d.index ∧
    (viewJ o d).identifier = d.identifier ∧ (viewX o d).identifier = d.identifier := by
  obtain ⟨op, ol⟩ := o
  cases op <;> cases ol <;> simp [viewJ, viewX, viewNodeJ, viewNodeX, List.map_map, Function.comp_def]

/-- "decoding its … DMRX … encoding yields the same node identifiers, predicates, node types, properties,
constants, surface alignments, links … and top/index": tree round trip (`xml.etree` is a parameter).
`viewX` is the identity on these fields up to the representation of a missing alignment as `<-1:-1>` and the
suppressed information (`sortinfo_formats_suppression`).  No predicate round-trip hypothesis beyond normal form:
`ExpressibleX` asks `normalizePred n.pred = n.pred` and `n.pred ≠ []` (`predRT_of_normal` does the rest). -/
theorem dmrx_roundtrip (o : Opts) (d : DMRS) (hwf : d.WF) (hx : ExpressibleX d) :
    ∃ x, toXml o d = .ok x ∧ ofXml x = .ok (viewX o d) :=
  ofXml_toXml o d hwf hx (fun n hn => predRT_of_normal n.pred (hx.1 n hn).predNorm (hx.1 n hn).predNe)

/-- the same with the predicate round trip as an explicit hypothesis (round-1 form, kept) -/
theorem dmrx_roundtrip_partial (o : Opts) (d : DMRS) (hwf : d.WF) (hx : ExpressibleX d)
    (hp : ∀ n ∈ d.nodes, PredRT n.pred) :
    ∃ x, toXml o d = .ok x ∧ ofXml x = .ok (viewX o d) :=
  ofXml_toXml o d hwf hx hp

/-- `predicate.create(*predicate.split(p))` gives back a normalised surface predicate `_lemma_pos(_sense)`:
it survives `<realpred lemma pos sense>` -/
theorem dmrx_realpred_roundtrip (p : Str) (hn : normalizePred p = p) (hs : isSurface p = true) : PredRT p :=
  predRT_surface p hn hs

/-- "re-encoding reproduces the text", at the level of the tree / dictionary the encoders build (the text
layout itself is `xml.etree`'s and `json`'s): re-encoding the decoded graph builds the same tree … -/
theorem dmrx_stable_tree (o : Opts) (d : DMRS) : toXml o (viewX o d) = toXml o d :=
  toXml_view o d

/-- … and the same dictionary (alignments being character spans or absent, as DMRS-JSON can only write those). -/
theorem dmrsjson_stable_dict (o : Opts) (d : DMRS) (hn : ∀ n ∈ d.nodes, SpanOrNone n.lnk) (hg : SpanOrNone d.lnk) :
    toDict o (viewJ o d) = toDict o d :=
  toDict_view o d hn hg

/-- an abstract predicate in normal form survives `<gpred>` -/
theorem dmrx_gpred_roundtrip (p : Str) (hn : normalizePred p = p) (hne : p ≠ []) (hs : isSurface p = false) :
    PredRT p :=
  predRT_gpred p hn hne hs

/-- the hypothesis is satisfiable for a surface predicate, too -/
example : PredRT (S "_rain_v_1") :=
  ⟨{ tag := S "realpred", attrs := [(S "lemma", S "rain"), (S "pos", S "v"), (S "sense", S "1")], text := none },
   by decide, by decide, by decide⟩


/-! ## DMRX: the text layout (`_indent`) -/

/-- "crossed with properties/lnk/indent options": `dmrx._indent` only writes `tail`s and the `text` of elements
that have children — for every indent width, `maxdepth` and starting level, the tree the decoder reads
(attributes, children, text of the leaves `gpred`/`rargname`/`post`) is the tree `_encode_dmrs` built -/
theorem dmrx_indent_layout_only (indent maxdepth level : Nat) (x : XDmrs) :
    stripD (indentD indent maxdepth level (plainD x)) = x := by
  have hL : ∀ (lv : Nat) (l : XLeaf), stripL (indentL indent maxdepth lv (plainL l)) = l := by
    intro lv l
    unfold indentL
    split <;> rfl
  have hM : ∀ (lv : Nat) (m : XMid), stripM (indentM indent maxdepth lv (plainM m)) = m := by
    intro lv m
    obtain ⟨tag, attrs, children⟩ := m
    unfold indentM
    split
    · simp [stripM, plainM, List.map_map, Function.comp_def, stripL, plainL]
    · simp only [stripM, plainM, List.map_map, Function.comp_def, hL, List.map_id']
  obtain ⟨attrs, children⟩ := x
  unfold indentD
  split
  · simp [stripD, plainD, List.map_map, Function.comp_def, stripM, plainM, stripL, plainL]
  · simp only [stripD, plainD, List.map_map, Function.comp_def, hM, List.map_id']

/-- … hence for `encode(d, indent=i)` with `i` off (`None`/`False`), on (`True`/`'LKB'`) or an integer -/
theorem dmrx_layout_tree (o : Opts) (i : Indent) (d : DMRS) : encodeXTree o i d = toXml o d := by
  unfold encodeXTree
  cases h : toXml o d with
  | error e => rfl
  | ok x =>
    cases i with
    | off =>
      obtain ⟨attrs, children⟩ := x
      simp [layoutD, stripD, plainD, List.map_map, Function.comp_def, stripM, plainM, stripL, plainL]
    | on => simp only [layoutD, dmrx_indent_layout_only]
    | «by» k => simp only [layoutD, dmrx_indent_layout_only]

/-- … and for `dumps(ds, indent=i)` under `<dmrs-list>` -/
theorem dmrx_layout_tree_list (o : Opts) (i : Indent) (ds : List DMRS) :
    encodeXTreeList o i ds = mapMExcept (toXml o) ds := by
  unfold encodeXTreeList
  cases h : mapMExcept (toXml o) ds with
  | error e => rfl
  | ok xs =>
    have hid : ∀ xs : List XDmrs, (xs.map plainD).map stripD = xs := by
      intro xs
      rw [List.map_map]
      conv => rhs; rw [← List.map_id xs]
      apply List.map_congr_left
      intro x _
      obtain ⟨attrs, children⟩ := x
      simp [stripD, plainD, List.map_map, Function.comp_def, stripM, plainM, stripL, plainL]
    have hind : ∀ (k md : Nat) (xs : List XDmrs), List.map (stripD ∘ indentD k md 1 ∘ plainD) xs = xs := by
      intro k md xs
      conv => rhs; rw [← List.map_id xs]
      apply List.map_congr_left
      intro x _
      exact dmrx_indent_layout_only k md 1 x
    cases i with
    | off => simp [layoutC, stripC, plainC, hid]
    | on =>
      simp only [layoutC, indentC, stripC, plainC]
      simp [hind]
    | «by» k =>
      simp only [layoutC, indentC, stripC, plainC]
      simp [hind]

/-- "decoding its … DMRX … encoding yields the same …" for every indent option (`xml.etree` as the identity on the
laid-out tree) -/
theorem dmrx_roundtrip_indent (o : Opts) (i : Indent) (d : DMRS) (hwf : d.WF) (hx : ExpressibleX d) :
    ∃ x, encodeXTree o i d = .ok x ∧ ofXml x = .ok (viewX o d) := by
  rw [dmrx_layout_tree]
  exact dmrx_roundtrip o d hwf hx

/-- "re-encoding reproduces the text": the DMRX text of the decoded graph is the same text, for every indent
option (the text being `rstrip(tostring(_indent(_encode_dmrs d)))`) -/
theorem dmrx_text_stable (o : Opts) (i : Indent) (d : DMRS) : encodeXText o i (viewX o d) = encodeXText o i d := by
  unfold encodeXText
  rw [toXml_view]

theorem dmrx_text_stable_list (o : Opts) (i : Indent) (ds : List DMRS) :
    encodeXTextList o i (ds.map (viewX o)) = encodeXTextList o i ds := by
  unfold encodeXTextList
  have : mapMExcept (toXml o) (ds.map (viewX o)) = mapMExcept (toXml o) ds := by
    induction ds with
    | nil => rfl
    | cons d ds ih => simp only [List.map_cons, mapMExcept, toXml_view, ih]
  rw [this]

/-- the writer never leaves a `"`, `<`, `>` or line feed of a value inside an attribute: what it writes between
the quotes cannot end the attribute early -/
theorem escAttr_clean (s : Str) (x : Char) (hx : x = '"' ∨ x = '<' ∨ x = '>' ∨ x = '\n') : x ∉ escAttr s := by
  induction s with
  | nil => simp [escAttr]
  | cons c s ih =>
    unfold escAttr
    repeat' split
    all_goals (rcases hx with h | h | h | h <;> subst h <;> simp_all [S, eq_comm])

/-! ## DMRS-PENMAN -/

/-- "DMRS-PENMAN does the same for graphs connected from the top, up to the documented renumbering of node
identifiers" (the penman library as the identity on triple lists): decoding the triples written for `d` gives
`viewP o d` = the part of `d` connected to the top (all of `d` when it is connected,
`penman_connected_keeps_all`), top node first, identifiers renumbered by `renId` (next theorems), with the
same predicates, types, constants, character-span alignments, property maps (in `sorted(property_priority)`
order) and links; index, surface/base strings and graph-level lnk/surface/identifier are not part of the
format.  The real penman library returns the nodes in tree order, so the public API agrees with `viewP` up to
a further permutation of the numbering (that is what the direct oracle checks). -/
theorem penman_roundtrip (o : Opts) (d : DMRS) (hx : ExpressibleP d) :
    ∃ ts, toTriples o d = .ok ts ∧ fromTriples ts = .ok (viewP o d) :=
  fromTriples_toTriples o d hx

/-- "connected from the top" is graph reachability: the model's `mainComponent` (a fuelled BFS as in
`util._bfs`) contains exactly the identifiers reachable from the top along links taken in either direction
(`Verif.Sem.bfs_correct`) … -/
theorem penman_component_is_reachability (d : DMRS) (t : Int) (ht : d.top = some t) (hne : d.nodes ≠ []) (x : Int) :
    x ∈ mainComponent d ↔ Verif.Sem.Reach (Verif.Sem.adjOf (Verif.Sem.symm (linkEdges d))) t x := by
  unfold mainComponent
  cases hn : d.nodes with
  | nil => exact absurd hn hne
  | cons n ns =>
    simp only [ht]
    exact Verif.Sem.bfs_correct _ t x

/-- … where two nodes are adjacent iff some link joins them, in either direction. -/
theorem penman_adjacent_iff (d : DMRS) (x y : Int) :
    y ∈ Verif.Sem.adjOf (Verif.Sem.symm (linkEdges d)) x ↔
      ∃ l ∈ d.links, (l.start = x ∧ l.stop = y) ∨ (l.start = y ∧ l.stop = x) := by
  rw [Verif.Sem.mem_adjOf]
  unfold Verif.Sem.symm linkEdges
  simp only [List.mem_append, List.mem_map, Prod.mk.injEq]
  constructor
  · rintro (⟨l, hl, h1, h2⟩ | ⟨p, ⟨l, hl, rfl⟩, h1, h2⟩)
    · exact ⟨l, hl, Or.inl ⟨h1, h2⟩⟩
    · exact ⟨l, hl, Or.inr ⟨h2, h1⟩⟩
  · rintro ⟨l, hl, (⟨h1, h2⟩ | ⟨h1, h2⟩)⟩
    · exact Or.inl ⟨l, hl, h1, h2⟩
    · exact Or.inr ⟨(l.start, l.stop), ⟨l, hl, rfl⟩, h2, h1⟩


/-- the hypotheses are satisfiable: "the dog" with a quantifier link -/
def dP : DMRS :=
  { top := some 10001, index := none,
    nodes := [{ id := 10000, pred := S "_the_q" }, { id := 10001, pred := S "_dog_n_1", type := some (S "x"), props := [(S "NUM", S "sg")], lnk := .charspan 4 7 }],
    links := [⟨10000, 10001, some (S "RSTR"), some (S "H")⟩] }
example : ExpressibleP dP where
  nodes := by
    intro n hn
    simp [dP] at hn
    rcases hn with h | h <;> subst h <;>
      exact ⟨by decide, by decide, by decide, by decide, by simp⟩
  links := by
    intro l hl
    simp [dP] at hl
    subst hl
    exact ⟨⟨S "RSTR", rfl, by decide, by decide⟩, ⟨S "H", rfl, by decide⟩, by
      intro r p hr hp
      simp at hr hp
      subst hr hp
      decide⟩
  ids := by decide
  ends := by decide
  top := ⟨10001, rfl, by decide⟩
  vars := by decide

/-- "the documented renumbering": the top node becomes 10000 … -/
theorem penman_renumber_top (d : DMRS) (t : Int) (ht : d.top = some t) (hmem : t ∈ d.nodes.map (·.id)) :
    renId d t = FIRST_NODE_ID :=
  renId_top d t ht hmem

/-- … the kept nodes are numbered consecutively from 10000 in their order … -/
theorem penman_renumber_consecutive (d : DMRS) (hnd : ((pOrder d).map (·.id)).Nodup) (i : Nat)
    (hi : i < (pOrder d).length) : renId d ((pOrder d)[i]).id = FIRST_NODE_ID + (i : Int) :=
  renId_getElem d hnd i hi

/-- … and the renumbering is a bijection of the kept identifiers onto `10000 … 10000+k-1`. -/
theorem penman_renumber_bijective (d : DMRS) (a b : Int)
    (ha : a ∈ (pOrder d).map (·.id)) (hb : b ∈ (pOrder d).map (·.id)) :
    (renId d a = renId d b → a = b) ∧
    FIRST_NODE_ID ≤ renId d a ∧ renId d a < FIRST_NODE_ID + ((pOrder d).length : Int) :=
  ⟨renId_injOn d a b ha hb, renId_range d a ha⟩

/-- "for graphs connected from the top" no node is dropped (and the top itself is always kept) -/
theorem penman_connected_keeps_all (d : DMRS) (hc : ∀ n ∈ d.nodes, n.id ∈ mainComponent d) :
    (pOrder d).length = d.nodes.length :=
  pOrder_length_of_connected d hc

theorem penman_top_kept (d : DMRS) (t : Int) (ht : d.top = some t) : t ∈ mainComponent d :=
  top_mem_mainComponent d t ht

/-! ### variable names (fix 32cdf83, finding F57) -/

theorem filter_len_lt (l : List Str) (a : Nat) (x : Str) (hx : x ∈ l) (hxa : x.length = a) :
    (l.filter (fun p => decide (a + 1 ≤ p.length))).length < (l.filter (fun p => decide (a ≤ p.length))).length := by
  induction l with
  | nil => cases hx
  | cons y ys ih =>
    have hmono : (ys.filter (fun p => decide (a + 1 ≤ p.length))).length ≤
        (ys.filter (fun p => decide (a ≤ p.length))).length := by
      clear ih hx
      induction ys with
      | nil => simp
      | cons z zs ihz =>
        simp only [List.filter_cons]
        by_cases h1 : a + 1 ≤ z.length
        · have h2 : a ≤ z.length := by omega
          simp [h1, h2, ihz]
        · by_cases h2 : a ≤ z.length <;> simp [h1, h2] <;> omega
    simp only [List.filter_cons]
    rcases List.mem_cons.mp hx with h | h
    · subst h
      have h1 : ¬ (a + 1 ≤ x.length) := by omega
      have h2 : a ≤ x.length := by omega
      simp [h1, h2]; omega
    · have := ih h
      by_cases h1 : a + 1 ≤ y.length
      · have h2 : a ≤ y.length := by omega
        simp [h1, h2]; omega
      · by_cases h2 : a ≤ y.length <;> simp [h1, h2] <;> omega

/-- the loop `while var in predicates: var += '_'` ends outside the set: with fuel above the number of predicates
at least as long as the candidate, the result is not a predicate -/
theorem freshen_not_mem (preds : List Str) : ∀ (fuel : Nat) (v : Str),
    (preds.filter (fun p => decide (v.length ≤ p.length))).length < fuel → freshen preds fuel v ∉ preds
  | 0, _, h => by omega
  | f + 1, v, h => by
    unfold freshen
    by_cases hv : v ∈ preds
    · simp only [hv, ↓reduceIte]
      apply freshen_not_mem preds f (v ++ ['_'])
      have := filter_len_lt preds v.length v hv rfl
      simp only [List.length_append, List.length_cons, List.length_nil, Nat.zero_add]
      omega
    · simp [hv]

/-- "the instance triple is never read as an edge" (F57, repaired): no variable that `to_triples` hands out is
spelled like a predicate of the graph, whatever the predicates, types and positions are -/
theorem penman_variable_never_a_predicate (d : DMRS) (i : Nat) (n m : Node) (hm : m ∈ d.nodes) :
    varName d i n ≠ m.pred := by
  intro h
  have hnot : varName d i n ∉ d.nodes.map (·.pred) := by
    unfold varName
    apply freshen_not_mem
    have : ∀ (l : List Str) (q : Str → Bool), (l.filter q).length ≤ l.length := fun l q => List.length_filter_le q l
    have := this (d.nodes.map (·.pred))
    simp only [List.length_map] at this
    exact Nat.lt_succ_of_le (this _)
  exact hnot (h ▸ List.mem_map_of_mem hm)

/-- the witness of F57 before the repair: node 2 has the predicate `e1`; node 1 now gets the variable `e1_` -/
def dVarPred : DMRS :=
  { top := some 10000, index := none,
    nodes := [{ id := 10000, pred := S "_a_v_1", type := some (S "e") }, { id := 10001, pred := S "e1", type := some (S "x") }],
    links := [⟨10000, 10001, some (S "ARG1"), some (S "NEQ")⟩] }

set_option maxRecDepth 4000 in
example : idMap dVarPred = [(10000, S "e1_"), (10001, S "x2")] := by decide

/-! ### the hypothesis `ExpressibleP.vars` discharged (round 7) -/

/-- the variables `to_triples` hands out are pairwise different whenever the node identifiers are and every node
type is a single character or absent (the sorts x, e, i, u, p, h: everything `Node` is meant to carry) -/
theorem penman_variables_distinct (d : DMRS) (hids : (d.nodes.map (·.id)).Nodup) (hs : SortTypes d) :
    ((idMap d).map (·.2)).Nodup :=
  vars_nodup d hids hs

/-- `penman_roundtrip` without the hypothesis on the variable names: node types of at most one character instead -/
theorem penman_roundtrip_sorts (o : Opts) (d : DMRS)
    (hn : ∀ n ∈ d.nodes, NodeOKP n) (hl : ∀ l ∈ d.links, LinkOKP l) (hids : (d.nodes.map (·.id)).Nodup)
    (hends : ∀ l ∈ d.links, l.start ∈ d.nodes.map (·.id) ∧ l.stop ∈ d.nodes.map (·.id))
    (htop : ∃ t, d.top = some t ∧ t ∈ d.nodes.map (·.id)) (hs : SortTypes d) :
    ∃ ts, toTriples o d = .ok ts ∧ fromTriples ts = .ok (viewP o d) :=
  fromTriples_toTriples o d ⟨hn, hl, hids, hends, htop, vars_nodup d hids hs⟩

/-- the restriction on the types is needed: with a type of two characters the names can coincide (`x1` at position 1
and `x` at position 11 both give `x11`) although the identifiers are pairwise different -/
def dClash : DMRS :=
  { top := some 10000, index := none,
    nodes := { id := 10000, pred := S "a", type := some (S "x1") } ::
      ([10001, 10002, 10003, 10004, 10005, 10006, 10007, 10008, 10009, 10010] : List Int).map
        (fun k => ({ id := k, pred := S "b", type := some (S "x") } : Node)),
    links := [] }

set_option maxRecDepth 20000 in
theorem penman_sorts_needed :
    (dClash.nodes.map (·.id)).Nodup ∧ ¬ SortTypes dClash ∧ ¬ ((idMap dClash).map (·.2)).Nodup := by
  refine ⟨by decide, ?_, by decide⟩
  intro h
  have := h { id := 10000, pred := S "a", type := some (S "x1") } (by simp [dClash]) (S "x1") rfl
  exact absurd this (by decide)

/-! ### nodes that compare equal (`Node.__eq__` ignores identifier and alignment) -/

/-- "yields the same node identifiers …": every codec keeps every node, also two nodes that differ in nothing but
their identifier (and alignment) — the decoded node lists carry the identifiers of `d.nodes` one by one (PENMAN: of
the kept nodes, renumbered), nothing is merged; and PENMAN's "top first" goes by identifier: the kept nodes are a
permutation of the nodes whose identifier is connected to the top -/
theorem twins_kept (o : Opts) (d : DMRS) :
    (viewS o d).nodes.map (·.id) = d.nodes.map (·.id) ∧
    (viewX o d).nodes.map (·.id) = d.nodes.map (·.id) ∧
    (viewJ o d).nodes.map (·.id) = d.nodes.map (·.id) ∧
    (viewP o d).nodes.map (·.id) = (pOrder d).map (fun n => renId d n.id) ∧
    (pOrder d).Perm (d.nodes.filter (fun n => n.id ∈ mainComponent d)) ∧
    (viewS o d).top = d.top ∧ (viewX o d).top = d.top ∧ (viewJ o d).top = d.top ∧
    (viewP o d).top = d.top.map (renId d) := by
  refine ⟨by simp [viewS, viewNodeS, List.map_map, Function.comp_def],
    by simp [viewX, viewNodeX, List.map_map, Function.comp_def],
    by simp [viewJ, viewNodeJ, List.map_map, Function.comp_def],
    by simp [viewP, viewNodeP, List.map_map, Function.comp_def], ?_, rfl, rfl, rfl, rfl⟩
  unfold pOrder
  apply List.Perm.filter
  have h := List.filter_append_perm (fun n : Node => decide (d.top = some n.id)) d.nodes
  have he : (d.nodes.filter (fun n => decide (d.top ≠ some n.id))) =
      d.nodes.filter (fun n => !decide (d.top = some n.id)) := by
    apply List.filter_congr
    intro n _
    simp
  rw [he]
  exact h

/-- two twins (same predicate, type, properties, constant; identifiers 10000 and 10001, the second is the top) -/
example : (viewP ⟨true, true⟩
    { top := some 10001, index := none,
      nodes := [{ id := 10000, pred := S "a", type := some (S "x") }, { id := 10001, pred := S "a", type := some (S "x") }],
      links := [⟨10000, 10001, some (S "ARG1"), some (S "EQ")⟩] }).nodes.map (·.id) = [10000, 10001] := by decide

/-! ## the constructor (`_normalize_top_and_links`) -/

/-- "legacy top link from node 0 normalised to top attribute": every link from node 0 is removed, in
both cases … -/
theorem normalizeTop_removes (top : Option Int) (ls : List Link) :
    (normalizeTop top ls).2 = ls.filter (fun l => l.start ≠ TOP_NODE_ID) :=
  normalizeTop_links top ls

/-- … a given top is kept (the link is ignored) … -/
theorem normalizeTop_keeps_given (t : Int) (ls : List Link) : (normalizeTop (some t) ls).1 = some t :=
  normalizeTop_top_some t ls

/-- … and without a given top the first link from node 0 sets it. -/
theorem normalizeTop_sets_missing (ls : List Link) :
    (normalizeTop none ls).1 = (ls.find? (fun l => l.start = TOP_NODE_ID)).map (·.stop) :=
  normalizeTop_top_none ls

/-- normalising twice changes nothing; the result is the class invariant `WF` used above -/
theorem normalizeTop_idempotent (top : Option Int) (ls : List Link) :
    normalizeTop (normalizeTop top ls).1 (normalizeTop top ls).2 = normalizeTop top ls :=
  normalizeTop_idem top ls

theorem constructor_wf (top index : Option Int) (ns : List Node) (ls : List Link) (lnk : Lnk) (s i : Option Str) :
    (mkDMRS top index ns ls lnk s i).WF :=
  mkDMRS_wf top index ns ls lnk s i

/-! ## witnesses: the hypotheses of the round-trip theorems are satisfiable together -/

/-- a witness with the corners in it: two nodes, a quantifier link and a role-less EQ link, a constant with a
quote and a backslash, properties, character spans, graph-level lnk/surface/identifier -/
def dW : DMRS :=
  { top := some 10001, index := some 10001,
    nodes := [{ id := 10000, pred := S "_the_q", lnk := .charspan 0 3 },
              { id := 10001, pred := S "named", type := some (S "x"), props := [(S "NUM", S "sg"), (S "PERS", S "3")],
                carg := some (S "a\"b\\"), lnk := .charspan 4 7 }],
    links := [⟨10000, 10001, some (S "RSTR"), some (S "H")⟩, ⟨10000, 10001, none, some (S "EQ")⟩],
    lnk := .charspan 0 7, surface := some (S "the \"a\""), identifier := some (S "w-1") }

example : dW.WF := by
  intro l hl
  simp [dW] at hl
  rcases hl with h | h <;> subst h <;> decide
example : lexOK dW = true := by decide
example : ExpressibleJ dW := by
  intro n hn
  simp [dW] at hn
  rcases hn with h | h <;> subst h <;> exact ⟨by unfold KeysNodup; decide, by decide⟩
example : ExpressibleSD dW := by
  refine ⟨?_, ?_⟩
  · intro n hn
    simp [dW] at hn
    rcases hn with h | h <;> subst h <;> exact ⟨by unfold KeysNodup; decide, by decide, by decide, by decide⟩
  · intro l hl
    simp [dW] at hl
    rcases hl with h | h <;> subst h <;> exact ⟨by decide, by decide⟩
example : ExpressibleX dW := by
  refine ⟨?_, ?_⟩
  · intro n hn
    simp [dW] at hn
    rcases hn with h | h <;> subst h <;>
      exact ⟨by decide, by decide, by decide, by decide, by decide, by decide, by decide⟩
  · intro l hl
    simp [dW] at hl
    rcases hl with h | h <;> subst h <;> exact ⟨by decide, by decide⟩

/-- the texts of the F11 witness: SimpleDMRS with `indent=2`, DMRX compact -/
example : encListText ⟨true, false⟩ (some 2) [dTypeU] = S "dmrs {\n  [top=10000]\n  10000 [_x_n_1];\n}" := by
  decide
set_option maxRecDepth 8000 in
example : encodeXText ⟨true, true⟩ .on dTypeU =
    .ok (S "<dmrs cfrom=\"-1\" cto=\"-1\" top=\"10000\">\n<node nodeid=\"10000\" cfrom=\"-1\" cto=\"-1\"><realpred lemma=\"x\" pos=\"n\" sense=\"1\" /><sortinfo cvarsort=\"u\" /></node></dmrs>") := by
  decide

end Verif.C02

namespace Verif.C02
open Verif.Tables

/-! ## Pins: the constants of the anchored code that the hand-written model (and the oracle) mirror

`Generated/TablesC02.lean` is rewritten on every run by `harness/c02.py` `tables()` from the live objects of
/repo: the SimpleDMRS lexer's (regex, name) pairs in order, the two format strings, the string/number
constants (nested code objects included; docstrings, `None`/bools and message texts dropped) of every anchored
function, the predicate regexes with their flags (the part-of-speech class, built from a `set`, with its
letters sorted), the `Lnk` type codes, the DMRS module constants, the list frames and the default argument
values.  What hand-codes them:

* `c02LexerTokens` — the token kinds `K` of `Model.lean` in the lexer's order (LBRACE … SYMBOL, UNEXPECTED),
  the literal token texts (`tLBRACE` …), `Verif.Codec.scanDQ`/`escapeDQ` (DQSTRING class), `Lnk.str`/`Lnk.parse`
  (LNK class) and the lexical domain `SYMBOL_RE`/`LNK_RE`/`lex_ok` of `harness/c02.py`.
* `c02SdFormats`, `c02SdEncode*Consts` — `encNodeText`, `encLinkText`, `encSortinfoText`/`sortinfoItems` (type `u`
  omitted, `k=v`), `attrItems` (`top=`/`index=`/`[…]`/quoted surface), `encDmrsText` (`dmrs {`, ` }`, `\n}`,
  indent `True` = 2), `encListText`, `arrowOf` (`->`/`--`), and the token forms `encNodeToks`/`encLinkToks`/`attrToks`.
* `c02SdEscapeConsts`, `c02SdUnescapeConsts`, `c02PEscapeConsts`, `c02PUnescapeConsts` — `Verif.Codec.escapeDQ`/`unescapeDQ`.
* `c02SdDecode*Consts` — `decDmrs` (`dmrs`, `TOP`, `INDEX`), `decType` (`peek(1)`), `decNode`, `decLink`, `decProps`, `decList`.
* `c02XEncode*Consts`, `c02XDecode*Consts`, `c02DmrxFrame` — `toXml`/`encNodeX`/`encPredX`/`encLinkX`,
  `ofXml`/`decNodeX`/`decPredX`/`decLinkX`/`decLnkX` (default `-1`), the tags `node`/`link`/`sortinfo`/`realpred`/`gpred`;
  `c02XEncodeListConsts`/`c02XIndentConsts` are the layout code the oracle exercises (indent depths).
* `c02JToDictConsts`, `c02JFromDictConsts` — `toDict`/`nodeToDict`/`linkToDict`, `fromDict`/`nodeOfDict`/`linkOfDict`/`lnkOfDict`.
* `c02PToTriplesConsts`, `c02PFromTriplesConsts` — `toTriples`/`nodeTriples`/`varName` (`q`, `_`, 1-based), `stepTriple`
  (`instance`, `lnk`, `carg`, `"<>` strip set, `-` split, `top`), `fromTriples`.
* `c02StripPredicateConsts`, `c02Pred*Consts`, `c02PredicateRegexes` — `stripPred`/`stripRel`, `normalizePred`, `strictSurface`,
  `isSurface`, `splitPred`, `createPred`, `lemmaOK`, `isPos`.
* `c02Lnk*Consts`, `c02LnkTypes` — `Verif.Codec.Lnk`, `Lnk.str`, `Lnk.parse`, `Lnk.truthy`, `Lnk.cfrom`, `Lnk.cto`.
* `c02DmrsConstants`, `c02NormalizeTopConsts`, `c02NodeSortinfoConsts`, `c02DmrsInitConsts`, `c02IsQuantifierConsts`,
  `c02PropertyPriorityConsts`, `c02BfsConsts` — `TOP_NODE_ID`, `FIRST_NODE_ID`, `CVARSORT`, `EQ_POST`, `RSTR`, `normalizeTop`,
  `Node.sortinfo`, `mkDMRS`, `isQuantifier`, `propPriority`, `mainComponent`.
* `c02Lexer*Consts` — `acceptK`, `expectK`, `peek1Kind` (buffer of 1024 tokens: `c02Defaults`).
* `c02Defaults` — the option defaults the oracle relies on (`properties=True, lnk=True, indent=False`, but
  `dmrspenman.dumps/dump(properties=False)`), `LookaheadIterator(n=1024)`.

A change to any of these makes this theorem stop checking; the runner reports a broken proof obligation and
searches for a failing input. -/
theorem c02_pins :
    c02LexerTokens =
      ["\\{", "LBRACE:{", "\\}", "RBRACE:}", "\\[", "LBRACKET:[", "\\]", "RBRACKET:]", "\\(", "LPAREN:(", "\\)", "RPAREN:)", "<(?:-?\\d+[:#]-?\\d+|@\\d+|\\d+(?: +\\d+)*)>", "LNK:a lnk value", "\"([^\"\\\\]*(?:\\\\.[^\"\\\\]*)*)\"", "DQSTRING:a string", ":", "COLON::", "\\/", "SLASH:/", "=", "EQUALS:=", ";", "SEMICOLON:;", "(--|->)", "ARROW:a link arrow", "[^\\s\"\\'()\\/:;<=>[\\]{}]+", "SYMBOL:a symbol", "[^\\s]", "UNEXPECTED"]
    ∧ c02SdFormats =
      ["{nodeid} [{pred}{lnk}{carg}{sortinfo}];", "{start}:{pre}/{post} {arrow} {end};"]
    ∧ c02SdEncodeConsts =
      [" ", "2", "\n"]
    ∧ c02SdEncodeDmrsConsts =
      [" ", " }", "\n", "\n}", "dmrs {", "dmrs {} {{"]
    ∧ c02SdEncodeAttrsConsts =
      ["\"{}\"", "top={}", "index={}", "[{}]", " "]
    ∧ c02SdEncodeNodeConsts =
      ["", "(\"{}\")", "nodeid", "pred", "lnk", "carg", "sortinfo"]
    ∧ c02SdEncodeSortinfoConsts =
      ["u", "{}={}", " ", ""]
    ∧ c02SdEncodeLinkConsts =
      ["", "->", "--", "start", "pre", "post", "arrow", "end"]
    ∧ c02SdEscapeConsts =
      ["\\", "\\\\", "\"", "\\\""]
    ∧ c02SdUnescapeConsts =
      ["0", "\\", "1", "2", ""]
    ∧ c02SdDecodeDmrsConsts =
      ["dmrs", "TOP", "INDEX", "0", "top", "index", "nodes", "links", "lnk", "surface", "identifier"]
    ∧ c02SdDecodeNodeConsts =
      ["1", "0", "type", "properties", "carg", "lnk"]
    ∧ c02SdDecodeLinkConsts =
      []
    ∧ c02SdDecodePropsConsts =
      ["0"]
    ∧ c02SdDecodeListConsts =
      []
    ∧ c02XEncodeDmrsConsts =
      ["cfrom", "cto", "top", "index", "surface", "ident", "dmrs", "attrib"]
    ∧ c02XEncodeNodeConsts =
      ["nodeid", "cfrom", "cto", "surface", "base", "carg", "node", "attrib", "sortinfo"]
    ∧ c02XEncodePredConsts =
      ["lemma", "pos", "sense", "realpred", "attrib", "gpred"]
    ∧ c02XEncodeLinkConsts =
      ["link", "from", "to", "attrib", "rargname", "post"]
    ∧ c02XDecodeDmrsConsts =
      [".", "top", "index", "node", "link", "surface", "ident", "top", "index", "nodes", "links", "lnk", "surface", "identifier"]
    ∧ c02XDecodeNodeConsts =
      ["sortinfo", "nodeid", "*[1]", "surface", "base", "carg", "id", "predicate", "type", "properties", "lnk", "surface", "base", "carg"]
    ∧ c02XDecodePredConsts =
      ["gpred", "realpred", "lemma", "pos", "sense"]
    ∧ c02XDecodeSortinfoConsts =
      []
    ∧ c02XDecodeLinkConsts =
      ["from", "to", "rargname", "text", "post", "start", "end", "role", "post"]
    ∧ c02XDecodeLnkConsts =
      ["cfrom", "-1", "cto"]
    ∧ c02XDecodeListConsts =
      ["end", "events", "dmrs"]
    ∧ c02XEncodeListConsts =
      ["dmrs-list", "LKB", "Lkb", "lkb", "0", "3", "indent", "maxdepth", "level", "4", "maxdepth", "level", "unicode", "encoding"]
    ∧ c02XIndentConsts =
      ["\n", " ", "1", ""]
    ∧ c02JToDictConsts =
      ["nodeid", "predicate", "sortinfo", "carg", "from", "to", "lnk", "surface", "base", "from", "to", "rargname", "post", "nodes", "links", "top", "index", "identifier"]
    ∧ c02JFromDictConsts =
      ["from", "to", "nodes", "sortinfo", "nodeid", "predicate", "carg", "lnk", "surface", "base", "type", "properties", "carg", "lnk", "surface", "base", "links", "from", "to", "rargname", "post", "top", "index", "identifier", "top", "index", "nodes", "links", "lnk", "surface", "identifier"]
    ∧ c02PToTriplesConsts =
      ["start", "1", "q", "{}{}", "_", "key", ":instance", ":lnk", "\"{}\"", ":carg", ":", ":{}-{}"]
    ∧ c02PFromTriplesConsts =
      [":", "top", "pred", "lnk", "type", "props", "carg", "instance", "pred", "lnk", "\"<>", "carg", "0", "-1", "\"", "\"", "1", "type", "props", "-", "id", "predicate", "type", "properties", "lnk", "carg", "top", "nodes", "links", "lnk", "surface", "identifier"]
    ∧ c02PEscapeConsts =
      ["\\", "\\\\", "\"", "\\\""]
    ∧ c02PUnescapeConsts =
      ["0", "\\", "1", "2", ""]
    ∧ c02NormalizeTopConsts =
      []
    ∧ c02NodeSortinfoConsts =
      []
    ∧ c02DmrsInitConsts =
      []
    ∧ c02IsQuantifierConsts =
      []
    ∧ c02StripPredicateConsts =
      ["\"", "1", "-1", "'", "-4", "_rel"]
    ∧ c02PredNormalizeConsts =
      []
    ∧ c02PredSplitConsts =
      ["lemma", "pos", "sense"]
    ∧ c02PredCreateConsts =
      ["_"]
    ∧ c02PredIsSurfaceConsts =
      ["1"]
    ∧ c02PropertyPriorityConsts =
      []
    ∧ c02LnkInitConsts =
      ["1", "-1", "<", ">", "@", ":", "#"]
    ∧ c02LnkStrConsts =
      ["", "<{}:{}>", "0", "1", "<{}#{}>", "<@{}>", "<{}>", " "]
    ∧ c02LnkBoolConsts =
      ["-1", "-1"]
    ∧ c02LnkCfromConsts =
      ["-1", "0"]
    ∧ c02LnkCtoConsts =
      ["-1", "1"]
    ∧ c02LnkCharspanConsts =
      []
    ∧ c02BfsConsts =
      []
    ∧ c02LexerPeekConsts =
      ["0", "1"]
    ∧ c02LexerNextConsts =
      ["0"]
    ∧ c02LexerAcceptConsts =
      ["skip", "drop", "skip"]
    ∧ c02LexerExpectConsts =
      ["skip", "lineno", "offset", "text", "1", "0"]
    ∧ c02PredicateRegexes =
      ["[^\\s_]+", "32", "[acdjnpqrsuvx]", "34", "[^\\s_]+", "32", "(_[^\\s_]+_[acdjnpqrsuvx](?:_[^\\s_]+)?)$|([^\\s_]\\S*)$", "34", "_?(?P<lemma>[^\\s_]+(?:_[^\\s_]+)*?)(?:_(?P<pos>[acdjnpqrsuvx]))?(?:_(?P<sense>[^\\s_]+))?(?:_rel)?$", "34"]
    ∧ c02LnkTypes =
      ["0", "1", "2", "3", "4"]
    ∧ c02DmrxFrame =
      ["<dmrs-list>", "", "</dmrs-list>", "[", ",", "]"]
    ∧ c02DmrsConstants =
      ["0", "10000", "RSTR", "MOD", "EQ", "HEQ", "NEQ", "H", "NIL", "cvarsort"]
    ∧ c02Defaults =
      ["simpledmrs.encode(True, True, False)", "simpledmrs.dumps(True, True, False)", "simpledmrs.dump(True, True, False, 'utf-8')", "dmrx.encode(True, True, False)", "dmrx.dumps(True, True, False)", "dmrx.dump(True, True, False, 'utf-8')", "dmrsjson.encode(True, True, False)", "dmrsjson.dumps(True, True, False)", "dmrsjson.dump(True, True, False, 'utf-8')", "dmrspenman.encode(True, True, False)", "dmrspenman.dumps(False, True, False)", "dmrspenman.dump(False, True, False, 'utf-8')", "to_dict(True, True)", "to_triples(True, True)", "LookaheadIterator(1024)", "LookaheadLexer(1024)", "peek(0, None, False)", "Node(None, None, None, None, None, None)", "DMRS(None, None, None, None, None, None, None)"] := by
  refine ⟨?_, ?_, ?_, ?_, ?_, ?_, ?_, ?_, ?_, ?_, ?_, ?_, ?_, ?_, ?_, ?_, ?_, ?_, ?_, ?_, ?_, ?_, ?_, ?_, ?_, ?_, ?_, ?_, ?_, ?_, ?_, ?_, ?_, ?_, ?_, ?_, ?_, ?_, ?_, ?_, ?_, ?_, ?_, ?_, ?_, ?_, ?_, ?_, ?_, ?_, ?_, ?_, ?_, ?_, ?_, ?_, ?_, ?_, ?_, ?_⟩ <;> rfl

/-- Pins of the public wrappers (round 6): the indent plumbing the models `layoutD`/`layoutC` (`'LKB'` spellings,
`_indent(elem, 0, 2, 0)` / `(elem, indent, 3, 0)`), `model_indent` (`True` is 2 for SimpleDMRS and DMRS-JSON, -1 for
penman) mirror, and the keyword names with which `dump` hands its options on to `dumps` (a dropped keyword
changes the list). -/
theorem c02_pins_api :
    c02XEncodeConsts = ["LKB", "Lkb", "lkb", "0", "2", "indent", "maxdepth", "level", "3", "maxdepth", "level", "unicode", "encoding"]
    ∧ c02XDumpConsts = ["properties", "lnk", "indent", "write", "file", "w", "encoding"]
    ∧ c02JEncodeConsts = ["2", "properties", "lnk", "indent"]
    ∧ c02JDumpsConsts = ["2", "properties", "lnk", "indent"]
    ∧ c02JDumpConsts = ["2", "properties", "lnk", "write", "indent", "w", "encoding"]
    ∧ c02PEncodeConsts = ["-1", "properties", "lnk", "indent"]
    ∧ c02PDumpsConsts = ["-1", "properties", "lnk", "indent"]
    ∧ c02PDumpConsts = ["properties", "lnk", "indent", "write", "file", "w", "encoding"]
    ∧ c02SdDumpConsts = ["properties", "lnk", "indent", "write", "file", "w", "encoding"] := by
  refine ⟨?_, ?_, ?_, ?_, ?_, ?_, ?_, ?_, ?_⟩ <;> rfl

end Verif.C02
