/-
C02 — "DMRS serializations are lossless and stable (SimpleDMRS, DMRX, JSON, PENMAN)": property theorems.

All statements are about the model `Verif.C02.Model` (tied to /repo by the correspondence run of
harness/c02.py).  Proofs are in `Verif.C02.Lemmas`; this file states the clauses.
-/
import Verif.C02.Model
import Verif.C02.Lemmas
import Verif.C02.PLemmas

namespace Verif.C02
open Verif.Codec Verif.Py

/-! ## SimpleDMRS -/

/-- "For every DMRS, decoding its SimpleDMRS … encoding yields the same node identifiers, predicates,
node types, properties, constants, surface alignments, links (start, end, role, post) and top/index":
token-level round trip with an arbitrary remainder `rest`, for every option setting.  `viewS` is the
identity on all these fields except that (a) suppressed information is removed (next theorems) and
(b) a node type `u` is read back as `None` (known finding F11, `dropU`).

FULL STATEMENT (not provable, F11): `decDmrs (encDmrsToks o d ++ rest) = .ok (keptS o d, rest)` for every
expressible `d`; the missing hypothesis is `NoTypeU d` — see `simpledmrs_roundtrip_partial` and
`simpledmrs_cex_type_u`. -/
theorem simpledmrs_roundtrip_view (o : Opts) (d : DMRS) (hwf : d.WF) (hx : ExpressibleSD d) (rest : List T) :
    decDmrs (encDmrsToks o d ++ rest) = .ok (viewS o d, rest) :=
  decDmrs_encDmrsToks o d hwf hx rest

/-- no node has the type `u` -/
def NoTypeU (d : DMRS) : Prop := ∀ n ∈ d.nodes, n.type ≠ some (S "u")

/-- what the property promises to keep under the options `o`: every listed field unchanged; only the
suppressed information removed (node/graph surface strings and base forms are not part of SimpleDMRS). -/
def keptNodeS (o : Opts) (n : Node) : Node :=
  { id := n.id, pred := n.pred, type := n.type, props := if o.properties then n.props else [],
    carg := n.carg, lnk := if o.lnk then n.lnk else .unspec }

def keptS (o : Opts) (d : DMRS) : DMRS :=
  { top := d.top, index := d.index, nodes := d.nodes.map (keptNodeS o), links := d.links,
    lnk := if o.lnk && d.lnk.truthy then d.lnk else .unspec,
    surface := if o.lnk then d.surface else none, identifier := d.identifier }

/-- the main clause for SimpleDMRS under the hypothesis forced by F11 -/
theorem simpledmrs_roundtrip_partial (o : Opts) (d : DMRS) (hwf : d.WF) (hx : ExpressibleSD d)
    (hu : NoTypeU d) (rest : List T) :
    decDmrs (encDmrsToks o d ++ rest) = .ok (keptS o d, rest) := by
  rw [decDmrs_encDmrsToks o d hwf hx rest]
  have : d.nodes.map (viewNodeS o) = d.nodes.map (keptNodeS o) := by
    apply List.map_congr_left
    intro n hn
    have := hu n hn
    unfold viewNodeS keptNodeS dropU
    cases hty : n.type with
    | none => rfl
    | some t =>
      have hne : t ≠ S "u" := by intro e; apply this; rw [hty, e]
      simp [hne]
  simp [viewS, keptS, this]

/-- the witness of F11: `Node(10000, '_x_n_1', 'u')` -/
def dTypeU : DMRS :=
  { top := some 10000, index := none, nodes := [{ id := 10000, pred := S "_x_n_1", type := some (S "u") }], links := [] }

example : dTypeU.WF := by intro l hl; cases hl
example : ExpressibleSD dTypeU := by
  refine ⟨?_, by intro l hl; cases hl⟩
  intro n hn
  simp [dTypeU] at hn
  subst hn
  exact ⟨by simp [KeysNodup], by simp, by simp, by decide⟩

def typesOf : Except Err (DMRS × List T) → List (Option Str)
  | .ok (d, _) => d.nodes.map (fun n => n.type)
  | .error _ => []

/-- F11 (still present): the node type `u` is not written, so it is read back as `None`. -/
theorem simpledmrs_cex_type_u :
    decDmrs (encDmrsToks ⟨true, true⟩ dTypeU) ≠ .ok (keptS ⟨true, true⟩ dTypeU, []) ∧
    (match decDmrs (encDmrsToks ⟨true, true⟩ dTypeU) with
     | .ok (d', _) => d'.nodes.map (·.type) = [none]
     | .error _ => False) := by
  have h := decDmrs_encDmrsToks ⟨true, true⟩ dTypeU (by intro l hl; cases hl)
    (by
      refine ⟨?_, by intro l hl; cases hl⟩
      intro n hn
      simp [dTypeU] at hn
      subst hn
      exact ⟨by simp [KeysNodup], by simp, by simp, by decide⟩) []
  simp only [List.append_nil] at h
  rw [h]
  constructor
  · intro e
    have := congrArg typesOf e
    simp [typesOf, viewS, keptS, viewNodeS, keptNodeS, dTypeU, dropU] at this
  · simp [viewS, viewNodeS, dTypeU, dropU]

/-- "… crossed with … single vs. list API": `loads(dumps(ds))` at token level. -/
theorem simpledmrs_list_roundtrip (o : Opts) (ds : List DMRS) (h : ∀ d ∈ ds, d.WF ∧ ExpressibleSD d) :
    decodeList (ds.flatMap (encDmrsToks o)) = .ok (ds.map (viewS o)) :=
  decodeList_encDmrsToks o ds h

/-- "Suppressing properties … or alignments removes exactly that information" (SimpleDMRS keeps the
node type outside the property list): with `properties = false` the decoded nodes have no properties and
keep id, predicate, type (up to F11), constant and alignment; with `lnk = false` no alignment and no
surface string. -/
theorem simpledmrs_suppression (o : Opts) (d : DMRS) :
    (viewS o d).nodes.map (·.id) = d.nodes.map (·.id) ∧
    (viewS o d).nodes.map (·.pred) = d.nodes.map (·.pred) ∧
    (viewS o d).nodes.map (·.carg) = d.nodes.map (·.carg) ∧
    (viewS o d).nodes.map (·.type) = d.nodes.map (fun n => dropU n.type) ∧
    (viewS o d).nodes.map (·.props) = d.nodes.map (fun n => if o.properties then n.props else []) ∧
    (viewS o d).nodes.map (·.lnk) = d.nodes.map (fun n => if o.lnk then n.lnk else .unspec) ∧
    (viewS o d).links = d.links ∧ (viewS o d).top = d.top ∧ (viewS o d).index = d.index ∧
    (viewS o d).identifier = d.identifier ∧
    (viewS o d).surface = (if o.lnk then d.surface else none) := by
  simp [viewS, viewNodeS, List.map_map, Function.comp_def]

/-- "re-encoding reproduces the text" (token level): encoding the decoded graph gives the same tokens. -/
theorem simpledmrs_stable (o : Opts) (d : DMRS) : encDmrsToks o (viewS o d) = encDmrsToks o d := by
  have hn : ∀ n : Node, encNodeToks o (viewNodeS o n) = encNodeToks o n := by
    intro n
    obtain ⟨op, ol⟩ := o
    cases op <;> cases ol <;> cases hty : n.type <;>
      simp [encNodeToks, viewNodeS, typeToks, dropU, hty, lnkToks] <;>
      (split <;> simp_all)
  obtain ⟨op, ol⟩ := o
  have hnodes : (d.nodes.map (viewNodeS ⟨op, ol⟩)).flatMap (encNodeToks ⟨op, ol⟩) = d.nodes.flatMap (encNodeToks ⟨op, ol⟩) := by
    rw [List.flatMap_map]
    congr 1
    funext n
    exact hn n
  unfold encDmrsToks
  simp only [viewS]
  rw [hnodes]
  congr 3
  have hun : Lnk.unspec.truthy = false := rfl
  cases ol <;> cases htr : d.lnk.truthy <;> simp [attrToks, htr, hun]

/-! ## DMRS-JSON and DMRX -/

/-- "decoding its … DMRS-JSON encoding yields the same node identifiers, predicates, node types,
properties, constants, surface alignments, links … and top/index": dictionary round trip (`json` itself is a
parameter).  `viewJ` is the identity on a graph whose alignments are character spans, except for
suppressed information (next theorem). -/
theorem dmrsjson_roundtrip (o : Opts) (d : DMRS) (hwf : d.WF) (hx : ExpressibleJ d) :
    fromDict (toDict o d) = .ok (viewJ o d) :=
  fromDict_toDict o d hwf hx

/-- with everything switched on the JSON view is the identity on nodes whose alignment is a character
span or absent -/
theorem viewNodeJ_id (n : Node) (h : n.lnk = .unspec ∨ ∃ a b, n.lnk = .charspan a b ∧ ¬ (a = -1 ∧ b = -1)) :
    viewNodeJ ⟨true, true⟩ n = n := by
  obtain ⟨id, pred, type, props, carg, lnk, surface, base⟩ := n
  simp only at h
  rcases h with h | ⟨a, b, h, hab⟩
  · subst h; simp [viewNodeJ, viewLnkJ, Lnk.truthy]
  · subst h
    have : (Lnk.charspan a b).truthy = true := by
      simp only [Lnk.truthy]
      by_cases ha : a = -1 <;> by_cases hb : b = -1 <;> simp_all
    simp [viewNodeJ, viewLnkJ, this, Lnk.cfrom, Lnk.cto]

/-- "Suppressing properties (together with the node type in the formats that store the type among the
properties) … removes exactly that information": in DMRX and DMRS-JSON `properties = false` removes
properties AND type, nothing else; `lnk = false` removes alignment and surface/base strings, nothing else. -/
theorem sortinfo_formats_suppression (o : Opts) (d : DMRS) :
    (viewJ o d).nodes.map (·.type) = d.nodes.map (fun n => if o.properties then n.type else none) ∧
    (viewX o d).nodes.map (·.type) = d.nodes.map (fun n => if o.properties then n.type else none) ∧
    (viewJ o d).nodes.map (·.props) = d.nodes.map (fun n => if o.properties then n.props else []) ∧
    (viewX o d).nodes.map (·.props) = d.nodes.map (fun n => if o.properties then n.props else []) ∧
    (viewJ o d).nodes.map (fun n => (n.id, n.pred, n.carg)) = d.nodes.map (fun n => (n.id, n.pred, n.carg)) ∧
    (viewX o d).nodes.map (fun n => (n.id, n.pred, n.carg)) = d.nodes.map (fun n => (n.id, n.pred, n.carg)) ∧
    (viewJ o d).nodes.map (fun n => (n.surface, n.base)) =
      d.nodes.map (fun n => if o.lnk then (n.surface, n.base) else (none, none)) ∧
    (viewX o d).nodes.map (fun n => (n.surface, n.base)) =
      d.nodes.map (fun n => if o.lnk then (n.surface, n.base) else (none, none)) ∧
    (viewJ o d).links = d.links ∧ (viewX o d).links = d.links ∧
    (viewJ o d).top = d.top ∧ (viewX o d).top = d.top ∧ (viewX o d).index = d.index ∧
    (viewJ o d).identifier = d.identifier ∧ (viewX o d).identifier = d.identifier := by
  obtain ⟨op, ol⟩ := o
  cases op <;> cases ol <;> simp [viewJ, viewX, viewNodeJ, viewNodeX, List.map_map, Function.comp_def]

/-- "decoding its … DMRX … encoding yields the same node identifiers, predicates, node types, properties,
constants, surface alignments, links … and top/index": tree round trip (`xml.etree` is a parameter).
`viewX` is the identity on these fields up to the representation of a missing alignment as `<-1:-1>` and the
suppressed information (`sortinfo_formats_suppression`). -/
theorem dmrx_roundtrip (o : Opts) (d : DMRS) (hwf : d.WF) (hx : ExpressibleX d) :
    ∃ x, toXml o d = .ok x ∧ ofXml x = .ok (viewX o d) :=
  ofXml_toXml o d hwf hx (fun n hn => predRT_of_normal n.pred (hx.1 n hn).predNorm (hx.1 n hn).predNe)

/-- the same with the predicate round trip as an explicit hypothesis (round-1 form, kept) -/
theorem dmrx_roundtrip_partial (o : Opts) (d : DMRS) (hwf : d.WF) (hx : ExpressibleX d)
    (hp : ∀ n ∈ d.nodes, PredRT n.pred) :
    ∃ x, toXml o d = .ok x ∧ ofXml x = .ok (viewX o d) :=
  ofXml_toXml o d hwf hx hp

/-- `predicate.create(*predicate.split(p))` gives back a normalised surface predicate `_lemma_pos(_sense)`:
it survives `<realpred lemma pos sense>` -/
theorem dmrx_realpred_roundtrip (p : Str) (hn : normalizePred p = p) (hs : isSurface p = true) : PredRT p :=
  predRT_surface p hn hs

/-- "re-encoding reproduces the text", at the level of the tree / dictionary the encoders build (the text
layout itself is `xml.etree`'s and `json`'s): re-encoding the decoded graph builds the same tree … -/
theorem dmrx_stable_tree (o : Opts) (d : DMRS) : toXml o (viewX o d) = toXml o d :=
  toXml_view o d

/-- … and the same dictionary (alignments being character spans or absent, as DMRS-JSON can only write those). -/
theorem dmrsjson_stable_dict (o : Opts) (d : DMRS) (hn : ∀ n ∈ d.nodes, SpanOrNone n.lnk) (hg : SpanOrNone d.lnk) :
    toDict o (viewJ o d) = toDict o d :=
  toDict_view o d hn hg

/-- an abstract predicate in normal form survives `<gpred>` -/
theorem dmrx_gpred_roundtrip (p : Str) (hn : normalizePred p = p) (hne : p ≠ []) (hs : isSurface p = false) :
    PredRT p :=
  predRT_gpred p hn hne hs

/-- the hypothesis is satisfiable for a surface predicate, too -/
example : PredRT (S "_rain_v_1") :=
  ⟨{ tag := S "realpred", attrs := [(S "lemma", S "rain"), (S "pos", S "v"), (S "sense", S "1")], text := none },
   by decide, by decide, by decide⟩

/-! ## DMRS-PENMAN -/

/-- "DMRS-PENMAN does the same for graphs connected from the top, up to the documented renumbering of node
identifiers" (the penman library as the identity on triple lists): decoding the triples written for `d` gives
`viewP o d` = the part of `d` connected to the top (all of `d` when it is connected,
`penman_connected_keeps_all`), top node first, identifiers renumbered by `renId` (next theorems), with the
same predicates, types, constants, character-span alignments, property maps (in `sorted(property_priority)`
order) and links; index, surface/base strings and graph-level lnk/surface/identifier are not part of the
format.  The real penman library returns the nodes in tree order, so the public API agrees with `viewP` up to
a further permutation of the numbering (that is what the direct oracle checks). -/
theorem penman_roundtrip (o : Opts) (d : DMRS) (hx : ExpressibleP d) :
    ∃ ts, toTriples o d = .ok ts ∧ fromTriples ts = .ok (viewP o d) :=
  fromTriples_toTriples o d hx

/-- the hypotheses are satisfiable: "the dog" with a quantifier link -/
def dP : DMRS :=
  { top := some 10001, index := none,
    nodes := [{ id := 10000, pred := S "_the_q" }, { id := 10001, pred := S "_dog_n_1", type := some (S "x"), props := [(S "NUM", S "sg")], lnk := .charspan 4 7 }],
    links := [⟨10000, 10001, some (S "RSTR"), some (S "H")⟩] }
example : ExpressibleP dP where
  nodes := by
    intro n hn
    simp [dP] at hn
    rcases hn with h | h <;> subst h <;>
      exact ⟨by decide, by decide, by decide, by decide, by simp⟩
  links := by
    intro l hl
    simp [dP] at hl
    subst hl
    exact ⟨⟨S "RSTR", rfl, by decide, by decide⟩, ⟨S "H", rfl, by decide⟩, by
      intro r p hr hp
      simp at hr hp
      subst hr hp
      decide⟩
  ids := by decide
  ends := by decide
  top := ⟨10001, rfl, by decide⟩
  vars := by decide

/-- "the documented renumbering": the top node becomes 10000 … -/
theorem penman_renumber_top (d : DMRS) (t : Int) (ht : d.top = some t) (hmem : t ∈ d.nodes.map (·.id)) :
    renId d t = FIRST_NODE_ID :=
  renId_top d t ht hmem

/-- … the kept nodes are numbered consecutively from 10000 in their order … -/
theorem penman_renumber_consecutive (d : DMRS) (hnd : ((pOrder d).map (·.id)).Nodup) (i : Nat)
    (hi : i < (pOrder d).length) : renId d ((pOrder d)[i]).id = FIRST_NODE_ID + (i : Int) :=
  renId_getElem d hnd i hi

/-- … and the renumbering is a bijection of the kept identifiers onto `10000 … 10000+k-1`. -/
theorem penman_renumber_bijective (d : DMRS) (a b : Int)
    (ha : a ∈ (pOrder d).map (·.id)) (hb : b ∈ (pOrder d).map (·.id)) :
    (renId d a = renId d b → a = b) ∧
    FIRST_NODE_ID ≤ renId d a ∧ renId d a < FIRST_NODE_ID + ((pOrder d).length : Int) :=
  ⟨renId_injOn d a b ha hb, renId_range d a ha⟩

/-- "for graphs connected from the top" no node is dropped (and the top itself is always kept) -/
theorem penman_connected_keeps_all (d : DMRS) (hc : ∀ n ∈ d.nodes, n.id ∈ mainComponent d) :
    (pOrder d).length = d.nodes.length :=
  pOrder_length_of_connected d hc

theorem penman_top_kept (d : DMRS) (t : Int) (ht : d.top = some t) : t ∈ mainComponent d :=
  top_mem_mainComponent d t ht

/-! ## the constructor (`_normalize_top_and_links`) -/

/-- "legacy top link from node 0 normalised to top attribute": every link from node 0 is removed, in
both cases … -/
theorem normalizeTop_removes (top : Option Int) (ls : List Link) :
    (normalizeTop top ls).2 = ls.filter (fun l => l.start ≠ TOP_NODE_ID) :=
  normalizeTop_links top ls

/-- … a given top is kept (the link is ignored) … -/
theorem normalizeTop_keeps_given (t : Int) (ls : List Link) : (normalizeTop (some t) ls).1 = some t :=
  normalizeTop_top_some t ls

/-- … and without a given top the first link from node 0 sets it. -/
theorem normalizeTop_sets_missing (ls : List Link) :
    (normalizeTop none ls).1 = (ls.find? (fun l => l.start = TOP_NODE_ID)).map (·.stop) :=
  normalizeTop_top_none ls

/-- normalising twice changes nothing; the result is the class invariant `WF` used above -/
theorem normalizeTop_idempotent (top : Option Int) (ls : List Link) :
    normalizeTop (normalizeTop top ls).1 (normalizeTop top ls).2 = normalizeTop top ls :=
  normalizeTop_idem top ls

theorem constructor_wf (top index : Option Int) (ns : List Node) (ls : List Link) (lnk : Lnk) (s i : Option Str) :
    (mkDMRS top index ns ls lnk s i).WF :=
  mkDMRS_wf top index ns ls lnk s i

end Verif.C02
