/-
C02 — DMRS-PENMAN: the variables `to_triples` hands out are pairwise different whenever the node identifiers are
and every node type is at most one character long (the sort letters x, e, i, u, p, h …, or none): a variable is
one prefix character (`q`, `_` or the sort letter), the 1-based position in decimal, then underscores (fix 32cdf83),
so the position can be read back from it.  This discharges the hypothesis `ExpressibleP.vars`.
-/
import Verif.C02.PLemmas

namespace Verif.C02
open Verif.Codec Verif.Py

/-- every node type is a single character (or absent / empty) -/
def SortTypes (d : DMRS) : Prop := ∀ n ∈ d.nodes, ∀ t, n.type = some t → t.length ≤ 1

theorem freshen_form (preds : List Str) : ∀ (fuel : Nat) (v : Str), ∃ k, freshen preds fuel v = v ++ List.replicate k '_'
  | 0, v => ⟨0, by simp [freshen]⟩
  | f + 1, v => by
    unfold freshen
    by_cases h : v ∈ preds
    · obtain ⟨k, hk⟩ := freshen_form preds f (v ++ ['_'])
      refine ⟨k + 1, ?_⟩
      simp [h, hk, List.replicate_succ]
    · exact ⟨0, by simp [h]⟩

/-- the variable is one character, the position, underscores -/
theorem varName_form (d : DMRS) (hs : SortTypes d) (i : Nat) (n : Node) (hn : n ∈ d.nodes) :
    ∃ c k, varName d i n = c :: natStr i ++ List.replicate k '_' := by
  unfold varName
  obtain ⟨k, hk⟩ := freshen_form (d.nodes.map (·.pred)) (d.nodes.length + 1) (baseVar d i n)
  rw [hk]
  unfold baseVar
  by_cases hq : isQuantifier d n.id = true
  · exact ⟨'q', k, by simp [hq]⟩
  · simp only [hq, Bool.false_eq_true, ↓reduceIte]
    cases ht : n.type with
    | none => exact ⟨'_', k, by simp⟩
    | some t =>
      cases t with
      | nil => exact ⟨'_', k, by simp⟩
      | cons c r =>
        have := hs n hn (c :: r) ht
        have hr : r = [] := by
          cases r with
          | nil => rfl
          | cons _ _ => simp at this
        subst hr
        exact ⟨c, k, by simp⟩

/-- the position written inside a variable -/
def numOf (v : Str) : Str := (v.drop 1).takeWhile Char.isDigit

theorem takeWhile_digits (a : Str) (k : Nat) (ha : ∀ c ∈ a, c.isDigit = true) :
    (a ++ List.replicate k '_').takeWhile Char.isDigit = a := by
  induction a with
  | nil =>
    cases k with
    | zero => rfl
    | succ k => simp [List.replicate_succ]
  | cons x a ih =>
    have hx := ha x (by simp)
    simp only [List.cons_append, List.takeWhile_cons, hx, ↓reduceIte]
    rw [ih (fun c hc => ha c (by simp [hc]))]

theorem numOf_varName (d : DMRS) (hs : SortTypes d) (i : Nat) (n : Node) (hn : n ∈ d.nodes) :
    numOf (varName d i n) = natStr i := by
  obtain ⟨c, k, h⟩ := varName_form d hs i n hn
  rw [h]
  unfold numOf
  simp only [List.cons_append, List.drop_succ_cons, List.drop_zero]
  exact takeWhile_digits _ k (fun c hc => mem_natStr_isDigit hc)

theorem natStr_inj {a b : Nat} (h : natStr a = natStr b) : a = b := by
  have := congrArg digitsToNat h
  rwa [digitsToNat_natStr, digitsToNat_natStr] at this

theorem nodup_map_inj {α β : Type} (f : α → β) (hf : ∀ a b, f a = f b → a = b) (l : List α) (h : l.Nodup) :
    (l.map f).Nodup := by
  induction l with
  | nil => simp
  | cons a l ih =>
    simp only [List.map_cons, List.nodup_cons] at h ⊢
    refine ⟨?_, ih h.2⟩
    intro hm
    obtain ⟨b, hb, hbe⟩ := List.mem_map.mp hm
    exact h.1 (hf b a hbe ▸ hb)

/-! ### the variable map when the identifiers are pairwise different -/

theorem enumFrom1_fst_ge (i : Nat) (l : List Node) : ∀ p ∈ enumFrom1 i l, i ≤ p.1 := by
  induction l generalizing i with
  | nil => intro p hp; cases hp
  | cons a l ih =>
    intro p hp
    simp only [enumFrom1, List.mem_cons] at hp
    rcases hp with h | h
    · subst h; exact Nat.le_refl _
    · exact Nat.le_of_succ_le (ih (i + 1) p h)

theorem enumFrom1_fst_nodup (i : Nat) (l : List Node) : ((enumFrom1 i l).map (·.1)).Nodup := by
  induction l generalizing i with
  | nil => simp [enumFrom1]
  | cons a l ih =>
    simp only [enumFrom1, List.map_cons, List.nodup_cons]
    refine ⟨?_, ih (i + 1)⟩
    intro h
    obtain ⟨p, hp, hpe⟩ := List.mem_map.mp h
    have := enumFrom1_fst_ge (i + 1) l p hp
    omega

theorem enumFrom1_snd_mem (i : Nat) (l : List Node) : ∀ p ∈ enumFrom1 i l, p.2 ∈ l := by
  induction l generalizing i with
  | nil => intro p hp; cases hp
  | cons a l ih =>
    intro p hp
    simp only [enumFrom1, List.mem_cons] at hp
    rcases hp with h | h
    · subst h; simp
    · exact List.mem_cons_of_mem _ (ih (i + 1) p h)

theorem foldl_idStep_fresh (d : DMRS) (ps : List (Nat × Node)) (acc : List (Int × Str))
    (hnd : (ps.map (·.2.id)).Nodup) (hdis : ∀ p ∈ ps, p.2.id ∉ acc.map (·.1)) :
    ps.foldl (idStep d) acc = acc ++ ps.map (fun p => (p.2.id, varName d p.1 p.2)) := by
  induction ps generalizing acc with
  | nil => simp
  | cons p ps ih =>
    simp only [List.map_cons, List.nodup_cons] at hnd
    have hp := hdis p (by simp)
    have hstep : idStep d acc p = acc ++ [(p.2.id, varName d p.1 p.2)] := by
      unfold idStep
      have : acc.any (fun q => decide (q.1 = p.2.id)) = false := by
        rw [Bool.eq_false_iff]
        intro h
        obtain ⟨q, hq, hqe⟩ := List.any_eq_true.mp h
        have : q.1 = p.2.id := by simpa using hqe
        exact hp (this ▸ List.mem_map_of_mem hq)
      simp [this]
    simp only [List.foldl_cons, hstep]
    rw [ih _ hnd.2]
    · simp
    · intro q hq
      simp only [List.map_append, List.map_cons, List.map_nil, List.mem_append, List.mem_singleton, not_or]
      refine ⟨hdis q (by simp [hq]), ?_⟩
      intro he
      exact hnd.1 (he ▸ List.mem_map_of_mem hq)

theorem idMap_of_nodup (d : DMRS) (hids : (d.nodes.map (·.id)).Nodup) :
    idMap d = (enumFrom1 1 d.nodes).map (fun p => (p.2.id, varName d p.1 p.2)) := by
  rw [idMap_eq_foldl, foldl_idStep_fresh d _ [] (by rw [enumFrom1_ids]; exact hids) (by intro p _; simp)]
  simp

/-- the encoder's variable names are pairwise different -/
theorem vars_nodup (d : DMRS) (hids : (d.nodes.map (·.id)).Nodup) (hs : SortTypes d) :
    ((idMap d).map (·.2)).Nodup := by
  rw [idMap_of_nodup d hids, List.map_map]
  apply nodup_of_map numOf
  rw [List.map_map]
  have hcongr : (enumFrom1 1 d.nodes).map (numOf ∘ (fun q : Int × Str => q.2) ∘ fun p => (p.2.id, varName d p.1 p.2)) =
      (enumFrom1 1 d.nodes).map (fun p => natStr p.1) := by
    apply List.map_congr_left
    intro p hp
    exact numOf_varName d hs p.1 p.2 (enumFrom1_snd_mem 1 d.nodes p hp)
  rw [hcongr]
  have hn := enumFrom1_fst_nodup 1 d.nodes
  have : (enumFrom1 1 d.nodes).map (fun p => natStr p.1) = ((enumFrom1 1 d.nodes).map (·.1)).map natStr := by
    rw [List.map_map]; rfl
  rw [this]
  exact nodup_map_inj natStr (fun a b h => natStr_inj h) _ hn

end Verif.C02
