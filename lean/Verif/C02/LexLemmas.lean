/-
C02 — the character-level lexer reads back the single-line layout of any list of lexically expressible
tokens; composed with the token-level round trip this gives the text-level round trip of SimpleDMRS.
-/
import Verif.C02.Lexer
import Verif.C02.Lemmas
import Verif.C01.LexLemmas

namespace Verif.C02
open Verif.Codec Verif.Py

/-! ### characters -/

theorem symCh_space {c : Char} (h : symCh c = true) : isPySpace c = false := by
  simp [symCh] at h
  exact h.1.1.1.1.1.1.1.1.1.1.1.1.1.1

theorem symCh_noLB {c : Char} (h : symCh c = true) : isLineBreak c = false := by
  cases hh : isLineBreak c with
  | false => rfl
  | true =>
    have := Verif.C01.LexL.lb_space hh
    have h2 : Verif.C01.isPySpace c = false := symCh_space h
    rw [h2] at this; cases this

/-- what may follow a token in the text: nothing, or — after a SYMBOL — a character that neither continues
the symbol nor turns a lone `-` into an arrow -/
def NextOK (t : T) (rest : Str) : Prop :=
  t.kind = K.symbol → rest = [] ∨ ∃ x r, rest = x :: r ∧ symCh x = false ∧ x ≠ '>'

/-- lexically expressible tokens -/
def TokOK (t : T) : Prop :=
  match t.kind with
  | .lbrace => t.text = S "{" | .rbrace => t.text = S "}" | .lbracket => t.text = S "[" | .rbracket => t.text = S "]"
  | .lparen => t.text = S "(" | .rparen => t.text = S ")" | .colon => t.text = S ":" | .slash => t.text = S "/"
  | .equals => t.text = S "=" | .semicolon => t.text = S ";"
  | .lnk => ∃ l, Verif.C01.Lex.LnkOK l ∧ t.text = l.str
  | .dq => ∃ s, t.text = escapeDQ s ∧ noBreak s = true
  | .arrow => t.text = S "--" ∨ t.text = S "->"
  | .symbol => symOK t.text = true

/-! ### one token -/

theorem step_space (r : Str) : step ' ' r = .skip r := by
  have h1 : symCh ' ' = false := by decide
  have h2 : isPySpace ' ' = true := by decide
  simp [step, h1, h2]

theorem symCh_facts {c : Char} (h : symCh c = true) :
    c ≠ '{' ∧ c ≠ '}' ∧ c ≠ '[' ∧ c ≠ ']' ∧ c ≠ '(' ∧ c ≠ ')' ∧ c ≠ '<' ∧ c ≠ '"' ∧ c ≠ ':' ∧ c ≠ '/' ∧
    c ≠ '=' ∧ c ≠ ';' ∧ c ≠ '>' := by
  simp [symCh] at h
  obtain ⟨⟨⟨⟨⟨⟨⟨⟨⟨⟨⟨⟨⟨⟨_, h1⟩, _⟩, h3⟩, h4⟩, h5⟩, h6⟩, h7⟩, h8⟩, h9⟩, h10⟩, h11⟩, h12⟩, h13⟩, h14⟩ := h
  exact ⟨h13, h14, h11, h12, h3, h4, h8, h1, h6, h5, h9, h7, h10⟩

theorem step_symbol (c : Char) (tx rest : Str) (hall : ∀ x ∈ c :: tx, symCh x = true)
    (hdd : ¬ (c = '-' ∧ tx.head? = some '-'))
    (hn : rest = [] ∨ ∃ x r, rest = x :: r ∧ symCh x = false ∧ x ≠ '>') :
    step c (tx ++ rest) = .tok (sym (c :: tx)) rest := by
  have hc := hall c (by simp)
  obtain ⟨f1, f2, f3, f4, f5, f6, f7, f8, f9, f10, f11, f12, f13⟩ := symCh_facts hc
  have hstop : ∀ x r, rest = x :: r → symCh x = false := by
    intro x r e
    rcases hn with hn | ⟨y, r', e', hy, _⟩
    · rw [hn] at e; cases e
    · rw [e'] at e; cases e; exact hy
  have htw := Verif.C01.LexL.tw_stop symCh (c :: tx) rest hall hstop
  -- the two arrow tests fail
  have ha1 : ¬ (c = '-' ∧ (tx ++ rest).head? = some '-') := by
    rintro ⟨e, hh⟩
    cases tx with
    | nil =>
      rcases hn with hn | ⟨y, r', e', hy, _⟩
      · rw [hn] at hh; simp at hh
      · rw [e'] at hh; simp at hh; subst hh; exact absurd hy (by decide)
    | cons y ty => simp at hh; exact hdd ⟨e, by simp [hh]⟩
  have ha2 : ¬ (c = '-' ∧ (tx ++ rest).head? = some '>') := by
    rintro ⟨e, hh⟩
    cases tx with
    | nil =>
      rcases hn with hn | ⟨y, r', e', _, hy⟩
      · rw [hn] at hh; simp at hh
      · rw [e'] at hh; simp at hh; exact hy hh
    | cons y ty =>
      simp at hh
      have := hall y (by simp)
      rw [hh] at this
      exact absurd this (by decide)
  simp only [List.cons_append] at htw
  simp only [step, f1, f2, f3, f4, f5, f6, f7, f8, f9, f10, f11, f12, if_false, ha1, ha2, hc, if_true, htw.1, htw.2]

theorem symOK_cons {s : Str} (h : symOK s = true) :
    ∃ c tx, s = c :: tx ∧ (∀ x ∈ c :: tx, symCh x = true) ∧ ¬ (c = '-' ∧ tx.head? = some '-') := by
  simp only [symOK, Bool.and_eq_true, Bool.not_eq_true', List.all_eq_true, decide_eq_false_iff_not] at h
  obtain ⟨⟨h1, h2⟩, h3⟩ := h
  cases s with
  | nil => simp at h1
  | cons c tx =>
    refine ⟨c, tx, rfl, h2, ?_⟩
    rintro ⟨e, hh⟩
    cases tx with
    | nil => simp at hh
    | cons y ty =>
      simp at hh
      subst e; subst hh
      exact h3 (by simp [S])

/-- every lexically expressible token is read back by one step, whatever admissible text follows -/
theorem step_tok (t : T) (ht : TokOK t) :
    ∃ c r, tokText t = c :: r ∧ ∀ rest, NextOK t rest → step c (r ++ rest) = .tok t rest := by
  obtain ⟨k, tx⟩ := t
  cases k <;> simp only [TokOK] at ht
  case lbrace => subst ht; exact ⟨'{', [], rfl, fun rest _ => by simp [step, tLBRACE]⟩
  case rbrace => subst ht; exact ⟨'}', [], rfl, fun rest _ => by simp [step, tRBRACE]⟩
  case lbracket => subst ht; exact ⟨'[', [], rfl, fun rest _ => by simp [step, tLBRACKET]⟩
  case rbracket => subst ht; exact ⟨']', [], rfl, fun rest _ => by simp [step, tRBRACKET]⟩
  case lparen => subst ht; exact ⟨'(', [], rfl, fun rest _ => by simp [step, tLPAREN]⟩
  case rparen => subst ht; exact ⟨')', [], rfl, fun rest _ => by simp [step, tRPAREN]⟩
  case colon => subst ht; exact ⟨':', [], rfl, fun rest _ => by simp [step, tCOLON]⟩
  case slash => subst ht; exact ⟨'/', [], rfl, fun rest _ => by simp [step, tSLASH]⟩
  case equals => subst ht; exact ⟨'=', [], rfl, fun rest _ => by simp [step, tEQUALS]⟩
  case semicolon => subst ht; exact ⟨';', [], rfl, fun rest _ => by simp [step, tSEMI]⟩
  case lnk =>
    obtain ⟨l, hl, rfl⟩ := ht
    obtain ⟨inner, hstr, _, hm⟩ := Verif.C01.LexL.lnk_shape l hl
    refine ⟨'<', inner ++ ['>'], by simp [tokText, hstr], ?_⟩
    intro rest _
    have := hm rest
    simp [step, this]
  case dq =>
    obtain ⟨s, rfl, _⟩ := ht
    refine ⟨'"', escapeDQ s ++ ['"'], by simp [tokText], ?_⟩
    intro rest _
    have := scanDQ_escapeDQ s rest
    simp [step, this]
  case arrow =>
    rcases ht with rfl | rfl
    · exact ⟨'-', ['-'], rfl, fun rest _ => by simp [step, S]⟩
    · exact ⟨'-', ['>'], rfl, fun rest _ => by simp [step, S]⟩
  case symbol =>
    obtain ⟨c, r, rfl, hall, hdd⟩ := symOK_cons ht
    refine ⟨c, r, by simp [tokText], ?_⟩
    intro rest hn
    exact step_symbol c r rest hall hdd (hn rfl)

/-- a token glued to a symbol begins with a character that ends the symbol -/
theorem glue_head (t u : T) (rs : List T) (hu : TokOK u) (hk : t.kind = K.symbol) (hg : glue t u = true) :
    ∃ x r, render (u :: rs) = x :: r ∧ symCh x = false ∧ x ≠ '>' := by
  have hr : ∃ tail, render (u :: rs) = tokText u ++ tail := by
    cases rs with
    | nil => exact ⟨[], by simp [render]⟩
    | cons v rs' =>
      simp only [render]
      split
      · exact ⟨_, rfl⟩
      · exact ⟨_, rfl⟩
  obtain ⟨tail, hr⟩ := hr
  rw [hr]
  simp only [glue, hk, Bool.or_eq_true, decide_eq_true_eq] at hg
  obtain ⟨k, tx⟩ := u
  simp only at hg
  rcases hg with ((((((((((((h | h) | h) | h) | h) | h) | h) | h) | h) | h) | h) | h) | h) <;>
    first
    | (exact absurd h (by decide))
    | (subst h
       simp only [TokOK] at hu
       first
       | (subst hu; exact ⟨_, _, rfl, by decide, by decide⟩)
       | (obtain ⟨l, hl, rfl⟩ := hu
          obtain ⟨inner, hstr, _, _⟩ := Verif.C01.LexL.lnk_shape l hl
          exact ⟨'<', inner ++ ['>'] ++ tail, by simp [tokText, hstr], by decide, by decide⟩))

/-! ### a whole line -/

theorem lexLine_nil (fuel : Nat) : lexLine fuel [] = some [] := by
  cases fuel <;> simp [lexLine]

theorem lexLine_render : ∀ (ts : List T), (∀ t ∈ ts, TokOK t) →
    ∀ fuel, (render ts).length < fuel → lexLine fuel (render ts) = some ts
  | [], _, fuel, _ => by simp [render, lexLine_nil]
  | [t], hok, fuel, hf => by
    obtain ⟨c, r, htt, hst⟩ := step_tok t (hok t (by simp))
    have hst' := hst [] (fun _ => Or.inl rfl)
    simp only [render, htt] at hf ⊢
    cases fuel with
    | zero => cases hf
    | succ f =>
      simp only [List.append_nil] at hst'
      simp [lexLine, hst', lexLine_nil]
  | t :: u :: rs, hok, fuel, hf => by
    have ih := lexLine_render (u :: rs) (fun x hx => hok x (by simp [hx]))
    obtain ⟨c, r, htt, hst⟩ := step_tok t (hok t (by simp))
    by_cases hg : glue t u = true
    · have hr : render (t :: u :: rs) = tokText t ++ render (u :: rs) := by
        simp only [render]; exact if_pos hg
      have hn : NextOK t (render (u :: rs)) := by
        intro hk
        exact Or.inr (glue_head t u rs (hok u (by simp)) hk hg)
      have hst' := hst _ hn
      rw [hr] at hf ⊢
      simp only [htt, List.cons_append] at hf ⊢
      cases fuel with
      | zero => cases hf
      | succ f =>
        have := ih f (by simp at hf; omega)
        simp [lexLine, hst', this]
    · have hr : render (t :: u :: rs) = tokText t ++ (' ' :: render (u :: rs)) := by
        simp only [render]; exact if_neg hg
      have hn : NextOK t (' ' :: render (u :: rs)) := by
        intro _
        exact Or.inr ⟨' ', _, rfl, by decide, by decide⟩
      have hst' := hst _ hn
      rw [hr] at hf ⊢
      simp only [htt, List.cons_append] at hf ⊢
      cases fuel with
      | zero => cases hf
      | succ f =>
        cases f with
        | zero => simp at hf
        | succ f' =>
          have := ih f' (by simp at hf; omega)
          simp [lexLine, hst', step_space, this]

/-! ### no line break in the layout -/

theorem noBreak_mem {s : Str} (h : noBreak s = true) : ∀ c ∈ s, isLineBreak c = false := by
  intro c hc
  simp only [noBreak, List.all_eq_true, Bool.not_eq_true'] at h
  exact h c hc

theorem tokText_noLB (t : T) (ht : TokOK t) : ∀ c ∈ tokText t, isLineBreak c = false := by
  obtain ⟨k, tx⟩ := t
  cases k <;> simp only [TokOK] at ht
  case lnk =>
    obtain ⟨l, hl, rfl⟩ := ht
    obtain ⟨inner, hstr, hcls, _⟩ := Verif.C01.LexL.lnk_shape l hl
    intro c hc
    simp only [tokText, hstr] at hc
    simp at hc
    rcases hc with rfl | hc | rfl
    · decide
    · exact Verif.C01.LexL.cls_noLB (hcls c hc)
    · decide
  case dq =>
    obtain ⟨s, rfl, hs⟩ := ht
    intro c hc
    simp only [tokText] at hc
    simp at hc
    rcases hc with rfl | hc | rfl
    · decide
    · rcases Verif.C01.LexL.mem_escapeDQ hc with rfl | h
      · decide
      · exact noBreak_mem hs c h
    · decide
  case arrow =>
    rcases ht with rfl | rfl <;> (intro c hc; simp [tokText, S] at hc; rcases hc with rfl | rfl <;> decide)
  case symbol =>
    obtain ⟨c0, r, rfl, hall, _⟩ := symOK_cons ht
    intro c hc
    simp only [tokText] at hc
    exact symCh_noLB (hall c (by simpa using hc))
  all_goals (subst ht; intro c hc; simp [tokText, S] at hc; subst hc; decide)

theorem render_noLB : ∀ (ts : List T), (∀ t ∈ ts, TokOK t) → ∀ c ∈ render ts, isLineBreak c = false
  | [], _, c, hc => by simp [render] at hc
  | [t], hok, c, hc => by
    simp only [render] at hc
    exact tokText_noLB t (hok t (by simp)) c hc
  | t :: u :: rs, hok, c, hc => by
    have ih := render_noLB (u :: rs) (fun x hx => hok x (by simp [hx]))
    simp only [render] at hc
    split at hc
    · rcases List.mem_append.mp hc with h | h
      · exact tokText_noLB t (hok t (by simp)) c h
      · exact ih c h
    · rcases List.mem_append.mp hc with h | h
      · exact tokText_noLB t (hok t (by simp)) c h
      · rcases List.mem_cons.mp h with rfl | h
        · decide
        · exact ih c h

/-- [core] the lexer reads back the single-line layout of lexically expressible tokens -/
theorem lexText_render (ts : List T) (hok : ∀ t ∈ ts, TokOK t) : lexText (render ts) = some ts := by
  unfold lexText
  rw [Verif.C01.LexL.splitLines_noLB _ (render_noLB ts hok)]
  simp only [List.foldr]
  rw [lexLine_render ts hok _ (by omega)]
  simp

/-! ### the tokens of an encoding are lexically expressible -/

def AllOK (l : List T) : Prop := ∀ t ∈ l, TokOK t

theorem AllOK_nil : AllOK [] := fun _ h => by cases h
theorem AllOK_cons {t : T} {l : List T} (h1 : TokOK t) (h : AllOK l) : AllOK (t :: l) := by
  intro x hx
  rcases List.mem_cons.mp hx with rfl | hx
  · exact h1
  · exact h x hx
theorem AllOK_append {a b : List T} (ha : AllOK a) (hb : AllOK b) : AllOK (a ++ b) := by
  intro x hx
  rcases List.mem_append.mp hx with h | h
  · exact ha x h
  · exact hb x h
theorem AllOK_flatMap {α : Type} (f : α → List T) (xs : List α) (h : ∀ x ∈ xs, AllOK (f x)) : AllOK (xs.flatMap f) := by
  intro t ht
  obtain ⟨x, hx, htx⟩ := List.mem_flatMap.mp ht
  exact h x hx t htx

theorem tokOK_sym {s : Str} (h : symOK s = true) : TokOK (sym s) := h

theorem digit_symCh {c : Char} (h : c.isDigit = true) : symCh c = true := by
  have h1 : 48 ≤ c.toNat ∧ c.toNat ≤ 57 := by
    simp [Char.isDigit, UInt32.le_iff_toNat_le] at h
    exact h
  have hs : isPySpace c = false := by
    simp only [isPySpace, Verif.C01.isPySpace, Bool.or_eq_false_iff, Bool.and_eq_false_iff, decide_eq_false_iff_not]
    omega
  have hne : ∀ d : Char, (d.toNat < 48 ∨ 57 < d.toNat) → c ≠ d := by
    intro d hd e; subst e; omega
  simp only [symCh, hs, Bool.not_false, Bool.true_and, Bool.and_eq_true, decide_eq_true_eq]
  refine ⟨⟨⟨⟨⟨⟨⟨⟨⟨⟨⟨⟨⟨?_, ?_⟩, ?_⟩, ?_⟩, ?_⟩, ?_⟩, ?_⟩, ?_⟩, ?_⟩, ?_⟩, ?_⟩, ?_⟩, ?_⟩, ?_⟩ <;> exact hne _ (by decide)

theorem symOK_intStr (i : Int) : symOK (intStr i) = true := by
  have hall : ∀ c ∈ intStr i, symCh c = true := by
    intro c hc
    rcases mem_intStr hc with h | rfl
    · exact digit_symCh h
    · decide
  have hne := intStr_ne_nil i
  have h2 : ¬ (intStr i).take 2 = S "--" := by
    intro e
    cases i with
    | ofNat n =>
      have : '-' ∈ intStr (Int.ofNat n) := by
        have : '-' ∈ (intStr (Int.ofNat n)).take 2 := by rw [e]; decide
        exact List.mem_of_mem_take this
      have hd := mem_natStr_isDigit (n := n) (c := '-') (by simpa [intStr] using this)
      exact absurd hd (by decide)
    | negSucc n =>
      simp only [intStr] at e
      cases hns : natStr (n + 1) with
      | nil => exact natStr_ne_nil _ hns
      | cons d ds =>
        rw [hns] at e
        simp [S] at e
        have hd := mem_natStr_isDigit (n := n + 1) (c := d) (by rw [hns]; simp)
        rw [e] at hd
        exact absurd hd (by decide)
  simp only [symOK, Bool.and_eq_true, Bool.not_eq_true', List.all_eq_true, decide_eq_false_iff_not]
  refine ⟨⟨?_, hall⟩, h2⟩
  cases h : intStr i with
  | nil => exact absurd h hne
  | cons _ _ => rfl

theorem lnkOK_LnkOK {l : Lnk} (h : lnkOK l = true) : Verif.C01.Lex.LnkOK l := by
  cases l with
  | unspec => simp [lnkOK] at h
  | charspan a b => simp [Verif.C01.Lex.LnkOK]
  | chartspan a b => simp [Verif.C01.Lex.LnkOK]
  | tokens ts =>
    simp only [lnkOK, Bool.and_eq_true, Bool.not_eq_true', List.all_eq_true, decide_eq_true_eq] at h
    refine ⟨?_, h.2⟩
    intro e; subst e; simp at h
  | edge n => simpa [lnkOK, Verif.C01.Lex.LnkOK] using h

theorem tokOK_lnk {l : Lnk} (h : lnkOK l = true) : TokOK ⟨.lnk, l.str⟩ := ⟨l, lnkOK_LnkOK h, rfl⟩
theorem tokOK_dq {s : Str} (h : noBreak s = true) : TokOK ⟨.dq, escapeDQ s⟩ := ⟨s, rfl, h⟩

theorem allOK_lnkToks {l : Lnk} (h : (l = .unspec || lnkOK l) = true) : AllOK (lnkToks l) := by
  unfold lnkToks
  split
  · exact AllOK_nil
  · next hne =>
    have : lnkOK l = true := by
      simp only [Bool.or_eq_true, decide_eq_true_eq] at h
      rcases h with h | h
      · exact absurd h hne
      · exact h
    exact AllOK_cons (tokOK_lnk this) AllOK_nil

theorem allOK_node (o : Opts) (n : Node) (h : nodeLexOK n = true) : AllOK (encNodeToks o n) := by
  simp only [nodeLexOK, Bool.and_eq_true, List.all_eq_true] at h
  obtain ⟨⟨⟨⟨hp, hl⟩, hc⟩, ht⟩, hps⟩ := h
  unfold encNodeToks
  refine AllOK_append (AllOK_append (AllOK_append (AllOK_append (AllOK_append ?_ ?_) ?_) ?_) ?_) ?_
  · exact AllOK_cons (tokOK_sym (symOK_intStr _)) (AllOK_cons rfl (AllOK_cons (tokOK_sym hp) AllOK_nil))
  · split
    · exact allOK_lnkToks hl
    · exact AllOK_nil
  · cases hcarg : n.carg with
    | none => exact AllOK_nil
    | some c =>
      rw [hcarg] at hc
      exact AllOK_cons rfl (AllOK_cons (tokOK_dq hc) (AllOK_cons rfl AllOK_nil))
  · unfold typeToks
    cases hty : n.type with
    | none => exact AllOK_nil
    | some t =>
      rw [hty] at ht
      simp only
      split
      · exact AllOK_cons (tokOK_sym ht) AllOK_nil
      · exact AllOK_nil
  · split
    · apply AllOK_flatMap
      intro kv hkv
      have := hps kv hkv
      exact AllOK_cons (tokOK_sym this.1) (AllOK_cons rfl (AllOK_cons (tokOK_sym this.2) AllOK_nil))
    · exact AllOK_nil
  · exact AllOK_cons rfl (AllOK_cons rfl AllOK_nil)

theorem tokOK_arrow (l : Link) : TokOK ⟨.arrow, arrowOf l⟩ := by
  unfold arrowOf
  split
  · exact Or.inr rfl
  · exact Or.inl rfl

theorem allOK_link (l : Link) (h : linkLexOK l = true) : AllOK (encLinkToks l) := by
  simp only [linkLexOK, Bool.and_eq_true] at h
  obtain ⟨hr, hp⟩ := h
  unfold encLinkToks
  refine AllOK_append (AllOK_append ?_ ?_) ?_
  · exact AllOK_cons (tokOK_sym (symOK_intStr _)) (AllOK_cons rfl AllOK_nil)
  · cases hrole : l.role with
    | none => exact AllOK_nil
    | some r =>
      cases r with
      | nil => exact AllOK_nil
      | cons c r' =>
        rw [hrole] at hr
        exact AllOK_cons (tokOK_sym hr) AllOK_nil
  · have hpost : symOK (fmtOpt l.post) = true := by
      cases hpo : l.post with
      | none => decide
      | some p => rw [hpo] at hp; exact hp
    exact AllOK_cons rfl (AllOK_cons (tokOK_sym hpost) (AllOK_cons (tokOK_arrow l)
      (AllOK_cons (tokOK_sym (symOK_intStr _)) (AllOK_cons rfl AllOK_nil))))

theorem allOK_bracket (inner : List T) (h : AllOK inner) :
    AllOK (if inner.isEmpty then [] else tLBRACKET :: inner ++ [tRBRACKET]) := by
  split
  · exact AllOK_nil
  · exact AllOK_cons rfl (AllOK_append h (AllOK_cons rfl AllOK_nil))

theorem allOK_attrs (o : Opts) (d : DMRS) (hl : (!d.lnk.truthy || lnkOK d.lnk) = true)
    (hs : optOK noBreak d.surface = true) : AllOK (attrToks o d) := by
  have htop : symOK (S "top") = true := by decide
  have hidx : symOK (S "index") = true := by decide
  unfold attrToks
  refine allOK_bracket _ ?_
  refine AllOK_append (AllOK_append ?_ ?_) ?_
  · split
    · refine AllOK_append ?_ ?_
      · split
        · next ht =>
          have : lnkOK d.lnk = true := by simpa [ht] using hl
          exact AllOK_cons (tokOK_lnk this) AllOK_nil
        · exact AllOK_nil
      · cases hsf : d.surface with
        | none => exact AllOK_nil
        | some sf =>
          rw [hsf] at hs
          exact AllOK_cons (tokOK_dq hs) AllOK_nil
    · exact AllOK_nil
  · cases d.top with
    | none => exact AllOK_nil
    | some t => exact AllOK_cons (tokOK_sym htop) (AllOK_cons rfl (AllOK_cons (tokOK_sym (symOK_intStr _)) AllOK_nil))
  · cases d.index with
    | none => exact AllOK_nil
    | some t => exact AllOK_cons (tokOK_sym hidx) (AllOK_cons rfl (AllOK_cons (tokOK_sym (symOK_intStr _)) AllOK_nil))

theorem allOK_dmrs (o : Opts) (d : DMRS) (h : lexOK d = true) : AllOK (encDmrsToks o d) := by
  simp only [lexOK, Bool.and_eq_true, List.all_eq_true] at h
  obtain ⟨⟨⟨⟨hid, hn⟩, hl⟩, hlnk⟩, hs⟩ := h
  have hdmrs : symOK (S "dmrs") = true := by decide
  have hshape : encDmrsToks o d = sym (S "dmrs") :: (identToks d.identifier ++ tLBRACE :: (attrToks o d ++
      (d.nodes.flatMap (encNodeToks o) ++ (d.links.flatMap encLinkToks ++ [tRBRACE])))) := by
    simp [encDmrsToks]
  rw [hshape]
  apply AllOK_cons (tokOK_sym hdmrs)
  refine AllOK_append ?_ (AllOK_cons (t := tLBRACE) rfl (AllOK_append ?_ (AllOK_append ?_ (AllOK_append ?_
    (AllOK_cons (t := tRBRACE) rfl AllOK_nil)))))
  · cases hi : d.identifier with
    | none => exact AllOK_nil
    | some i =>
      rw [hi] at hid
      exact AllOK_cons (tokOK_sym hid) AllOK_nil
  · exact allOK_attrs o d hlnk hs
  · exact AllOK_flatMap _ _ (fun n hn' => allOK_node o n (hn n hn'))
  · exact AllOK_flatMap _ _ (fun l hl' => allOK_link l (hl l hl'))

/-! ### text level -/

/-- the lexer reads back the text of one graph … -/
theorem lexText_encodeText (o : Opts) (d : DMRS) (h : lexOK d = true) :
    lexText (encodeText o d) = some (encDmrsToks o d) :=
  lexText_render _ (allOK_dmrs o d h)

/-- … and of a multi-graph document -/
theorem lexText_encodeTextList (o : Opts) (ds : List DMRS) (h : ∀ d ∈ ds, lexOK d = true) :
    lexText (encodeTextList o ds) = some (ds.flatMap (encDmrsToks o)) :=
  lexText_render _ (AllOK_flatMap _ _ (fun d hd => allOK_dmrs o d (h d hd)))

/-- [core] text-level round trip of SimpleDMRS: `decode(encode(d))` -/
theorem decodeText_encodeText (o : Opts) (d : DMRS) (hwf : d.WF) (hx : ExpressibleSD d) (hl : lexOK d = true) :
    decodeText (encodeText o d) = .ok (viewS o d) := by
  unfold decodeText
  rw [lexText_encodeText o d hl]
  have := decDmrs_encDmrsToks o d hwf hx []
  simp only [List.append_nil] at this
  simp [this]

/-- [core] … and `loads(dumps(ds))` -/
theorem decodeTextList_encodeTextList (o : Opts) (ds : List DMRS)
    (h : ∀ d ∈ ds, d.WF ∧ ExpressibleSD d) (hl : ∀ d ∈ ds, lexOK d = true) :
    decodeTextList (encodeTextList o ds) = .ok (ds.map (viewS o)) := by
  unfold decodeTextList
  rw [lexText_encodeTextList o ds hl]
  exact decodeList_encDmrsToks o ds h

/-! ### the indented layout -/

theorem splitLines_line (l rest : Str) (h : ∀ c ∈ l, isLineBreak c = false) :
    Verif.C01.Lex.splitLines (l ++ '\n' :: rest) = l :: Verif.C01.Lex.splitLines rest := by
  induction l with
  | nil =>
    have : Verif.C01.Lex.isLineBreak '\n' = true := by decide
    simp [Verif.C01.Lex.splitLines, this]
  | cons c r ih =>
    have hc : Verif.C01.Lex.isLineBreak c = false := h c (by simp)
    have := ih (fun x hx => h x (by simp [hx]))
    simp [Verif.C01.Lex.splitLines, hc, this]

theorem splitLines_joinNL : ∀ (ls : List Str), ls ≠ [] → (∀ l ∈ ls, ∀ c ∈ l, isLineBreak c = false) →
    Verif.C01.Lex.splitLines (joinNL ls) = ls
  | [], h, _ => absurd rfl h
  | [l], _, h => by
    simp only [joinNL]
    exact Verif.C01.LexL.splitLines_noLB l (h l (by simp))
  | l :: l2 :: ls, _, h => by
    simp only [joinNL]
    rw [splitLines_line l _ (h l (by simp)), splitLines_joinNL (l2 :: ls) (by simp) (fun x hx => h x (by simp [hx]))]

theorem lexLine_indent (k : Nat) (s : Str) (fuel : Nat) :
    lexLine (fuel + k) (List.replicate k ' ' ++ s) = lexLine fuel s := by
  induction k with
  | zero => simp
  | succ k ih =>
    have : fuel + (k + 1) = (fuel + k) + 1 := by omega
    rw [this, List.replicate_succ]
    simp only [List.cons_append, lexLine, step_space]
    exact ih

theorem lexLine_lineText (p : Nat × List T) (hok : AllOK p.2) :
    lexLine ((lineText p).length + 1) (lineText p) = some p.2 := by
  unfold lineText
  have : (List.replicate p.1 ' ' ++ render p.2).length + 1 = ((render p.2).length + 1) + p.1 := by
    simp; omega
  rw [this, lexLine_indent]
  exact lexLine_render p.2 hok _ (by omega)

theorem lineText_noLB (p : Nat × List T) (hok : AllOK p.2) : ∀ c ∈ lineText p, isLineBreak c = false := by
  intro c hc
  unfold lineText at hc
  rcases List.mem_append.mp hc with h | h
  · have := List.eq_of_mem_replicate h
    subst this; decide
  · exact render_noLB p.2 hok c h

theorem foldr_lines (ps : List (Nat × List T)) (hok : ∀ p ∈ ps, AllOK p.2) :
    (ps.map lineText).foldr (fun l acc => match lexLine (l.length + 1) l, acc with
      | some a, some b => some (a ++ b)
      | _, _ => none) (some []) = some (ps.flatMap (·.2)) := by
  induction ps with
  | nil => rfl
  | cons p ps ih =>
    have h1 := lexLine_lineText p (hok p (by simp))
    have h2 := ih (fun q hq => hok q (by simp [hq]))
    simp only [List.map_cons, List.foldr_cons, h1, h2, List.flatMap_cons]

/-- the lexer reads back any indented layout of lexically expressible token lines -/
theorem lexText_lines (ps : List (Nat × List T)) (hok : ∀ p ∈ ps, AllOK p.2) :
    lexText (joinNL (ps.map lineText)) = some (ps.flatMap (·.2)) := by
  cases ps with
  | nil => rfl
  | cons p ps' =>
    unfold lexText
    rw [splitLines_joinNL _ (by simp)]
    · exact foldr_lines (p :: ps') hok
    · intro l hl
      obtain ⟨q, hq, rfl⟩ := List.mem_map.mp hl
      exact lineText_noLB q (hok q hq)

theorem tokLines_flat (o : Opts) (k : Nat) (d : DMRS) : (tokLines o k d).flatMap (·.2) = encDmrsToks o d := by
  have h1 : ∀ (ns : List Node), (ns.map (fun n => (k, encNodeToks o n))).flatMap (·.2) = ns.flatMap (encNodeToks o) := by
    intro ns; induction ns <;> simp_all
  have h2 : ∀ (ls : List Link), (ls.map (fun l => (k, encLinkToks l))).flatMap (·.2) = ls.flatMap encLinkToks := by
    intro ls; induction ls <;> simp_all
  unfold tokLines encDmrsToks
  simp only [List.flatMap_append, h1, h2]
  by_cases he : (attrToks o d).isEmpty = true
  · have : attrToks o d = [] := by simpa using he
    simp [this]
  · simp [he]

theorem tokLines_ok (o : Opts) (k : Nat) (d : DMRS) (h : lexOK d = true) : ∀ p ∈ tokLines o k d, AllOK p.2 := by
  have hall := allOK_dmrs o d h
  rw [← tokLines_flat o k d] at hall
  intro p hp t ht
  exact hall t (List.mem_flatMap.mpr ⟨p, hp, ht⟩)

theorem lexText_encodeTextIndent (o : Opts) (k : Nat) (d : DMRS) (h : lexOK d = true) :
    lexText (encodeTextIndent o k d) = some (encDmrsToks o d) := by
  unfold encodeTextIndent
  rw [lexText_lines _ (tokLines_ok o k d h), tokLines_flat]

theorem lexText_encodeTextIndentList (o : Opts) (k : Nat) (ds : List DMRS) (h : ∀ d ∈ ds, lexOK d = true) :
    lexText (encodeTextIndentList o k ds) = some (ds.flatMap (encDmrsToks o)) := by
  unfold encodeTextIndentList
  rw [lexText_lines]
  · have : ∀ (xs : List DMRS), (xs.flatMap (tokLines o k)).flatMap (·.2) = xs.flatMap (encDmrsToks o) := by
      intro xs
      induction xs with
      | nil => rfl
      | cons x xs ih => simp only [List.flatMap_cons, List.flatMap_append, ih, tokLines_flat]
    exact congrArg some (this ds)
  · intro p hp
    obtain ⟨d, hd, hpd⟩ := List.mem_flatMap.mp hp
    exact tokLines_ok o k d (h d hd) p hpd

/-- text-level round trip in the indented layout -/
theorem decodeText_encodeTextIndent (o : Opts) (k : Nat) (d : DMRS) (hwf : d.WF) (hx : ExpressibleSD d)
    (hl : lexOK d = true) : decodeText (encodeTextIndent o k d) = .ok (viewS o d) := by
  unfold decodeText
  rw [lexText_encodeTextIndent o k d hl]
  have := decDmrs_encDmrsToks o d hwf hx []
  simp only [List.append_nil] at this
  simp [this]

theorem decodeTextList_encodeTextIndentList (o : Opts) (k : Nat) (ds : List DMRS)
    (h : ∀ d ∈ ds, d.WF ∧ ExpressibleSD d) (hl : ∀ d ∈ ds, lexOK d = true) :
    decodeTextList (encodeTextIndentList o k ds) = .ok (ds.map (viewS o)) := by
  unfold decodeTextList
  rw [lexText_encodeTextIndentList o k ds hl]
  exact decodeList_encDmrsToks o ds h

/-! ### re-encoding the decoded graph: same token lines -/

theorem encNodeToks_view (o : Opts) (n : Node) : encNodeToks o (viewNodeS o n) = encNodeToks o n := by
  obtain ⟨op, ol⟩ := o
  cases op <;> cases ol <;> cases hty : n.type <;>
    simp [encNodeToks, viewNodeS, typeToks, dropU, hty, lnkToks] <;>
    (split <;> simp_all)

theorem attrToks_view (o : Opts) (d : DMRS) : attrToks o (viewS o d) = attrToks o d := by
  have hun : Lnk.unspec.truthy = false := rfl
  obtain ⟨op, ol⟩ := o
  cases ol <;> cases htr : d.lnk.truthy <;> simp [attrToks, viewS, htr, hun]

theorem tokLines_view (o : Opts) (k : Nat) (d : DMRS) : tokLines o k (viewS o d) = tokLines o k d := by
  unfold tokLines
  rw [attrToks_view]
  have h1 : (viewS o d).nodes.map (fun n => (k, encNodeToks o n)) = d.nodes.map (fun n => (k, encNodeToks o n)) := by
    simp only [viewS, List.map_map]
    apply List.map_congr_left
    intro n _
    simp [Function.comp, encNodeToks_view]
  rw [h1]
  rfl

end Verif.C02
