/-
C02 — the DMRX text: `dmrx.encode` / `dmrx.dumps` = `_encode_dmrs` (Model.lean `toXml`), then `dmrx._indent`
(the code of /repo that lays the tree out: `text`/`tail` white space by level, `maxdepth`, the `indent is True`
and integer branches of `encode` and `_encode`), then `etree.tostring(…, encoding='unicode').rstrip()`.

`_indent` and the option plumbing are /repo code and modelled as they are (quirks: the last child's tail is
indented like its siblings, so the closing tag of the parent sits at child depth; with `indent=True` the nodes
of a graph are NOT separated: `maxdepth` stops one level earlier and the tail of a node is reset to '').
The writer (`xml.etree.ElementTree._serialize_xml`, `_escape_attrib`, `_escape_cdata`, short empty elements) is a
library: its model here is validated by comparing the whole text with the real `encode`/`dumps` on every
generated case; attribute and tag names are written as they are (no `{namespace}` names: guarded in the harness).
-/
import Verif.C02.Model
import Verif.C01.Model

namespace Verif.C02
open Verif.Codec Verif.Py

/-! ### trees with `text` and `tail` (four levels: dmrs-list, dmrs, node/link, leaf) -/

structure EL where
  tag : Str
  attrs : List (Str × Str)
  text : Option Str
  tail : Option Str := none
deriving DecidableEq, Repr

structure EM where
  tag : Str
  attrs : List (Str × Str)
  text : Option Str := none
  children : List EL
  tail : Option Str := none
deriving DecidableEq, Repr

structure ED where
  attrs : List (Str × Str)
  text : Option Str := none
  children : List EM
  tail : Option Str := none
deriving DecidableEq, Repr

structure EC where
  text : Option Str := none
  children : List ED
  tail : Option Str := none
deriving DecidableEq, Repr

/-- the tree `_encode_dmrs` builds: no text on inner elements, no tails. -/
def plainL (e : XLeaf) : EL := { tag := e.tag, attrs := e.attrs, text := e.text }
def plainM (e : XMid) : EM := { tag := e.tag, attrs := e.attrs, children := e.children.map plainL }
def plainD (e : XDmrs) : ED := { attrs := e.attrs, children := e.children.map plainM }
def plainC (es : List XDmrs) : EC := { children := es.map plainD }

/-- what the decoder looks at (`elem.get`, `iter`, `find`, the text of leaves): tails and the text of inner
elements are never read. -/
def stripL (e : EL) : XLeaf := { tag := e.tag, attrs := e.attrs, text := e.text }
def stripM (e : EM) : XMid := { tag := e.tag, attrs := e.attrs, children := e.children.map stripL }
def stripD (e : ED) : XDmrs := { attrs := e.attrs, children := e.children.map stripM }
def stripC (e : EC) : List XDmrs := e.children.map stripD

/-! ### `_indent(elem, indent, maxdepth, level)` -/

def truthyS : Option Str → Bool
  | some (_ :: _) => true
  | _ => false

/-- `'\n' + ' ' * indent * level`. -/
def curind (indent level : Nat) : Str := '\n' :: List.replicate (indent * level) ' '

/-- an element without children: `elem.tail = curind` (unless `level == maxdepth`). -/
def indentL (indent maxdepth level : Nat) (e : EL) : EL :=
  if level = maxdepth then e else { e with tail := some (curind indent level) }

/-- the text/tail an element with or without children gets at `level`. -/
def innerText (indent maxdepth level : Nat) (hasChildren : Bool) (text : Option Str) : Option Str :=
  if hasChildren && !truthyS text && decide (level + 1 < maxdepth) then some (curind indent (level + 1)) else text

def outerTail (indent maxdepth level : Nat) (hasChildren : Bool) : Option Str :=
  if hasChildren then (if level + 1 < maxdepth then some (curind indent level) else some [])
  else some (curind indent level)

def indentM (indent maxdepth level : Nat) (e : EM) : EM :=
  if level = maxdepth then e
  else { e with text := innerText indent maxdepth level (!e.children.isEmpty) e.text,
                children := e.children.map (indentL indent maxdepth (level + 1)),
                tail := outerTail indent maxdepth level (!e.children.isEmpty) }

def indentD (indent maxdepth level : Nat) (e : ED) : ED :=
  if level = maxdepth then e
  else { e with text := innerText indent maxdepth level (!e.children.isEmpty) e.text,
                children := e.children.map (indentM indent maxdepth (level + 1)),
                tail := outerTail indent maxdepth level (!e.children.isEmpty) }

def indentC (indent maxdepth : Nat) (e : EC) : EC :=
  if 0 = maxdepth then e
  else { e with text := innerText indent maxdepth 0 (!e.children.isEmpty) e.text,
                children := e.children.map (indentD indent maxdepth 1),
                tail := outerTail indent maxdepth 0 (!e.children.isEmpty) }

/-- the `indent` argument of the public functions (`'LKB'`/`'Lkb'`/`'lkb'` behave as `True`). -/
inductive Indent where
  | off            -- `None` or `False`
  | on             -- `True`, `'LKB'`, `'Lkb'`, `'lkb'`
  | by (k : Nat)   -- an integer
deriving DecidableEq, Repr

/-- `encode`: `_indent(elem, 0, maxdepth=2, 0)` for `True`, `_indent(elem, k, maxdepth=3, 0)` for an integer. -/
def layoutD (i : Indent) (e : ED) : ED :=
  match i with
  | .off => e
  | .on => indentD 0 2 0 e
  | .by k => indentD k 3 0 e

/-- `_encode`: the same one level deeper (`maxdepth` 3 and 4) under `<dmrs-list>`. -/
def layoutC (i : Indent) (e : EC) : EC :=
  match i with
  | .off => e
  | .on => indentC 0 3 e
  | .by k => indentC k 4 e

/-! ### the writer (`etree.tostring(elem, encoding='unicode')`) -/

/-- `_escape_cdata`. -/
def escCdata : Str → Str
  | [] => []
  | c :: s =>
    if c = '&' then S "&amp;" ++ escCdata s
    else if c = '<' then S "&lt;" ++ escCdata s
    else if c = '>' then S "&gt;" ++ escCdata s
    else c :: escCdata s

/-- `_escape_attrib`. -/
def escAttr : Str → Str
  | [] => []
  | c :: s =>
    if c = '&' then S "&amp;" ++ escAttr s
    else if c = '<' then S "&lt;" ++ escAttr s
    else if c = '>' then S "&gt;" ++ escAttr s
    else if c = '"' then S "&quot;" ++ escAttr s
    else if c = '\r' then S "&#13;" ++ escAttr s
    else if c = '\n' then S "&#10;" ++ escAttr s
    else if c = '\t' then S "&#09;" ++ escAttr s
    else c :: escAttr s

def serAttrs (attrs : List (Str × Str)) : Str :=
  attrs.flatMap (fun kv => ' ' :: kv.1 ++ S "=\"" ++ escAttr kv.2 ++ S "\"")

def serOpt : Option Str → Str
  | some s => escCdata s
  | none => []

/-- `<tag attrs>text children</tag>tail`, or `<tag attrs />tail` when there is neither text nor a child. -/
def serElem (tag : Str) (attrs : List (Str × Str)) (text : Option Str) (hasChildren : Bool) (inner : Str)
    (tail : Option Str) : Str :=
  '<' :: tag ++ serAttrs attrs ++
  (if truthyS text || hasChildren then '>' :: serOpt text ++ inner ++ S "</" ++ tag ++ S ">" else S " />") ++
  serOpt tail

def serL (e : EL) : Str := serElem e.tag e.attrs e.text false [] e.tail
def serM (e : EM) : Str := serElem e.tag e.attrs e.text (!e.children.isEmpty) (e.children.flatMap serL) e.tail
def serD (e : ED) : Str := serElem (S "dmrs") e.attrs e.text (!e.children.isEmpty) (e.children.flatMap serM) e.tail
def serC (e : EC) : Str := serElem (S "dmrs-list") [] e.text (!e.children.isEmpty) (e.children.flatMap serD) e.tail

/-- `str.rstrip()`. -/
def rstrip (s : Str) : Str := (s.reverse.dropWhile Verif.C01.isPySpace).reverse

/-- `dmrx.encode(d, properties, lnk, indent)`. -/
def encodeXText (o : Opts) (i : Indent) (d : DMRS) : Except Err Str :=
  match toXml o d with
  | .error e => .error e
  | .ok x => .ok (rstrip (serD (layoutD i (plainD x))))

/-- `dmrx.dumps(ds, properties, lnk, indent)`. -/
def encodeXTextList (o : Opts) (i : Indent) (ds : List DMRS) : Except Err Str :=
  match mapMExcept (toXml o) ds with
  | .error e => .error e
  | .ok xs => .ok (rstrip (serC (layoutC i (plainC xs))))

/-- what `dmrx.decode` sees of the tree written by `encode(d, indent=i)` (the parser as the identity on the
laid-out tree). -/
def encodeXTree (o : Opts) (i : Indent) (d : DMRS) : Except Err XDmrs :=
  match toXml o d with
  | .error e => .error e
  | .ok x => .ok (stripD (layoutD i (plainD x)))

def encodeXTreeList (o : Opts) (i : Indent) (ds : List DMRS) : Except Err (List XDmrs) :=
  match mapMExcept (toXml o) ds with
  | .error e => .error e
  | .ok xs => .ok (stripC (layoutC i (plainC xs)))

end Verif.C02
