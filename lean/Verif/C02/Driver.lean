/- C02 line-protocol driver: `lake env lean --run Verif/C02/Driver.lean` -/
import Verif.Common.Proto
import Verif.C02.Model
import Verif.C02.Lexer
import Verif.C02.XText
open Lean Verif.Proto Verif.C02 Verif.Codec

namespace Verif.C02.Driver

def errTag : Err → String
  | .syntax => "DMRSSyntaxError"
  | .eof => "StopIteration"
  | .value => "ValueError"
  | .key => "KeyError"
  | .attr => "AttributeError"
  | .index => "IndexError"
  | .type => "TypeError"
  | .pred => "PredicateError"
  | .unmodelled => "unmodelled"

def jLnk : Lnk → Json
  | .unspec => Json.null
  | .charspan a b => Json.arr #[Json.str "c", jInt a, jInt b]
  | .chartspan a b => Json.arr #[Json.str "v", jInt a, jInt b]
  | .tokens ts => Json.arr #[Json.str "t", jList jInt ts]
  | .edge n => Json.arr #[Json.str "e", jInt n]

def ofLnk (j : Json) : Except String Lnk :=
  match j with
  | Json.null => pure .unspec
  | _ => do
    let a ← j.getArr?
    match a.toList with
    | [k, x, y] => do
      let k ← k.getStr?
      if k = "c" then pure (.charspan (← x.getInt?) (← y.getInt?))
      else if k = "v" then pure (.chartspan (← x.getInt?) (← y.getInt?))
      else throw "bad lnk"
    | [k, x] => do
      let k ← k.getStr?
      if k = "t" then pure (.tokens (← (← x.getArr?).toList.mapM (·.getInt?)))
      else if k = "e" then pure (.edge (← x.getInt?))
      else throw "bad lnk"
    | _ => throw "bad lnk"

def jPairs (ps : List (Str × Str)) : Json := jList (fun kv => Json.arr #[cps kv.1, cps kv.2]) ps

def ofPairs (j : Json) : Except String (List (Str × Str)) := do
  (← j.getArr?).toList.mapM (fun p => do
    let a ← p.getArr?
    match a.toList with
    | [k, v] => pure (← ofCps k, ← ofCps v)
    | _ => throw "bad pair")

def jNode (n : Node) : Json := Json.mkObj [
  ("id", jInt n.id), ("pred", cps n.pred), ("type", optCps n.type), ("props", jPairs n.props),
  ("carg", optCps n.carg), ("lnk", jLnk n.lnk), ("surface", optCps n.surface), ("base", optCps n.base)]

def jLink (l : Link) : Json := Json.mkObj [
  ("start", jInt l.start), ("stop", jInt l.stop), ("role", optCps l.role), ("post", optCps l.post)]

def jDMRS (d : DMRS) : Json := Json.mkObj [
  ("top", jOptInt d.top), ("index", jOptInt d.index), ("nodes", jList jNode d.nodes),
  ("links", jList jLink d.links), ("lnk", jLnk d.lnk), ("surface", optCps d.surface),
  ("identifier", optCps d.identifier)]

def ofNode (j : Json) : Except String Node := do
  pure { id := ← getInt j "id", pred := ← getCps j "pred", type := ← getOptCps j "type",
         props := ← ofPairs (← j.getObjVal? "props"), carg := ← getOptCps j "carg",
         lnk := ← ofLnk (← j.getObjVal? "lnk"), surface := ← getOptCps j "surface", base := ← getOptCps j "base" }

def ofLink (j : Json) : Except String Link := do
  pure { start := ← getInt j "start", stop := ← getInt j "stop", role := ← getOptCps j "role",
         post := ← getOptCps j "post" }

/-- the arguments of the `DMRS(...)` call; the constructor is applied here. -/
def ofDMRS (j : Json) : Except String DMRS := do
  let top ← Verif.Proto.optInt (← j.getObjVal? "top")
  let index ← Verif.Proto.optInt (← j.getObjVal? "index")
  let nodes ← (← Verif.Proto.getArr j "nodes").mapM ofNode
  let links ← (← Verif.Proto.getArr j "links").mapM ofLink
  pure (mkDMRS top index nodes links (← ofLnk (← j.getObjVal? "lnk")) (← getOptCps j "surface")
          (← getOptCps j "identifier"))

def kindTag : K → String
  | .lbrace => "LBRACE" | .rbrace => "RBRACE" | .lbracket => "LBRACKET" | .rbracket => "RBRACKET"
  | .lparen => "LPAREN" | .rparen => "RPAREN" | .lnk => "LNK" | .dq => "DQSTRING" | .colon => "COLON"
  | .slash => "SLASH" | .equals => "EQUALS" | .semicolon => "SEMICOLON" | .arrow => "ARROW" | .symbol => "SYMBOL"

def ofKind (s : String) : Except String K :=
  match s with
  | "LBRACE" => pure .lbrace | "RBRACE" => pure .rbrace | "LBRACKET" => pure .lbracket
  | "RBRACKET" => pure .rbracket | "LPAREN" => pure .lparen | "RPAREN" => pure .rparen
  | "LNK" => pure .lnk | "DQSTRING" => pure .dq | "COLON" => pure .colon | "SLASH" => pure .slash
  | "EQUALS" => pure .equals | "SEMICOLON" => pure .semicolon | "ARROW" => pure .arrow
  | "SYMBOL" => pure .symbol | _ => throw s!"bad kind {s}"

def jTok (t : T) : Json := Json.arr #[Json.str (kindTag t.kind), cps t.text]

def ofTok (j : Json) : Except String T := do
  match (← j.getArr?).toList with
  | [k, s] => pure ⟨← ofKind (← k.getStr?), ← ofCps s⟩
  | _ => throw "bad token"

def jEx {α} (f : α → Json) : Except Err α → Json
  | .ok a => jOk (f a)
  | .error e => jErr (errTag e)

def jLeaf (e : XLeaf) : Json := Json.mkObj [("tag", cps e.tag), ("attrs", jPairs e.attrs), ("text", optCps e.text)]
def jMid (e : XMid) : Json := Json.mkObj [("tag", cps e.tag), ("attrs", jPairs e.attrs), ("children", jList jLeaf e.children)]
def jX (e : XDmrs) : Json := Json.mkObj [("attrs", jPairs e.attrs), ("children", jList jMid e.children)]

def ofLeaf (j : Json) : Except String XLeaf := do
  pure { tag := ← getCps j "tag", attrs := ← ofPairs (← j.getObjVal? "attrs"), text := ← getOptCps j "text" }
def ofMid (j : Json) : Except String XMid := do
  pure { tag := ← getCps j "tag", attrs := ← ofPairs (← j.getObjVal? "attrs"),
         children := ← (← Verif.Proto.getArr j "children").mapM ofLeaf }
def ofX (j : Json) : Except String XDmrs := do
  pure { attrs := ← ofPairs (← j.getObjVal? "attrs"), children := ← (← Verif.Proto.getArr j "children").mapM ofMid }

partial def jJV : JV → Json
  | .null => Json.null
  | .int i => jInt i
  | .str s => Json.mkObj [("s", cps s)]
  | .arr xs => Json.arr (xs.map jJV).toArray
  | .obj kvs => Json.mkObj [("o", Json.arr (kvs.map (fun kv => Json.arr #[cps kv.1, jJV kv.2])).toArray)]

partial def ofJV (j : Json) : Except String JV :=
  match j with
  | Json.null => pure .null
  | Json.num _ => do pure (.int (← j.getInt?))
  | Json.arr xs => do pure (.arr (← xs.toList.mapM ofJV))
  | _ =>
    match j.getObjVal? "s" with
    | .ok s => do pure (.str (← ofCps s))
    | .error _ => do
      let kvs ← (← j.getObjVal? "o").getArr?
      let kvs ← kvs.toList.mapM (fun p => do
        match (← p.getArr?).toList with
        | [k, v] => pure (← ofCps k, ← ofJV v)
        | _ => throw "bad obj entry")
      pure (.obj kvs)

def jTriple (t : Triple) : Json := Json.arr #[cps t.1, cps t.2.1, cps t.2.2]
def ofTriple (j : Json) : Except String Triple := do
  match (← j.getArr?).toList with
  | [a, b, c] => pure (← ofCps a, ← ofCps b, ← ofCps c)
  | _ => throw "bad triple"

def ofOpts (j : Json) : Except String Opts := do
  pure { properties := ← getBool j "properties", lnk := ← getBool j "lnk" }

def ofIndent (j : Json) : Except String (Option Nat) :=
  match j.getObjVal? "indent" with
  | .ok Json.null => pure none
  | .ok v => do pure (some (← v.getNat?))
  | .error _ => pure none

/-- the `indent` argument as dmrx sees it: null (None/False), "true" (True, 'LKB', 'Lkb', 'lkb') or an integer -/
def ofXIndent (j : Json) : Except String Indent :=
  match j.getObjVal? "xindent" with
  | .ok Json.null => pure .off
  | .ok (Json.str _) => pure .on
  | .ok v => do pure (.by (← v.getNat?))
  | .error _ => pure .off

def bindEx {α β} (x : Except Err α) (f : α → Except Err β) : Except Err β :=
  match x with
  | .ok a => f a
  | .error e => .error e

def handle (j : Json) : Except String Json := do
  let op ← getStr j "op"
  match op with
  | "rt" => do
    let ds ← (← Verif.Proto.getArr j "ds").mapM ofDMRS
    let o ← ofOpts (← j.getObjVal? "o")
    let indent ← ofIndent j
    let single ← getBool j "single"
    let toks := ds.map (encDmrsToks o)
    let sdDec : Json :=
      if single then jEx (fun (p : DMRS × List T) => jDMRS p.1) (decDmrs toks.flatten)
      else jEx (jList jDMRS) (decodeList toks.flatten)
    let flat := encListText o none ds
    let lexed : Json := match lexText flat with
      | some ts => jOk (jList jTok ts)
      | none => jErr "DMRSSyntaxError"
    let lexInd : Json := match lexText (encListText o indent ds) with
      | some ts => jOk (jList jTok ts)
      | none => jErr "DMRSSyntaxError"
    let decText : Json :=
      if single then jEx jDMRS (decodeText flat) else jEx (jList jDMRS) (decodeTextList flat)
    let sd := Json.mkObj [("text", cps (encListText o indent ds)), ("toks", jList (jList jTok) toks), ("dec", sdDec),
                          ("render", cps (encodeTextList o ds)), ("lexflat", lexed), ("lexindent", lexInd),
                          ("renderindent", match indent with
                            | some k => cps (encodeTextIndentList o k ds)
                            | none => Json.null),
                          ("dectext", decText)]
    let x := jList (fun d => Json.mkObj [("enc", jEx jX (toXml o d)), ("dec", jEx jDMRS (bindEx (toXml o d) ofXml))]) ds
    let jj := jList (fun d => Json.mkObj [("enc", jJV (toDict o d)), ("dec", jEx jDMRS (fromDict (toDict o d)))]) ds
    let p := jList (fun d => Json.mkObj [("enc", jEx (jList jTriple) (toTriples o d)),
                                          ("dec", jEx jDMRS (bindEx (toTriples o d) fromTriples))]) ds
    let xi ← ofXIndent j
    let xtext : Json :=
      if single then (match ds with
        | d :: _ => jEx cps (encodeXText o xi d)
        | [] => Json.null)
      else jEx cps (encodeXTextList o xi ds)
    pure (Json.mkObj [("ctor", jList jDMRS ds), ("sd", sd), ("x", x), ("j", jj), ("p", p), ("xtext", xtext)])
  | "sd_dec" => do
    let toks ← (← Verif.Proto.getArr j "toks").mapM ofTok
    let single ← getBool j "single"
    if single then pure (jEx (fun (p : DMRS × List T) => jDMRS p.1) (decDmrs toks))
    else pure (jEx (jList jDMRS) (decodeList toks))
  | "lex" => do
    match lexText (← getCps j "text") with
    | some ts => pure (jOk (jList jTok ts))
    | none => pure (jErr "DMRSSyntaxError")
  | "x_dec" => do pure (jEx jDMRS (ofXml (← ofX (← j.getObjVal? "x"))))
  | "j_dec" => do pure (jEx jDMRS (fromDict (← ofJV (← j.getObjVal? "j"))))
  | "p_dec" => do pure (jEx jDMRS (fromTriples (← (← Verif.Proto.getArr j "triples").mapM ofTriple)))
  | "pred" => do
    let p ← getCps j "p"
    pure (Json.mkObj [("normalize", cps (normalizePred p)), ("is_surface", Json.bool (isSurface p)),
                      ("enc", jEx jLeaf (encPredX p)), ("dec", jEx cps (bindEx (encPredX p) decPredX))])
  | _ => throw s!"bad op {op}"

end Verif.C02.Driver

def main : IO Unit := Verif.Proto.serve Verif.C02.Driver.handle
