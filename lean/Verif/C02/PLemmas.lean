/- C02 — DMRS-PENMAN: `from_triples (to_triples d)` is `d` up to the documented renumbering. -/
import Verif.C02.Lemmas

namespace Verif.C02
open Verif.Codec Verif.Py

/-! ### strings -/

theorem lstripColon_of_head (s : Str) (h : s.head? ≠ some ':') : lstripColon s = s := by
  cases s with
  | nil => rfl
  | cons c r =>
    have hc : c ≠ ':' := by simpa using h
    unfold lstripColon
    split
    · rename_i heq
      simp at heq
      exact absurd heq.1 hc
    · rfl

theorem lstripColon_colon (s : Str) (h : s.head? ≠ some ':') : lstripColon (':' :: s) = s := by
  rw [lstripColon]
  exact lstripColon_of_head s h

theorem dropWhile_of_head {p : Char → Bool} (x : Char) (r : Str) (h : p x = false) :
    (x :: r).dropWhile p = x :: r := by
  simp [h]

theorem takeDrop_sep {p : Char → Bool} (a : Str) (b : Char) (x : Str) (ha : ∀ c ∈ a, p c = true)
    (hb : p b = false) : (a ++ b :: x).takeWhile p = a ∧ (a ++ b :: x).dropWhile p = b :: x := by
  induction a with
  | nil => simp [hb]
  | cons c a ih =>
    have hc := ha c (by simp)
    have ih' := ih (fun y hy => ha y (by simp [hy]))
    simp [hc, ih'.1, ih'.2]

theorem rsplitDash_ok (r p : Str) (hp : '-' ∉ p) : rsplitDash (r ++ '-' :: p) = some (r, p) := by
  have hrev : (r ++ '-' :: p).reverse = p.reverse ++ '-' :: r.reverse := by simp
  have h := takeDrop_sep (p := fun c => decide (c ≠ '-')) p.reverse '-' r.reverse
    (by
      intro c hc
      have : c ≠ '-' := fun e => hp (by rw [← e]; simpa using hc)
      simpa using this)
    (by simp)
  unfold rsplitDash
  simp only [hrev]
  have hm : '-' ∈ p.reverse ++ '-' :: r.reverse := by simp
  simp only [hm, if_true, h.1, h.2]
  simp

theorem intStr_cons (i : Int) : ∃ c r, intStr i = c :: r ∧ c ∉ ['"', '<', '>'] := by
  cases h : intStr i with
  | nil => exact absurd h (intStr_ne_nil i)
  | cons c r =>
    refine ⟨c, r, rfl, ?_⟩
    have hc : c ∈ intStr i := by rw [h]; simp
    intro hm
    simp only [List.mem_cons, List.not_mem_nil, or_false] at hm
    rcases hm with e | e | e <;> subst e
    · exact not_mem_intStr i '"' (by decide) (by decide) hc
    · exact not_mem_intStr i '<' (by decide) (by decide) hc
    · exact not_mem_intStr i '>' (by decide) (by decide) hc

theorem intStr_snoc (i : Int) : ∃ c r, (intStr i).reverse = c :: r ∧ c ∉ ['"', '<', '>'] := by
  cases h : (intStr i).reverse with
  | nil =>
    have : intStr i = [] := by simpa using h
    exact absurd this (intStr_ne_nil i)
  | cons c r =>
    refine ⟨c, r, rfl, ?_⟩
    have hc : c ∈ intStr i := by
      have : c ∈ (intStr i).reverse := by rw [h]; simp
      simpa using this
    intro hm
    simp only [List.mem_cons, List.not_mem_nil, or_false] at hm
    rcases hm with e | e | e <;> subst e
    · exact not_mem_intStr i '"' (by decide) (by decide) hc
    · exact not_mem_intStr i '<' (by decide) (by decide) hc
    · exact not_mem_intStr i '>' (by decide) (by decide) hc

theorem stripChars_lnk (a b : Int) :
    stripChars ['"', '<', '>'] ('"' :: (Lnk.charspan a b).str ++ ['"']) = intStr a ++ ':' :: intStr b := by
  obtain ⟨c, r, hcr, hc⟩ := intStr_cons a
  obtain ⟨e, s, hes, he⟩ := intStr_snoc b
  have h1 : ('"' :: (Lnk.charspan a b).str ++ ['"']) =
      '"' :: '<' :: c :: (r ++ ':' :: intStr b ++ ['>', '"']) := by
    simp [Lnk.str, hcr]
  have h2 : (c :: (r ++ ':' :: intStr b ++ ['>', '"'])).reverse =
      '"' :: '>' :: e :: (s ++ ':' :: (intStr a).reverse) := by
    have h0 : c :: (r ++ ':' :: intStr b ++ ['>', '"']) = intStr a ++ (':' :: intStr b ++ ['>', '"']) := by
      rw [hcr]; simp
    rw [h0]
    simp [hes]
  have hc' : decide (c ∈ ['"', '<', '>']) = false := by simpa using hc
  have he' : decide (e ∈ ['"', '<', '>']) = false := by simpa using he
  unfold stripChars
  rw [h1]
  have h3 : ('"' :: '<' :: c :: (r ++ ':' :: intStr b ++ ['>', '"'])).dropWhile (fun x => decide (x ∈ ['"', '<', '>'])) =
      c :: (r ++ ':' :: intStr b ++ ['>', '"']) := by
    rw [List.dropWhile_cons]
    simp only [show decide ('"' ∈ ['"', '<', '>']) = true from by decide, if_true]
    rw [List.dropWhile_cons]
    simp only [show decide ('<' ∈ ['"', '<', '>']) = true from by decide, if_true]
    exact dropWhile_of_head _ _ hc'
  rw [h3, h2]
  have h4 : ('"' :: '>' :: e :: (s ++ ':' :: (intStr a).reverse)).dropWhile (fun x => decide (x ∈ ['"', '<', '>'])) =
      e :: (s ++ ':' :: (intStr a).reverse) := by
    rw [List.dropWhile_cons]
    simp only [show decide ('"' ∈ ['"', '<', '>']) = true from by decide, if_true]
    rw [List.dropWhile_cons]
    simp only [show decide ('>' ∈ ['"', '<', '>']) = true from by decide, if_true]
    exact dropWhile_of_head _ _ he'
  rw [h4]
  have h5 : e :: (s ++ ':' :: (intStr a).reverse) = (intStr a ++ ':' :: intStr b).reverse := by
    simp [hes]
  rw [h5, List.reverse_reverse]

theorem splitLnk (a b : Int) :
    splitOn ':' (intStr a ++ ':' :: intStr b) = [intStr a, intStr b] := by
  rw [splitOn_append_sep ':' _ _ (not_mem_intStr a ':' (by decide) (by decide)),
      splitOn_not_mem ':' _ (not_mem_intStr b ':' (by decide) (by decide))]

/-! ### one round of the decoder loop -/

theorem any_var_false (pre : List PNode) (v : Str) (hv : ∀ m ∈ pre, m.var ≠ v) :
    pre.any (fun n => decide (n.var = v)) = false := by
  rw [List.any_eq_false]
  intro m hm
  simpa using hv m hm

theorem any_var_last (pre : List PNode) (pn : PNode) (v : Str) (h : pn.var = v) :
    (pre ++ [pn]).any (fun n => decide (n.var = v)) = true := by
  simp [h]

theorem updNode_last (pre : List PNode) (pn : PNode) (v : Str) (f : PNode → PNode)
    (hv : ∀ m ∈ pre, m.var ≠ v) (h : pn.var = v) : updNode v f (pre ++ [pn]) = pre ++ [f pn] := by
  induction pre with
  | nil => simp [updNode, h]
  | cons m pre ih =>
    have h1 : ¬ m.var = v := hv m (by simp)
    simp [updNode, h1, ih (fun x hx => hv x (by simp [hx]))]

def topAfter (top : Option Str) (v : Str) : Option Str :=
  match top with | none => some v | some x => some x

theorem step_instance (top : Option Str) (pre : List PNode) (edges : List (Str × Str × Str × Str))
    (v tgt : Str) (hv : ∀ m ∈ pre, m.var ≠ v) :
    stepTriple { top := top, nodes := pre, edges := edges } (v, S ":instance", tgt) =
      .ok { top := topAfter top v, nodes := pre ++ [{ var := v, pred := some tgt }], edges := edges } := by
  have h0 : lstripColon (S ":instance") = S "instance" := by decide
  simp only [stepTriple, h0, any_var_false pre v hv, if_true, Bool.false_eq_true, if_false]
  rw [updNode_last pre _ v _ hv rfl]
  rfl

theorem step_lnk (top : Option Str) (pre : List PNode) (pn : PNode) (edges : List (Str × Str × Str × Str))
    (v : Str) (a b : Int) (hv : ∀ m ∈ pre, m.var ≠ v) (hp : pn.var = v) :
    stepTriple { top := top, nodes := pre ++ [pn], edges := edges }
        (v, S ":lnk", '"' :: (Lnk.charspan a b).str ++ ['"']) =
      .ok { top := top, nodes := pre ++ [{ pn with lnk := .charspan a b }], edges := edges } := by
  have h0 : lstripColon (S ":lnk") = S "lnk" := by decide
  have h1 : ¬ (S "lnk" = S "instance") := by decide
  simp only [stepTriple, h0, h1, any_var_last pre pn v hp, if_true, if_false, stripChars_lnk, splitLnk,
    parseInt_intStr]
  rw [updNode_last pre pn v _ hv hp]

theorem step_carg (top : Option Str) (pre : List PNode) (pn : PNode) (edges : List (Str × Str × Str × Str))
    (v c : Str) (hv : ∀ m ∈ pre, m.var ≠ v) (hp : pn.var = v) :
    stepTriple { top := top, nodes := pre ++ [pn], edges := edges }
        (v, S ":carg", '"' :: escapeDQ c ++ ['"']) =
      .ok { top := top, nodes := pre ++ [{ pn with carg := some c }], edges := edges } := by
  have h0 : lstripColon (S ":carg") = S "carg" := by decide
  have h1 : ¬ (S "carg" = S "instance") := by decide
  have h2 : ¬ (S "carg" = S "lnk") := by decide
  have h3 : ('"' :: escapeDQ c ++ ['"']).getLast? = some '"' := by
    rw [List.getLast?_concat]
  have h4 : (('"' :: escapeDQ c ++ ['"']).drop 1).dropLast = escapeDQ c := by simp
  have h5 : ('"' :: escapeDQ c ++ ['"']) = '"' :: (escapeDQ c ++ ['"']) := rfl
  generalize ('"' :: escapeDQ c ++ ['"']) = tgt at h3 h4 h5
  subst h5
  simp only [stepTriple, h0, h1, h2, any_var_last pre pn v hp, if_true, if_false]
  rw [updNode_last pre pn v _ hv hp]
  simp only [h3, h4, and_self, if_true, unescapeDQ_escapeDQ]

theorem step_type (top : Option Str) (pre : List PNode) (pn : PNode) (edges : List (Str × Str × Str × Str))
    (v t : Str) (hv : ∀ m ∈ pre, m.var ≠ v) (hp : pn.var = v) :
    stepTriple { top := top, nodes := pre ++ [pn], edges := edges } (v, ':' :: CVARSORT, t) =
      .ok { top := top, nodes := pre ++ [{ pn with type := some t }], edges := edges } := by
  have h0 : lstripColon (':' :: CVARSORT) = CVARSORT := by decide
  have h1 : ¬ (CVARSORT = S "instance") := by decide
  have h2 : ¬ (CVARSORT = S "lnk") := by decide
  have h3 : ¬ (CVARSORT = S "carg") := by decide
  simp only [stepTriple, h0, h1, h2, h3, any_var_last pre pn v hp, if_true, if_false]
  rw [updNode_last pre pn v _ hv hp]

theorem step_prop (top : Option Str) (pre : List PNode) (pn : PNode) (edges : List (Str × Str × Str × Str))
    (v k x : Str) (hv : ∀ m ∈ pre, m.var ≠ v) (hp : pn.var = v)
    (hk : k ≠ S "instance" ∧ k ≠ S "lnk" ∧ k ≠ S "carg" ∧ k ≠ CVARSORT ∧ k.head? ≠ some ':')
    (hl : isLowerStr k = true) :
    stepTriple { top := top, nodes := pre ++ [pn], edges := edges } (v, ':' :: k, x) =
      .ok { top := top, nodes := pre ++ [{ pn with props := dset (upper k) x pn.props }], edges := edges } := by
  have h0 : lstripColon (':' :: k) = k := lstripColon_colon k hk.2.2.2.2
  simp only [stepTriple, h0, hk.1, hk.2.1, hk.2.2.1, hk.2.2.2.1, hl, any_var_last pre pn v hp, if_true, if_false]
  rw [updNode_last pre pn v _ hv hp]

theorem step_edge (st : PState) (s t r p : Str) (hs : st.nodes.any (fun n => decide (n.var = s)) = true)
    (hr : r.head? ≠ some ':') (hp : '-' ∉ p) (hl : isLowerStr (r ++ '-' :: p) = false) :
    stepTriple st (s, ':' :: r ++ '-' :: p, t) = .ok { st with edges := st.edges ++ [(s, t, r, p)] } := by
  have hh : (r ++ '-' :: p).head? ≠ some ':' := by
    cases r with
    | nil => simp
    | cons c r => simpa using hr
  have h0 : lstripColon (':' :: r ++ '-' :: p) = r ++ '-' :: p := lstripColon_colon _ hh
  have hne : ∀ w : Str, isLowerStr w = true → ¬ (r ++ '-' :: p = w) := by
    intro w hw e
    rw [e, hw] at hl
    cases hl
  have h1 := hne (S "instance") (by decide)
  have h2 := hne (S "lnk") (by decide)
  have h3 := hne (S "carg") (by decide)
  have h4 := hne CVARSORT (by decide)
  simp only [stepTriple, h0, h1, h2, h3, h4, hl, hs, if_true, if_false, rsplitDash_ok r p hp, Bool.false_eq_true]

/-! ### `sorted(...)` is a permutation -/

theorem insertSorted_perm (x : Str × Str) (ys : Props) : (insertSorted x ys).Perm (x :: ys) := by
  induction ys with
  | nil => exact List.Perm.refl _
  | cons y ys ih =>
    unfold insertSorted
    split
    · exact ((List.Perm.cons y ih).trans (List.Perm.swap x y ys))
    · exact List.Perm.refl _

theorem foldl_insertSorted_perm (ps acc : Props) :
    (ps.foldl (fun acc x => insertSorted x acc) acc).Perm (acc ++ ps) := by
  induction ps generalizing acc with
  | nil => simp
  | cons x ps ih =>
    simp only [List.foldl_cons]
    refine (ih (insertSorted x acc)).trans ?_
    refine (List.Perm.append_right ps (insertSorted_perm x acc)).trans ?_
    simpa using (List.perm_middle (a := x) (l₁ := acc) (l₂ := ps)).symm

theorem sortProps_perm (ps : Props) : (sortProps ps).Perm ps := by
  simpa [sortProps] using foldl_insertSorted_perm ps []

theorem mem_sortProps {ps : Props} {kv : Str × Str} : kv ∈ sortProps ps ↔ kv ∈ ps :=
  (sortProps_perm ps).mem_iff

theorem sortProps_keys_nodup (ps : Props) (h : (ps.map (·.1)).Nodup) : ((sortProps ps).map (·.1)).Nodup :=
  ((sortProps_perm ps).map (·.1)).nodup_iff.mpr h

end Verif.C02
