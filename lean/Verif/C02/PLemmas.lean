/- C02 — DMRS-PENMAN: `from_triples (to_triples d)` is `d` up to the documented renumbering. -/
import Verif.C02.Lemmas

namespace Verif.C02
open Verif.Codec Verif.Py

/-! ### strings -/

theorem lstripColon_of_head (s : Str) (h : s.head? ≠ some ':') : lstripColon s = s := by
  cases s with
  | nil => rfl
  | cons c r =>
    have hc : c ≠ ':' := by simpa using h
    unfold lstripColon
    split
    · rename_i heq
      simp at heq
      exact absurd heq.1 hc
    · rfl

theorem lstripColon_colon (s : Str) (h : s.head? ≠ some ':') : lstripColon (':' :: s) = s := by
  rw [lstripColon]
  exact lstripColon_of_head s h

theorem dropWhile_of_head {p : Char → Bool} (x : Char) (r : Str) (h : p x = false) :
    (x :: r).dropWhile p = x :: r := by
  simp [h]

theorem takeDrop_sep {p : Char → Bool} (a : Str) (b : Char) (x : Str) (ha : ∀ c ∈ a, p c = true)
    (hb : p b = false) : (a ++ b :: x).takeWhile p = a ∧ (a ++ b :: x).dropWhile p = b :: x := by
  induction a with
  | nil => simp [hb]
  | cons c a ih =>
    have hc := ha c (by simp)
    have ih' := ih (fun y hy => ha y (by simp [hy]))
    simp [hc, ih'.1, ih'.2]

theorem rsplitDash_ok (r p : Str) (hp : '-' ∉ p) : rsplitDash (r ++ '-' :: p) = some (r, p) := by
  have hrev : (r ++ '-' :: p).reverse = p.reverse ++ '-' :: r.reverse := by simp
  have h := takeDrop_sep (p := fun c => decide (c ≠ '-')) p.reverse '-' r.reverse
    (by
      intro c hc
      have : c ≠ '-' := fun e => hp (by rw [← e]; simpa using hc)
      simpa using this)
    (by simp)
  unfold rsplitDash
  simp only [hrev]
  have hm : '-' ∈ p.reverse ++ '-' :: r.reverse := by simp
  simp only [hm, if_true, h.1, h.2]
  simp

theorem intStr_cons (i : Int) : ∃ c r, intStr i = c :: r ∧ c ∉ ['"', '<', '>'] := by
  cases h : intStr i with
  | nil => exact absurd h (intStr_ne_nil i)
  | cons c r =>
    refine ⟨c, r, rfl, ?_⟩
    have hc : c ∈ intStr i := by rw [h]; simp
    intro hm
    simp only [List.mem_cons, List.not_mem_nil, or_false] at hm
    rcases hm with e | e | e <;> subst e
    · exact not_mem_intStr i '"' (by decide) (by decide) hc
    · exact not_mem_intStr i '<' (by decide) (by decide) hc
    · exact not_mem_intStr i '>' (by decide) (by decide) hc

theorem intStr_snoc (i : Int) : ∃ c r, (intStr i).reverse = c :: r ∧ c ∉ ['"', '<', '>'] := by
  cases h : (intStr i).reverse with
  | nil =>
    have : intStr i = [] := by simpa using h
    exact absurd this (intStr_ne_nil i)
  | cons c r =>
    refine ⟨c, r, rfl, ?_⟩
    have hc : c ∈ intStr i := by
      have : c ∈ (intStr i).reverse := by rw [h]; simp
      simpa using this
    intro hm
    simp only [List.mem_cons, List.not_mem_nil, or_false] at hm
    rcases hm with e | e | e <;> subst e
    · exact not_mem_intStr i '"' (by decide) (by decide) hc
    · exact not_mem_intStr i '<' (by decide) (by decide) hc
    · exact not_mem_intStr i '>' (by decide) (by decide) hc

theorem stripChars_lnk (a b : Int) :
    stripChars ['"', '<', '>'] ('"' :: (Lnk.charspan a b).str ++ ['"']) = intStr a ++ ':' :: intStr b := by
  obtain ⟨c, r, hcr, hc⟩ := intStr_cons a
  obtain ⟨e, s, hes, he⟩ := intStr_snoc b
  have h1 : ('"' :: (Lnk.charspan a b).str ++ ['"']) =
      '"' :: '<' :: c :: (r ++ ':' :: intStr b ++ ['>', '"']) := by
    simp [Lnk.str, hcr]
  have h2 : (c :: (r ++ ':' :: intStr b ++ ['>', '"'])).reverse =
      '"' :: '>' :: e :: (s ++ ':' :: (intStr a).reverse) := by
    have h0 : c :: (r ++ ':' :: intStr b ++ ['>', '"']) = intStr a ++ (':' :: intStr b ++ ['>', '"']) := by
      rw [hcr]; simp
    rw [h0]
    simp [hes]
  have hc' : decide (c ∈ ['"', '<', '>']) = false := by simpa using hc
  have he' : decide (e ∈ ['"', '<', '>']) = false := by simpa using he
  unfold stripChars
  rw [h1]
  have h3 : ('"' :: '<' :: c :: (r ++ ':' :: intStr b ++ ['>', '"'])).dropWhile (fun x => decide (x ∈ ['"', '<', '>'])) =
      c :: (r ++ ':' :: intStr b ++ ['>', '"']) := by
    rw [List.dropWhile_cons]
    simp only [show decide ('"' ∈ ['"', '<', '>']) = true from by decide, if_true]
    rw [List.dropWhile_cons]
    simp only [show decide ('<' ∈ ['"', '<', '>']) = true from by decide, if_true]
    exact dropWhile_of_head _ _ hc'
  rw [h3, h2]
  have h4 : ('"' :: '>' :: e :: (s ++ ':' :: (intStr a).reverse)).dropWhile (fun x => decide (x ∈ ['"', '<', '>'])) =
      e :: (s ++ ':' :: (intStr a).reverse) := by
    rw [List.dropWhile_cons]
    simp only [show decide ('"' ∈ ['"', '<', '>']) = true from by decide, if_true]
    rw [List.dropWhile_cons]
    simp only [show decide ('>' ∈ ['"', '<', '>']) = true from by decide, if_true]
    exact dropWhile_of_head _ _ he'
  rw [h4]
  have h5 : e :: (s ++ ':' :: (intStr a).reverse) = (intStr a ++ ':' :: intStr b).reverse := by
    simp [hes]
  rw [h5, List.reverse_reverse]

theorem splitLnk (a b : Int) :
    splitOn ':' (intStr a ++ ':' :: intStr b) = [intStr a, intStr b] := by
  rw [splitOn_append_sep ':' _ _ (not_mem_intStr a ':' (by decide) (by decide)),
      splitOn_not_mem ':' _ (not_mem_intStr b ':' (by decide) (by decide))]

/-! ### one round of the decoder loop -/

theorem any_var_false (pre : List PNode) (v : Str) (hv : ∀ m ∈ pre, m.var ≠ v) :
    pre.any (fun n => decide (n.var = v)) = false := by
  rw [List.any_eq_false]
  intro m hm
  simpa using hv m hm

theorem any_var_last (pre : List PNode) (pn : PNode) (v : Str) (h : pn.var = v) :
    (pre ++ [pn]).any (fun n => decide (n.var = v)) = true := by
  simp [h]

theorem updNode_last (pre : List PNode) (pn : PNode) (v : Str) (f : PNode → PNode)
    (hv : ∀ m ∈ pre, m.var ≠ v) (h : pn.var = v) : updNode v f (pre ++ [pn]) = pre ++ [f pn] := by
  induction pre with
  | nil => simp [updNode, h]
  | cons m pre ih =>
    have h1 : ¬ m.var = v := hv m (by simp)
    simp [updNode, h1, ih (fun x hx => hv x (by simp [hx]))]

def topAfter (top : Option Str) (v : Str) : Option Str :=
  match top with | none => some v | some x => some x

theorem step_instance (top : Option Str) (pre : List PNode) (edges : List (Str × Str × Str × Str))
    (v tgt : Str) (hv : ∀ m ∈ pre, m.var ≠ v) :
    stepTriple { top := top, nodes := pre, edges := edges } (v, S ":instance", tgt) =
      .ok { top := topAfter top v, nodes := pre ++ [{ var := v, pred := some tgt }], edges := edges } := by
  have h0 : lstripColon (S ":instance") = S "instance" := by decide
  simp only [stepTriple, h0, any_var_false pre v hv, if_true, Bool.false_eq_true, if_false]
  rw [updNode_last pre _ v _ hv rfl]
  rfl

theorem step_lnk (top : Option Str) (pre : List PNode) (pn : PNode) (edges : List (Str × Str × Str × Str))
    (v : Str) (a b : Int) (hv : ∀ m ∈ pre, m.var ≠ v) (hp : pn.var = v) :
    stepTriple { top := top, nodes := pre ++ [pn], edges := edges }
        (v, S ":lnk", '"' :: (Lnk.charspan a b).str ++ ['"']) =
      .ok { top := top, nodes := pre ++ [{ pn with lnk := .charspan a b }], edges := edges } := by
  have h0 : lstripColon (S ":lnk") = S "lnk" := by decide
  have h1 : ¬ (S "lnk" = S "instance") := by decide
  simp only [stepTriple, h0, h1, any_var_last pre pn v hp, if_true, if_false, stripChars_lnk, splitLnk,
    parseInt_intStr]
  rw [updNode_last pre pn v _ hv hp]

theorem step_carg (top : Option Str) (pre : List PNode) (pn : PNode) (edges : List (Str × Str × Str × Str))
    (v c : Str) (hv : ∀ m ∈ pre, m.var ≠ v) (hp : pn.var = v) :
    stepTriple { top := top, nodes := pre ++ [pn], edges := edges }
        (v, S ":carg", '"' :: escapeDQ c ++ ['"']) =
      .ok { top := top, nodes := pre ++ [{ pn with carg := some c }], edges := edges } := by
  have h0 : lstripColon (S ":carg") = S "carg" := by decide
  have h1 : ¬ (S "carg" = S "instance") := by decide
  have h2 : ¬ (S "carg" = S "lnk") := by decide
  have h3 : ('"' :: escapeDQ c ++ ['"']).getLast? = some '"' := by
    rw [List.getLast?_concat]
  have h4 : (('"' :: escapeDQ c ++ ['"']).drop 1).dropLast = escapeDQ c := by simp
  have h5 : ('"' :: escapeDQ c ++ ['"']) = '"' :: (escapeDQ c ++ ['"']) := rfl
  generalize ('"' :: escapeDQ c ++ ['"']) = tgt at h3 h4 h5
  subst h5
  simp only [stepTriple, h0, h1, h2, any_var_last pre pn v hp, if_true, if_false]
  rw [updNode_last pre pn v _ hv hp]
  simp only [h3, h4, and_self, if_true, unescapeDQ_escapeDQ]

theorem step_type (top : Option Str) (pre : List PNode) (pn : PNode) (edges : List (Str × Str × Str × Str))
    (v t : Str) (hv : ∀ m ∈ pre, m.var ≠ v) (hp : pn.var = v) :
    stepTriple { top := top, nodes := pre ++ [pn], edges := edges } (v, ':' :: CVARSORT, t) =
      .ok { top := top, nodes := pre ++ [{ pn with type := some t }], edges := edges } := by
  have h0 : lstripColon (':' :: CVARSORT) = CVARSORT := by decide
  have h1 : ¬ (CVARSORT = S "instance") := by decide
  have h2 : ¬ (CVARSORT = S "lnk") := by decide
  have h3 : ¬ (CVARSORT = S "carg") := by decide
  simp only [stepTriple, h0, h1, h2, h3, any_var_last pre pn v hp, if_true, if_false]
  rw [updNode_last pre pn v _ hv hp]

theorem step_prop (top : Option Str) (pre : List PNode) (pn : PNode) (edges : List (Str × Str × Str × Str))
    (v k x : Str) (hv : ∀ m ∈ pre, m.var ≠ v) (hp : pn.var = v)
    (hk : k ≠ S "instance" ∧ k ≠ S "lnk" ∧ k ≠ S "carg" ∧ k ≠ CVARSORT ∧ k.head? ≠ some ':')
    (hl : isLowerStr k = true) :
    stepTriple { top := top, nodes := pre ++ [pn], edges := edges } (v, ':' :: k, x) =
      .ok { top := top, nodes := pre ++ [{ pn with props := dset (upper k) x pn.props }], edges := edges } := by
  have h0 : lstripColon (':' :: k) = k := lstripColon_colon k hk.2.2.2.2
  simp only [stepTriple, h0, hk.1, hk.2.1, hk.2.2.1, hk.2.2.2.1, hl, any_var_last pre pn v hp, if_true, if_false]
  rw [updNode_last pre pn v _ hv hp]

theorem step_edge (st : PState) (s t r p : Str) (hs : st.nodes.any (fun n => decide (n.var = s)) = true)
    (hr : r.head? ≠ some ':') (hp : '-' ∉ p) (hl : isLowerStr (r ++ '-' :: p) = false) :
    stepTriple st (s, ':' :: r ++ '-' :: p, t) = .ok { st with edges := st.edges ++ [(s, t, r, p)] } := by
  have hh : (r ++ '-' :: p).head? ≠ some ':' := by
    cases r with
    | nil => simp
    | cons c r => simpa using hr
  have h0 : lstripColon (':' :: r ++ '-' :: p) = r ++ '-' :: p := lstripColon_colon _ hh
  have hne : ∀ w : Str, isLowerStr w = true → ¬ (r ++ '-' :: p = w) := by
    intro w hw e
    rw [e, hw] at hl
    cases hl
  have h1 := hne (S "instance") (by decide)
  have h2 := hne (S "lnk") (by decide)
  have h3 := hne (S "carg") (by decide)
  have h4 := hne CVARSORT (by decide)
  simp only [stepTriple, h0, h1, h2, h3, h4, hl, hs, if_true, if_false, rsplitDash_ok r p hp, Bool.false_eq_true]

/-! ### `sorted(...)` is a permutation -/

theorem insertSorted_perm (x : Str × Str) (ys : Props) : (insertSorted x ys).Perm (x :: ys) := by
  induction ys with
  | nil => exact List.Perm.refl _
  | cons y ys ih =>
    unfold insertSorted
    split
    · exact ((List.Perm.cons y ih).trans (List.Perm.swap x y ys))
    · exact List.Perm.refl _

theorem foldl_insertSorted_perm (ps acc : Props) :
    (ps.foldl (fun acc x => insertSorted x acc) acc).Perm (acc ++ ps) := by
  induction ps generalizing acc with
  | nil => simp
  | cons x ps ih =>
    simp only [List.foldl_cons]
    refine (ih (insertSorted x acc)).trans ?_
    refine (List.Perm.append_right ps (insertSorted_perm x acc)).trans ?_
    simpa using (List.perm_middle (a := x) (l₁ := acc) (l₂ := ps)).symm

theorem sortProps_perm (ps : Props) : (sortProps ps).Perm ps := by
  simpa [sortProps] using foldl_insertSorted_perm ps []

theorem mem_sortProps {ps : Props} {kv : Str × Str} : kv ∈ sortProps ps ↔ kv ∈ ps :=
  (sortProps_perm ps).mem_iff

theorem sortProps_keys_nodup (ps : Props) (h : (ps.map (·.1)).Nodup) : ((sortProps ps).map (·.1)).Nodup :=
  ((sortProps_perm ps).map (·.1)).nodup_iff.mpr h

/-! ### the triples of one node -/

theorem foldTriples_append (st st' : PState) (a b : List Triple) (h : foldTriples st a = .ok st') :
    foldTriples st (a ++ b) = foldTriples st' b := by
  induction a generalizing st with
  | nil =>
    simp only [foldTriples, Except.ok.injEq] at h
    subst h
    rfl
  | cons t a ih =>
    simp only [foldTriples, List.cons_append] at h ⊢
    cases hs : stepTriple st t with
    | error e => rw [hs] at h; cases h
    | ok st1 =>
      rw [hs] at h
      exact ih st1 h

theorem foldTriples_single (st st' : PState) (t : Triple) (h : stepTriple st t = .ok st') :
    foldTriples st [t] = .ok st' := by
  simp [foldTriples, h]

theorem keys_nodup_of_lower (ps : Props) (h : (ps.map (fun kv => lower kv.1)).Nodup) : (ps.map (·.1)).Nodup := by
  have h2 : ps.map (fun kv => lower kv.1) = (ps.map (·.1)).map lower := by
    simp [List.map_map, Function.comp_def]
  rw [h2] at h
  exact nodup_of_map _ _ h

theorem fold_props (top : Option Str) (pre : List PNode) (edges : List (Str × Str × Str × Str)) (v : Str)
    (hv : ∀ m ∈ pre, m.var ≠ v) (ps : Props) (pn : PNode) (hp : pn.var = v)
    (hk : ∀ kv ∈ ps, lower kv.1 ≠ S "instance" ∧ lower kv.1 ≠ S "lnk" ∧ lower kv.1 ≠ S "carg" ∧
              lower kv.1 ≠ CVARSORT ∧ (lower kv.1).head? ≠ some ':')
    (hl : ∀ kv ∈ ps, isLowerStr (lower kv.1) = true)
    (hrt : ∀ kv ∈ ps, upper (lower kv.1) = kv.1) :
    foldTriples { top := top, nodes := pre ++ [pn], edges := edges }
        (ps.map (fun kv => (v, ':' :: lower kv.1, kv.2))) =
      .ok { top := top,
            nodes := pre ++ [{ pn with props := ps.foldl (fun acc kv => dset kv.1 kv.2 acc) pn.props }],
            edges := edges } := by
  induction ps generalizing pn with
  | nil => rfl
  | cons kv ps ih =>
    have h1 := step_prop top pre pn edges v (lower kv.1) kv.2 hv hp (hk kv (by simp)) (hl kv (by simp))
    rw [hrt kv (by simp)] at h1
    simp only [List.map_cons, foldTriples, h1, List.foldl_cons]
    exact ih { pn with props := dset kv.1 kv.2 pn.props } hp
      (fun x hx => hk x (by simp [hx])) (fun x hx => hl x (by simp [hx])) (fun x hx => hrt x (by simp [hx]))

/-- the record `from_triples` holds for a node after reading its triples -/
def pnodeOf (o : Opts) (v : Str) (n : Node) : PNode :=
  { var := v, pred := some n.pred,
    lnk := if o.lnk && n.lnk.truthy then n.lnk else .unspec,
    type := (match n.type with | some (c :: r) => some (c :: r) | _ => none),
    props := if o.properties then sortProps n.props else [],
    carg := n.carg }

theorem part_lnk (o : Opts) (n : Node) (hn : NodeOKP n) (top : Option Str) (pre : List PNode) (pn : PNode)
    (edges : List (Str × Str × Str × Str)) (v : Str) (hv : ∀ m ∈ pre, m.var ≠ v) (hp : pn.var = v) :
    foldTriples { top := top, nodes := pre ++ [pn], edges := edges }
        (if o.lnk && n.lnk.truthy then [(v, S ":lnk", '"' :: n.lnk.str ++ ['"'])] else []) =
      .ok { top := top,
            nodes := pre ++ [{ pn with lnk := if o.lnk && n.lnk.truthy then n.lnk else pn.lnk }],
            edges := edges } := by
  by_cases hc : (o.lnk && n.lnk.truthy) = true
  · simp only [hc, if_true]
    rcases hn.lnkSpan with h | ⟨a, b, h⟩
    · rw [h] at hc
      simp [Lnk.truthy] at hc
    · rw [h]
      exact foldTriples_single _ _ _ (step_lnk top pre pn edges v a b hv hp)
  · simp only [hc]
    rfl

theorem part_carg (n : Node) (top : Option Str) (pre : List PNode) (pn : PNode)
    (edges : List (Str × Str × Str × Str)) (v : Str) (hv : ∀ m ∈ pre, m.var ≠ v) (hp : pn.var = v) :
    foldTriples { top := top, nodes := pre ++ [pn], edges := edges }
        (match n.carg with | some c => [(v, S ":carg", '"' :: escapeDQ c ++ ['"'])] | none => []) =
      .ok { top := top,
            nodes := pre ++ [{ pn with carg := (match n.carg with | some c => some c | none => pn.carg) }],
            edges := edges } := by
  cases n.carg with
  | none => rfl
  | some c => exact foldTriples_single _ _ _ (step_carg top pre pn edges v c hv hp)

theorem part_type (n : Node) (top : Option Str) (pre : List PNode) (pn : PNode)
    (edges : List (Str × Str × Str × Str)) (v : Str) (hv : ∀ m ∈ pre, m.var ≠ v) (hp : pn.var = v) :
    foldTriples { top := top, nodes := pre ++ [pn], edges := edges }
        (match n.type with | some (c :: r) => [(v, ':' :: CVARSORT, c :: r)] | _ => []) =
      .ok { top := top,
            nodes := pre ++ [{ pn with type := (match n.type with | some (c :: r) => some (c :: r) | _ => pn.type) }],
            edges := edges } := by
  cases n.type with
  | none => rfl
  | some t =>
    cases t with
    | nil => rfl
    | cons c r => exact foldTriples_single _ _ _ (step_type top pre pn edges v (c :: r) hv hp)

theorem part_props (o : Opts) (n : Node) (hn : NodeOKP n) (top : Option Str) (pre : List PNode) (pn : PNode)
    (edges : List (Str × Str × Str × Str)) (v : Str) (hv : ∀ m ∈ pre, m.var ≠ v) (hp : pn.var = v)
    (he : pn.props = []) :
    foldTriples { top := top, nodes := pre ++ [pn], edges := edges }
        (if o.properties then (sortProps (pyDict n.props)).map (fun kv => (v, ':' :: lower kv.1, kv.2)) else []) =
      .ok { top := top,
            nodes := pre ++ [{ pn with props := if o.properties then sortProps n.props else [] }],
            edges := edges } := by
  have hkeys := keys_nodup_of_lower n.props hn.keys
  by_cases hc : o.properties = true
  · simp only [hc, if_true]
    rw [pyDict_of_nodup n.props hkeys]
    rw [fold_props top pre edges v hv (sortProps n.props) pn hp
      (fun kv h => hn.keyFree kv (mem_sortProps.mp h))
      (fun kv h => hn.keyLower kv (mem_sortProps.mp h))
      (fun kv h => hn.keyRT kv (mem_sortProps.mp h))]
    rw [he, foldl_dset (sortProps n.props) [] (by simpa using sortProps_keys_nodup n.props hkeys)]
    simp
  · simp only [hc]
    rw [← he]
    rfl

theorem fold_node (o : Opts) (n : Node) (hn : NodeOKP n) (top : Option Str) (pre : List PNode)
    (edges : List (Str × Str × Str × Str)) (v : Str) (hv : ∀ m ∈ pre, m.var ≠ v) :
    foldTriples { top := top, nodes := pre, edges := edges } (nodeTriples o v n) =
      .ok { top := topAfter top v, nodes := pre ++ [pnodeOf o v n], edges := edges } := by
  unfold nodeTriples
  simp only [List.append_assoc]
  rw [foldTriples_append _ _ _ _ (foldTriples_single _ _ _ (step_instance top pre edges v n.pred hv))]
  rw [foldTriples_append _ _ _ _ (part_lnk o n hn _ pre _ edges v hv rfl)]
  refine (foldTriples_append _ _ _ _ (part_carg n _ pre _ edges v hv rfl)).trans ?_
  refine (foldTriples_append _ _ _ _ (part_type n _ pre _ edges v hv rfl)).trans ?_
  refine (part_props o n hn _ pre _ edges v hv rfl rfl).trans ?_
  unfold pnodeOf
  cases n.carg <;> rfl

/-! ### all nodes, all links -/

def topAfterL (top : Option Str) (vs : List Str) : Option Str :=
  match top with | some x => some x | none => vs.head?

theorem fold_nodes (o : Opts) (vn : Int → Str) (ns : List Node) (hn : ∀ n ∈ ns, NodeOKP n)
    (top : Option Str) (pre : List PNode) (edges : List (Str × Str × Str × Str))
    (hnd : (pre.map (·.var) ++ ns.map (fun n => vn n.id)).Nodup) (rest : List Triple) :
    foldTriples { top := top, nodes := pre, edges := edges }
        (ns.flatMap (fun n => nodeTriples o (vn n.id) n) ++ rest) =
      foldTriples { top := topAfterL top (ns.map (fun n => vn n.id)),
                    nodes := pre ++ ns.map (fun n => pnodeOf o (vn n.id) n), edges := edges } rest := by
  induction ns generalizing top pre with
  | nil =>
    have : topAfterL top [] = top := by cases top <;> rfl
    simp [this]
  | cons n ns ih =>
    have hv : ∀ m ∈ pre, m.var ≠ vn n.id := by
      intro m hm e
      have h1 := (List.nodup_append.mp hnd).2.2 m.var (List.mem_map_of_mem hm) (vn n.id) (by simp)
      exact h1 e
    have hnd' : ((pre ++ [pnodeOf o (vn n.id) n]).map (·.var) ++ ns.map (fun n => vn n.id)).Nodup := by
      simpa [pnodeOf] using hnd
    simp only [List.flatMap_cons, List.append_assoc]
    rw [foldTriples_append _ _ _ _ (fold_node o n (hn n (by simp)) top pre edges (vn n.id) hv)]
    rw [ih (fun x hx => hn x (by simp [hx])) _ _ hnd']
    have ht : topAfterL (topAfter top (vn n.id)) (ns.map (fun n => vn n.id)) =
        topAfterL top ((n :: ns).map (fun n => vn n.id)) := by cases top <;> rfl
    rw [ht]
    simp

def roleOf (l : Link) : Str := l.role.getD []
def postOf (l : Link) : Str := l.post.getD []
def linkTriple (vn : Int → Str) (l : Link) : Triple :=
  (vn l.start, ':' :: roleOf l ++ '-' :: postOf l, vn l.stop)

theorem fold_links (vn : Int → Str) (ls : List Link) (hl : ∀ l ∈ ls, LinkOKP l)
    (top : Option Str) (nodes : List PNode) (edges : List (Str × Str × Str × Str))
    (hs : ∀ l ∈ ls, nodes.any (fun n => decide (n.var = vn l.start)) = true) :
    foldTriples { top := top, nodes := nodes, edges := edges } (ls.map (linkTriple vn)) =
      .ok { top := top, nodes := nodes,
            edges := edges ++ ls.map (fun l => (vn l.start, vn l.stop, roleOf l, postOf l)) } := by
  induction ls generalizing edges with
  | nil => simp [foldTriples]
  | cons l ls ih =>
    obtain ⟨r, hr, _, hhead⟩ := (hl l (by simp)).role
    obtain ⟨p, hp, hdash⟩ := (hl l (by simp)).post
    have hnl := (hl l (by simp)).notLower r p hr hp
    have hr' : roleOf l = r := by simp [roleOf, hr]
    have hp' : postOf l = p := by simp [postOf, hp]
    have h1 := step_edge { top := top, nodes := nodes, edges := edges } (vn l.start) (vn l.stop) r p
      (hs l (by simp)) hhead hdash hnl
    simp only [List.map_cons, foldTriples, linkTriple, hr', hp', h1]
    rw [← hr', ← hp']
    have := ih (fun x hx => hl x (by simp [hx])) (edges ++ [(vn l.start, vn l.stop, roleOf l, postOf l)])
      (fun x hx => hs x (by simp [hx]))
    rw [this]
    simp

/-! ### the variable map -/

def idStep (d : DMRS) (acc : List (Int × Str)) (p : Nat × Node) : List (Int × Str) :=
  if acc.any (fun q => q.1 = p.2.id) then
    acc.map (fun q => if q.1 = p.2.id then (p.2.id, varName d p.1 p.2) else q)
  else acc ++ [(p.2.id, varName d p.1 p.2)]

theorem idMap_eq_foldl (d : DMRS) : idMap d = (enumFrom1 1 d.nodes).foldl (idStep d) [] := rfl

theorem idStep_keys (d : DMRS) (acc : List (Int × Str)) (p : Nat × Node) (k : Int)
    (h : k ∈ acc.map (·.1) ∨ k = p.2.id) : k ∈ (idStep d acc p).map (·.1) := by
  unfold idStep
  by_cases hany : acc.any (fun q => decide (q.1 = p.2.id)) = true
  · simp only [hany, if_true]
    have hk : (acc.map (fun q => if q.1 = p.2.id then (p.2.id, varName d p.1 p.2) else q)).map (·.1) =
        acc.map (·.1) := by
      rw [List.map_map]
      apply List.map_congr_left
      intro q _
      simp only [Function.comp]
      split
      · rename_i e; exact e.symm
      · rfl
    rw [hk]
    rcases h with h | h
    · exact h
    · obtain ⟨q, hq, hqe⟩ := List.any_eq_true.mp hany
      have : q.1 = p.2.id := by simpa using hqe
      rw [h, ← this]
      exact List.mem_map_of_mem hq
  · simp only [hany]
    simp only [Bool.false_eq_true, if_false, List.map_append, List.map_cons, List.map_nil, List.mem_append,
      List.mem_singleton]
    exact h

theorem foldl_idStep_keys (d : DMRS) (ps : List (Nat × Node)) (acc : List (Int × Str)) (k : Int)
    (h : k ∈ acc.map (·.1) ∨ k ∈ ps.map (·.2.id)) : k ∈ (ps.foldl (idStep d) acc).map (·.1) := by
  induction ps generalizing acc with
  | nil => simpa using h
  | cons p ps ih =>
    simp only [List.foldl_cons]
    apply ih
    rcases h with h | h
    · exact Or.inl (idStep_keys d acc p k (Or.inl h))
    · simp only [List.map_cons, List.mem_cons] at h
      rcases h with h | h
      · exact Or.inl (idStep_keys d acc p k (Or.inr h))
      · exact Or.inr h

theorem enumFrom1_ids (i : Nat) (l : List Node) : (enumFrom1 i l).map (·.2.id) = l.map (·.id) := by
  induction l generalizing i with
  | nil => rfl
  | cons a l ih => simp [enumFrom1, ih]

theorem idMap_keys (d : DMRS) (k : Int) (h : k ∈ d.nodes.map (·.id)) : k ∈ (idMap d).map (·.1) := by
  rw [idMap_eq_foldl]
  apply foldl_idStep_keys
  right
  rw [enumFrom1_ids]
  exact h

theorem idGet_cons (q : Int × Str) (m : List (Int × Str)) (k : Int) :
    idGet (q :: m) k = if q.1 = k then some q.2 else idGet m k := by
  unfold idGet
  by_cases h : q.1 = k <;> simp [h]

theorem idGet_of_key (m : List (Int × Str)) (k : Int) (h : k ∈ m.map (·.1)) : ∃ v, idGet m k = some v := by
  induction m with
  | nil => simp at h
  | cons q m ih =>
    rw [idGet_cons]
    by_cases hq : q.1 = k
    · exact ⟨q.2, by simp [hq]⟩
    · simp only [hq, if_false]
      apply ih
      simp only [List.map_cons, List.mem_cons] at h
      rcases h with h | h
      · exact absurd h.symm hq
      · exact h

theorem idGet_mem (m : List (Int × Str)) (k : Int) (v : Str) (h : idGet m k = some v) : v ∈ m.map (·.2) := by
  induction m with
  | nil => simp [idGet] at h
  | cons q m ih =>
    rw [idGet_cons] at h
    by_cases hq : q.1 = k
    · simp only [hq, if_true, Option.some.injEq] at h
      simp [h]
    · simp only [hq, if_false] at h
      simp [ih h]

theorem idGet_inj (m : List (Int × Str)) (hnd : (m.map (·.2)).Nodup) (a b : Int) (v : Str)
    (ha : idGet m a = some v) (hb : idGet m b = some v) : a = b := by
  induction m with
  | nil => simp [idGet] at ha
  | cons q m ih =>
    simp only [List.map_cons, List.nodup_cons] at hnd
    rw [idGet_cons] at ha hb
    by_cases hqa : q.1 = a <;> by_cases hqb : q.1 = b
    · rw [← hqa, ← hqb]
    · simp only [hqa, if_true, Option.some.injEq] at ha
      simp only [hqb, if_false] at hb
      rw [← ha] at hb
      exact absurd (idGet_mem m b q.2 hb) hnd.1
    · simp only [hqb, if_true, Option.some.injEq] at hb
      simp only [hqa, if_false] at ha
      rw [← hb] at ha
      exact absurd (idGet_mem m a q.2 ha) hnd.1
    · simp only [hqa, if_false] at ha
      simp only [hqb, if_false] at hb
      exact ih hnd.2 ha hb

/-- the variable of node `i` -/
def vname (d : DMRS) (i : Int) : Str := (idGet (idMap d) i).getD []

theorem idGet_vname (d : DMRS) (i : Int) (h : i ∈ d.nodes.map (·.id)) :
    idGet (idMap d) i = some (vname d i) := by
  obtain ⟨v, hv⟩ := idGet_of_key (idMap d) i (idMap_keys d i h)
  simp [vname, hv]

theorem vname_inj (d : DMRS) (hx : ExpressibleP d) (a b : Int) (ha : a ∈ d.nodes.map (·.id))
    (hb : b ∈ d.nodes.map (·.id)) (h : vname d a = vname d b) : a = b := by
  have h1 := idGet_vname d a ha
  have h2 := idGet_vname d b hb
  rw [← h] at h2
  exact idGet_inj (idMap d) hx.vars a b _ h1 h2

/-! ### the encoder's output -/

def keptLinks (d : DMRS) : List Link :=
  d.links.filter (fun l => l.start ∈ mainComponent d && l.stop ∈ mainComponent d)

theorem flatMap_nodes (o : Opts) (m : List (Int × Str)) (vn : Int → Str) (comp : List Int) (L : List Node)
    (hL : ∀ n ∈ L, idGet m n.id = some (vn n.id)) :
    L.flatMap (fun n =>
      if n.id ∈ comp then (match idGet m n.id with | some v => nodeTriples o v n | none => []) else []) =
    (L.filter (fun n => n.id ∈ comp)).flatMap (fun n => nodeTriples o (vn n.id) n) := by
  induction L with
  | nil => rfl
  | cons n L ih =>
    have ih' := ih (fun x hx => hL x (by simp [hx]))
    have h1 := hL n (by simp)
    by_cases hc : n.id ∈ comp
    · simp only [List.flatMap_cons, List.filter_cons, hc, decide_true, if_true, h1, ih']
    · simp only [List.flatMap_cons, List.filter_cons, hc, decide_false, if_false, ih', List.nil_append,
        Bool.false_eq_true]

theorem filterMap_links (m : List (Int × Str)) (vn : Int → Str) (L : List Link)
    (hL : ∀ l ∈ L, idGet m l.start = some (vn l.start) ∧ idGet m l.stop = some (vn l.stop) ∧ LinkOKP l) :
    L.filterMap (fun l =>
      match idGet m l.start, idGet m l.stop, l.role with
      | some s, some t, some r => some (s, ':' :: upper r ++ '-' :: fmtOpt l.post, t)
      | _, _, _ => none) = L.map (linkTriple vn) := by
  induction L with
  | nil => rfl
  | cons l L ih =>
    have ih' := ih (fun x hx => hL x (by simp [hx]))
    obtain ⟨h1, h2, h3⟩ := hL l (by simp)
    obtain ⟨r, hr, hup, _⟩ := h3.role
    obtain ⟨p, hp, _⟩ := h3.post
    simp only [List.filterMap_cons, h1, h2, hr, List.map_cons, linkTriple, roleOf, postOf, hp, hup,
      Option.getD_some]
    rw [ih']
    rfl

theorem toTriples_eq (o : Opts) (d : DMRS) (hx : ExpressibleP d) :
    toTriples o d = .ok ((pOrder d).flatMap (fun n => nodeTriples o (vname d n.id) n) ++
      (keptLinks d).map (linkTriple (vname d))) := by
  have g1 : (d.links.any fun l => decide (l.start ∉ d.nodes.map (·.id)) || decide (l.stop ∉ d.nodes.map (·.id))) = false := by
    rw [List.any_eq_false]
    intro l hl
    have := hx.ends l hl
    simp [this.1, this.2]
  have g2 : ((d.links.filter (fun l => decide (l.start ∈ mainComponent d) && decide (l.stop ∈ mainComponent d))).any
      (fun l => l.role.isNone)) = false := by
    rw [List.any_eq_false]
    intro l hl
    obtain ⟨r, hr, _⟩ := (hx.links l (List.mem_filter.mp hl).1).role
    simp [hr]
  have hA := flatMap_nodes o (idMap d) (vname d) (mainComponent d)
    (d.nodes.filter (fun n => d.top = some n.id) ++ d.nodes.filter (fun n => d.top ≠ some n.id))
    (by
      intro n hn
      apply idGet_vname
      rcases List.mem_append.mp hn with h | h
      · exact List.mem_map_of_mem (List.mem_filter.mp h).1
      · exact List.mem_map_of_mem (List.mem_filter.mp h).1)
  have hB := filterMap_links (idMap d) (vname d) (keptLinks d)
    (by
      intro l hl
      have hl' := (List.mem_filter.mp hl).1
      exact ⟨idGet_vname d _ (hx.ends l hl').1, idGet_vname d _ (hx.ends l hl').2, hx.links l hl'⟩)
  unfold toTriples
  simp only [g1, g2, Bool.false_eq_true, if_false]
  refine congrArg Except.ok ?_
  exact congr (congrArg _ hA) hB

/-! ### the kept nodes -/

theorem mem_pOrder {d : DMRS} {n : Node} : n ∈ pOrder d ↔ n ∈ d.nodes ∧ n.id ∈ mainComponent d := by
  unfold pOrder
  simp only [List.mem_filter, List.mem_append, decide_eq_true_eq]
  constructor
  · rintro ⟨h | h, hc⟩
    · exact ⟨h.1, hc⟩
    · exact ⟨h.1, hc⟩
  · rintro ⟨h, hc⟩
    by_cases ht : d.top = some n.id
    · exact ⟨Or.inl ⟨h, ht⟩, hc⟩
    · exact ⟨Or.inr ⟨h, ht⟩, hc⟩

theorem mem_pOrder_ids {d : DMRS} {i : Int} :
    i ∈ (pOrder d).map (·.id) ↔ i ∈ d.nodes.map (·.id) ∧ i ∈ mainComponent d := by
  constructor
  · intro h
    obtain ⟨n, hn, rfl⟩ := List.mem_map.mp h
    exact ⟨List.mem_map_of_mem (mem_pOrder.mp hn).1, (mem_pOrder.mp hn).2⟩
  · rintro ⟨h, hc⟩
    obtain ⟨n, hn, rfl⟩ := List.mem_map.mp h
    exact List.mem_map_of_mem (mem_pOrder.mpr ⟨hn, hc⟩)

theorem pOrder_ids_nodup (d : DMRS) (h : (d.nodes.map (·.id)).Nodup) : ((pOrder d).map (·.id)).Nodup := by
  have hperm : (d.nodes.filter (fun n => d.top = some n.id) ++ d.nodes.filter (fun n => d.top ≠ some n.id)).Perm
      d.nodes := by
    have := List.filter_append_perm (fun n => decide (d.top = some n.id)) d.nodes
    simpa using this
  have h1 := (hperm.map (·.id)).nodup_iff.mpr h
  unfold pOrder
  exact List.Nodup.sublist (List.Sublist.map _ List.filter_sublist) h1

theorem nodup_map_of_injOn {α β : Type} (f : α → β) (l : List α) (hl : l.Nodup)
    (hf : ∀ a ∈ l, ∀ b ∈ l, f a = f b → a = b) : (l.map f).Nodup := by
  induction l with
  | nil => simp
  | cons a l ih =>
    simp only [List.nodup_cons] at hl
    simp only [List.map_cons, List.nodup_cons]
    refine ⟨?_, ih hl.2 (fun x hx y hy => hf x (by simp [hx]) y (by simp [hy]))⟩
    intro hm
    obtain ⟨b, hb, he⟩ := List.mem_map.mp hm
    have := hf a (by simp) b (by simp [hb]) he.symm
    exact hl.1 (this ▸ hb)

theorem pOrder_vars_nodup (d : DMRS) (hx : ExpressibleP d) :
    ((pOrder d).map (fun n => vname d n.id)).Nodup := by
  have h := nodup_map_of_injOn (vname d) ((pOrder d).map (·.id)) (pOrder_ids_nodup d hx.ids)
    (fun a ha b hb => vname_inj d hx a b (mem_pOrder_ids.mp ha).1 (mem_pOrder_ids.mp hb).1)
  simpa [List.map_map, Function.comp_def] using h

/-- the `Node` that `from_triples` builds out of the `i`-th record -/
def nodeOfP (p : Nat × PNode) : Node :=
  { id := FIRST_NODE_ID + (p.1 : Int), pred := p.2.pred.getD [], type := p.2.type, props := p.2.props,
    carg := p.2.carg, lnk := p.2.lnk }

theorem nodes_view (o : Opts) (d : DMRS) (hnd : ((pOrder d).map (·.id)).Nodup) (pre suf : List Node)
    (h : pOrder d = pre ++ suf) :
    (enumFrom1 pre.length (suf.map (fun n => pnodeOf o (vname d n.id) n))).map nodeOfP =
      suf.map (viewNodeP o d) := by
  induction suf generalizing pre with
  | nil => rfl
  | cons n suf ih =>
    have hget : (pOrder d)[pre.length]? = some n := by rw [h]; simp
    obtain ⟨hi, hg⟩ := List.getElem?_eq_some_iff.mp hget
    have hid := renId_getElem d hnd pre.length hi
    rw [hg] at hid
    have ih' := ih (pre ++ [n]) (by rw [h]; simp)
    simp only [List.length_append, List.length_cons, List.length_nil] at ih'
    simp only [List.map_cons, enumFrom1, ih']
    congr 1
    simp [nodeOfP, viewNodeP, pnodeOf, hid]
    rfl

theorem indexOfVar_pn (o : Opts) (d : DMRS) (hx : ExpressibleP d) (L : List Node)
    (hL : ∀ n ∈ L, n.id ∈ d.nodes.map (·.id)) (a : Int) (ha : a ∈ d.nodes.map (·.id))
    (hm : a ∈ L.map (·.id)) :
    indexOfVar (vname d a) (L.map (fun n => pnodeOf o (vname d n.id) n)) = some ((L.map (·.id)).idxOf a) := by
  induction L with
  | nil => simp at hm
  | cons n L ih =>
    by_cases hna : n.id = a
    · simp [indexOfVar, pnodeOf, hna]
    · have hv : ¬ vname d n.id = vname d a := fun e => hna (vname_inj d hx _ _ (hL n (by simp)) ha e)
      have hm' : a ∈ L.map (·.id) := by
        simp only [List.map_cons, List.mem_cons] at hm
        rcases hm with hm | hm
        · exact absurd hm.symm hna
        · exact hm
      have ih' := ih (fun x hx' => hL x (by simp [hx'])) hm'
      simp only [List.map_cons, indexOfVar, pnodeOf, hv, if_false]
      simp only [pnodeOf] at ih'
      rw [ih']
      have hb : (n.id == a) = false := by simpa using hna
      simp [List.idxOf_cons, hb]

theorem nid_vname (o : Opts) (d : DMRS) (hx : ExpressibleP d) (a : Int) (ha : a ∈ (pOrder d).map (·.id)) :
    (indexOfVar (vname d a) ((pOrder d).map (fun n => pnodeOf o (vname d n.id) n))).map
      (fun i => FIRST_NODE_ID + (i : Int)) = some (renId d a) := by
  rw [indexOfVar_pn o d hx (pOrder d) (fun n hn => List.mem_map_of_mem (mem_pOrder.mp hn).1) a
    (mem_pOrder_ids.mp ha).1 ha]
  rfl

/-! ### the round trip -/

theorem fold_all (o : Opts) (d : DMRS) (hx : ExpressibleP d) :
    foldTriples {} ((pOrder d).flatMap (fun n => nodeTriples o (vname d n.id) n) ++
        (keptLinks d).map (linkTriple (vname d))) =
      .ok { top := ((pOrder d).map (fun n => vname d n.id)).head?,
            nodes := (pOrder d).map (fun n => pnodeOf o (vname d n.id) n),
            edges := (keptLinks d).map (fun l => (vname d l.start, vname d l.stop, roleOf l, postOf l)) } := by
  have h1 := fold_nodes o (vname d) (pOrder d) (fun n hn => hx.nodes n (mem_pOrder.mp hn).1) none [] []
    (by simpa using pOrder_vars_nodup d hx) ((keptLinks d).map (linkTriple (vname d)))
  have h2 := fold_links (vname d) (keptLinks d) (fun l hl => hx.links l (List.mem_filter.mp hl).1)
    (((pOrder d).map (fun n => vname d n.id)).head?)
    ((pOrder d).map (fun n => pnodeOf o (vname d n.id) n)) []
    (by
      intro l hl
      obtain ⟨hl', hc⟩ := List.mem_filter.mp hl
      simp only [Bool.and_eq_true, decide_eq_true_eq] at hc
      have hm : l.start ∈ (pOrder d).map (·.id) := mem_pOrder_ids.mpr ⟨(hx.ends l hl').1, hc.1⟩
      obtain ⟨n, hn, hid⟩ := List.mem_map.mp hm
      rw [List.any_eq_true]
      exact ⟨pnodeOf o (vname d n.id) n, List.mem_map_of_mem hn, by simp [pnodeOf, hid]⟩)
  simp only [List.nil_append] at h1 h2
  exact h1.trans h2

theorem fromTriples_toTriples (o : Opts) (d : DMRS) (hx : ExpressibleP d) :
    ∃ ts, toTriples o d = .ok ts ∧ fromTriples ts = .ok (viewP o d) := by
  refine ⟨_, toTriples_eq o d hx, ?_⟩
  obtain ⟨t, ht, htm⟩ := hx.top
  have htP : t ∈ (pOrder d).map (·.id) := mem_pOrder_ids.mpr ⟨htm, top_mem_mainComponent d t ht⟩
  have hnd := pOrder_ids_nodup d hx.ids
  have hnodes := nodes_view o d hnd [] (pOrder d) rfl
  have hany : ((pOrder d).map (fun n => pnodeOf o (vname d n.id) n)).any (fun n => n.pred.isNone) = false := by
    rw [List.any_eq_false]
    intro pn hpn
    obtain ⟨n, _, rfl⟩ := List.mem_map.mp hpn
    simp [pnodeOf]
  obtain ⟨n0, P', hP⟩ : ∃ n0 P', pOrder d = n0 :: P' := by
    cases h : pOrder d with
    | nil => rw [h] at htP; simp at htP
    | cons a b => exact ⟨a, b, rfl⟩
  have hn0 : renId d n0.id = FIRST_NODE_ID := by
    unfold renId
    rw [hP]
    simp
  have hn0m : n0.id ∈ (pOrder d).map (·.id) := by rw [hP]; simp
  have htop : renId d t = FIRST_NODE_ID := renId_top d t ht htm
  have hhead : ((pOrder d).map (fun n => vname d n.id)).head? = some (vname d n0.id) := by rw [hP]; rfl
  unfold fromTriples
  simp only [fold_all o d hx, hany, Bool.false_eq_true, if_false]
  rw [mapMExcept_map _ _
    (fun l => ({ start := renId d l.start, stop := renId d l.stop, role := some (roleOf l),
                 post := some (postOf l) } : Link)) (keptLinks d)
    (by
      intro l hl
      obtain ⟨hl', hc⟩ := List.mem_filter.mp hl
      simp only [Bool.and_eq_true, decide_eq_true_eq] at hc
      have hm1 : l.start ∈ (pOrder d).map (·.id) := mem_pOrder_ids.mpr ⟨(hx.ends l hl').1, hc.1⟩
      have hm2 : l.stop ∈ (pOrder d).map (·.id) := mem_pOrder_ids.mpr ⟨(hx.ends l hl').2, hc.2⟩
      simp only [nid_vname o d hx _ hm1, nid_vname o d hx _ hm2])]
  simp only [hhead, Option.bind_some, nid_vname o d hx _ hn0m, hn0]
  rw [mkDMRS_of_wf]
  · have hn' : (enumFrom1 0 ((pOrder d).map (fun n => pnodeOf o (vname d n.id) n))).map nodeOfP =
        (pOrder d).map (viewNodeP o d) := hnodes
    unfold nodeOfP at hn'
    rw [hn']
    unfold viewP
    simp only [ht, Option.map_some, htop]
    congr 2
    apply List.map_congr_left
    intro l hl
    obtain ⟨r, hr, _⟩ := (hx.links l (List.mem_filter.mp hl).1).role
    obtain ⟨p, hp, _⟩ := (hx.links l (List.mem_filter.mp hl).1).post
    obtain ⟨a, b, ro, po⟩ := l
    simp only at hr hp
    simp [roleOf, postOf, hr, hp]
  · intro l hl
    obtain ⟨l0, _, rfl⟩ := List.mem_map.mp hl
    have : FIRST_NODE_ID = 10000 := rfl
    have h0 : TOP_NODE_ID = 0 := rfl
    simp only [renId, this, h0]
    omega

end Verif.C02

