/-
C05 — property theorems (MRS → EDS conversion is total and dependency-sound on well-formed input).

Only property statements live here; the proofs are references to `Lemmas.lean`.  Vocabulary
(defined in `Lemmas.lean`, all in terms of the SOURCE MRS):

* `NoReserved m`      no ARG0 has the sort `_` or `q` (the sorts of generated ids `_k`, `qk`);
* `NodeData m p n`    node `n` carries predicate, CARG, lnk, surface, base of predication `p` and the
                      sort and properties of its ARG0 (`none` / `[]` for a quantifier);
* `BVJust s r t`      `r = BV`, `s` is a quantifier, `t` is not, and they have the same ARG0;
* `ArgJust m s r t`   `s` has an argument `(r, v)`, `r ≠ ARG0`, and `v` is the ARG0 of the
                      non-quantifier `t`, or the label of `t`, or the `hi` of an hcons whose `lo` is
                      the label of `t`;
* `PMJust E s r t`    `r = ARG1`, `s` and `t` have the same label and are not connected in the
                      undirected graph `E`;
* `EdgeJust m on E`   `BVJust ∨ ArgJust ∨ (on ∧ PMJust E)`;
* `Justified m J ns`  for the node at position `i` and each of its edges `(r, tgt)` there is a
                      position `j` with `ns[j].id = tgt` and `J preds[i] r preds[j]`.

* `lkbIds 1 ps`       the ids of the LKB method in EP order: ARG0 for a non-quantifier, `_1, _2, …`
                      for quantifiers (and EPs without ARG0);
* `UniqueQuant m`     at most one quantifier binds a variable (reading of the input space fixed with
                      the coordinator; `is_well_formed` does not test it);
* `HasReps m`         every scope that is the `lo` of a handle constraint or the value of an
                      argument has a representative (forced by finding F08);
* `ExpressibleM/E`    local copies of C03's `Expressible` for the source MRS / the resulting EDS
                      (over `String`); the bridge to C03's own predicate and the composition with
                      C03's round-trip theorems live in `Verif.Integration` (`mrs_eds_expressible`,
                      `mrs_eds_native_roundtrip`, `mrs_eds_json_roundtrip`), which imports this file;
* `AddlJ m J a`       contract on the mapping `a` returned by a user function: every edge is keyed
                      by an EP id, ends at an EP id and satisfies `J`; `KeysIn m a`: every key of
                      `a` is an EP id.

Hypotheses: soundness (shape, edge justification, closedness) needs only `NoReserved m` and
`m.hasCompleteIVs`; identifier uniqueness and the BV clause need the full intrinsic-variable
property; totality needs `isWellFormed`, `NoReserved` and `HasReps`.
-/
import Verif.C05.ExprLemmas
import Verif.Generated.TablesC05

namespace Verif.C05
open Verif.Sem Verif.Tables

/-! ## "unique predication ids in MRS" (`_uniquify_ids`) -/

/-- The EP ids after `_uniquify_ids` are pairwise distinct when every non-quantifier EP has an
ARG0 and no ARG0 is of the form `_k`. -/
theorem uniquifyIds_nodup (m : MRS) (hnr : NoReserved m) (hc : m.hasCompleteIVs = true) :
    m.ids.Nodup := ids_nodup hnr hc

/-- The hypothesis is needed: two EPs without ARG0 in an MRS whose largest variable id is 0 both
get the id `_0`. -/
theorem uniquifyIds_cex :
    ¬ (MRS.ids { top := none, index := none, hcons := [],
                 rels := [{ predicate := "a", label := ⟨"h", 0⟩, args := [] },
                          { predicate := "b", label := ⟨"h", 0⟩, args := [] }] }).Nodup := by
  decide

/-! ## "yields one node per predication, in order, carrying its predicate, constant, alignment and
the type and properties of its intrinsic variable" -/

/-- Shape: for every configuration (also a user-supplied predicate-modifier function), a
successful conversion has exactly one node per predication, in `rels` order, with the data of
that predication; with `unique_ids=False` the node id is the EP id. -/
theorem fromMrs_shape (pm : PM) (uniq : Bool) (m : MRS) (hnr : NoReserved m)
    (e : EDS) (w : List Warn) (h : fromMrs pm uniq m = .ok (e, w)) :
    e.nodes.length = m.rels.length ∧
    All2 (fun p n => NodeData m p n ∧ (uniq = false → n.id = p.1)) m.preds e.nodes := by
  have := fromMrs_shape_aux hnr h
  exact ⟨by rw [← this.length_eq, ← preds_map_snd m, List.length_map], this⟩

/-! ## "Every edge is justified by the source … and every edge ending at a node" -/

/-- Edge justification and closedness.  For `predicate_modifiers ∈ {False, True}` and both values of
`unique_ids`: every edge `(role, tgt)` of the node of predication `s` ends at the node of a
predication `t` (so every edge ends at a node) and is
  * a `BV` edge from a quantifier to the non-quantifier with the same ARG0, or
  * justified by an argument of `s` with that role whose value is the intrinsic variable of `t`,
    the label of `t`'s scope, or a hole constrained (hcons) to that label, or
  * (only with predicate modifiers on) an `ARG1` edge between two predications with the same label
    that are not connected in the dependency graph of the conversion without predicate modifiers
    (`e0`, which exists and carries the same warnings). -/
theorem fromMrs_edges_justified (pm : PM) (uniq : Bool) (m : MRS)
    (hnr : NoReserved m) (hc : m.hasCompleteIVs = true) (hpm : pm = .off ∨ pm = .std)
    (e : EDS) (w : List Warn) (h : fromMrs pm uniq m = .ok (e, w)) :
    ∃ e0, fromMrs .off false m = .ok (e0, w) ∧
      Justified m (EdgeJust m pm.isOn (edgePairs e0.nodes)) e.nodes := by
  obtain ⟨e0, h0, _, hJ, _⟩ := fromMrs_spec (ids_nodup hnr hc) hnr hpm h
  exact ⟨e0, h0, hJ⟩

/-- "every edge ending at a node" -/
theorem fromMrs_edges_closed (pm : PM) (uniq : Bool) (m : MRS)
    (hnr : NoReserved m) (hc : m.hasCompleteIVs = true) (hpm : pm = .off ∨ pm = .std)
    (e : EDS) (w : List Warn) (h : fromMrs pm uniq m = .ok (e, w)) :
    ∀ n ∈ e.nodes, ∀ rt ∈ n.edges, rt.2 ∈ e.nodes.map (·.id) := by
  obtain ⟨_, _, hN, hJ, _⟩ := fromMrs_spec (ids_nodup hnr hc) hnr hpm h
  intro n hn rt hrt
  obtain ⟨p, _, hz, _⟩ := hN.mem_left n hn
  obtain ⟨qn, hqn, hid, _⟩ := hJ (p, n) hz rt hrt
  exact List.mem_map.2 ⟨qn.2, (List.of_mem_zip hqn).2, hid⟩

/-- "a top that is a node": whenever the result has a top, it is the identifier of a node. -/
theorem fromMrs_top_is_node (pm : PM) (uniq : Bool) (m : MRS)
    (hnr : NoReserved m) (hc : m.hasCompleteIVs = true) (hpm : pm = .off ∨ pm = .std)
    (e : EDS) (w : List Warn) (h : fromMrs pm uniq m = .ok (e, w)) (t : Var) (ht : e.top = some t) :
    t ∈ e.nodes.map (·.id) := by
  obtain ⟨_, _, _, _, hT⟩ := fromMrs_spec (ids_nodup hnr hc) hnr hpm h
  obtain ⟨pn, hpn, hid⟩ := hT t ht
  exact List.mem_map.2 ⟨pn.2, (List.of_mem_zip hpn).2, hid⟩

/-! ## "with unique node identifiers" -/

/-- With `unique_ids=False` the node identifiers are the EP ids, hence pairwise distinct. -/
theorem fromMrs_ids_unique_partial (pm : PM) (m : MRS)
    (hnr : NoReserved m) (hc : m.hasCompleteIVs = true)
    (e : EDS) (w : List Warn) (h : fromMrs pm false m = .ok (e, w)) :
    e.nodes.map (·.id) = m.ids ∧ (e.nodes.map (·.id)).Nodup := by
  have hids := fromMrs_ids_raw hnr h
  exact ⟨hids, by rw [hids]; exact ids_nodup hnr hc⟩

/-- "LKB-style identifier reassignment": with `unique_ids=True` and the intrinsic-variable
property the node identifiers are, in order, the ARG0 of a non-quantifier and `_1, _2, …` for the
quantifiers (`lkbIds`).  Under that property no two EPs share a new id, so the second loop of
`make_ids_unique` — the only place where the iteration order of a Python `set` could matter —
changes nothing (`newIds_eq`): the statement holds for every admissible order. -/
theorem fromMrs_ids_lkb_style (pm : PM) (m : MRS) (hiv : m.hasIVProperty = true) (hnr : NoReserved m)
    (e : EDS) (w : List Warn) (h : fromMrs pm true m = .ok (e, w)) :
    e.nodes.map (·.id) = lkbIds 1 m.preds := fromMrs_ids_lkb hiv hnr h

/-- Node identifiers are pairwise distinct, for both values of `unique_ids` and every
`predicate_modifiers` argument. -/
theorem fromMrs_ids_unique (pm : PM) (uniq : Bool) (m : MRS) (hiv : m.hasIVProperty = true)
    (hnr : NoReserved m) (e : EDS) (w : List Warn) (h : fromMrs pm uniq m = .ok (e, w)) :
    (e.nodes.map (·.id)).Nodup := by
  cases uniq with
  | false => exact (fromMrs_ids_unique_partial pm m hnr (completeIVs_of_ivProperty hiv) e w h).2
  | true =>
    rw [fromMrs_ids_lkb hiv hnr h]
    exact lkbIds_nodup m.preds 1 (by rw [filterMap_ivKey]; exact nonQuantIVs_nodup hiv)
      (by rw [filterMap_ivKey]; exact fun v hv => (nonQuantIVs_plain hnr v hv).1)

/-- `NoReserved` is needed: with ARG0s of the reserved form `_1`, `_2` the second loop hands out
`_2` although it is in use (real code: `from_mrs(MRS(rels=[EP('_the_q','h1',{'ARG0':'x2','RSTR':'h3'}),
EP('_a_n_1','h4',{'ARG0':'_1'}), EP('_b_n_1','h5',{'ARG0':'_2'})]))` has node ids `_2, _1, _2`;
the model, which iterates the group in EP order, gives `_1, _2, _2`). -/
theorem fromMrs_ids_unique_cex :
    (match fromMrs .off true
        { top := none, index := none, hcons := [],
          rels := [{ predicate := "_the_q", label := ⟨"h", 1⟩, args := [("ARG0", ⟨"x", 2⟩), ("RSTR", ⟨"h", 3⟩)] },
                   { predicate := "_a_n_1", label := ⟨"h", 4⟩, args := [("ARG0", ⟨"_", 1⟩)] },
                   { predicate := "_b_n_1", label := ⟨"h", 5⟩, args := [("ARG0", ⟨"_", 2⟩)] }] } with
     | .ok (e, _) => e.nodes.map (·.id) == [⟨"_", 1⟩, ⟨"_", 2⟩, ⟨"_", 2⟩]
     | .error _ => false) = true := by decide

/-- `make_ids_unique` renames consistently: the result with `unique_ids=True` is the result with
`unique_ids=False` with one renaming `ρ`, injective on the EP ids, applied to the node ids, the top
and every edge target; everything else is unchanged. -/
theorem fromMrs_unique_ids_renaming (pm : PM) (m : MRS) (hiv : m.hasIVProperty = true)
    (hnr : NoReserved m) (e : EDS) (w : List Warn) (h : fromMrs pm true m = .ok (e, w)) :
    ∃ e' ρ, fromMrs pm false m = .ok (e', w) ∧
      (∀ a ∈ m.ids, ∀ b ∈ m.ids, ρ a = ρ b → a = b) ∧
      e.top = e'.top.map ρ ∧
      All2 (fun n' n => n.id = ρ n'.id ∧ n.edges = n'.edges.map (fun rt => (rt.1, ρ rt.2)) ∧
        n.core = n'.core) e'.nodes e.nodes := by
  obtain ⟨e', h1, h2, h3, h4⟩ := fromMrs_renaming_aux hiv hnr h
  exact ⟨e', _, h1, h2, h3, h4⟩

/-! ## "a quantifier has exactly one bound-variable edge to the predication it quantifies" -/

/-- For `predicate_modifiers ∈ {False, True}` and both values of `unique_ids`: when at most one
quantifier binds a variable (`UniqueQuant`, part of the reading of the input space), the node of a
quantifier whose ARG0 is the intrinsic variable of a non-quantifier predication has exactly one
`BV` edge, and it ends at the node of that predication. -/
theorem bv_exactly_one (pm : PM) (uniq : Bool) (m : MRS) (hiv : m.hasIVProperty = true)
    (hnr : NoReserved m) (huq : UniqueQuant m) (hpm : pm = .off ∨ pm = .std)
    (e : EDS) (w : List Warn) (h : fromMrs pm uniq m = .ok (e, w))
    (qn pn : Pred × ENode) (hqn : qn ∈ m.preds.zip e.nodes) (hpn : pn ∈ m.preds.zip e.nodes)
    (hqq : qn.1.2.isQuantifier = true) (hpq : pn.1.2.isQuantifier = false)
    (v : Var) (hqv : qn.1.2.iv = some v) (hpv : pn.1.2.iv = some v) :
    qn.2.edges.filter (fun rt => rt.1 == BV_ROLE) = [(BV_ROLE, pn.2.id)] :=
  bv_edge hiv hnr huq hpm h hqn hpn hqq hpq hqv hpv

/-- `UniqueQuant` is needed: with two quantifiers on one variable the first gets no `BV` edge
(`MRS.quantification_pairs` keeps one quantifier per ARG0); such an MRS passes `is_well_formed`. -/
def doubleQuant : MRS :=
  { top := some ⟨"h", 0⟩, index := some ⟨"e", 2⟩,
    rels := [{ predicate := "_a_v_1", label := ⟨"h", 1⟩, args := [("ARG0", ⟨"e", 2⟩), ("ARG1", ⟨"x", 3⟩)] },
             { predicate := "_b_n_1", label := ⟨"h", 4⟩, args := [("ARG0", ⟨"x", 3⟩)] },
             { predicate := "_the_q", label := ⟨"h", 5⟩, args := [("ARG0", ⟨"x", 3⟩), ("RSTR", ⟨"h", 6⟩)] },
             { predicate := "_a_q", label := ⟨"h", 8⟩, args := [("ARG0", ⟨"x", 3⟩), ("RSTR", ⟨"h", 9⟩)] }],
    hcons := [⟨⟨"h", 0⟩, "qeq", ⟨"h", 1⟩⟩, ⟨⟨"h", 6⟩, "qeq", ⟨"h", 4⟩⟩, ⟨⟨"h", 9⟩, "qeq", ⟨"h", 4⟩⟩] }

set_option maxRecDepth 100000 in
theorem bv_exactly_one_cex :
    doubleQuant.isWellFormed = true ∧
    (match fromMrs .std true doubleQuant with
     | .ok (e, _) => e.nodes.map (·.edges) ==
         [[("ARG1", ⟨"x", 3⟩)], [], [], [("BV", ⟨"x", 3⟩)]]
     | .error _ => false) = true := by decide

/-! ## "Converting any well-formed MRS to EDS succeeds without error or warning" -/

/-- Totality and absence of warnings, for `predicate_modifiers ∈ {False, True}` and both values of
`unique_ids`: a well-formed MRS (connected, intrinsic-variable property, scope-plausible) without
reserved sorts, in which every scope selected by a handle constraint or an argument has a
representative (`HasReps`), converts without error and without warning.  `HasReps` is forced by
finding F08 (`fromMrs_total_cex_F08` below): it is NOT implied by well-formedness for the code. -/
theorem fromMrs_total (pm : PM) (uniq : Bool) (m : MRS) (hwf : m.isWellFormed = true)
    (hnr : NoReserved m) (hhr : HasReps m) (hpm : pm = .off ∨ pm = .std) :
    ∃ e, fromMrs pm uniq m = .ok (e, []) := fromMrs_total_aux hwf hnr hhr hpm

/-- F08: a well-formed MRS on which the conversion raises `IndexError` (for every configuration). -/
def f08Witness : MRS :=
  { top := some ⟨"h", 0⟩, index := some ⟨"e", 2⟩,
    rels := [{ predicate := "_a_v_1", label := ⟨"h", 1⟩, args := [("ARG0", ⟨"e", 2⟩), ("ARG1", ⟨"e", 3⟩)] },
             { predicate := "_b_v_1", label := ⟨"h", 1⟩, args := [("ARG0", ⟨"e", 3⟩), ("ARG1", ⟨"e", 2⟩)] }],
    hcons := [⟨⟨"h", 0⟩, "qeq", ⟨"h", 1⟩⟩] }

def raisesIndexError {α : Type} : Except E α → Bool
  | .error .indexError => true
  | _ => false

set_option maxRecDepth 100000 in
/-- the witness is well-formed (connected, intrinsic-variable property, scope-plausible) and the
conversion raises `IndexError` with and without predicate modifiers / unique ids. -/
theorem fromMrs_total_cex_F08 :
    f08Witness.isWellFormed = true ∧
    raisesIndexError (fromMrs .std true f08Witness) = true ∧
    raisesIndexError (fromMrs .std false f08Witness) = true ∧
    raisesIndexError (fromMrs .off true f08Witness) = true ∧
    raisesIndexError (fromMrs .off false f08Witness) = true := by decide

/-! ## hypotheses are satisfiable / statements are not vacuous -/

/-- "The dog barks": well-formed, no reserved sorts, converts to three nodes. -/
def dogBarks : MRS :=
  { top := some ⟨"h", 0⟩, index := some ⟨"e", 2⟩,
    rels := [{ predicate := "_the_q", label := ⟨"h", 4⟩,
               args := [("ARG0", ⟨"x", 3⟩), ("RSTR", ⟨"h", 5⟩), ("BODY", ⟨"h", 6⟩)] },
             { predicate := "_dog_n_1", label := ⟨"h", 7⟩, args := [("ARG0", ⟨"x", 3⟩)] },
             { predicate := "_bark_v_1", label := ⟨"h", 1⟩, args := [("ARG0", ⟨"e", 2⟩), ("ARG1", ⟨"x", 3⟩)] }],
    hcons := [⟨⟨"h", 0⟩, "qeq", ⟨"h", 1⟩⟩, ⟨⟨"h", 5⟩, "qeq", ⟨"h", 7⟩⟩] }

set_option maxRecDepth 100000 in
example : dogBarks.isWellFormed = true ∧ dogBarks.hasCompleteIVs = true ∧
    (match fromMrs .std true dogBarks with
     | .ok (e, w) => e.top == some ⟨"e", 2⟩ && w.isEmpty &&
         e.nodes.map (fun n => (n.id, n.edges)) ==
           [(⟨"_", 1⟩, [("BV", ⟨"x", 3⟩)]), (⟨"x", 3⟩, []), (⟨"e", 2⟩, [("ARG1", ⟨"x", 3⟩)])]
     | .error _ => false) = true := by decide

example : NoReserved dogBarks := by
  intro ep hep v hv
  simp only [dogBarks, List.mem_cons, List.not_mem_nil, or_false] at hep
  rcases hep with rfl | rfl | rfl <;>
    (simp only [EP.iv, dlookup, INTRINSIC_ROLE] at hv; simp at hv; subst hv; decide)

/-! ## "… and yields … a top that is a node" -/

/-- For EVERY configuration (also a user function): a conversion that raised no warning has a top
(`_mrs_get_top` returns `None` only together with the warning 'unable to find a suitable TOP'). -/
theorem fromMrs_top_of_no_warning (pm : PM) (uniq : Bool) (m : MRS) (e : EDS)
    (h : fromMrs pm uniq m = .ok (e, [])) : ∃ t, e.top = some t := by
  cases ht : e.top with
  | none => exact absurd (fromMrs_top_none h ht) List.not_mem_nil
  | some t => exact ⟨t, rfl⟩

/-- The result of converting a well-formed MRS (`HasReps`: F08) HAS a top and it is a node, for
`predicate_modifiers ∈ {False, True}` and both values of `unique_ids`. -/
theorem fromMrs_top_exists (pm : PM) (uniq : Bool) (m : MRS) (hwf : m.isWellFormed = true)
    (hnr : NoReserved m) (hhr : HasReps m) (hpm : pm = .off ∨ pm = .std) :
    ∃ e t, fromMrs pm uniq m = .ok (e, []) ∧ e.top = some t ∧ t ∈ e.nodes.map (·.id) := by
  obtain ⟨e, he⟩ := fromMrs_total pm uniq m hwf hnr hhr hpm
  obtain ⟨t, ht⟩ := fromMrs_top_of_no_warning pm uniq m e he
  exact ⟨e, t, he, ht, fromMrs_top_is_node pm uniq m hnr
    (completeIVs_of_ivProperty (wf_parts hwf).1) hpm e [] he t ht⟩

/-! ## a user-supplied `predicate_modifiers` function

The function is represented by the mapping `a` it returns (`PM.custom a`).  The weakest contracts
under which the clauses hold:
* soundness / closedness: `AddlJ m J a` — every returned edge is keyed by an EP id, ends at an EP id
  and satisfies `J` on the two predications (`J := fun _ _ _ => True` for closedness alone;
  `J := PMJust E` is what the standard function guarantees);
* the BV clause: no returned edge has the role `BV`;
* totality: additionally every KEY of the mapping is an EP id (`KeysIn`; `e[id]` raises otherwise,
  also for an empty edge map).
Shape and identifier uniqueness (`fromMrs_shape`, `fromMrs_ids_unique`) need no contract. -/

/-- Edge justification, closedness and top for a user function under the contract `AddlJ m J a`. -/
theorem fromMrs_custom_edges_justified (a : EdgeMap) (J : Pred → Role → Pred → Prop) (uniq : Bool)
    (m : MRS) (hnr : NoReserved m) (hc : m.hasCompleteIVs = true) (ha : AddlJ m J a)
    (e : EDS) (w : List Warn) (h : fromMrs (.custom a) uniq m = .ok (e, w)) :
    Justified m (fun s r t => (BVJust s r t ∨ ArgJust m s r t) ∨ J s r t) e.nodes ∧
    (∀ n ∈ e.nodes, ∀ rt ∈ n.edges, rt.2 ∈ e.nodes.map (·.id)) ∧
    (∀ t, e.top = some t → t ∈ e.nodes.map (·.id)) := by
  have hadd : ∀ reps nodes addl, RepsOK m reps → addlOf (.custom a) m reps nodes = .ok addl →
      AddlJ m J addl := by
    intro _ _ addl _ h4
    simp only [addlOf, Except.ok.injEq] at h4
    rw [← h4]; exact ha
  obtain ⟨hJ, hT⟩ := fromMrs_spec_gen (ids_nodup hnr hc) hnr hadd h
  have hN := fromMrs_shape_aux hnr h
  refine ⟨hJ, ?_, ?_⟩
  · intro n hn rt hrt
    obtain ⟨p, _, hz, _⟩ := hN.mem_left n hn
    obtain ⟨qn, hqn, hid, _⟩ := hJ (p, n) hz rt hrt
    exact List.mem_map.2 ⟨qn.2, (List.of_mem_zip hqn).2, hid⟩
  · intro t ht
    obtain ⟨pn, hpn, hid⟩ := hT t ht
    exact List.mem_map.2 ⟨pn.2, (List.of_mem_zip hpn).2, hid⟩

/-- The BV clause for a user function that returns no `BV` edge. -/
theorem bv_exactly_one_custom (a : EdgeMap) (uniq : Bool) (m : MRS) (hiv : m.hasIVProperty = true)
    (hnr : NoReserved m) (huq : UniqueQuant m)
    (ha : ∀ k es, (k, es) ∈ a → ∀ rt ∈ es, rt.1 ≠ BV_ROLE)
    (e : EDS) (w : List Warn) (h : fromMrs (.custom a) uniq m = .ok (e, w))
    (qn pn : Pred × ENode) (hqn : qn ∈ m.preds.zip e.nodes) (hpn : pn ∈ m.preds.zip e.nodes)
    (hqq : qn.1.2.isQuantifier = true) (hpq : pn.1.2.isQuantifier = false)
    (v : Var) (hqv : qn.1.2.iv = some v) (hpv : pn.1.2.iv = some v) :
    qn.2.edges.filter (fun rt => rt.1 == BV_ROLE) = [(BV_ROLE, pn.2.id)] := by
  refine bv_edge_gen hiv hnr huq ?_ h hqn hpn hqq hpq hqv hpv
  intro _ _ addl _ h4
  simp only [addlOf, Except.ok.injEq] at h4
  rw [← h4]; exact ha

/-- Totality, absence of warnings and existence of the top for a user function whose mapping has
EP ids as keys and edges ending at EP ids. -/
theorem fromMrs_total_custom (a : EdgeMap) (uniq : Bool) (m : MRS) (hwf : m.isWellFormed = true)
    (hnr : NoReserved m) (hhr : HasReps m) (hk : KeysIn m a)
    (ha : AddlJ m (fun _ _ _ => True) a) :
    ∃ e t, fromMrs (.custom a) uniq m = .ok (e, []) ∧ e.top = some t := by
  obtain ⟨e, he⟩ := fromMrs_total_gen (pm := .custom a) (uniq := uniq) hwf hnr hhr
    (fun _ _ _ _ _ => ⟨a, rfl, hk⟩)
    (by
      intro _ _ addl _ h4
      simp only [addlOf, Except.ok.injEq] at h4
      rw [← h4]; exact ha)
  obtain ⟨t, ht⟩ := fromMrs_top_of_no_warning _ uniq m e he
  exact ⟨e, t, he, ht⟩

/-! ## "the result survives C03 serialization" -/

/-- The converted graph satisfies the precondition of the C03 round-trip theorems
(`ExpressibleE`: a local copy of `Verif.C03.Expressible` — lower-case predicates and property
values, upper-case roles and property names, no repeated key in a node's edge or property map, no
empty type, no top without nodes — plus the side conditions of those theorems: every edge target is
a node, node ids pairwise distinct, no untyped node with properties) whenever the source MRS is
expressible in the same sense (`ExpressibleM`), for `predicate_modifiers ∈ {False, True}` and both
values of `unique_ids`.  What remains outside: that identifiers and names are SYMBOL tokens of the
native lexer (checked by the direct oracle's real round trips). -/
theorem fromMrs_expressible (pm : PM) (uniq : Bool) (m : MRS) (hiv : m.hasIVProperty = true)
    (hnr : NoReserved m) (hx : ExpressibleM m) (hpm : pm = .off ∨ pm = .std)
    (e : EDS) (w : List Warn) (h : fromMrs pm uniq m = .ok (e, w)) : ExpressibleE e :=
  fromMrs_expressible_aux hiv hnr hx hpm h

example : ExpressibleM dogBarks := by
  refine ⟨by decide, by decide, by decide, by decide, ?_⟩
  intro ep hep v hv
  simp only [dogBarks, List.mem_cons, List.not_mem_nil, or_false] at hep
  rcases hep with rfl | rfl | rfl <;>
    (simp only [EP.iv, dlookup, INTRINSIC_ROLE] at hv; simp at hv; subst hv; decide)

set_option maxRecDepth 100000 in
/-- `HasReps` is satisfiable: it holds for the example (checked through the executable test). -/
example : HasReps dogBarks := hasReps_of_hasRepsB (by decide)

/-- F08 seen from the theorem: the witness is well-formed but has a selected scope without
representative. -/
theorem f08_not_hasReps : ¬ HasReps f08Witness := by
  intro hhr
  have hnr : NoReserved f08Witness := by
    intro ep hep v hv
    simp only [f08Witness, List.mem_cons, List.not_mem_nil, or_false] at hep
    rcases hep with rfl | rfl <;>
      (simp only [EP.iv, dlookup, INTRINSIC_ROLE] at hv; simp at hv; subst hv; decide)
  obtain ⟨e, he⟩ := fromMrs_total .std true f08Witness fromMrs_total_cex_F08.1 hnr hhr (Or.inr rfl)
  have := fromMrs_total_cex_F08.2.1
  rw [he] at this
  simp [raisesIndexError] at this

set_option maxRecDepth 100000 in
/-- The key contract is needed: a user function returning a key that is no EP id makes the
conversion raise `KeyError` (`e[id]`), even with an empty edge map. -/
theorem fromMrs_total_custom_cex :
    (match fromMrs (.custom [(⟨"z", 9⟩, [])]) false dogBarks with
     | .error .keyError => true
     | _ => false) = true := by decide

/-! ## Pins: the constants of the anchored code that the hand-written model mirrors

`Verif/Generated/TablesC05.lean` is regenerated on every run (`harness/c05.py: tables()`) from the
live objects of the checkout: module-level constants, the variable regex, `_UNTENSED_VALUES`, the
default arguments and the string / number / keyword-name constants of the code objects (nested ones
included; `None`, booleans and every string containing white space — docstrings, warning and
exception texts — left out) of every function the model mirrors.  Which model definition hand-codes
which constant:

* `BV_ROLE`, `PM_ROLE` (Model) — `eds.BOUND_VARIABLE_ROLE`, `eds.PREDICATE_MODIFIER_ROLE`;
* `INTRINSIC_ROLE`, `RESTRICTION_ROLE`, `CONSTANT_ROLE` (Sem: `EP.iv`, `EP.isQuantifier`,
  `EP.outArgs`) — the role constants of `mrs/_mrs.py`; `BODY` is pinned because the model treats it
  as an ordinary role;
* `EP.baseId` (`⟨"q", vid⟩`, default ARG0 `_0`), `EP.type` (sort `_` ↦ none) —
  `_QUANTIFIER_TYPE`, the constants `'_0'`, `'_'` of `EP.__init__`;
* `uniquify`, `maxVid` — `_uniquify_ids`: `max(…, default=0)`, the format `'_{}'`, step `1`;
* `freshId`, `assignStep` (counter from 1), `sortLosers`/`reassignStep` (`sorted(key=…)`, `[1:]`) —
  `make_ids_unique`: the f-string prefix `'_'`, `count(start=1)`;
* `getTop`, `resolveArg`, `firstRep` (`reps[lbl][0]`) — index `0` of `_mrs_get_top` /
  `_mrs_args_to_basic_deps` (`2` is the `stacklevel` of the warnings);
* `mkNode` (`type, properties = None, None` for quantifiers) — `_mrs_to_nodes`;
* `pmStep` (default `⟨"u", 0⟩`, test `asciiLower sort = "u"`), `pmScope` (`len(eps) > 1`, `eps[0]`,
  `eps[1:]`), `findPredicateModifiers` (`len(components) > 1`) — `find_predicate_modifiers`:
  `'u0'`, `'u'`, `1`, `0`; `variable.UNSPECIFIC`;
* `fromMrs` (arguments `predicate_modifiers=True, unique_ids=True`, default priority) — the defaults
  `(True, True, None)` of `from_mrs`; the oracle passes both explicitly;
* `MRS.nsArgs` (`"xeipu"`), `candidates` (`len(scope) == 1`), `MRS.repRank` (ranks `0,2,1,3`, sorts
  `x`, `e`, property `TENSE`, untensed values `""`, `"untensed"`), `MRS.repKey` (positions from 1) —
  `scope.representatives`, `_make_representative_priority`, `_UNTENSED_VALUES`;
* `LHEQ`, `QEQ` (Sem) — `scope.LHEQ`, `scope.QEQ`;
* `Var` (sort, canonical numeral) and `Var.sortIn` — `variable._variable_re` and the group numbers of
  `variable.split` / `variable.type`.

A change to any of these makes this theorem stop checking; the check then reports a broken proof
obligation and searches for a failing input. -/
theorem c05_pins :
    -- module-level constants, tied to the model's definitions
    (c05BoundVariableRole = BV_ROLE ∧ c05PredicateModifierRole = PM_ROLE ∧
     c05IntrinsicRole = INTRINSIC_ROLE ∧ c05RestrictionRole = RESTRICTION_ROLE ∧
     c05ConstantRole = CONSTANT_ROLE ∧ c05BodyRole = "BODY" ∧
     c05QuantifierType = (EP.baseId { predicate := "", label := ⟨"h", 0⟩, args := [("RSTR", ⟨"h", 1⟩)] }).sort ∧
     c05Unspecific = "u" ∧ freshId 1 = ⟨"_", 1⟩)
    ∧ c05VariableSorts = ["u", "i", "p", "e", "x", "h"]
    ∧ c05VariableRe = ["^([-\\w]*[^\\s\\d])(\\d+)$", "32"]
    ∧ c05ScopeRelations = ["leq", LHEQ, "outscopes", QEQ]
    ∧ c05UntensedValues = ["", "untensed"]
    -- eds/_operations.py
    ∧ c05FromMrsConsts = ["(priority)", "(top,nodes,lnk,surface,identifier)", "(representatives)"]
    ∧ c05FromMrsDefaults = ["True", "True", "None"]
    ∧ c05GetTopConsts = ["0", "2", "(stacklevel)"] ∧ c05GetTopDefaults = []
    ∧ c05BasicDepsConsts = ["0", "2", "(stacklevel)"] ∧ c05BasicDepsDefaults = []
    ∧ c05ToNodesConsts = ["(None,None)"] ∧ c05ToNodesDefaults = []
    ∧ c05FindPredicateModifiersConsts = ["1", "0", "u0", "u"]
    ∧ c05FindPredicateModifiersDefaults = ["None"]
    ∧ c05MakeIdsUniqueConsts = ["_", "1", "(start)", "(key)"] ∧ c05MakeIdsUniqueDefaults = []
    -- mrs/_mrs.py
    ∧ c05EpInitConsts = ["_0", "_"] ∧ c05EpInitDefaults = ["None", "None", "None", "None"]
    ∧ c05EpIsQuantifierConsts = [] ∧ c05EpIsQuantifierDefaults = []
    ∧ c05UniquifyIdsConsts = ["0", "(default)", "_{}", "1"] ∧ c05UniquifyIdsDefaults = []
    ∧ c05QuantificationPairsConsts = [] ∧ c05QuantificationPairsDefaults = []
    ∧ c05MrsArgumentsConsts = [] ∧ c05MrsArgumentsDefaults = ["None", "None"]
    ∧ c05MrsPropertiesConsts = [] ∧ c05MrsPropertiesDefaults = []
    ∧ c05MrsScopesConsts = [] ∧ c05MrsScopesDefaults = []
    ∧ c05MrsScopalArgumentsConsts = [] ∧ c05MrsScopalArgumentsDefaults = ["None"]
    -- scope.py, util.py, variable.py, eds/_eds.py
    ∧ c05RepresentativesConsts = ["xeipu", "(types)", "1", "(key)"]
    ∧ c05RepresentativesDefaults = ["None"]
    ∧ c05RepresentativePriorityConsts = ["1", "p", "x", "0", "e", "TENSE", "", "2", "1", "3"]
    ∧ c05RepresentativePriorityDefaults = []
    ∧ c05DescendantsConsts = [] ∧ c05DescendantsDefaults = []
    ∧ c05ScopeDescendantsConsts = ["(scopes)"] ∧ c05ScopeDescendantsDefaults = ["None"]
    ∧ c05ConnectedComponentsConsts = [] ∧ c05ConnectedComponentsDefaults = []
    ∧ c05BfsConsts = [] ∧ c05BfsDefaults = ["None"]
    ∧ c05VariableSplitConsts = ["1", "2"] ∧ c05VariableSplitDefaults = []
    ∧ c05VariableTypeConsts = ["0"] ∧ c05VariableTypeDefaults = []
    ∧ c05NodeInitConsts = []
    ∧ c05NodeInitDefaults = ["None", "None", "None", "None", "None", "None", "None"] := by
  refine ⟨⟨rfl, rfl, rfl, rfl, rfl, rfl, by decide, rfl, rfl⟩, ?_⟩
  repeat' constructor

end Verif.C05
