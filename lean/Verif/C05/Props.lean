/-
C05 — property theorems (MRS → EDS conversion is total and dependency-sound on well-formed input).
-/
import Verif.C05.Model

namespace Verif.C05
open Verif.Sem

/-- placeholder while the harness is brought up -/
theorem firstRep_ok_iff (ps : List Pred) : (∃ v, firstRep ps = .ok v) ↔ ps ≠ [] := by
  cases ps <;> simp [firstRep]

end Verif.C05
