/-
C05 — property theorems (MRS → EDS conversion is total and dependency-sound on well-formed input).

Only property statements live here; the proofs are references to `Lemmas.lean`.  Vocabulary
(defined in `Lemmas.lean`, all in terms of the SOURCE MRS):

* `NoReserved m`      no ARG0 has the sort `_` or `q` (the sorts of generated ids `_k`, `qk`);
* `NodeData m p n`    node `n` carries predicate, CARG, lnk, surface, base of predication `p` and the
                      sort and properties of its ARG0 (`none` / `[]` for a quantifier);
* `BVJust s r t`      `r = BV`, `s` is a quantifier, `t` is not, and they have the same ARG0;
* `ArgJust m s r t`   `s` has an argument `(r, v)`, `r ≠ ARG0`, and `v` is the ARG0 of the
                      non-quantifier `t`, or the label of `t`, or the `hi` of an hcons whose `lo` is
                      the label of `t`;
* `PMJust E s r t`    `r = ARG1`, `s` and `t` have the same label and are not connected in the
                      undirected graph `E`;
* `EdgeJust m on E`   `BVJust ∨ ArgJust ∨ (on ∧ PMJust E)`;
* `Justified m J ns`  for the node at position `i` and each of its edges `(r, tgt)` there is a
                      position `j` with `ns[j].id = tgt` and `J preds[i] r preds[j]`.

Hypotheses of the main theorems: `NoReserved m` and `m.hasCompleteIVs` (part of the
intrinsic-variable property); neither connectedness nor scope plausibility is needed for soundness.
-/
import Verif.C05.Lemmas

namespace Verif.C05
open Verif.Sem

/-! ## "unique predication ids in MRS" (`_uniquify_ids`) -/

/-- The EP ids after `_uniquify_ids` are pairwise distinct when every non-quantifier EP has an
ARG0 and no ARG0 is of the form `_k`. -/
theorem uniquifyIds_nodup (m : MRS) (hnr : NoReserved m) (hc : m.hasCompleteIVs = true) :
    m.ids.Nodup := ids_nodup hnr hc

/-- The hypothesis is needed: two EPs without ARG0 in an MRS whose largest variable id is 0 both
get the id `_0`. -/
theorem uniquifyIds_cex :
    ¬ (MRS.ids { top := none, index := none, hcons := [],
                 rels := [{ predicate := "a", label := ⟨"h", 0⟩, args := [] },
                          { predicate := "b", label := ⟨"h", 0⟩, args := [] }] }).Nodup := by
  decide

/-! ## "yields one node per predication, in order, carrying its predicate, constant, alignment and
the type and properties of its intrinsic variable" -/

/-- Shape: for every configuration (also a user-supplied predicate-modifier function), a
successful conversion has exactly one node per predication, in `rels` order, with the data of
that predication; with `unique_ids=False` the node id is the EP id. -/
theorem fromMrs_shape (pm : PM) (uniq : Bool) (m : MRS) (hnr : NoReserved m)
    (e : EDS) (w : List Warn) (h : fromMrs pm uniq m = .ok (e, w)) :
    e.nodes.length = m.rels.length ∧
    All2 (fun p n => NodeData m p n ∧ (uniq = false → n.id = p.1)) m.preds e.nodes := by
  have := fromMrs_shape_aux hnr h
  exact ⟨by rw [← this.length_eq, ← preds_map_snd m, List.length_map], this⟩

/-! ## "Every edge is justified by the source … and every edge ending at a node" -/

/-- Edge justification and closedness.  For `predicate_modifiers ∈ {False, True}` and both values of
`unique_ids`: every edge `(role, tgt)` of the node of predication `s` ends at the node of a
predication `t` (so every edge ends at a node) and is
  * a `BV` edge from a quantifier to the non-quantifier with the same ARG0, or
  * justified by an argument of `s` with that role whose value is the intrinsic variable of `t`,
    the label of `t`'s scope, or a hole constrained (hcons) to that label, or
  * (only with predicate modifiers on) an `ARG1` edge between two predications with the same label
    that are not connected in the dependency graph of the conversion without predicate modifiers
    (`e0`, which exists and carries the same warnings). -/
theorem fromMrs_edges_justified (pm : PM) (uniq : Bool) (m : MRS)
    (hnr : NoReserved m) (hc : m.hasCompleteIVs = true) (hpm : pm = .off ∨ pm = .std)
    (e : EDS) (w : List Warn) (h : fromMrs pm uniq m = .ok (e, w)) :
    ∃ e0, fromMrs .off false m = .ok (e0, w) ∧
      Justified m (EdgeJust m pm.isOn (edgePairs e0.nodes)) e.nodes := by
  obtain ⟨e0, h0, _, hJ, _⟩ := fromMrs_spec (ids_nodup hnr hc) hnr hpm h
  exact ⟨e0, h0, hJ⟩

/-- "every edge ending at a node" -/
theorem fromMrs_edges_closed (pm : PM) (uniq : Bool) (m : MRS)
    (hnr : NoReserved m) (hc : m.hasCompleteIVs = true) (hpm : pm = .off ∨ pm = .std)
    (e : EDS) (w : List Warn) (h : fromMrs pm uniq m = .ok (e, w)) :
    ∀ n ∈ e.nodes, ∀ rt ∈ n.edges, rt.2 ∈ e.nodes.map (·.id) := by
  obtain ⟨_, _, hN, hJ, _⟩ := fromMrs_spec (ids_nodup hnr hc) hnr hpm h
  intro n hn rt hrt
  obtain ⟨p, _, hz, _⟩ := hN.mem_left n hn
  obtain ⟨qn, hqn, hid, _⟩ := hJ (p, n) hz rt hrt
  exact List.mem_map.2 ⟨qn.2, (List.of_mem_zip hqn).2, hid⟩

/-- "a top that is a node": whenever the result has a top, it is the identifier of a node. -/
theorem fromMrs_top_is_node (pm : PM) (uniq : Bool) (m : MRS)
    (hnr : NoReserved m) (hc : m.hasCompleteIVs = true) (hpm : pm = .off ∨ pm = .std)
    (e : EDS) (w : List Warn) (h : fromMrs pm uniq m = .ok (e, w)) (t : Var) (ht : e.top = some t) :
    t ∈ e.nodes.map (·.id) := by
  obtain ⟨_, _, _, _, hT⟩ := fromMrs_spec (ids_nodup hnr hc) hnr hpm h
  obtain ⟨pn, hpn, hid⟩ := hT t ht
  exact List.mem_map.2 ⟨pn.2, (List.of_mem_zip hpn).2, hid⟩

/-! ## "with unique node identifiers" -/

-- FULL STATEMENT (not proved): for `unique_ids = true` too, under `m.hasIVProperty` and
-- `NoReserved m`, `(e.nodes.map (·.id)).Nodup` (the ids given by `make_ids_unique`).  The missing
-- part is the analysis of the two loops of `make_ids_unique` (`newIds`); it is covered by the
-- direct oracle and the correspondence run on every generated case.
/-- With `unique_ids=False` the node identifiers are the EP ids, hence pairwise distinct. -/
theorem fromMrs_ids_unique_partial (pm : PM) (m : MRS)
    (hnr : NoReserved m) (hc : m.hasCompleteIVs = true)
    (e : EDS) (w : List Warn) (h : fromMrs pm false m = .ok (e, w)) :
    e.nodes.map (·.id) = m.ids ∧ (e.nodes.map (·.id)).Nodup := by
  have hids := fromMrs_ids_raw hnr h
  exact ⟨hids, by rw [hids]; exact ids_nodup hnr hc⟩

/-! ## "Converting any well-formed MRS to EDS succeeds without error" — known finding F08 -/

-- FULL STATEMENT (not proved): `m.isWellFormed → ∃ e, fromMrs pm uniq m = .ok (e, [])`.
-- It is FALSE for the code (F08): `scope.representatives` gives a scope no representative when
-- its members take each other as non-scopal arguments, and `reps[lbl][0]` raises IndexError.
-- The forced hypothesis is `HasReps` (every scope has a representative); the totality proof under
-- it is not done — totality and absence of warnings are checked by the direct oracle.
/-- F08: a well-formed MRS on which the conversion raises `IndexError` (for every configuration). -/
def f08Witness : MRS :=
  { top := some ⟨"h", 0⟩, index := some ⟨"e", 2⟩,
    rels := [{ predicate := "_a_v_1", label := ⟨"h", 1⟩, args := [("ARG0", ⟨"e", 2⟩), ("ARG1", ⟨"e", 3⟩)] },
             { predicate := "_b_v_1", label := ⟨"h", 1⟩, args := [("ARG0", ⟨"e", 3⟩), ("ARG1", ⟨"e", 2⟩)] }],
    hcons := [⟨⟨"h", 0⟩, "qeq", ⟨"h", 1⟩⟩] }

def raisesIndexError {α : Type} : Except E α → Bool
  | .error .indexError => true
  | _ => false

set_option maxRecDepth 100000 in
/-- the witness is well-formed (connected, intrinsic-variable property, scope-plausible) and the
conversion raises `IndexError` with and without predicate modifiers / unique ids. -/
theorem fromMrs_total_cex_F08 :
    f08Witness.isWellFormed = true ∧
    raisesIndexError (fromMrs .std true f08Witness) = true ∧
    raisesIndexError (fromMrs .std false f08Witness) = true ∧
    raisesIndexError (fromMrs .off true f08Witness) = true ∧
    raisesIndexError (fromMrs .off false f08Witness) = true := by decide

/-! ## hypotheses are satisfiable / statements are not vacuous -/

/-- "The dog barks": well-formed, no reserved sorts, converts to three nodes. -/
def dogBarks : MRS :=
  { top := some ⟨"h", 0⟩, index := some ⟨"e", 2⟩,
    rels := [{ predicate := "_the_q", label := ⟨"h", 4⟩,
               args := [("ARG0", ⟨"x", 3⟩), ("RSTR", ⟨"h", 5⟩), ("BODY", ⟨"h", 6⟩)] },
             { predicate := "_dog_n_1", label := ⟨"h", 7⟩, args := [("ARG0", ⟨"x", 3⟩)] },
             { predicate := "_bark_v_1", label := ⟨"h", 1⟩, args := [("ARG0", ⟨"e", 2⟩), ("ARG1", ⟨"x", 3⟩)] }],
    hcons := [⟨⟨"h", 0⟩, "qeq", ⟨"h", 1⟩⟩, ⟨⟨"h", 5⟩, "qeq", ⟨"h", 7⟩⟩] }

set_option maxRecDepth 100000 in
example : dogBarks.isWellFormed = true ∧ dogBarks.hasCompleteIVs = true ∧
    (match fromMrs .std true dogBarks with
     | .ok (e, w) => e.top == some ⟨"e", 2⟩ && w.isEmpty &&
         e.nodes.map (fun n => (n.id, n.edges)) ==
           [(⟨"_", 1⟩, [("BV", ⟨"x", 3⟩)]), (⟨"x", 3⟩, []), (⟨"e", 2⟩, [("ARG1", ⟨"x", 3⟩)])]
     | .error _ => false) = true := by decide

example : NoReserved dogBarks := by
  intro ep hep v hv
  simp only [dogBarks, List.mem_cons, List.not_mem_nil, or_false] at hep
  rcases hep with rfl | rfl | rfl <;>
    (simp only [EP.iv, dlookup, INTRINSIC_ROLE] at hv; simp at hv; subst hv; decide)

end Verif.C05
