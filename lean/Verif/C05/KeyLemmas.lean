/-
C05 — lemmas for round 7: `make_ids_unique` on its own; the totality / bound-variable / expressibility
arguments for GIVEN representatives (hence for every `representative_priority`); the stable sort.
The totality section repeats the argument of `TotalLemmas.lean` with the three facts about the
representatives it really uses (`RepsOK`, the keys are the labels, selected scopes are non-empty) as
hypotheses instead of `m.representatives = .ok reps`.
Core Lean only.
-/
import Verif.C05.ApiLemmas

namespace Verif.C05
open Verif.Sem

/-! ### the representatives for a priority vs. the default ones -/

theorem dlookup_map_snd {α β : Type} (g : α → β) (l : Var) : ∀ (d : List (Var × α)),
    dlookup l (d.map (fun s => (s.1, g s.2))) = (dlookup l d).map g := by
  intro d
  induction d with
  | nil => rfl
  | cons s d ih =>
    obtain ⟨k, v⟩ := s
    simp only [List.map_cons, dlookup]
    split
    · rfl
    · exact ih

theorem sortS_eq_nil (key : Key) (l : List Pred) : sortS key l = [] ↔ l = [] := by
  constructor
  · intro h
    cases l with
    | nil => rfl
    | cons x xs =>
      have : x ∈ sortS key (x :: xs) := (mem_sortS key x _).2 List.mem_cons_self
      rw [h] at this
      exact absurd this List.not_mem_nil
  · intro h; subst h; rfl

theorem sortBy_eq_nil (key : Pred → Nat × Nat) (l : List Pred) : sortBy key l = [] ↔ l = [] := by
  constructor
  · intro h
    cases l with
    | nil => rfl
    | cons x xs =>
      have : x ∈ sortBy key (x :: xs) := (mem_sortBy key x _).2 List.mem_cons_self
      rw [h] at this
      exact absurd this List.not_mem_nil
  · intro h; subst h; rfl

/-- the keys of the representatives are the labels, for every priority -/
theorem representativesK_keys {m : MRS} {key : Option Key} {reps : Reps}
    (h : representativesK m key = .ok reps) : dkeys reps = dkeys m.scopeMap := by
  cases key with
  | none => exact representatives_keys h
  | some k =>
    simp only [representativesK] at h
    split at h
    · exact absurd h (by simp)
    · simp only [Except.ok.injEq] at h
      subst h
      simp [dkeys, List.map_map, Function.comp_def]

/-- a priority only ORDERS the candidates: a scope has no representative under one priority iff it
has none under the default one -/
theorem representativesK_empty_iff {m : MRS} {key : Option Key} {reps reps0 : Reps}
    (h : representativesK m key = .ok reps) (h0 : m.representatives = .ok reps0) (l : Var) :
    (∃ ps, dlookup l reps = some ps ∧ ps = []) ↔ (∃ ps, dlookup l reps0 = some ps ∧ ps = []) := by
  cases key with
  | none =>
    rw [representativesK_none, h0] at h
    simp only [Except.ok.injEq] at h
    subst h; exact Iff.rfl
  | some k =>
    simp only [representativesK] at h
    unfold MRS.representatives at h0
    cases hd : m.descendants with
    | error x => rw [hd] at h; simp at h
    | ok descs =>
      rw [hd] at h h0
      simp only [Except.ok.injEq] at h h0
      subst h; subst h0
      unfold representativesOf
      rw [dlookup_map_snd (fun ps => sortS k (candidates (fun p : Pred => p.1) m.nsArgs
            (fun j => ((dlookup j descs).getD []).map (fun p : Pred => p.1)) ps)),
          dlookup_map_snd (fun ps => sortBy m.repKey (candidates (fun p : Pred => p.1) m.nsArgs
            (fun j => ((dlookup j descs).getD []).map (fun p : Pred => p.1)) ps))]
      cases dlookup l m.scopeMap with
      | none => simp
      | some ps => simp [sortS_eq_nil, sortBy_eq_nil]

/-- `HasReps` (stated for the default priority) gives the same for every priority -/
theorem hasReps_key {m : MRS} (hhr : HasReps m) {key : Option Key} {reps : Reps}
    (h : representativesK m key = .ok reps) :
    ∀ l ps, dlookup l reps = some ps → Selected m l → ps ≠ [] := by
  intro l ps hl hsel hnil
  obtain ⟨reps0, h0⟩ := MRS.representatives_total m
  obtain ⟨ps0, hl0, hnil0⟩ := (representativesK_empty_iff h h0 l).1 ⟨ps, hl, hnil⟩
  exact hhr reps0 h0 l ps0 hl0 hsel hnil0

/-! ### totality on given representatives -/

section
variable {m : MRS} {reps : Reps} (hwf : m.isWellFormed = true) (hnr : NoReserved m)
  (hhr : HasReps m) (hr : RepsOK m reps) (hk : dkeys reps = dkeys m.scopeMap)
  (hne : ∀ l ps, dlookup l reps = some ps → Selected m l → ps ≠ [])
include hwf hnr hhr hr hk hne
set_option linter.unusedSectionVars false

theorem label_in_repsG {l : Var} (hl : l ∈ m.labels) : ∃ ps, dlookup l reps = some ps := by
  apply dlookup_of_mem_keys
  rw [hk, mem_scopeMap_keys]
  unfold MRS.labels at hl
  obtain ⟨ep, hep, rfl⟩ := List.mem_map.1 hl
  rw [← preds_map_snd m] at hep
  obtain ⟨p, hp, rfl⟩ := List.mem_map.1 hep
  exact ⟨p, hp, rfl⟩

theorem getTop_totalG : ∃ t, getTop m reps = .ok (some t, []) := by
  obtain ⟨_, hpl⟩ := wf_parts hwf
  obtain ⟨t, hc, htop, hhc⟩ := plausible_top hpl
  obtain ⟨ps, hps⟩ := label_in_repsG hwf hnr hhr hr hk hne (plausible_hcLast hpl hhc)
  obtain ⟨hmem, _⟩ := hcLast_spec hhc
  obtain ⟨t', ht'⟩ := firstRep_total (hne hc.lo ps hps (Or.inl ⟨hc, hmem, rfl⟩))
  refine ⟨t', ?_⟩
  unfold getTop
  simp only [htop, Option.bind_some, hhc, hps, topOf, ht']

theorem resolveArg_totalG {ep : EP} (hep : ep ∈ m.rels) {a : Role × Var} (ha : a ∈ ep.args) :
    ∃ r, resolveArg m reps a.2 = .ok r ∧ r ≠ .warn := by
  obtain ⟨_, hpl⟩ := wf_parts hwf
  unfold resolveArg
  cases hhc : m.hcLast a.2 with
  | some hc =>
    obtain ⟨ps, hps⟩ := label_in_repsG hwf hnr hhr hr hk hne (plausible_hcLast hpl hhc)
    obtain ⟨hmem, _⟩ := hcLast_spec hhc
    obtain ⟨t, ht⟩ := firstRep_total (hne hc.lo ps hps (Or.inl ⟨hc, hmem, rfl⟩))
    exact ⟨.edge t, by simp only [hps, resolveRep, ht], by simp⟩
  | none =>
    simp only
    cases hl : dlookup a.2 reps with
    | some ps =>
      obtain ⟨t, ht⟩ := firstRep_total (hne a.2 ps hl (Or.inr ⟨ep, hep, a, ha, rfl⟩))
      exact ⟨.edge t, by simp only [resolveRep, ht], by simp⟩
    | none =>
      simp only
      cases lastNonQuant m (some a.2) with
      | some p => exact ⟨.edge p.1, rfl, by simp⟩
      | none => exact ⟨.skip, rfl, by simp⟩

theorem depStep_fold_totalG {p : Pred} (hp : p ∈ m.preds) (w0 : List Warn) :
    ∃ es, foldE (depStep m reps) ([], w0) (p.2.outArgs none) = .ok (es, w0) := by
  obtain ⟨b, hb, hP⟩ := foldE_total (f := depStep m reps) (fun acc => acc.2 = w0)
    (p.2.outArgs none) ([], w0)
    (by
      intro acc a hacc ha
      obtain ⟨ha1, _⟩ := mem_outArgs ha
      obtain ⟨r, hr', hrw⟩ := resolveArg_totalG hwf hnr hhr hr hk hne (mem_rels_of_mem_preds m p hp) ha1
      unfold depStep
      rw [hr']
      cases r with
      | edge t => exact ⟨_, rfl, hacc⟩
      | skip => exact ⟨_, rfl, hacc⟩
      | warn => exact absurd rfl hrw)
    rfl
  refine ⟨b.1, ?_⟩
  rw [hb, ← hP]

theorem basicDeps_totalG : ∃ deps, basicDeps m reps = .ok (deps, []) := by
  obtain ⟨b, hb, hP⟩ := foldE_total (f := depsOfPred m reps) (fun acc => acc.2 = [])
    m.preds ([], [])
    (by
      intro acc p hacc hp
      unfold depsOfPred
      split
      · obtain ⟨es, hes⟩ := depStep_fold_totalG hwf hnr hhr hr hk hne hp acc.2
        rw [hes]
        simp only
        split
        · exact ⟨_, rfl, hacc⟩
        · exact ⟨_, rfl, hacc⟩
      · exact ⟨_, rfl, hacc⟩)
    rfl
  refine ⟨b.1, ?_⟩
  unfold basicDeps
  rw [hb, ← hP]

theorem pmScope_totalG {edges : List (Var × Var)} {comps : List (List Var)}
    (hc : connectedComponents m.ids edges = .ok comps) {addl : EdgeMap} (hkk : KeysIn m addl)
    {s : Var × List Pred} (hs : s ∈ reps) :
    ∃ addl', pmScope comps addl s = .ok addl' ∧ KeysIn m addl' := by
  obtain ⟨reps0, hreps0⟩ := MRS.representatives_total m
  unfold pmScope
  split
  · rename_i first other rest hps
    have hmem : ∀ p ∈ first :: other :: rest, p.1 ∈ m.ids := by
      intro p hp
      exact mem_ids_of_mem_preds hwf hnr hhr hreps0 (hr s.1 s.2 hs p (by rw [hps]; exact hp)).1
    obtain ⟨c0, hc0⟩ := ccOf_total hwf hnr hhr hreps0 hc (hmem first List.mem_cons_self)
    rw [hc0]
    simp only
    obtain ⟨st, hst, hP⟩ := foldE_total (f := pmStep comps first) (fun st => KeysIn m st.2)
      (other :: rest) ([c0], addl)
      (by
        intro st o hst ho
        have hoid := hmem o (List.mem_cons_of_mem _ ho)
        obtain ⟨occ, hocc⟩ := ccOf_total hwf hnr hhr hreps0 hc hoid
        unfold pmStep
        rw [hocc]
        dsimp only
        split
        · exact ⟨_, rfl, addEdge_keys hwf hnr hhr hreps0 hst hoid _ _⟩
        · exact ⟨_, rfl, hst⟩)
      hkk
    rw [hst]
    exact ⟨st.2, rfl, hP⟩
  · exact ⟨addl, rfl, hkk⟩

theorem findPredicateModifiers_totalG {J : Pred → Role → Pred → Prop} {nodes : List ENode}
    (hN : All2 (fun p n => n.id = p.1 ∧ NodeData m p n) m.preds nodes) (hJ : RawJust m J nodes) :
    ∃ addl, findPredicateModifiers m reps nodes = .ok addl ∧ KeysIn m addl := by
  obtain ⟨reps0, hreps0⟩ := MRS.representatives_total m
  have hends := edgePairs_in_ids hwf hnr hhr hreps0 hN hJ
  unfold findPredicateModifiers
  cases hc : connectedComponents m.ids (edgePairs nodes) with
  | error e =>
    obtain ⟨_, pr, hpr, hbad⟩ := connectedComponents_error _ _ e hc
    rcases hbad with hbad | hbad
    · exact absurd (hends pr hpr).1 hbad
    · exact absurd (hends pr hpr).2 hbad
  | ok comps =>
    simp only
    split
    · obtain ⟨addl, h1, h2⟩ := foldE_total (f := pmScope comps) (fun a => KeysIn m a) reps []
        (fun a s ha hs => pmScope_totalG hwf hnr hhr hr hk hne hc ha hs)
        (by intro k es hk'; simp at hk')
      exact ⟨addl, h1, h2⟩
    · exact ⟨[], rfl, by intro k es hk'; simp at hk'⟩

/-- the conversion before `make_ids_unique`, on given representatives: no error, no warning, a top -/
theorem fromMrsWith_totalG {pm : PM} (hpm : pm = .off ∨ pm = .std) :
    ∃ e t, fromMrsWith pm m reps = .ok (e, []) ∧ e.top = some t := by
  obtain ⟨reps0, hreps0⟩ := MRS.representatives_total m
  obtain ⟨hiv, _⟩ := wf_parts hwf
  have hid := ids_nodup hnr (completeIVs_of_ivProperty hiv)
  obtain ⟨t, h1⟩ := getTop_totalG hwf hnr hhr hr hk hne
  obtain ⟨deps, h2⟩ := basicDeps_totalG hwf hnr hhr hr hk hne
  obtain ⟨nodes, h3⟩ := mapE_total (f := mkNode m deps) m.preds
    (fun p hp => mkNode_total hwf hnr hhr hreps0 deps hp)
  have hN := nodes_spec hnr h3
  have hN' : All2 (fun p n => n.id = p.1 ∧ NodeData m p n) m.preds nodes :=
    hN.imp (fun _ _ _ _ ⟨a, _, c⟩ => ⟨a, c⟩)
  have hJ := nodes_rawjust hid (basicDeps_ok hr hnr h2) hN
  have hids : nodes.map (·.id) = m.ids := by
    rw [All2.map_eq (f := fun p : Pred => p.1) (g := fun n : ENode => n.id)
      (hN'.imp (fun _ _ _ _ ⟨a, _⟩ => a))]
    exact preds_map_fst m
  have hadd : ∃ addl, addlOf pm m reps nodes = .ok addl ∧ KeysIn m addl := by
    rcases hpm with rfl | rfl
    · exact ⟨[], rfl, by intro k es hk'; simp at hk'⟩
    · exact findPredicateModifiers_totalG hwf hnr hhr hr hk hne hN' hJ
  obtain ⟨addl, h4, hkeys⟩ := hadd
  obtain ⟨nodes', h5⟩ := applyAddl_total hwf hnr hhr hreps0 hkeys hids
  refine ⟨{ top := some t, nodes := nodes' }, t, ?_, rfl⟩
  simp only [fromMrsWith, h1, h2, h3, h4, h5, List.append_nil]

end

/-! ### `make_ids_unique` on its own -/

/-- what `make_ids_unique(e, m)` needs of `e` ("an EDS converted from `m` with `unique_ids=False`"):
its node ids are the EP ids, in order, and its top and edge targets are EP ids -/
structure FromM (m : MRS) (e : EDS) : Prop where
  ids : e.nodes.map (·.id) = m.ids
  targets : ∀ n ∈ e.nodes, ∀ rt ∈ n.edges, rt.2 ∈ m.ids
  top : ∀ t, e.top = some t → t ∈ m.ids

theorem rho_cons_ne {x y v : Var} {z : List (Var × Var)} (h : ¬ x = y) :
    rho ((x, v) :: z) y = rho z y := by
  unfold rho
  simp only [dlookup, if_neg h]

theorem map_rho_zip : ∀ (ids vs : List Var), ids.Nodup → ids.length = vs.length →
    ids.map (rho (ids.zip vs)) = vs := by
  intro ids
  induction ids with
  | nil => intro vs _ hl; cases vs with | nil => rfl | cons v vs => simp at hl
  | cons x xs ih =>
    intro vs hnd hl
    cases vs with
    | nil => simp at hl
    | cons v vs =>
      obtain ⟨hx, hnd'⟩ := List.nodup_cons.1 hnd
      simp only [List.length_cons, Nat.add_right_cancel_iff] at hl
      simp only [List.zip_cons_cons, List.map_cons]
      congr 1
      · simp [rho, dlookup]
      · rw [← ih vs hnd' hl]
        apply List.map_congr_left
        intro y hy
        rw [ih vs hnd' hl]
        exact rho_cons_ne (fun e => hx (e ▸ hy))

theorem makeIdsUnique_specG {m : MRS} {e : EDS} (hiv : m.hasIVProperty = true) (hnr : NoReserved m)
    (hf : FromM m e) :
    ∃ e', makeIdsUnique m e = .ok e' ∧
      e'.nodes.map (·.id) = lkbIds 1 m.preds ∧ (e'.nodes.map (·.id)).Nodup ∧
      (∀ a ∈ m.ids, ∀ b ∈ m.ids, rho (m.ids.zip (lkbIds 1 m.preds)) a =
        rho (m.ids.zip (lkbIds 1 m.preds)) b → a = b) ∧
      e'.top = e.top.map (rho (m.ids.zip (lkbIds 1 m.preds))) ∧
      All2 (fun n n' => n'.id = rho (m.ids.zip (lkbIds 1 m.preds)) n.id ∧
        n'.edges = n.edges.map (fun rt => (rt.1, rho (m.ids.zip (lkbIds 1 m.preds)) rt.2)) ∧
        n'.core = n.core) e.nodes e'.nodes ∧
      (∀ n ∈ e'.nodes, ∀ rt ∈ n.edges, rt.2 ∈ e'.nodes.map (·.id)) ∧
      (∀ t, e'.top = some t → t ∈ e'.nodes.map (·.id)) := by
  have hid := ids_nodup hnr (completeIVs_of_ivProperty hiv)
  have hlen : m.ids.length = (lkbIds 1 m.preds).length := by
    rw [lkbIds_length, ← preds_map_fst m, List.length_map]
  have hnd : (lkbIds 1 m.preds).Nodup :=
    lkbIds_nodup m.preds 1 (by rw [filterMap_ivKey]; exact nonQuantIVs_nodup hiv)
      (by rw [filterMap_ivKey]; exact fun v hv => (nonQuantIVs_plain hnr v hv).1)
  -- totality
  have htop : ∃ t', renameTop (m.ids.zip (lkbIds 1 m.preds)) e.top = .ok t' := by
    cases hrt : e.top with
    | none => exact ⟨none, rfl⟩
    | some t =>
      obtain ⟨j, hj⟩ := renameId_total hlen (hf.top t hrt)
      exact ⟨some j, by simp only [renameTop, hj]⟩
  obtain ⟨top', htop'⟩ := htop
  have hnodes : ∃ nodes', mapE (renameNode (m.ids.zip (lkbIds 1 m.preds))) e.nodes = .ok nodes' := by
    apply mapE_total
    intro n hn
    have hnid : n.id ∈ m.ids := by rw [← hf.ids]; exact List.mem_map.2 ⟨n, hn, rfl⟩
    obtain ⟨j, hj⟩ := renameId_total hlen hnid
    have hedges : ∃ es, mapE (renameEdge (m.ids.zip (lkbIds 1 m.preds))) n.edges = .ok es := by
      apply mapE_total
      intro rt hrt
      obtain ⟨j', hj'⟩ := renameId_total hlen (hf.targets n hn rt hrt)
      exact ⟨(rt.1, j'), by simp only [renameEdge, hj']⟩
    obtain ⟨es, hes⟩ := hedges
    exact ⟨{ n with id := j, edges := es }, by simp only [renameNode, hj, hes]⟩
  obtain ⟨nodes', hnodes'⟩ := hnodes
  have hrun : makeIdsUnique m e = .ok { top := top', nodes := nodes' } := by
    simp only [makeIdsUnique, newIds_eq hiv hnr, htop', hnodes']
  -- the renaming relation
  have hA : All2 (fun n n' => n'.id = rho (m.ids.zip (lkbIds 1 m.preds)) n.id ∧
      n'.edges = n.edges.map (fun rt => (rt.1, rho (m.ids.zip (lkbIds 1 m.preds)) rt.2)) ∧
      n'.core = n.core) e.nodes nodes' := by
    refine (mapE_forall₂ hnodes').imp ?_
    intro n n' _ _ hren
    obtain ⟨hc, hid', hE⟩ := renameNode_spec hren
    refine ⟨(rho_of_renameId hid').symm, ?_, hc⟩
    have := All2.map_eq (f := fun rt : Role × Var => (rt.1, rho (m.ids.zip (lkbIds 1 m.preds)) rt.2))
      (g := fun rt : Role × Var => rt)
      (hE.imp (fun a b _ _ ⟨h1, h2⟩ => Prod.ext h1 (rho_of_renameId h2).symm))
    simpa using this
  have hids' : nodes'.map (·.id) = lkbIds 1 m.preds := by
    have h1 : nodes'.map (·.id) = e.nodes.map (fun n => rho (m.ids.zip (lkbIds 1 m.preds)) n.id) :=
      All2.map_eq (f := fun n : ENode => rho (m.ids.zip (lkbIds 1 m.preds)) n.id)
        (g := fun n : ENode => n.id) (hA.imp (fun _ _ _ _ ⟨a, _⟩ => a))
    have h2 : e.nodes.map (fun n => rho (m.ids.zip (lkbIds 1 m.preds)) n.id) =
        (e.nodes.map (·.id)).map (rho (m.ids.zip (lkbIds 1 m.preds))) := by
      rw [List.map_map]; rfl
    rw [h1, h2, hf.ids]
    exact map_rho_zip m.ids _ hid hlen
  have hmemρ : ∀ x ∈ m.ids, rho (m.ids.zip (lkbIds 1 m.preds)) x ∈ nodes'.map (·.id) := by
    intro x hx
    have hm := map_rho_zip m.ids _ hid hlen
    have : rho (m.ids.zip (lkbIds 1 m.preds)) x ∈ m.ids.map (rho (m.ids.zip (lkbIds 1 m.preds))) :=
      List.mem_map.2 ⟨x, hx, rfl⟩
    rw [hm] at this
    rw [hids']; exact this
  have htopeq : top' = e.top.map (rho (m.ids.zip (lkbIds 1 m.preds))) := by
    cases hrt : e.top with
    | none =>
      rw [hrt] at htop'
      simp only [renameTop, Except.ok.injEq] at htop'
      rw [← htop']; rfl
    | some t =>
      rw [hrt] at htop'
      cases het : top' with
      | none => rw [het] at htop'; simp only [renameTop] at htop'; split at htop' <;> simp at htop'
      | some t' =>
        rw [het] at htop'
        rw [Option.map_some, rho_of_renameId (renameTop_spec htop')]
  refine ⟨_, hrun, hids', by rw [hids']; exact hnd,
    fun a ha b hb hab => rho_injective hlen hnd ha hb hab, htopeq, hA, ?_, ?_⟩
  · intro n' hn' rt' hrt'
    obtain ⟨n, hn, _, _, hedges, _⟩ := hA.mem_left n' hn'
    rw [hedges] at hrt'
    obtain ⟨rt, hrt, rfl⟩ := List.mem_map.1 hrt'
    exact hmemρ rt.2 (hf.targets n hn rt hrt)
  · intro t ht
    simp only at ht
    rw [htopeq] at ht
    cases hrt : e.top with
    | none => rw [hrt] at ht; simp at ht
    | some t0 =>
      rw [hrt, Option.map_some] at ht
      injection ht with ht
      rw [← ht]
      exact hmemρ t0 (hf.top t0 hrt)

/-- what the conversion hands to `make_ids_unique` satisfies `FromM` -/
theorem fromM_of_with {pm : PM} {m : MRS} {reps : Reps} (hid : m.ids.Nodup) (hnr : NoReserved m)
    (hr : RepsOK m reps) (hpm : pm = .off ∨ pm = .std) {raw : EDS} {w : List Warn}
    (h : fromMrsWith pm m reps = .ok (raw, w)) : FromM m raw := by
  obtain ⟨_, _, hN, hJ⟩ := fromMrsWith_spec hid hnr hr hpm h
  have hmem : ∀ p ∈ m.preds, p.1 ∈ m.ids := fun p hp => by
    rw [← preds_map_fst m]; exact List.mem_map.2 ⟨p, hp, rfl⟩
  refine ⟨?_, ?_, ?_⟩
  · rw [All2.map_eq (f := fun p : Pred => p.1) (g := fun n : ENode => n.id)
      (hN.imp (fun _ _ _ _ ⟨a, _⟩ => a))]
    exact preds_map_fst m
  · intro n hn rt hrt
    obtain ⟨p, _, hz, _⟩ := hN.mem_left n hn
    obtain ⟨t, ht, htt, _⟩ := hJ (p, n) hz rt hrt
    rw [← htt]; exact hmem t ht
  · intro t ht
    obtain ⟨top, _, _, _, _, _, htop, _, _, _, _, hetop, _⟩ := fromMrsWith_decomp h
    rw [hetop] at ht
    subst ht
    obtain ⟨p, hp, hpt⟩ := getTop_spec hr htop
    rw [← hpt]; exact hmem p hp

/-! ## every priority: decomposition of a boolean call -/

theorem api_bool_decomp {b uniq : Bool} {key : Option Key} {m : MRS} {e : EDS} {w : List Warn}
    (h : fromMrsApi (.bool b) uniq key m = .ok (e, w)) :
    ∃ reps raw, representativesK m key = .ok reps ∧
      fromMrsWith (if b then .std else .off) m reps = .ok (raw, w) ∧
      ((uniq = false ∧ e = raw) ∨ (uniq = true ∧ makeIdsUnique m raw = .ok e)) := by
  unfold fromMrsApi at h
  split at h
  · exact absurd h (by simp)
  · rename_i reps hreps
    cases b with
    | true =>
      rw [apiWith_true] at h
      split at h
      · exact absurd h (by simp)
      · rename_i raw w' hraw
        obtain ⟨rfl, hfin⟩ := finish_decomp h
        exact ⟨reps, raw, hreps, hraw, hfin⟩
    | false =>
      rw [apiWith_false] at h
      split at h
      · exact absurd h (by simp)
      · rename_i raw w' hraw
        obtain ⟨rfl, hfin⟩ := finish_decomp h
        exact ⟨reps, raw, hreps, hraw, hfin⟩

theorem api_keys_key {b uniq : Bool} {key : Option Key} {m : MRS} (hnr : NoReserved m) {e : EDS}
    {w : List Warn} (h : fromMrsApi (.bool b) uniq key m = .ok (e, w)) :
    ∀ n ∈ e.nodes, (n.edges.map (·.1)).Nodup := by
  obtain ⟨reps, raw, _, hwith, hfin⟩ := api_bool_decomp h
  have hK := fromMrsWith_keys hnr hwith
  rcases hfin with ⟨_, rfl⟩ | ⟨_, he⟩
  · exact hK
  · unfold makeIdsUnique at he
    dsimp only at he
    split at he
    · exact absurd he (by simp)
    · split at he
      · exact absurd he (by simp)
      · rename_i nodes' hnodes
        simp only [Except.ok.injEq] at he
        subst he
        have hR := (mapE_forall₂ hnodes).imp (fun _ _ _ _ h => renameNode_spec h)
        intro n' hn'
        obtain ⟨n, hn, _, _, _, hE⟩ := hR.mem_left n' hn'
        have := All2.map_eq (f := fun rt : Role × Var => rt.1) (g := fun rt : Role × Var => rt.1)
          (hE.imp (fun _ _ _ _ ⟨a, _⟩ => a))
        rw [this]
        exact hK n hn

/-! ### the stable sort -/

theorem keyLt_irrefl (a : Nat × Nat) : keyLt a a = false := by
  simp [keyLt]

/-- sorted: no later element ranks strictly below an earlier one -/
def SortedS (key : Key) (l : List Pred) : Prop := l.Pairwise (fun a b => keyLt (key b) (key a) = false)

theorem keyLt_trans_false {a b c : Nat × Nat} (h1 : keyLt b a = false) (h2 : keyLt c b = false) :
    keyLt c a = false := by
  simp only [keyLt, Bool.or_eq_false_iff, decide_eq_false_iff_not, Bool.and_eq_false_iff,
    beq_eq_false_iff_ne, ne_eq] at *
  omega

theorem insertS_sorted (key : Key) (x : Pred) : ∀ (l : List Pred), SortedS key l →
    SortedS key (insertS key x l) := by
  intro l
  induction l with
  | nil => intro _; simp [insertS, SortedS]
  | cons y ys ih =>
    intro h
    unfold SortedS at h
    obtain ⟨hy, hys⟩ := List.pairwise_cons.1 h
    unfold insertS
    split
    · rename_i hlt
      unfold SortedS
      refine List.pairwise_cons.2 ⟨?_, ih hys⟩
      intro z hz
      rcases (mem_insertS key x z ys).1 hz with rfl | hz
      · -- x after y: key y < key x, so not key x < key y
        simp only [keyLt, Bool.or_eq_true, decide_eq_true_eq, Bool.and_eq_true, beq_iff_eq] at hlt
        simp only [keyLt, Bool.or_eq_false_iff, decide_eq_false_iff_not, Bool.and_eq_false_iff,
          beq_eq_false_iff_ne, ne_eq]
        omega
      · exact hy z hz
    · rename_i hnlt
      unfold SortedS
      refine List.pairwise_cons.2 ⟨?_, h⟩
      intro z hz
      rcases List.mem_cons.1 hz with rfl | hz
      · simpa using hnlt
      · exact keyLt_trans_false (by simpa using hnlt) (hy z hz)

theorem sortS_sorted (key : Key) : ∀ (l : List Pred), SortedS key (sortS key l) := by
  intro l
  induction l with
  | nil => simp [sortS, SortedS]
  | cons x xs ih => exact insertS_sorted key x _ ih

theorem insertS_perm (key : Key) (x : Pred) : ∀ (l : List Pred), (insertS key x l).Perm (x :: l) := by
  intro l
  induction l with
  | nil => exact List.Perm.refl _
  | cons y ys ih =>
    unfold insertS
    split
    · exact ((List.Perm.cons y ih).trans (List.Perm.swap x y ys))
    · exact List.Perm.refl _

theorem sortS_perm (key : Key) : ∀ (l : List Pred), (sortS key l).Perm l := by
  intro l
  induction l with
  | nil => exact List.Perm.refl _
  | cons x xs ih => exact (insertS_perm key x _).trans (List.Perm.cons x ih)

/-- stability: among the predications of ONE rank the order of the input is kept -/
theorem insertS_filter (key : Key) (x : Pred) (c : Nat × Nat) : ∀ (l : List Pred), SortedS key l →
    (insertS key x l).filter (fun p => key p == c) = (x :: l).filter (fun p => key p == c) := by
  intro l
  induction l with
  | nil => intro _; rfl
  | cons y ys ih =>
    intro h
    unfold SortedS at h
    obtain ⟨_, hys⟩ := List.pairwise_cons.1 h
    unfold insertS
    split
    · rename_i hlt
      -- `y` ranks strictly below `x`: they cannot both have rank `c`
      have hne : ¬ (key x = c ∧ key y = c) := by
        rintro ⟨hx, hy⟩
        rw [hx, hy, keyLt_irrefl] at hlt
        exact absurd hlt (by simp)
      simp only [List.filter_cons, ih hys]
      by_cases hx : key x = c
      · by_cases hy : key y = c
        · exact absurd ⟨hx, hy⟩ hne
        · simp [hx, hy]
      · by_cases hy : key y = c <;> simp [hx, hy]
    · rfl

theorem sortS_stable (key : Key) (c : Nat × Nat) : ∀ (l : List Pred),
    (sortS key l).filter (fun p => key p == c) = l.filter (fun p => key p == c) := by
  intro l
  induction l with
  | nil => rfl
  | cons x xs ih =>
    simp only [sortS]
    rw [insertS_filter key x c _ (sortS_sorted key xs)]
    simp only [List.filter_cons, ih]

end Verif.C05
