/-
C05 — property theorems about the PUBLIC layer (`Api.lean`): `eds.from_mrs` with all four
parameters, `eds.find_predicate_modifiers`, `eds.make_ids_unique` and their documented staged use.

Two kinds of statements:

* REFINEMENT: the public layer coincides with the modelled core (`Model.fromMrs`) — for
  `predicate_modifiers ∈ {True, False}`, for a callable (the calling protocol: the callable is applied
  once, to the graph of the conversion without modifiers and with EP ids, to the MRS and to the
  representatives; what it returns is merged as `PM.custom`), for `find_predicate_modifiers` passed as
  the callable, and for the staged use of the three public functions.  Through these every theorem of
  `Props.lean` is a theorem about the public functions (instances are stated below).
* EVERY PRIORITY: the shape, identifier and dependency-soundness clauses for an arbitrary
  `representative_priority` (the theorems of `Props.lean` are about the default one).
-/
import Verif.C05.ApiLemmas
import Verif.C05.Props

namespace Verif.C05
open Verif.Sem

/-! ## refinement: the public `from_mrs` and the core -/

/-- `from_mrs(m, predicate_modifiers=b, unique_ids=uniq)` with the default priority is the core
conversion with `PM.std` / `PM.off`. -/
theorem api_bool_eq_core (b uniq : Bool) (m : MRS) :
    fromMrsApi (.bool b) uniq none m = fromMrs (if b then .std else .off) uniq m := by
  rw [fromMrs_eq_finish, fromMrsRaw_eq]
  unfold fromMrsApi
  rw [representativesK_none]
  cases m.representatives with
  | error x => rfl
  | ok reps =>
    cases b with
    | true =>
      simp only [apiWith_true, if_true]
    | false =>
      simp only [apiWith_false, Bool.false_eq_true, if_false]

/-- The calling protocol of a user-supplied `predicate_modifiers` function `f`, default priority:
`from_mrs` fails exactly as the conversion without modifiers fails; otherwise `f` is applied (once) to
the result `e0` of `from_mrs(m, predicate_modifiers=False, unique_ids=False)` — node ids are the EP
ids —, to `m` and to `scope.representatives(m)`; an exception of `f` propagates; the mapping `a` it
returns is merged exactly as the core does for `PM.custom a` (and `make_ids_unique` runs after it). -/
theorem api_fn_protocol (f : UserFn) (uniq : Bool) (m : MRS) :
    fromMrsApi (.fn f) uniq none m =
      match m.representatives with
      | .error x => .error (.sem x)
      | .ok reps =>
        match fromMrs .off false m with
        | .error x => .error x
        | .ok (e0, _) =>
          match f e0 m reps with
          | .error x => .error x
          | .ok a => fromMrs (.custom a) uniq m := by
  unfold fromMrsApi
  rw [representativesK_none]
  cases hreps : m.representatives with
  | error x => rfl
  | ok reps =>
    simp only [apiWith_eq, userFnOf, fromMrs_eq_finish, fromMrsRaw_eq, hreps]
    cases h0 : fromMrsWith .off m reps with
    | error x => rfl
    | ok ew =>
      obtain ⟨e0, w0⟩ := ew
      simp only [finish, Bool.false_eq_true, if_false]
      cases f e0 m reps with
      | error x => rfl
      | ok a => rfl

/-- Passing the public `eds.find_predicate_modifiers` itself as the callable is the same as
`predicate_modifiers=True`, for every priority. -/
theorem api_std_as_function (uniq : Bool) (key : Option Key) (m : MRS) :
    fromMrsApi (.fn (fun e m r => findPM e m (some r))) uniq key m =
      fromMrsApi (.bool true) uniq key m := rfl

/-- The staged use of the public functions — `from_mrs(m, False, False)`, then
`find_predicate_modifiers(e, m)` (which recomputes the representatives), `e[id].edges.update(…)`,
then `make_ids_unique(e, m)` if wanted — gives exactly `from_mrs(m, True, uniq)`. -/
theorem staged_eq (uniq : Bool) (m : MRS) :
    stagedApi uniq none m = fromMrsApi (.bool true) uniq none m := by
  unfold stagedApi fromMrsApi
  rw [representativesK_none]
  cases hreps : m.representatives with
  | error x => rfl
  | ok reps =>
    simp only [apiWith_true, apiWith_false]
    cases h1 : getTop m reps with
    | error x => simp only [fromMrsWith, h1]
    | ok tw =>
      obtain ⟨top, w1⟩ := tw
      cases h2 : basicDeps m reps with
      | error x => simp only [fromMrsWith, h1, h2]
      | ok dw =>
        obtain ⟨deps, w2⟩ := dw
        cases h3 : mapE (mkNode m deps) m.preds with
        | error x => simp only [fromMrsWith, h1, h2, h3]
        | ok nodes =>
          simp only [fromMrsWith, h1, h2, h3, addlOf, applyAddl, foldE, finish, Bool.false_eq_true,
            if_false, findPM, hreps]
          cases h4 : findPredicateModifiers m reps nodes with
          | error x => simp only
          | ok a =>
            simp only
            cases h5 : foldE applyAddlOne nodes a with
            | error x => simp only
            | ok nodes' => simp only

/-- `eds.EDS(top=…, nodes=…, lnk=m.lnk, surface=m.surface, identifier=m.identifier)`: the result
carries the structure-level alignment, surface string and identifier of the source unchanged, and
they influence nothing else. -/
theorem fromMrsDoc_fields (pm : PMArg) (uniq : Bool) (key : Option Key) (d : Doc) (m : MRS)
    (e : EDS) (d' : Doc) (w : List Warn) (h : fromMrsDoc pm uniq key d m = .ok (e, d', w)) :
    d' = d ∧ fromMrsApi pm uniq key m = .ok (e, w) := by
  unfold fromMrsDoc at h
  split at h
  · exact absurd h (by simp)
  · rename_i e1 w1 h1
    simp only [Except.ok.injEq, Prod.mk.injEq] at h
    obtain ⟨rfl, rfl, rfl⟩ := h
    exact ⟨rfl, h1⟩

/-! ## instances of the core theorems at the public layer (default priority) -/

/-- Totality at the public layer: "Converting any well-formed MRS to EDS succeeds without error or
warning and yields … a top that is a node" for `from_mrs(m, b, uniq)` AND for the staged use of
`find_predicate_modifiers` / `make_ids_unique`. -/
theorem api_total (b uniq : Bool) (m : MRS) (hwf : m.isWellFormed = true) (hnr : NoReserved m)
    (hhr : HasReps m) :
    (∃ e t, fromMrsApi (.bool b) uniq none m = .ok (e, []) ∧ e.top = some t ∧ t ∈ e.nodes.map (·.id)) ∧
    (∃ e t, stagedApi uniq none m = .ok (e, []) ∧ e.top = some t ∧ t ∈ e.nodes.map (·.id)) := by
  refine ⟨?_, ?_⟩
  · rw [api_bool_eq_core]
    exact fromMrs_top_exists _ uniq m hwf hnr hhr (by cases b <;> simp)
  · rw [staged_eq, api_bool_eq_core]
    exact fromMrs_top_exists _ uniq m hwf hnr hhr (by simp)

/-- "a quantifier has exactly one bound-variable edge to the predication it quantifies" and "the result
survives C03 serialization" (precondition `ExpressibleE` of C03's round-trip theorems) at the public
layer, for `from_mrs(m, b, uniq)` and — through `staged_eq` — for the staged use of the public
functions (`b = true`). -/
theorem api_bv_and_expressible (b uniq : Bool) (m : MRS) (hiv : m.hasIVProperty = true)
    (hnr : NoReserved m) (e : EDS) (w : List Warn)
    (h : fromMrsApi (.bool b) uniq none m = .ok (e, w) ∨ (b = true ∧ stagedApi uniq none m = .ok (e, w))) :
    (UniqueQuant m → ∀ (qn pn : Pred × ENode), qn ∈ m.preds.zip e.nodes → pn ∈ m.preds.zip e.nodes →
      qn.1.2.isQuantifier = true → pn.1.2.isQuantifier = false →
      ∀ v, qn.1.2.iv = some v → pn.1.2.iv = some v →
      qn.2.edges.filter (fun rt => rt.1 == BV_ROLE) = [(BV_ROLE, pn.2.id)]) ∧
    (ExpressibleM m → ExpressibleE e) := by
  have h' : fromMrs (if b then .std else .off) uniq m = .ok (e, w) := by
    rcases h with h | ⟨rfl, h⟩
    · rw [api_bool_eq_core] at h; exact h
    · rw [staged_eq, api_bool_eq_core] at h; exact h
  have hpm : (if b then PM.std else PM.off) = .off ∨ (if b then PM.std else PM.off) = .std := by
    cases b <;> simp
  refine ⟨?_, ?_⟩
  · intro huq qn pn hqn hpn hqq hpq v hqv hpv
    exact bv_exactly_one _ uniq m hiv hnr huq hpm e w h' qn pn hqn hpn hqq hpq v hqv hpv
  · intro hx
    exact fromMrs_expressible _ uniq m hiv hnr hx hpm e w h'

/-- Totality for a callable that, on what `from_mrs` hands it, returns a mapping keyed by EP ids
whose edges end at EP ids. -/
theorem api_fn_total (f : UserFn) (uniq : Bool) (m : MRS) (hwf : m.isWellFormed = true)
    (hnr : NoReserved m) (hhr : HasReps m)
    (hf : ∀ e0 reps, fromMrs .off false m = .ok (e0, []) → m.representatives = .ok reps →
      ∃ a, f e0 m reps = .ok a ∧ KeysIn m a ∧ AddlJ m (fun _ _ _ => True) a) :
    ∃ e t, fromMrsApi (.fn f) uniq none m = .ok (e, []) ∧ e.top = some t := by
  rw [api_fn_protocol]
  obtain ⟨reps, hreps⟩ := MRS.representatives_total m
  obtain ⟨e0, h0⟩ := fromMrs_total .off false m hwf hnr hhr (Or.inl rfl)
  obtain ⟨a, ha, hk, hj⟩ := hf e0 reps h0 hreps
  obtain ⟨e, t, he, ht⟩ := fromMrs_total_custom a uniq m hwf hnr hhr hk hj
  exact ⟨e, t, by simp only [hreps, h0, ha, he], ht⟩

/-- An exception raised by the callable is the outcome of `from_mrs` (nothing is swallowed). -/
theorem api_fn_error (f : UserFn) (uniq : Bool) (m : MRS) (reps : Reps) (e0 : EDS) (w0 : List Warn)
    (x : E) (hreps : m.representatives = .ok reps) (h0 : fromMrs .off false m = .ok (e0, w0))
    (hx : f e0 m reps = .error x) : fromMrsApi (.fn f) uniq none m = .error x := by
  rw [api_fn_protocol]
  simp only [hreps, h0, hx]

/-! ## every `representative_priority` -/

/-- Shape and identifiers for EVERY argument combination (`predicate_modifiers` a boolean or any
callable, both `unique_ids`, any ranking function): one node per predication, in order, carrying its
data; with `unique_ids=False` the node ids are the EP ids. -/
theorem api_shape (pm : PMArg) (uniq : Bool) (key : Option Key) (m : MRS) (hnr : NoReserved m)
    (e : EDS) (w : List Warn) (h : fromMrsApi pm uniq key m = .ok (e, w)) :
    e.nodes.length = m.rels.length ∧
    All2 (fun p n => NodeData m p n ∧ (uniq = false → n.id = p.1)) m.preds e.nodes := by
  obtain ⟨reps, e0, raw, a, _, _, _, _, hraw, hfin⟩ := fromMrsApi_decomp h
  have hN := fromMrsWith_shape hnr hraw
  have hA : All2 (fun p n => NodeData m p n ∧ (uniq = false → n.id = p.1)) m.preds e.nodes := by
    rcases hfin with ⟨hu, rfl⟩ | ⟨hu, he⟩
    · exact hN.imp (fun _ _ _ _ ⟨x, y⟩ => ⟨y, fun _ => x⟩)
    · exact (renamed_shape hN he).imp (fun _ _ _ _ x => ⟨x, fun hf => by rw [hu] at hf; cases hf⟩)
  exact ⟨by rw [← hA.length_eq, ← preds_map_snd m, List.length_map], hA⟩

/-- "with unique node identifiers", every argument combination, every ranking function: the
identifiers are the EP ids resp. the LKB-style ids — they do not depend on the priority nor on the
callable. -/
theorem api_ids_unique (pm : PMArg) (uniq : Bool) (key : Option Key) (m : MRS)
    (hiv : m.hasIVProperty = true) (hnr : NoReserved m)
    (e : EDS) (w : List Warn) (h : fromMrsApi pm uniq key m = .ok (e, w)) :
    e.nodes.map (·.id) = (if uniq then lkbIds 1 m.preds else m.ids) ∧ (e.nodes.map (·.id)).Nodup := by
  obtain ⟨reps, e0, raw, a, _, _, _, _, hraw, hfin⟩ := fromMrsApi_decomp h
  have hN := fromMrsWith_shape hnr hraw
  have hid := ids_nodup hnr (completeIVs_of_ivProperty hiv)
  rcases hfin with ⟨hu, rfl⟩ | ⟨hu, he⟩
  · subst hu
    have : e.nodes.map (·.id) = m.ids := by
      rw [All2.map_eq (f := fun p : Pred => p.1) (g := fun n : ENode => n.id)
        (hN.imp (fun _ _ _ _ ⟨x, _⟩ => x))]
      exact preds_map_fst m
    simp only [Bool.false_eq_true, if_false]
    exact ⟨this, by rw [this]; exact hid⟩
  · subst hu
    have hl : e.nodes.map (·.id) = lkbIds 1 m.preds := by
      unfold makeIdsUnique at he
      dsimp only at he
      split at he
      · exact absurd he (by simp)
      · split at he
        · exact absurd he (by simp)
        · rename_i nodes' hnodes
          simp only [Except.ok.injEq] at he
          subst he
          have hR := (mapE_forall₂ hnodes).imp (fun _ _ _ _ h => renameNode_spec h)
          have hA : All2 (fun (p : Pred) (n : ENode) =>
              dlookup p.1 (m.ids.zip (lkbIds 1 m.preds)) = some n.id) m.preds nodes' := by
            refine All2.comp hN hR ?_
            intro p n n' ⟨h1, _⟩ ⟨_, h4, _⟩
            rw [newIds_eq hiv hnr, h1] at h4
            exact renameId_iff.1 h4
          have hB := lookup_zip_all2 m.preds (lkbIds 1 m.preds)
            (by rw [preds_map_fst]; exact hid) (lkbIds_length _ _).symm
          rw [preds_map_fst] at hB
          have := All2.functional (g := fun n : ENode => n.id) (h := fun v : Var => v) hA hB
            (by intro x y z hy hz; rw [hy] at hz; exact Option.some.inj hz)
          simpa using this
    simp only [if_true]
    refine ⟨hl, ?_⟩
    rw [hl]
    exact lkbIds_nodup m.preds 1 (by rw [filterMap_ivKey]; exact nonQuantIVs_nodup hiv)
      (by rw [filterMap_ivKey]; exact fun v hv => (nonQuantIVs_plain hnr v hv).1)

/-- Dependency soundness for a callable under the contract `AddlJ m J`, every ranking function:
every edge is a BV edge, an argument edge or satisfies `J`; every edge ends at a node; a top is a
node.  The contract is only demanded of what `f` returns on the arguments `from_mrs` really hands it
(the modifier-free graph `e0` for THAT priority and the representatives for THAT priority). -/
theorem api_fn_edges_justified (f : UserFn) (J : Pred → Role → Pred → Prop) (uniq : Bool)
    (key : Option Key) (m : MRS) (hnr : NoReserved m) (hc : m.hasCompleteIVs = true)
    (e : EDS) (w : List Warn) (h : fromMrsApi (.fn f) uniq key m = .ok (e, w))
    (ha : ∀ e0 reps a, representativesK m key = .ok reps →
      fromMrsApi (.bool false) false key m = .ok (e0, w) → f e0 m reps = .ok a → AddlJ m J a) :
    Justified m (fun s r t => (BVJust s r t ∨ ArgJust m s r t) ∨ J s r t) e.nodes ∧
    (∀ n ∈ e.nodes, ∀ rt ∈ n.edges, rt.2 ∈ e.nodes.map (·.id)) ∧
    (∀ t, e.top = some t → t ∈ e.nodes.map (·.id)) := by
  have hid := ids_nodup hnr hc
  obtain ⟨reps, e0, raw, a, hreps, hr, h0, hfa, hraw, hfin⟩ := fromMrsApi_decomp h
  have hfa' := hfa f rfl
  simp only [userFnOf] at hraw
  have hoff : fromMrsApi (.bool false) false key m = .ok (e0, w) := by
    simp only [fromMrsApi, hreps, apiWith_false, h0, finish, Bool.false_eq_true, if_false]
  have hadd : ∀ nodes addl, addlOf (.custom a) m reps nodes = .ok addl → AddlJ m J addl := by
    intro _ addl h4
    simp only [addlOf, Except.ok.injEq] at h4
    rw [← h4]; exact ha e0 reps a hreps hoff hfa'
  obtain ⟨hN, hJ, hT⟩ := fromMrsWith_gen hid hnr hr hadd hraw
  have hshape := (api_shape (.fn f) uniq key m hnr e w h).2
  have key2 : Justified m (fun s r t => (BVJust s r t ∨ ArgJust m s r t) ∨ J s r t) e.nodes ∧
      (∀ t, e.top = some t → ∃ pn ∈ m.preds.zip e.nodes, pn.2.id = t) := by
    rcases hfin with ⟨_, rfl⟩ | ⟨_, he⟩
    · exact raw_spec hN hJ hT
    · exact renamed_spec hN hJ hT he
  obtain ⟨hJ', hT'⟩ := key2
  refine ⟨hJ', ?_, ?_⟩
  · intro n hn rt hrt
    obtain ⟨p, _, hz, _⟩ := hshape.mem_left n hn
    obtain ⟨qn, hqn, hidq, _⟩ := hJ' (p, n) hz rt hrt
    exact List.mem_map.2 ⟨qn.2, (List.of_mem_zip hqn).2, hidq⟩
  · intro t ht
    obtain ⟨pn, hpn, hidp⟩ := hT' t ht
    exact List.mem_map.2 ⟨pn.2, (List.of_mem_zip hpn).2, hidp⟩

/-- "Every edge is justified by the source … every edge ending at a node … a top that is a node" for
`predicate_modifiers ∈ {True, False}`, both `unique_ids` and EVERY ranking function: a BV edge from a
quantifier to the non-quantifier with its ARG0, an argument edge (value = the target's ARG0, its
label, or a hole constrained to it), or — only with modifiers on — an `ARG1` edge between two
predications of one scope that are unconnected in the graph `e0` of the conversion without modifiers
under the same ranking function. -/
theorem api_edges_justified (b uniq : Bool) (key : Option Key) (m : MRS) (hnr : NoReserved m)
    (hc : m.hasCompleteIVs = true) (e : EDS) (w : List Warn)
    (h : fromMrsApi (.bool b) uniq key m = .ok (e, w)) :
    ∃ e0, fromMrsApi (.bool false) false key m = .ok (e0, w) ∧
      Justified m (EdgeJust m b (edgePairs e0.nodes)) e.nodes ∧
      (∀ n ∈ e.nodes, ∀ rt ∈ n.edges, rt.2 ∈ e.nodes.map (·.id)) ∧
      (∀ t, e.top = some t → t ∈ e.nodes.map (·.id)) := by
  have hid := ids_nodup hnr hc
  have hshape := (api_shape (.bool b) uniq key m hnr e w h).2
  unfold fromMrsApi at h
  split at h
  · exact absurd h (by simp)
  · rename_i reps hreps
    have hr := representativesK_repsOK hreps
    have hwith : ∃ raw, fromMrsWith (if b then .std else .off) m reps = .ok (raw, w) ∧
        ((uniq = false ∧ e = raw) ∨ (uniq = true ∧ makeIdsUnique m raw = .ok e)) := by
      cases b with
      | true =>
        rw [apiWith_true] at h
        split at h
        · exact absurd h (by simp)
        · rename_i raw w' hraw
          obtain ⟨rfl, hfin⟩ := finish_decomp h
          exact ⟨raw, hraw, hfin⟩
      | false =>
        rw [apiWith_false] at h
        split at h
        · exact absurd h (by simp)
        · rename_i raw w' hraw
          obtain ⟨rfl, hfin⟩ := finish_decomp h
          exact ⟨raw, hraw, hfin⟩
    obtain ⟨raw, hraw, hfin⟩ := hwith
    have hpm : (if b then PM.std else PM.off) = .off ∨ (if b then PM.std else PM.off) = .std := by
      cases b <;> simp
    obtain ⟨e0, he0, hN, hJ⟩ := fromMrsWith_spec hid hnr hr hpm hraw
    have hison : (if b then PM.std else PM.off).isOn = b := by cases b <;> rfl
    rw [hison] at hJ
    have hoff : fromMrsApi (.bool false) false key m = .ok (e0, w) := by
      simp only [fromMrsApi, hreps, apiWith_false, he0, finish, Bool.false_eq_true, if_false]
    obtain ⟨top, _, _, _, _, _, htop, _, _, _, _, hetop, _⟩ := fromMrsWith_decomp hraw
    have hT : ∀ t, raw.top = some t → ∃ p ∈ m.preds, p.1 = t := by
      intro t ht
      rw [hetop] at ht
      subst ht
      exact getTop_spec hr htop
    have key2 : Justified m (EdgeJust m b (edgePairs e0.nodes)) e.nodes ∧
        (∀ t, e.top = some t → ∃ pn ∈ m.preds.zip e.nodes, pn.2.id = t) := by
      rcases hfin with ⟨_, rfl⟩ | ⟨_, he⟩
      · exact raw_spec hN hJ hT
      · exact renamed_spec hN hJ hT he
    obtain ⟨hJ', hT'⟩ := key2
    refine ⟨e0, hoff, hJ', ?_, ?_⟩
    · intro n hn rt hrt
      obtain ⟨p, _, hz, _⟩ := hshape.mem_left n hn
      obtain ⟨qn, hqn, hidq, _⟩ := hJ' (p, n) hz rt hrt
      exact List.mem_map.2 ⟨qn.2, (List.of_mem_zip hqn).2, hidq⟩
    · intro t ht
      obtain ⟨pn, hpn, hidp⟩ := hT' t ht
      exact List.mem_map.2 ⟨pn.2, (List.of_mem_zip hpn).2, hidp⟩

/-! ## non-vacuity and necessity witnesses -/

set_option maxRecDepth 100000 in
/-- the public layer on "The dog barks": the direct call, the staged call and the call with
`find_predicate_modifiers` as the callable agree and succeed; the structure-level fields are carried -/
example :
    (match fromMrsApi (.bool true) true none dogBarks, stagedApi true none dogBarks,
           fromMrsDoc (.fn (fun e m r => findPM e m (some r))) true none
             { lnk := some (0, 14), surface := some "The dog barks.", identifier := some "1" } dogBarks with
     | .ok (e, w), .ok (e', w'), .ok (e'', d, w'') =>
       e == e' && e == e'' && w.isEmpty && w'.isEmpty && w''.isEmpty && e.nodes.length == 3 &&
       d.lnk == some (0, 14) && d.surface == some "The dog barks." && d.identifier == some "1"
     | _, _, _ => false) = true := by decide

/-- "nearly every dog barks": `_nearly_x_deg` shares the scope of `_every_q`; two representatives. -/
def nearlyEvery : MRS :=
  { top := some ⟨"h", 0⟩, index := some ⟨"e", 2⟩,
    rels := [{ predicate := "_nearly_x_deg", label := ⟨"h", 4⟩,
               args := [("ARG0", ⟨"e", 9⟩), ("ARG1", ⟨"u", 10⟩)] },
             { predicate := "_every_q", label := ⟨"h", 4⟩,
               args := [("ARG0", ⟨"x", 3⟩), ("RSTR", ⟨"h", 5⟩), ("BODY", ⟨"h", 6⟩)] },
             { predicate := "_dog_n_1", label := ⟨"h", 7⟩, args := [("ARG0", ⟨"x", 3⟩)] },
             { predicate := "_bark_v_1", label := ⟨"h", 1⟩, args := [("ARG0", ⟨"e", 2⟩), ("ARG1", ⟨"x", 3⟩)] }],
    hcons := [⟨⟨"h", 0⟩, "qeq", ⟨"h", 1⟩⟩, ⟨⟨"h", 5⟩, "qeq", ⟨"h", 7⟩⟩] }

def edgesOf : Except E (EDS × List Warn) → List (Var × List (Role × Var))
  | .ok (e, _) => e.nodes.map (fun n => (n.id, n.edges))
  | .error _ => []

set_option maxRecDepth 100000 in
/-- The priority is OBSERVABLE (so threading it is not vacuous): with the default ranking the
quantifier represents the shared scope and the modifier gets the predicate-modifier edge
`e9 -ARG1-> q3`; with "every predication ranks the same" Python's stable sort keeps the order of the
scope, the modifier `e9` (listed first) is the representative and the edge runs the other way
round, from the quantifier — which then carries `BV` and `ARG1`. -/
theorem priority_observable :
    edgesOf (fromMrsApi (.bool true) false none nearlyEvery) =
      [(⟨"e", 9⟩, [("ARG1", ⟨"q", 3⟩)]), (⟨"q", 3⟩, [("BV", ⟨"x", 3⟩)]), (⟨"x", 3⟩, []),
       (⟨"e", 2⟩, [("ARG1", ⟨"x", 3⟩)])] ∧
    edgesOf (fromMrsApi (.bool true) false (some keyConst) nearlyEvery) =
      [(⟨"e", 9⟩, []), (⟨"q", 3⟩, [("BV", ⟨"x", 3⟩), ("ARG1", ⟨"e", 9⟩)]), (⟨"x", 3⟩, []),
       (⟨"e", 2⟩, [("ARG1", ⟨"x", 3⟩)])] := by decide

set_option maxRecDepth 100000 in
/-- The staged use recomputes the representatives with the DEFAULT priority: under another priority
it is NOT `from_mrs(m, True, …, representative_priority=key)` (so `staged_eq` needs `key = none`). -/
theorem staged_needs_default_priority :
    edgesOf (stagedApi false (some keyConst) nearlyEvery) ≠
      edgesOf (fromMrsApi (.bool true) false (some keyConst) nearlyEvery) := by decide

set_option maxRecDepth 100000 in
/-- A callable sees the graph without modifiers and the representatives: `ufReps` (an `R-REP` edge
from the last to the first representative of a scope) and `ufIsolated` (a `MOD` edge to the top from
every node without edges) on the example; a raising callable makes the call raise. -/
theorem user_functions_witness :
    edgesOf (fromMrsApi (.fn ufReps) false none nearlyEvery) =
      [(⟨"e", 9⟩, [("R-REP", ⟨"q", 3⟩)]), (⟨"q", 3⟩, [("BV", ⟨"x", 3⟩)]), (⟨"x", 3⟩, []),
       (⟨"e", 2⟩, [("ARG1", ⟨"x", 3⟩)])] ∧
    edgesOf (fromMrsApi (.fn ufIsolated) true none nearlyEvery) =
      [(⟨"e", 9⟩, [("MOD", ⟨"e", 2⟩)]), (⟨"_", 1⟩, [("BV", ⟨"x", 3⟩)]), (⟨"x", 3⟩, [("MOD", ⟨"e", 2⟩)]),
       (⟨"e", 2⟩, [("ARG1", ⟨"x", 3⟩)])] ∧
    (match fromMrsApi (.fn ufRaise) true none nearlyEvery with
     | .error .keyError => true
     | _ => false) = true := by decide

end Verif.C05
