/-
C05 — the conversion for an ARBITRARY `predicate_modifiers` argument (also a user function),
parametrised by what is known about the additional dependencies it yields; and the existence of a
top.  Core Lean only.
-/
import Verif.C05.IdLemmas

namespace Verif.C05
open Verif.Sem

/-- contract on additional dependencies: every edge is keyed by an EP id, ends at an EP id and
satisfies `J` (read on the predications of source and target) -/
def AddlJ (m : MRS) (J : Pred → Role → Pred → Prop) (addl : EdgeMap) : Prop :=
  ∀ k es, (k, es) ∈ addl → ∀ rt ∈ es, ∃ s ∈ m.preds, ∃ t ∈ m.preds, s.1 = k ∧ t.1 = rt.2 ∧ J s rt.1 t

theorem addlOK_iff {m : MRS} {E : List (Var × Var)} {addl : EdgeMap} :
    AddlOK m E addl ↔ AddlJ m (PMJust E) addl := Iff.rfl

theorem AddlJ.weaken {m : MRS} {J J' : Pred → Role → Pred → Prop} {addl : EdgeMap}
    (h : AddlJ m J addl) (hw : ∀ s r t, J s r t → J' s r t) : AddlJ m J' addl := by
  intro k es hk rt hrt
  obtain ⟨s, hs, t, ht, h1, h2, h3⟩ := h k es hk rt hrt
  exact ⟨s, hs, t, ht, h1, h2, hw _ _ _ h3⟩

theorem rawjust_add_gen {m : MRS} (hid : m.ids.Nodup) {J J2 : Pred → Role → Pred → Prop}
    {addl : EdgeMap} (hadd : AddlJ m J2 addl) {nodes nodes' : List ENode}
    (hn : All2 (fun p n => n.id = p.1 ∧ NodeData m p n) m.preds nodes) (hj : RawJust m J nodes)
    (ha : All2 (AddRel addl) nodes nodes') :
    All2 (fun p n => n.id = p.1 ∧ NodeData m p n) m.preds nodes' ∧
    RawJust m (fun s r t => J s r t ∨ J2 s r t) nodes' := by
  have hc := All2.comp_zip hn ha
  refine ⟨hc.imp ?_, ?_⟩
  · intro p n' _ _ ⟨n, _, ⟨h1, h2⟩, ⟨h3, h4, _⟩⟩
    exact ⟨by rw [h4, h1], h2.of_core h3⟩
  · intro pn hpn rt hrt
    obtain ⟨n, hz, ⟨h1, _⟩, ⟨_, _, h5⟩⟩ := hc.of_zip pn hpn
    rcases h5 rt hrt with hold | ⟨es, hes, hrt'⟩
    · obtain ⟨t, ht, htt, hJ⟩ := hj (pn.1, n) hz rt hold
      exact ⟨t, ht, htt, Or.inl hJ⟩
    · obtain ⟨s, hs, t, ht, hsk, htt, hpm⟩ := hadd _ _ hes rt hrt'
      have hp : pn.1 ∈ m.preds := (List.of_mem_zip hpn).1
      have hsp : s = pn.1 := pred_eq_of_id_eq hid hs hp (by rw [hsk, h1])
      exact ⟨t, ht, htt, Or.inr (by rw [← hsp]; exact hpm)⟩

/-- the graph before `make_ids_unique`, for any `predicate_modifiers` argument whose additional
dependencies satisfy `AddlJ m J2` -/
theorem fromMrsRaw_gen {pm : PM} {m : MRS} (hid : m.ids.Nodup) (hnr : NoReserved m)
    {J2 : Pred → Role → Pred → Prop}
    (hadd : ∀ reps nodes addl, RepsOK m reps → addlOf pm m reps nodes = .ok addl → AddlJ m J2 addl)
    {raw : EDS} {w : List Warn} (h : fromMrsRaw pm m = .ok (raw, w)) :
    All2 (fun p n => n.id = p.1 ∧ NodeData m p n) m.preds raw.nodes ∧
    RawJust m (fun s r t => (BVJust s r t ∨ ArgJust m s r t) ∨ J2 s r t) raw.nodes ∧
    (∀ t, raw.top = some t → ∃ p ∈ m.preds, p.1 = t) := by
  obtain ⟨reps, hreps, hwith⟩ := fromMrsRaw_decomp h
  have hr := representatives_repsOK hreps
  obtain ⟨top, _, deps, _, nodes, addl, htop, h2, h3, h4, h5, hetop, _⟩ := fromMrsWith_decomp hwith
  have hN := nodes_spec hnr h3
  have hN' : All2 (fun p n => n.id = p.1 ∧ NodeData m p n) m.preds nodes :=
    hN.imp (fun _ _ _ _ ⟨a, _, c⟩ => ⟨a, c⟩)
  have hJ := nodes_rawjust hid (basicDeps_ok hr hnr h2) hN
  obtain ⟨hA, hB⟩ := rawjust_add_gen hid (hadd reps nodes addl hr h4) hN' hJ (applyAddl_spec _ _ _ h5)
  refine ⟨hA, hB, ?_⟩
  intro t ht
  rw [hetop] at ht
  subst ht
  exact getTop_spec hr htop

theorem fromMrs_spec_gen {pm : PM} {uniq : Bool} {m : MRS} (hid : m.ids.Nodup) (hnr : NoReserved m)
    {J2 : Pred → Role → Pred → Prop}
    (hadd : ∀ reps nodes addl, RepsOK m reps → addlOf pm m reps nodes = .ok addl → AddlJ m J2 addl)
    {e : EDS} {w : List Warn} (h : fromMrs pm uniq m = .ok (e, w)) :
    Justified m (fun s r t => (BVJust s r t ∨ ArgJust m s r t) ∨ J2 s r t) e.nodes ∧
    (∀ t, e.top = some t → ∃ pn ∈ m.preds.zip e.nodes, pn.2.id = t) := by
  cases uniq with
  | false =>
    obtain ⟨hN, hJ, hT⟩ := fromMrsRaw_gen hid hnr hadd (fromMrs_false_decomp h)
    refine ⟨justified_of_raw hN hJ, ?_⟩
    intro t ht
    obtain ⟨p, hp, hpt⟩ := hT t ht
    obtain ⟨n, _, hz, hn⟩ := hN.mem_right p hp
    exact ⟨(p, n), hz, by rw [hn.1]; exact hpt⟩
  | true =>
    obtain ⟨raw, hraw, htop, hnodes⟩ := fromMrs_true_decomp h
    obtain ⟨hN, hJ, hT⟩ := fromMrsRaw_gen hid hnr hadd hraw
    obtain ⟨hA, hJ'⟩ := renamed_justified hN hJ hnodes
    refine ⟨hJ', ?_⟩
    intro t' ht'
    cases hrt : raw.top with
    | none => rw [hrt, ht'] at htop; simp [renameTop] at htop
    | some t =>
      rw [hrt, ht'] at htop
      have hren := renameTop_spec htop
      obtain ⟨p, hp, hpt⟩ := hT t hrt
      obtain ⟨n, _, hz, hn, _⟩ := hA.mem_right p hp
      refine ⟨(p, n), hz, ?_⟩
      rw [hpt, hren] at hn
      simp only [Except.ok.injEq] at hn
      exact hn.symm

/-! ### a missing top is always announced by a warning -/

theorem getTop_none {m : MRS} {reps : Reps} {w : List Warn} (h : getTop m reps = .ok (none, w)) :
    Warn.noTop ∈ w := by
  have key : ∀ {ps : List Pred} {w' : List Warn}, topOf ps w' = .ok (none, w) → False := by
    intro ps w' ht
    unfold topOf at ht
    split at ht <;> simp at ht
  unfold getTop at h
  dsimp only at h
  split at h
  · exact (key h).elim
  · split at h
    · exact (key h).elim
    · split at h
      · split at h
        · exact (key h).elim
        · simp only [Except.ok.injEq, Prod.mk.injEq, true_and] at h
          rw [← h]; simp
      · simp only [Except.ok.injEq, Prod.mk.injEq, true_and] at h
        rw [← h]; simp

/-- for every configuration: a result without top carries the warning 'unable to find a suitable TOP' -/
theorem fromMrs_top_none {pm : PM} {uniq : Bool} {m : MRS} {e : EDS} {w : List Warn}
    (h : fromMrs pm uniq m = .ok (e, w)) (hnone : e.top = none) : Warn.noTop ∈ w := by
  have hraw : ∀ {raw : EDS}, fromMrsRaw pm m = .ok (raw, w) → raw.top = none → Warn.noTop ∈ w := by
    intro raw hr hn
    obtain ⟨reps, _, hwith⟩ := fromMrsRaw_decomp hr
    obtain ⟨top, w1, _, w2, _, _, htop, _, _, _, _, hetop, hw⟩ := fromMrsWith_decomp hwith
    rw [hetop] at hn
    subst hn
    rw [hw]
    exact List.mem_append_left _ (getTop_none htop)
  cases uniq with
  | false => exact hraw (fromMrs_false_decomp h) hnone
  | true =>
    obtain ⟨raw, hr, htop, _⟩ := fromMrs_true_decomp h
    apply hraw hr
    cases hrt : raw.top with
    | none => rfl
    | some t =>
      rw [hrt, hnone] at htop
      simp only [renameTop] at htop
      split at htop <;> simp at htop

end Verif.C05
