/- C05 line-protocol driver: `lake env lean --run Verif/C05/Driver.lean` -/
import Verif.Common.Proto
import Verif.Common.SemJson
import Verif.C05.Api
open Lean Verif.Proto Verif.Sem Verif.Sem.J Verif.C05

namespace Verif.C05.Driver

def jEdge (e : Role × Var) : Json := Json.arr #[Json.str e.1, jVar e.2]

def jENode (n : ENode) : Json := Json.mkObj [
  ("id", jVar n.id), ("pred", Json.str n.predicate), ("type", jOpt Json.str n.type),
  ("edges", jList jEdge n.edges), ("props", jList jStrPair n.properties),
  ("carg", jOpt Json.str n.carg), ("lnk", jOpt jLnk n.lnk),
  ("surface", jOpt Json.str n.surface), ("base", jOpt Json.str n.base)]

def warnTag : Warn → String
  | .brokenHcons => "broken_hcons"
  | .noTop => "no_top"

def errTagE : E → String
  | .indexError => "IndexError"
  | .keyError => "KeyError"
  | .sem e => errTag e

def ofEdge (j : Json) : Except String (Role × Var) := do
  match (← j.getArr?).toList with
  | [r, v] => pure (← r.getStr?, ← ofVar v)
  | _ => throw "bad edge"

def ofAddlEntry (j : Json) : Except String (Var × List (Role × Var)) := do
  match (← j.getArr?).toList with
  | [s, es] => pure (← ofVar s, ← (← es.getArr?).toList.mapM ofEdge)
  | _ => throw "bad addl entry"

/-- the `predicate_modifiers` argument: "std" (`True`), "off" (a falsy value), a constant mapping, or
one of the named user functions of `Api.lean` ("fn:std" is `eds.find_predicate_modifiers` itself) -/
def ofPM (j : Json) : Except String PMArg :=
  match j with
  | Json.str "off" => pure (.bool false)
  | Json.str "std" => pure (.bool true)
  | Json.str "fn:std" => pure (.fn (fun e m r => findPM e m (some r)))
  | Json.str "fn:isolated" => pure (.fn ufIsolated)
  | Json.str "fn:reps" => pure (.fn ufReps)
  | Json.str "fn:raise" => pure (.fn ufRaise)
  | Json.str s => throw s!"bad pm {s}"
  | _ => do
    let a ← (← (← j.getObjVal? "custom").getArr?).toList.mapM ofAddlEntry
    pure (.fn (fun _ _ _ => .ok a))

/-- the `representative_priority` argument -/
def ofKey (m : MRS) (s : String) : Except String (Option Key) :=
  match s with
  | "default" => pure none
  | "reverse" => pure (some (keyReverse m))
  | "const" => pure (some keyConst)
  | "predlen" => pure (some (keyPredLen m))
  | _ => throw s!"bad prio {s}"

def ofDoc (j : Json) : Except String Doc := do
  pure { lnk := ← fieldOpt ofLnk j "lnk",
         surface := ← fieldOpt (fun x => x.getStr?) j "surface",
         identifier := ← fieldOpt (fun x => x.getStr?) j "identifier" }

def jDoc (d : Doc) : Json := Json.mkObj [
  ("lnk", jOpt jLnk d.lnk), ("surface", jOpt Json.str d.surface), ("identifier", jOpt Json.str d.identifier)]

def jAddl (a : EdgeMap) : Json :=
  jList (fun (x : Var × List (Role × Var)) => Json.arr #[jVar x.1, jList jEdge x.2]) a

def jResult (m : MRS) (d : Doc) (e : EDS) (w : List Warn) : Json :=
  jOk (Json.mkObj [
    ("ids", jList jVar m.ids),
    ("top", jOpt jVar e.top),
    ("nodes", jList jENode e.nodes),
    ("warnings", jList (fun x => Json.str (warnTag x)) w),
    ("doc", jDoc d)])

def handleOne (m : MRS) (d : Doc) (c : Json) : Except String Json := do
  let pm ← ofPM (← c.getObjVal? "pm")
  let uniq ← getBool c "uniq"
  let key ← ofKey m ((c.getObjVal? "prio" >>= Json.getStr?).toOption.getD "default")
  let path := (c.getObjVal? "path" >>= Json.getStr?).toOption.getD "direct"
  if !m.idsDistinct then
    return Json.mkObj [("unmodelled", Json.str "dup_ids"), ("ids", jList jVar m.ids)]
  match path with
  | "findpm" =>
    -- `e = from_mrs(m, False, False, key); find_predicate_modifiers(e, m)` and the same call with
    -- `representatives=scope.representatives(m, priority=key)`
    match fromMrsApi (.bool false) false key m with
    | .error e => pure (jErr (errTagE e))
    | .ok (e0, _) =>
      match findPM e0 m none, representativesK m key with
      | .error e, _ => pure (jErr (errTagE e))
      | _, .error e => pure (jErr (errTag e))
      | .ok a, .ok reps =>
        match findPM e0 m (some reps) with
        | .error e => pure (jErr (errTagE e))
        | .ok a2 => pure (jOk (Json.mkObj [("ids", jList jVar m.ids), ("addl", jAddl a), ("addl_reps", jAddl a2)]))
  | "staged" =>
    match stagedApi false key m with
    | .error e => pure (jErr (errTagE e))
    | .ok (raw, _) =>
      if uniq && !idOrderDetermined m raw.nodes then
        return Json.mkObj [("unmodelled", Json.str "set_order"), ("ids", jList jVar m.ids)]
      match stagedApi uniq key m with
      | .error e => pure (jErr (errTagE e))
      | .ok (e, w) => pure (jResult m d e w)
  | "mkuniq" =>
    -- `make_ids_unique` on its own, on a graph EDITED after `from_mrs(m, pm, False, key)`: extra edges
    -- between nodes (by position) and another top
    match fromMrsApi pm false key m with
    | .error e => pure (jErr (errTagE e))
    | .ok (e0, w) =>
      let extra ← (← getArr c "extra").mapM (fun x => do
        match (← x.getArr?).toList with
        | [s, r, t] => pure ((← s.getNat?), (← r.getStr?), (← t.getNat?))
        | _ => throw "bad extra edge")
      let idAt := fun (k : Nat) => ((e0.nodes.drop k).head?.map (·.id)).getD ⟨"?", 0⟩
      let nodes := extra.foldl (fun (ns : List ENode) (x : Nat × String × Nat) =>
        ns.zipIdx.map (fun ni => if ni.2 == x.1 then { ni.1 with edges := dset x.2.1 (idAt x.2.2) ni.1.edges } else ni.1))
        e0.nodes
      let top ← match c.getObjVal? "top" with
        | .ok (Json.str "keep") => pure e0.top
        | .ok Json.null => pure none
        | .ok j => do pure (some (idAt (← j.getNat?)))
        | .error _ => pure e0.top
      let e1 : EDS := { top := top, nodes := nodes }
      if !idOrderDetermined m e1.nodes then
        return Json.mkObj [("unmodelled", Json.str "set_order"), ("ids", jList jVar m.ids)]
      match makeIdsUnique m e1 with
      | .error e => pure (jErr (errTagE e))
      | .ok e2 => pure (jResult m d e2 w)
  | "direct" =>
    match fromMrsApi pm false key m with
    | .error e => pure (jErr (errTagE e))
    | .ok (raw, _) =>
      if uniq && !idOrderDetermined m raw.nodes then
        return Json.mkObj [("unmodelled", Json.str "set_order"), ("ids", jList jVar m.ids)]
      match fromMrsDoc pm uniq key d m with
      | .error e => pure (jErr (errTagE e))
      | .ok (e, d', w) => pure (jResult m d' e w)
  | _ => throw s!"bad path {path}"

def handle (j : Json) : Except String Json := do
  let op ← getStr j "op"
  if op != "from_mrs" then throw s!"bad op {op}"
  let m ← ofMRS (← j.getObjVal? "m")
  let d ← match j.getObjVal? "doc" with
    | .ok jd => ofDoc jd
    | .error _ => pure {}
  let cfgs ← getArr j "configs"
  let answers ← cfgs.mapM (handleOne m d)
  -- "convert – edit in place – convert again": the same configurations on the edited content
  match j.getObjVal? "m2" with
  | .ok j2 =>
    let m2 ← ofMRS j2
    let answers2 ← cfgs.mapM (handleOne m2 d)
    pure (Json.arr (answers ++ answers2).toArray)
  | .error _ => pure (Json.arr answers.toArray)

end Verif.C05.Driver

def main : IO Unit := Verif.Proto.serve Verif.C05.Driver.handle
