/- C05 line-protocol driver: `lake env lean --run Verif/C05/Driver.lean` -/
import Verif.Common.Proto
import Verif.Common.SemJson
import Verif.C05.Model
open Lean Verif.Proto Verif.Sem Verif.Sem.J Verif.C05

namespace Verif.C05.Driver

def jEdge (e : Role × Var) : Json := Json.arr #[Json.str e.1, jVar e.2]

def jENode (n : ENode) : Json := Json.mkObj [
  ("id", jVar n.id), ("pred", Json.str n.predicate), ("type", jOpt Json.str n.type),
  ("edges", jList jEdge n.edges), ("props", jList jStrPair n.properties),
  ("carg", jOpt Json.str n.carg), ("lnk", jOpt jLnk n.lnk),
  ("surface", jOpt Json.str n.surface), ("base", jOpt Json.str n.base)]

def warnTag : Warn → String
  | .brokenHcons => "broken_hcons"
  | .noTop => "no_top"

def errTagE : E → String
  | .indexError => "IndexError"
  | .keyError => "KeyError"
  | .sem e => errTag e

def ofEdge (j : Json) : Except String (Role × Var) := do
  match (← j.getArr?).toList with
  | [r, v] => pure (← r.getStr?, ← ofVar v)
  | _ => throw "bad edge"

def ofAddlEntry (j : Json) : Except String (Var × List (Role × Var)) := do
  match (← j.getArr?).toList with
  | [s, es] => pure (← ofVar s, ← (← es.getArr?).toList.mapM ofEdge)
  | _ => throw "bad addl entry"

def ofPM (j : Json) : Except String PM :=
  match j with
  | Json.str "off" => pure .off
  | Json.str "std" => pure .std
  | _ => do
    let a ← (← (← j.getObjVal? "custom").getArr?).toList.mapM ofAddlEntry
    pure (.custom a)

def handleOne (m : MRS) (c : Json) : Except String Json := do
  let pm ← ofPM (← c.getObjVal? "pm")
  let uniq ← getBool c "uniq"
  if !m.idsDistinct then
    return Json.mkObj [("unmodelled", Json.str "dup_ids"), ("ids", jList jVar m.ids)]
  match fromMrsRaw pm m with
  | .error e => pure (jErr (errTagE e))
  | .ok (raw, _) =>
    if uniq && !idOrderDetermined m raw.nodes then
      return Json.mkObj [("unmodelled", Json.str "set_order"), ("ids", jList jVar m.ids)]
    match fromMrs pm uniq m with
    | .error e => pure (jErr (errTagE e))
    | .ok (e, w) =>
      pure (jOk (Json.mkObj [
        ("ids", jList jVar m.ids),
        ("top", jOpt jVar e.top),
        ("nodes", jList jENode e.nodes),
        ("warnings", jList (fun x => Json.str (warnTag x)) w)]))

def handle (j : Json) : Except String Json := do
  let op ← getStr j "op"
  if op != "from_mrs" then throw s!"bad op {op}"
  let m ← ofMRS (← j.getObjVal? "m")
  let cfgs ← getArr j "configs"
  let answers ← cfgs.mapM (handleOne m)
  -- "convert – edit in place – convert again": the same configurations on the edited content
  match j.getObjVal? "m2" with
  | .ok j2 =>
    let m2 ← ofMRS j2
    let answers2 ← cfgs.mapM (handleOne m2)
    pure (Json.arr (answers ++ answers2).toArray)
  | .error _ => pure (Json.arr answers.toArray)

end Verif.C05.Driver

def main : IO Unit := Verif.Proto.serve Verif.C05.Driver.handle
