/-
C05 — helper lemmas for the property theorems of `Props.lean`.
Core Lean only.
-/
import Verif.C05.Model
import Verif.Common.SemLemmas
import Verif.C07.WfLemmas

namespace Verif.C05
open Verif.Sem

/-! ### position-wise relation of two lists -/

inductive All2 {α β : Type} (R : α → β → Prop) : List α → List β → Prop
  | nil : All2 R [] []
  | cons {a : α} {b : β} {as : List α} {bs : List β} : R a b → All2 R as bs → All2 R (a :: as) (b :: bs)

theorem All2.length_eq {α β : Type} {R : α → β → Prop} {l : List α} {l' : List β}
    (h : All2 R l l') : l.length = l'.length := by
  induction h with
  | nil => rfl
  | cons _ _ ih => simp [ih]

theorem All2.imp {α β : Type} {R S : α → β → Prop} {l : List α} {l' : List β}
    (h : All2 R l l') (hi : ∀ a b, a ∈ l → b ∈ l' → R a b → S a b) : All2 S l l' := by
  induction h with
  | nil => exact All2.nil
  | cons hr _ ih =>
    exact All2.cons (hi _ _ List.mem_cons_self List.mem_cons_self hr)
      (ih (fun a b ha hb => hi a b (List.mem_cons_of_mem _ ha) (List.mem_cons_of_mem _ hb)))

theorem All2.comp {α β γ : Type} {R : α → β → Prop} {S : β → γ → Prop} {T : α → γ → Prop}
    {l : List α} {l' : List β} {l'' : List γ}
    (h : All2 R l l') (h' : All2 S l' l'') (hi : ∀ a b c, R a b → S b c → T a c) : All2 T l l'' := by
  induction h generalizing l'' with
  | nil => cases h'; exact All2.nil
  | cons hr _ ih =>
    cases h' with
    | cons hs hrest => exact All2.cons (hi _ _ _ hr hs) (ih hrest)

theorem All2.of_zip {α β : Type} {R : α → β → Prop} {l : List α} {l' : List β}
    (h : All2 R l l') : ∀ x ∈ l.zip l', R x.1 x.2 := by
  induction h with
  | nil => intro x hx; simp at hx
  | cons hr _ ih =>
    intro x hx
    simp only [List.zip_cons_cons, List.mem_cons] at hx
    rcases hx with rfl | hx
    · exact hr
    · exact ih x hx

theorem All2.map_right {α β : Type} (f : α → β) (l : List α) : All2 (fun a b => b = f a) l (l.map f) := by
  induction l with
  | nil => exact All2.nil
  | cons a as ih => exact All2.cons rfl ih

theorem All2.refl_of {α : Type} {R : α → α → Prop} {l : List α} (h : ∀ a ∈ l, R a a) : All2 R l l := by
  induction l with
  | nil => exact All2.nil
  | cons a as ih =>
    exact All2.cons (h a List.mem_cons_self) (ih (fun b hb => h b (List.mem_cons_of_mem _ hb)))

theorem All2.mem_left {α β : Type} {R : α → β → Prop} {l : List α} {l' : List β}
    (h : All2 R l l') : ∀ b ∈ l', ∃ a ∈ l, (a, b) ∈ l.zip l' ∧ R a b := by
  induction h with
  | nil => intro b hb; simp at hb
  | cons hr _ ih =>
    intro b hb
    rcases List.mem_cons.1 hb with rfl | hb
    · exact ⟨_, List.mem_cons_self, by simp, hr⟩
    · obtain ⟨a, ha, hz, hR⟩ := ih b hb
      exact ⟨a, List.mem_cons_of_mem _ ha, by simp [hz], hR⟩

/-! ### the two loop combinators -/

theorem mapE_forall₂ {α β : Type} {f : α → Except E β} :
    ∀ {l : List α} {l' : List β}, mapE f l = .ok l' → All2 (fun a b => f a = .ok b) l l' := by
  intro l
  induction l with
  | nil =>
    intro l' h
    simp only [mapE, Except.ok.injEq] at h
    subst h; exact All2.nil
  | cons a as ih =>
    intro l' h
    unfold mapE at h
    split at h
    · exact absurd h (by simp)
    · rename_i b hb
      split at h
      · exact absurd h (by simp)
      · rename_i bs hbs
        simp only [Except.ok.injEq] at h
        subst h
        exact All2.cons hb (ih hbs)

/-- loop invariant rule for `foldE` -/
theorem foldE_inv {α β : Type} {f : β → α → Except E β} (P : β → Prop) :
    ∀ (l : List α) (b0 b : β),
      (∀ b a b', P b → a ∈ l → f b a = .ok b' → P b') → P b0 → foldE f b0 l = .ok b → P b := by
  intro l
  induction l with
  | nil =>
    intro b0 b _ h0 h
    simp only [foldE, Except.ok.injEq] at h
    subst h; exact h0
  | cons a as ih =>
    intro b0 b hstep h0 h
    unfold foldE at h
    split at h
    · exact absurd h (by simp)
    · rename_i b' hb'
      exact ih b' b (fun b a b'' hP ha hf => hstep b a b'' hP (List.mem_cons_of_mem _ ha) hf)
        (hstep b0 a b' h0 List.mem_cons_self hb') h

/-! ### dictionaries -/

theorem mem_dset {κ ν : Type} [DecidableEq κ] {k : κ} {v : ν} {d : List (κ × ν)} {x : κ × ν} :
    x ∈ dset k v d → x = (k, v) ∨ x ∈ d := by
  induction d with
  | nil => intro h; simp only [dset, List.mem_singleton] at h; exact Or.inl h
  | cons a d ih =>
    obtain ⟨k', v'⟩ := a
    unfold dset
    split
    · rename_i hk
      intro h
      rcases List.mem_cons.1 h with h | h
      · left; rw [h, hk]
      · right; exact List.mem_cons_of_mem _ h
    · intro h
      rcases List.mem_cons.1 h with h | h
      · right; rw [h]; exact List.mem_cons_self
      · rcases ih h with h | h
        · exact Or.inl h
        · exact Or.inr (List.mem_cons_of_mem _ h)

theorem mem_find?_reverse {α : Type} {p : α → Bool} {l : List α} {a : α}
    (h : l.reverse.find? p = some a) : a ∈ l ∧ p a = true := by
  have h1 := List.mem_of_find?_eq_some h
  have h2 := List.find?_some h
  exact ⟨List.mem_reverse.1 h1, h2⟩

/-! ### what the lookups of `from_mrs` return -/

theorem hcLast_spec {m : MRS} {v : Var} {hc : HCons} (h : m.hcLast v = some hc) :
    hc ∈ m.hcons ∧ hc.hi = v := by
  unfold MRS.hcLast at h
  obtain ⟨h1, h2⟩ := mem_find?_reverse h
  exact ⟨h1, by simpa using h2⟩

theorem lastNonQuant_spec {m : MRS} {k : Option Var} {p : Pred} (h : lastNonQuant m k = some p) :
    p ∈ m.preds ∧ p.2.isQuantifier = false ∧ p.2.iv = k := by
  unfold lastNonQuant at h
  obtain ⟨h1, h2⟩ := mem_find?_reverse h
  simp only [Bool.and_eq_true, Bool.not_eq_true', beq_iff_eq] at h2
  exact ⟨h1, h2.1, h2.2⟩

theorem lastQuant_spec {m : MRS} {k : Option Var} {p : Pred} (h : lastQuant m k = some p) :
    p ∈ m.preds ∧ p.2.isQuantifier = true ∧ p.2.iv = k := by
  unfold lastQuant at h
  obtain ⟨h1, h2⟩ := mem_find?_reverse h
  simp only [Bool.and_eq_true, beq_iff_eq] at h2
  exact ⟨h1, h2.1, h2.2⟩

theorem firstRep_spec {ps : List Pred} {t : Var} (h : firstRep ps = .ok t) :
    ∃ p rest, ps = p :: rest ∧ p.1 = t := by
  cases ps with
  | nil => simp [firstRep] at h
  | cons p rest =>
    simp only [firstRep, Except.ok.injEq] at h
    exact ⟨p, rest, rfl, h⟩

/-- every listed representative of a scope is a predication of the MRS carrying that label -/
def RepsOK (m : MRS) (reps : Reps) : Prop :=
  ∀ l ps, (l, ps) ∈ reps → ∀ p ∈ ps, p ∈ m.preds ∧ p.2.label = l

theorem representatives_repsOK {m : MRS} {reps : Reps} (h : m.representatives = .ok reps) :
    RepsOK m reps := by
  unfold MRS.representatives at h
  split at h
  · exact absurd h (by simp)
  · rename_i descs _
    simp only [Except.ok.injEq] at h
    subst h
    intro l ps hmem p hp
    unfold representativesOf at hmem
    obtain ⟨s, hs, heq⟩ := List.mem_map.1 hmem
    simp only [Prod.mk.injEq] at heq
    obtain ⟨rfl, rfl⟩ := heq
    have hp2 := candidates_subset _ _ _ _ _ ((mem_sortBy _ _ _).1 hp)
    have hsm := (mem_scopeMap m s.1 s.2).1 hs
    rw [hsm.1] at hp2
    obtain ⟨h1, h2⟩ := List.mem_filter.1 hp2
    exact ⟨h1, by simpa using h2⟩

theorem representatives_keys {m : MRS} {reps : Reps} (h : m.representatives = .ok reps) :
    dkeys reps = dkeys m.scopeMap := by
  unfold MRS.representatives at h
  split at h
  · exact absurd h (by simp)
  · simp only [Except.ok.injEq] at h
    subst h
    simp [representativesOf, dkeys, List.map_map, Function.comp_def]

theorem firstRep_of_reps {m : MRS} {reps : Reps} (hr : RepsOK m reps) {l : Var} {ps : List Pred}
    {t : Var} (hl : dlookup l reps = some ps) (ht : firstRep ps = .ok t) :
    ∃ p ∈ m.preds, p.1 = t ∧ p.2.label = l ∧ p ∈ ps := by
  obtain ⟨p, rest, rfl, hp⟩ := firstRep_spec ht
  obtain ⟨h1, h2⟩ := hr l _ (dlookup_mem hl) p List.mem_cons_self
  exact ⟨p, h1, hp, h2, List.mem_cons_self⟩


/-! ### EP ids -/

theorem All2.of_map_right {α β γ : Type} {R : α → γ → Prop} (f : β → γ) :
    ∀ {xs : List α} {ys : List β}, All2 R xs (ys.map f) → All2 (fun x y => R x (f y)) xs ys := by
  intro xs ys
  induction ys generalizing xs with
  | nil => intro h; cases h; exact All2.nil
  | cons y ys ih =>
    intro h
    cases h with
    | cons hr hrest => exact All2.cons hr (ih hrest)

theorem All2.mem_right {α β : Type} {R : α → β → Prop} {l : List α} {l' : List β}
    (h : All2 R l l') : ∀ a ∈ l, ∃ b ∈ l', (a, b) ∈ l.zip l' ∧ R a b := by
  induction h with
  | nil => intro a ha; simp at ha
  | cons hr _ ih =>
    intro a ha
    rcases List.mem_cons.1 ha with rfl | ha
    · exact ⟨_, List.mem_cons_self, by simp, hr⟩
    · obtain ⟨b, hb, hz, hR⟩ := ih a ha
      exact ⟨b, List.mem_cons_of_mem _ hb, by simp [hz], hR⟩

theorem uniquify_all2 (n : Nat) (seen l : List Var) :
    All2 (fun i b => i = b ∨ i.sort = "_") (uniquify n seen l) l := by
  induction l generalizing n seen with
  | nil => exact All2.nil
  | cons i is ih =>
    unfold uniquify
    split
    · exact All2.cons (Or.inr rfl) (ih _ _)
    · exact All2.cons (Or.inl rfl) (ih _ _)

/-- an EP id is the id given by `EP.__init__` or one made by `_uniquify_ids` -/
theorem preds_id_cases (m : MRS) (p : Pred) (hp : p ∈ m.preds) :
    p.1 = p.2.baseId ∨ p.1.sort = "_" := by
  have h := All2.of_map_right EP.baseId (uniquify_all2 (maxVid m.rels) [] (m.rels.map EP.baseId))
  exact h.of_zip p hp

theorem mem_rels_of_mem_preds (m : MRS) (p : Pred) (hp : p ∈ m.preds) : p.2 ∈ m.rels := by
  rw [← preds_map_snd m]
  exact List.mem_map.2 ⟨p, hp, rfl⟩

/-- no intrinsic variable has one of the sorts `_` / `q` which the id generators use
("no variable is itself of the form `_k`") -/
def NoReserved (m : MRS) : Prop :=
  ∀ ep ∈ m.rels, ∀ v, ep.iv = some v → v.sort ≠ "_" ∧ v.sort ≠ "q"

/-- an EP whose id has an ordinary sort is a non-quantifier whose ARG0 is that id -/
theorem pred_of_plain_id (m : MRS) (p : Pred) (hp : p ∈ m.preds)
    (h1 : p.1.sort ≠ "_") (h2 : p.1.sort ≠ "q") :
    p.2.isQuantifier = false ∧ p.2.iv = some p.1 := by
  rcases preds_id_cases m p hp with h | h
  · unfold EP.baseId at h
    by_cases hq : p.2.isQuantifier = true
    · rw [if_pos hq] at h
      rw [h] at h2
      exact absurd rfl h2
    · rw [if_neg hq] at h
      refine ⟨by simpa using hq, ?_⟩
      cases hiv : p.2.iv with
      | none => rw [hiv] at h; simp only [Option.getD_none] at h; rw [h] at h1; exact absurd rfl h1
      | some v => rw [hiv] at h; simp only [Option.getD_some] at h; rw [h]
  · exact absurd h h1

theorem pred_eq_of_id_eq {m : MRS} (hid : m.ids.Nodup) {s p : Pred}
    (hs : s ∈ m.preds) (hp : p ∈ m.preds) (h : s.1 = p.1) : s = p := by
  rw [← preds_map_fst m] at hid
  generalize m.preds = l at hid hs hp
  induction l with
  | nil => exact absurd hs List.not_mem_nil
  | cons a as ih =>
    simp only [List.map_cons, List.nodup_cons, List.mem_map, not_exists, not_and] at hid
    rcases List.mem_cons.1 hs with rfl | hs' <;> rcases List.mem_cons.1 hp with rfl | hp'
    · rfl
    · exact absurd h.symm (hid.1 p hp')
    · exact absurd h (hid.1 s hs')
    · exact ih hid.2 hs' hp'

/-! ### justification of edges (specification vocabulary) -/

/-- "a quantifier has … \[a\] bound-variable edge to the predication it quantifies" -/
def BVJust (s : Pred) (role : Role) (t : Pred) : Prop :=
  role = BV_ROLE ∧ s.2.isQuantifier = true ∧ t.2.isQuantifier = false ∧
  t.2.iv.isSome = true ∧ s.2.iv = t.2.iv

/-- "corresponds to an argument with that role whose value is the target's intrinsic variable or
selects the target's scope" (directly as a label, or through a handle constraint) -/
def ArgJust (m : MRS) (s : Pred) (role : Role) (t : Pred) : Prop :=
  ∃ v, (role, v) ∈ s.2.args ∧ role ≠ INTRINSIC_ROLE ∧
    ((t.2.isQuantifier = false ∧ t.2.iv = some v) ∨ t.2.label = v ∨
     ∃ hc ∈ m.hcons, hc.hi = v ∧ hc.lo = t.2.label)

/-- the target conditions of `ArgJust` for an argument value `v` -/
def Refers (m : MRS) (v : Var) (t : Pred) : Prop :=
  (t.2.isQuantifier = false ∧ t.2.iv = some v) ∨ t.2.label = v ∨
  ∃ hc ∈ m.hcons, hc.hi = v ∧ hc.lo = t.2.label

theorem resolveArg_spec {m : MRS} {reps : Reps} (hr : RepsOK m reps) {v t : Var}
    (h : resolveArg m reps v = .ok (.edge t)) : ∃ p ∈ m.preds, p.1 = t ∧ Refers m v p := by
  unfold resolveArg at h
  split at h
  · rename_i hc hhc
    obtain ⟨hmem, hhi⟩ := hcLast_spec hhc
    split at h
    · rename_i ps hps
      unfold resolveRep at h
      split at h
      · exact absurd h (by simp)
      · rename_i t' ht'
        simp only [Except.ok.injEq, Res.edge.injEq] at h
        subst h
        obtain ⟨p, hp, hpt, hpl, _⟩ := firstRep_of_reps hr hps ht'
        exact ⟨p, hp, hpt, Or.inr (Or.inr ⟨hc, hmem, hhi, hpl.symm⟩)⟩
    · simp at h
  · split at h
    · rename_i ps hps
      unfold resolveRep at h
      split at h
      · exact absurd h (by simp)
      · rename_i t' ht'
        simp only [Except.ok.injEq, Res.edge.injEq] at h
        subst h
        obtain ⟨p, hp, hpt, hpl, _⟩ := firstRep_of_reps hr hps ht'
        exact ⟨p, hp, hpt, Or.inr (Or.inl hpl)⟩
    · split at h
      · rename_i p hp
        simp only [Except.ok.injEq, Res.edge.injEq] at h
        obtain ⟨h1, h2, h3⟩ := lastNonQuant_spec hp
        exact ⟨p, h1, h, Or.inl ⟨h2, h3⟩⟩
      · simp at h

theorem mem_outArgs {e : EP} {a : Role × Var} (h : a ∈ e.outArgs none) :
    a ∈ e.args ∧ a.1 ≠ INTRINSIC_ROLE := by
  unfold EP.outArgs at h
  obtain ⟨h1, h2⟩ := List.mem_filter.1 h
  simp only [Bool.and_true, Bool.and_eq_true, bne_iff_ne, ne_eq] at h2
  exact ⟨h1, h2.1⟩

/-- the inner loop of `_mrs_args_to_basic_deps` only records justified edges -/
theorem depStep_fold_spec {m : MRS} {reps : Reps} (hr : RepsOK m reps) (p : Pred)
    (w0 : List Warn) (es : List (Role × Var)) (w : List Warn)
    (h : foldE (depStep m reps) ([], w0) (p.2.outArgs none) = .ok (es, w)) :
    ∀ rt ∈ es, ∃ t ∈ m.preds, t.1 = rt.2 ∧ ArgJust m p rt.1 t := by
  have := foldE_inv (f := depStep m reps)
    (fun acc => ∀ rt ∈ acc.1, ∃ t ∈ m.preds, t.1 = rt.2 ∧ ArgJust m p rt.1 t)
    (p.2.outArgs none) ([], w0) (es, w)
    (by
      intro acc a acc' hacc ha hstep rt hrt
      unfold depStep at hstep
      split at hstep
      · exact absurd hstep (by simp)
      · rename_i t ht
        simp only [Except.ok.injEq] at hstep
        subst hstep
        rcases mem_dset hrt with rfl | hold
        · obtain ⟨q, hq, hqt, href⟩ := resolveArg_spec hr ht
          obtain ⟨ha1, ha2⟩ := mem_outArgs ha
          exact ⟨q, hq, hqt, a.2, ha1, ha2, href⟩
        · exact hacc rt hold
      · simp only [Except.ok.injEq] at hstep
        subst hstep
        exact hacc rt hrt
      · simp only [Except.ok.injEq] at hstep
        subst hstep
        exact hacc rt hrt)
    (by intro rt hrt; simp at hrt) h
  exact this

/-- every entry of the dependency map is keyed by an EP id and holds justified edges only -/
def DepsOK (m : MRS) (d : EdgeMap) : Prop :=
  ∀ k es, (k, es) ∈ d → ∀ rt ∈ es, ∃ s ∈ m.preds, ∃ t ∈ m.preds,
    s.1 = k ∧ t.1 = rt.2 ∧ (BVJust s rt.1 t ∨ ArgJust m s rt.1 t)

theorem basicDeps_ok {m : MRS} {reps : Reps} (hr : RepsOK m reps) (hnr : NoReserved m)
    {d : EdgeMap} {w : List Warn} (h : basicDeps m reps = .ok (d, w)) : DepsOK m d := by
  unfold basicDeps at h
  refine foldE_inv (f := depsOfPred m reps) (fun acc => DepsOK m acc.1) m.preds ([], []) (d, w)
    ?_ (by intro k es hk; simp at hk) h
  intro acc p acc' hacc hp hstep
  unfold depsOfPred at hstep
  split at hstep
  · rename_i hiv
    split at hstep
    · exact absurd hstep (by simp)
    · rename_i es w' hes
      have hes' := depStep_fold_spec hr p acc.2 es w' hes
      have hd1 : DepsOK m (dset p.1 es acc.1) := by
        intro k es0 hk rt hrt
        rcases mem_dset hk with heq | hold
        · simp only [Prod.mk.injEq] at heq
          obtain ⟨rfl, rfl⟩ := heq
          obtain ⟨t, ht, htt, hj⟩ := hes' rt hrt
          exact ⟨p, hp, t, ht, rfl, htt, Or.inr hj⟩
        · exact hacc k es0 hold rt hrt
      split at hstep
      · rename_i q hq
        simp only [Except.ok.injEq] at hstep
        subst hstep
        intro k es0 hk rt hrt
        rcases mem_dset hk with heq | hold
        · simp only [Prod.mk.injEq] at heq
          obtain ⟨rfl, rfl⟩ := heq
          simp only [List.mem_singleton] at hrt
          subst hrt
          obtain ⟨hq1, hq2, hq3⟩ := lastQuant_spec hq
          -- the id of `p` is the ARG0 of some non-quantifier EP, hence of an ordinary sort
          obtain ⟨p', hp'⟩ := Option.isSome_iff_exists.1 hiv
          obtain ⟨hp'1, _, hp'3⟩ := lastNonQuant_spec hp'
          obtain ⟨hs1, hs2⟩ := hnr p'.2 (mem_rels_of_mem_preds m p' hp'1) p.1 hp'3
          obtain ⟨hpq, hpiv⟩ := pred_of_plain_id m p hp hs1 hs2
          exact ⟨q, hq1, p, hp, rfl, rfl, Or.inl ⟨rfl, hq2, hpq, by simp [hpiv], by rw [hq3, hpiv]⟩⟩
        · exact hd1 k es0 hold rt hrt
      · simp only [Except.ok.injEq] at hstep
        subst hstep
        exact hd1
  · simp only [Except.ok.injEq] at hstep
    subst hstep
    exact hacc


/-! ### nodes -/

/-- the data of a node other than its id and edges -/
def ENode.core (n : ENode) :
    String × Option String × Props × Option String × Option (Int × Int) × Option String × Option String :=
  (n.predicate, n.type, n.properties, n.carg, n.lnk, n.surface, n.base)

/-- "one node per predication … carrying its predicate, constant, alignment and the type and
properties of its intrinsic variable" (`None` / empty for a quantifier) -/
def NodeData (m : MRS) (p : Pred) (n : ENode) : Prop :=
  n.predicate = p.2.predicate ∧ n.carg = p.2.carg ∧ n.lnk = p.2.lnk ∧ n.surface = p.2.surface ∧
  n.base = p.2.base ∧
  (p.2.isQuantifier = true → n.type = none ∧ n.properties = []) ∧
  (p.2.isQuantifier = false → ∃ v, p.2.iv = some v ∧ n.type = some v.sort ∧ n.properties = m.props v)

theorem NodeData.of_core {m : MRS} {p : Pred} {n n' : ENode} (h : NodeData m p n)
    (hc : n'.core = n.core) : NodeData m p n' := by
  simp only [ENode.core, Prod.mk.injEq] at hc
  obtain ⟨h1, h2, h3, h4, h5, h6, h7⟩ := hc
  unfold NodeData at *
  rw [h1, h2, h3, h4, h5, h6, h7]
  exact h

theorem propertiesOf_plain {m : MRS} (hnr : NoReserved m) {p : Pred} (hp : p ∈ m.preds) {v : Var}
    (hv : p.2.iv = some v) {ps : Props} (h : propertiesOf m v = .ok ps) : ps = m.props v := by
  obtain ⟨hs1, hs2⟩ := hnr p.2 (mem_rels_of_mem_preds m p hp) v hv
  unfold propertiesOf at h
  split at h
  · exact absurd h (by simp)
  · rename_i p' hp'
    obtain ⟨hp'1, hp'2⟩ := mem_find?_reverse hp'
    have hid : p'.1 = v := by simpa using hp'2
    obtain ⟨_, hiv⟩ := pred_of_plain_id m p' hp'1 (by rw [hid]; exact hs1) (by rw [hid]; exact hs2)
    rw [hiv, hid] at h
    simp only [Except.ok.injEq] at h
    exact h.symm

theorem mkNode_spec {m : MRS} (hnr : NoReserved m) {deps : EdgeMap} {p : Pred} (hp : p ∈ m.preds)
    {n : ENode} (h : mkNode m deps p = .ok n) :
    n.id = p.1 ∧ n.edges = (dlookup p.1 deps).getD [] ∧ NodeData m p n := by
  unfold mkNode at h
  split at h
  · rename_i hq
    simp only [Except.ok.injEq] at h
    subst h
    refine ⟨rfl, rfl, rfl, rfl, rfl, rfl, rfl, fun _ => ⟨rfl, rfl⟩, fun hq' => ?_⟩
    rw [hq] at hq'; exact absurd hq' (by simp)
  · rename_i hq
    split at h
    · exact absurd h (by simp)
    · rename_i v hv
      split at h
      · exact absurd h (by simp)
      · rename_i props hprops
        simp only [Except.ok.injEq] at h
        subst h
        refine ⟨rfl, rfl, rfl, rfl, rfl, rfl, rfl, fun hq' => absurd hq' hq, fun _ => ?_⟩
        exact ⟨v, hv, rfl, propertiesOf_plain hnr hp hv hprops⟩

/-- every edge of every node ends at the node of a predication and is justified by `J`
(nodes and predications are matched by position) -/
def Justified (m : MRS) (J : Pred → Role → Pred → Prop) (nodes : List ENode) : Prop :=
  ∀ pn ∈ m.preds.zip nodes, ∀ rt ∈ pn.2.edges,
    ∃ qn ∈ m.preds.zip nodes, qn.2.id = rt.2 ∧ J pn.1 rt.1 qn.1

/-- the node list produced by `_mrs_to_nodes` -/
theorem nodes_spec {m : MRS} (hnr : NoReserved m) {deps : EdgeMap} {nodes : List ENode}
    (h : mapE (mkNode m deps) m.preds = .ok nodes) :
    All2 (fun p n => n.id = p.1 ∧ n.edges = (dlookup p.1 deps).getD [] ∧ NodeData m p n) m.preds nodes :=
  (mapE_forall₂ h).imp (fun _ _ ha _ hr => mkNode_spec hnr ha hr)

theorem nodes_justified {m : MRS} (hid : m.ids.Nodup) {deps : EdgeMap} (hd : DepsOK m deps)
    {nodes : List ENode}
    (h : All2 (fun p n => n.id = p.1 ∧ n.edges = (dlookup p.1 deps).getD []) m.preds nodes) :
    Justified m (fun s r t => BVJust s r t ∨ ArgJust m s r t) nodes := by
  intro pn hpn rt hrt
  obtain ⟨hpid, hpe⟩ := h.of_zip pn hpn
  rw [hpe] at hrt
  cases hl : dlookup pn.1.1 deps with
  | none => rw [hl] at hrt; simp at hrt
  | some es =>
    rw [hl] at hrt
    simp only [Option.getD_some] at hrt
    obtain ⟨s, hs, t, ht, hsk, htt, hj⟩ := hd _ _ (dlookup_mem hl) rt hrt
    have hp : pn.1 ∈ m.preds := (List.of_mem_zip hpn).1
    have hsp : s = pn.1 := pred_eq_of_id_eq hid hs hp hsk
    obtain ⟨nt, _, hz, hnt⟩ := h.mem_right t ht
    exact ⟨(t, nt), hz, by rw [hnt.1]; exact htt, by rw [← hsp]; exact hj⟩

/-! ### applying additional dependencies -/

theorem mem_updateEdges {es upd : List (Role × Var)} {rt : Role × Var}
    (h : rt ∈ updateEdges es upd) : rt ∈ es ∨ rt ∈ upd := by
  unfold updateEdges at h
  induction upd generalizing es with
  | nil => exact Or.inl h
  | cons u us ih =>
    simp only [List.foldl_cons] at h
    rcases ih h with h' | h'
    · rcases mem_dset h' with rfl | h''
      · exact Or.inr List.mem_cons_self
      · exact Or.inl h''
    · exact Or.inr (List.mem_cons_of_mem _ h')

/-- `n'` is `n` with some edges of `addl` (keyed by the id of `n`) added or overwritten -/
def AddRel (addl : EdgeMap) (n n' : ENode) : Prop :=
  n'.core = n.core ∧ n'.id = n.id ∧
  ∀ rt ∈ n'.edges, rt ∈ n.edges ∨ ∃ es, (n.id, es) ∈ addl ∧ rt ∈ es

theorem applyAddl_spec : ∀ (addl : EdgeMap) (nodes nodes' : List ENode),
    applyAddl addl nodes = .ok nodes' → All2 (AddRel addl) nodes nodes' := by
  intro addl
  induction addl with
  | nil =>
    intro nodes nodes' h
    simp only [applyAddl, foldE, Except.ok.injEq] at h
    subst h
    exact All2.refl_of (fun a _ => ⟨rfl, rfl, fun rt hrt => Or.inl hrt⟩)
  | cons entry rest ih =>
    intro nodes nodes' h
    unfold applyAddl foldE at h
    split at h
    · exact absurd h (by simp)
    · rename_i nodes1 h1
      have ih' := ih nodes1 nodes' h
      unfold applyAddlOne at h1
      split at h1
      · simp only [Except.ok.injEq] at h1
        subst h1
        have hstep := All2.map_right (fun n : ENode =>
          if n.id == entry.1 then { n with edges := updateEdges n.edges entry.2 } else n) nodes
        refine All2.comp hstep ih' ?_
        intro a b c hab hbc
        subst hab
        obtain ⟨hc1, hc2, hc3⟩ := hbc
        by_cases hk : (a.id == entry.1) = true
        · simp only [hk, if_true] at hc1 hc2 hc3
          refine ⟨hc1, hc2, fun rt hrt => ?_⟩
          rcases hc3 rt hrt with h' | ⟨es, hes, hrt'⟩
          · rcases mem_updateEdges h' with h'' | h''
            · exact Or.inl h''
            · refine Or.inr ⟨entry.2, ?_, h''⟩
              have : a.id = entry.1 := by simpa using hk
              rw [this]; exact List.mem_cons_self
          · exact Or.inr ⟨es, List.mem_cons_of_mem _ hes, hrt'⟩
        · simp only [hk] at hc1 hc2 hc3
          refine ⟨hc1, hc2, fun rt hrt => ?_⟩
          rcases hc3 rt hrt with h' | ⟨es, hes, hrt'⟩
          · exact Or.inl h'
          · exact Or.inr ⟨es, List.mem_cons_of_mem _ hes, hrt'⟩
      · exact absurd h1 (by simp)


/-! ### predicate modifiers -/

theorem ccOf_spec {comps : List (List Var)} {a : Var} {i : Nat} (h : ccOf comps a = .ok i) :
    ∃ hi : i < comps.length, a ∈ comps[i] := by
  unfold ccOf at h
  split at h
  · rename_i k hk
    simp only [Except.ok.injEq] at h
    subst h
    obtain ⟨hlt, hp, _⟩ := List.findIdx?_eq_some_iff_getElem.1 hk
    exact ⟨hlt, by simpa using hp⟩
  · exact absurd h (by simp)

/-- two ids with different component numbers are not connected in the dependency graph -/
theorem cc_ne_not_reach {nodes : List Var} {edges : List (Var × Var)} {comps : List (List Var)}
    (hc : connectedComponents nodes edges = .ok comps) (hnd : nodes.Nodup)
    {a b : Var} {i j : Nat} (ha : ccOf comps a = .ok i) (hb : ccOf comps b = .ok j) (hij : i ≠ j) :
    ¬ Reach (adjOf (symm edges)) a b := by
  intro hreach
  obtain ⟨_, hsp, _, hpw⟩ := connectedComponents_spec nodes edges comps hc
  have hpw' := List.pairwise_iff_getElem.1 (hpw hnd)
  obtain ⟨hi, hai⟩ := ccOf_spec ha
  obtain ⟨hj, hbj⟩ := ccOf_spec hb
  obtain ⟨n, _, _, hn⟩ := hsp comps[i] (List.getElem_mem hi)
  have hbi : b ∈ comps[i] := (hn b).2 (Reach.trans ((hn a).1 hai) hreach)
  rcases Nat.lt_or_gt_of_ne hij with hlt | hgt
  · exact hpw' i j hi hj hlt b hbi hbj
  · exact hpw' j i hj hi hgt b hbj hbi

/-- "a predicate-modifier edge between two predications sharing a scope that were otherwise
unconnected": the role is `ARG1`, the labels agree, and the two were not connected in the graph of
the dependencies `E` found so far -/
def PMJust (E : List (Var × Var)) (s : Pred) (role : Role) (t : Pred) : Prop :=
  role = PM_ROLE ∧ s.2.label = t.2.label ∧ ¬ Reach (adjOf (symm E)) s.1 t.1

def AddlOK (m : MRS) (E : List (Var × Var)) (addl : EdgeMap) : Prop :=
  ∀ k es, (k, es) ∈ addl → ∀ rt ∈ es, ∃ s ∈ m.preds, ∃ t ∈ m.preds,
    s.1 = k ∧ t.1 = rt.2 ∧ PMJust E s rt.1 t

theorem addEdge_ok {m : MRS} {E : List (Var × Var)} {addl : EdgeMap} (h : AddlOK m E addl)
    {s t : Pred} (hs : s ∈ m.preds) (ht : t ∈ m.preds) (hj : PMJust E s PM_ROLE t) :
    AddlOK m E (addEdge s.1 PM_ROLE t.1 addl) := by
  intro k es hk rt hrt
  unfold addEdge at hk
  rcases mem_dset hk with heq | hold
  · simp only [Prod.mk.injEq] at heq
    obtain ⟨rfl, rfl⟩ := heq
    rcases mem_dset hrt with rfl | hrt'
    · exact ⟨s, hs, t, ht, rfl, rfl, hj⟩
    · cases hl : dlookup s.1 addl with
      | none => rw [hl] at hrt'; simp at hrt'
      | some es0 =>
        rw [hl] at hrt'
        exact h _ _ (dlookup_mem hl) rt hrt'
  · exact h k es hold rt hrt

theorem pmScope_ok {m : MRS} {reps : Reps} (hr : RepsOK m reps) {comps : List (List Var)}
    {E : List (Var × Var)} (hc : connectedComponents m.ids E = .ok comps) (hid : m.ids.Nodup)
    {addl addl' : EdgeMap} {s : Var × List Pred} (hs : s ∈ reps) (h : AddlOK m E addl)
    (hstep : pmScope comps addl s = .ok addl') : AddlOK m E addl' := by
  unfold pmScope at hstep
  split at hstep
  · rename_i first other rest hps
    split at hstep
    · exact absurd hstep (by simp)
    · rename_i c0 hc0
      split at hstep
      · exact absurd hstep (by simp)
      · rename_i st hst
        simp only [Except.ok.injEq] at hstep
        subst hstep
        have hmem : ∀ p ∈ first :: other :: rest, p ∈ m.preds ∧ p.2.label = s.1 := by
          intro p hp
          exact hr s.1 s.2 hs p (by rw [hps]; exact hp)
        have hfirst := hmem first List.mem_cons_self
        have := foldE_inv (f := pmStep comps first) (fun st => c0 ∈ st.1 ∧ AddlOK m E st.2)
          (other :: rest) ([c0], addl) st
          (by
            intro st0 o st1 ⟨hj0, hok0⟩ ho hpm
            unfold pmStep at hpm
            split at hpm
            · exact absurd hpm (by simp)
            · rename_i occ hocc
              dsimp only at hpm
              split at hpm
              · rename_i hcond
                simp only [Except.ok.injEq] at hpm
                subst hpm
                refine ⟨List.mem_cons_of_mem _ hj0, ?_⟩
                have ho' := hmem o (List.mem_cons_of_mem _ ho)
                have hne : occ ≠ c0 := fun e => hcond.1 (e ▸ hj0)
                exact addEdge_ok hok0 ho'.1 hfirst.1
                  ⟨rfl, by rw [ho'.2, hfirst.2], cc_ne_not_reach hc hid hocc hc0 hne⟩
              · simp only [Except.ok.injEq] at hpm
                subst hpm
                exact ⟨hj0, hok0⟩)
          ⟨List.mem_singleton.2 rfl, h⟩ hst
        exact this.2
  · simp only [Except.ok.injEq] at hstep
    subst hstep
    exact h

theorem findPredicateModifiers_ok {m : MRS} {reps : Reps} (hr : RepsOK m reps) (hid : m.ids.Nodup)
    {nodes : List ENode} {addl : EdgeMap} (h : findPredicateModifiers m reps nodes = .ok addl) :
    AddlOK m (edgePairs nodes) addl := by
  unfold findPredicateModifiers at h
  split at h
  · exact absurd h (by simp)
  · rename_i comps hc
    split at h
    · exact foldE_inv (f := pmScope comps) (fun a => AddlOK m (edgePairs nodes) a) reps [] addl
        (fun a s a' ha hs hstep => pmScope_ok hr hc hid hs ha hstep)
        (by intro k es hk; simp at hk) h
    · simp only [Except.ok.injEq] at h
      subst h
      intro k es hk; simp at hk


/-! ### assembling `from_mrs` -/

theorem All2.comp_zip {α β γ : Type} {R : α → β → Prop} {S : β → γ → Prop}
    {l : List α} {l' : List β} {l'' : List γ} (h : All2 R l l') (h' : All2 S l' l'') :
    All2 (fun a c => ∃ b, (a, b) ∈ l.zip l' ∧ R a b ∧ S b c) l l'' := by
  induction h generalizing l'' with
  | nil => cases h'; exact All2.nil
  | cons hr _ ih =>
    cases h' with
    | cons hs hrest =>
      refine All2.cons ⟨_, by simp, hr, hs⟩ ((ih hrest).imp ?_)
      intro a c _ _ ⟨b, hz, h1, h2⟩
      exact ⟨b, by simp [hz], h1, h2⟩

/-- edges justified, targets named by EP id (the ids of the nodes before `make_ids_unique`) -/
def RawJust (m : MRS) (J : Pred → Role → Pred → Prop) (nodes : List ENode) : Prop :=
  ∀ pn ∈ m.preds.zip nodes, ∀ rt ∈ pn.2.edges, ∃ t ∈ m.preds, t.1 = rt.2 ∧ J pn.1 rt.1 t

theorem nodes_rawjust {m : MRS} (hid : m.ids.Nodup) {deps : EdgeMap} (hd : DepsOK m deps)
    {nodes : List ENode}
    (h : All2 (fun p n => n.id = p.1 ∧ n.edges = (dlookup p.1 deps).getD [] ∧ NodeData m p n)
      m.preds nodes) :
    RawJust m (fun s r t => BVJust s r t ∨ ArgJust m s r t) nodes := by
  intro pn hpn rt hrt
  obtain ⟨hpid, hpe, _⟩ := h.of_zip pn hpn
  rw [hpe] at hrt
  cases hl : dlookup pn.1.1 deps with
  | none => rw [hl] at hrt; simp at hrt
  | some es =>
    rw [hl] at hrt
    simp only [Option.getD_some] at hrt
    obtain ⟨s, hs, t, ht, hsk, htt, hj⟩ := hd _ _ (dlookup_mem hl) rt hrt
    have hp : pn.1 ∈ m.preds := (List.of_mem_zip hpn).1
    have hsp : s = pn.1 := pred_eq_of_id_eq hid hs hp hsk
    exact ⟨t, ht, htt, by rw [← hsp]; exact hj⟩

theorem rawjust_add {m : MRS} (hid : m.ids.Nodup) {J : Pred → Role → Pred → Prop}
    {E : List (Var × Var)} {addl : EdgeMap} (hadd : AddlOK m E addl) {nodes nodes' : List ENode}
    (hn : All2 (fun p n => n.id = p.1 ∧ NodeData m p n) m.preds nodes) (hj : RawJust m J nodes)
    (ha : All2 (AddRel addl) nodes nodes') :
    All2 (fun p n => n.id = p.1 ∧ NodeData m p n) m.preds nodes' ∧
    RawJust m (fun s r t => J s r t ∨ PMJust E s r t) nodes' := by
  have hc := All2.comp_zip hn ha
  refine ⟨hc.imp ?_, ?_⟩
  · intro p n' _ _ ⟨n, _, ⟨h1, h2⟩, ⟨h3, h4, _⟩⟩
    exact ⟨by rw [h4, h1], h2.of_core h3⟩
  · intro pn hpn rt hrt
    obtain ⟨n, hz, ⟨h1, _⟩, ⟨_, _, h5⟩⟩ := hc.of_zip pn hpn
    rcases h5 rt hrt with hold | ⟨es, hes, hrt'⟩
    · obtain ⟨t, ht, htt, hJ⟩ := hj (pn.1, n) hz rt hold
      exact ⟨t, ht, htt, Or.inl hJ⟩
    · obtain ⟨s, hs, t, ht, hsk, htt, hpm⟩ := hadd _ _ hes rt hrt'
      have hp : pn.1 ∈ m.preds := (List.of_mem_zip hpn).1
      have hsp : s = pn.1 := pred_eq_of_id_eq hid hs hp (by rw [hsk, h1])
      exact ⟨t, ht, htt, Or.inr (by rw [← hsp]; exact hpm)⟩

theorem justified_of_raw {m : MRS} {J : Pred → Role → Pred → Prop} {nodes : List ENode}
    (hn : All2 (fun p n => n.id = p.1 ∧ NodeData m p n) m.preds nodes) (hj : RawJust m J nodes) :
    Justified m J nodes := by
  intro pn hpn rt hrt
  obtain ⟨t, ht, htt, hJ⟩ := hj pn hpn rt hrt
  obtain ⟨nt, _, hz, hnt⟩ := hn.mem_right t ht
  exact ⟨(t, nt), hz, by rw [hnt.1]; exact htt, hJ⟩

/-- the pieces of a successful run of `from_mrs` before `make_ids_unique` -/
theorem fromMrsWith_decomp {pm : PM} {m : MRS} {reps : Reps} {e : EDS} {w : List Warn}
    (h : fromMrsWith pm m reps = .ok (e, w)) :
    ∃ top w1 deps w2 nodes addl,
      getTop m reps = .ok (top, w1) ∧ basicDeps m reps = .ok (deps, w2) ∧
      mapE (mkNode m deps) m.preds = .ok nodes ∧ addlOf pm m reps nodes = .ok addl ∧
      applyAddl addl nodes = .ok e.nodes ∧ e.top = top ∧ w = w1 ++ w2 := by
  unfold fromMrsWith at h
  split at h
  · exact absurd h (by simp)
  · rename_i top w1 h1
    split at h
    · exact absurd h (by simp)
    · rename_i deps w2 h2
      split at h
      · exact absurd h (by simp)
      · rename_i nodes h3
        split at h
        · exact absurd h (by simp)
        · rename_i addl h4
          split at h
          · exact absurd h (by simp)
          · rename_i nodes' h5
            simp only [Except.ok.injEq, Prod.mk.injEq] at h
            obtain ⟨rfl, rfl⟩ := h
            exact ⟨top, w1, deps, w2, nodes, addl, h1, h2, h3, h4, h5, rfl, rfl⟩

/-- the conversion without predicate modifiers succeeds whenever the one with them does, and
gives the node list the modifiers are computed from -/
theorem fromMrsWith_off {pm : PM} {m : MRS} {reps : Reps} {e : EDS} {w : List Warn}
    (h : fromMrsWith pm m reps = .ok (e, w)) :
    ∃ e0, fromMrsWith .off m reps = .ok (e0, w) ∧ e0.top = e.top ∧
      ∃ addl, addlOf pm m reps e0.nodes = .ok addl ∧ applyAddl addl e0.nodes = .ok e.nodes := by
  obtain ⟨top, w1, deps, w2, nodes, addl, h1, h2, h3, h4, h5, h6, h7⟩ := fromMrsWith_decomp h
  refine ⟨{ top := top, nodes := nodes }, ?_, h6.symm, addl, h4, h5⟩
  simp only [fromMrsWith, h1, h2, h3, addlOf, applyAddl, foldE, h7]


/-- the justification relation of the property: a bound-variable edge, an argument edge, or (only
when predicate modifiers are requested) a predicate-modifier edge between two predications of one
scope that are not connected in the graph `E` of the other dependencies -/
def EdgeJust (m : MRS) (pmOn : Bool) (E : List (Var × Var)) (s : Pred) (r : Role) (t : Pred) : Prop :=
  BVJust s r t ∨ ArgJust m s r t ∨ (pmOn = true ∧ PMJust E s r t)

def PM.isOn : PM → Bool
  | .off => false
  | _ => true

theorem fromMrsWith_spec {pm : PM} {m : MRS} {reps : Reps} (hid : m.ids.Nodup) (hnr : NoReserved m)
    (hr : RepsOK m reps) (hpm : pm = .off ∨ pm = .std) {e : EDS} {w : List Warn}
    (h : fromMrsWith pm m reps = .ok (e, w)) :
    ∃ e0, fromMrsWith .off m reps = .ok (e0, w) ∧
      All2 (fun p n => n.id = p.1 ∧ NodeData m p n) m.preds e.nodes ∧
      RawJust m (EdgeJust m pm.isOn (edgePairs e0.nodes)) e.nodes := by
  obtain ⟨top, w1, deps, w2, nodes, addl, h1, h2, h3, h4, h5, h6, h7⟩ := fromMrsWith_decomp h
  obtain ⟨e0, he0, _, addl', h4', h5'⟩ := fromMrsWith_off h
  obtain ⟨_, _, deps0, _, nodes0, _, _, h2_0, h3_0, h4_0, h5_0, _, _⟩ := fromMrsWith_decomp he0
  -- the node list of the run without modifiers is `nodes`
  have hdeps : deps0 = deps := by rw [h2] at h2_0; simp only [Except.ok.injEq, Prod.mk.injEq] at h2_0; exact h2_0.1.symm
  subst hdeps
  have hnodes0 : nodes0 = nodes := by rw [h3] at h3_0; simp only [Except.ok.injEq] at h3_0; exact h3_0.symm
  subst hnodes0
  have he0n : e0.nodes = nodes0 := by
    simp only [addlOf, Except.ok.injEq] at h4_0
    subst h4_0
    simp only [applyAddl, foldE, Except.ok.injEq] at h5_0
    exact h5_0.symm
  have hN := nodes_spec hnr h3
  have hN' : All2 (fun p n => n.id = p.1 ∧ NodeData m p n) m.preds nodes0 :=
    hN.imp (fun _ _ _ _ ⟨a, _, c⟩ => ⟨a, c⟩)
  have hJ := nodes_rawjust hid (basicDeps_ok hr hnr h2) hN
  have hadd : AddlOK m (edgePairs nodes0) addl := by
    rcases hpm with rfl | rfl
    · simp only [addlOf, Except.ok.injEq] at h4
      subst h4
      intro k es hk; simp at hk
    · exact findPredicateModifiers_ok hr hid h4
  obtain ⟨hA, hB⟩ := rawjust_add hid hadd hN' hJ (applyAddl_spec _ _ _ h5)
  refine ⟨e0, he0, hA, ?_⟩
  rw [he0n]
  rcases hpm with rfl | rfl
  · -- no modifiers: the node list is unchanged
    simp only [addlOf, Except.ok.injEq] at h4
    subst h4
    simp only [applyAddl, foldE, Except.ok.injEq] at h5
    rw [← h5]
    intro pn hpn rt hrt
    obtain ⟨t, ht, htt, hj⟩ := hJ pn hpn rt hrt
    exact ⟨t, ht, htt, hj.elim Or.inl (fun h => Or.inr (Or.inl h))⟩
  · intro pn hpn rt hrt
    obtain ⟨t, ht, htt, hj⟩ := hB pn hpn rt hrt
    refine ⟨t, ht, htt, ?_⟩
    rcases hj with (hj | hj) | hj
    · exact Or.inl hj
    · exact Or.inr (Or.inl hj)
    · exact Or.inr (Or.inr ⟨rfl, hj⟩)

/-! ### `make_ids_unique` (renaming) -/

theorem renameNode_spec {nids : List (Var × Var)} {n n' : ENode} (h : renameNode nids n = .ok n') :
    n'.core = n.core ∧ renameId nids n.id = .ok n'.id ∧
    All2 (fun e e' => e'.1 = e.1 ∧ renameId nids e.2 = .ok e'.2) n.edges n'.edges := by
  unfold renameNode at h
  split at h
  · exact absurd h (by simp)
  · rename_i i hi
    split at h
    · exact absurd h (by simp)
    · rename_i es hes
      simp only [Except.ok.injEq] at h
      subst h
      refine ⟨rfl, hi, (mapE_forall₂ hes).imp ?_⟩
      intro a b _ _ hab
      unfold renameEdge at hab
      split at hab
      · exact absurd hab (by simp)
      · rename_i t ht
        simp only [Except.ok.injEq] at hab
        subst hab
        exact ⟨rfl, ht⟩

theorem renamed_justified {m : MRS} {J : Pred → Role → Pred → Prop} {nids : List (Var × Var)}
    {nodes nodes' : List ENode}
    (hn : All2 (fun p n => n.id = p.1 ∧ NodeData m p n) m.preds nodes) (hj : RawJust m J nodes)
    (hr : mapE (renameNode nids) nodes = .ok nodes') :
    All2 (fun p n => renameId nids p.1 = .ok n.id ∧ NodeData m p n) m.preds nodes' ∧
    Justified m J nodes' := by
  have hR := (mapE_forall₂ hr).imp (fun _ _ _ _ h => renameNode_spec h)
  have hc := All2.comp_zip hn hR
  have hA : All2 (fun p n => renameId nids p.1 = .ok n.id ∧ NodeData m p n) m.preds nodes' := by
    refine hc.imp ?_
    intro p n' _ _ ⟨n, _, ⟨h1, h2⟩, ⟨h3, h4, _⟩⟩
    exact ⟨by rw [← h1]; exact h4, h2.of_core h3⟩
  refine ⟨hA, ?_⟩
  intro pn hpn rt' hrt'
  obtain ⟨n, hz, _, ⟨_, _, hE⟩⟩ := hc.of_zip pn hpn
  obtain ⟨rt, hrt, _, hr1, hr2⟩ := hE.mem_left rt' hrt'
  obtain ⟨t, ht, htt, hJ⟩ := hj (pn.1, n) hz rt hrt
  obtain ⟨nt', _, hz', hnt', _⟩ := hA.mem_right t ht
  refine ⟨(t, nt'), hz', ?_, by rw [hr1]; exact hJ⟩
  rw [htt, hr2] at hnt'
  simp only [Except.ok.injEq] at hnt'
  exact hnt'.symm


/-! ### the top -/

theorem getTop_spec {m : MRS} {reps : Reps} (hr : RepsOK m reps) {t : Var} {w : List Warn}
    (h : getTop m reps = .ok (some t, w)) : ∃ p ∈ m.preds, p.1 = t := by
  have key : ∀ {ps : List Pred} {l : Var} {w' : List Warn}, dlookup l reps = some ps →
      topOf ps w' = .ok (some t, w) → ∃ p ∈ m.preds, p.1 = t := by
    intro ps l w' hl ht
    unfold topOf at ht
    split at ht
    · exact absurd ht (by simp)
    · rename_i t' ht'
      simp only [Except.ok.injEq, Prod.mk.injEq, Option.some.injEq] at ht
      obtain ⟨p, hp, hpt, _, _⟩ := firstRep_of_reps hr hl ht'
      exact ⟨p, hp, by rw [hpt]; exact ht.1⟩
  unfold getTop at h
  dsimp only at h
  split at h
  · rename_i ps hps
    cases hhc : m.top.bind m.hcLast with
    | none => rw [hhc] at hps; simp at hps
    | some hc =>
      rw [hhc] at hps
      simp only [Option.bind_some] at hps
      exact key hps h
  · split at h
    · rename_i ps hps
      cases htop : m.top with
      | none => rw [htop] at hps; simp at hps
      | some tp =>
        rw [htop] at hps
        simp only [Option.bind_some] at hps
        exact key hps h
    · split at h
      · split at h
        · rename_i ps hps
          exact key hps h
        · simp at h
      · simp at h

theorem renameTop_spec {nids : List (Var × Var)} {t t' : Var}
    (h : renameTop nids (some t) = .ok (some t')) : renameId nids t = .ok t' := by
  simp only [renameTop] at h
  split at h
  · exact absurd h (by simp)
  · rename_i t'' ht''
    injection h with h
    injection h with h
    rw [ht'', h]

/-! ### the whole conversion -/

theorem fromMrs_spec {pm : PM} {uniq : Bool} {m : MRS} (hid : m.ids.Nodup) (hnr : NoReserved m)
    (hpm : pm = .off ∨ pm = .std) {e : EDS} {w : List Warn} (h : fromMrs pm uniq m = .ok (e, w)) :
    ∃ e0, fromMrs .off false m = .ok (e0, w) ∧
      All2 (fun p n => NodeData m p n ∧ (uniq = false → n.id = p.1)) m.preds e.nodes ∧
      Justified m (EdgeJust m pm.isOn (edgePairs e0.nodes)) e.nodes ∧
      (∀ t, e.top = some t → ∃ pn ∈ m.preds.zip e.nodes, pn.2.id = t) := by
  unfold fromMrs fromMrsRaw at h
  split at h
  · exact absurd h (by simp)
  · rename_i raw w' hraw
    split at hraw
    · exact absurd hraw (by simp)
    · rename_i reps hreps
      have hr := representatives_repsOK hreps
      obtain ⟨e0, he0, hN, hJ⟩ := fromMrsWith_spec hid hnr hr hpm hraw
      have hoff : fromMrs .off false m = .ok (e0, w') := by
        simp only [fromMrs, fromMrsRaw, hreps, he0]
        rfl
      obtain ⟨top, w1, _, _, _, _, htop, _, _, _, _, hetop, _⟩ := fromMrsWith_decomp hraw
      have hrawtop : ∀ t, raw.top = some t → ∃ p ∈ m.preds, p.1 = t := by
        intro t ht
        rw [hetop] at ht
        subst ht
        exact getTop_spec hr htop
      cases uniq with
      | false =>
        simp only [Bool.false_eq_true, if_false, Except.ok.injEq, Prod.mk.injEq] at h
        obtain ⟨rfl, rfl⟩ := h
        refine ⟨e0, hoff, hN.imp (fun _ _ _ _ ⟨a, b⟩ => ⟨b, fun _ => a⟩), justified_of_raw hN hJ, ?_⟩
        intro t ht
        obtain ⟨p, hp, hpt⟩ := hrawtop t ht
        obtain ⟨n, _, hz, hn⟩ := hN.mem_right p hp
        exact ⟨(p, n), hz, by rw [hn.1]; exact hpt⟩
      | true =>
        simp only [if_true] at h
        split at h
        · exact absurd h (by simp)
        · rename_i e' he'
          simp only [Except.ok.injEq, Prod.mk.injEq] at h
          obtain ⟨rfl, rfl⟩ := h
          unfold makeIdsUnique at he'
          dsimp only at he'
          split at he'
          · exact absurd he' (by simp)
          · rename_i top' htop'
            split at he'
            · exact absurd he' (by simp)
            · rename_i nodes' hnodes'
              simp only [Except.ok.injEq] at he'
              subst he'
              obtain ⟨hA, hJ'⟩ := renamed_justified hN hJ hnodes'
              refine ⟨e0, hoff, hA.imp (fun _ _ _ _ ⟨_, b⟩ => ⟨b, fun hf => absurd hf (by simp)⟩), hJ', ?_⟩
              intro t' ht'
              simp only at ht'
              subst ht'
              cases hrt : raw.top with
              | none => rw [hrt] at htop'; simp [renameTop] at htop'
              | some t =>
                rw [hrt] at htop'
                have hren := renameTop_spec htop'
                obtain ⟨p, hp, hpt⟩ := hrawtop t hrt
                obtain ⟨n, _, hz, hn, _⟩ := hA.mem_right p hp
                refine ⟨(p, n), hz, ?_⟩
                rw [hpt, hren] at hn
                simp only [Except.ok.injEq] at hn
                exact hn.symm


/-! ### shape, for every configuration -/

theorem fromMrsWith_shape {pm : PM} {m : MRS} {reps : Reps} (hnr : NoReserved m) {e : EDS}
    {w : List Warn} (h : fromMrsWith pm m reps = .ok (e, w)) :
    All2 (fun p n => n.id = p.1 ∧ NodeData m p n) m.preds e.nodes := by
  obtain ⟨_, _, deps, _, nodes, addl, _, _, h3, _, h5, _, _⟩ := fromMrsWith_decomp h
  refine All2.comp (nodes_spec hnr h3) (applyAddl_spec _ _ _ h5) ?_
  intro p n n' ⟨h1, _, h2⟩ ⟨h3', h4, _⟩
  exact ⟨by rw [h4, h1], h2.of_core h3'⟩

theorem fromMrs_shape_aux {pm : PM} {uniq : Bool} {m : MRS} (hnr : NoReserved m) {e : EDS}
    {w : List Warn} (h : fromMrs pm uniq m = .ok (e, w)) :
    All2 (fun p n => NodeData m p n ∧ (uniq = false → n.id = p.1)) m.preds e.nodes := by
  unfold fromMrs fromMrsRaw at h
  split at h
  · exact absurd h (by simp)
  · rename_i raw w' hraw
    split at hraw
    · exact absurd hraw (by simp)
    · have hN := fromMrsWith_shape hnr hraw
      cases uniq with
      | false =>
        simp only [Bool.false_eq_true, if_false, Except.ok.injEq, Prod.mk.injEq] at h
        obtain ⟨rfl, rfl⟩ := h
        exact hN.imp (fun _ _ _ _ ⟨a, b⟩ => ⟨b, fun _ => a⟩)
      | true =>
        simp only [if_true] at h
        split at h
        · exact absurd h (by simp)
        · rename_i e' he'
          simp only [Except.ok.injEq, Prod.mk.injEq] at h
          obtain ⟨rfl, rfl⟩ := h
          unfold makeIdsUnique at he'
          dsimp only at he'
          split at he'
          · exact absurd he' (by simp)
          · split at he'
            · exact absurd he' (by simp)
            · rename_i nodes' hnodes'
              simp only [Except.ok.injEq] at he'
              subst he'
              have hR := (mapE_forall₂ hnodes').imp (fun _ _ _ _ h => renameNode_spec h)
              refine All2.comp hN hR ?_
              intro p n n' ⟨_, h2⟩ ⟨h3, _, _⟩
              exact ⟨h2.of_core h3, fun hf => absurd hf (by simp)⟩

theorem All2.map_eq {α β γ : Type} {f : α → γ} {g : β → γ} {l : List α} {l' : List β}
    (h : All2 (fun a b => g b = f a) l l') : l'.map g = l.map f := by
  induction h with
  | nil => rfl
  | cons hr _ ih => simp [hr, ih]

theorem fromMrs_ids_raw {pm : PM} {m : MRS} (hnr : NoReserved m) {e : EDS} {w : List Warn}
    (h : fromMrs pm false m = .ok (e, w)) : e.nodes.map (·.id) = m.ids := by
  have := (fromMrs_shape_aux hnr h).imp (fun _ _ _ _ ⟨_, b⟩ => b rfl)
  rw [All2.map_eq (f := fun p : Pred => p.1) (g := fun n : ENode => n.id) this]
  exact preds_map_fst m

/-! ### `_uniquify_ids` makes the EP ids pairwise distinct -/

theorem uniquify_nodup : ∀ (l : List Var) (n : Nat) (seen : List Var),
    (∀ x ∈ l, x.sort ≠ "_") → (∀ x ∈ seen, x.sort = "_" → x.vid < n) →
    (uniquify n seen l).Nodup ∧ ∀ y ∈ uniquify n seen l, y ∉ seen := by
  intro l
  induction l with
  | nil => intro n seen _ _; exact ⟨List.nodup_nil, fun y hy => absurd hy List.not_mem_nil⟩
  | cons i is ih =>
    intro n seen hl hs
    have hl' : ∀ x ∈ is, x.sort ≠ "_" := fun x hx => hl x (List.mem_cons_of_mem _ hx)
    unfold uniquify
    split
    · -- a repeated id is replaced by `_n`
      have hfresh : (⟨"_", n⟩ : Var) ∉ seen := fun hmem => Nat.lt_irrefl n (hs _ hmem rfl)
      have hs' : ∀ x ∈ (⟨"_", n⟩ : Var) :: seen, x.sort = "_" → x.vid < n + 1 := by
        intro x hx hsort
        rcases List.mem_cons.1 hx with rfl | hx
        · exact Nat.lt_succ_self n
        · exact Nat.lt_succ_of_lt (hs x hx hsort)
      obtain ⟨h1, h2⟩ := ih (n + 1) (⟨"_", n⟩ :: seen) hl' hs'
      refine ⟨List.nodup_cons.2 ⟨fun hmem => h2 _ hmem List.mem_cons_self, h1⟩, ?_⟩
      intro y hy
      rcases List.mem_cons.1 hy with rfl | hy
      · exact hfresh
      · exact fun hmem => h2 y hy (List.mem_cons_of_mem _ hmem)
    · rename_i hnot
      have hs' : ∀ x ∈ i :: seen, x.sort = "_" → x.vid < n := by
        intro x hx hsort
        rcases List.mem_cons.1 hx with rfl | hx
        · exact absurd hsort (hl x List.mem_cons_self)
        · exact hs x hx hsort
      obtain ⟨h1, h2⟩ := ih n (i :: seen) hl' hs'
      refine ⟨List.nodup_cons.2 ⟨fun hmem => h2 _ hmem List.mem_cons_self, h1⟩, ?_⟩
      intro y hy
      rcases List.mem_cons.1 hy with rfl | hy
      · exact hnot
      · exact fun hmem => h2 y hy (List.mem_cons_of_mem _ hmem)

/-- `uniquifyIds_nodup`: when every non-quantifier EP has an ARG0 and no ARG0 has the sort `_`,
the EP ids after `_uniquify_ids` are pairwise distinct -/
theorem ids_nodup {m : MRS} (hnr : NoReserved m) (hc : m.hasCompleteIVs = true) : m.ids.Nodup := by
  unfold MRS.ids
  refine (uniquify_nodup _ _ [] ?_ (fun x hx => absurd hx List.not_mem_nil)).1
  intro x hx
  obtain ⟨ep, hep, rfl⟩ := List.mem_map.1 hx
  unfold MRS.hasCompleteIVs at hc
  have hc' := List.all_eq_true.1 hc ep hep
  unfold EP.baseId
  by_cases hq : ep.isQuantifier = true
  · rw [if_pos hq]
    show ("q" : String) ≠ "_"
    decide
  · rw [if_neg hq]
    simp only [hq, Bool.false_or] at hc'
    obtain ⟨v, hv⟩ := Option.isSome_iff_exists.1 hc'
    rw [hv]
    exact (hnr ep hep v hv).1

end Verif.C05
