/-
C05 — totality and absence of warnings of `from_mrs` on well-formed input, under `HasReps`
(the hypothesis forced by finding F08).  Core Lean only.
-/
import Verif.C05.BvLemmas

namespace Verif.C05
open Verif.Sem

/-! ### loop combinators: success -/

theorem foldE_total {α β : Type} {f : β → α → Except E β} (P : β → Prop) : ∀ (l : List α) (b0 : β),
    (∀ b a, P b → a ∈ l → ∃ b', f b a = .ok b' ∧ P b') → P b0 →
    ∃ b, foldE f b0 l = .ok b ∧ P b := by
  intro l
  induction l with
  | nil => intro b0 _ h0; exact ⟨b0, rfl, h0⟩
  | cons a as ih =>
    intro b0 hstep h0
    obtain ⟨b1, hb1, hP1⟩ := hstep b0 a h0 List.mem_cons_self
    obtain ⟨b, hb, hP⟩ := ih b1 (fun b a' hb ha' => hstep b a' hb (List.mem_cons_of_mem _ ha')) hP1
    exact ⟨b, by simp [foldE, hb1, hb], hP⟩

theorem mapE_total {α β : Type} {f : α → Except E β} : ∀ (l : List α),
    (∀ a ∈ l, ∃ b, f a = .ok b) → ∃ bs, mapE f l = .ok bs := by
  intro l
  induction l with
  | nil => intro _; exact ⟨[], rfl⟩
  | cons a as ih =>
    intro h
    obtain ⟨b, hb⟩ := h a List.mem_cons_self
    obtain ⟨bs, hbs⟩ := ih (fun a' ha' => h a' (List.mem_cons_of_mem _ ha'))
    exact ⟨b :: bs, by simp [mapE, hb, hbs]⟩

/-! ### hypotheses -/

/-- a label that some handle constraint or some argument selects -/
def Selected (m : MRS) (l : Var) : Prop :=
  (∃ hc ∈ m.hcons, hc.lo = l) ∨ ∃ ep ∈ m.rels, ∃ a ∈ ep.args, a.2 = l

/-- every selected scope has at least one representative (FALSE for some well-formed MRSs: F08) -/
def HasReps (m : MRS) : Prop :=
  ∀ reps, m.representatives = .ok reps → ∀ l ps, dlookup l reps = some ps → Selected m l → ps ≠ []

theorem wf_parts {m : MRS} (h : m.isWellFormed = true) :
    m.hasIVProperty = true ∧ m.plausiblyScopes = true := by
  unfold MRS.isWellFormed at h
  simp only [Bool.and_eq_true] at h
  exact ⟨h.1.2, h.2⟩

theorem plausible_top {m : MRS} (h : m.plausiblyScopes = true) :
    ∃ t hc, m.top = some t ∧ m.hcLast t = some hc := by
  unfold MRS.plausiblyScopes at h
  split at h
  · exact absurd h (by simp)
  · rename_i top htop
    split at h
    · exact absurd h (by simp)
    · rename_i hnone
      unfold MRS.hcmap at hnone
      cases hhc : m.hcLast top with
      | none => rw [hhc] at hnone; simp at hnone
      | some hc => exact ⟨top, hc, htop, hhc⟩

theorem plausible_hcLast {m : MRS} (h : m.plausiblyScopes = true) {v : Var} {hc : HCons}
    (hv : m.hcLast v = some hc) : hc.lo ∈ m.labels := by
  obtain ⟨hmem, hhi⟩ := hcLast_spec hv
  unfold MRS.plausiblyScopes at h
  split at h
  · exact absurd h (by simp)
  · split at h
    · exact absurd h (by simp)
    · split at h
      · exact absurd h (by simp)
      · have := List.all_eq_true.1 h hc hmem
        simp only [Bool.and_eq_true] at this
        have h2 := this.2
        unfold MRS.hcmap at h2
        rw [hhi, hv] at h2
        simpa using h2

theorem label_in_reps {m : MRS} {reps : Reps} (hr : m.representatives = .ok reps) {l : Var}
    (hl : l ∈ m.labels) : ∃ ps, dlookup l reps = some ps := by
  apply dlookup_of_mem_keys
  rw [representatives_keys hr, mem_scopeMap_keys]
  unfold MRS.labels at hl
  obtain ⟨ep, hep, rfl⟩ := List.mem_map.1 hl
  rw [← preds_map_snd m] at hep
  obtain ⟨p, hp, rfl⟩ := List.mem_map.1 hep
  exact ⟨p, hp, rfl⟩

theorem firstRep_total {ps : List Pred} (h : ps ≠ []) : ∃ t, firstRep ps = .ok t := by
  cases ps with
  | nil => exact absurd rfl h
  | cons p rest => exact ⟨p.1, rfl⟩

section
variable {m : MRS} {reps : Reps} (hwf : m.isWellFormed = true) (hnr : NoReserved m)
  (hhr : HasReps m) (hreps : m.representatives = .ok reps)
include hwf hnr hhr hreps
set_option linter.unusedSectionVars false

/-! ### `_mrs_get_top` -/

theorem getTop_total : ∃ t, getTop m reps = .ok (some t, []) := by
  obtain ⟨_, hpl⟩ := wf_parts hwf
  obtain ⟨t, hc, htop, hhc⟩ := plausible_top hpl
  obtain ⟨ps, hps⟩ := label_in_reps hreps (plausible_hcLast hpl hhc)
  obtain ⟨hmem, _⟩ := hcLast_spec hhc
  obtain ⟨t', ht'⟩ := firstRep_total (hhr reps hreps hc.lo ps hps (Or.inl ⟨hc, hmem, rfl⟩))
  refine ⟨t', ?_⟩
  unfold getTop
  simp only [htop, Option.bind_some, hhc, hps, topOf, ht']

/-! ### `_mrs_args_to_basic_deps` -/

theorem resolveArg_total {ep : EP} (hep : ep ∈ m.rels) {a : Role × Var} (ha : a ∈ ep.args) :
    ∃ r, resolveArg m reps a.2 = .ok r ∧ r ≠ .warn := by
  obtain ⟨_, hpl⟩ := wf_parts hwf
  unfold resolveArg
  cases hhc : m.hcLast a.2 with
  | some hc =>
    obtain ⟨ps, hps⟩ := label_in_reps hreps (plausible_hcLast hpl hhc)
    obtain ⟨hmem, _⟩ := hcLast_spec hhc
    obtain ⟨t, ht⟩ := firstRep_total (hhr reps hreps hc.lo ps hps (Or.inl ⟨hc, hmem, rfl⟩))
    exact ⟨.edge t, by simp only [hps, resolveRep, ht], by simp⟩
  | none =>
    simp only
    cases hl : dlookup a.2 reps with
    | some ps =>
      obtain ⟨t, ht⟩ := firstRep_total (hhr reps hreps a.2 ps hl (Or.inr ⟨ep, hep, a, ha, rfl⟩))
      exact ⟨.edge t, by simp only [resolveRep, ht], by simp⟩
    | none =>
      simp only
      cases lastNonQuant m (some a.2) with
      | some p => exact ⟨.edge p.1, rfl, by simp⟩
      | none => exact ⟨.skip, rfl, by simp⟩

theorem depStep_fold_total {p : Pred} (hp : p ∈ m.preds) (w0 : List Warn) :
    ∃ es, foldE (depStep m reps) ([], w0) (p.2.outArgs none) = .ok (es, w0) := by
  obtain ⟨b, hb, hP⟩ := foldE_total (f := depStep m reps) (fun acc => acc.2 = w0)
    (p.2.outArgs none) ([], w0)
    (by
      intro acc a hacc ha
      obtain ⟨ha1, _⟩ := mem_outArgs ha
      obtain ⟨r, hr, hrw⟩ := resolveArg_total hwf hnr hhr hreps (mem_rels_of_mem_preds m p hp) ha1
      unfold depStep
      rw [hr]
      cases r with
      | edge t => exact ⟨_, rfl, hacc⟩
      | skip => exact ⟨_, rfl, hacc⟩
      | warn => exact absurd rfl hrw)
    rfl
  refine ⟨b.1, ?_⟩
  rw [hb, ← hP]

theorem basicDeps_total : ∃ deps, basicDeps m reps = .ok (deps, []) := by
  obtain ⟨b, hb, hP⟩ := foldE_total (f := depsOfPred m reps) (fun acc => acc.2 = [])
    m.preds ([], [])
    (by
      intro acc p hacc hp
      unfold depsOfPred
      split
      · obtain ⟨es, hes⟩ := depStep_fold_total hwf hnr hhr hreps hp acc.2
        rw [hes]
        simp only
        split
        · exact ⟨_, rfl, hacc⟩
        · exact ⟨_, rfl, hacc⟩
      · exact ⟨_, rfl, hacc⟩)
    rfl
  refine ⟨b.1, ?_⟩
  unfold basicDeps
  rw [hb, ← hP]

/-! ### `_mrs_to_nodes` -/

theorem mkNode_total (deps : EdgeMap) {p : Pred} (hp : p ∈ m.preds) :
    ∃ n, mkNode m deps p = .ok n := by
  obtain ⟨hiv, _⟩ := wf_parts hwf
  unfold mkNode
  by_cases hq : p.2.isQuantifier = true
  · simp only [hq, if_true]
    exact ⟨_, rfl⟩
  · simp only [hq]
    have hc := completeIVs_of_ivProperty hiv
    unfold MRS.hasCompleteIVs at hc
    have := List.all_eq_true.1 hc p.2 (mem_rels_of_mem_preds m p hp)
    simp only [hq, Bool.false_or] at this
    obtain ⟨v, hv⟩ := Option.isSome_iff_exists.1 this
    have hpid := id_eq_iv hiv hnr hp (by simpa using hq) hv
    obtain ⟨hs1, hs2⟩ := hnr p.2 (mem_rels_of_mem_preds m p hp) v hv
    have hfind : (m.preds.reverse.find? (fun p' => p'.1 == v)).isSome = true := by
      rw [List.find?_isSome]
      exact ⟨p, List.mem_reverse.2 hp, by simp [hpid]⟩
    obtain ⟨p', hp'⟩ := Option.isSome_iff_exists.1 hfind
    obtain ⟨hp'1, hp'2⟩ := mem_find?_reverse hp'
    have hid' : p'.1 = v := by simpa using hp'2
    obtain ⟨_, hiv'⟩ := pred_of_plain_id m p' hp'1 (by rw [hid']; exact hs1) (by rw [hid']; exact hs2)
    simp only [hv, propertiesOf, hp', hiv', Bool.false_eq_true, if_false]
    exact ⟨_, rfl⟩

/-! ### `find_predicate_modifiers` -/

theorem ccOf_total {edges : List (Var × Var)} {comps : List (List Var)}
    (hc : connectedComponents m.ids edges = .ok comps) {i : Var} (hi : i ∈ m.ids) :
    ∃ k, ccOf comps i = .ok k := by
  obtain ⟨h1, _⟩ := connectedComponents_spec m.ids edges comps hc
  obtain ⟨c, hcm, hic⟩ := h1 i hi
  unfold ccOf
  cases hf : comps.findIdx? (fun c => decide (i ∈ c)) with
  | some k => exact ⟨k, rfl⟩
  | none =>
    have := List.findIdx?_eq_none_iff.1 hf c hcm
    simp [hic] at this

theorem mem_ids_of_mem_preds {p : Pred} (hp : p ∈ m.preds) : p.1 ∈ m.ids := by
  rw [← preds_map_fst m]
  exact List.mem_map.2 ⟨p, hp, rfl⟩

/-- the keys of the additional dependencies are EP ids -/
def KeysIn (m : MRS) (addl : EdgeMap) : Prop := ∀ k es, (k, es) ∈ addl → k ∈ m.ids

theorem addEdge_keys {addl : EdgeMap} (h : KeysIn m addl) {s : Var} (hs : s ∈ m.ids)
    (role : Role) (t : Var) : KeysIn m (addEdge s role t addl) := by
  intro k es hk
  unfold addEdge at hk
  rcases mem_dset hk with heq | hold
  · simp only [Prod.mk.injEq] at heq
    rw [heq.1]; exact hs
  · exact h k es hold

theorem pmScope_total {edges : List (Var × Var)} {comps : List (List Var)}
    (hc : connectedComponents m.ids edges = .ok comps) {addl : EdgeMap} (hk : KeysIn m addl)
    {s : Var × List Pred} (hs : s ∈ reps) :
    ∃ addl', pmScope comps addl s = .ok addl' ∧ KeysIn m addl' := by
  have hr := representatives_repsOK hreps
  unfold pmScope
  split
  · rename_i first other rest hps
    have hmem : ∀ p ∈ first :: other :: rest, p.1 ∈ m.ids := by
      intro p hp
      exact mem_ids_of_mem_preds hwf hnr hhr hreps (hr s.1 s.2 hs p (by rw [hps]; exact hp)).1
    obtain ⟨c0, hc0⟩ := ccOf_total hwf hnr hhr hreps hc (hmem first List.mem_cons_self)
    rw [hc0]
    simp only
    obtain ⟨st, hst, hP⟩ := foldE_total (f := pmStep comps first) (fun st => KeysIn m st.2)
      (other :: rest) ([c0], addl)
      (by
        intro st o hst ho
        have hoid := hmem o (List.mem_cons_of_mem _ ho)
        obtain ⟨occ, hocc⟩ := ccOf_total hwf hnr hhr hreps hc hoid
        unfold pmStep
        rw [hocc]
        dsimp only
        split
        · exact ⟨_, rfl, addEdge_keys hwf hnr hhr hreps hst hoid _ _⟩
        · exact ⟨_, rfl, hst⟩)
      hk
    rw [hst]
    exact ⟨st.2, rfl, hP⟩
  · exact ⟨addl, rfl, hk⟩

theorem edgePairs_in_ids {J : Pred → Role → Pred → Prop} {nodes : List ENode}
    (hN : All2 (fun p n => n.id = p.1 ∧ NodeData m p n) m.preds nodes) (hJ : RawJust m J nodes) :
    ∀ e ∈ edgePairs nodes, e.1 ∈ m.ids ∧ e.2 ∈ m.ids := by
  intro e he
  unfold edgePairs at he
  obtain ⟨n, hn, hen⟩ := List.mem_flatMap.1 he
  obtain ⟨rt, hrt, rfl⟩ := List.mem_map.1 hen
  obtain ⟨p, hp, hz, hid, _⟩ := hN.mem_left n hn
  obtain ⟨t, ht, htt, _⟩ := hJ (p, n) hz rt hrt
  exact ⟨by rw [hid]; exact mem_ids_of_mem_preds hwf hnr hhr hreps hp,
         by rw [← htt]; exact mem_ids_of_mem_preds hwf hnr hhr hreps ht⟩

theorem findPredicateModifiers_total {J : Pred → Role → Pred → Prop} {nodes : List ENode}
    (hN : All2 (fun p n => n.id = p.1 ∧ NodeData m p n) m.preds nodes) (hJ : RawJust m J nodes) :
    ∃ addl, findPredicateModifiers m reps nodes = .ok addl ∧ KeysIn m addl := by
  have hends := edgePairs_in_ids hwf hnr hhr hreps hN hJ
  unfold findPredicateModifiers
  cases hc : connectedComponents m.ids (edgePairs nodes) with
  | error e =>
    obtain ⟨_, pr, hpr, hbad⟩ := connectedComponents_error _ _ e hc
    rcases hbad with hbad | hbad
    · exact absurd (hends pr hpr).1 hbad
    · exact absurd (hends pr hpr).2 hbad
  | ok comps =>
    simp only
    split
    · obtain ⟨addl, h1, h2⟩ := foldE_total (f := pmScope comps) (fun a => KeysIn m a) reps []
        (fun a s ha hs => pmScope_total hwf hnr hhr hreps hc ha hs)
        (by intro k es hk; simp at hk)
      exact ⟨addl, h1, h2⟩
    · exact ⟨[], rfl, by intro k es hk; simp at hk⟩

/-! ### applying the additional dependencies -/

theorem applyAddl_total {addl : EdgeMap} (hk : KeysIn m addl) {nodes : List ENode}
    (hids : nodes.map (·.id) = m.ids) : ∃ nodes', applyAddl addl nodes = .ok nodes' := by
  obtain ⟨b, hb, _⟩ := foldE_total (f := applyAddlOne) (fun ns => ns.map (·.id) = m.ids) addl nodes
    (by
      intro ns entry hns hentry
      have hin : entry.1 ∈ ns.map (·.id) := by rw [hns]; exact hk entry.1 entry.2 hentry
      obtain ⟨n, hn, hnid⟩ := List.mem_map.1 hin
      unfold applyAddlOne
      have hany : (ns.any (fun n => n.id == entry.1)) = true :=
        List.any_eq_true.2 ⟨n, hn, by simp [hnid]⟩
      rw [if_pos hany]
      refine ⟨_, rfl, ?_⟩
      rw [← hns, List.map_map]
      apply List.map_congr_left
      intro a _
      simp only [Function.comp]
      split <;> rfl)
    hids
  exact ⟨b, hb⟩

/-! ### the conversion before `make_ids_unique` -/

theorem fromMrsWith_total {pm : PM}
    (hadd : ∀ nodes, All2 (fun p n => n.id = p.1 ∧ NodeData m p n) m.preds nodes →
      RawJust m (fun s r t => BVJust s r t ∨ ArgJust m s r t) nodes →
      ∃ addl, addlOf pm m reps nodes = .ok addl ∧ KeysIn m addl) :
    ∃ e, fromMrsWith pm m reps = .ok (e, []) := by
  obtain ⟨hiv, _⟩ := wf_parts hwf
  have hid := ids_nodup hnr (completeIVs_of_ivProperty hiv)
  have hr := representatives_repsOK hreps
  obtain ⟨t, h1⟩ := getTop_total hwf hnr hhr hreps
  obtain ⟨deps, h2⟩ := basicDeps_total hwf hnr hhr hreps
  obtain ⟨nodes, h3⟩ := mapE_total (f := mkNode m deps) m.preds
    (fun p hp => mkNode_total hwf hnr hhr hreps deps hp)
  have hN := nodes_spec hnr h3
  have hN' : All2 (fun p n => n.id = p.1 ∧ NodeData m p n) m.preds nodes :=
    hN.imp (fun _ _ _ _ ⟨a, _, c⟩ => ⟨a, c⟩)
  have hJ := nodes_rawjust hid (basicDeps_ok hr hnr h2) hN
  have hids : nodes.map (·.id) = m.ids := by
    rw [All2.map_eq (f := fun p : Pred => p.1) (g := fun n : ENode => n.id)
      (hN'.imp (fun _ _ _ _ ⟨a, _⟩ => a))]
    exact preds_map_fst m
  obtain ⟨addl, h4, hkeys⟩ := hadd nodes hN' hJ
  obtain ⟨nodes', h5⟩ := applyAddl_total hwf hnr hhr hreps hkeys hids
  refine ⟨{ top := some t, nodes := nodes' }, ?_⟩
  simp only [fromMrsWith, h1, h2, h3, h4, h5, List.append_nil]

end

/-! ### `make_ids_unique` and the whole conversion -/

theorem renameId_total {ids lkb : List Var} (hlen : ids.length = lkb.length) {x : Var}
    (hx : x ∈ ids) : ∃ j, renameId (ids.zip lkb) x = .ok j := by
  have hk : x ∈ dkeys (ids.zip lkb) := by
    unfold dkeys
    rw [List.map_fst_zip (Nat.le_of_eq hlen)]
    exact hx
  obtain ⟨j, hj⟩ := dlookup_of_mem_keys hk
  exact ⟨j, renameId_iff.2 hj⟩

/-- `from_mrs` succeeds without warnings on a well-formed MRS all of whose selected scopes have a
representative, for ANY `predicate_modifiers` argument that (`hadd`) returns a mapping whose keys are
EP ids and (`hJ2`) whose edges end at EP ids -/
theorem fromMrs_total_gen {pm : PM} {uniq : Bool} {m : MRS} (hwf : m.isWellFormed = true)
    (hnr : NoReserved m) (hhr : HasReps m)
    (hadd : ∀ reps, m.representatives = .ok reps → ∀ nodes,
      All2 (fun p n => n.id = p.1 ∧ NodeData m p n) m.preds nodes →
      RawJust m (fun s r t => BVJust s r t ∨ ArgJust m s r t) nodes →
      ∃ addl, addlOf pm m reps nodes = .ok addl ∧ KeysIn m addl)
    (hJ2 : ∀ reps nodes addl, RepsOK m reps → addlOf pm m reps nodes = .ok addl →
      AddlJ m (fun _ _ _ => True) addl) :
    ∃ e, fromMrs pm uniq m = .ok (e, []) := by
  obtain ⟨hiv, _⟩ := wf_parts hwf
  have hid := ids_nodup hnr (completeIVs_of_ivProperty hiv)
  obtain ⟨reps, hreps⟩ := MRS.representatives_total m
  have hr := representatives_repsOK hreps
  obtain ⟨raw, hwith⟩ := fromMrsWith_total hwf hnr hhr hreps (hadd reps hreps)
  have hraw : fromMrsRaw pm m = .ok (raw, []) := by
    simp only [fromMrsRaw, hreps, hwith]
  cases uniq with
  | false => exact ⟨raw, by simp only [fromMrs, hraw]; rfl⟩
  | true =>
    obtain ⟨hN, hJ, _⟩ := fromMrsRaw_gen hid hnr hJ2 hraw
    obtain ⟨top, _, _, _, _, _, htop, _, _, _, _, hetop, _⟩ := fromMrsWith_decomp hwith
    have hlen : m.ids.length = (lkbIds 1 m.preds).length := by
      rw [lkbIds_length, ← preds_map_fst m, List.length_map]
    have hmemid : ∀ p ∈ m.preds, p.1 ∈ m.ids := by
      intro p hp
      rw [← preds_map_fst m]
      exact List.mem_map.2 ⟨p, hp, rfl⟩
    -- the top
    have htop' : ∃ t', renameTop (newIds m raw.nodes) raw.top = .ok t' := by
      rw [newIds_eq hiv hnr]
      cases hrt : raw.top with
      | none => exact ⟨none, rfl⟩
      | some t =>
        rw [hetop] at hrt
        subst hrt
        obtain ⟨p, hp, hpt⟩ := getTop_spec hr htop
        obtain ⟨j, hj⟩ := renameId_total hlen (hpt ▸ hmemid p hp)
        exact ⟨some j, by simp only [renameTop, hj]⟩
    obtain ⟨top', htop''⟩ := htop'
    -- the nodes
    have hnodes : ∃ nodes', mapE (renameNode (newIds m raw.nodes)) raw.nodes = .ok nodes' := by
      rw [newIds_eq hiv hnr]
      apply mapE_total
      intro n hn
      obtain ⟨p, hp, hz, hnid, _⟩ := hN.mem_left n hn
      obtain ⟨j, hj⟩ := renameId_total hlen (hnid ▸ hmemid p hp)
      have hedges : ∃ es, mapE (renameEdge (m.ids.zip (lkbIds 1 m.preds))) n.edges = .ok es := by
        apply mapE_total
        intro rt hrt
        obtain ⟨t, ht, htt, _⟩ := hJ (p, n) hz rt hrt
        obtain ⟨j', hj'⟩ := renameId_total hlen (htt ▸ hmemid t ht)
        exact ⟨(rt.1, j'), by simp only [renameEdge, hj']⟩
      obtain ⟨es, hes⟩ := hedges
      exact ⟨{ n with id := j, edges := es }, by simp only [renameNode, hj, hes]⟩
    obtain ⟨nodes', hnodes'⟩ := hnodes
    refine ⟨{ top := top', nodes := nodes' }, ?_⟩
    simp only [fromMrs, hraw, makeIdsUnique, htop'', hnodes', if_true]

theorem fromMrs_total_aux {pm : PM} {uniq : Bool} {m : MRS} (hwf : m.isWellFormed = true)
    (hnr : NoReserved m) (hhr : HasReps m) (hpm : pm = .off ∨ pm = .std) :
    ∃ e, fromMrs pm uniq m = .ok (e, []) := by
  have hid := ids_nodup hnr (completeIVs_of_ivProperty (wf_parts hwf).1)
  apply fromMrs_total_gen hwf hnr hhr
  · intro reps hreps nodes hN hJ
    rcases hpm with rfl | rfl
    · exact ⟨[], rfl, by intro k es hk; simp at hk⟩
    · exact findPredicateModifiers_total hwf hnr hhr hreps hN hJ
  · intro reps nodes addl hr h4
    rcases hpm with rfl | rfl
    · simp only [addlOf, Except.ok.injEq] at h4
      subst h4
      intro k es hk; simp at hk
    · exact (addlOK_iff.1 (findPredicateModifiers_ok hr hid h4)).weaken (fun _ _ _ _ => trivial)

/-! ### an executable sufficient test for `HasReps` -/

def hasRepsB (m : MRS) : Bool :=
  match m.representatives with
  | .ok reps => reps.all (fun s => !s.2.isEmpty)
  | .error _ => true

theorem hasReps_of_hasRepsB {m : MRS} (h : hasRepsB m = true) : HasReps m := by
  intro reps hreps l ps hl _ hnil
  unfold hasRepsB at h
  rw [hreps] at h
  have := List.all_eq_true.1 h (l, ps) (dlookup_mem hl)
  rw [hnil] at this
  simp at this

/-! ### `make_ids_unique` is a consistent, injective renaming -/

/-- the renaming applied by `make_ids_unique` -/
def rho (nids : List (Var × Var)) (x : Var) : Var := (dlookup x nids).getD x

theorem rho_of_renameId {nids : List (Var × Var)} {x y : Var} (h : renameId nids x = .ok y) :
    rho nids x = y := by
  unfold rho
  rw [renameId_iff.1 h]
  rfl

theorem zip_inj_right {α β : Type} : ∀ (l1 : List α) (l2 : List β), l2.Nodup → ∀ {a b : α} {v : β},
    (a, v) ∈ l1.zip l2 → (b, v) ∈ l1.zip l2 → a = b := by
  intro l1
  induction l1 with
  | nil => intro l2 _ a b v ha _; simp at ha
  | cons x xs ih =>
    intro l2 hnd a b v ha hb
    cases l2 with
    | nil => simp at ha
    | cons y ys =>
      obtain ⟨hy, hnd'⟩ := List.nodup_cons.1 hnd
      simp only [List.zip_cons_cons, List.mem_cons, Prod.mk.injEq] at ha hb
      rcases ha with ⟨rfl, rfl⟩ | ha <;> rcases hb with ⟨rfl, hv⟩ | hb
      · rfl
      · exact absurd (List.of_mem_zip hb).2 hy
      · rw [hv] at ha; exact absurd (List.of_mem_zip ha).2 hy
      · exact ih ys hnd' ha hb

theorem rho_injective {ids lkb : List Var} (hlen : ids.length = lkb.length) (hnd : lkb.Nodup)
    {a b : Var} (ha : a ∈ ids) (hb : b ∈ ids) (h : rho (ids.zip lkb) a = rho (ids.zip lkb) b) :
    a = b := by
  obtain ⟨va, hva⟩ := renameId_total hlen ha
  obtain ⟨vb, hvb⟩ := renameId_total hlen hb
  rw [rho_of_renameId hva, rho_of_renameId hvb] at h
  subst h
  exact zip_inj_right ids lkb hnd (dlookup_mem (renameId_iff.1 hva)) (dlookup_mem (renameId_iff.1 hvb))

theorem fromMrs_renaming_aux {pm : PM} {m : MRS} (hiv : m.hasIVProperty = true) (hnr : NoReserved m)
    {e : EDS} {w : List Warn} (h : fromMrs pm true m = .ok (e, w)) :
    ∃ e', fromMrs pm false m = .ok (e', w) ∧
      (∀ a ∈ m.ids, ∀ b ∈ m.ids, rho (m.ids.zip (lkbIds 1 m.preds)) a =
        rho (m.ids.zip (lkbIds 1 m.preds)) b → a = b) ∧
      e.top = e'.top.map (rho (m.ids.zip (lkbIds 1 m.preds))) ∧
      All2 (fun n' n => n.id = rho (m.ids.zip (lkbIds 1 m.preds)) n'.id ∧
        n.edges = n'.edges.map (fun rt => (rt.1, rho (m.ids.zip (lkbIds 1 m.preds)) rt.2)) ∧
        n.core = n'.core) e'.nodes e.nodes := by
  obtain ⟨raw, hraw, htop, hnodes⟩ := fromMrs_true_decomp h
  rw [newIds_eq hiv hnr] at htop hnodes
  have hlen : m.ids.length = (lkbIds 1 m.preds).length := by
    rw [lkbIds_length, ← preds_map_fst m, List.length_map]
  have hnd : (lkbIds 1 m.preds).Nodup :=
    lkbIds_nodup m.preds 1 (by rw [filterMap_ivKey]; exact nonQuantIVs_nodup hiv)
      (by rw [filterMap_ivKey]; exact fun v hv => (nonQuantIVs_plain hnr v hv).1)
  refine ⟨raw, by simp only [fromMrs, hraw]; rfl,
    fun a ha b hb hab => rho_injective hlen hnd ha hb hab, ?_, ?_⟩
  · cases hrt : raw.top with
    | none =>
      rw [hrt] at htop
      simp only [renameTop, Except.ok.injEq] at htop
      rw [← htop]; rfl
    | some t =>
      rw [hrt] at htop
      cases het : e.top with
      | none => rw [het] at htop; simp only [renameTop] at htop; split at htop <;> simp at htop
      | some t' =>
        rw [het] at htop
        rw [Option.map_some, rho_of_renameId (renameTop_spec htop)]
  · refine (mapE_forall₂ hnodes).imp ?_
    intro n n' _ _ hren
    obtain ⟨hc, hid, hE⟩ := renameNode_spec hren
    refine ⟨(rho_of_renameId hid).symm, ?_, hc⟩
    have := All2.map_eq (f := fun rt : Role × Var => (rt.1, rho (m.ids.zip (lkbIds 1 m.preds)) rt.2))
      (g := fun rt : Role × Var => rt)
      (hE.imp (fun a b _ _ ⟨h1, h2⟩ => Prod.ext h1 (rho_of_renameId h2).symm))
    simpa using this

end Verif.C05
