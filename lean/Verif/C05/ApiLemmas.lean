/-
C05 — lemmas tying the public layer `Api.lean` to the modelled core `Model.lean`, and the parts of
the soundness argument that hold for EVERY `representative_priority`.
Core Lean only.
-/
import Verif.C05.Api
import Verif.C05.ExprLemmas

namespace Verif.C05
open Verif.Sem

/-! ### the default priority -/

theorem representativesK_none (m : MRS) : representativesK m none = m.representatives := rfl

theorem mem_insertS (key : Key) (x y : Pred) (l : List Pred) :
    y ∈ insertS key x l ↔ y = x ∨ y ∈ l := by
  induction l with
  | nil => simp [insertS]
  | cons z zs ih =>
    unfold insertS
    split
    · simp only [List.mem_cons, ih]
      constructor
      · rintro (h | h | h)
        · exact Or.inr (Or.inl h)
        · exact Or.inl h
        · exact Or.inr (Or.inr h)
      · rintro (h | h | h)
        · exact Or.inr (Or.inl h)
        · exact Or.inl h
        · exact Or.inr (Or.inr h)
    · simp only [List.mem_cons]

theorem mem_sortS (key : Key) (y : Pred) (l : List Pred) : y ∈ sortS key l ↔ y ∈ l := by
  induction l with
  | nil => simp [sortS]
  | cons x xs ih => simp only [sortS, mem_insertS, ih, List.mem_cons]

/-- whatever the ranking function, every listed representative of a scope is a predication of the
MRS carrying that label -/
theorem representativesK_repsOK {m : MRS} {key : Option Key} {reps : Reps}
    (h : representativesK m key = .ok reps) : RepsOK m reps := by
  cases key with
  | none => exact representatives_repsOK h
  | some k =>
    simp only [representativesK] at h
    split at h
    · exact absurd h (by simp)
    · rename_i descs _
      simp only [Except.ok.injEq] at h
      subst h
      intro l ps hmem p hp
      obtain ⟨s, hs, heq⟩ := List.mem_map.1 hmem
      simp only [Prod.mk.injEq] at heq
      obtain ⟨rfl, rfl⟩ := heq
      have hp2 := candidates_subset _ _ _ _ _ ((mem_sortS _ _ _).1 hp)
      have hsm := (mem_scopeMap m s.1 s.2).1 hs
      rw [hsm.1] at hp2
      obtain ⟨h1, h2⟩ := List.mem_filter.1 hp2
      exact ⟨h1, by simpa using h2⟩

/-- the ranking function never fails -/
theorem representativesK_total (m : MRS) (key : Option Key) : ∃ r, representativesK m key = .ok r := by
  cases key with
  | none => exact MRS.representatives_total m
  | some k =>
    obtain ⟨d, hd, _⟩ := MRS.descendants_total m
    simp only [representativesK, hd]
    exact ⟨_, rfl⟩

/-! ### `from_mrs` = core + `finish` -/

theorem fromMrs_eq_finish (pm : PM) (uniq : Bool) (m : MRS) :
    fromMrs pm uniq m =
      match fromMrsRaw pm m with
      | .error e => .error e
      | .ok (e, w) => finish uniq m e w := by
  unfold fromMrs finish
  rfl

theorem fromMrsRaw_eq (pm : PM) (m : MRS) :
    fromMrsRaw pm m =
      match m.representatives with
      | .error e => .error (.sem e)
      | .ok reps => fromMrsWith pm m reps := rfl

/-- the pieces of `from_mrs` after the representatives, in terms of the core: the user function (if
any) is applied to the graph of the conversion WITHOUT predicate modifiers and with EP ids, to the MRS
and to the representatives, and what it returns is applied as `PM.custom` does -/
theorem apiWith_eq (pm : PMArg) (uniq : Bool) (m : MRS) (reps : Reps) :
    apiWith pm uniq m reps =
      match fromMrsWith .off m reps with
      | .error x => .error x
      | .ok (e0, w) =>
        match userFnOf pm with
        | none => finish uniq m e0 w
        | some f =>
          match f e0 m reps with
          | .error x => .error x
          | .ok a =>
            match fromMrsWith (.custom a) m reps with
            | .error x => .error x
            | .ok (e1, w1) => finish uniq m e1 w1 := by
  cases h1 : getTop m reps with
  | error x => simp only [apiWith, fromMrsWith, h1]
  | ok tw =>
    obtain ⟨top, w1⟩ := tw
    cases h2 : basicDeps m reps with
    | error x => simp only [apiWith, fromMrsWith, h1, h2]
    | ok dw =>
      obtain ⟨deps, w2⟩ := dw
      cases h3 : mapE (mkNode m deps) m.preds with
      | error x => simp only [apiWith, fromMrsWith, h1, h2, h3]
      | ok nodes =>
        have hoff : fromMrsWith .off m reps = .ok ({ top := top, nodes := nodes }, w1 ++ w2) := by
          simp only [fromMrsWith, h1, h2, h3, addlOf, applyAddl, foldE]
        simp only [apiWith, h1, h2, h3, hoff]
        cases hf : userFnOf pm with
        | none => simp only [applyUser]
        | some f =>
          simp only [applyUser]
          cases hfa : f { top := top, nodes := nodes } m reps with
          | error x => simp only
          | ok a =>
            simp only [fromMrsWith, h1, h2, h3, addlOf]
            cases h5 : applyAddl a nodes with
            | error x => simp only
            | ok nodes' => simp only

/-- `find_predicate_modifiers` as the function `from_mrs` installs for `predicate_modifiers=True` -/
theorem apiWith_true (uniq : Bool) (m : MRS) (reps : Reps) :
    apiWith (.bool true) uniq m reps =
      match fromMrsWith .std m reps with
      | .error x => .error x
      | .ok (e, w) => finish uniq m e w := by
  cases h1 : getTop m reps with
  | error x => simp only [apiWith, fromMrsWith, h1]
  | ok tw =>
    obtain ⟨top, w1⟩ := tw
    cases h2 : basicDeps m reps with
    | error x => simp only [apiWith, fromMrsWith, h1, h2]
    | ok dw =>
      obtain ⟨deps, w2⟩ := dw
      cases h3 : mapE (mkNode m deps) m.preds with
      | error x => simp only [apiWith, fromMrsWith, h1, h2, h3]
      | ok nodes =>
        simp only [apiWith, fromMrsWith, h1, h2, h3, addlOf, userFnOf, applyUser, findPM]
        cases h4 : findPredicateModifiers m reps nodes with
        | error x => simp only
        | ok a =>
          simp only
          cases h5 : applyAddl a nodes with
          | error x => simp only
          | ok nodes' => simp only

theorem apiWith_false (uniq : Bool) (m : MRS) (reps : Reps) :
    apiWith (.bool false) uniq m reps =
      match fromMrsWith .off m reps with
      | .error x => .error x
      | .ok (e, w) => finish uniq m e w := by
  rw [apiWith_eq]
  rfl

/-! ### decomposition of a successful call, for every priority -/

/-- the `PM` the core sees for a given argument, when the user function returned `a` -/
def pmOfArg : PMArg → EdgeMap → PM
  | .bool true, _ => .std
  | .bool false, _ => .off
  | .fn _, a => .custom a

theorem finish_decomp {uniq : Bool} {m : MRS} {raw e : EDS} {w w' : List Warn}
    (h : finish uniq m raw w = .ok (e, w')) :
    w' = w ∧ ((uniq = false ∧ e = raw) ∨ (uniq = true ∧ makeIdsUnique m raw = .ok e)) := by
  unfold finish at h
  cases uniq with
  | false =>
    simp only [Bool.false_eq_true, if_false, Except.ok.injEq, Prod.mk.injEq] at h
    exact ⟨h.2.symm, Or.inl ⟨rfl, h.1.symm⟩⟩
  | true =>
    simp only [if_true] at h
    split at h
    · exact absurd h (by simp)
    · rename_i e' he'
      simp only [Except.ok.injEq, Prod.mk.injEq] at h
      obtain ⟨rfl, rfl⟩ := h
      exact ⟨rfl, Or.inr ⟨rfl, he'⟩⟩

/-- a successful `from_mrs`, whatever its arguments: there are representatives (for THAT priority),
the conversion without modifiers succeeds on them with the same warnings, the user function (if any)
was applied to exactly that graph, and the result is the core's result for the mapping it returned,
followed by `make_ids_unique` when asked for -/
theorem fromMrsApi_decomp {pm : PMArg} {uniq : Bool} {key : Option Key} {m : MRS} {e : EDS}
    {w : List Warn} (h : fromMrsApi pm uniq key m = .ok (e, w)) :
    ∃ reps e0 raw a, representativesK m key = .ok reps ∧ RepsOK m reps ∧
      fromMrsWith .off m reps = .ok (e0, w) ∧
      (∀ f, userFnOf pm = some f → f e0 m reps = .ok a) ∧
      fromMrsWith (match userFnOf pm with | none => .off | some _ => .custom a) m reps = .ok (raw, w) ∧
      ((uniq = false ∧ e = raw) ∨ (uniq = true ∧ makeIdsUnique m raw = .ok e)) := by
  unfold fromMrsApi at h
  split at h
  · exact absurd h (by simp)
  · rename_i reps hreps
    have hr := representativesK_repsOK hreps
    rw [apiWith_eq] at h
    split at h
    · exact absurd h (by simp)
    · rename_i e0 w0 h0
      split at h
      · rename_i hf
        obtain ⟨rfl, hfin⟩ := finish_decomp h
        refine ⟨reps, e0, e0, [], hreps, hr, h0, ?_, ?_, hfin⟩
        · intro f hf'; rw [hf] at hf'; exact absurd hf' (by simp)
        · exact h0
      · rename_i f hf
        split at h
        · exact absurd h (by simp)
        · rename_i a ha
          split at h
          · exact absurd h (by simp)
          · rename_i e1 w1 h1
            obtain ⟨rfl, hfin⟩ := finish_decomp h
            have hw : w0 = w := by
              obtain ⟨_, _, _, _, _, _, g1, g2, _, _, _, _, g7⟩ := fromMrsWith_decomp h0
              obtain ⟨_, _, _, _, _, _, k1, k2, _, _, _, _, k7⟩ := fromMrsWith_decomp h1
              rw [g1] at k1; rw [g2] at k2
              simp only [Except.ok.injEq, Prod.mk.injEq] at k1 k2
              rw [g7, k7, k1.2, k2.2]
            subst hw
            refine ⟨reps, e0, e1, a, hreps, hr, h0, ?_, ?_, hfin⟩
            · intro f' hf'; rw [hf] at hf'; injection hf' with hf'; subst hf'; exact ha
            · exact h1

/-! ### shape and soundness for every priority -/

theorem renamed_shape {m : MRS} {raw e : EDS}
    (hN : All2 (fun p n => n.id = p.1 ∧ NodeData m p n) m.preds raw.nodes)
    (he : makeIdsUnique m raw = .ok e) :
    All2 (fun p n => NodeData m p n) m.preds e.nodes := by
  unfold makeIdsUnique at he
  dsimp only at he
  split at he
  · exact absurd he (by simp)
  · split at he
    · exact absurd he (by simp)
    · rename_i nodes' hnodes'
      simp only [Except.ok.injEq] at he
      subst he
      have hR := (mapE_forall₂ hnodes').imp (fun _ _ _ _ h => renameNode_spec h)
      refine All2.comp hN hR ?_
      intro p n n' ⟨_, h2⟩ ⟨h3, _, _⟩
      exact h2.of_core h3

/-- `make_ids_unique` keeps justification and the top -/
theorem renamed_spec {m : MRS} {J : Pred → Role → Pred → Prop} {raw e : EDS}
    (hN : All2 (fun p n => n.id = p.1 ∧ NodeData m p n) m.preds raw.nodes)
    (hJ : RawJust m J raw.nodes)
    (hT : ∀ t, raw.top = some t → ∃ p ∈ m.preds, p.1 = t)
    (he : makeIdsUnique m raw = .ok e) :
    Justified m J e.nodes ∧ (∀ t, e.top = some t → ∃ pn ∈ m.preds.zip e.nodes, pn.2.id = t) := by
  unfold makeIdsUnique at he
  dsimp only at he
  split at he
  · exact absurd he (by simp)
  · rename_i top' htop'
    split at he
    · exact absurd he (by simp)
    · rename_i nodes' hnodes'
      simp only [Except.ok.injEq] at he
      subst he
      obtain ⟨hA, hJ'⟩ := renamed_justified hN hJ hnodes'
      refine ⟨hJ', ?_⟩
      intro t' ht'
      simp only at ht'
      subst ht'
      cases hrt : raw.top with
      | none => rw [hrt] at htop'; simp [renameTop] at htop'
      | some t =>
        rw [hrt] at htop'
        have hren := renameTop_spec htop'
        obtain ⟨p, hp, hpt⟩ := hT t hrt
        obtain ⟨n, _, hz, hn, _⟩ := hA.mem_right p hp
        refine ⟨(p, n), hz, ?_⟩
        rw [hpt, hren] at hn
        simp only [Except.ok.injEq] at hn
        exact hn.symm

theorem raw_spec {m : MRS} {J : Pred → Role → Pred → Prop} {raw : EDS}
    (hN : All2 (fun p n => n.id = p.1 ∧ NodeData m p n) m.preds raw.nodes)
    (hJ : RawJust m J raw.nodes)
    (hT : ∀ t, raw.top = some t → ∃ p ∈ m.preds, p.1 = t) :
    Justified m J raw.nodes ∧ (∀ t, raw.top = some t → ∃ pn ∈ m.preds.zip raw.nodes, pn.2.id = t) := by
  refine ⟨justified_of_raw hN hJ, ?_⟩
  intro t ht
  obtain ⟨p, hp, hpt⟩ := hT t ht
  obtain ⟨n, _, hz, hn⟩ := hN.mem_right p hp
  exact ⟨(p, n), hz, by rw [hn.1]; exact hpt⟩

/-- the graph before `make_ids_unique` on GIVEN representatives, for additional dependencies under
the contract `AddlJ m J2` -/
theorem fromMrsWith_gen {pm : PM} {m : MRS} {reps : Reps} (hid : m.ids.Nodup) (hnr : NoReserved m)
    (hr : RepsOK m reps) {J2 : Pred → Role → Pred → Prop}
    (hadd : ∀ nodes addl, addlOf pm m reps nodes = .ok addl → AddlJ m J2 addl)
    {raw : EDS} {w : List Warn} (hwith : fromMrsWith pm m reps = .ok (raw, w)) :
    All2 (fun p n => n.id = p.1 ∧ NodeData m p n) m.preds raw.nodes ∧
    RawJust m (fun s r t => (BVJust s r t ∨ ArgJust m s r t) ∨ J2 s r t) raw.nodes ∧
    (∀ t, raw.top = some t → ∃ p ∈ m.preds, p.1 = t) := by
  obtain ⟨top, _, deps, _, nodes, addl, htop, h2, h3, h4, h5, hetop, _⟩ := fromMrsWith_decomp hwith
  have hN := nodes_spec hnr h3
  have hN' : All2 (fun p n => n.id = p.1 ∧ NodeData m p n) m.preds nodes :=
    hN.imp (fun _ _ _ _ ⟨a, _, c⟩ => ⟨a, c⟩)
  have hJ := nodes_rawjust hid (basicDeps_ok hr hnr h2) hN
  obtain ⟨hA, hB⟩ := rawjust_add_gen hid (hadd nodes addl h4) hN' hJ (applyAddl_spec _ _ _ h5)
  refine ⟨hA, hB, ?_⟩
  intro t ht
  rw [hetop] at ht
  subst ht
  exact getTop_spec hr htop

end Verif.C05
