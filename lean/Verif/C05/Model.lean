/-
C05 — model of `delphin.eds.from_mrs` (delphin/eds/_operations.py), i.e.
`_mrs_get_top`, `_mrs_args_to_basic_deps`, `_mrs_to_nodes`, `find_predicate_modifiers`,
`make_ids_unique`, on top of the shared semantic core `Verif.Common.Sem`
(MRS, EP ids / `_uniquify_ids`, scopes, `scope.representatives`, `_connected_components`).

Conventions (as in `Verif.Common.Sem`).
* EP ids and EDS node ids are `Var`s: `x5 = ⟨"x",5⟩`, the quantifier id `q5 = ⟨"q",5⟩`,
  the ids `_k` made by `_uniquify_ids` / `make_ids_unique` are `⟨"_",k⟩`.
* Python dictionaries keyed by EP id are association lists (`dlookup`/`dset`); the real
  code and the model agree when the EP ids are pairwise distinct (the driver answers
  `unmodelled` otherwise, as the C07 driver does).
* `ivmap = {p.iv: (p, q) …}` is described by its two lookups: `lastNonQuant m k` is
  `ivmap[k][0]` (the last non-quantifier EP whose ARG0 is `k`; `k = none` is the key
  `None` of an EP without ARG0) and `lastQuant m k` is `ivmap[k][1]`
  (`qmap.get(k)`, the last quantifier whose ARG0 is `k`).
* Warnings are returned as a list of kinds, in the order they are raised.
* Python `set` iteration order is not modelled: `find_predicate_modifiers` only uses the
  identity of a component, never its position; the winner selection of
  `make_ids_unique` among EPs sharing an ARG0 iterates a `set`, the model iterates in
  EP order and `idOrderDetermined` tells the driver when that choice is observable.
-/
import Verif.Common.Sem

namespace Verif.C05
open Verif.Sem

inductive E where
  | indexError          -- `reps[lbl][0]` on an empty representative list
  | keyError
  | sem (e : Sem.Err)   -- error of the shared scope functions (proved unreachable)
deriving DecidableEq, Repr

inductive Warn where
  | brokenHcons         -- 'broken handle constraint: …'
  | noTop               -- 'unable to find a suitable TOP'
deriving DecidableEq, Repr

/-- `for` loop with early exit on an exception (structural, proof-friendly `foldlM`) -/
def foldE {α β : Type} (f : β → α → Except E β) : β → List α → Except E β
  | b, [] => .ok b
  | b, a :: as =>
    match f b a with
    | .error e => .error e
    | .ok b' => foldE f b' as

/-- list comprehension with early exit on an exception (`mapM`) -/
def mapE {α β : Type} (f : α → Except E β) : List α → Except E (List β)
  | [] => .ok []
  | a :: as =>
    match f a with
    | .error e => .error e
    | .ok b =>
      match mapE f as with
      | .error e => .error e
      | .ok bs => .ok (b :: bs)

structure ENode where
  id : Var
  predicate : String
  type : Option String
  /-- `Node.edges`: role → target id, in `dict` order -/
  edges : List (Role × Var)
  properties : Props
  carg : Option String
  lnk : Option (Int × Int)
  surface : Option String
  base : Option String
deriving DecidableEq, Repr, Inhabited

structure EDS where
  top : Option Var
  nodes : List ENode
deriving DecidableEq, Repr, Inhabited

abbrev Reps := List (Var × List Pred)
abbrev EdgeMap := List (Var × List (Role × Var))

def BV_ROLE : Role := "BV"
def PM_ROLE : Role := "ARG1"

/-- the `predicate_modifiers` argument: `False`, `True`, or a callable — the callable is
represented by the mapping it returns on this input. -/
inductive PM where
  | off
  | std
  | custom (addl : EdgeMap)
deriving Repr

/-! ### `ivmap` lookups -/

/-- `ivmap[k][0]` -/
def lastNonQuant (m : MRS) (k : Option Var) : Option Pred :=
  m.preds.reverse.find? (fun p => !p.2.isQuantifier && p.2.iv == k)

/-- `ivmap[k][1]` = `qmap.get(k)` -/
def lastQuant (m : MRS) (k : Option Var) : Option Pred :=
  m.preds.reverse.find? (fun p => p.2.isQuantifier && p.2.iv == k)

/-- `reps[lbl][0].id` -/
def firstRep : List Pred → Except E Var
  | p :: _ => .ok p.1
  | [] => .error .indexError

/-! ### `_mrs_get_top` -/

/-- `reps[lbl][0].id` paired with the warnings raised so far -/
def topOf (ps : List Pred) (w : List Warn) : Except E (Option Var × List Warn) :=
  match firstRep ps with
  | .error e => .error e
  | .ok t => .ok (some t, w)

def getTop (m : MRS) (reps : Reps) : Except E (Option Var × List Warn) :=
  let hc? : Option HCons := m.top.bind m.hcLast
  match hc?.bind (fun hc => dlookup hc.lo reps) with
  | some ps => topOf ps []
  | none =>
    let w : List Warn := if hc?.isSome then [.brokenHcons] else []
    match m.top.bind (fun t => dlookup t reps) with
    | some ps => topOf ps w
    | none =>
      match lastNonQuant m m.index with
      | some p =>
        match dlookup p.2.label reps with
        | some ps => topOf ps w
        | none => .ok (none, w ++ [.noTop])
      | none => .ok (none, w ++ [.noTop])

/-! ### `_mrs_args_to_basic_deps` -/

inductive Res where
  | edge (tgt : Var)
  | skip
  | warn
deriving DecidableEq, Repr

/-- the `if tgt in hcmap … elif tgt in reps … elif tgt in ivmap … else` cascade -/
def resolveRep (ps : List Pred) : Except E Res :=
  match firstRep ps with
  | .error e => .error e
  | .ok t => .ok (.edge t)

def resolveArg (m : MRS) (reps : Reps) (tgt : Var) : Except E Res :=
  match m.hcLast tgt with
  | some hc =>
    match dlookup hc.lo reps with
    | some ps => resolveRep ps
    | none => .ok .warn
  | none =>
    match dlookup tgt reps with
    | some ps => resolveRep ps
    | none =>
      match lastNonQuant m (some tgt) with
      | some p => .ok (.edge p.1)
      | none => .ok .skip

def depStep (m : MRS) (reps : Reps) (acc : List (Role × Var) × List Warn) (a : Role × Var) :
    Except E (List (Role × Var) × List Warn) :=
  match resolveArg m reps a.2 with
  | .error e => .error e
  | .ok (.edge t) => .ok (dset a.1 t acc.1, acc.2)
  | .ok .skip => .ok acc
  | .ok .warn => .ok (acc.1, acc.2 ++ [.brokenHcons])

/-- one iteration of `for src, roleargs in m.arguments().items()` -/
def depsOfPred (m : MRS) (reps : Reps) (acc : EdgeMap × List Warn) (p : Pred) :
    Except E (EdgeMap × List Warn) :=
  if (lastNonQuant m (some p.1)).isSome then
    match foldE (depStep m reps) ([], acc.2) (p.2.outArgs none) with
    | .error e => .error e
    | .ok (es, w) =>
      let d1 := dset p.1 es acc.1
      match lastQuant m (some p.1) with
      | some q => .ok (dset q.1 [(BV_ROLE, p.1)] d1, w)
      | none => .ok (d1, w)
  else .ok acc

def basicDeps (m : MRS) (reps : Reps) : Except E (EdgeMap × List Warn) :=
  foldE (depsOfPred m reps) ([], []) m.preds

/-! ### `_mrs_to_nodes` -/

/-- `m.properties(id)`: `self.variables[self[id].iv]` -/
def propertiesOf (m : MRS) (i : Var) : Except E Props :=
  match m.preds.reverse.find? (fun p => p.1 == i) with
  | none => .error .keyError
  | some p =>
    match p.2.iv with
    | none => .error .keyError
    | some v => .ok (m.props v)

def mkNode (m : MRS) (edges : EdgeMap) (p : Pred) : Except E ENode :=
  let es := (dlookup p.1 edges).getD []
  if p.2.isQuantifier then
    .ok { id := p.1, predicate := p.2.predicate, type := none, edges := es, properties := [],
          carg := p.2.carg, lnk := p.2.lnk, surface := p.2.surface, base := p.2.base }
  else
    match p.2.iv with
    | none => .error .keyError          -- `m.properties(None)` raises KeyError
    | some v =>
      match propertiesOf m v with
      | .error e => .error e
      | .ok props =>
        .ok { id := p.1, predicate := p.2.predicate, type := some v.sort, edges := es,
              properties := props, carg := p.2.carg, lnk := p.2.lnk, surface := p.2.surface,
              base := p.2.base }

/-! ### `find_predicate_modifiers` -/

def edgePairs (nodes : List ENode) : List (Var × Var) :=
  nodes.flatMap (fun n => n.edges.map (fun e => (n.id, e.2)))

/-- `ccmap[id]` -/
def ccOf (comps : List (List Var)) (i : Var) : Except E Nat :=
  match comps.findIdx? (fun c => i ∈ c) with
  | some k => .ok k
  | none => .error .keyError

/-- `addl.setdefault(src, {})[role] = tgt` -/
def addEdge (src : Var) (role : Role) (tgt : Var) (addl : EdgeMap) : EdgeMap :=
  dset src (dset role tgt ((dlookup src addl).getD [])) addl

/-- the body of `for other in eps[1:]` -/
def pmStep (comps : List (List Var)) (first : Pred) (st : List Nat × EdgeMap) (other : Pred) :
    Except E (List Nat × EdgeMap) :=
  match ccOf comps other.1 with
  | .error e => .error e
  | .ok occ =>
    let ty := ((dlookup PM_ROLE other.2.args).getD ⟨"u", 0⟩).sort
    if occ ∉ st.1 ∧ asciiLower ty = "u" then
      .ok (occ :: st.1, addEdge other.1 PM_ROLE first.1 st.2)
    else .ok st

/-- the body of `for _label, eps in representatives.items()` -/
def pmScope (comps : List (List Var)) (addl : EdgeMap) (s : Var × List Pred) : Except E EdgeMap :=
  match s.2 with
  | first :: other :: rest =>
    match ccOf comps first.1 with
    | .error e => .error e
    | .ok c0 =>
      match foldE (pmStep comps first) ([c0], addl) (other :: rest) with
      | .error e => .error e
      | .ok st => .ok st.2
  | _ => .ok addl

def findPredicateModifiers (m : MRS) (reps : Reps) (nodes : List ENode) : Except E EdgeMap :=
  match connectedComponents m.ids (edgePairs nodes) with
  | .error e => .error (.sem e)
  | .ok comps =>
    if comps.length > 1 then foldE (pmScope comps) [] reps else .ok []

/-- `for id, node_deps in addl_deps.items(): e[id].edges.update(node_deps)` -/
def updateEdges (es : List (Role × Var)) (upd : List (Role × Var)) : List (Role × Var) :=
  upd.foldl (fun acc rt => dset rt.1 rt.2 acc) es

def applyAddlOne (nodes : List ENode) (entry : Var × List (Role × Var)) : Except E (List ENode) :=
  if nodes.any (fun n => n.id == entry.1) then
    .ok (nodes.map (fun n => if n.id == entry.1 then { n with edges := updateEdges n.edges entry.2 } else n))
  else .error .keyError

def applyAddl (addl : EdgeMap) (nodes : List ENode) : Except E (List ENode) :=
  foldE applyAddlOne nodes addl

/-! ### `make_ids_unique` -/

def freshId (k : Nat) : Var := ⟨"_", k⟩

structure IdState where
  next : Nat                      -- the `count(start=1)` generator
  nids : List (Var × Var)
  used : List (Var × List Var)

/-- first loop of `make_ids_unique` -/
def assignStep (st : IdState) (p : Pred) : IdState :=
  match (if p.2.isQuantifier then none else p.2.iv) with
  | none => { next := st.next + 1, nids := dset p.1 (freshId st.next) st.nids,
              used := dpush (freshId st.next) p.1 st.used }
  | some v => { st with nids := dset p.1 v st.nids, used := dpush v p.1 st.used }

/-- `any(d in ep_ids for _, d in deps.get(n, []))` -/
def takesGroupMember (nodes : List ENode) (group : List Var) (n : Var) : Bool :=
  match nodes.reverse.find? (fun nd => nd.id == n) with
  | some nd => nd.edges.any (fun e => e.2 ∈ group)
  | none => false

/-- `sorted(ep_ids, key=…)` on booleans: stable, `False` first -/
def sortLosers (nodes : List ENode) (group : List Var) : List Var :=
  group.filter (fun n => !takesGroupMember nodes group n) ++
  group.filter (fun n => takesGroupMember nodes group n)

/-- second loop of `make_ids_unique`, one `used` entry -/
def reassignStep (nodes : List ENode) (st : Nat × List (Var × Var)) (entry : Var × List Var) :
    Nat × List (Var × Var) :=
  if entry.2.length > 1 then
    ((sortLosers nodes entry.2).drop 1).foldl
      (fun (s : Nat × List (Var × Var)) i => (s.1 + 1, dset i (freshId s.1) s.2)) st
  else st

/-- the final id map `nids` -/
def newIds (m : MRS) (nodes : List ENode) : List (Var × Var) :=
  let st := m.preds.foldl assignStep { next := 1, nids := [], used := [] }
  (st.used.foldl (reassignStep nodes) (st.next, st.nids)).2

/-- is the outcome of the second loop independent of the iteration order of the `set`s? -/
def idOrderDetermined (m : MRS) (nodes : List ENode) : Bool :=
  let st := m.preds.foldl assignStep { next := 1, nids := [], used := [] }
  st.used.all (fun entry =>
    entry.2.length ≤ 1 ||
    ((entry.2.filter (fun n => takesGroupMember nodes entry.2 n)).length ≤ 1 &&
     (entry.2.filter (fun n => !takesGroupMember nodes entry.2 n)).length ≤ 1))

def renameId (nids : List (Var × Var)) (i : Var) : Except E Var :=
  match dlookup i nids with
  | some j => .ok j
  | none => .error .keyError

def renameEdge (nids : List (Var × Var)) (e : Role × Var) : Except E (Role × Var) :=
  match renameId nids e.2 with
  | .error err => .error err
  | .ok t => .ok (e.1, t)

def renameNode (nids : List (Var × Var)) (n : ENode) : Except E ENode :=
  match renameId nids n.id with
  | .error err => .error err
  | .ok i =>
    match mapE (renameEdge nids) n.edges with
    | .error err => .error err
    | .ok es => .ok { n with id := i, edges := es }

def renameTop (nids : List (Var × Var)) : Option Var → Except E (Option Var)
  | none => .ok none
  | some t =>
    match renameId nids t with
    | .error err => .error err
    | .ok t' => .ok (some t')

def makeIdsUnique (m : MRS) (e : EDS) : Except E EDS :=
  let nids := newIds m e.nodes
  match renameTop nids e.top with
  | .error err => .error err
  | .ok top =>
    match mapE (renameNode nids) e.nodes with
    | .error err => .error err
    | .ok nodes => .ok { top := top, nodes := nodes }

/-! ### `from_mrs` -/

/-- the additional dependencies of the `predicate_modifiers` argument -/
def addlOf (pm : PM) (m : MRS) (reps : Reps) (nodes : List ENode) : Except E EdgeMap :=
  match pm with
  | .off => .ok []
  | .std => findPredicateModifiers m reps nodes
  | .custom a => .ok a

/-- `from_mrs` up to (not including) `make_ids_unique`, given the representatives -/
def fromMrsWith (pm : PM) (m : MRS) (reps : Reps) : Except E (EDS × List Warn) :=
  match getTop m reps with
  | .error e => .error e
  | .ok (top, w1) =>
    match basicDeps m reps with
    | .error e => .error e
    | .ok (deps, w2) =>
      match mapE (mkNode m deps) m.preds with
      | .error e => .error e
      | .ok nodes =>
        match addlOf pm m reps nodes with
        | .error e => .error e
        | .ok addl =>
          match applyAddl addl nodes with
          | .error e => .error e
          | .ok nodes' => .ok ({ top := top, nodes := nodes' }, w1 ++ w2)

/-- the EDS before `make_ids_unique`, with the warnings raised so far -/
def fromMrsRaw (pm : PM) (m : MRS) : Except E (EDS × List Warn) :=
  match m.representatives with
  | .error e => .error (.sem e)
  | .ok reps => fromMrsWith pm m reps

/-- `eds.from_mrs(m, predicate_modifiers=pm, unique_ids=uniq)` -/
def fromMrs (pm : PM) (uniq : Bool) (m : MRS) : Except E (EDS × List Warn) :=
  match fromMrsRaw pm m with
  | .error e => .error e
  | .ok (e, w) =>
    if uniq then
      match makeIdsUnique m e with
      | .error err => .error err
      | .ok e' => .ok (e', w)
    else .ok (e, w)

end Verif.C05
