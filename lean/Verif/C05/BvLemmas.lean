/-
C05 — "a quantifier has exactly one bound-variable edge to the predication it quantifies":
the final value of the dependency map at the id of a quantifier, and its survival through
predicate modifiers and `make_ids_unique`.  Core Lean only.
-/
import Verif.C05.GenLemmas

namespace Verif.C05
open Verif.Sem

/-! ### `_uniquify_ids` keeps the id of a non-quantifier under the intrinsic-variable property -/

theorem uniquify_spec : ∀ (l : List Var) (n : Nat) (seen : List Var),
    All2 (fun i b => i = b ∨ b.sort = "_" ∨ b ∈ seen ∨ 2 ≤ l.count b) (uniquify n seen l) l := by
  intro l
  induction l with
  | nil => intro n seen; exact All2.nil
  | cons b0 l' ih =>
    intro n seen
    unfold uniquify
    split
    · rename_i hmem
      refine All2.cons (Or.inr (Or.inr (Or.inl hmem))) ((ih (n + 1) (⟨"_", n⟩ :: seen)).imp ?_)
      intro i b _ _ h
      rcases h with h | h | h | h
      · exact Or.inl h
      · exact Or.inr (Or.inl h)
      · rcases List.mem_cons.1 h with rfl | h
        · exact Or.inr (Or.inl rfl)
        · exact Or.inr (Or.inr (Or.inl h))
      · refine Or.inr (Or.inr (Or.inr ?_))
        rw [List.count_cons]; omega
    · refine All2.cons (Or.inl rfl) ((ih n (b0 :: seen)).imp ?_)
      intro i b _ hb h
      rcases h with h | h | h | h
      · exact Or.inl h
      · exact Or.inr (Or.inl h)
      · rcases List.mem_cons.1 h with rfl | h
        · refine Or.inr (Or.inr (Or.inr ?_))
          have : 0 < List.count b l' := List.count_pos_iff.2 hb
          rw [List.count_cons]
          simp only [beq_self_eq_true, if_true]
          omega
        · exact Or.inr (Or.inr (Or.inl h))
      · refine Or.inr (Or.inr (Or.inr ?_))
        rw [List.count_cons]; omega

theorem baseId_eq_plain {ep : EP} {v : Var} (h1 : v.sort ≠ "_") (h2 : v.sort ≠ "q")
    (h : ep.baseId = v) : (if ep.isQuantifier then none else ep.iv) = some v := by
  unfold EP.baseId at h
  by_cases hq : ep.isQuantifier = true
  · rw [if_pos hq] at h
    rw [← h] at h2
    exact absurd rfl h2
  · rw [if_neg hq] at h
    rw [if_neg hq]
    cases hiv : ep.iv with
    | none => rw [hiv] at h; simp only [Option.getD_none] at h; rw [← h] at h1; exact absurd rfl h1
    | some u => rw [hiv] at h; simp only [Option.getD_some] at h; rw [h]

theorem count_baseId_le (v : Var) (h1 : v.sort ≠ "_") (h2 : v.sort ≠ "q") : ∀ (rels : List EP),
    List.count v (rels.map EP.baseId) ≤
    List.count v (rels.filterMap (fun e => if e.isQuantifier then none else e.iv)) := by
  intro rels
  induction rels with
  | nil => simp
  | cons ep rels ih =>
    simp only [List.map_cons, List.count_cons, List.filterMap_cons]
    by_cases hb : ep.baseId = v
    · have hf := baseId_eq_plain h1 h2 hb
      rw [hf]
      simp only [List.count_cons, hb, beq_self_eq_true, if_true]
      omega
    · have hb' : (ep.baseId == v) = false := by simpa using hb
      simp only [hb', Bool.false_eq_true, if_false, Nat.add_zero]
      split
      · exact ih
      · rw [List.count_cons]; omega

/-- under the intrinsic-variable property the id of a non-quantifier EP is its ARG0 -/
theorem id_eq_iv {m : MRS} (hiv : m.hasIVProperty = true) (hnr : NoReserved m) {p : Pred}
    (hp : p ∈ m.preds) (hq : p.2.isQuantifier = false) {v : Var} (hv : p.2.iv = some v) :
    p.1 = v := by
  obtain ⟨hs1, hs2⟩ := hnr p.2 (mem_rels_of_mem_preds m p hp) v hv
  have hbase : p.2.baseId = v := by
    unfold EP.baseId
    simp [hq, hv]
  have h := (All2.of_map_right EP.baseId
    (uniquify_spec (m.rels.map EP.baseId) (maxVid m.rels) [])).of_zip p hp
  rw [hbase] at h
  rcases h with h | h | h | h
  · exact h
  · exact absurd h hs1
  · exact absurd h List.not_mem_nil
  · have hle := count_baseId_le v hs1 hs2 m.rels
    have hnd := List.nodup_iff_count.1 (nonQuantIVs_nodup hiv) v
    unfold MRS.nonQuantIVs at hnd
    omega

theorem quantifier_id_sort {m : MRS} {q : Pred} (hq : q ∈ m.preds)
    (hqq : q.2.isQuantifier = true) : q.1.sort = "q" ∨ q.1.sort = "_" := by
  rcases preds_id_cases m q hq with h | h
  · left
    unfold EP.baseId at h
    rw [if_pos hqq] at h
    rw [h]
  · exact Or.inr h

/-! ### dictionaries -/

theorem dlookup_dset {κ ν : Type} [DecidableEq κ] (k k' : κ) (v : ν) (d : List (κ × ν)) :
    dlookup k (dset k' v d) = if k' = k then some v else dlookup k d := by
  induction d with
  | nil => simp [dset, dlookup]
  | cons a d ih =>
    obtain ⟨k0, v0⟩ := a
    by_cases h0 : k0 = k'
    · subst h0
      by_cases h1 : k0 = k <;> simp [dset, dlookup, h1]
    · by_cases h1 : k0 = k
      · subst h1
        have : ¬ k' = k0 := fun e => h0 e.symm
        simp [dset, dlookup, h0, this]
      · simp only [dset, if_neg h0, dlookup, if_neg h1, ih]

/-- at most one quantifier binds a variable -/
def UniqueQuant (m : MRS) : Prop :=
  ∀ q ∈ m.preds, ∀ q' ∈ m.preds, q.2.isQuantifier = true → q'.2.isQuantifier = true →
    q.2.iv.isSome = true → q.2.iv = q'.2.iv → q = q'

theorem foldE_append_ok {α β : Type} {f : β → α → Except E β} : ∀ (l1 l2 : List α) (b r : β),
    foldE f b (l1 ++ l2) = .ok r → ∃ b', foldE f b l1 = .ok b' ∧ foldE f b' l2 = .ok r := by
  intro l1
  induction l1 with
  | nil => intro l2 b r h; exact ⟨b, rfl, h⟩
  | cons a l1 ih =>
    intro l2 b r h
    cases hfa : f b a with
    | error e => simp [foldE, hfa] at h
    | ok b1 =>
      have h' : foldE f b1 (l1 ++ l2) = .ok r := by simpa [foldE, hfa] using h
      obtain ⟨b', h1, h2⟩ := ih l2 b1 r h'
      exact ⟨b', by simp [foldE, hfa, h1], h2⟩

/-! ### the dependency map at the id of a quantifier -/

set_option linter.unusedSectionVars false

section
variable {m : MRS} (hiv : m.hasIVProperty = true) (hnr : NoReserved m) (huq : UniqueQuant m)
  {q p : Pred} (hq : q ∈ m.preds) (hp : p ∈ m.preds) (hqq : q.2.isQuantifier = true)
  (hpq : p.2.isQuantifier = false) {v : Var} (hqv : q.2.iv = some v) (hpv : p.2.iv = some v)
include hiv hnr huq hq hp hqq hpq hqv hpv

theorem lastQuant_eq : lastQuant m (some v) = some q := by
  have hex : (lastQuant m (some v)).isSome = true := by
    unfold lastQuant
    rw [List.find?_isSome]
    exact ⟨q, List.mem_reverse.2 hq, by simp [hqq, hqv]⟩
  obtain ⟨q', hq'⟩ := Option.isSome_iff_exists.1 hex
  obtain ⟨h1, h2, h3⟩ := lastQuant_spec hq'
  rw [hq', huq q hq q' h1 hqq h2 (by simp [hqv]) (by rw [hqv, h3])]

theorem in_ivmap_plain {p' p'' : Pred} (h : lastNonQuant m (some p'.1) = some p'') :
    p'.1.sort ≠ "_" ∧ p'.1.sort ≠ "q" := by
  obtain ⟨h1, _, h3⟩ := lastNonQuant_spec h
  exact hnr p''.2 (mem_rels_of_mem_preds m p'' h1) p'.1 h3

/-- processing another predication leaves the entry of `q` untouched -/
theorem depsOfPred_other {reps : Reps} {acc acc1 : EdgeMap × List Warn} {p' : Pred}
    (hp' : p' ∈ m.preds) (hne : p' ≠ p) (h : depsOfPred m reps acc p' = .ok acc1) :
    dlookup q.1 acc1.1 = dlookup q.1 acc.1 := by
  have hid := ids_nodup hnr (completeIVs_of_ivProperty hiv)
  have hpid := id_eq_iv hiv hnr hp hpq hpv
  unfold depsOfPred at h
  split at h
  · rename_i hin
    obtain ⟨p'', hp''⟩ := Option.isSome_iff_exists.1 hin
    obtain ⟨hs1, hs2⟩ := in_ivmap_plain hiv hnr huq hq hp hqq hpq hqv hpv hp''
    have hne1 : ¬ p'.1 = q.1 := by
      intro e
      rcases quantifier_id_sort hq hqq with hh | hh
      · rw [e] at hs2; exact hs2 hh
      · rw [e] at hs1; exact hs1 hh
    split at h
    · exact absurd h (by simp)
    · rename_i es w' _
      split at h
      · rename_i q' hq'
        simp only [Except.ok.injEq] at h
        subst h
        obtain ⟨h1, h2, h3⟩ := lastQuant_spec hq'
        have hne2 : ¬ q'.1 = q.1 := by
          intro e
          have hqq' : q' = q := pred_eq_of_id_eq hid h1 hq e
          rw [hqq', hqv] at h3
          have : p'.1 = p.1 := by rw [hpid]; exact (Option.some.inj h3).symm
          exact hne (pred_eq_of_id_eq hid hp' hp this)
        simp only [dlookup_dset, if_neg hne2, if_neg hne1]
      · simp only [Except.ok.injEq] at h
        subst h
        simp only [dlookup_dset, if_neg hne1]
  · simp only [Except.ok.injEq] at h
    subst h
    rfl

/-- processing the quantified predication writes exactly the BV edge -/
theorem depsOfPred_self {reps : Reps} {acc acc1 : EdgeMap × List Warn}
    (h : depsOfPred m reps acc p = .ok acc1) :
    dlookup q.1 acc1.1 = some [(BV_ROLE, p.1)] := by
  have hpid := id_eq_iv hiv hnr hp hpq hpv
  have hin : (lastNonQuant m (some p.1)).isSome = true := by
    unfold lastNonQuant
    rw [List.find?_isSome]
    exact ⟨p, List.mem_reverse.2 hp, by simp [hpq, hpv, hpid]⟩
  have hlq : lastQuant m (some p.1) = some q := by
    rw [hpid]; exact lastQuant_eq hiv hnr huq hq hp hqq hpq hqv hpv
  unfold depsOfPred at h
  rw [if_pos hin] at h
  split at h
  · exact absurd h (by simp)
  · rw [hlq] at h
    simp only [Except.ok.injEq] at h
    subst h
    simp only [dlookup_dset, if_true]

/-- the final dependency map holds exactly the BV edge at the id of the quantifier -/
theorem basicDeps_bv {reps : Reps} {deps : EdgeMap} {w : List Warn}
    (h : basicDeps m reps = .ok (deps, w)) : dlookup q.1 deps = some [(BV_ROLE, p.1)] := by
  have hid := ids_nodup hnr (completeIVs_of_ivProperty hiv)
  unfold basicDeps at h
  obtain ⟨s, t, hst⟩ := List.append_of_mem hp
  have hnd : (s.map (·.1) ++ p.1 :: t.map (·.1)).Nodup := by
    have := hid
    rw [← preds_map_fst m, hst] at this
    simpa using this
  obtain ⟨_, hnd2, hnd3⟩ := List.nodup_append.1 hnd
  rw [hst] at h
  obtain ⟨b1, _, h2⟩ := foldE_append_ok s (p :: t) _ _ h
  unfold foldE at h2
  split at h2
  · exact absurd h2 (by simp)
  · rename_i b2 hb2
    have hself := depsOfPred_self hiv hnr huq hq hp hqq hpq hqv hpv hb2
    have := foldE_inv (f := depsOfPred m reps)
      (fun acc => dlookup q.1 acc.1 = some [(BV_ROLE, p.1)]) t b2 (deps, w)
      (by
        intro acc p' acc' hacc hp't hstep
        have hp'm : p' ∈ m.preds := by rw [hst]; simp [hp't]
        have hne : p' ≠ p := by
          intro e
          have := (List.nodup_cons.1 hnd2).1
          exact this (List.mem_map.2 ⟨p', hp't, by rw [e]⟩)
        rw [depsOfPred_other hiv hnr huq hq hp hqq hpq hqv hpv hp'm hne hstep]
        exact hacc)
      hself h2
    exact this

end

/-! ### BV edges survive predicate modifiers and renaming -/

def isBV (rt : Role × Var) : Bool := rt.1 == BV_ROLE

theorem filter_dset_ne {k : Role} {v : Var} (hk : k ≠ BV_ROLE) : ∀ (d : List (Role × Var)),
    (dset k v d).filter isBV = d.filter isBV := by
  intro d
  induction d with
  | nil => simp [dset, isBV, hk]
  | cons a d ih =>
    obtain ⟨k0, v0⟩ := a
    unfold dset
    split
    · rename_i h0
      have : ¬ k0 = BV_ROLE := by rw [h0]; exact hk
      simp [isBV, this]
    · simp only [List.filter_cons, ih]

theorem updateEdges_filter : ∀ (upd es : List (Role × Var)), (∀ rt ∈ upd, rt.1 ≠ BV_ROLE) →
    (updateEdges es upd).filter isBV = es.filter isBV := by
  intro upd
  induction upd with
  | nil => intro es _; rfl
  | cons u us ih =>
    intro es h
    unfold updateEdges
    simp only [List.foldl_cons]
    have := ih (dset u.1 u.2 es) (fun rt hrt => h rt (List.mem_cons_of_mem _ hrt))
    unfold updateEdges at this
    rw [this, filter_dset_ne (h u List.mem_cons_self)]

theorem applyAddl_bv : ∀ (addl : EdgeMap) (nodes nodes' : List ENode),
    (∀ k es, (k, es) ∈ addl → ∀ rt ∈ es, rt.1 ≠ BV_ROLE) →
    applyAddl addl nodes = .ok nodes' →
    All2 (fun n n' => n'.edges.filter isBV = n.edges.filter isBV) nodes nodes' := by
  intro addl
  induction addl with
  | nil =>
    intro nodes nodes' _ h
    simp only [applyAddl, foldE, Except.ok.injEq] at h
    subst h
    exact All2.refl_of (fun _ _ => rfl)
  | cons entry rest ih =>
    intro nodes nodes' hr h
    unfold applyAddl foldE at h
    split at h
    · exact absurd h (by simp)
    · rename_i nodes1 h1
      have ih' := ih nodes1 nodes' (fun k es hk => hr k es (List.mem_cons_of_mem _ hk)) h
      unfold applyAddlOne at h1
      split at h1
      · simp only [Except.ok.injEq] at h1
        subst h1
        have hstep := All2.map_right (fun n : ENode =>
          if n.id == entry.1 then { n with edges := updateEdges n.edges entry.2 } else n) nodes
        refine All2.comp hstep ih' ?_
        intro a b c hab hbc
        subst hab
        rw [hbc]
        by_cases hk : (a.id == entry.1) = true
        · simp only [hk, if_true]
          exact updateEdges_filter _ _ (hr entry.1 entry.2 List.mem_cons_self)
        · simp only [hk]
          rfl
      · exact absurd h1 (by simp)

theorem All2.and {α β : Type} {R S : α → β → Prop} {l : List α} {l' : List β}
    (h1 : All2 R l l') (h2 : All2 S l l') : All2 (fun a b => R a b ∧ S a b) l l' := by
  induction h1 with
  | nil => exact All2.nil
  | cons hr _ ih =>
    cases h2 with
    | cons hs hrest => exact All2.cons ⟨hr, hs⟩ (ih hrest)

theorem filter_all2 {nids : List (Var × Var)} {es es' : List (Role × Var)}
    (h : All2 (fun e e' => e'.1 = e.1 ∧ renameId nids e.2 = .ok e'.2) es es') :
    All2 (fun e e' => e'.1 = e.1 ∧ renameId nids e.2 = .ok e'.2) (es.filter isBV) (es'.filter isBV) := by
  induction h with
  | nil => exact All2.nil
  | @cons a b as bs hr _ ih =>
    have hab : isBV b = isBV a := by unfold isBV; rw [hr.1]
    simp only [List.filter_cons, hab]
    split
    · exact All2.cons hr ih
    · exact ih

theorem All2.singleton_left {α β : Type} {R : α → β → Prop} {a : α} {X : List β}
    (h : All2 R [a] X) : ∃ x, X = [x] ∧ R a x := by
  cases h with
  | cons hr hrest => cases hrest; exact ⟨_, rfl, hr⟩

/-- the roles of the additional dependencies of `predicate_modifiers ∈ {False, True}` -/
theorem addl_roles {pm : PM} {m : MRS} {reps : Reps} (hr : RepsOK m reps) (hid : m.ids.Nodup)
    (hpm : pm = .off ∨ pm = .std) {nodes : List ENode} {addl : EdgeMap}
    (h : addlOf pm m reps nodes = .ok addl) :
    ∀ k es, (k, es) ∈ addl → ∀ rt ∈ es, rt.1 ≠ BV_ROLE := by
  rcases hpm with rfl | rfl
  · simp only [addlOf, Except.ok.injEq] at h
    subst h
    intro k es hk; simp at hk
  · intro k es hk rt hrt
    obtain ⟨_, _, _, _, _, _, hj⟩ := findPredicateModifiers_ok hr hid h k es hk rt hrt
    rw [hj.1]
    decide

/-! ### the theorem -/

theorem bv_edge_gen {pm : PM} {uniq : Bool} {m : MRS} (hiv : m.hasIVProperty = true)
    (hnr : NoReserved m) (huq : UniqueQuant m)
    (hroles : ∀ reps nodes addl, RepsOK m reps → addlOf pm m reps nodes = .ok addl →
      ∀ k es, (k, es) ∈ addl → ∀ rt ∈ es, rt.1 ≠ BV_ROLE)
    {e : EDS} {w : List Warn} (h : fromMrs pm uniq m = .ok (e, w))
    {qn pn : Pred × ENode} (hqn : qn ∈ m.preds.zip e.nodes) (hpn : pn ∈ m.preds.zip e.nodes)
    (hqq : qn.1.2.isQuantifier = true) (hpq : pn.1.2.isQuantifier = false)
    {v : Var} (hqv : qn.1.2.iv = some v) (hpv : pn.1.2.iv = some v) :
    qn.2.edges.filter isBV = [(BV_ROLE, pn.2.id)] := by
  have hid := ids_nodup hnr (completeIVs_of_ivProperty hiv)
  have hq : qn.1 ∈ m.preds := (List.of_mem_zip hqn).1
  have hp : pn.1 ∈ m.preds := (List.of_mem_zip hpn).1
  -- the run before `make_ids_unique`
  have hrawbv : ∀ {raw : EDS}, fromMrsRaw pm m = .ok (raw, w) →
      All2 (fun p' n => n.id = p'.1 ∧ (p' = qn.1 → n.edges.filter isBV = [(BV_ROLE, pn.1.1)]))
        m.preds raw.nodes := by
    intro raw hraw
    obtain ⟨reps, hreps, hwith⟩ := fromMrsRaw_decomp hraw
    have hr := representatives_repsOK hreps
    obtain ⟨_, _, deps, _, nodes, addl, _, h2, h3, h4, h5, _, _⟩ := fromMrsWith_decomp hwith
    have hbv := basicDeps_bv hiv hnr huq hq hp hqq hpq hqv hpv h2
    have hA := applyAddl_bv addl nodes raw.nodes (hroles reps nodes addl hr h4) h5
    have hB := applyAddl_spec addl nodes raw.nodes h5
    have hN := nodes_spec hnr h3
    refine All2.comp hN (hA.and hB) ?_
    intro p' n n' ⟨h1, h2', _⟩ ⟨h6, _, h7, _⟩
    refine ⟨by rw [h7, h1], fun hpq' => ?_⟩
    rw [h6, h2', hpq', hbv]
    simp [isBV]
  cases uniq with
  | false =>
    have hraw := fromMrs_false_decomp h
    have hall := hrawbv hraw
    rw [(hall.of_zip qn hqn).2 rfl, (hall.of_zip pn hpn).1]
  | true =>
    obtain ⟨raw, hraw, _, hnodes⟩ := fromMrs_true_decomp h
    have hR := (mapE_forall₂ hnodes).imp (fun _ _ _ _ h => renameNode_spec h)
    have hC := All2.comp_zip (hrawbv hraw) hR
    obtain ⟨nq, _, ⟨_, hqbv⟩, ⟨_, _, hqe⟩⟩ := hC.of_zip qn hqn
    obtain ⟨np, _, ⟨hpid, _⟩, ⟨_, hpren, _⟩⟩ := hC.of_zip pn hpn
    have hF := filter_all2 hqe
    rw [hqbv rfl] at hF
    obtain ⟨x, hX, hx1, hx2⟩ := hF.singleton_left
    rw [← hpid, hpren] at hx2
    simp only [Except.ok.injEq] at hx2
    simp only at hx1
    rw [hX, show x = (BV_ROLE, pn.2.id) from Prod.ext hx1 hx2.symm]

theorem bv_edge {pm : PM} {uniq : Bool} {m : MRS} (hiv : m.hasIVProperty = true)
    (hnr : NoReserved m) (huq : UniqueQuant m) (hpm : pm = .off ∨ pm = .std)
    {e : EDS} {w : List Warn} (h : fromMrs pm uniq m = .ok (e, w))
    {qn pn : Pred × ENode} (hqn : qn ∈ m.preds.zip e.nodes) (hpn : pn ∈ m.preds.zip e.nodes)
    (hqq : qn.1.2.isQuantifier = true) (hpq : pn.1.2.isQuantifier = false)
    {v : Var} (hqv : qn.1.2.iv = some v) (hpv : pn.1.2.iv = some v) :
    qn.2.edges.filter isBV = [(BV_ROLE, pn.2.id)] :=
  bv_edge_gen hiv hnr huq
    (fun _ _ _ hr h4 => addl_roles hr (ids_nodup hnr (completeIVs_of_ivProperty hiv)) hpm h4)
    h hqn hpn hqq hpq hqv hpv

end Verif.C05
