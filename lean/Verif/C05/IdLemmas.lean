/-
C05 — analysis of the two loops of `make_ids_unique` (`newIds`) under the intrinsic-variable
property: every group of EPs sharing a new id is a singleton, the second loop changes nothing
(so the iteration order of the Python `set`s is never observed), and the new ids are the list
`lkbIds 1 m.preds` (ARG0 for a non-quantifier, `_1, _2, …` in order for quantifiers).
Core Lean only.
-/
import Verif.C05.Lemmas

namespace Verif.C05
open Verif.Sem

/-! ### decomposition of a successful run -/

theorem fromMrsRaw_decomp {pm : PM} {m : MRS} {e : EDS} {w : List Warn}
    (h : fromMrsRaw pm m = .ok (e, w)) :
    ∃ reps, m.representatives = .ok reps ∧ fromMrsWith pm m reps = .ok (e, w) := by
  unfold fromMrsRaw at h
  split at h
  · exact absurd h (by simp)
  · rename_i reps hreps
    exact ⟨reps, hreps, h⟩

theorem fromMrs_false_decomp {pm : PM} {m : MRS} {e : EDS} {w : List Warn}
    (h : fromMrs pm false m = .ok (e, w)) : fromMrsRaw pm m = .ok (e, w) := by
  unfold fromMrs at h
  split at h
  · exact absurd h (by simp)
  · rename_i raw w' hraw
    simp only [Bool.false_eq_true, if_false, Except.ok.injEq, Prod.mk.injEq] at h
    obtain ⟨rfl, rfl⟩ := h
    exact hraw

theorem fromMrs_true_decomp {pm : PM} {m : MRS} {e : EDS} {w : List Warn}
    (h : fromMrs pm true m = .ok (e, w)) :
    ∃ raw, fromMrsRaw pm m = .ok (raw, w) ∧
      renameTop (newIds m raw.nodes) raw.top = .ok e.top ∧
      mapE (renameNode (newIds m raw.nodes)) raw.nodes = .ok e.nodes := by
  unfold fromMrs at h
  split at h
  · exact absurd h (by simp)
  · rename_i raw w' hraw
    simp only [if_true] at h
    split at h
    · exact absurd h (by simp)
    · rename_i e' he'
      simp only [Except.ok.injEq, Prod.mk.injEq] at h
      obtain ⟨rfl, rfl⟩ := h
      unfold makeIdsUnique at he'
      dsimp only at he'
      split at he'
      · exact absurd he' (by simp)
      · rename_i top' htop'
        split at he'
        · exact absurd he' (by simp)
        · rename_i nodes' hnodes'
          simp only [Except.ok.injEq] at he'
          subst he'
          exact ⟨raw, hraw, htop', hnodes'⟩

/-! ### dictionaries: a new key is appended -/

theorem dset_of_not_mem {κ ν : Type} [DecidableEq κ] {k : κ} {v : ν} {d : List (κ × ν)}
    (h : k ∉ dkeys d) : dset k v d = d ++ [(k, v)] := by
  induction d with
  | nil => rfl
  | cons a d ih =>
    obtain ⟨k', v'⟩ := a
    simp only [dkeys, List.map_cons, List.mem_cons, not_or] at h
    have hne : ¬ k' = k := fun e => h.1 e.symm
    simp only [dset, if_neg hne, List.cons_append]
    rw [ih (by simpa [dkeys] using h.2)]

theorem dpush_of_not_mem {κ β : Type} [DecidableEq κ] {k : κ} {x : β} {d : List (κ × List β)}
    (h : k ∉ dkeys d) : dpush k x d = d ++ [(k, [x])] := by
  induction d with
  | nil => rfl
  | cons a d ih =>
    obtain ⟨k', v'⟩ := a
    simp only [dkeys, List.map_cons, List.mem_cons, not_or] at h
    have hne : ¬ k' = k := fun e => h.1 e.symm
    simp only [dpush, if_neg hne, List.cons_append]
    rw [ih (by simpa [dkeys] using h.2)]

theorem dkeys_append_singleton {κ ν : Type} (d : List (κ × ν)) (k : κ) (v : ν) :
    dkeys (d ++ [(k, v)]) = dkeys d ++ [k] := by
  simp [dkeys]

/-! ### the ids of the LKB method -/

/-- the `nid` chosen by the first loop before numbering: `none` = "take the next `_k`" -/
def ivKey (p : Pred) : Option Var := if p.2.isQuantifier then none else p.2.iv

/-- new ids, in EP order: `_k, _(k+1), …` for quantifiers and EPs without ARG0, else the ARG0 -/
def lkbIds : Nat → List Pred → List Var
  | _, [] => []
  | k, p :: ps =>
    match ivKey p with
    | none => freshId k :: lkbIds (k + 1) ps
    | some v => v :: lkbIds k ps

theorem lkbIds_length : ∀ (ps : List Pred) (k : Nat), (lkbIds k ps).length = ps.length := by
  intro ps
  induction ps with
  | nil => intro k; rfl
  | cons p ps ih =>
    intro k
    unfold lkbIds
    split <;> simp [ih]

theorem lkbIds_mem : ∀ (ps : List Pred) (k : Nat) (x : Var), x ∈ lkbIds k ps →
    (x.sort = "_" ∧ k ≤ x.vid) ∨ x ∈ ps.filterMap ivKey := by
  intro ps
  induction ps with
  | nil => intro k x hx; simp [lkbIds] at hx
  | cons p ps ih =>
    intro k x hx
    unfold lkbIds at hx
    split at hx
    · rename_i hk
      rcases List.mem_cons.1 hx with rfl | hx
      · exact Or.inl ⟨rfl, Nat.le_refl _⟩
      · rcases ih (k + 1) x hx with ⟨h1, h2⟩ | h
        · exact Or.inl ⟨h1, Nat.le_of_succ_le h2⟩
        · right; simp only [List.filterMap_cons, hk]; exact h
    · rename_i v hk
      rcases List.mem_cons.1 hx with rfl | hx
      · right; simp only [List.filterMap_cons, hk]; exact List.mem_cons_self
      · rcases ih k x hx with h | h
        · exact Or.inl h
        · right; simp only [List.filterMap_cons, hk]; exact List.mem_cons_of_mem _ h

theorem lkbIds_nodup : ∀ (ps : List Pred) (k : Nat), (ps.filterMap ivKey).Nodup →
    (∀ v ∈ ps.filterMap ivKey, v.sort ≠ "_") → (lkbIds k ps).Nodup := by
  intro ps
  induction ps with
  | nil => intro k _ _; exact List.nodup_nil
  | cons p ps ih =>
    intro k hnd hs
    unfold lkbIds
    split
    · rename_i hk
      simp only [List.filterMap_cons, hk] at hnd hs
      refine List.nodup_cons.2 ⟨?_, ih (k + 1) hnd hs⟩
      intro hmem
      rcases lkbIds_mem ps (k + 1) _ hmem with ⟨_, h2⟩ | h
      · exact Nat.not_succ_le_self k h2
      · exact hs _ h rfl
    · rename_i v hk
      simp only [List.filterMap_cons, hk] at hnd hs
      obtain ⟨hv, hnd'⟩ := List.nodup_cons.1 hnd
      refine List.nodup_cons.2 ⟨?_, ih k hnd' (fun x hx => hs x (List.mem_cons_of_mem _ hx))⟩
      intro hmem
      rcases lkbIds_mem ps k v hmem with ⟨h1, _⟩ | h
      · exact hs v List.mem_cons_self h1
      · exact hv h

/-! ### first loop -/

theorem assign_fold : ∀ (ps : List Pred) (st : IdState),
    (∀ p ∈ ps, p.1 ∉ dkeys st.nids) → (ps.map (·.1)).Nodup →
    (∀ x ∈ lkbIds st.next ps, x ∉ dkeys st.used) → (lkbIds st.next ps).Nodup →
    (ps.foldl assignStep st).nids = st.nids ++ (ps.map (·.1)).zip (lkbIds st.next ps) ∧
    (ps.foldl assignStep st).used =
      st.used ++ (lkbIds st.next ps).zip (ps.map (fun p => [p.1])) := by
  intro ps
  induction ps with
  | nil => intro st _ _ _ _; simp [lkbIds]
  | cons p ps ih =>
    intro st h1 h2 h3 h4
    have hp : p.1 ∉ dkeys st.nids := h1 p List.mem_cons_self
    simp only [List.map_cons, List.nodup_cons] at h2
    simp only [List.foldl_cons]
    cases hk : ivKey p with
    | none =>
      have hl : lkbIds st.next (p :: ps) = freshId st.next :: lkbIds (st.next + 1) ps := by
        simp only [lkbIds, hk]
      rw [hl] at h3 h4 ⊢
      have hstep : assignStep st p =
          { next := st.next + 1, nids := st.nids ++ [(p.1, freshId st.next)],
            used := st.used ++ [(freshId st.next, [p.1])] } := by
        unfold assignStep
        have : (if p.2.isQuantifier then none else p.2.iv) = none := hk
        rw [this]
        simp only
        rw [dset_of_not_mem hp, dpush_of_not_mem (h3 _ List.mem_cons_self)]
      rw [hstep]
      obtain ⟨hx, hnd⟩ := List.nodup_cons.1 h4
      have := ih { next := st.next + 1, nids := st.nids ++ [(p.1, freshId st.next)],
                   used := st.used ++ [(freshId st.next, [p.1])] }
        (by
          intro q hq
          rw [dkeys_append_singleton]
          intro hmem
          rcases List.mem_append.1 hmem with hmem | hmem
          · exact h1 q (List.mem_cons_of_mem _ hq) hmem
          · rw [List.mem_singleton] at hmem
            exact h2.1 (List.mem_map.2 ⟨q, hq, hmem⟩))
        h2.2
        (by
          intro x hxm
          rw [dkeys_append_singleton]
          intro hmem
          rcases List.mem_append.1 hmem with hmem | hmem
          · exact h3 x (List.mem_cons_of_mem _ hxm) hmem
          · rw [List.mem_singleton] at hmem
            exact hx (hmem ▸ hxm))
        hnd
      simp only at this
      rw [this.1, this.2]
      simp [List.append_assoc]
    | some v =>
      have hl : lkbIds st.next (p :: ps) = v :: lkbIds st.next ps := by
        simp only [lkbIds, hk]
      rw [hl] at h3 h4 ⊢
      have hstep : assignStep st p =
          { next := st.next, nids := st.nids ++ [(p.1, v)], used := st.used ++ [(v, [p.1])] } := by
        unfold assignStep
        have : (if p.2.isQuantifier then none else p.2.iv) = some v := hk
        rw [this]
        simp only
        rw [dset_of_not_mem hp, dpush_of_not_mem (h3 _ List.mem_cons_self)]
      rw [hstep]
      obtain ⟨hx, hnd⟩ := List.nodup_cons.1 h4
      have := ih { next := st.next, nids := st.nids ++ [(p.1, v)], used := st.used ++ [(v, [p.1])] }
        (by
          intro q hq
          rw [dkeys_append_singleton]
          intro hmem
          rcases List.mem_append.1 hmem with hmem | hmem
          · exact h1 q (List.mem_cons_of_mem _ hq) hmem
          · rw [List.mem_singleton] at hmem
            exact h2.1 (List.mem_map.2 ⟨q, hq, hmem⟩))
        h2.2
        (by
          intro x hxm
          rw [dkeys_append_singleton]
          intro hmem
          rcases List.mem_append.1 hmem with hmem | hmem
          · exact h3 x (List.mem_cons_of_mem _ hxm) hmem
          · rw [List.mem_singleton] at hmem
            exact hx (hmem ▸ hxm))
        hnd
      simp only at this
      rw [this.1, this.2]
      simp [List.append_assoc]

/-! ### second loop: nothing to do when every group is a singleton -/

theorem reassign_noop (nodes : List ENode) : ∀ (used : List (Var × List Var))
    (s : Nat × List (Var × Var)), (∀ entry ∈ used, entry.2.length ≤ 1) →
    used.foldl (reassignStep nodes) s = s := by
  intro used
  induction used with
  | nil => intro s _; rfl
  | cons entry rest ih =>
    intro s h
    simp only [List.foldl_cons]
    have h1 : ¬ entry.2.length > 1 := Nat.not_lt.2 (h entry List.mem_cons_self)
    unfold reassignStep
    rw [if_neg h1]
    exact ih s (fun e he => h e (List.mem_cons_of_mem _ he))

theorem zip_singletons_length (vs : List Var) (ps : List Pred) :
    ∀ entry ∈ vs.zip (ps.map (fun p => [p.1])), entry.2.length ≤ 1 := by
  intro entry he
  have := (List.of_mem_zip he).2
  obtain ⟨p, _, hp⟩ := List.mem_map.1 this
  rw [← hp]; exact Nat.le_refl _

/-! ### the intrinsic-variable property in the form needed here -/

theorem filterMap_ivKey (m : MRS) : m.preds.filterMap ivKey = m.nonQuantIVs := by
  unfold MRS.nonQuantIVs
  rw [← preds_map_snd m, List.filterMap_map]
  rfl

theorem nonQuantIVs_nodup {m : MRS} (h : m.hasIVProperty = true) : m.nonQuantIVs.Nodup := by
  unfold MRS.hasIVProperty at h
  simp only [Bool.and_eq_true] at h
  have h2 := h.2
  unfold MRS.hasUniqueIVs at h2
  exact (eraseDups_length_eq_iff _).1 (by simpa using h2)

theorem completeIVs_of_ivProperty {m : MRS} (h : m.hasIVProperty = true) :
    m.hasCompleteIVs = true := by
  unfold MRS.hasIVProperty at h
  simp only [Bool.and_eq_true] at h
  exact h.1

theorem nonQuantIVs_plain {m : MRS} (hnr : NoReserved m) :
    ∀ v ∈ m.nonQuantIVs, v.sort ≠ "_" ∧ v.sort ≠ "q" := by
  intro v hv
  unfold MRS.nonQuantIVs at hv
  obtain ⟨ep, hep, hf⟩ := List.mem_filterMap.1 hv
  by_cases hq : ep.isQuantifier = true
  · simp [hq] at hf
  · simp only [hq] at hf
    exact hnr ep hep v (by simpa using hf)

/-- under the intrinsic-variable property the id map of `make_ids_unique` is the EP ids zipped
with `lkbIds`; no group of EPs shares a new id, so the second loop (and with it the iteration
order of the Python sets) has no effect -/
theorem newIds_eq {m : MRS} (hiv : m.hasIVProperty = true) (hnr : NoReserved m)
    (nodes : List ENode) : newIds m nodes = m.ids.zip (lkbIds 1 m.preds) := by
  have hid := ids_nodup hnr (completeIVs_of_ivProperty hiv)
  have hnd : (lkbIds 1 m.preds).Nodup :=
    lkbIds_nodup m.preds 1 (by rw [filterMap_ivKey]; exact nonQuantIVs_nodup hiv)
      (by rw [filterMap_ivKey]; exact fun v hv => (nonQuantIVs_plain hnr v hv).1)
  obtain ⟨h1, h2⟩ := assign_fold m.preds { next := 1, nids := [], used := [] }
    (by intro p _; simp [dkeys]) (by rw [preds_map_fst]; exact hid)
    (by intro x _; simp [dkeys]) hnd
  unfold newIds
  dsimp only
  rw [reassign_noop nodes _ _ (by
    rw [h2]; simp only [List.nil_append]; exact zip_singletons_length _ _)]
  rw [h1]
  simp only [List.nil_append]
  rw [preds_map_fst]

/-! ### the ids after renaming -/

theorem lookup_zip_all2 : ∀ (ps : List Pred) (vs : List Var), (ps.map (·.1)).Nodup →
    ps.length = vs.length →
    All2 (fun p v => dlookup p.1 ((ps.map (·.1)).zip vs) = some v) ps vs := by
  intro ps
  induction ps with
  | nil =>
    intro vs _ hl
    cases vs with
    | nil => exact All2.nil
    | cons v vs => simp at hl
  | cons p ps ih =>
    intro vs hnd hl
    cases vs with
    | nil => simp at hl
    | cons v vs =>
      simp only [List.map_cons, List.nodup_cons] at hnd
      simp only [List.length_cons, Nat.add_right_cancel_iff] at hl
      refine All2.cons (by simp [dlookup]) ((ih vs hnd.2 hl).imp ?_)
      intro q x hq _ hqx
      have hne : ¬ p.1 = q.1 := fun e => hnd.1 (List.mem_map.2 ⟨q, hq, e.symm⟩)
      simp only [List.map_cons, List.zip_cons_cons, dlookup, if_neg hne]
      exact hqx

theorem All2.functional {α β γ δ : Type} {R : α → β → Prop} {S : α → γ → Prop} {g : β → δ}
    {h : γ → δ} {l : List α} {a : List β} {b : List γ} (h1 : All2 R l a) (h2 : All2 S l b)
    (hf : ∀ x y z, R x y → S x z → g y = h z) : a.map g = b.map h := by
  induction h1 generalizing b with
  | nil => cases h2; rfl
  | cons hr _ ih =>
    cases h2 with
    | cons hs hrest => simp [hf _ _ _ hr hs, ih hrest]

theorem renameId_iff {nids : List (Var × Var)} {i j : Var} :
    renameId nids i = .ok j ↔ dlookup i nids = some j := by
  unfold renameId
  cases dlookup i nids <;> simp

/-- with `unique_ids=True` the node identifiers are `lkbIds 1 m.preds` -/
theorem fromMrs_ids_lkb {pm : PM} {m : MRS} (hiv : m.hasIVProperty = true) (hnr : NoReserved m)
    {e : EDS} {w : List Warn} (h : fromMrs pm true m = .ok (e, w)) :
    e.nodes.map (·.id) = lkbIds 1 m.preds := by
  obtain ⟨raw, hraw, _, hnodes⟩ := fromMrs_true_decomp h
  obtain ⟨reps, _, hwith⟩ := fromMrsRaw_decomp hraw
  have hN := fromMrsWith_shape hnr hwith
  have hR := (mapE_forall₂ hnodes).imp (fun _ _ _ _ h => renameNode_spec h)
  have hA : All2 (fun (p : Pred) (n : ENode) =>
      dlookup p.1 (m.ids.zip (lkbIds 1 m.preds)) = some n.id) m.preds e.nodes := by
    refine All2.comp hN hR ?_
    intro p n n' ⟨h1, _⟩ ⟨_, h4, _⟩
    rw [newIds_eq hiv hnr, h1] at h4
    exact renameId_iff.1 h4
  have hid := ids_nodup hnr (completeIVs_of_ivProperty hiv)
  have hB := lookup_zip_all2 m.preds (lkbIds 1 m.preds)
    (by rw [preds_map_fst]; exact hid) (lkbIds_length _ _).symm
  rw [preds_map_fst] at hB
  have := All2.functional (g := fun n : ENode => n.id) (h := fun v : Var => v) hA hB
    (by intro x y z hy hz; rw [hy] at hz; exact Option.some.inj hz)
  simpa using this

end Verif.C05
