/-
C05 — the PUBLIC entry points of `delphin.eds` around the modelled core (`Model.lean`), with every
parameter they have:

* `eds.from_mrs(m, predicate_modifiers, unique_ids, representative_priority)`  → `fromMrsApi`
    - `predicate_modifiers`: `True` / a falsy value / a callable (`PMArg`).  A callable is a FUNCTION
      of what the code hands it (`UserFn`: the EDS built so far, the MRS, the representatives), not
      just the mapping it happens to return, so the calling protocol is part of the model;
      `if predicate_modifiers is True: predicate_modifiers = find_predicate_modifiers` is modelled
      literally (`userFnOf`);
    - `representative_priority`: `None` or a ranking function (`Key`), threaded to
      `scope.representatives` (`representativesK`) and from there to the top, the dependencies and
      the predicate modifiers;
    - `lnk=m.lnk, surface=m.surface, identifier=m.identifier` (`Doc`, `fromMrsDoc`);
* `eds.find_predicate_modifiers(e, m, representatives=None)`                    → `findPM`
* `eds.make_ids_unique(e, m)`                                                    → `Model.makeIdsUnique`
* the documented staged use of the three (`from_mrs(False, False)`, then `find_predicate_modifiers`,
  `e[id].edges.update(…)`, then `make_ids_unique`)                               → `stagedApi`.

`Model.lean` is left as it is (other libraries import it); `ApiLemmas.lean` proves that this layer
coincides with `Model.fromMrs` where both are defined.
-/
import Verif.C05.Model

namespace Verif.C05
open Verif.Sem

/-- `representative_priority`: a rank per predication; Python sorts by it (stable). -/
abbrev Key := Pred → Nat × Nat

/-- `a < b` for the rank tuples -/
def keyLt (a b : Nat × Nat) : Bool := a.1 < b.1 || (a.1 == b.1 && a.2 < b.2)

/-- STABLE insertion (Python's `list.sort(key=…)` is stable): `x` precedes the elements of the
sorted tail — all of which came after it — unless their rank is strictly smaller.  (`Sem.sortBy`
puts `x` behind elements of EQUAL rank; the default priority never produces equal ranks, a
user-supplied one may.) -/
def insertS (key : Key) (x : Pred) : List Pred → List Pred
  | [] => [x]
  | y :: ys => if keyLt (key y) (key x) then y :: insertS key x ys else x :: y :: ys

def sortS (key : Key) : List Pred → List Pred
  | [] => []
  | x :: xs => insertS key x (sortS key xs)

/-- `scope.representatives(m, priority=key)`; `none` is the default priority
(`_make_representative_priority(m)`). -/
def representativesK (m : MRS) (key : Option Key) : Except Sem.Err Reps :=
  match key with
  | none => m.representatives
  | some k =>
    match m.descendants with
    | .error e => .error e
    | .ok descs =>
      let descIds := fun j => ((dlookup j descs).getD []).map (fun p : Pred => p.1)
      .ok (m.scopeMap.map (fun s =>
        (s.1, sortS k (candidates (fun p : Pred => p.1) m.nsArgs descIds s.2))))

/-- a user-supplied `predicate_modifiers(e, m, representatives=reps)` -/
abbrev UserFn := EDS → MRS → Reps → Except E EdgeMap

/-- the `predicate_modifiers` argument of `from_mrs` -/
inductive PMArg where
  | bool (b : Bool)      -- `True` / `False` (and every other falsy value)
  | fn (f : UserFn)      -- a callable

/-- `eds.find_predicate_modifiers(e, m, representatives=reps)`: with `representatives=None` the
function computes them itself, with the DEFAULT priority. -/
def findPM (e : EDS) (m : MRS) (reps : Option Reps) : Except E EdgeMap :=
  match reps with
  | some r => findPredicateModifiers m r e.nodes
  | none =>
    match m.representatives with
    | .error err => .error (.sem err)
    | .ok r => findPredicateModifiers m r e.nodes

/-- `if predicate_modifiers is True: predicate_modifiers = find_predicate_modifiers` and
`if predicate_modifiers:` -/
def userFnOf : PMArg → Option UserFn
  | .bool true => some (fun e m r => findPM e m (some r))
  | .bool false => none
  | .fn f => some f

/-- `addl_deps = predicate_modifiers(e, m, representatives=reps)` followed by
`for id, node_deps in addl_deps.items(): e[id].edges.update(node_deps)` -/
def applyUser (f? : Option UserFn) (e : EDS) (m : MRS) (reps : Reps) : Except E EDS :=
  match f? with
  | none => .ok e
  | some f =>
    match f e m reps with
    | .error err => .error err
    | .ok addl =>
      match applyAddl addl e.nodes with
      | .error err => .error err
      | .ok nodes' => .ok { e with nodes := nodes' }

/-- `if unique_ids: make_ids_unique(e, m)` -/
def finish (uniq : Bool) (m : MRS) (e : EDS) (w : List Warn) : Except E (EDS × List Warn) :=
  if uniq then
    match makeIdsUnique m e with
    | .error err => .error err
    | .ok e' => .ok (e', w)
  else .ok (e, w)

/-- the body of `from_mrs` after `reps = scope.representatives(…)` -/
def apiWith (pm : PMArg) (uniq : Bool) (m : MRS) (reps : Reps) : Except E (EDS × List Warn) :=
  match getTop m reps with
  | .error e => .error e
  | .ok (top, w1) =>
    match basicDeps m reps with
    | .error e => .error e
    | .ok (deps, w2) =>
      match mapE (mkNode m deps) m.preds with
      | .error e => .error e
      | .ok nodes =>
        match applyUser (userFnOf pm) { top := top, nodes := nodes } m reps with
        | .error e => .error e
        | .ok e1 => finish uniq m e1 (w1 ++ w2)

/-- `eds.from_mrs(m, predicate_modifiers=pm, unique_ids=uniq, representative_priority=key)` -/
def fromMrsApi (pm : PMArg) (uniq : Bool) (key : Option Key) (m : MRS) : Except E (EDS × List Warn) :=
  match representativesK m key with
  | .error e => .error (.sem e)
  | .ok reps => apiWith pm uniq m reps

/-- the documented staged use of the public functions:
```
e = from_mrs(m, predicate_modifiers=False, unique_ids=False, representative_priority=key)
addl = find_predicate_modifiers(e, m)            # representatives=None
for id, deps in addl.items(): e[id].edges.update(deps)
if uniq: make_ids_unique(e, m)
``` -/
def stagedApi (uniq : Bool) (key : Option Key) (m : MRS) : Except E (EDS × List Warn) :=
  match fromMrsApi (.bool false) false key m with
  | .error e => .error e
  | .ok (e, w) =>
    match findPM e m none with
    | .error err => .error err
    | .ok addl =>
      match applyAddl addl e.nodes with
      | .error err => .error err
      | .ok nodes' => finish uniq m { e with nodes := nodes' } w

/-! ### structure-level fields -/

/-- `lnk`, `surface`, `identifier` of an MRS / EDS -/
structure Doc where
  lnk : Option (Int × Int) := none
  surface : Option String := none
  identifier : Option String := none
deriving DecidableEq, Repr, Inhabited

/-- `eds.EDS(top=top, nodes=nodes, lnk=m.lnk, surface=m.surface, identifier=m.identifier)`:
the result with the structure-level fields it carries -/
def fromMrsDoc (pm : PMArg) (uniq : Bool) (key : Option Key) (d : Doc) (m : MRS) :
    Except E (EDS × Doc × List Warn) :=
  match fromMrsApi pm uniq key m with
  | .error e => .error e
  | .ok (e, w) => .ok (e, d, w)

/-! ### a small family of user functions and priorities for the correspondence run

Each has a Python twin in `harness/c05.py`; they DEPEND on their arguments, so that what the real
`from_mrs` hands to a callable is compared, not only that it is called. -/

/-- every node without edges that is not the top gets a `MOD` edge to the top -/
def ufIsolated : UserFn := fun e _ _ =>
  match e.top with
  | none => .ok []
  | some t =>
    .ok ((e.nodes.filter (fun n => n.edges.isEmpty && n.id != t)).foldl
      (fun acc n => addEdge n.id "MOD" t acc) [])

/-- in every scope with several representatives the LAST one gets an `R-REP` edge to the FIRST -/
def ufReps : UserFn := fun _ _ reps =>
  .ok (reps.foldl (fun acc s =>
    match s.2, s.2.getLast? with
    | first :: _ :: _, some last => addEdge last.1 "R-REP" first.1 acc
    | _, _ => acc) [])

/-- a function that raises -/
def ufRaise : UserFn := fun _ _ _ => .error .keyError

/-- "prefer those appearing LAST" -/
def keyReverse (m : MRS) : Key := fun p => (0, m.ids.length - (m.ids.idxOf p.1 + 1))

/-- every predication ranks the same: the stable sort keeps the order of the scope -/
def keyConst : Key := fun _ => (0, 0)

/-- rank by the length of the predicate, then by the position from the end -/
def keyPredLen (m : MRS) : Key := fun p => (p.2.predicate.length, m.ids.length - (m.ids.idxOf p.1 + 1))

end Verif.C05
