/-
C05 — "the result survives C03 serialization": the converted graph satisfies (a local copy of) the
precondition `Expressible` of the C03 round-trip theorems, together with their side conditions
(edge targets exist, node ids distinct, no untyped node with properties), whenever the source MRS
is expressible in the same sense.  The copy is stated over the C05 model types (names are
`String`s, identifiers `Var`s); `Verif/C03/View.lean: Expressible` is the same list of clauses over
`List Char`.  Core Lean only.
-/
import Verif.C05.TotalLemmas

namespace Verif.C05
open Verif.Sem

def upperS (s : String) : String := String.ofList (s.toList.map Char.toUpper)
def lowerS (s : String) : String := String.ofList (s.toList.map Char.toLower)

/-- what the source must look like: lower-case predicates, upper-case role and property names,
lower-case property values, dictionaries without repeated keys, non-empty sorts -/
structure ExpressibleM (m : MRS) : Prop where
  preds : ∀ ep ∈ m.rels, lowerS ep.predicate = ep.predicate
  roles : ∀ ep ∈ m.rels, ∀ a ∈ ep.args, upperS a.1 = a.1
  props : ∀ vp ∈ m.variables, ∀ p ∈ vp.2, upperS p.1 = p.1 ∧ lowerS p.2 = p.2
  propsNodup : ∀ vp ∈ m.variables, (vp.2.map (·.1)).Nodup
  sorts : ∀ ep ∈ m.rels, ∀ v, ep.iv = some v → v.sort ≠ ""

/-- local copy of `Verif.C03.Expressible` (clauses `preds … top`; the C05 model has no graph
identifier) plus the side conditions of the C03 theorems (`targets`, `idsNodup`,
`noUntypedProps`) -/
structure ExpressibleE (e : EDS) : Prop where
  preds : ∀ n ∈ e.nodes, lowerS n.predicate = n.predicate
  props : ∀ n ∈ e.nodes, ∀ p ∈ n.properties, upperS p.1 = p.1 ∧ lowerS p.2 = p.2
  roles : ∀ n ∈ e.nodes, ∀ p ∈ n.edges, upperS p.1 = p.1
  propsNodup : ∀ n ∈ e.nodes, (n.properties.map (·.1)).Nodup
  edgesNodup : ∀ n ∈ e.nodes, (n.edges.map (·.1)).Nodup
  typed : ∀ n ∈ e.nodes, n.type ≠ some ""
  top : e.nodes = [] → e.top = none
  targets : ∀ n ∈ e.nodes, ∀ rt ∈ n.edges, rt.2 ∈ e.nodes.map (·.id)
  idsNodup : (e.nodes.map (·.id)).Nodup
  noUntypedProps : ∀ n ∈ e.nodes, n.type = none → n.properties = []

/-! ### role keys of a node stay distinct -/

theorem nodup_dkeys_dset {κ ν : Type} [DecidableEq κ] (k : κ) (v : ν) {d : List (κ × ν)}
    (h : (dkeys d).Nodup) : (dkeys (dset k v d)).Nodup := by
  rw [dkeys_dset]
  split
  · exact h
  · rename_i hk
    rw [List.nodup_append]
    refine ⟨h, by simp, ?_⟩
    intro a ha b hb
    rw [List.mem_singleton] at hb
    intro e
    exact hk (hb ▸ e ▸ ha)

theorem nodup_updateEdges (upd : List (Role × Var)) : ∀ (es : List (Role × Var)),
    (dkeys es).Nodup → (dkeys (updateEdges es upd)).Nodup := by
  induction upd with
  | nil => intro es h; exact h
  | cons u us ih =>
    intro es h
    unfold updateEdges
    simp only [List.foldl_cons]
    exact ih _ (nodup_dkeys_dset u.1 u.2 h)

theorem depStep_fold_keys {m : MRS} {reps : Reps} (args : List (Role × Var)) (w0 : List Warn)
    {es : List (Role × Var)} {w : List Warn}
    (h : foldE (depStep m reps) ([], w0) args = .ok (es, w)) : (dkeys es).Nodup := by
  refine foldE_inv (f := depStep m reps) (fun acc => (dkeys acc.1).Nodup) args ([], w0) (es, w)
    ?_ (by simp [dkeys]) h
  intro acc a acc' hacc _ hstep
  unfold depStep at hstep
  split at hstep
  · exact absurd hstep (by simp)
  · simp only [Except.ok.injEq] at hstep
    subst hstep
    exact nodup_dkeys_dset _ _ hacc
  · simp only [Except.ok.injEq] at hstep
    subst hstep
    exact hacc
  · simp only [Except.ok.injEq] at hstep
    subst hstep
    exact hacc

theorem basicDeps_keys {m : MRS} {reps : Reps} {deps : EdgeMap} {w : List Warn}
    (h : basicDeps m reps = .ok (deps, w)) : ∀ k es, (k, es) ∈ deps → (dkeys es).Nodup := by
  unfold basicDeps at h
  refine foldE_inv (f := depsOfPred m reps) (fun acc => ∀ k es, (k, es) ∈ acc.1 → (dkeys es).Nodup)
    m.preds ([], []) (deps, w) ?_ (by intro k es hk; simp at hk) h
  intro acc p acc' hacc _ hstep
  unfold depsOfPred at hstep
  split at hstep
  · split at hstep
    · exact absurd hstep (by simp)
    · rename_i es w' hes
      have h1 : ∀ k es0, (k, es0) ∈ dset p.1 es acc.1 → (dkeys es0).Nodup := by
        intro k es0 hk
        rcases mem_dset hk with heq | hold
        · simp only [Prod.mk.injEq] at heq
          rw [heq.2]; exact depStep_fold_keys _ _ hes
        · exact hacc k es0 hold
      split at hstep
      · simp only [Except.ok.injEq] at hstep
        subst hstep
        intro k es0 hk
        rcases mem_dset hk with heq | hold
        · simp only [Prod.mk.injEq] at heq
          rw [heq.2]; simp [dkeys]
        · exact h1 k es0 hold
      · simp only [Except.ok.injEq] at hstep
        subst hstep
        exact h1
  · simp only [Except.ok.injEq] at hstep
    subst hstep
    exact hacc

theorem applyAddl_keys : ∀ (addl : EdgeMap) (nodes nodes' : List ENode),
    applyAddl addl nodes = .ok nodes' →
    All2 (fun n n' => (dkeys n.edges).Nodup → (dkeys n'.edges).Nodup) nodes nodes' := by
  intro addl
  induction addl with
  | nil =>
    intro nodes nodes' h
    simp only [applyAddl, foldE, Except.ok.injEq] at h
    subst h
    exact All2.refl_of (fun _ _ h => h)
  | cons entry rest ih =>
    intro nodes nodes' h
    unfold applyAddl foldE at h
    split at h
    · exact absurd h (by simp)
    · rename_i nodes1 h1
      have ih' := ih nodes1 nodes' h
      unfold applyAddlOne at h1
      split at h1
      · simp only [Except.ok.injEq] at h1
        subst h1
        have hstep := All2.map_right (fun n : ENode =>
          if n.id == entry.1 then { n with edges := updateEdges n.edges entry.2 } else n) nodes
        refine All2.comp hstep ih' ?_
        intro a b c hab hbc ha
        subst hab
        apply hbc
        by_cases hk : (a.id == entry.1) = true
        · simp only [hk, if_true]
          exact nodup_updateEdges _ _ ha
        · simp only [hk]
          exact ha
      · exact absurd h1 (by simp)

/-- the role keys of every node of the graph before `make_ids_unique` are distinct -/
theorem fromMrsWith_keys {pm : PM} {m : MRS} {reps : Reps} (hnr : NoReserved m) {e : EDS}
    {w : List Warn} (h : fromMrsWith pm m reps = .ok (e, w)) :
    ∀ n ∈ e.nodes, (dkeys n.edges).Nodup := by
  obtain ⟨_, _, deps, _, nodes, addl, _, h2, h3, _, h5, _, _⟩ := fromMrsWith_decomp h
  have hN := nodes_spec hnr h3
  have hK := applyAddl_keys addl nodes e.nodes h5
  intro n' hn'
  obtain ⟨n, hn, hz, hrel⟩ := hK.mem_left n' hn'
  apply hrel
  obtain ⟨p, _, _, _, hedges, _⟩ := hN.mem_left n hn
  rw [hedges]
  cases hl : dlookup p.1 deps with
  | none => simp [dkeys]
  | some es => exact basicDeps_keys h2 _ _ (dlookup_mem hl)

theorem fromMrs_keys {pm : PM} {uniq : Bool} {m : MRS} (hnr : NoReserved m) {e : EDS}
    {w : List Warn} (h : fromMrs pm uniq m = .ok (e, w)) :
    ∀ n ∈ e.nodes, (n.edges.map (·.1)).Nodup := by
  cases uniq with
  | false =>
    obtain ⟨_, _, hwith⟩ := fromMrsRaw_decomp (fromMrs_false_decomp h)
    exact fromMrsWith_keys hnr hwith
  | true =>
    obtain ⟨raw, hraw, _, hnodes⟩ := fromMrs_true_decomp h
    obtain ⟨_, _, hwith⟩ := fromMrsRaw_decomp hraw
    have hK := fromMrsWith_keys hnr hwith
    have hR := (mapE_forall₂ hnodes).imp (fun _ _ _ _ h => renameNode_spec h)
    intro n' hn'
    obtain ⟨n, hn, _, _, _, hE⟩ := hR.mem_left n' hn'
    have := All2.map_eq (f := fun rt : Role × Var => rt.1) (g := fun rt : Role × Var => rt.1)
      (hE.imp (fun _ _ _ _ ⟨a, _⟩ => a))
    rw [this]
    exact hK n hn

/-! ### the theorem -/

theorem props_of_variables {m : MRS} (hx : ExpressibleM m) (v : Var) :
    (∀ p ∈ m.props v, upperS p.1 = p.1 ∧ lowerS p.2 = p.2) ∧ ((m.props v).map (·.1)).Nodup := by
  unfold MRS.props
  cases hl : dlookup v m.variables with
  | none => simp
  | some ps =>
    simp only [Option.getD_some]
    exact ⟨hx.props _ (dlookup_mem hl), hx.propsNodup _ (dlookup_mem hl)⟩

theorem fromMrs_expressible_aux {pm : PM} {uniq : Bool} {m : MRS} (hiv : m.hasIVProperty = true)
    (hnr : NoReserved m) (hx : ExpressibleM m) (hpm : pm = .off ∨ pm = .std)
    {e : EDS} {w : List Warn} (h : fromMrs pm uniq m = .ok (e, w)) : ExpressibleE e := by
  have hc := completeIVs_of_ivProperty hiv
  have hid := ids_nodup hnr hc
  obtain ⟨e0, _, hN, hJ, hT⟩ := fromMrs_spec hid hnr hpm h
  have hdata : ∀ n ∈ e.nodes, ∃ p ∈ m.preds, (p, n) ∈ m.preds.zip e.nodes ∧ NodeData m p n := by
    intro n hn
    obtain ⟨p, hp, hz, hd, _⟩ := hN.mem_left n hn
    exact ⟨p, hp, hz, hd⟩
  have hBV : upperS BV_ROLE = BV_ROLE := by decide
  have hPM : upperS PM_ROLE = PM_ROLE := by decide
  refine ⟨?_, ?_, ?_, ?_, fromMrs_keys hnr h, ?_, ?_, ?_, ?_, ?_⟩
  · intro n hn
    obtain ⟨p, hp, _, hd⟩ := hdata n hn
    rw [hd.1]
    exact hx.preds _ (mem_rels_of_mem_preds m p hp)
  · intro n hn pr hpr
    obtain ⟨p, _, _, hd⟩ := hdata n hn
    obtain ⟨_, _, _, _, _, hq, hnq⟩ := hd
    by_cases hqq : p.2.isQuantifier = true
    · rw [(hq hqq).2] at hpr; simp at hpr
    · obtain ⟨v, _, _, hprops⟩ := hnq (by simpa using hqq)
      rw [hprops] at hpr
      exact (props_of_variables hx v).1 pr hpr
  · intro n hn rt hrt
    obtain ⟨p, hp, hz, _⟩ := hdata n hn
    obtain ⟨_, _, _, hj⟩ := hJ (p, n) hz rt hrt
    rcases hj with hj | hj | hj
    · rw [hj.1]; exact hBV
    · obtain ⟨v, hv, _⟩ := hj
      exact hx.roles _ (mem_rels_of_mem_preds m p hp) (rt.1, v) hv
    · rw [hj.2.1]; exact hPM
  · intro n hn
    obtain ⟨p, _, _, hd⟩ := hdata n hn
    obtain ⟨_, _, _, _, _, hq, hnq⟩ := hd
    by_cases hqq : p.2.isQuantifier = true
    · rw [(hq hqq).2]; simp
    · obtain ⟨v, _, _, hprops⟩ := hnq (by simpa using hqq)
      rw [hprops]
      exact (props_of_variables hx v).2
  · intro n hn
    obtain ⟨p, hp, _, hd⟩ := hdata n hn
    obtain ⟨_, _, _, _, _, hq, hnq⟩ := hd
    by_cases hqq : p.2.isQuantifier = true
    · rw [(hq hqq).1]; simp
    · obtain ⟨v, hv, htype, _⟩ := hnq (by simpa using hqq)
      rw [htype]
      intro heq
      exact hx.sorts _ (mem_rels_of_mem_preds m p hp) v hv (Option.some.inj heq)
  · intro hnil
    cases het : e.top with
    | none => rfl
    | some t =>
      obtain ⟨pn, hpn, _⟩ := hT t het
      have := (List.of_mem_zip hpn).2
      rw [hnil] at this
      exact absurd this List.not_mem_nil
  · intro n hn rt hrt
    obtain ⟨p, _, hz, _⟩ := hdata n hn
    obtain ⟨qn, hqn, hqid, _⟩ := hJ (p, n) hz rt hrt
    exact List.mem_map.2 ⟨qn.2, (List.of_mem_zip hqn).2, hqid⟩
  · cases uniq with
    | false =>
      rw [fromMrs_ids_raw hnr h]; exact hid
    | true =>
      rw [fromMrs_ids_lkb hiv hnr h]
      exact lkbIds_nodup m.preds 1 (by rw [filterMap_ivKey]; exact nonQuantIVs_nodup hiv)
        (by rw [filterMap_ivKey]; exact fun v hv => (nonQuantIVs_plain hnr v hv).1)
  · intro n hn htype
    obtain ⟨p, _, _, hd⟩ := hdata n hn
    obtain ⟨_, _, _, _, _, hq, hnq⟩ := hd
    by_cases hqq : p.2.isQuantifier = true
    · exact (hq hqq).2
    · obtain ⟨v, _, htype', _⟩ := hnq (by simpa using hqq)
      rw [htype'] at htype
      exact absurd htype (by simp)

end Verif.C05
