/-
C05 — round 7 property theorems: the clauses that round 6 had only for the DEFAULT
`representative_priority` (totality / no warning / top, the bound-variable clause, `ExpressibleE`) for
EVERY priority function, under the SAME hypotheses (`HasReps` stays the statement about the default
representatives: a priority only orders the candidates); `make_ids_unique` as a theorem of its own
about ANY graph over the EP ids; the stable sort by a user priority.
-/
import Verif.C05.KeyLemmas
import Verif.C05.PropsApi

namespace Verif.C05
open Verif.Sem

/-! ## `make_ids_unique` on its own -/

/-- "LKB-style identifier reassignment" for ANY EDS `e` over the EP ids of `m` (`FromM`: node ids are
the EP ids in order; top and edge targets are EP ids — what "an EDS converted from `m` with
`unique_ids=False`" gives, but also such a graph edited afterwards): under the intrinsic-variable
property `make_ids_unique(e, m)` succeeds; the new node ids are `lkbIds` (ARG0 resp. `_1, _2, …`),
pairwise distinct; there is ONE renaming `ρ`, injective on the EP ids, such that the top, every node
id and EVERY EDGE TARGET is renamed by `ρ` and nothing else changes; so every edge still ends at a
node and the top is a node. -/
theorem makeIdsUnique_spec (m : MRS) (e : EDS) (hiv : m.hasIVProperty = true) (hnr : NoReserved m)
    (hf : FromM m e) :
    ∃ e' ρ, makeIdsUnique m e = .ok e' ∧
      e'.nodes.map (·.id) = lkbIds 1 m.preds ∧ (e'.nodes.map (·.id)).Nodup ∧
      (∀ a ∈ m.ids, ∀ b ∈ m.ids, ρ a = ρ b → a = b) ∧
      e'.top = e.top.map ρ ∧
      All2 (fun n n' => n'.id = ρ n.id ∧ n'.edges = n.edges.map (fun rt => (rt.1, ρ rt.2)) ∧
        n'.core = n.core) e.nodes e'.nodes ∧
      (∀ n ∈ e'.nodes, ∀ rt ∈ n.edges, rt.2 ∈ e'.nodes.map (·.id)) ∧
      (∀ t, e'.top = some t → t ∈ e'.nodes.map (·.id)) := by
  obtain ⟨e', h⟩ := makeIdsUnique_specG hiv hnr hf
  exact ⟨e', _, h⟩

set_option maxRecDepth 100000 in
/-- `FromM` is needed: an edge to an identifier that is no EP id makes `make_ids_unique` raise
`KeyError` (`nids[arg]`), and so does such a top. -/
theorem makeIdsUnique_needs_fromM :
    (match makeIdsUnique dogBarks { top := some ⟨"e", 2⟩, nodes :=
        [{ id := ⟨"q", 3⟩, predicate := "_the_q", type := none, edges := [("BV", ⟨"z", 9⟩)],
           properties := [], carg := none, lnk := none, surface := none, base := none }] } with
     | .error .keyError => true
     | _ => false) = true ∧
    (match makeIdsUnique dogBarks { top := some ⟨"z", 9⟩, nodes := [] } with
     | .error .keyError => true
     | _ => false) = true := by decide

/-! ## "Converting any well-formed MRS to EDS succeeds without error or warning and yields … a top
that is a node" — every priority -/

/-- Totality for EVERY `representative_priority` (any function of the predication into ranks, `none`
= the default), `predicate_modifiers ∈ {True, False}`, both `unique_ids`: a well-formed MRS without
reserved sorts in which every selected scope has a representative converts without error and without
warning, the result has a top and it is a node.  `HasReps` is the SAME hypothesis as for the default
priority (F08): a priority only orders the candidates of a scope, it cannot empty or fill one
(`representativesK_empty_iff`). -/
theorem api_total_key (b uniq : Bool) (key : Option Key) (m : MRS) (hwf : m.isWellFormed = true)
    (hnr : NoReserved m) (hhr : HasReps m) :
    ∃ e t, fromMrsApi (.bool b) uniq key m = .ok (e, []) ∧ e.top = some t ∧
      t ∈ e.nodes.map (·.id) := by
  obtain ⟨hiv, _⟩ := wf_parts hwf
  have hid := ids_nodup hnr (completeIVs_of_ivProperty hiv)
  obtain ⟨reps, hreps⟩ := representativesK_total m key
  have hr := representativesK_repsOK hreps
  have hk := representativesK_keys hreps
  have hne := hasReps_key hhr hreps
  have hpm : (if b then PM.std else PM.off) = .off ∨ (if b then PM.std else PM.off) = .std := by
    cases b <;> simp
  obtain ⟨raw, t, hraw, hrt⟩ := fromMrsWith_totalG hwf hnr hhr hr hk hne hpm
  have hf := fromM_of_with hid hnr hr hpm hraw
  have hcall : ∀ e, finish uniq m raw [] = .ok (e, []) →
      fromMrsApi (.bool b) uniq key m = .ok (e, []) := by
    intro e hfin
    cases b with
    | true => simp only [fromMrsApi, hreps, apiWith_true]; simp only [if_true] at hraw; rw [hraw]; exact hfin
    | false =>
      simp only [fromMrsApi, hreps, apiWith_false]
      simp only [Bool.false_eq_true, if_false] at hraw; rw [hraw]; exact hfin
  cases uniq with
  | false =>
    refine ⟨raw, t, hcall raw (by simp [finish]), hrt, ?_⟩
    rw [hf.ids]; exact hf.top t hrt
  | true =>
    obtain ⟨e', hrun, _, _, _, htop, _, _, hT⟩ := makeIdsUnique_specG hiv hnr hf
    have : e'.top = some (rho (m.ids.zip (lkbIds 1 m.preds)) t) := by rw [htop, hrt]; rfl
    exact ⟨e', _, hcall e' (by simp [finish, hrun]), this, hT _ this⟩

/-! ## "a quantifier has exactly one bound-variable edge to the predication it quantifies" — every
priority -/

theorem api_bv_key (b uniq : Bool) (key : Option Key) (m : MRS) (hiv : m.hasIVProperty = true)
    (hnr : NoReserved m) (huq : UniqueQuant m) (e : EDS) (w : List Warn)
    (h : fromMrsApi (.bool b) uniq key m = .ok (e, w))
    (qn pn : Pred × ENode) (hqn : qn ∈ m.preds.zip e.nodes) (hpn : pn ∈ m.preds.zip e.nodes)
    (hqq : qn.1.2.isQuantifier = true) (hpq : pn.1.2.isQuantifier = false)
    (v : Var) (hqv : qn.1.2.iv = some v) (hpv : pn.1.2.iv = some v) :
    qn.2.edges.filter (fun rt => rt.1 == BV_ROLE) = [(BV_ROLE, pn.2.id)] := by
  have hid := ids_nodup hnr (completeIVs_of_ivProperty hiv)
  have hq : qn.1 ∈ m.preds := (List.of_mem_zip hqn).1
  have hp : pn.1 ∈ m.preds := (List.of_mem_zip hpn).1
  obtain ⟨reps, raw, hreps, hwith, hfin⟩ := api_bool_decomp h
  have hr := representativesK_repsOK hreps
  have hpm : (if b then PM.std else PM.off) = .off ∨ (if b then PM.std else PM.off) = .std := by
    cases b <;> simp
  have hall : All2 (fun p' n => n.id = p'.1 ∧
      (p' = qn.1 → n.edges.filter isBV = [(BV_ROLE, pn.1.1)])) m.preds raw.nodes := by
    obtain ⟨_, _, deps, _, nodes, addl, _, h2, h3, h4, h5, _, _⟩ := fromMrsWith_decomp hwith
    have hbv := basicDeps_bv hiv hnr huq hq hp hqq hpq hqv hpv h2
    have hA := applyAddl_bv addl nodes raw.nodes (addl_roles hr hid hpm h4) h5
    have hB := applyAddl_spec addl nodes raw.nodes h5
    have hN := nodes_spec hnr h3
    refine All2.comp hN (hA.and hB) ?_
    intro p' n n' ⟨h1, h2', _⟩ ⟨h6, _, h7, _⟩
    refine ⟨by rw [h7, h1], fun hpq' => ?_⟩
    rw [h6, h2', hpq', hbv]
    simp [isBV]
  show qn.2.edges.filter isBV = [(BV_ROLE, pn.2.id)]
  rcases hfin with ⟨_, rfl⟩ | ⟨_, he⟩
  · rw [(hall.of_zip qn hqn).2 rfl, (hall.of_zip pn hpn).1]
  · unfold makeIdsUnique at he
    dsimp only at he
    split at he
    · exact absurd he (by simp)
    · split at he
      · exact absurd he (by simp)
      · rename_i nodes' hnodes
        simp only [Except.ok.injEq] at he
        subst he
        have hR := (mapE_forall₂ hnodes).imp (fun _ _ _ _ h => renameNode_spec h)
        have hC := All2.comp_zip hall hR
        obtain ⟨nq, _, ⟨_, hqbv⟩, ⟨_, _, hqe⟩⟩ := hC.of_zip qn hqn
        obtain ⟨np, _, ⟨hpid, _⟩, ⟨_, hpren, _⟩⟩ := hC.of_zip pn hpn
        have hF := filter_all2 hqe
        rw [hqbv rfl] at hF
        obtain ⟨x, hX, hx1, hx2⟩ := hF.singleton_left
        rw [← hpid, hpren] at hx2
        simp only [Except.ok.injEq] at hx2
        simp only at hx1
        rw [hX, show x = (BV_ROLE, pn.2.id) from Prod.ext hx1 hx2.symm]

/-! ## "the result survives C03 serialization" — every priority -/

/-- The converted graph satisfies the precondition of the C03 round-trip theorems (`ExpressibleE`)
whenever the source is expressible (`ExpressibleM`), for EVERY priority. -/
theorem api_expressible_key (b uniq : Bool) (key : Option Key) (m : MRS)
    (hiv : m.hasIVProperty = true) (hnr : NoReserved m) (hx : ExpressibleM m)
    (e : EDS) (w : List Warn) (h : fromMrsApi (.bool b) uniq key m = .ok (e, w)) : ExpressibleE e := by
  have hc := completeIVs_of_ivProperty hiv
  obtain ⟨_, hN⟩ := api_shape (.bool b) uniq key m hnr e w h
  obtain ⟨e0, _, hJ, hclosed, hT⟩ := api_edges_justified b uniq key m hnr hc e w h
  have hdata : ∀ n ∈ e.nodes, ∃ p ∈ m.preds, (p, n) ∈ m.preds.zip e.nodes ∧ NodeData m p n := by
    intro n hn
    obtain ⟨p, hp, hz, hd, _⟩ := hN.mem_left n hn
    exact ⟨p, hp, hz, hd⟩
  have hBV : upperS BV_ROLE = BV_ROLE := by decide
  have hPM : upperS PM_ROLE = PM_ROLE := by decide
  refine ⟨?_, ?_, ?_, ?_, api_keys_key hnr h, ?_, ?_, hclosed, (api_ids_unique _ uniq key m hiv hnr e w h).2, ?_⟩
  · intro n hn
    obtain ⟨p, hp, _, hd⟩ := hdata n hn
    rw [hd.1]
    exact hx.preds _ (mem_rels_of_mem_preds m p hp)
  · intro n hn pr hpr
    obtain ⟨p, _, _, hd⟩ := hdata n hn
    obtain ⟨_, _, _, _, _, hq, hnq⟩ := hd
    by_cases hqq : p.2.isQuantifier = true
    · rw [(hq hqq).2] at hpr; simp at hpr
    · obtain ⟨v, _, _, hprops⟩ := hnq (by simpa using hqq)
      rw [hprops] at hpr
      exact (props_of_variables hx v).1 pr hpr
  · intro n hn rt hrt
    obtain ⟨p, hp, hz, _⟩ := hdata n hn
    obtain ⟨_, _, _, hj⟩ := hJ (p, n) hz rt hrt
    rcases hj with hj | hj | hj
    · rw [hj.1]; exact hBV
    · obtain ⟨v, hv, _⟩ := hj
      exact hx.roles _ (mem_rels_of_mem_preds m p hp) (rt.1, v) hv
    · rw [hj.2.1]; exact hPM
  · intro n hn
    obtain ⟨p, _, _, hd⟩ := hdata n hn
    obtain ⟨_, _, _, _, _, hq, hnq⟩ := hd
    by_cases hqq : p.2.isQuantifier = true
    · rw [(hq hqq).2]; simp
    · obtain ⟨v, _, _, hprops⟩ := hnq (by simpa using hqq)
      rw [hprops]
      exact (props_of_variables hx v).2
  · intro n hn
    obtain ⟨p, hp, _, hd⟩ := hdata n hn
    obtain ⟨_, _, _, _, _, hq, hnq⟩ := hd
    by_cases hqq : p.2.isQuantifier = true
    · rw [(hq hqq).1]; simp
    · obtain ⟨v, hv, htype, _⟩ := hnq (by simpa using hqq)
      rw [htype]
      intro heq
      exact hx.sorts _ (mem_rels_of_mem_preds m p hp) v hv (Option.some.inj heq)
  · intro hnil
    cases het : e.top with
    | none => rfl
    | some t =>
      have := hT t het
      rw [hnil] at this
      exact absurd this (by simp)
  · intro n hn htype
    obtain ⟨p, _, _, hd⟩ := hdata n hn
    obtain ⟨_, _, _, _, _, hq, hnq⟩ := hd
    by_cases hqq : p.2.isQuantifier = true
    · exact (hq hqq).2
    · obtain ⟨v, _, htype', _⟩ := hnq (by simpa using hqq)
      rw [htype'] at htype
      exact absurd htype (by simp)

/-! ## sorting by a user priority -/

/-- `reps[label].sort(key=priority)` for a user priority `k` (Python's sort is STABLE): the
representatives of a scope are a permutation of its candidates, no later one ranks strictly below an
earlier one, and predications of EQUAL rank keep the order they have in the scope (tied priorities
are inside the statement). -/
theorem user_priority_sort (k : Key) (cands : List Pred) :
    (sortS k cands).Perm cands ∧ SortedS k (sortS k cands) ∧
    ∀ c, (sortS k cands).filter (fun p => k p == c) = cands.filter (fun p => k p == c) :=
  ⟨sortS_perm k cands, sortS_sorted k cands, fun c => sortS_stable k c cands⟩

/-- The priority never changes WHICH scopes have a representative, only their order — so `HasReps`
(F08) is a property of the MRS, not of the priority. -/
theorem priority_keeps_emptiness (m : MRS) (key : Option Key) (reps reps0 : Reps)
    (h : representativesK m key = .ok reps) (h0 : m.representatives = .ok reps0) (l : Var) :
    (∃ ps, dlookup l reps = some ps ∧ ps = []) ↔ (∃ ps, dlookup l reps0 = some ps ∧ ps = []) :=
  representativesK_empty_iff h h0 l

set_option maxRecDepth 100000 in
/-- consequently F08 is there for every priority: the witness raises `IndexError` under the
all-equal and the prefer-last priority too -/
theorem f08_every_priority :
    raisesIndexError (fromMrsApi (.bool true) true (some keyConst) f08Witness) = true ∧
    raisesIndexError (fromMrsApi (.bool false) false (some (keyReverse f08Witness)) f08Witness) = true := by
  decide

end Verif.C05
