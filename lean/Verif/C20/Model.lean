/-
C20 — model of what `delphin.commands.convert` adds on top of the item codecs:

* `_parse_format_name`  (lower-casing, `-lines` suffix, hyphen removal),
* `_get_codec` / `_get_converter` (codec lookup in the generated codec table, converter chosen by the
  pair of representations),
* the document assembly `header + joiner.join(parts) + footer` with the indent path and the `-lines`
  path, over OPAQUE item texts (the item codecs are C01–C03's business),
* per-item error isolation (an item whose conversion or encoding failed contributes no part),
* a document reader per family *at the level of item boundaries*: token-stream codecs (items
  separated by whitespace), the JSON family (`[` item (`,` item)* `]`), the XML family (matching
  list-element tags), and the line reader of the `-lines` variants.

Core Lean only.  Strings are `List Char`.
-/
import Verif.Generated.TablesC20

namespace Verif.C20
open Verif.Tables

abbrev Str := List Char

/-! ### Python string helpers -/

/-- ASCII part of `str.isspace` — what `str.strip()` can remove from the (ASCII) codec constants. -/
def isWs (c : Char) : Bool :=
  c == ' ' || c == '\n' || c == '\t' || c == '\r' || c == Char.ofNat 11 || c == Char.ofNat 12

/-- insignificant whitespace of the three document grammars (JSON, XML, the token lexers). -/
def isSp (c : Char) : Bool := c == ' ' || c == '\n' || c == '\t' || c == '\r'

/-- `s.strip()` -/
def pyStrip (s : Str) : Str := ((s.dropWhile isWs).reverse.dropWhile isWs).reverse

/-- `str.lower()` on ASCII -/
def lowerAscii (c : Char) : Char :=
  if 65 ≤ c.toNat ∧ c.toNat ≤ 90 then Char.ofNat (c.toNat + 32) else c

/-- `j.join(parts)` -/
def joinWith (j : Str) : List Str → Str
  | [] => []
  | [x] => x
  | x :: y :: r => x ++ (j ++ joinWith j (y :: r))

/-- `s.endswith(suf)` -/
def endsWith (s suf : Str) : Bool :=
  decide (suf.length ≤ s.length) && s.drop (s.length - suf.length) == suf

def linesSuffix : Str := ['-', 'l', 'i', 'n', 'e', 's']

/-- `commands._parse_format_name` -/
def parseFormatName (name : Str) : Str × Bool :=
  if endsWith (name.map lowerAscii) linesSuffix then
    (((name.map lowerAscii).take ((name.map lowerAscii).length - 6)).filter (· != '-'), true)
  else
    ((name.map lowerAscii).filter (· != '-'), false)

/-! ### Codec table (generated from the live modules) and codec / converter selection -/

structure Codec where
  name : Str
  rep : Str
  header : Option Str
  joiner : Option Str
  footer : Option Str
  canLoad : Bool
  canEncode : Bool
deriving Repr

def codecs : List Codec :=
  c20Codecs.map (fun (n, r, h, j, f, l, e) =>
    { name := n, rep := r, header := h, joiner := j, footer := f, canLoad := l, canEncode := e })

inductive Err
  | commandError
  | attributeError
  | converterError     -- an exception of the converter that is not a PyDelphinException escapes the command
deriving Repr, DecidableEq

/-- `commands._get_codec`: `KeyError` of the lookup becomes `CommandError`. -/
def getCodec (name : Str) : Except Err Codec :=
  match codecs.find? (fun c => c.name == name) with
  | some c => .ok c
  | none => .error .commandError

inductive Conv
  | ident
  | mrsToDmrs
  | dmrsToMrs
  | mrsToEds
deriving Repr, DecidableEq

def repMrs : Str := ['m', 'r', 's']
def repDmrs : Str := ['d', 'm', 'r', 's']
def repEds : Str := ['e', 'd', 's']

/-- `commands._get_converter` on the lower-cased representation names, same order of tests. -/
def getConverter (src tgt : Str) : Except Err Conv :=
  if src = repMrs ∧ tgt = repDmrs then .ok .mrsToDmrs
  else if src = repDmrs ∧ tgt = repMrs then .ok .dmrsToMrs
  else if src = repMrs ∧ tgt = repEds then .ok .mrsToEds
  else if src = tgt then .ok .ident
  else .error .commandError

/-! ### Frames and the document assembly -/

structure Frame where
  header : Str
  joiner : Str
  footer : Str
deriving Repr, DecidableEq

/-- `getattr(codec, 'HEADER', '')`, `getattr(codec, 'JOINER', ' ')`, `getattr(codec, 'FOOTER', '')` -/
def frameOf (c : Codec) : Frame :=
  { header := c.header.getD [], joiner := c.joiner.getD [' '], footer := c.footer.getD [] }

/-- the frame `convert` really uses: `-lines` → `'' / '\n' / ''`; with an indent the header gets a
newline, the joiner becomes `joiner.strip() + '\n\n'`, the footer a leading newline. -/
def effFrame (f : Frame) (indent lines : Bool) : Frame :=
  if lines then { header := [], joiner := ['\n'], footer := [] }
  else if indent then
    { header := if f.header.isEmpty then [] else f.header ++ ['\n'],
      joiner := pyStrip f.joiner ++ ['\n', '\n'],
      footer := if f.footer.isEmpty then [] else '\n' :: f.footer }
  else f

def assembleWith (g : Frame) (items : List Str) : Str :=
  g.header ++ (joinWith g.joiner items ++ g.footer)

/-- `header + joiner.join(parts) + footer` -/
def assemble (f : Frame) (indent lines : Bool) (items : List Str) : Str :=
  assembleWith (effFrame f indent lines) items

/-! ### Per-item error isolation and the whole command on opaque items -/

/-- what happened to one input item: converted and encoded to `t`; dropped by `_iter_convert`
(`PyDelphinException` in the converter); dropped by the encode loop (`PyDelphinException`, `KeyError`,
`IndexError` in `encode`). -/
inductive Outcome
  | ok (t : Str)
  | convFail
  | encFail
  | convCrash      -- the converter raised something else (e.g. IndexError, finding F08): `_iter_convert` does not catch it
deriving Repr, DecidableEq

def Outcome.text? : Outcome → Option Str
  | .ok t => some t
  | _ => none

def parts (os : List Outcome) : List Str := os.filterMap Outcome.text?

def Outcome.reachesEncode : Outcome → Bool
  | .convFail => false
  | .convCrash => false
  | _ => true

/-- the items are pulled one at a time (read, convert, encode): the first thing that goes wrong, in input order --
a converter crash, or an item reaching `target_codec.encode` when the module has no `encode` (AttributeError). -/
def firstErr (canEncode : Bool) : List Outcome → Option Err
  | [] => none
  | .convCrash :: _ => some .converterError
  | .convFail :: r => firstErr canEncode r
  | _ :: r => if canEncode then firstErr canEncode r else some .attributeError

structure Plan where
  src : Codec
  tgt : Codec
  srcLines : Bool
  tgtLines : Bool
  conv : Conv
deriving Repr

/-- name parsing, codec lookup (source first), converter selection, projection check. -/
def plan (srcFmt tgtFmt : Str) (nproj : Nat) : Except Err Plan :=
  match getCodec (parseFormatName srcFmt).1 with
  | .error e => .error e
  | .ok sc =>
    match getCodec (parseFormatName tgtFmt).1 with
    | .error e => .error e
    | .ok tc =>
      match getConverter (sc.rep.map lowerAscii) (tc.rep.map lowerAscii) with
      | .error e => .error e
      | .ok cv =>
        if nproj ≠ 1 then .error .commandError
        else .ok { src := sc, tgt := tc, srcLines := (parseFormatName srcFmt).2,
                   tgtLines := (parseFormatName tgtFmt).2, conv := cv }

/-- `commands.convert` on a list of item outcomes (one per item the reader delivers).  A source
without `load` fails at once; a `-lines` source without `decode` only when there is a line; a target
without `encode` only when an item reaches the encode loop. -/
def convert (srcFmt tgtFmt : Str) (indent : Bool) (nproj : Nat) (os : List Outcome) : Except Err Str :=
  match plan srcFmt tgtFmt nproj with
  | .error e => .error e
  | .ok p =>
    if !p.src.canLoad && (!p.srcLines || !os.isEmpty) then .error .attributeError
    else match firstErr p.tgt.canEncode os with
      | some e => .error e
      | none => .ok (assemble (frameOf p.tgt) indent p.tgtLines (parts os))

/-! ### Item scanners (generic "stop at the first accepting state" scanner) -/

structure Machine (σ : Type) where
  init : σ
  step : σ → Char → σ
  done : σ → Bool

/-- consume characters until the machine first accepts; returns (item, rest). -/
def scanGo {σ : Type} (m : Machine σ) (s : σ) : Str → Option (Str × Str)
  | [] => none
  | c :: cs =>
    let s' := m.step s c
    if m.done s' then some ([c], cs)
    else match scanGo m s' cs with
      | some (a, r) => some (c :: a, r)
      | none => none

def scan {σ : Type} (m : Machine σ) (input : Str) : Option (Str × Str) := scanGo m m.init input

/-- bracket/quote state of the token-stream and JSON item scanner -/
structure TokState where
  depth : Nat
  inStr : Bool
  esc : Bool
  closed : Bool    -- the last character closed the outermost bracket
  dead : Bool
deriving Repr, DecidableEq

def isOpen (angle : Bool) (c : Char) : Bool := c == '[' || c == '{' || c == '(' || (angle && c == '<')
def isClose (angle : Bool) (c : Char) : Bool := c == ']' || c == '}' || c == ')' || (angle && c == '>')

def tokStep (angle : Bool) (s : TokState) (c : Char) : TokState :=
  if s.dead then s
  else if s.inStr then
    if s.esc then { s with esc := false, closed := false }
    else if c == '\\' then { s with esc := true, closed := false }
    else if c == '"' then { s with inStr := false, closed := false }
    else { s with closed := false }
  else if c == '"' then { s with inStr := true, closed := false }
  else if isOpen angle c then { s with depth := s.depth + 1, closed := false }
  else if isClose angle c then
    match s.depth with
    | 0 => { s with dead := true, closed := false }
    | d + 1 => { s with depth := d, closed := d == 0 }
  else { s with closed := false }

/-- an item of a token-stream document: anything up to the bracket that closes the first bracket
opened at depth 0; double-quoted strings (backslash escapes) hide brackets.  `angle`: `<`/`>` count
as brackets (Indexed MRS, whose outermost bracket is `<…>`). -/
def tokM (angle : Bool) : Machine TokState :=
  { init := { depth := 0, inStr := false, esc := false, closed := false, dead := false },
    step := tokStep angle,
    done := fun s => s.closed && !s.dead }

inductive XTag
  | text
  | lt            -- just read '<'
  | inOpen (prevSlash : Bool)
  | inClose
deriving Repr, DecidableEq

structure XState where
  depth : Nat
  tag : XTag
  fin : Bool
  dead : Bool
deriving Repr, DecidableEq

def xStep (s : XState) (c : Char) : XState :=
  if s.dead then s
  else match s.tag with
    | .text => if c == '<' then { s with tag := .lt, fin := false } else { s with fin := false }
    | .lt =>
      if c == '/' then { s with tag := .inClose, fin := false }
      else if c == '?' || c == '!' || c == '>' || isSp c then { s with dead := true, fin := false }
      else { s with tag := .inOpen false, fin := false }
    | .inOpen ps =>
      if c == '>' then
        (if ps then { s with tag := .text, fin := s.depth == 0 }
         else { s with tag := .text, depth := s.depth + 1, fin := false })
      else { s with tag := .inOpen (c == '/'), fin := false }
    | .inClose =>
      if c == '>' then
        match s.depth with
        | 0 => { s with dead := true, fin := false }
        | d + 1 => { s with tag := .text, depth := d, fin := d == 0 }
      else { s with fin := false }

/-- one XML element (markup characters `<`/`>` only occur as markup: ElementTree escapes them in
text and attribute values). -/
def xmlM : Machine XState :=
  { init := { depth := 0, tag := .text, fin := false, dead := false },
    step := xStep,
    done := fun s => s.fin && !s.dead }

/-! ### Document readers at the level of item boundaries -/

def skipWs (s : Str) : Str := s.dropWhile isSp

/-- token-stream documents: items separated (and surrounded) by whitespace only. -/
def tokSplitF (angle : Bool) : Nat → Str → Option (List Str)
  | fuel, input =>
    match skipWs input with
    | [] => some []
    | c :: cs =>
      match fuel with
      | 0 => none
      | fuel + 1 =>
        match scan (tokM angle) (c :: cs) with
        | none => none
        | some (it, rest) =>
          match tokSplitF angle fuel rest with
          | some its => some (it :: its)
          | none => none

def tokSplit (angle : Bool) (input : Str) : Option (List Str) := tokSplitF angle (input.length + 1) input

/-- after `[`: `item (, item)* ]` where every item is one bracketed JSON value. -/
def jsonLoop : Nat → Str → Option (List Str)
  | 0, _ => none
  | fuel + 1, input =>
    match input with
    | [] => none
    | c :: cs =>
      if c == '{' || c == '[' then
        match scan (tokM false) (c :: cs) with
        | none => none
        | some (it, rest) =>
          match skipWs rest with
          | ',' :: r' =>
            (match jsonLoop fuel (skipWs r') with
             | some its => some (it :: its)
             | none => none)
          | ']' :: r' => if skipWs r' = [] then some [it] else none
          | _ => none
      else none

/-- a JSON array of bracketed values: `[` ws (`]` | item (ws `,` ws item)* ws `]`) ws -/
def jsonSplit (input : Str) : Option (List Str) :=
  match skipWs input with
  | '[' :: r =>
    (match skipWs r with
     | ']' :: r' => if skipWs r' = [] then some [] else none
     | c :: cs => jsonLoop (input.length + 1) (c :: cs)
     | [] => none)
  | _ => none

/-- `s` minus the prefix `p`, if it starts with it. -/
def dropPrefix? : Str → Str → Option Str
  | [], s => some s
  | _ :: _, [] => none
  | p :: ps, c :: cs => if p = c then dropPrefix? ps cs else none

/-- the characters of a tag name up to the closing `>` -/
def spanName : Str → Str × Str
  | [] => ([], [])
  | c :: cs => if c == '>' then ([], c :: cs) else
      let (a, b) := spanName cs
      (c :: a, b)

/-- inside the list element: elements until the closing tag that matches `name`. -/
def xmlLoop (name : Str) : Nat → Str → Option (List Str)
  | fuel, input =>
    match skipWs input with
    | '<' :: '/' :: r =>
      (match dropPrefix? name r with
       | some ('>' :: tail) => if skipWs tail = [] then some [] else none
       | _ => none)
    | '<' :: c :: cs =>
      (match fuel with
       | 0 => none
       | fuel + 1 =>
         match scan xmlM ('<' :: c :: cs) with
         | none => none
         | some (it, rest) =>
           match xmlLoop name fuel rest with
           | some its => some (it :: its)
           | none => none)
    | _ => none

/-- `<name>` element* `</name>` (whitespace between elements). -/
def xmlSplit (input : Str) : Option (List Str) :=
  match skipWs input with
  | '<' :: r =>
    (match spanName r with
     | (name, '>' :: body) => xmlLoop name (input.length + 1) body
     | _ => none)
  | _ => none

/-- `for line in fh` with the line terminator removed. -/
def splitLines : Str → List Str
  | [] => []
  | c :: cs =>
    if c == '\n' then [] :: splitLines cs
    else match splitLines cs with
      | [] => [[c]]
      | l :: ls => (c :: l) :: ls

/-! ### Families -/

inductive Family
  | tok (angle : Bool)
  | json
  | xml
  | export       -- the codec has no reader
deriving Repr, DecidableEq

def jsonNames : List Str :=
  [['m','r','s','j','s','o','n'], ['d','m','r','s','j','s','o','n'], ['e','d','s','j','s','o','n']]
def xmlNames : List Str := [['m','r','x'], ['d','m','r','x']]
def angleNames : List Str := [['i','n','d','e','x','e','d','m','r','s']]

def familyOf (c : Codec) : Family :=
  if !c.canLoad then .export
  else if jsonNames.contains c.name then .json
  else if xmlNames.contains c.name then .xml
  else .tok (angleNames.contains c.name)

/-- read a document of family `fam` back into its item texts (`none`: not a document / no reader). -/
def readDoc (fam : Family) (doc : Str) : Option (List Str) :=
  match fam with
  | .tok a => tokSplit a doc
  | .json => jsonSplit doc
  | .xml => xmlSplit doc
  | .export => none

/-- reader used for a target: the line reader for `-lines`, else the family reader. -/
def readBack (c : Codec) (lines : Bool) (doc : Str) : Option (List Str) :=
  match familyOf c with
  | .export => none
  | fam => if lines then some (splitLines doc) else readDoc fam doc

/-! ### Decidable side conditions on (effective) frames -/

def wsOnly (s : Str) : Bool := s.all isSp

/-- `c` followed by whitespace -/
def headShape (c : Char) (h : Str) : Bool :=
  match h with
  | c' :: w => c' == c && wsOnly w
  | [] => false

/-- whitespace, `c`, whitespace -/
def sepShape (c : Char) (j : Str) : Bool :=
  match skipWs j with
  | c' :: w => c' == c && wsOnly w
  | [] => false

/-- whitespace then exactly `c` -/
def footShape (c : Char) (f : Str) : Bool := skipWs f == [c]

def tokFrameOk (g : Frame) : Bool := wsOnly g.header && wsOnly g.joiner && wsOnly g.footer

def jsonFrameOk (g : Frame) : Bool := headShape '[' g.header && sepShape ',' g.joiner && footShape ']' g.footer

def nameOk (name : Str) : Bool := !name.isEmpty && name.all (fun c => c != '>' && c != '/' && c != '<' && !isSp c)

/-- header is `<name>` + whitespace, footer whitespace + `</name>`, joiner whitespace. -/
def xmlFrameOk (name : Str) (g : Frame) : Bool :=
  nameOk name &&
  (match dropPrefix? ('<' :: name ++ ['>']) g.header with
   | some w => wsOnly w
   | none => false) &&
  wsOnly g.joiner &&
  skipWs g.footer == '<' :: '/' :: name ++ ['>']

/-- the list-element name of an XML frame: header without `<` and `>` -/
def xmlName (f : Frame) : Str := (spanName (f.header.drop 1)).1

def frameOkFor (fam : Family) (f g : Frame) : Bool :=
  match fam with
  | .tok _ => tokFrameOk g
  | .json => jsonFrameOk g
  | .xml => xmlFrameOk (xmlName f) g
  | .export => true

/-- the check `decide`d on the generated table: for every codec, with and without indent, the
effective frame has the shape its family's reader needs. -/
def codecFramesOk (c : Codec) : Bool :=
  frameOkFor (familyOf c) (frameOf c) (effFrame (frameOf c) false false) &&
  frameOkFor (familyOf c) (frameOf c) (effFrame (frameOf c) true false)

/-! ### Item predicates (what an item text must be for the family's reader)

RESTRICTION.  `tokSplit` / `jsonSplit` / `xmlSplit` are item-boundary splitters (bracket depth with double-quoted
strings; tag depth); they model no single function of /repo — the real `loads` of the token-stream codecs lexes the
whole text and parses item after item.  `TokItem` therefore holds only for item texts whose brackets outside
double-quoted strings are balanced: it FAILS for items that are inside C01–C03's spaces but carry a bracket in an
unquoted symbol (SimpleMRS predicate `_a(b_n_1`, SimpleDMRS predicate `_a)_n_1`).  The harness keeps such predicates
(and empty property values) out of its generators and checks `TokItem`/`JsonItem`/`XmlItem` on every real item text
it converts.  The restriction-free statements for SimpleDMRS and native EDS are in `Verif/Integration/Frame.lean`:
there the reader is C02's / C03's model of the real lexer and parser. -/

def TokItem (angle : Bool) (it : Str) : Prop :=
  (∃ c cs, it = c :: cs ∧ isSp c = false) ∧ scan (tokM angle) it = some (it, [])

def JsonItem (it : Str) : Prop :=
  (∃ c cs, it = c :: cs ∧ (c = '{' ∨ c = '[')) ∧ scan (tokM false) it = some (it, [])

def XmlItem (it : Str) : Prop :=
  (∃ c cs, it = '<' :: c :: cs ∧ c ≠ '/') ∧ scan xmlM it = some (it, [])

def LineItem (it : Str) : Prop := it ≠ [] ∧ '\n' ∉ it

def ItemFor (fam : Family) (it : Str) : Prop :=
  match fam with
  | .tok a => TokItem a it
  | .json => JsonItem it
  | .xml => XmlItem it
  | .export => False

/-- executable versions for the driver -/
def tokItemB (angle : Bool) (it : Str) : Bool :=
  (match it with | c :: _ => !isSp c | [] => false) && scan (tokM angle) it == some (it, [])
def jsonItemB (it : Str) : Bool :=
  (match it with | c :: _ => c == '{' || c == '[' | [] => false) && scan (tokM false) it == some (it, [])
def xmlItemB (it : Str) : Bool :=
  (match it with | '<' :: c :: _ => c != '/' | _ => false) && scan xmlM it == some (it, [])
def lineItemB (it : Str) : Bool := !it.isEmpty && !it.contains '\n'

def itemOkB (fam : Family) (lines : Bool) (it : Str) : Bool :=
  match fam with
  | .export => true
  | .tok a => if lines then lineItemB it else tokItemB a it
  | .json => if lines then lineItemB it else jsonItemB it
  | .xml => if lines then lineItemB it else xmlItemB it

end Verif.C20
