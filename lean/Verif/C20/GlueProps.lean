/-
C20 — theorems about the glue of `commands.convert` (model: Verif/C20/Glue.lean): the option plumbing, the call
paths for the different ways the input is given, eager vs streaming readers, the profile-row reader, and the
command-line front end.  "this holds whether items come from a file, a stream or a profile query, with or without
indentation, and for the one-item-per-line variants".
-/
import Verif.C20.Glue
import Verif.C20.Props

namespace Verif.C20
open Verif.Tables

theorem pump_cons (p : Plan) (o : Opts) (it : Item) (r : List Item) :
    pump p o (it :: r) =
      match step p o it with
      | (ev, .abort e) => (ev, .error e)
      | (ev, .skip) => (ev ++ (pump p o r).1, (pump p o r).2)
      | (ev, .part t) => (ev ++ (pump p o r).1, (pump p o r).2.map (t :: ·)) := by simp only [pump]; rfl

theorem pumpLines_some (p : Plan) (o : Opts) (it : Item) (r : List (Option Item)) :
    pumpLines p o (some it :: r) =
      match step p o it with
      | (ev, .abort e) => (decodeEvent p o :: ev, .error e)
      | (ev, .skip) => (decodeEvent p o :: ev ++ (pumpLines p o r).1, (pumpLines p o r).2)
      | (ev, .part t) => (decodeEvent p o :: ev ++ (pumpLines p o r).1, (pumpLines p o r).2.map (t :: ·)) := by
  simp only [pumpLines]; rfl

/-! ## the pipeline on ordinary items is the `convert` of Model.lean -/

/-- the eager pipeline over ordinary items gives exactly `firstErr` / `parts` of Model.lean -/
theorem pump_std (p : Plan) (o : Opts) (os : List Outcome) :
    (pump p o (os.map .std)).2 =
      match firstErr p.tgt.canEncode os with
      | some e => .error (.cmd e)
      | none => .ok (parts os) := by
  induction os with
  | nil => simp [pump, firstErr, parts]
  | cons oc r ih =>
    cases hce : p.tgt.canEncode <;> cases oc <;>
      simp only [List.map_cons, pump, step, firstErr, hce, if_true, if_false, Bool.false_eq_true, ih] <;>
      cases hf : firstErr _ r <;> simp [parts, Outcome.text?, Except.map, List.filterMap_cons]

/-- the line pipeline over ordinary items likewise -/
theorem pumpLines_std (p : Plan) (o : Opts) (os : List Outcome) :
    (pumpLines p o (os.map (fun oc => some (.std oc)))).2 =
      match firstErr p.tgt.canEncode os with
      | some e => .error (.cmd e)
      | none => .ok (parts os) := by
  induction os with
  | nil => simp [pumpLines, firstErr, parts]
  | cons oc r ih =>
    cases hce : p.tgt.canEncode <;> cases oc <;>
      simp only [List.map_cons, pumpLines, step, firstErr, hce, if_true, if_false, Bool.false_eq_true, ih] <;>
      cases hf : firstErr _ r <;> simp [parts, Outcome.text?, Except.map, List.filterMap_cons]

def liftErr : Except Err Str → Except GErr Str
  | .ok s => .ok s
  | .error e => .error (.cmd e)

/-- FILE / STREAM / STDIN: a source document that `load` reads as the items `os` — the call returns what Model.lean's
`convert` returns on `os` (so every theorem of Props.lean about `convert` applies to this call path). -/
theorem session_doc_eq_convert (srcFmt tgtFmt : Str) (o : Opts) (n : Nat) (kind : PathArg) (os : List Outcome)
    (p : Plan) (hp : plan srcFmt tgtFmt n = .ok p) (hl : p.srcLines = false) (hk : kind.norm ≠ .dir) :
    (session srcFmt tgtFmt o n kind (.doc true (os.map .std))).out
      = liftErr (convert srcFmt tgtFmt o.indent.given n os) := by
  have hpump := pump_std p o os
  unfold session convert
  rw [hp]
  simp only [hl, Bool.not_false, Bool.true_or, Bool.and_true]
  cases hkn : kind.norm with
  | dir => exact absurd hkn hk
  | none => cases kind <;> simp [PathArg.norm] at hkn
  | stream =>
    simp only [run, hl, hkn]
    cases hcl : p.src.canLoad
    · simp [liftErr]
    · simp only [Bool.not_true, Bool.false_eq_true, if_false, finish, prepend, hpump]
      cases hf : firstErr p.tgt.canEncode os <;> simp [liftErr]
  | file =>
    simp only [run, hl, hkn]
    cases hcl : p.src.canLoad
    · simp [liftErr]
    · simp only [Bool.not_true, Bool.false_eq_true, if_false, finish, prepend, hpump]
      cases hf : firstErr p.tgt.canEncode os <;> simp [liftErr]

/-- ONE ITEM PER LINE: a `-lines` source whose lines `decode` reads as the items `os`. -/
theorem session_lines_eq_convert (srcFmt tgtFmt : Str) (o : Opts) (n : Nat) (kind : PathArg) (os : List Outcome)
    (p : Plan) (hp : plan srcFmt tgtFmt n = .ok p) (hl : p.srcLines = true) (hk : kind.norm ≠ .dir) :
    (session srcFmt tgtFmt o n kind (.lines (os.map (fun oc => some (.std oc))))).out
      = liftErr (convert srcFmt tgtFmt o.indent.given n os) := by
  have hpump := pumpLines_std p o os
  unfold session convert
  rw [hp]
  simp only [hl, Bool.not_true, Bool.false_or]
  have hrun : run p o kind (.lines (os.map (fun oc => some (.std oc)))) =
      (if !p.src.canLoad && !(os.map (fun oc => some (Item.std oc))).isEmpty then
        { events := [], out := .error (.cmd .attributeError) }
       else finish p o (pumpLines p o (os.map (fun oc => some (.std oc))))) := by
    cases hkn : kind.norm with
    | dir => exact absurd hkn hk
    | none => cases kind <;> simp [PathArg.norm] at hkn
    | stream => simp only [run, hl, hkn]
    | file => simp only [run, hl, hkn]
  rw [hrun]
  have he : (os.map (fun oc => some (Item.std oc))).isEmpty = os.isEmpty := by cases os <;> rfl
  rw [he]
  cases hc : (!p.src.canLoad && !os.isEmpty)
  · simp only [Bool.false_eq_true, if_false, finish, hpump]
    cases hf : firstErr p.tgt.canEncode os <;> simp [liftErr]
  · simp [liftErr]

/-- PROFILE QUERY: a test-suite directory whose selected cells each hold a one-item document (read by `loads` as
`[x]`): the same again.  Hypothesis: the source has a reader or no row is selected … -/
theorem session_rows_eq_convert (srcFmt tgtFmt : Str) (o : Opts) (n : Nat) (os : List Outcome)
    (p : Plan) (hp : plan srcFmt tgtFmt n = .ok p) (hl : p.srcLines = false)
    (hne : p.src.canLoad = true ∨ os ≠ []) :
    (session srcFmt tgtFmt o n .dir (.rows (os.map (fun oc => some [.std oc])))).out
      = liftErr (convert srcFmt tgtFmt o.indent.given n os) := by
  have hpump := pump_std p o os
  have hdel : ∀ os : List Outcome,
      deliverRows (os.map (fun oc => some [Item.std oc])) = (os.length, some (os.map .std)) := by
    intro os
    induction os with
    | nil => rfl
    | cons x r ih => simp [deliverRows, ih, firstOfCell]
  unfold session convert
  rw [hp]
  simp only [hl, Bool.not_false, Bool.true_or, Bool.and_true, run, PathArg.norm, hdel]
  have he : (os.map (fun oc => some [Item.std oc])).isEmpty = os.isEmpty := by cases os <;> rfl
  rw [he]
  cases hcl : p.src.canLoad
  · rcases hne with h | h
    · rw [hcl] at h; cases h
    · cases os with
      | nil => exact absurd rfl h
      | cons x r => simp [liftErr]
  · simp only [Bool.not_true, Bool.false_and, Bool.false_eq_true, if_false, finish, prepend, hpump]
    cases hf : firstErr p.tgt.canEncode os <;> simp [liftErr]

/-- … and the hypothesis is needed: an export-only source (`mrsprolog` has no `loads`) over a query that selects no
row succeeds with the empty document — the row reader never touches the source codec — while a file of that format
is rejected. -/
theorem rows_zero_export_source :
    (session "mrsprolog".toList "simplemrs".toList ⟨true, true, false, .none, false, false, false⟩ 1 .dir
      (.rows [])).out = .ok []
    ∧ (session "mrsprolog".toList "simplemrs".toList ⟨true, true, false, .none, false, false, false⟩ 1 .file
      (.doc true [])).out = .error (.cmd .attributeError) := by decide

/-! ## option plumbing -/

/-- the seven events a call with plan `p` and options `o` can make -/
def canonical (p : Plan) (o : Opts) : List Event :=
  [{ fn := .load, arg := .stream, kw := readKw p o }, { fn := .load, arg := .path, kw := readKw p o },
   { fn := .loads, arg := .text, kw := readKw p o }, { fn := .decode, arg := .text, kw := readKw p o },
   { fn := .conv, arg := .obj, kw := convKw p o }, { fn := .encode, arg := .obj, kw := encodeKw p o },
   { fn := .highlight, arg := .text, kw := [] }]

theorem step_events (p : Plan) (o : Opts) (it : Item) : ∀ ev ∈ (step p o it).1, ev ∈ canonical p o := by
  intro ev hev
  have hc : ∀ ev ∈ convEvent p o, ev ∈ canonical p o := by
    intro ev h
    unfold convEvent at h
    cases hcv : p.conv <;> simp [hcv] at h <;> simp [canonical, h]
  have he : ∀ ev ∈ encEvent p o, ev ∈ canonical p o := by
    intro ev h
    unfold encEvent at h
    cases hce : p.tgt.canEncode <;> simp [hce] at h
    simp [canonical, h]
  cases it with
  | std oc =>
    cases oc <;> simp only [step, List.mem_append] at hev
    · rcases hev with h | h
      · exact hc _ h
      · exact he _ h
    · exact hc _ hev
    · rcases hev with h | h
      · exact hc _ h
      · exact he _ h
    · exact hc _ hev
  | encCrash =>
    simp only [step, List.mem_append] at hev
    rcases hev with h | h
    · exact hc _ h
    · exact he _ h
  | noneItem =>
    simp only [step] at hev
    cases hcv : p.conv <;> simp only [hcv] at hev
    · exact he _ hev
    · exact hc _ hev
    · exact hc _ hev
    · exact hc _ hev

theorem pump_events (p : Plan) (o : Opts) (its : List Item) : ∀ ev ∈ (pump p o its).1, ev ∈ canonical p o := by
  induction its with
  | nil => simp [pump]
  | cons it r ih =>
    intro ev hev
    have hs := step_events p o it
    unfold pump at hev
    split at hev
    · rename_i e heq; rw [heq] at hs; exact hs ev hev
    · rename_i e heq
      rw [heq] at hs
      simp only [List.mem_append] at hev
      rcases hev with h | h
      · exact hs ev h
      · exact ih ev h
    · rename_i e t heq
      rw [heq] at hs
      simp only [List.mem_append] at hev
      rcases hev with h | h
      · exact hs ev h
      · exact ih ev h

theorem pumpLines_events (p : Plan) (o : Opts) (ls : List (Option Item)) :
    ∀ ev ∈ (pumpLines p o ls).1, ev ∈ canonical p o := by
  have hd : decodeEvent p o ∈ canonical p o := by simp [canonical, decodeEvent]
  induction ls with
  | nil => simp [pumpLines]
  | cons l r ih =>
    intro ev hev
    cases l with
    | none =>
      simp only [pumpLines, List.mem_singleton] at hev
      rw [hev]; exact hd
    | some it =>
      have hs := step_events p o it
      rw [pumpLines_some] at hev
      rcases hstep : step p o it with ⟨e, res⟩
      rw [hstep] at hev hs
      cases res with
      | abort x =>
        simp only [List.mem_cons] at hev
        rcases hev with h | h
        · rw [h]; exact hd
        · exact hs ev h
      | skip =>
        simp only [List.mem_cons, List.mem_append] at hev
        rcases hev with (h | h) | h
        · rw [h]; exact hd
        · exact hs ev h
        · exact ih ev h
      | part t =>
        simp only [List.mem_cons, List.mem_append] at hev
        rcases hev with (h | h) | h
        · rw [h]; exact hd
        · exact hs ev h
        · exact ih ev h

theorem finish_events (p : Plan) (o : Opts) (r : List Event × Except GErr (List Str))
    (h : ∀ ev ∈ r.1, ev ∈ canonical p o) : ∀ ev ∈ (finish p o r).events, ev ∈ canonical p o := by
  intro ev hev
  unfold finish at hev
  split at hev
  · exact h ev hev
  · simp only [List.mem_append] at hev
    rcases hev with h' | h'
    · exact h ev h'
    · split at h'
      · simp only [List.mem_singleton] at h'
        simp [canonical, h']
      · simp at h'

/-- Whatever the input kind, the content and the outcomes: every call the command makes is one of the seven canonical
calls of its plan and options. -/
theorem run_events (p : Plan) (o : Opts) (kind : PathArg) (c : Content) :
    ∀ ev ∈ (run p o kind c).events, ev ∈ canonical p o := by
  intro ev hev
  unfold run at hev
  split at hev
  · simp at hev
  · split at hev
    · simp at hev
    · exact finish_events p o _ (pumpLines_events p o _) ev hev
  · split at hev
    · simp at hev
    · simp only at hev
      split at hev
      · simp only [List.mem_replicate] at hev
        simp [canonical, hev.2]
      · refine finish_events p o _ ?_ ev hev
        intro ev' h'
        simp only [prepend, List.mem_append, List.mem_replicate] at h'
        rcases h' with h' | h'
        · simp [canonical, h'.2]
        · exact pump_events p o _ ev' h'
  · split at hev
    · simp at hev
    · split at hev
      · simp only [List.mem_singleton] at hev
        simp [canonical, hev]
      · refine finish_events p o _ ?_ ev hev
        intro ev' h'
        simp only [prepend, List.mem_append, List.mem_singleton] at h'
        rcases h' with h' | h'
        · simp [canonical, h']
        · exact pump_events p o _ ev' h'
  · split at hev
    · simp at hev
    · split at hev
      · simp only [List.mem_singleton] at hev
        simp [canonical, hev]
      · refine finish_events p o _ ?_ ev hev
        intro ev' h'
        simp only [prepend, List.mem_append, List.mem_singleton] at h'
        rcases h' with h' | h'
        · simp [canonical, h']
        · exact pump_events p o _ ev' h'
  · simp at hev

/-- OPTIONS REACH EVERY ITEM ALIKE: every `encode` call of a run — first item or last, from a file, a stream, stdin,
a profile row or a line, after failed items or not — gets the same keyword arguments `encodeKw p o`; every reader call
gets `readKw p o`; every converter call `convKw p o`. -/
theorem kwargs_uniform (p : Plan) (o : Opts) (kind : PathArg) (c : Content) :
    ∀ ev ∈ (run p o kind c).events,
      (ev.fn = .encode → ev.kw = encodeKw p o) ∧
      (ev.fn = .conv → ev.kw = convKw p o) ∧
      ((ev.fn = .load ∨ ev.fn = .loads ∨ ev.fn = .decode) → ev.kw = readKw p o) := by
  intro ev hev
  have h := run_events p o kind c ev hev
  simp only [canonical, List.mem_cons, List.not_mem_nil, or_false] at h
  rcases h with h | h | h | h | h | h | h <;> subst h <;> simp

/-- what `encode` is given: `properties` and `lnk` always (also for `-lines` targets), `indent` as passed unless the
target is a `-lines` variant (then `None`), `show_status` exactly for the target `eds`, `semi` exactly for the target
`indexedmrs` when a SEM-I was given. -/
theorem encodeKw_spec (p : Plan) (o : Opts) :
    kwGet (encodeKw p o) "properties" = some (.bool o.properties) ∧
    kwGet (encodeKw p o) "lnk" = some (.bool o.lnk) ∧
    kwGet (encodeKw p o) "indent" = some (.indent (if p.tgtLines then .none else o.indent)) ∧
    kwGet (encodeKw p o) "show_status" = (if p.tgt.name = nmEds then some (.bool o.showStatus) else none) ∧
    kwGet (encodeKw p o) "semi" = (if p.tgt.name = nmIndexed ∧ o.semi = true then some .semi else none) := by
  unfold encodeKw kwGet
  have hne : nmEds ≠ nmIndexed := by decide
  by_cases h1 : p.tgt.name = nmEds <;> by_cases h2 : (p.tgt.name = nmIndexed ∧ o.semi = true) <;>
    simp [h1, h2, List.find?, hne, hne.symm]

/-- no keyword is given twice -/
theorem encodeKw_nodup (p : Plan) (o : Opts) : ((encodeKw p o).map (·.1)).Nodup := by
  unfold encodeKw
  have hne : nmEds ≠ nmIndexed := by decide
  by_cases h1 : p.tgt.name = nmEds <;> by_cases h2 : (p.tgt.name = nmIndexed ∧ o.semi = true) <;>
    simp [h1, h2, hne, hne.symm]

/-- what the reader is given: the SEM-I exactly for an `indexedmrs` source -/
theorem readKw_spec (p : Plan) (o : Opts) :
    readKw p o = if p.src.name = nmIndexed ∧ o.semi = true then [("semi", .semi)] else [] := rfl

/-- the predicate-modifier flag reaches `eds.from_mrs`, and nothing else does -/
theorem convKw_spec (p : Plan) (o : Opts) :
    (p.conv = .mrsToEds → convKw p o = [("predicate_modifiers", .bool o.predmod)]) ∧
    (p.conv = .mrsToDmrs → convKw p o = [("representative_priority", .none)]) ∧
    (p.conv = .dmrsToMrs → convKw p o = []) := by
  refine ⟨?_, ?_, ?_⟩ <;> intro h <;> simp [convKw, h]

/-! ### an option that does not apply changes nothing at all -/

/-- two option records are indistinguishable for plan `p` -/
def SameFor (p : Plan) (o o' : Opts) : Prop :=
  readKw p o = readKw p o' ∧ encodeKw p o = encodeKw p o' ∧ convKw p o = convKw p o' ∧
  highlights p o = highlights p o' ∧
  (∀ ps, assemble (frameOf p.tgt) o.indent.given p.tgtLines ps = assemble (frameOf p.tgt) o'.indent.given p.tgtLines ps)

theorem step_congr (p : Plan) (o o' : Opts) (h : SameFor p o o') (it : Item) : step p o it = step p o' it := by
  obtain ⟨_, h2, h3, _, _⟩ := h
  have hc : convEvent p o = convEvent p o' := by unfold convEvent; rw [h3]
  have he : encEvent p o = encEvent p o' := by unfold encEvent; rw [h2]
  cases it with
  | std oc => cases oc <;> simp only [step, hc, he]
  | encCrash => simp only [step, hc, he]
  | noneItem => simp only [step, hc, he]

theorem pump_congr (p : Plan) (o o' : Opts) (h : SameFor p o o') (its : List Item) : pump p o its = pump p o' its := by
  induction its with
  | nil => rfl
  | cons it r ih => simp only [pump, step_congr p o o' h it, ih]

theorem pumpLines_congr (p : Plan) (o o' : Opts) (h : SameFor p o o') (ls : List (Option Item)) :
    pumpLines p o ls = pumpLines p o' ls := by
  have hd : decodeEvent p o = decodeEvent p o' := by unfold decodeEvent; rw [h.1]
  induction ls with
  | nil => rfl
  | cons l r ih =>
    cases l with
    | none => simp only [pumpLines, hd]
    | some it => simp only [pumpLines, step_congr p o o' h it, ih, hd]

theorem finish_congr (p : Plan) (o o' : Opts) (h : SameFor p o o') (r : List Event × Except GErr (List Str)) :
    finish p o r = finish p o' r := by
  obtain ⟨_, _, _, h4, h5⟩ := h
  unfold finish
  cases r.2 with
  | error e => rfl
  | ok ps => simp only [h4, h5 ps]

/-- the whole call depends on the options only through the three kwargs dictionaries, the highlighter choice and the
assembled frame -/
theorem run_congr (p : Plan) (o o' : Opts) (h : SameFor p o o') (kind : PathArg) (c : Content) :
    run p o kind c = run p o' kind c := by
  unfold run
  simp only [pump_congr p o o' h, pumpLines_congr p o o' h, finish_congr p o o' h, h.1]

/-- `color` is ignored unless the target is `simplemrs` -/
theorem color_irrelevant (p : Plan) (o : Opts) (b : Bool) (ht : p.tgt.name ≠ nmSimpleMrs) (kind : PathArg)
    (c : Content) : run p { o with color := b } kind c = run p o kind c := by
  apply run_congr
  refine ⟨rfl, rfl, rfl, ?_, fun _ => rfl⟩
  simp [highlights, ht]

/-- `show_status` is ignored unless the target is `eds` -/
theorem showStatus_irrelevant (p : Plan) (o : Opts) (b : Bool) (ht : p.tgt.name ≠ nmEds) (kind : PathArg)
    (c : Content) : run p { o with showStatus := b } kind c = run p o kind c := by
  apply run_congr
  refine ⟨rfl, ?_, rfl, rfl, fun _ => rfl⟩
  simp [encodeKw, ht]

/-- `predicate_modifiers` is ignored unless an MRS is converted to EDS -/
theorem predmod_irrelevant (p : Plan) (o : Opts) (b : Bool) (hc : p.conv ≠ .mrsToEds) (kind : PathArg)
    (c : Content) : run p { o with predmod := b } kind c = run p o kind c := by
  apply run_congr
  refine ⟨rfl, rfl, ?_, rfl, fun _ => rfl⟩
  unfold convKw
  cases h : p.conv <;> simp_all

/-- `semi` is ignored unless the source or the target is `indexedmrs` -/
theorem semi_irrelevant (p : Plan) (o : Opts) (b : Bool) (hs : p.src.name ≠ nmIndexed) (ht : p.tgt.name ≠ nmIndexed)
    (kind : PathArg) (c : Content) : run p { o with semi := b } kind c = run p o kind c := by
  apply run_congr
  refine ⟨?_, ?_, rfl, rfl, fun _ => rfl⟩
  · simp [readKw, hs]
  · simp [encodeKw, ht]

/-- "for the one-item-per-line variants": for a `-lines` target the indentation is ignored altogether (the frame is
`''`/`'\n'`/`''` and `encode` gets `indent=None`). -/
theorem lines_indent_irrelevant (p : Plan) (o : Opts) (i : Indent) (hl : p.tgtLines = true) (kind : PathArg)
    (c : Content) : run p { o with indent := i } kind c = run p o kind c := by
  apply run_congr
  refine ⟨rfl, ?_, rfl, rfl, fun _ => ?_⟩
  · simp [encodeKw, hl]
  · simp [assemble, effFrame, hl]

/-- for a plain target only `indent is None` vs not matters for the FRAME; the value goes to `encode` unchanged
(two different non-`None` indents: same frame, different `encode` kwargs). -/
theorem indent_frame_only_given (p : Plan) (o : Opts) (i j : Indent) (hi : i.given = j.given) (ps : List Str) :
    assemble (frameOf p.tgt) ({ o with indent := i } : Opts).indent.given p.tgtLines ps
      = assemble (frameOf p.tgt) ({ o with indent := j } : Opts).indent.given p.tgtLines ps := by
  simp [hi]

/-- `path=None` (stdin) is the stream path -/
theorem stdin_is_stream (p : Plan) (o : Opts) (c : Content) : run p o .none c = run p o .stream c := by
  unfold run; rfl

/-- an invalid request (unknown codec, unsupported pair, wrong projection) calls nothing at all -/
theorem invalid_request_calls_nothing (srcFmt tgtFmt : Str) (o : Opts) (n : Nat) (kind : PathArg) (c : Content)
    (e : Err) (h : plan srcFmt tgtFmt n = .error e) :
    (session srcFmt tgtFmt o n kind c).events = [] ∧ (session srcFmt tgtFmt o n kind c).out = .error (.cmd e) := by
  unfold session; rw [h]; exact ⟨rfl, rfl⟩

/-! ## streaming and error isolation along the pipeline -/

theorem pump_append_ok (p : Plan) (o : Opts) (a b : List Item) (pa : List Str) (h : (pump p o a).2 = .ok pa) :
    pump p o (a ++ b) = ((pump p o a).1 ++ (pump p o b).1, (pump p o b).2.map (pa ++ ·)) := by
  induction a generalizing pa with
  | nil =>
    simp only [pump, Except.ok.injEq] at h
    subst h
    cases hb : (pump p o b).2 <;> simp [pump, Except.map, hb, Prod.ext_iff]
  | cons it r ih =>
    rw [List.cons_append, pump_cons, pump_cons]
    rw [pump_cons] at h
    rcases hstep : step p o it with ⟨ev, res⟩
    rw [hstep] at h
    cases res with
    | abort e => simp at h
    | skip =>
      simp only at h ⊢
      rw [ih pa h]
      simp
    | part t =>
      simp only at h ⊢
      cases hr : (pump p o r).2 with
      | error e => rw [hr] at h; simp [Except.map] at h
      | ok pr =>
        rw [hr] at h
        simp only [Except.map, Except.ok.injEq] at h
        subst h
        rw [ih pr hr]
        cases hb : (pump p o b).2 <;> simp [Except.map]

/-- an abort (converter crash, `None` item, encoder crash, missing `encode`) ends the run: nothing after it is called
or read, and no document is returned whatever follows. -/
theorem pump_append_abort (p : Plan) (o : Opts) (a b : List Item) (e : GErr) (h : (pump p o a).2 = .error e) :
    pump p o (a ++ b) = pump p o a := by
  induction a generalizing e with
  | nil => simp [pump] at h
  | cons it r ih =>
    rw [List.cons_append, pump_cons, pump_cons]
    rw [pump_cons] at h
    rcases hstep : step p o it with ⟨ev, res⟩
    rw [hstep] at h
    cases res with
    | abort e' => rfl
    | skip =>
      simp only at h ⊢
      rw [ih _ h]
    | part t =>
      simp only at h ⊢
      cases hr : (pump p o r).2 with
      | ok pr => rw [hr] at h; simp [Except.map] at h
      | error e' => rw [ih _ hr]; simp [hr]

/-- STREAMING of the `-lines` reader: the calls made for the first lines do not depend on the lines that follow
(line k+1 is decoded only after line k was converted and encoded) … -/
theorem pumpLines_append_ok (p : Plan) (o : Opts) (a b : List (Option Item)) (pa : List Str)
    (h : (pumpLines p o a).2 = .ok pa) :
    pumpLines p o (a ++ b) = ((pumpLines p o a).1 ++ (pumpLines p o b).1, (pumpLines p o b).2.map (pa ++ ·)) := by
  induction a generalizing pa with
  | nil =>
    simp only [pumpLines, Except.ok.injEq] at h
    subst h
    cases hb : (pumpLines p o b).2 <;> simp [pumpLines, Except.map, hb, Prod.ext_iff]
  | cons l r ih =>
    cases l with
    | none => simp [pumpLines] at h
    | some it =>
      rw [List.cons_append, pumpLines_some, pumpLines_some]
      rw [pumpLines_some] at h
      rcases hstep : step p o it with ⟨ev, res⟩
      rw [hstep] at h
      cases res with
      | abort e => simp at h
      | skip =>
        simp only at h ⊢
        rw [ih pa h]
        simp
      | part t =>
        simp only at h ⊢
        cases hr : (pumpLines p o r).2 with
        | error e => rw [hr] at h; simp [Except.map] at h
        | ok pr =>
          rw [hr] at h
          simp only [Except.map, Except.ok.injEq] at h
          subst h
          rw [ih pr hr]
          cases hb : (pumpLines p o b).2 <;> simp [Except.map]

/-- … whereas the eager readers make all their reader calls before the first converter / encoder call. -/
theorem eager_reads_first (p : Plan) (o : Opts) (kind : PathArg) (c : Content) (hl : p.srcLines = false) :
    ∃ reads work, (run p o kind c).events = reads ++ work ∧
      (∀ ev ∈ reads, ev.fn = .load ∨ ev.fn = .loads) ∧
      (∀ ev ∈ work, ev.fn = .conv ∨ ev.fn = .encode ∨ ev.fn = .highlight) := by
  have hstep : ∀ it, ∀ ev ∈ (step p o it).1, ev.fn = .conv ∨ ev.fn = .encode ∨ ev.fn = .highlight := by
    intro it ev hev
    have hc : ∀ ev ∈ convEvent p o, ev.fn = .conv := by
      intro ev h; unfold convEvent at h; cases hcv : p.conv <;> simp [hcv] at h <;> simp [h]
    have he : ∀ ev ∈ encEvent p o, ev.fn = .encode := by
      intro ev h; unfold encEvent at h; cases hce : p.tgt.canEncode <;> simp [hce] at h; simp [h]
    cases it with
    | std oc =>
      cases oc <;> simp only [step, List.mem_append] at hev
      · rcases hev with h | h
        · exact Or.inl (hc _ h)
        · exact Or.inr (Or.inl (he _ h))
      · exact Or.inl (hc _ hev)
      · rcases hev with h | h
        · exact Or.inl (hc _ h)
        · exact Or.inr (Or.inl (he _ h))
      · exact Or.inl (hc _ hev)
    | encCrash =>
      simp only [step, List.mem_append] at hev
      rcases hev with h | h
      · exact Or.inl (hc _ h)
      · exact Or.inr (Or.inl (he _ h))
    | noneItem =>
      simp only [step] at hev
      cases hcv : p.conv <;> simp only [hcv] at hev
      · exact Or.inr (Or.inl (he _ hev))
      · exact Or.inl (hc _ hev)
      · exact Or.inl (hc _ hev)
      · exact Or.inl (hc _ hev)
  have hpump : ∀ its, ∀ ev ∈ (pump p o its).1, ev.fn = .conv ∨ ev.fn = .encode ∨ ev.fn = .highlight := by
    intro its
    induction its with
    | nil => simp [pump]
    | cons it r ih =>
      intro ev hev
      have hs := hstep it
      unfold pump at hev
      split at hev
      · rename_i e heq; rw [heq] at hs; exact hs ev hev
      · rename_i e heq
        rw [heq] at hs
        simp only [List.mem_append] at hev
        rcases hev with h | h
        · exact hs ev h
        · exact ih ev h
      · rename_i e t heq
        rw [heq] at hs
        simp only [List.mem_append] at hev
        rcases hev with h | h
        · exact hs ev h
        · exact ih ev h
  have hfin : ∀ (reads : List Event) (its : List Item),
      (∀ ev ∈ reads, ev.fn = .load ∨ ev.fn = .loads) →
      ∃ work, (finish p o (prepend reads (pump p o its))).events = reads ++ work ∧
        (∀ ev ∈ work, ev.fn = .conv ∨ ev.fn = .encode ∨ ev.fn = .highlight) := by
    intro reads its _
    unfold finish prepend
    cases hr : (pump p o its).2 with
    | error e => exact ⟨(pump p o its).1, by simp, hpump its⟩
    | ok ps =>
      refine ⟨(pump p o its).1 ++ (if highlights p o then [{ fn := .highlight, arg := .text, kw := [] }] else []),
        by simp, ?_⟩
      intro ev hev
      simp only [List.mem_append] at hev
      rcases hev with h | h
      · exact hpump its ev h
      · split at h
        · simp only [List.mem_singleton] at h; simp [h]
        · simp at h
  have hnil : ∃ reads work, ([] : List Event) = reads ++ work ∧
      (∀ ev ∈ reads, ev.fn = .load ∨ ev.fn = .loads) ∧
      (∀ ev ∈ work, ev.fn = .conv ∨ ev.fn = .encode ∨ ev.fn = .highlight) := ⟨[], [], rfl, by simp, by simp⟩
  have honly : ∀ reads : List Event, (∀ ev ∈ reads, ev.fn = .load ∨ ev.fn = .loads) →
      ∃ reads' work, reads = reads' ++ work ∧
      (∀ ev ∈ reads', ev.fn = .load ∨ ev.fn = .loads) ∧
      (∀ ev ∈ work, ev.fn = .conv ∨ ev.fn = .encode ∨ ev.fn = .highlight) :=
    fun reads h => ⟨reads, [], (List.append_nil _).symm, h, by simp⟩
  have hdoc : ∀ (a : Arg) (ok : Bool) (its : List Item),
      ∃ reads work,
        (if !p.src.canLoad then ({ events := [], out := .error (.cmd .attributeError) } : Result)
         else if !ok then { events := [{ fn := .load, arg := a, kw := readKw p o }], out := .error .readError }
         else finish p o (prepend [{ fn := .load, arg := a, kw := readKw p o }] (pump p o its))).events
          = reads ++ work ∧
        (∀ ev ∈ reads, ev.fn = .load ∨ ev.fn = .loads) ∧
        (∀ ev ∈ work, ev.fn = .conv ∨ ev.fn = .encode ∨ ev.fn = .highlight) := by
    intro a ok its
    cases p.src.canLoad
    · exact hnil
    · cases ok
      · exact honly _ (by simp)
      · obtain ⟨w, hw1, hw2⟩ := hfin [{ fn := .load, arg := a, kw := readKw p o }] its (by simp)
        exact ⟨_, w, hw1, by simp, hw2⟩
  cases hk : kind.norm <;> cases c <;> simp only [run, hl, hk] <;> try exact hnil
  · exact hdoc .stream _ _
  · exact hdoc .path _ _
  · rename_i cells
    split
    · exact hnil
    · cases hd : deliverRows cells with
      | mk k oi =>
        cases oi with
        | none => exact honly _ (by simp [List.mem_replicate])
        | some its =>
          obtain ⟨w, hw1, hw2⟩ := hfin (List.replicate k { fn := .loads, arg := .text, kw := readKw p o }) its
            (by simp [List.mem_replicate])
          exact ⟨_, w, hw1, by simp [List.mem_replicate], hw2⟩

/-- one `encode` call per item that reaches the encoder, no more, no fewer (successful run, ordinary items) -/
theorem encode_calls_count (p : Plan) (o : Opts) (os : List Outcome) (ps : List Str)
    (hce : p.tgt.canEncode = true) (h : (pump p o (os.map .std)).2 = .ok ps) :
    ((pump p o (os.map .std)).1.filter (fun e => e.fn == .encode)).length
      = (os.filter Outcome.reachesEncode).length := by
  have hc : (convEvent p o).filter (fun e => e.fn == .encode) = [] := by
    unfold convEvent; cases p.conv <;> simp
  have he : ((encEvent p o).filter (fun e => e.fn == .encode)).length = 1 := by
    unfold encEvent; simp [hce]
  induction os generalizing ps with
  | nil => simp [pump]
  | cons oc r ih =>
    cases hr : (pump p o (r.map .std)).2 with
    | error e =>
      cases oc <;> simp [pump, step, hce, hr, Except.map] at h
    | ok pr =>
      have := ih pr hr
      cases oc <;> simp [pump, step, hce] at h ⊢ <;>
        simp [hc, he, this, Outcome.reachesEncode, List.filter_cons] <;> omega

/-! ## the profile-row reader -/

/-- "items come from … a profile query": ONE structure per selected row — only the first structure of a cell is used;
whatever else the cell holds never shows. -/
theorem rows_only_first (cells : List (Option (List Item))) :
    deliverRows (cells.map (Option.map (List.take 1))) = deliverRows cells := by
  induction cells with
  | nil => rfl
  | cons c r ih =>
    cases c with
    | none => rfl
    | some its =>
      simp only [List.map_cons, Option.map_some, deliverRows, ih]
      cases its <;> rfl

theorem run_rows_only_first (p : Plan) (o : Opts) (kind : PathArg) (cells : List (Option (List Item))) :
    run p o kind (.rows (cells.map (Option.map (List.take 1)))) = run p o kind (.rows cells) := by
  have he : (cells.map (Option.map (List.take 1))).isEmpty = cells.isEmpty := by cases cells <;> rfl
  cases hs : p.srcLines <;> cases hk : kind.norm <;> simp only [run, hs, hk, rows_only_first, he]

/-- as many delivered items as selected rows (when every cell is readable) -/
theorem rows_count (cells : List (Option (List Item))) (its : List Item) (k : Nat)
    (h : deliverRows cells = (k, some its)) : its.length = cells.length ∧ k = cells.length := by
  induction cells generalizing its k with
  | nil => simp [deliverRows] at h; simp [h.1, h.2]
  | cons c r ih =>
    cases c with
    | none => simp [deliverRows] at h
    | some x =>
      simp only [deliverRows] at h
      cases hr : deliverRows r with
      | mk k' o' =>
        rw [hr] at h
        cases o' with
        | none => simp at h
        | some its' =>
          simp only [Prod.mk.injEq, Option.some.injEq] at h
          have := ih its' k' hr
          rw [← h.1, ← h.2]
          simp [this.1, this.2]

/-- WITNESS that "one item per row" is a hypothesis of the property and not a theorem about the code: a cell holding
a two-item document contributes its first structure only (two rows, three structures, two blocks written), and a
cell holding an empty document (`[]`) makes the whole call fail with AttributeError (`None` reaches the encoder). -/
theorem rows_witness :
    (session "mrsjson".toList "mrsjson".toList ⟨true, true, false, .none, false, false, false⟩ 1 .dir
      (.rows [some [.std (.ok "{1}".toList), .std (.ok "{2}".toList)], some [.std (.ok "{3}".toList)]])).out
        = .ok "[{1},{3}]".toList
    ∧ (session "mrsjson".toList "mrsjson".toList ⟨true, true, false, .none, false, false, false⟩ 1 .dir
      (.rows [some [.std (.ok "{1}".toList)], some []])).out = .error (.cmd .attributeError) := by decide

/-! ## the command line -/

/-- `delphin convert` without `--indent` passes `indent=True` (so the framed, multi-line layout), `--indent` alone
and `--indent no|none` in any case pass `None` -/
theorem cli_indent_words :
    cliIndent .absent = some .tru ∧ cliIndent .bare = some .none ∧
    ∀ s : Str, (s.map lowerAscii = "no".toList ∨ s.map lowerAscii = "none".toList) → cliIndent (.val s) = some .none := by
  refine ⟨rfl, rfl, ?_⟩
  intro s hs
  have hne : s.isEmpty = false := by
    cases s with
    | nil => rcases hs with h | h <;> simp at h
    | cons c cs => rfl
  have hs' : s.map lowerAscii = ['n', 'o'] ∨ s.map lowerAscii = ['n', 'o', 'n', 'e'] := hs
  simp [cliIndent, hne, hs']

/-- numbers -/
theorem cli_indent_numbers :
    cliIndent (.val "2".toList) = some (.int 2) ∧ cliIndent (.val "0".toList) = some (.int 0) ∧
    cliIndent (.val "10".toList) = some (.int 10) ∧ cliIndent (.val "-1".toList) = some (.int (-1)) ∧
    cliIndent (.val "+4".toList) = some (.int 4) ∧ cliIndent (.val "NONE".toList) = some .none ∧
    cliIndent (.val "No".toList) = some .none ∧ cliIndent (.val "".toList) = none ∧
    cliIndent (.val "two".toList) = none := by decide

/-- the flags are the negations of `--no-properties` / `--no-lnk`; everything else is passed on -/
theorem cliOpts_spec (a : CliArgs) (o : Opts) (h : cliOpts a = some o) :
    o.properties = !a.noProperties ∧ o.lnk = !a.noLnk ∧ o.color = a.colorAlways ∧
    o.showStatus = a.showStatus ∧ o.predmod = a.predmod ∧ o.semi = a.semi ∧ cliIndent a.indent = some o.indent := by
  unfold cliOpts at h
  cases hi : cliIndent a.indent with
  | none => simp [hi] at h
  | some i =>
    simp only [hi, Option.map_some, Option.some.injEq] at h
    subst h
    simp

/-- the command line prints what the API call with those options returns, plus a newline -/
theorem cli_is_api (srcFmt tgtFmt : Str) (a : CliArgs) (o : Opts) (n : Nat) (kind : PathArg) (c : Content)
    (h : cliOpts a = some o) (doc : Str) (hd : (session srcFmt tgtFmt o n kind c).out = .ok doc) :
    (cliSession srcFmt tgtFmt a n kind c).map (·.out) = some (.ok (doc ++ ['\n'])) := by
  simp [cliSession, h, hd, Except.map]

/-! ## non-vacuity -/

/-- a `-lines` source read from stdin into an indented EDS target with `show_status`: the plan exists, the run
succeeds, three lines give three `decode` calls interleaved with the converter and encoder calls, a failed item in
between leaves no part. -/
example :
    ∃ p, plan "simplemrs-lines".toList "eds".toList 1 = .ok p ∧
      (run p ⟨true, false, false, .int 2, true, true, false⟩ .none
        (.lines [some (.std (.ok "{a}".toList)), some (.std .encFail), some (.std (.ok "{b}".toList))])).out
          = .ok "{a}\n\n{b}".toList := by
  have hp : (plan "simplemrs-lines".toList "eds".toList 1).toOption.isSome = true := by decide
  cases hp' : plan "simplemrs-lines".toList "eds".toList 1 with
  | error e => rw [hp'] at hp; simp [Except.toOption] at hp
  | ok p =>
    refine ⟨p, rfl, ?_⟩
    have : (session "simplemrs-lines".toList "eds".toList ⟨true, false, false, .int 2, true, true, false⟩ 1 .none
        (.lines [some (.std (.ok "{a}".toList)), some (.std .encFail), some (.std (.ok "{b}".toList))])).out
          = .ok "{a}\n\n{b}".toList := by decide
    unfold session at this
    rw [hp'] at this
    exact this

end Verif.C20
