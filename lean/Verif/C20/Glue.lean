/-
C20 — model of the GLUE of `delphin.commands.convert` around the item codecs: which functions of the source codec,
of the converter, of the target codec and of the highlighter are called, in which order, with which keyword
arguments — for every way the input can be given (`None` = stdin, stream / open file, path of a file, path of a
test-suite directory) and every option (`properties`, `lnk`, `color`, `indent`, `show_status`,
`predicate_modifiers`, `semi`), plus the command-line front end `delphin.cli.convert.call_convert`.

* `readKw` / `encodeKw` / `convKw`   the `kwargs` dictionaries `convert` builds (insertion order kept),
* `deliverRows`                      `next(iter(source_codec.loads(r[0])), None)` per selected row,
* `pump` / `pumpLines`               the generator pipeline `_read*` → `_iter_convert` → encode loop: EAGER readers
                                     (`list(load(..))`, the list comprehension over the rows) vs the LAZY line reader,
* `run` / `session`                  the whole call: events + result,
* `cliIndent` / `cliOpts`            the `--indent` handling and flag negations of `call_convert`.

Items stay opaque (`Outcome` of Model.lean, extended here by a `None` item and an encoder crash).
Core Lean only.
-/
import Verif.C20.Model

namespace Verif.C20
open Verif.Tables

/-! ### options and keyword arguments -/

/-- the value of `indent`: `None`, an `int`, or `True` (what the command line passes when `--indent` is absent) -/
inductive Indent
  | none
  | int (n : Int)
  | tru
deriving Repr, DecidableEq

/-- `indent is not None` -/
def Indent.given : Indent → Bool
  | .none => false
  | _ => true

structure Opts where
  properties : Bool
  lnk : Bool
  color : Bool
  indent : Indent
  showStatus : Bool
  predmod : Bool
  semi : Bool          -- `semi is not None`
deriving Repr, DecidableEq

inductive KwVal
  | bool (b : Bool)
  | indent (i : Indent)
  | semi               -- the SEM-I object
  | none
deriving Repr, DecidableEq

abbrev Kwargs := List (String × KwVal)

def kwGet (kw : Kwargs) (k : String) : Option KwVal := (kw.find? (fun e => e.1 == k)).map (·.2)

def nmEds : Str := ['e', 'd', 's']
def nmIndexed : Str := ['i', 'n', 'd', 'e', 'x', 'e', 'd', 'm', 'r', 's']
def nmSimpleMrs : Str := ['s', 'i', 'm', 'p', 'l', 'e', 'm', 'r', 's']

/-- `kwargs` of the reader: `{'semi': semi}` iff `source_fmt == 'indexedmrs' and semi is not None` -/
def readKw (p : Plan) (o : Opts) : Kwargs :=
  if p.src.name = nmIndexed ∧ o.semi = true then [("semi", .semi)] else []

/-- `kwargs` of every `target_codec.encode(x, **kwargs)`:
`{'indent': indent}`, `+ show_status` iff the target is `eds`, `+ semi` iff the target is `indexedmrs` and a SEM-I was
given, `+ properties`, `+ lnk`; for a `-lines` target `indent` is then overwritten with `None`. -/
def encodeKw (p : Plan) (o : Opts) : Kwargs :=
  [("indent", .indent (if p.tgtLines then .none else o.indent))]
  ++ (if p.tgt.name = nmEds then [("show_status", .bool o.showStatus)] else [])
  ++ (if p.tgt.name = nmIndexed ∧ o.semi = true then [("semi", .semi)] else [])
  ++ [("properties", .bool o.properties), ("lnk", .bool o.lnk)]

/-- keyword arguments of the converter call: `from_mrs(m, representative_priority=None)`, `from_dmrs(x)`,
`from_mrs(m, predicate_modifiers=predicate_modifiers)` -/
def convKw (p : Plan) (o : Opts) : Kwargs :=
  match p.conv with
  | .ident => []
  | .mrsToDmrs => [("representative_priority", .none)]
  | .dmrsToMrs => []
  | .mrsToEds => [("predicate_modifiers", .bool o.predmod)]

/-- `_get_highlighter`: pygments highlighting iff `color` and the (normalised) target name is `simplemrs` -/
def highlights (p : Plan) (o : Opts) : Bool := o.color && decide (p.tgt.name = nmSimpleMrs)

/-! ### events -/

inductive Fn
  | load | loads | decode | conv | encode | highlight
deriving Repr, DecidableEq

/-- what the first positional argument is -/
inductive Arg
  | stream     -- an object with `.read` (open file, StringIO, sys.stdin)
  | path       -- a `pathlib.Path`
  | text       -- a `str` (profile cell, line, assembled document)
  | obj        -- a semantic structure
deriving Repr, DecidableEq

structure Event where
  fn : Fn
  arg : Arg
  kw : Kwargs
deriving Repr, DecidableEq

/-! ### items, inputs -/

/-- what happens to one delivered item -/
inductive Item
  | std (oc : Outcome)
  | noneItem     -- `None` delivered for a profile cell whose document holds no structure: converter / encoder raise AttributeError
  | encCrash     -- `encode` raises something the encode loop does not catch (ValueError, TypeError, AttributeError …)
deriving Repr, DecidableEq

/-- how `path` was given -/
inductive PathArg
  | none       -- `path is None`: `sys.stdin`
  | stream
  | file       -- str / Path of a file
  | dir        -- str / Path of a test-suite directory
deriving Repr, DecidableEq

/-- `if path is None: path = sys.stdin` -/
def PathArg.norm : PathArg → PathArg
  | .none => .stream
  | k => k

/-- what the source holds, as far as the glue can see it -/
inductive Content
  | doc (loadOk : Bool) (items : List Item)          -- one `load(...)`: raises, or delivers the items
  | rows (cells : List (Option (List Item)))         -- one `loads(cell)` per selected row: raises (`none`), or the structures of that cell
  | lines (ls : List (Option Item))                  -- one `decode(line)` per line: raises (`none`), or the structure
deriving Repr

inductive GErr
  | cmd (e : Err)      -- the errors of Model.lean
  | readError          -- the reader (load / loads / decode) raised
  | encoderError       -- `encode` raised something that is not caught
  | osError            -- `Path.open()` on a directory (`-lines` source)
  | badRequest         -- (model artefact) content shape does not fit the path kind
deriving Repr, DecidableEq

inductive StepRes
  | part (t : Str)
  | skip
  | abort (e : GErr)
deriving Repr, DecidableEq

def convEvent (p : Plan) (o : Opts) : List Event :=
  match p.conv with
  | .ident => []
  | _ => [{ fn := .conv, arg := .obj, kw := convKw p o }]

def encEvent (p : Plan) (o : Opts) : List Event :=
  if p.tgt.canEncode then [{ fn := .encode, arg := .obj, kw := encodeKw p o }] else []

/-- one item pulled through `_iter_convert` and the encode loop -/
def step (p : Plan) (o : Opts) : Item → List Event × StepRes
  | .std (.ok t) =>
    (convEvent p o ++ encEvent p o, if p.tgt.canEncode then .part t else .abort (.cmd .attributeError))
  | .std .encFail =>
    (convEvent p o ++ encEvent p o, if p.tgt.canEncode then .skip else .abort (.cmd .attributeError))
  | .std .convFail => (convEvent p o, .skip)
  | .std .convCrash => (convEvent p o, .abort (.cmd .converterError))
  | .encCrash =>
    (convEvent p o ++ encEvent p o, if p.tgt.canEncode then .abort .encoderError else .abort (.cmd .attributeError))
  | .noneItem =>
    match p.conv with
    | .ident => (encEvent p o, .abort (.cmd .attributeError))
    | _ => (convEvent p o, .abort (.cmd .attributeError))

/-- the pipeline over items that are already read (eager readers) -/
def pump (p : Plan) (o : Opts) : List Item → List Event × Except GErr (List Str)
  | [] => ([], .ok [])
  | it :: r =>
    match step p o it with
    | (ev, .abort e) => (ev, .error e)
    | (ev, .skip) => (ev ++ (pump p o r).1, (pump p o r).2)
    | (ev, .part t) => (ev ++ (pump p o r).1, (pump p o r).2.map (t :: ·))

def decodeEvent (p : Plan) (o : Opts) : Event := { fn := .decode, arg := .text, kw := readKw p o }

/-- the pipeline over lines: `decode` of line k+1 happens after line k was converted and encoded -/
def pumpLines (p : Plan) (o : Opts) : List (Option Item) → List Event × Except GErr (List Str)
  | [] => ([], .ok [])
  | none :: _ => ([decodeEvent p o], .error .readError)
  | some it :: r =>
    match step p o it with
    | (ev, .abort e) => (decodeEvent p o :: ev, .error e)
    | (ev, .skip) => (decodeEvent p o :: ev ++ (pumpLines p o r).1, (pumpLines p o r).2)
    | (ev, .part t) => (decodeEvent p o :: ev ++ (pumpLines p o r).1, (pumpLines p o r).2.map (t :: ·))

/-- `next(iter(source_codec.loads(r[0], **kwargs)), None)` -/
def firstOfCell : List Item → Item
  | [] => .noneItem
  | x :: _ => x

/-- the list comprehension over the selected rows: `some items` when every `loads` returned, else the number of
`loads` calls made (the failing one included) -/
def deliverRows : List (Option (List Item)) → Nat × Option (List Item)
  | [] => (0, some [])
  | none :: _ => (1, none)
  | some c :: r =>
    match deliverRows r with
    | (k, some its) => (k + 1, some (firstOfCell c :: its))
    | (k, none) => (k + 1, none)

instance : DecidableEq (Except GErr Str) := fun a b =>
  match a, b with
  | .ok x, .ok y => if h : x = y then isTrue (by rw [h]) else isFalse (by intro h'; cases h'; exact h rfl)
  | .error x, .error y => if h : x = y then isTrue (by rw [h]) else isFalse (by intro h'; cases h'; exact h rfl)
  | .ok _, .error _ => isFalse (by intro h; cases h)
  | .error _, .ok _ => isFalse (by intro h; cases h)

structure Result where
  events : List Event
  out : Except GErr Str
deriving Repr

/-- header + joiner.join(parts) + footer, then `highlight(...)` -/
def finish (p : Plan) (o : Opts) (r : List Event × Except GErr (List Str)) : Result :=
  match r.2 with
  | .error e => { events := r.1, out := .error e }
  | .ok ps =>
    { events := r.1 ++ (if highlights p o then [{ fn := .highlight, arg := .text, kw := [] }] else []),
      out := .ok (assemble (frameOf p.tgt) o.indent.given p.tgtLines ps) }

def prepend (evs : List Event) (r : List Event × Except GErr (List Str)) : List Event × Except GErr (List Str) :=
  (evs ++ r.1, r.2)

/-- `commands.convert` after the plan is made.  Nothing is read before the encode loop pulls the first item (the
readers are generators), so a source module without `load` only fails then; the row reader does not touch the source
codec when the query selects no row. -/
def run (p : Plan) (o : Opts) (kind : PathArg) (c : Content) : Result :=
  match p.srcLines, kind.norm, c with
  | true, .dir, _ => { events := [], out := .error .osError }
  | true, _, .lines ls =>
    if !p.src.canLoad && !ls.isEmpty then { events := [], out := .error (.cmd .attributeError) }
    else finish p o (pumpLines p o ls)
  | false, .dir, .rows cells =>
    if !p.src.canLoad && !cells.isEmpty then { events := [], out := .error (.cmd .attributeError) }
    else
      let reads := fun k => List.replicate k ({ fn := .loads, arg := .text, kw := readKw p o } : Event)
      match deliverRows cells with
      | (k, none) => { events := reads k, out := .error .readError }
      | (k, some its) => finish p o (prepend (reads k) (pump p o its))
  | false, .stream, .doc ok its =>
    if !p.src.canLoad then { events := [], out := .error (.cmd .attributeError) }
    else if !ok then { events := [{ fn := .load, arg := .stream, kw := readKw p o }], out := .error .readError }
    else finish p o (prepend [{ fn := .load, arg := .stream, kw := readKw p o }] (pump p o its))
  | false, .file, .doc ok its =>
    if !p.src.canLoad then { events := [], out := .error (.cmd .attributeError) }
    else if !ok then { events := [{ fn := .load, arg := .path, kw := readKw p o }], out := .error .readError }
    else finish p o (prepend [{ fn := .load, arg := .path, kw := readKw p o }] (pump p o its))
  | _, _, _ => { events := [], out := .error .badRequest }

/-- the whole call -/
def session (srcFmt tgtFmt : Str) (o : Opts) (nproj : Nat) (kind : PathArg) (c : Content) : Result :=
  match plan srcFmt tgtFmt nproj with
  | .error e => { events := [], out := .error (.cmd e) }
  | .ok p => run p o kind c

/-! ### the command line front end `delphin convert` (cli/convert.py: call_convert) -/

def isDigit (c : Char) : Bool := decide ('0' ≤ c ∧ c ≤ '9')

def digitsVal : Str → Nat → Nat
  | [], acc => acc
  | c :: cs, acc => digitsVal cs (acc * 10 + (c.toNat - 48))

/-- `int(s)` for the plain spellings `[+-]?[0-9]+`; `none` = not modelled (surrounding whitespace, underscores,
non-ASCII digits), `some none` = ValueError cannot be told apart here, so also not modelled. -/
def pyIntPlain (s : Str) : Option Int :=
  let body := match s with
    | '+' :: r => r
    | '-' :: r => r
    | r => r
  if body.isEmpty || !body.all isDigit then none
  else
    let v : Int := (digitsVal body 0 : Nat)
    some (match s with | '-' :: _ => -v | _ => v)

inductive CliIndent
  | absent                 -- no `--indent` on the command line: default `True`
  | bare                   -- `--indent` without a value: `None` (argparse `nargs='?'`, no `const`)
  | val (s : Str)          -- `--indent s`

/-- `if args.indent and args.indent is not True: 'no'/'none' (any case) -> None, else int(...)`.
Outer `none`: not modelled (`int()` of something that is not `[+-]?[0-9]+`; the empty string, which is passed on as
it is). -/
def cliIndent : CliIndent → Option Indent
  | .absent => some .tru
  | .bare => some .none
  | .val s =>
    if s.isEmpty then none
    else if s.map lowerAscii = ['n', 'o'] ∨ s.map lowerAscii = ['n', 'o', 'n', 'e'] then some .none
    else (pyIntPlain s).map .int

structure CliArgs where
  noProperties : Bool
  noLnk : Bool
  colorAlways : Bool      -- `--color always` (stdout is not a tty in the harness, so `auto` and `never` give False)
  indent : CliIndent
  showStatus : Bool
  predmod : Bool
  semi : Bool             -- `--semi PATH` given

/-- the keyword arguments `call_convert` passes to `convert` -/
def cliOpts (a : CliArgs) : Option Opts :=
  (cliIndent a.indent).map fun i =>
    { properties := !a.noProperties, lnk := !a.noLnk, color := a.colorAlways, indent := i,
      showStatus := a.showStatus, predmod := a.predmod, semi := a.semi }

/-- `print(convert(...))` -/
def cliSession (srcFmt tgtFmt : Str) (a : CliArgs) (nproj : Nat) (kind : PathArg) (c : Content) : Option Result :=
  (cliOpts a).map fun o =>
    let r := session srcFmt tgtFmt o nproj kind c
    { events := r.events, out := r.out.map (· ++ ['\n']) }

end Verif.C20
