/- C20 line-protocol driver: `lake env lean --run Verif/C20/Driver.lean` -/
import Verif.Common.Proto
import Verif.C20.Model
import Verif.C20.Glue
open Lean Verif.Proto Verif.C20

namespace Verif.C20.Driver

def errTag : Err → String
  | .commandError => "CommandError"
  | .attributeError => "AttributeError"
  | .converterError => "ConverterError"

def convTag : Conv → String
  | .ident => "ident"
  | .mrsToDmrs => "mrsToDmrs"
  | .dmrsToMrs => "dmrsToMrs"
  | .mrsToEds => "mrsToEds"

def ofOutcome (j : Json) : Except String Outcome :=
  match j with
  | Json.str "convFail" => pure .convFail
  | Json.str "encFail" => pure .encFail
  | Json.str "convCrash" => pure .convCrash
  | _ => do pure (.ok (← ofCps (← j.getObjVal? "ok")))

def jStr (s : Str) : Json := Json.str (String.ofList s)

def gerrTag : GErr → String
  | .cmd e => errTag e
  | .readError => "ReadError"
  | .encoderError => "EncoderError"
  | .osError => "OSError"
  | .badRequest => "BadRequest"

def ofItem (j : Json) : Except String Item :=
  match j with
  | Json.str "noneItem" => pure .noneItem
  | Json.str "encCrash" => pure .encCrash
  | _ => do pure (.std (← ofOutcome j))

def ofIndent (j : Json) : Except String Indent :=
  match j with
  | Json.null => pure .none
  | Json.bool true => pure .tru
  | _ => do pure (.int (← j.getInt?))

def ofOpts (j : Json) : Except String Opts := do
  pure { properties := ← getBool j "properties", lnk := ← getBool j "lnk", color := ← getBool j "color",
         indent := ← ofIndent (← j.getObjVal? "indent"), showStatus := ← getBool j "show_status",
         predmod := ← getBool j "predmod", semi := ← getBool j "semi" }

def ofCliIndent (j : Json) : Except String CliIndent :=
  match j with
  | Json.null => pure .absent
  | Json.str "bare" => pure .bare
  | _ => do pure (.val (← ofCps j))

def ofCli (j : Json) : Except String CliArgs := do
  pure { noProperties := ← getBool j "no_properties", noLnk := ← getBool j "no_lnk",
         colorAlways := ← getBool j "color_always", indent := ← ofCliIndent (← j.getObjVal? "indent"),
         showStatus := ← getBool j "show_status", predmod := ← getBool j "predmod",
         semi := ← getBool j "semi" }

def ofKind (s : String) : Except String PathArg :=
  match s with
  | "none" => pure .none
  | "stream" => pure .stream
  | "file" => pure .file
  | "dir" => pure .dir
  | _ => throw s!"bad kind {s}"

def ofOptList (f : Json → Except String α) (j : Json) : Except String (Option α) :=
  match j with
  | Json.null => pure none
  | _ => do pure (some (← f j))

def ofContent (j : Json) : Except String Content := do
  match j.getObjVal? "doc" with
  | .ok d => pure (.doc (← getBool d "ok") (← (← getArr d "items").mapM ofItem))
  | .error _ =>
    match j.getObjVal? "rows" with
    | .ok r =>
      pure (.rows (← (← r.getArr?).toList.mapM (ofOptList (fun c => do (← c.getArr?).toList.mapM ofItem))))
    | .error _ =>
      let l ← getArr j "lines"
      pure (.lines (← l.mapM (ofOptList ofItem)))

def fnTag : Fn → String
  | .load => "load" | .loads => "loads" | .decode => "decode" | .conv => "conv" | .encode => "encode"
  | .highlight => "highlight"

def argTag : Arg → String
  | .stream => "stream" | .path => "path" | .text => "text" | .obj => "obj"

def jKwVal : KwVal → Json
  | .bool b => Json.bool b
  | .indent .none => Json.null
  | .indent .tru => Json.bool true
  | .indent (.int n) => jInt n
  | .semi => Json.str "SEMI"
  | .none => Json.null

def jEvent (e : Event) : Json :=
  Json.mkObj [("f", Json.str (fnTag e.fn)), ("a", Json.str (argTag e.arg)),
              ("kw", Json.arr (e.kw.map (fun (k, v) => Json.arr #[Json.str k, jKwVal v])).toArray)]

def handle (j : Json) : Except String Json := do
  let op ← getStr j "op"
  let src ← getCps j "src"
  let tgt ← getCps j "tgt"
  let nproj ← getNat j "nproj"
  match op with
  | "plan" =>
    match plan src tgt nproj with
    | .error e => pure (jErr (errTag e))
    | .ok p =>
      match convert src tgt false nproj [] with
      | .error e => pure (jErr (errTag e))
      | .ok doc =>
        pure (Json.mkObj [("src", jStr p.src.name), ("srcLines", Json.bool p.srcLines),
                          ("tgt", jStr p.tgt.name), ("tgtLines", Json.bool p.tgtLines),
                          ("conv", Json.str (convTag p.conv)), ("doc", cps doc)])
  | "convert" => do
    let indent ← getBool j "indent"
    let os ← (← getArr j "outcomes").mapM ofOutcome
    match plan src tgt nproj with
    | .error e => pure (jErr (errTag e))
    | .ok p =>
      match convert src tgt indent nproj os with
      | .error e => pure (jErr (errTag e))
      | .ok doc =>
        let fam := familyOf p.tgt
        let split : Json :=
          match readBack p.tgt p.tgtLines doc with
          | some its => jList cps its
          | none => Json.null
        let itemsOk := (parts os).all (itemOkB fam p.tgtLines)
        pure (Json.mkObj [("doc", cps doc), ("split", split), ("items_ok", Json.bool itemsOk)])
  | "session" => do
    let kind ← ofKind (← getStr j "kind")
    let content ← ofContent (← j.getObjVal? "content")
    -- the API-level options: given directly, or derived from the command-line arguments
    let viaCli := (j.getObjVal? "cli").isOk
    let opts? : Option Opts ←
      if viaCli then do pure (cliOpts (← ofCli (← j.getObjVal? "cli")))
      else do pure (some (← ofOpts (← j.getObjVal? "opts")))
    match opts? with
    | none => pure Json.null       -- `--indent` value outside the modelled spellings
    | some o =>
      let r := session src tgt o nproj kind content
      let evs := Json.arr (r.events.map jEvent).toArray
      match r.out with
      | .error e => pure (Json.mkObj [("err", Json.str (gerrTag e)), ("events", evs)])
      | .ok doc =>
        let printed := if viaCli then doc ++ ['\n'] else doc
        match plan src tgt nproj with
        | .error _ => pure (jErr "unreachable")
        | .ok p =>
          let split : Json :=
            match readBack p.tgt p.tgtLines doc with
            | some its => jList cps its
            | none => Json.null
          let itemsOk : Bool :=
            match readBack p.tgt p.tgtLines doc with
            | some its => its.all (itemOkB (familyOf p.tgt) p.tgtLines)
            | none => true
          pure (Json.mkObj [("doc", cps printed), ("events", evs), ("split", split), ("items_ok", Json.bool itemsOk),
                            ("highlight", Json.bool (highlights p o))])
  | _ => throw s!"bad op {op}"

end Verif.C20.Driver

def main : IO Unit := Verif.Proto.serve Verif.C20.Driver.handle
