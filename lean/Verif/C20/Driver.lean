/- C20 line-protocol driver: `lake env lean --run Verif/C20/Driver.lean` -/
import Verif.Common.Proto
import Verif.C20.Model
open Lean Verif.Proto Verif.C20

namespace Verif.C20.Driver

def errTag : Err → String
  | .commandError => "CommandError"
  | .attributeError => "AttributeError"
  | .converterError => "ConverterError"

def convTag : Conv → String
  | .ident => "ident"
  | .mrsToDmrs => "mrsToDmrs"
  | .dmrsToMrs => "dmrsToMrs"
  | .mrsToEds => "mrsToEds"

def ofOutcome (j : Json) : Except String Outcome :=
  match j with
  | Json.str "convFail" => pure .convFail
  | Json.str "encFail" => pure .encFail
  | Json.str "convCrash" => pure .convCrash
  | _ => do pure (.ok (← ofCps (← j.getObjVal? "ok")))

def jStr (s : Str) : Json := Json.str (String.ofList s)

def handle (j : Json) : Except String Json := do
  let op ← getStr j "op"
  let src ← getCps j "src"
  let tgt ← getCps j "tgt"
  let nproj ← getNat j "nproj"
  match op with
  | "plan" =>
    match plan src tgt nproj with
    | .error e => pure (jErr (errTag e))
    | .ok p =>
      match convert src tgt false nproj [] with
      | .error e => pure (jErr (errTag e))
      | .ok doc =>
        pure (Json.mkObj [("src", jStr p.src.name), ("srcLines", Json.bool p.srcLines),
                          ("tgt", jStr p.tgt.name), ("tgtLines", Json.bool p.tgtLines),
                          ("conv", Json.str (convTag p.conv)), ("doc", cps doc)])
  | "convert" => do
    let indent ← getBool j "indent"
    let os ← (← getArr j "outcomes").mapM ofOutcome
    match plan src tgt nproj with
    | .error e => pure (jErr (errTag e))
    | .ok p =>
      match convert src tgt indent nproj os with
      | .error e => pure (jErr (errTag e))
      | .ok doc =>
        let fam := familyOf p.tgt
        let split : Json :=
          match readBack p.tgt p.tgtLines doc with
          | some its => jList cps its
          | none => Json.null
        let itemsOk := (parts os).all (itemOkB fam p.tgtLines)
        pure (Json.mkObj [("doc", cps doc), ("split", split), ("items_ok", Json.bool itemsOk)])
  | _ => throw s!"bad op {op}"

end Verif.C20.Driver

def main : IO Unit := Verif.Proto.serve Verif.C20.Driver.handle
