/-
C20 — lemmas: the generic scanner is prefix-deterministic; each family reader, run on an assembled
document whose frame has the family's shape, returns exactly the items.
-/
import Verif.C20.Model

namespace Verif.C20
namespace L

/-! ### whitespace skipping -/

theorem skipWs_nil : skipWs [] = [] := rfl

theorem skipWs_cons_sp (c : Char) (r : Str) (h : isSp c = true) : skipWs (c :: r) = skipWs r := by
  simp [skipWs, List.dropWhile, h]

theorem skipWs_cons_nonsp (c : Char) (r : Str) (h : isSp c = false) : skipWs (c :: r) = c :: r := by
  simp [skipWs, List.dropWhile, h]

theorem skipWs_append_ws : ∀ (w r : Str), wsOnly w = true → skipWs (w ++ r) = skipWs r
  | [], r, _ => rfl
  | c :: w, r, h => by
    simp only [wsOnly, List.all_cons, Bool.and_eq_true] at h
    rw [List.cons_append, skipWs_cons_sp _ _ h.1]
    exact skipWs_append_ws w r (by simpa [wsOnly] using h.2)

theorem skipWs_wsOnly (w : Str) (h : wsOnly w = true) : skipWs w = [] := by
  have := skipWs_append_ws w [] h
  simpa [skipWs_nil] using this

/-- if skipping whitespace in `a` leaves something, appending `b` does not change where it stops. -/
theorem skipWs_append_of_cons : ∀ (a b : Str) (c : Char) (w : Str),
    skipWs a = c :: w → skipWs (a ++ b) = c :: (w ++ b)
  | [], _, _, _, h => by simp [skipWs] at h
  | x :: a, b, c, w, h => by
    by_cases hx : isSp x = true
    · rw [skipWs_cons_sp _ _ hx] at h
      rw [List.cons_append, skipWs_cons_sp _ _ hx]
      exact skipWs_append_of_cons a b c w h
    · have hx' : isSp x = false := by simpa using hx
      rw [skipWs_cons_nonsp _ _ hx'] at h
      rw [List.cons_append, skipWs_cons_nonsp _ _ hx']
      cases h
      rfl

theorem skipWs_result_nonsp : ∀ (a : Str) (c : Char) (w : Str), skipWs a = c :: w → isSp c = false
  | [], _, _, h => by simp [skipWs] at h
  | x :: a, c, w, h => by
    by_cases hx : isSp x = true
    · rw [skipWs_cons_sp _ _ hx] at h
      exact skipWs_result_nonsp a c w h
    · have hx' : isSp x = false := by simpa using hx
      rw [skipWs_cons_nonsp _ _ hx'] at h
      cases h
      exact hx'

/-! ### the scanner stops at the end of an item whatever follows -/

theorem scanGo_append {σ : Type} (m : Machine σ) : ∀ (it : Str) (s : σ) (rest : Str),
    scanGo m s it = some (it, []) → scanGo m s (it ++ rest) = some (it, rest)
  | [], s, rest, h => by simp [scanGo] at h
  | c :: cs, s, rest, h => by
    rw [List.cons_append]
    simp only [scanGo] at h ⊢
    by_cases hd : m.done (m.step s c) = true
    · simp only [hd, if_true] at h ⊢
      have hcs : cs = [] := by
        have := congrArg (fun o => o.map Prod.snd) h
        simpa using this
      subst hcs
      rfl
    · simp only [hd] at h ⊢
      cases hs : scanGo m (m.step s c) cs with
      | none => simp [hs] at h
      | some p =>
        obtain ⟨a, r⟩ := p
        simp only [hs] at h
        have ha : a = cs := by
          have := congrArg (fun o => o.map Prod.fst) h
          simpa using this
        have hr : r = [] := by
          have := congrArg (fun o => o.map Prod.snd) h
          simpa using this
        subst ha hr
        rw [scanGo_append m a (m.step s c) rest hs]
        simp

theorem scan_append {σ : Type} (m : Machine σ) (it rest : Str) (h : scan m it = some (it, [])) :
    scan m (it ++ rest) = some (it, rest) := scanGo_append m it m.init rest h

/-! ### joinWith -/

theorem joinWith_cons_cons (j x y : Str) (r : List Str) :
    joinWith j (x :: y :: r) = x ++ (j ++ joinWith j (y :: r)) := rfl

/-- what follows the first item of a joined document with tail `t` -/
def after (j : Str) (rest : List Str) (t : Str) : Str :=
  match rest with
  | [] => t
  | y :: r => j ++ (joinWith j (y :: r) ++ t)

theorem joinWith_cons_append (j x : Str) (rest : List Str) (t : Str) :
    joinWith j (x :: rest) ++ t = x ++ after j rest t := by
  cases rest with
  | nil => rfl
  | cons y r => simp [joinWith_cons_cons, after, List.append_assoc]

/-! ### token-stream documents -/

theorem tokSplitF_congr (angle : Bool) (f : Nat) (a b : Str) (h : skipWs a = skipWs b) :
    tokSplitF angle f a = tokSplitF angle f b := by
  unfold tokSplitF
  rw [h]

theorem tokSplitF_item (angle : Bool) (f : Nat) (x R : Str) (its : List Str)
    (hx : TokItem angle x) (hR : tokSplitF angle f R = some its) :
    tokSplitF angle (f + 1) (x ++ R) = some (x :: its) := by
  obtain ⟨⟨c, cs, rfl, hc⟩, hscan⟩ := hx
  unfold tokSplitF
  rw [List.cons_append, skipWs_cons_nonsp _ _ hc]
  simp only []
  rw [← List.cons_append, scan_append _ _ _ hscan]
  simp only [hR]

theorem tokSplitF_join (angle : Bool) (j t : Str) (hj : wsOnly j = true) (ht : wsOnly t = true) :
    ∀ (items : List Str) (f : Nat), items.length ≤ f → (∀ it ∈ items, TokItem angle it) →
      tokSplitF angle f (joinWith j items ++ t) = some items
  | [], f, _, _ => by
    unfold tokSplitF
    simp only [joinWith, List.nil_append]
    rw [skipWs_wsOnly t ht]
  | x :: rest, 0, hl, _ => by simp at hl
  | x :: rest, f + 1, hl, hit => by
    rw [joinWith_cons_append]
    apply tokSplitF_item angle f x _ rest (hit x (by simp))
    have ih := tokSplitF_join angle j t hj ht rest f (by simpa using hl)
      (fun it h => hit it (by simp [h]))
    cases rest with
    | nil => simpa [after, joinWith] using ih
    | cons y r =>
      simp only [after]
      rw [tokSplitF_congr angle f _ _ (skipWs_append_ws j _ hj)]
      exact ih

/-! ### JSON arrays -/

theorem jsonLoop_join (j t : Str) (hj : sepShape ',' j = true) (ht : footShape ']' t = true) :
    ∀ (items : List Str) (x : Str) (f : Nat), items.length < f → JsonItem x → (∀ it ∈ items, JsonItem it) →
      jsonLoop f (joinWith j (x :: items) ++ t) = some (x :: items)
  | items, x, 0, hl, _, _ => by simp at hl
  | items, x, f + 1, hl, hx, hit => by
    rw [joinWith_cons_append]
    obtain ⟨⟨c, cs, rfl, hc⟩, hscan⟩ := hx
    have hcb : (c == '{' || c == '[') = true := by
      rcases hc with h | h <;> subst h <;> decide
    rw [List.cons_append]
    unfold jsonLoop
    simp only [hcb, if_true]
    rw [← List.cons_append, scan_append _ _ _ hscan]
    simp only []
    cases items with
    | nil =>
      simp only [after]
      have : skipWs t = [']'] := by simpa [footShape] using ht
      rw [this]
      simp [skipWs]
    | cons y r =>
      simp only [after]
      -- the separator
      have hj0 := hj
      simp only [sepShape] at hj
      cases hs : skipWs j with
      | nil => simp [hs] at hj
      | cons c' w =>
        simp only [hs, Bool.and_eq_true, beq_iff_eq] at hj
        obtain ⟨hc', hw⟩ := hj
        subst hc'
        rw [skipWs_append_of_cons j _ ',' w hs]
        simp only []
        rw [skipWs_append_ws w _ hw]
        have hy : JsonItem y := hit y (by simp)
        have hstart : skipWs (joinWith j (y :: r) ++ t) = joinWith j (y :: r) ++ t := by
          rw [joinWith_cons_append]
          obtain ⟨⟨cy, csy, rfl, hcy⟩, _⟩ := hy
          rw [List.cons_append]
          apply skipWs_cons_nonsp
          rcases hcy with h | h <;> subst h <;> decide
        rw [hstart]
        rw [jsonLoop_join j t hj0 ht r y f (by simp at hl ⊢; omega) hy (fun it h => hit it (by simp [h]))]

/-! ### XML list elements -/

theorem dropPrefix_append : ∀ (p r : Str), dropPrefix? p (p ++ r) = some r
  | [], r => by cases r <;> rfl
  | c :: p, r => by
    rw [List.cons_append]
    simp only [dropPrefix?, if_true]
    exact dropPrefix_append p r

theorem spanName_append : ∀ (name rest : Str), name.all (fun c => c != '>') = true →
    spanName (name ++ '>' :: rest) = (name, '>' :: rest)
  | [], rest, _ => by simp [spanName]
  | c :: name, rest, h => by
    simp only [List.all_cons, Bool.and_eq_true] at h
    have hc : (c == '>') = false := by simpa using h.1
    rw [List.cons_append]
    simp only [spanName, hc]
    rw [spanName_append name rest h.2]
    simp

theorem xmlLoop_congr (name : Str) (f : Nat) (a b : Str) (h : skipWs a = skipWs b) :
    xmlLoop name f a = xmlLoop name f b := by
  unfold xmlLoop
  rw [h]

theorem xmlLoop_item (name : Str) (f : Nat) (x R : Str) (its : List Str)
    (hx : XmlItem x) (hR : xmlLoop name f R = some its) :
    xmlLoop name (f + 1) (x ++ R) = some (x :: its) := by
  obtain ⟨⟨c, cs, rfl, hc⟩, hscan⟩ := hx
  unfold xmlLoop
  have hlt : isSp '<' = false := by decide
  rw [List.cons_append, skipWs_cons_nonsp _ _ hlt, List.cons_append]
  split
  · rename_i r heq
    simp only [List.cons.injEq, true_and] at heq
    exact absurd heq.1 hc
  · rename_i c' cs' hne heq
    simp only [List.cons.injEq, true_and] at heq
    obtain ⟨h1, h2⟩ := heq
    subst h1 h2
    simp only []
    rw [← List.cons_append, ← List.cons_append, scan_append _ _ _ hscan]
    simp only [hR]
  · rename_i h1 h2
    exact absurd rfl (h2 c (cs ++ R))

theorem xmlLoop_join (name j t : Str) (hj : wsOnly j = true)
    (ht : skipWs t = '<' :: '/' :: (name ++ ['>'])) :
    ∀ (items : List Str) (f : Nat), items.length ≤ f → (∀ it ∈ items, XmlItem it) →
      xmlLoop name f (joinWith j items ++ t) = some items
  | [], f, _, _ => by
    unfold xmlLoop
    simp only [joinWith, List.nil_append]
    rw [ht]
    simp only [dropPrefix_append]
    simp [skipWs]
  | x :: rest, 0, hl, _ => by simp at hl
  | x :: rest, f + 1, hl, hit => by
    rw [joinWith_cons_append]
    apply xmlLoop_item name f x _ rest (hit x (by simp))
    have ih := xmlLoop_join name j t hj ht rest f (by simpa using hl)
      (fun it h => hit it (by simp [h]))
    cases rest with
    | nil => simpa [after, joinWith] using ih
    | cons y r =>
      simp only [after]
      rw [xmlLoop_congr name f _ _ (skipWs_append_ws j _ hj)]
      exact ih

/-! ### one item per line -/

theorem splitLines_line : ∀ (x rest : Str), '\n' ∉ x → splitLines (x ++ '\n' :: rest) = x :: splitLines rest
  | [], rest, _ => by simp [splitLines]
  | c :: cs, rest, h => by
    have hc : (c == '\n') = false := by
      have : c ≠ '\n' := fun e => h (by simp [e])
      simpa using this
    have hcs : '\n' ∉ cs := fun e => h (by simp [e])
    rw [List.cons_append]
    simp only [splitLines, hc]
    rw [splitLines_line cs rest hcs]
    simp

theorem splitLines_single : ∀ (x : Str), x ≠ [] → '\n' ∉ x → splitLines x = [x]
  | [], h, _ => absurd rfl h
  | [c], _, h => by
    have hc : (c == '\n') = false := by
      have : c ≠ '\n' := fun e => h (by simp [e])
      simpa using this
    simp [splitLines, hc]
  | c :: d :: cs, _, h => by
    have hc : (c == '\n') = false := by
      have : c ≠ '\n' := fun e => h (by simp [e])
      simpa using this
    have hcs : '\n' ∉ d :: cs := fun e => h (by simp at e ⊢; right; exact e)
    have ih := splitLines_single (d :: cs) (by simp) hcs
    rw [splitLines]
    simp only [hc]
    rw [ih]
    simp

theorem splitLines_join : ∀ (items : List Str), (∀ it ∈ items, LineItem it) →
    splitLines (joinWith ['\n'] items) = items
  | [], _ => rfl
  | [x], h => by
    have hx := h x (by simp)
    exact splitLines_single x hx.1 hx.2
  | x :: y :: r, h => by
    have hx := h x (by simp)
    rw [joinWith_cons_cons]
    show splitLines (x ++ '\n' :: joinWith ['\n'] (y :: r)) = _
    rw [splitLines_line x _ hx.2, splitLines_join (y :: r) (fun it hi => h it (by simp [hi]))]

/-! ### whole documents: header ++ joined items ++ footer -/

theorem length_le_joinWith (j : Str) : ∀ (items : List Str), (∀ it ∈ items, it ≠ []) →
    items.length ≤ (joinWith j items).length
  | [], _ => by simp
  | [x], h => by
    have hx := h x (by simp)
    cases x with
    | nil => exact absurd rfl hx
    | cons c cs => simp [joinWith]
  | x :: y :: r, h => by
    have hx := h x (by simp)
    have ih := length_le_joinWith j (y :: r) (fun it hi => h it (by simp [hi]))
    rw [joinWith_cons_cons]
    cases x with
    | nil => exact absurd rfl hx
    | cons c cs =>
      simp only [List.length_append, List.length_cons] at ih ⊢
      omega

theorem fuel_ok (g : Frame) (items : List Str) (h : ∀ it ∈ items, it ≠ []) :
    items.length ≤ (assembleWith g items).length := by
  have := length_le_joinWith g.joiner items h
  simp only [assembleWith, List.length_append]
  omega

theorem tokItem_ne_nil {a : Bool} {it : Str} (h : TokItem a it) : it ≠ [] := by
  obtain ⟨⟨c, cs, rfl, _⟩, _⟩ := h
  simp

theorem jsonItem_ne_nil {it : Str} (h : JsonItem it) : it ≠ [] := by
  obtain ⟨⟨c, cs, rfl, _⟩, _⟩ := h
  simp

theorem xmlItem_ne_nil {it : Str} (h : XmlItem it) : it ≠ [] := by
  obtain ⟨⟨c, cs, rfl, _⟩, _⟩ := h
  simp

theorem tok_roundtrip (angle : Bool) (g : Frame) (items : List Str) (hg : tokFrameOk g = true)
    (hit : ∀ it ∈ items, TokItem angle it) : tokSplit angle (assembleWith g items) = some items := by
  simp only [tokFrameOk, Bool.and_eq_true] at hg
  obtain ⟨⟨hh, hj⟩, hf⟩ := hg
  have hfuel := fuel_ok g items (fun it h => tokItem_ne_nil (hit it h))
  unfold tokSplit
  rw [tokSplitF_congr angle _ (assembleWith g items) (joinWith g.joiner items ++ g.footer)
    (by unfold assembleWith; exact skipWs_append_ws _ _ hh)]
  exact tokSplitF_join angle g.joiner g.footer hj hf items _ (by omega) hit

theorem json_roundtrip (g : Frame) (items : List Str) (hg : jsonFrameOk g = true)
    (hit : ∀ it ∈ items, JsonItem it) : jsonSplit (assembleWith g items) = some items := by
  simp only [jsonFrameOk, Bool.and_eq_true] at hg
  obtain ⟨⟨hh, hj⟩, hf⟩ := hg
  have hfuel := fuel_ok g items (fun it h => jsonItem_ne_nil (hit it h))
  cases hhd : g.header with
  | nil => simp [headShape, hhd] at hh
  | cons c w =>
    simp only [headShape, hhd, Bool.and_eq_true, beq_iff_eq] at hh
    obtain ⟨hc, hw⟩ := hh
    subst hc
    have hdoc : assembleWith g items = '[' :: (w ++ (joinWith g.joiner items ++ g.footer)) := by
      simp [assembleWith, hhd]
    unfold jsonSplit
    rw [hdoc, skipWs_cons_nonsp _ _ (by decide)]
    simp only []
    rw [skipWs_append_ws w _ hw]
    cases items with
    | nil =>
      have : skipWs g.footer = [']'] := by simpa [footShape] using hf
      simp only [joinWith, List.nil_append]
      rw [this]
      simp [skipWs]
    | cons x rest =>
      have hx : JsonItem x := hit x (by simp)
      have hstart : skipWs (joinWith g.joiner (x :: rest) ++ g.footer)
          = joinWith g.joiner (x :: rest) ++ g.footer := by
        rw [joinWith_cons_append]
        obtain ⟨⟨cy, csy, rfl, hcy⟩, _⟩ := hx
        rw [List.cons_append]
        apply skipWs_cons_nonsp
        rcases hcy with h | h <;> subst h <;> decide
      rw [hstart]
      have hloop := jsonLoop_join g.joiner g.footer hj hf rest x
        (('[' :: (w ++ (joinWith g.joiner (x :: rest) ++ g.footer))).length + 1)
        (by rw [← hdoc]; simp at hfuel ⊢; omega) hx (fun it h => hit it (by simp [h]))
      obtain ⟨⟨cy, csy, hxe, hcy⟩, _⟩ := hx
      subst hxe
      rw [joinWith_cons_append] at hloop ⊢
      rw [List.cons_append] at hloop ⊢
      have hne : cy ≠ ']' := by rcases hcy with h | h <;> subst h <;> decide
      split
      · rename_i heq
        simp only [List.cons.injEq] at heq
        exact absurd heq.1.symm (fun e => hne e.symm)
      · rename_i c' cs' _ heq
        simp only [List.cons.injEq] at heq
        obtain ⟨h1, h2⟩ := heq
        subst h1 h2
        exact hloop
      · rename_i heq
        simp at heq

theorem dropPrefix_some : ∀ (p s w : Str), dropPrefix? p s = some w → s = p ++ w
  | [], s, w, h => by
    cases s <;> simp [dropPrefix?] at h <;> simp [h]
  | c :: p, [], w, h => by simp [dropPrefix?] at h
  | c :: p, d :: s, w, h => by
    simp only [dropPrefix?] at h
    by_cases hcd : c = d
    · subst hcd
      simp only [if_true] at h
      rw [dropPrefix_some p s w h]
      rfl
    · simp [hcd] at h

theorem xml_roundtrip (name : Str) (g : Frame) (items : List Str) (hg : xmlFrameOk name g = true)
    (hit : ∀ it ∈ items, XmlItem it) : xmlSplit (assembleWith g items) = some items := by
  simp only [xmlFrameOk, Bool.and_eq_true] at hg
  obtain ⟨⟨⟨hn, hh⟩, hj⟩, hf⟩ := hg
  have hfuel := fuel_ok g items (fun it h => xmlItem_ne_nil (hit it h))
  have hf' : skipWs g.footer = '<' :: '/' :: (name ++ ['>']) := by simpa using hf
  have hh2 : ∃ w, dropPrefix? ('<' :: (name ++ ['>'])) g.header = some w ∧ wsOnly w = true := by
    revert hh
    show (match dropPrefix? ('<' :: (name ++ ['>'])) g.header with
          | some w => wsOnly w
          | none => false) = true → _
    cases dropPrefix? ('<' :: (name ++ ['>'])) g.header with
    | none => intro h; simp at h
    | some w => intro h; exact ⟨w, rfl, h⟩
  obtain ⟨w, hdp, hh⟩ := hh2
  have hhd := dropPrefix_some _ _ _ hdp
  · skip
    have hname : name.all (fun c => c != '>') = true := by
      simp only [nameOk, Bool.and_eq_true] at hn
      apply List.all_eq_true.mpr
      intro c hc
      have := List.all_eq_true.mp hn.2 c hc
      simp only [Bool.and_eq_true] at this
      exact this.1.1.1
    have hdoc : assembleWith g items
        = '<' :: (name ++ '>' :: (w ++ (joinWith g.joiner items ++ g.footer))) := by
      simp [assembleWith, hhd, List.append_assoc]
    unfold xmlSplit
    rw [hdoc, skipWs_cons_nonsp _ _ (by decide)]
    simp only []
    rw [spanName_append name _ hname]
    simp only []
    rw [xmlLoop_congr name _ _ _ (skipWs_append_ws w _ hh)]
    exact xmlLoop_join name g.joiner g.footer hj hf' items _ (by rw [← hdoc]; omega) hit

theorem lines_roundtrip (f : Frame) (indent : Bool) (items : List Str) (hit : ∀ it ∈ items, LineItem it) :
    splitLines (assemble f indent true items) = items := by
  simp only [assemble, effFrame, if_true, assembleWith, List.nil_append, List.append_nil]
  exact splitLines_join items hit

end L
end Verif.C20
