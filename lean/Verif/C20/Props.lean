/-
C20 — property theorems: "convert emits a valid target document with one correct entry per input item".

Items are opaque texts (that one item's `encode`/`decode` round-trips is C01–C03's claim).  What is
proved here, for ALL item lists (every N including 0), with and without indent, with and without
`-lines`, is that the text `commands.convert` assembles around the item texts is read back by the
target family's document reader as exactly those items, in order — under decidable side conditions on
the codec constants (checked by `decide` on the table generated from the live modules) and under a
stated predicate on each item text (checked on every generated conversion by the correspondence run).
-/
import Verif.C20.Lemmas

namespace Verif.C20
open Verif.Tables

/-! ## The generated HEADER / JOINER / FOOTER constants have the shape their family's reader needs -/

/-- Every codec module of `delphin.codecs`, with and without indent: token-stream codecs get a frame
of whitespace only (`joiner.strip() + '\n\n'` is whitespace), the JSON family `[`, `,`, `]` up to
whitespace (`joiner.strip() = ","`), the XML family the matching `<name>` / `</name>` tags with a
whitespace joiner.  Proved by evaluation of the generated table: a changed constant breaks it. -/
theorem frames_ok : ∀ c ∈ codecs, codecFramesOk c = true := by decide

/-! ## "yields text that the target codec reads back as exactly N structures, in order" -/

/-- Token-stream family (SimpleMRS, SimpleDMRS, native EDS, Indexed MRS, the PENMAN codecs): for any
frame consisting of whitespace only, splitting the assembled document returns exactly the items. -/
theorem assemble_read_tok (angle : Bool) (g : Frame) (items : List Str) (hg : tokFrameOk g = true)
    (hit : ∀ it ∈ items, TokItem angle it) :
    tokSplit angle (assembleWith g items) = some items := L.tok_roundtrip angle g items hg hit

/-- JSON family: for a frame `[` / ws `,` ws / ws `]`, the assembled text is a JSON array whose
elements are exactly the items (each item one bracketed JSON value). -/
theorem assemble_read_json (g : Frame) (items : List Str) (hg : jsonFrameOk g = true)
    (hit : ∀ it ∈ items, JsonItem it) :
    jsonSplit (assembleWith g items) = some items := L.json_roundtrip g items hg hit

/-- XML family: header and footer are the matching open/close tags of the list element, the joiner
is whitespace; the children of the list element are exactly the items. -/
theorem assemble_read_xml (name : Str) (g : Frame) (items : List Str) (hg : xmlFrameOk name g = true)
    (hit : ∀ it ∈ items, XmlItem it) :
    xmlSplit (assembleWith g items) = some items := L.xml_roundtrip name g items hg hit

/-- "and for the one-item-per-line variants": whatever the codec's constants and the indent, a
`-lines` target gives exactly one line per item (items non-empty, without a newline). -/
theorem assemble_read_lines (f : Frame) (indent : Bool) (items : List Str)
    (hit : ∀ it ∈ items, LineItem it) :
    splitLines (assemble f indent true items) = items := L.lines_roundtrip f indent items hit

/-- the item predicate the reader of a target needs -/
def ItemOk (c : Codec) (lines : Bool) (it : Str) : Prop :=
  if lines then LineItem it else ItemFor (familyOf c) it

/-- MAIN CLAUSE on the generated table: for every codec module of `delphin.codecs` that has a reader,
every N (incl. 0), with and without indent, with and without `-lines`: reading the document that
`convert` assembles returns exactly the N item texts in order. -/
theorem target_reads_back (c : Codec) (hc : c ∈ codecs) (hfam : familyOf c ≠ .export)
    (indent lines : Bool) (items : List Str) (hit : ∀ it ∈ items, ItemOk c lines it) :
    readBack c lines (assemble (frameOf c) indent lines items) = some items := by
  have hok := frames_ok c hc
  simp only [codecFramesOk, Bool.and_eq_true] at hok
  unfold readBack
  cases lines with
  | true =>
    have hl : ∀ it ∈ items, LineItem it := fun it h => by simpa [ItemOk] using hit it h
    rw [assemble_read_lines _ _ _ hl]
    cases hf : familyOf c <;> simp_all
  | false =>
    have hg : frameOkFor (familyOf c) (frameOf c) (effFrame (frameOf c) indent false) = true := by
      cases indent
      · exact hok.1
      · exact hok.2
    have hi : ∀ it ∈ items, ItemFor (familyOf c) it := fun it h => by simpa [ItemOk] using hit it h
    cases hf : familyOf c with
    | «export» => exact absurd hf hfam
    | tok a =>
      rw [hf] at hg hi
      simpa [readDoc, assemble] using assemble_read_tok a _ items hg hi
    | json =>
      rw [hf] at hg hi
      simpa [readDoc, assemble] using assemble_read_json _ items hg hi
    | xml =>
      rw [hf] at hg hi
      simpa [readDoc, assemble] using assemble_read_xml _ _ items hg hi

/-- … in particular exactly N structures. -/
theorem target_reads_back_count (c : Codec) (hc : c ∈ codecs) (hfam : familyOf c ≠ .export)
    (indent lines : Bool) (items : List Str) (hit : ∀ it ∈ items, ItemOk c lines it) :
    (readBack c lines (assemble (frameOf c) indent lines items)).map List.length = some items.length := by
  rw [target_reads_back c hc hfam indent lines items hit]
  rfl

/-- N = 0: the empty document of every readable target reads back as no structure at all. -/
theorem target_reads_back_zero (c : Codec) (hc : c ∈ codecs) (hfam : familyOf c ≠ .export)
    (indent lines : Bool) :
    readBack c lines (assemble (frameOf c) indent lines []) = some [] :=
  target_reads_back c hc hfam indent lines [] (by simp)

/-! ## per-item error isolation: a failed item contributes nothing, the others are untouched -/

/-- the parts are the texts of the successfully converted and encoded items, in input order. -/
theorem parts_append (a b : List Outcome) : parts (a ++ b) = parts a ++ parts b := by
  simp [parts, List.filterMap_append]

theorem parts_drop_failed (a b : List Outcome) :
    parts (a ++ .convFail :: b) = parts (a ++ b) ∧ parts (a ++ .encFail :: b) = parts (a ++ b) := by
  constructor <;> simp [parts, List.filterMap_append, List.filterMap_cons, Outcome.text?]

/-- a crash of the converter (not a PyDelphinException) is NOT isolated: the command fails as a whole, whatever the
other items are. -/
theorem crash_not_isolated (srcFmt tgtFmt : Str) (indent : Bool) (n : Nat) (a b : List Outcome)
    (ha : ∀ x ∈ a, x = .convFail ∨ ∃ t, x = .ok t ∨ x = .encFail) :
    ∀ doc, convert srcFmt tgtFmt indent n (a ++ .convCrash :: b) ≠ .ok doc := by
  intro doc h
  unfold convert at h
  split at h
  · simp at h
  · split at h
    · simp at h
    · rename_i p _ _
      have : ∀ (a : List Outcome), (∀ x ∈ a, x = .convFail ∨ ∃ t, x = .ok t ∨ x = .encFail) →
          firstErr p.tgt.canEncode (a ++ .convCrash :: b) ≠ none := by
        intro a
        induction a with
        | nil => intro _; simp [firstErr]
        | cons x xs ih =>
          intro hx
          have hxs := ih (fun y hy => hx y (by simp [hy]))
          rcases hx x (by simp) with h1 | ⟨t, h1 | h1⟩ <;> subst h1 <;> simp only [List.cons_append, firstErr]
          · exact hxs
          · split
            · exact hxs
            · simp
          · split
            · exact hxs
            · simp
      have hne := this a ha
      split at h
      · simp at h
      · rename_i hnone
        exact hne hnone

theorem parts_ok (a b : List Outcome) (t : Str) :
    parts (a ++ .ok t :: b) = parts a ++ t :: parts b := by
  simp [parts, List.filterMap_append, Outcome.text?]

/-- a codec returned by the lookup is a row of the generated table -/
theorem getCodec_mem (n : Str) (c : Codec) (h : getCodec n = .ok c) : c ∈ codecs := by
  unfold getCodec at h
  cases hf : codecs.find? (fun c => c.name == n) with
  | none => simp [hf] at h
  | some c' =>
    simp only [hf] at h
    cases h
    exact List.mem_of_find?_eq_some hf

/-- what a successful plan fixes about the target -/
theorem plan_tgt (srcFmt tgtFmt : Str) (n : Nat) (p : Plan) (h : plan srcFmt tgtFmt n = .ok p) :
    getCodec (parseFormatName tgtFmt).1 = .ok p.tgt ∧ p.tgtLines = (parseFormatName tgtFmt).2 := by
  unfold plan at h
  split at h
  · simp at h
  · split at h
    · simp at h
    · rename_i tc htc
      split at h
      · simp at h
      · split at h
        · simp at h
        · simp only [Except.ok.injEq] at h
          subst h
          exact ⟨htc, rfl⟩

/-- END TO END on opaque items: whenever the command (model) succeeds on a list of item outcomes and
the target has a reader, the returned text reads back as exactly the successfully converted items, in
order — from a file, a stream or a profile query alike, since the readers only deliver the item list;
failed items leave no trace. -/
theorem convert_reads_back (srcFmt tgtFmt : Str) (indent : Bool) (n : Nat) (os : List Outcome) (doc : Str)
    (p : Plan) (hp : plan srcFmt tgtFmt n = .ok p)
    (h : convert srcFmt tgtFmt indent n os = .ok doc)
    (hfam : familyOf p.tgt ≠ .export)
    (hit : ∀ it ∈ parts os, ItemOk p.tgt p.tgtLines it) :
    readBack p.tgt p.tgtLines doc = some (parts os) := by
  have hmem := getCodec_mem _ _ (plan_tgt _ _ _ _ hp).1
  have hdoc : doc = assemble (frameOf p.tgt) indent p.tgtLines (parts os) := by
    unfold convert at h
    rw [hp] at h
    simp only at h
    split at h
    · simp at h
    · split at h
      · simp at h
      · simp only [Except.ok.injEq] at h
        exact h.symm
  rw [hdoc]
  exact target_reads_back p.tgt hmem hfam indent _ (parts os) hit

/-! ## "export-only targets receive exactly one block per item" -/

def stripSp (s : Str) : Str := s.filter (fun c => !isSp c)

theorem stripSp_append (a b : Str) : stripSp (a ++ b) = stripSp a ++ stripSp b := by
  simp [stripSp]

theorem stripSp_ws (w : Str) (h : wsOnly w = true) : stripSp w = [] := by
  simp only [stripSp, List.filter_eq_nil_iff]
  intro c hc
  have := List.all_eq_true.mp h c hc
  simp [this]

theorem stripSp_joinWith (j : Str) (hj : wsOnly j = true) :
    ∀ items : List Str, stripSp (joinWith j items) = items.flatMap stripSp
  | [] => rfl
  | [x] => by simp [joinWith]
  | x :: y :: r => by
    rw [L.joinWith_cons_cons, stripSp_append, stripSp_append, stripSp_ws j hj,
      stripSp_joinWith j hj (y :: r)]
    simp

/-- Up to whitespace, the document of a target whose (effective) joiner is whitespace is the header,
then the N blocks in order, then the footer — nothing is inserted between or around the blocks. -/
theorem blocks_in_order (g : Frame) (items : List Str) (hj : wsOnly g.joiner = true) :
    stripSp (assembleWith g items) = stripSp g.header ++ (items.flatMap stripSp ++ stripSp g.footer) := by
  simp only [assembleWith, stripSp_append, stripSp_joinWith g.joiner hj]

/-- the export-only codecs of the table (no reader) have a whitespace joiner, with and without indent. -/
theorem export_joiners_ws :
    ∀ c ∈ codecs, familyOf c = .export →
      wsOnly (effFrame (frameOf c) false false).joiner = true ∧
      wsOnly (effFrame (frameOf c) true false).joiner = true := by decide

/-! ## converter selection by representation pair -/

/-- the converter is the identity iff the representations agree -/
theorem converter_ident_iff (s t : Str) : getConverter s t = .ok .ident ↔ s = t := by
  unfold getConverter
  constructor
  · intro h
    split at h
    · simp at h
    · split at h
      · simp at h
      · split at h
        · simp at h
        · split at h
          · assumption
          · simp at h
  · intro h
    subst h
    have h1 : ¬ (s = repMrs ∧ s = repDmrs) := by
      rintro ⟨a, b⟩; rw [a] at b; exact absurd b (by decide)
    have h2 : ¬ (s = repDmrs ∧ s = repMrs) := by
      rintro ⟨a, b⟩; rw [a] at b; exact absurd b (by decide)
    have h3 : ¬ (s = repMrs ∧ s = repEds) := by
      rintro ⟨a, b⟩; rw [a] at b; exact absurd b (by decide)
    simp [h1, h2, h3]

/-- a real conversion is selected exactly for mrs→dmrs, dmrs→mrs, mrs→eds … -/
theorem converter_cross (s t : Str) :
    (getConverter s t = .ok .mrsToDmrs ↔ (s = repMrs ∧ t = repDmrs)) ∧
    (getConverter s t = .ok .dmrsToMrs ↔ (s = repDmrs ∧ t = repMrs)) ∧
    (getConverter s t = .ok .mrsToEds ↔ (s = repMrs ∧ t = repEds)) := by
  unfold getConverter
  refine ⟨⟨?_, ?_⟩, ⟨?_, ?_⟩, ⟨?_, ?_⟩⟩
  · intro h; split at h
    · assumption
    · split at h
      · simp at h
      · split at h
        · simp at h
        · split at h <;> simp at h
  · intro h; simp [h]
  · intro h; split at h
    · simp at h
    · split at h
      · assumption
      · split at h
        · simp at h
        · split at h <;> simp at h
  · rintro ⟨a, b⟩; subst a b; simp [repMrs, repDmrs]
  · intro h; split at h
    · simp at h
    · split at h
      · simp at h
      · split at h
        · assumption
        · split at h <;> simp at h
  · rintro ⟨a, b⟩; subst a b; simp [repMrs, repDmrs, repEds]

/-- … and every other pair of different representations is rejected (`CommandError`). -/
theorem converter_defined_iff (s t : Str) :
    (∃ cv, getConverter s t = .ok cv) ↔
      (s = t ∨ (s = repMrs ∧ t = repDmrs) ∨ (s = repDmrs ∧ t = repMrs) ∨ (s = repMrs ∧ t = repEds)) := by
  constructor
  · rintro ⟨cv, h⟩
    cases cv with
    | ident => exact Or.inl ((converter_ident_iff s t).mp h)
    | mrsToDmrs => exact Or.inr (Or.inl ((converter_cross s t).1.mp h))
    | dmrsToMrs => exact Or.inr (Or.inr (Or.inl ((converter_cross s t).2.1.mp h)))
    | mrsToEds => exact Or.inr (Or.inr (Or.inr ((converter_cross s t).2.2.mp h)))
  · rintro (h | h | h | h)
    · exact ⟨_, (converter_ident_iff s t).mpr h⟩
    · exact ⟨_, (converter_cross s t).1.mpr h⟩
    · exact ⟨_, (converter_cross s t).2.1.mpr h⟩
    · exact ⟨_, (converter_cross s t).2.2.mpr h⟩

/-- on the generated table: the representations that occur are exactly mrs, dmrs, eds, so every pair
of codecs is either same-representation, one of the three conversions, or rejected. -/
theorem table_representations : ∀ c ∈ codecs, c.rep.map lowerAscii = repMrs ∨ c.rep.map lowerAscii = repDmrs
    ∨ c.rep.map lowerAscii = repEds := by decide

/-! ## format-name normalisation -/

/-- the normalised codec name never contains a hyphen -/
theorem parse_no_hyphen (s : Str) : '-' ∉ (parseFormatName s).1 := by
  unfold parseFormatName
  split <;> simp [List.mem_filter]

/-- the spellings used in the documentation, evaluated -/
theorem parse_examples :
    parseFormatName "mrs-json".toList = ("mrsjson".toList, false) ∧
    parseFormatName "Simple-MRS-Lines".toList = ("simplemrs".toList, true) ∧
    parseFormatName "eds-lines".toList = ("eds".toList, true) ∧
    parseFormatName "-lines".toList = ([], true) ∧
    parseFormatName "simplemrs-line".toList = ("simplemrsline".toList, false) := by decide

/-! ## "each equal to what converting and encoding that item on its own gives" and
"transcoding … and back reproduces the original structures up to the information both formats carry",
over OPAQUE item codecs with a stated round-trip hypothesis.  These three theorems are the abstract layer:
`RoundTrips` (unconditional `dec (enc s) = some (carried s)`) and `WritesItems` (every written text is a
`TokItem`/`JsonItem`/`XmlItem`) are hypotheses, not facts about the real codecs — C01–C03 prove the round trip only
under their `Expressible…`/`lexOK` hypotheses, and `WritesItems` fails for symbols containing brackets (see the
RESTRICTION note in Model.lean).  The INSTANTIATION with real item codecs is `Verif/Integration/Frame.lean`:
`loads_convert_simpledmrs(_row)`, `loads_convert_eds(_row/_lines)`, `convert_doc_frame_simplemrs_simpledmrs/_eds`
prove "loads(convert(items)) = the N converted structures" for C20's `assemble` around C02's / C03's encoder texts,
read by C02's / C03's lexer-and-parser models, under exactly C02's / C03's hypotheses and without `TokItem`. -/

/-- an item codec over structures `S`: `carried s` is `s` reduced to what the format carries. -/
structure ItemCodec (S : Type) where
  enc : S → Str
  dec : Str → Option S
  carried : S → S

/-- the per-item round trip: decoding an encoded structure gives the structure up to what the format
carries. -/
def ItemCodec.RoundTrips {S : Type} (k : ItemCodec S) : Prop := ∀ s, k.dec (k.enc s) = some (k.carried s)

/-- every text the item codec writes is an item for the reader of codec module `c` -/
def ItemCodec.WritesItems {S : Type} (k : ItemCodec S) (c : Codec) (lines : Bool) : Prop :=
  ∀ s, ItemOk c lines (k.enc s)

def decodeAll {S : Type} (dec : Str → Option S) : List Str → Option (List S)
  | [] => some []
  | t :: ts =>
    match dec t, decodeAll dec ts with
    | some s, some ss => some (s :: ss)
    | _, _ => none

/-- the target codec's `loads` (or the line reader + `decode` for `-lines`): split, then decode each item -/
def loadsDoc {S : Type} (c : Codec) (k : ItemCodec S) (lines : Bool) (doc : Str) : Option (List S) :=
  match readBack c lines doc with
  | some its => decodeAll k.dec its
  | none => none

/-- what `convert` writes for already converted structures `xs` -/
def writeDoc {S : Type} (c : Codec) (k : ItemCodec S) (indent lines : Bool) (xs : List S) : Str :=
  assemble (frameOf c) indent lines (xs.map k.enc)

theorem decodeAll_enc {S : Type} (k : ItemCodec S) (hk : k.RoundTrips) :
    ∀ xs : List S, decodeAll k.dec (xs.map k.enc) = some (xs.map k.carried)
  | [] => rfl
  | x :: xs => by
    simp only [List.map_cons, decodeAll, hk x, decodeAll_enc k hk xs]

/-- N items converted by `cv` (the identity within one representation) and written to any readable
target: the target reads back exactly N structures, the i-th being what converting and encoding the
i-th item on its own gives (`dec (enc (cv x)) = some (carried (cv x))`), in order; with or without
indent and `-lines`. -/
theorem loads_convert {S T : Type} (c : Codec) (hc : c ∈ codecs) (hfam : familyOf c ≠ .export)
    (k : ItemCodec T) (hk : k.RoundTrips) (indent lines : Bool) (hw : k.WritesItems c lines)
    (cv : S → T) (xs : List S) :
    loadsDoc c k lines (writeDoc c k indent lines (xs.map cv)) = some (xs.map (fun x => k.carried (cv x))) := by
  unfold loadsDoc writeDoc
  rw [target_reads_back c hc hfam indent lines _ (by
    intro it hit
    obtain ⟨s, _, rfl⟩ := List.mem_map.mp hit
    exact hw s)]
  show decodeAll k.dec (List.map k.enc (List.map cv xs)) = _
  rw [decodeAll_enc k hk (xs.map cv), List.map_map]
  rfl

/-- Same-representation transcoding there and back: structures `xs` written in format B, read, written
in format A, read — N structures again, the i-th being the i-th original reduced to what B carries and
then to what A carries (`carriedA ∘ carriedB`), whatever indent / `-lines` options each leg uses. -/
theorem transcode_there_and_back {S : Type}
    (cA cB : Codec) (hA : cA ∈ codecs) (hB : cB ∈ codecs)
    (hfA : familyOf cA ≠ .export) (hfB : familyOf cB ≠ .export)
    (kA kB : ItemCodec S) (hkA : kA.RoundTrips) (hkB : kB.RoundTrips)
    (iA lA iB lB : Bool) (hwA : kA.WritesItems cA lA) (hwB : kB.WritesItems cB lB) (xs : List S) :
    ∃ ys, loadsDoc cB kB lB (writeDoc cB kB iB lB xs) = some ys ∧
      loadsDoc cA kA lA (writeDoc cA kA iA lA ys) = some (xs.map (fun x => kA.carried (kB.carried x))) := by
  refine ⟨xs.map kB.carried, ?_, ?_⟩
  · have := loads_convert cB hB hfB kB hkB iB lB hwB (fun x : S => x) xs
    simpa using this
  · have := loads_convert cA hA hfA kA hkA iA lA hwA kB.carried xs
    simpa using this

/-- … so when format B carries everything format A carries of a structure that was read from A
(`carriedA (carriedB (carriedA x)) = carriedA x`), a document read from A, transcoded to B and back,
reads as the original structures. -/
theorem transcode_identity_on_common {S : Type}
    (cA cB : Codec) (hA : cA ∈ codecs) (hB : cB ∈ codecs)
    (hfA : familyOf cA ≠ .export) (hfB : familyOf cB ≠ .export)
    (kA kB : ItemCodec S) (hkA : kA.RoundTrips) (hkB : kB.RoundTrips)
    (iA lA iB lB : Bool) (hwA : kA.WritesItems cA lA) (hwB : kB.WritesItems cB lB)
    (hcommon : ∀ x, kA.carried (kB.carried (kA.carried x)) = kA.carried x) (zs : List S) :
    ∃ ys, loadsDoc cB kB lB (writeDoc cB kB iB lB (zs.map kA.carried)) = some ys ∧
      loadsDoc cA kA lA (writeDoc cA kA iA lA ys) = some (zs.map kA.carried) := by
  obtain ⟨ys, h1, h2⟩ := transcode_there_and_back cA cB hA hB hfA hfB kA kB hkA hkB iA lA iB lB hwA hwB
    (zs.map kA.carried)
  refine ⟨ys, h1, ?_⟩
  rw [h2, List.map_map]
  congr 1
  apply List.map_congr_left
  intro x _
  exact hcommon x

/-- the hypotheses are satisfiable: a codec writing `{n}`-style items (here: the text itself, for texts
that are JSON items) round-trips through the JSON family -/
example : (⟨fun s => s, fun t => some t, fun s => s⟩ : ItemCodec Str).RoundTrips := fun _ => rfl

/-! ## the hypotheses of `convert_reads_back` are jointly satisfiable -/

theorem jsonItem_of_b (it : Str) (h : jsonItemB it = true) : JsonItem it := by
  unfold jsonItemB at h
  simp only [Bool.and_eq_true] at h
  obtain ⟨h1, h2⟩ := h
  refine ⟨?_, by simpa using h2⟩
  cases it with
  | nil => simp at h1
  | cons c cs =>
    refine ⟨c, cs, rfl, ?_⟩
    simp only [Bool.or_eq_true, beq_iff_eq] at h1
    exact h1

def exOutcomes : List Outcome :=
  [.ok "{\"top\": \"h0\", \"x\": [1, \"]\"]}".toList, .convFail, .ok "{}".toList, .encFail]

/-- `convert("simplemrs" → "mrs-json", indent)` on four items of which one fails in the converter and one in the
encoder: the plan exists, the command succeeds, the target has a reader, the two remaining item texts are JSON
items — and the document reads back as exactly those two, in order. -/
example :
    ∃ p doc, plan "simplemrs".toList "mrs-json".toList 1 = .ok p ∧
      convert "simplemrs".toList "mrs-json".toList true 1 exOutcomes = .ok doc ∧
      familyOf p.tgt ≠ .export ∧ (∀ it ∈ parts exOutcomes, ItemOk p.tgt p.tgtLines it) ∧
      readBack p.tgt p.tgtLines doc = some (parts exOutcomes) := by
  have hp : (plan "simplemrs".toList "mrs-json".toList 1).toOption.isSome = true := by decide
  have hc : (convert "simplemrs".toList "mrs-json".toList true 1 exOutcomes).toOption.isSome = true := by decide
  cases hp' : plan "simplemrs".toList "mrs-json".toList 1 with
  | error e => rw [hp'] at hp; simp [Except.toOption] at hp
  | ok p =>
    cases hc' : convert "simplemrs".toList "mrs-json".toList true 1 exOutcomes with
    | error e => rw [hc'] at hc; simp [Except.toOption] at hc
    | ok doc =>
      have ht := plan_tgt _ _ _ _ hp'
      have hfamj : (getCodec (parseFormatName "mrs-json".toList).1).toOption.map familyOf = some .json := by decide
      rw [ht.1] at hfamj
      have hfam : familyOf p.tgt = .json := by simpa [Except.toOption] using hfamj
      have hl : p.tgtLines = false := by rw [ht.2]; decide
      have hit : ∀ it ∈ parts exOutcomes, ItemOk p.tgt p.tgtLines it := by
        intro it hit
        have hb : ∀ it ∈ parts exOutcomes, jsonItemB it = true := by decide
        simp only [ItemOk, hl, Bool.false_eq_true, if_false, hfam, ItemFor]
        exact jsonItem_of_b it (hb it hit)
      refine ⟨p, doc, rfl, rfl, by rw [hfam]; decide, hit, ?_⟩
      exact convert_reads_back _ _ true 1 exOutcomes doc p hp' hc' (by rw [hfam]; decide) hit

/-! ## Pins: the constants of the anchored code that the hand-written model (and the oracle) mirror

`TablesC20.lean` is regenerated on every run from the live code: the string/number constants of
`commands.convert`, `_parse_format_name`, `_get_converter` (code objects; docstrings and log/exception
message texts left out), the exception names of `convert` / `_iter_convert` / `_get_codec`, the names
used by the readers `_read` / `_read_lines` / `_read_file` and by `_iter_convert`, the default arguments
of `commands.convert`, `_get_converter` probed from outside with stand-in codecs, the
representation and the pickle-API functions of every module of `delphin.codecs`, their
HEADER/JOINER/FOOTER, and the argument defaults and constants of `delphin/cli/convert.py`.

Mirrored by:
* `c20ParseNameConsts`, `c20ParseNameNames` — `parseFormatName` (`lowerAscii`, `endsWith … linesSuffix`,
  `take (length - 6)`, `filter (· != '-')`) and the oracle's `norm_name`;
* `c20ConvertConsts` — `effFrame` (`''`/`'\n'`/`''` for `-lines`; `+ '\n'`, `strip() + '\n\n'`, `'\n' +`
  with an indent), `frameOf` (defaults `''`, `' '`, `''` of `getattr(…, 'HEADER'/'JOINER'/'FOOTER', …)`),
  `plan` (`projection` count `1`);
* `c20ConvertDefaults`, `c20CliDefaults`, `c20CliConsts` — the driver's `indent` flag is
  `indent is not None` (API default `None`, command line default `True`, `no|none` ↦ `None`), the harness's
  `select`, `properties`, `lnk`, `predicate_modifiers` arguments;
* `c20ConvertCaught`, `c20IterConvertCaught`, `c20GetCodecCaught` — `Outcome.encFail`
  (PyDelphinException, KeyError, IndexError in `encode`), `Outcome.convFail` (PyDelphinException in the
  converter), `getCodec` (KeyError ↦ CommandError);
* `c20GetConverterConsts`, `c20ConverterProbe` — `getConverter`, `repMrs`/`repDmrs`/`repEds` and the
  oracle's `naive_converter` (`c20_converter_probe_agrees` below ties the probe to the model);
* `c20ReadNames`, `c20ReadLinesNames`, `c20IterConvertNames` — the readers are not modelled beyond "they
  deliver the item list"; the model's `convert` takes one outcome per item the reader delivers, in order
  (`load` for files and streams, `tsql.select` + `loads` + `next(iter(…))` per row for a profile,
  `decode` per line), so any other name appearing there (a cache, a filter, a sort) must be looked at;
* `c20CodecCaps`, `c20FramePins` — `familyOf` (`jsonNames`, `xmlNames`, `angleNames`, export-only = no
  `load`), `Codec.canLoad`/`canEncode`, and the frames consumed by `frames_ok`.

A change to any of them makes this theorem stop checking; the check then reports a broken proof
obligation and searches for a failing input. -/
theorem c20_pins :
    c20ParseNameConsts = ["False", "-lines", "True", "-6", "-", ""]
    ∧ c20ParseNameNames = ["lower", "endswith", "replace"]
    ∧ c20ConvertConsts = ["select ", "projection", "1", "ignore", "indexedmrs", "semi", "indent", "eds",
        "show_status", "properties", "lnk", "", "\n", "HEADER", "JOINER", " ", "FOOTER", "\n\n"]
    ∧ c20ConvertDefaults = ["select='result.mrs'", "properties=True", "lnk=True", "color=False", "indent=None",
        "show_status=False", "predicate_modifiers=False", "semi=None"]
    ∧ c20ConvertCaught = ["CommandError", "PyDelphinException", "KeyError", "IndexError"]
    ∧ c20IterConvertCaught = ["PyDelphinException"]
    ∧ c20GetCodecCaught = ["KeyError", "CommandError"]
    ∧ c20GetConverterConsts = ["representation", "mrs|dmrs", "0", "from_mrs", "representative_priority",
        "dmrs|mrs", "from_dmrs", "mrs|eds", "predicate_modifiers"]
    ∧ c20ReadNames = ["hasattr", "list", "load", "Path", "expanduser", "is_dir", "tsdb", "Database", "tsql",
        "select", "next", "iter", "loads", "read", "0"]
    ∧ c20ReadLinesNames = ["hasattr", "_read_file", "Path", "expanduser", "open", "decode"]
    ∧ c20IterConvertNames = ["logger", "info", "enumerate", "debug", "PyDelphinException", "error"]
    ∧ c20CodecCaps = ["ace:mrs:load,loads,decode",
        "dmrsjson:dmrs:load,loads,decode,dump,dumps,encode",
        "dmrspenman:dmrs:load,loads,decode,dump,dumps,encode",
        "dmrstikz:dmrs:dump,dumps,encode",
        "dmrx:dmrs:load,loads,decode,dump,dumps,encode",
        "eds:eds:load,loads,decode,dump,dumps,encode",
        "edsjson:eds:load,loads,decode,dump,dumps,encode",
        "edspenman:eds:load,loads,decode,dump,dumps,encode",
        "indexedmrs:mrs:load,loads,decode,dump,dumps,encode",
        "mrsjson:mrs:load,loads,decode,dump,dumps,encode",
        "mrsprolog:mrs:dump,dumps,encode",
        "mrx:mrs:load,loads,decode,dump,dumps,encode",
        "simpledmrs:dmrs:load,loads,decode,dump,dumps,encode",
        "simplemrs:mrs:load,loads,decode,dump,dumps,encode"]
    ∧ c20FramePins = ["ace:<undefined>:<undefined>:<undefined>", "dmrsjson:[:,:]",
        "dmrspenman:<undefined>:<undefined>:<undefined>", "dmrstikz:<871 chars>:\n:\n\\end{document}\n",
        "dmrx:<dmrs-list>::</dmrs-list>", "eds:<undefined>:<undefined>:<undefined>", "edsjson:[:,:]",
        "edspenman:<undefined>:<undefined>:<undefined>", "indexedmrs:<undefined>:<undefined>:<undefined>",
        "mrsjson:[:,:]", "mrsprolog:<undefined>:<undefined>:<undefined>", "mrx:<mrs-list>::</mrs-list>",
        "simpledmrs:<undefined>:<undefined>:<undefined>", "simplemrs:<undefined>:<undefined>:<undefined>"]
    ∧ c20CliDefaults = ["PATH=None", "color='auto'", "from='simplemrs'", "indent=True", "list=False",
        "no_lnk=False", "no_properties=False", "predicate_modifiers=False", "select='result.mrs'", "semi=None",
        "show_status=False", "to='simplemrs'"]
    ∧ c20CliConsts = ["0", "always", "auto", "True", "no|none", "from",
        "properties|lnk|color|indent|select|show_status|predicate_modifiers|semi"] := by
  refine ⟨?_, ?_, ?_, ?_, ?_, ?_, ?_, ?_, ?_, ?_, ?_, ?_, ?_, ?_, ?_⟩ <;> rfl

def convCode : Except Err Conv → Nat
  | .ok .ident => 0
  | .ok _ => 1
  | .error _ => 2

/-- `_get_converter`, probed from outside on all pairs over {mrs, dmrs, eds, MRS, Dmrs, other}, agrees
with the model's `getConverter` on the lower-cased representation names: identity / a converter /
CommandError for exactly the same pairs. -/
theorem c20_converter_probe_agrees :
    ∀ p ∈ c20ConverterProbe,
      convCode (getConverter (p.1.map lowerAscii) (p.2.1.map lowerAscii)) = p.2.2 := by decide

/-- the probe covers all 36 pairs -/
theorem c20_converter_probe_size : c20ConverterProbe.length = 36 := by decide

end Verif.C20
