/-
C06 — property theorems: "MRS isomorphism is exact and renaming-invariant; bag comparison partitions".

Only statements and their assembly from `Lemmas.lean` / `Complete.lean` live here.  The specification
(`IsIsoVia`, `IsIso`, `WFAdj`) is in `Spec.lean`.

What is proved for ALL inputs of the model
  * soundness ("a changed predicate, argument, constant, constraint or property is never reported as
    isomorphic"): every complete mapping `_vf2` returns, hence every `True` of `is_isomorphic`, is a
    label- and edge-preserving bijection of the two encoding graphs (`matcher_sound`, `vf2_sound`,
    `isIsomorphic_sound`);
  * completeness ("equivalent structures are never reported as different"): if the encoding graphs
    are isomorphic the search returns a complete mapping that passes the final test
    (`matcher_complete`, `completeness_partial` is the exhaustiveness lemma it rests on);
  * exactness: `is_isomorphic(m1, m2) = True` iff the encoding graphs are isomorphic
    (`isIsomorphic_iff`), hence reflexive, symmetric, transitive (`isIsomorphic_refl/_symm/_trans`)
    and dependent only on the isomorphism classes of the graphs (`isIsomorphic_invariant`);
  * bag comparison: the counting identities for ANY comparison predicate, "entirely shared" for any
    equivalence relation, and its instance for `is_isomorphic` (`compareBags_mrs_renamed_copy`).
  * faithfulness of the encoding: on the input space `InSpace` (Spec.lean, all clauses decidable and
    evaluated by the driver on every generated case) `is_isomorphic` answers `True` exactly on
    isomorphic MRSs — `MRSIso`, defined without any graph (`isIsomorphic_iff_mrsIso`; the property clause
    is about the multiset of (upper-cased name, lower-cased value) pairs of INTRINSIC — for quantifiers:
    bound — variables only, as in the code); isomorphic
    MRSs pass the size pre-checks (`mrsIso_passes_size_checks`); renaming / reordering invariance
    (`isIsomorphic_renamed`, `_reordered`).
What is NOT proved: nothing of the property's clauses for the model remains open; what remains
trusted is the model itself (tied to the code by the correspondence run and the pins) and the
hypotheses: `InSpace` (node-name hygiene, no parallel constraints, the three edge-label alphabets
disjoint, no blank in a role, no `(`/`{` in a predicate, no `)` in a constant, property names without
lower-case letter / `=` / `|` and values without `|`, clean edge labels).  The graph-level statements
(`isIsomorphic_iff`, `isIsomorphic_complete`) are for pairs passing the four size pre-checks.
-/
import Verif.C06.Complete
import Verif.C06.Encoding
import Verif.C06.Faithful

namespace Verif.C06
open Verif.Sem

/-! ## "… so a changed predicate, argument, constant, constraint or property is never reported as
isomorphic" — soundness of the matcher -/

/-- Every complete mapping found by the search that passes the final test `set(iso) == set(g1)` is a
label- and edge-preserving bijection of the two graphs (`IsIsoVia`, Spec.lean).  Hypotheses: both
`_vf2_inv_map` calls succeeded; the graphs are dicts of dicts; no edge label starts with `--` or
contains ` --` (the marker `_vf2_inv_map` uses for inverse edges). -/
theorem matcher_sound (g1 g2 a1 a2 : IsoGraph)
    (h1 : invMap g1 = .ok a1) (h2 : invMap g2 = .ok a2) (hwf1 : WFAdj g1) (hwf2 : WFAdj g2)
    (hl1 : cleanGraph g1 = true) (hl2 : cleanGraph g2 = true)
    (μ : Mapping) (hs : search a1 a2 a2.length [] = some μ) (hacc : accept μ a1 = true) :
    IsIsoVia μ g1 g2 := by
  obtain ⟨hc1, rfl⟩ := invMap_ok h1
  obtain ⟨hc2, rfl⟩ := invMap_ok h2
  exact matcher_sound_raw hc1 hc2 hwf1 hwf2 hl1 hl2 hs hacc

/-- The same for the function `_vf2` itself: whenever the mapping it returns is complete
(`len(mapping) == len(g2)`) and covers `g1`, it is a structure-preserving bijection. -/
theorem vf2_sound (g1 g2 a1 a2 : IsoGraph)
    (h1 : invMap g1 = .ok a1) (h2 : invMap g2 = .ok a2) (hwf1 : WFAdj g1) (hwf2 : WFAdj g2)
    (hl1 : cleanGraph g1 = true) (hl2 : cleanGraph g2 = true)
    (hlen : (vf2 a1 a2).length = a2.length) (hacc : accept (vf2 a1 a2) a1 = true) :
    IsIsoVia (vf2 a1 a2) g1 g2 := by
  cases hs : search a1 a2 a2.length [] with
  | some μ =>
    have hv : vf2 a1 a2 = μ := by simp [vf2, hs]
    rw [hv] at hacc ⊢
    exact matcher_sound g1 g2 a1 a2 h1 h2 hwf1 hwf2 hl1 hl2 μ hs hacc
  | none =>
    exfalso
    have hv : vf2 a1 a2 = [] := by simp [vf2, hs]
    rw [hv] at hlen
    have : a2.length = 0 := by simpa using hlen.symm
    rw [this] at hs
    simp [search] at hs

/-! ## "equivalent structures are never reported as different" — completeness of the matcher -/

/-- The search is exhaustive: it never gives up while some candidate of the current state is feasible
and leads on (`P` = any property of partial mappings that always offers such a candidate). -/
theorem completeness_partial (a1 a2 : IsoGraph) (P : Mapping → Prop)
    (hstep : ∀ mp, P mp → mp.length < a2.length →
      ∃ c ∈ candidates mp a1 a2, feasible mp a1 a2 c.1 c.2 = true ∧ P (c :: mp)) :
    ∀ (k : Nat) (mp : Mapping), P mp → mp.length + k = a2.length →
      ∃ μ, search a1 a2 k mp = some μ :=
  search_exhaustive a1 a2 P hstep

/-- **Completeness.**  If the two encoding graphs are isomorphic, `_vf2` returns a complete mapping
and the final test accepts it.  Proof: "the current mapping is part of the isomorphism φ" is kept by
the search — the pair (φ⁻¹(m), m) for the target `m = min T2` (resp. the least unmapped node) is in
the candidate list because φ maps the frontier `T1` onto `T2`, and every feasibility test is
necessary under φ: equal node-label entry, equal degree (φ is a bijection between the neighbourhoods
in the graphs WITH inverse edges, `someKeys_aug_eq`), equal self-loop label, two-way consistency.
The look-ahead test of `_vf2_feasible` is vacuous in the code (see `Model.feasible`). -/
theorem matcher_complete (g1 g2 a1 a2 : IsoGraph)
    (h1 : invMap g1 = .ok a1) (h2 : invMap g2 = .ok a2) (hwf1 : WFAdj g1) (hwf2 : WFAdj g2)
    (hiso : IsIso g1 g2) :
    ∃ μ, search a1 a2 a2.length [] = some μ ∧ vf2 a1 a2 = μ ∧ accept μ a1 = true := by
  obtain ⟨hc1, rfl⟩ := invMap_ok h1
  obtain ⟨hc2, rfl⟩ := invMap_ok h2
  obtain ⟨μ, hs, hacc⟩ := matcher_complete_raw hc1 hc2 hwf1 hwf2 hiso
  exact ⟨μ, hs, by simp [vf2, hs], hacc⟩

/-! ## "on small structures its verdict equals that of an exhaustive search for a structure-preserving
bijection" — for the model: on ALL structures -/

/-- Whenever `is_isomorphic(m1, m2, properties)` answers `True`, the two encoding graphs exist and
(their edge labels being clean) are isomorphic.  No hypothesis on the MRSs. -/
theorem isIsomorphic_sound (properties : Bool) (m1 m2 : MRS)
    (h : isIsomorphic properties m1 m2 = .ok true) :
    ∃ g1 g2, mkIsoGraph properties m1 = .ok g1 ∧ mkIsoGraph properties m2 = .ok g2 ∧
      (cleanGraph g1 = true → cleanGraph g2 = true → IsIso g1 g2) := by
  unfold isIsomorphic at h
  by_cases hsz : sizesDiffer m1 m2 = true
  · simp [hsz] at h
  · simp only [hsz, Bool.false_eq_true, if_false, bind, Except.bind] at h
    cases hg1 : mkIsoGraph properties m1 with
    | error e => simp [hg1] at h
    | ok g1 =>
      cases hg2 : mkIsoGraph properties m2 with
      | error e => simp [hg1, hg2] at h
      | ok g2 =>
        cases ha1 : invMap g1 with
        | error e => simp [hg1, hg2, ha1] at h
        | ok a1 =>
          cases ha2 : invMap g2 with
          | error e => simp [hg1, hg2, ha1, ha2] at h
          | ok a2 =>
            simp only [hg1, hg2, ha1, ha2, Except.ok.injEq] at h
            refine ⟨g1, g2, rfl, rfl, fun hl1 hl2 => ?_⟩
            obtain ⟨hc1, rfl⟩ := invMap_ok ha1
            obtain ⟨hc2, rfl⟩ := invMap_ok ha2
            have hsz' : sizesDiffer m1 m2 = false := by simpa using hsz
            exact (accept_vf2_iff hc1 hc2 (mkIsoGraph_wf hg1) (mkIsoGraph_wf hg2) hl1 hl2
              (sizes_empty hsz' hg1 hg2)).1 h

/-- **Exactness.**  For two MRSs whose encodings succeed, with clean edge labels and passing the four
size pre-checks, `is_isomorphic` answers `True` exactly when the encoding graphs are isomorphic, and
`False` otherwise (it never raises). -/
theorem isIsomorphic_iff (properties : Bool) (m1 m2 : MRS) (g1 g2 a1 a2 : IsoGraph)
    (hg1 : mkIsoGraph properties m1 = .ok g1) (hg2 : mkIsoGraph properties m2 = .ok g2)
    (ha1 : invMap g1 = .ok a1) (ha2 : invMap g2 = .ok a2)
    (hl1 : cleanGraph g1 = true) (hl2 : cleanGraph g2 = true)
    (hsz : sizesDiffer m1 m2 = false) :
    (isIsomorphic properties m1 m2 = .ok true ↔ IsIso g1 g2)
    ∧ (isIsomorphic properties m1 m2 = .ok false ↔ ¬ IsIso g1 g2) := by
  rw [isIsomorphic_eq hg1 hg2 ha1 ha2]
  obtain ⟨hc1, rfl⟩ := invMap_ok ha1
  obtain ⟨hc2, rfl⟩ := invMap_ok ha2
  have key := accept_vf2_iff hc1 hc2 (mkIsoGraph_wf hg1) (mkIsoGraph_wf hg2) hl1 hl2
    (sizes_empty hsz hg1 hg2)
  simp only [hsz, Bool.false_eq_true, if_false, Except.ok.injEq]
  constructor
  · exact key
  · rw [← key]; simp

/-- completeness at the level of `is_isomorphic` needs no clean labels -/
theorem isIsomorphic_complete (properties : Bool) (m1 m2 : MRS) (g1 g2 a1 a2 : IsoGraph)
    (hg1 : mkIsoGraph properties m1 = .ok g1) (hg2 : mkIsoGraph properties m2 = .ok g2)
    (ha1 : invMap g1 = .ok a1) (ha2 : invMap g2 = .ok a2)
    (hsz : sizesDiffer m1 m2 = false) (hiso : IsIso g1 g2) :
    isIsomorphic properties m1 m2 = .ok true := by
  rw [isIsomorphic_eq hg1 hg2 ha1 ha2]
  obtain ⟨μ, _, hv, hacc⟩ := matcher_complete g1 g2 a1 a2 ha1 ha2 (mkIsoGraph_wf hg1) (mkIsoGraph_wf hg2) hiso
  simp [hsz, hv, hacc]

/-! ## "MRS isomorphism is reflexive and symmetric, is unaffected by consistently renaming variables
and reordering predications and constraints" -/

/-- `_make_mrs_isograph` and `_vf2_inv_map` never raise (every key they use is a node, by
`_fill_variables`), so `is_isomorphic` always returns a Boolean -/
theorem isIsomorphic_total (properties : Bool) (m1 m2 : MRS) :
    ∃ b, isIsomorphic properties m1 m2 = .ok b := by
  obtain ⟨g1, hg1, hc1⟩ := mkIsoGraph_ok properties m1
  obtain ⟨g2, hg2, hc2⟩ := mkIsoGraph_ok properties m2
  have ha1 : invMap g1 = .ok (invMapRaw g1) := by simp [invMap, hc1]
  have ha2 : invMap g2 = .ok (invMapRaw g2) := by simp [invMap, hc2]
  exact ⟨_, isIsomorphic_eq hg1 hg2 ha1 ha2⟩

/-- the edge labels of the encoding graph are clean (no role or relation named `--…` / containing
` --`); the encoding graph itself always exists (`mkIsoGraph_ok`) -/
def Encodable (properties : Bool) (m : MRS) : Prop :=
  ∀ g, mkIsoGraph properties m = .ok g → cleanGraph g = true

/-- **reflexive** — for every MRS, without any hypothesis -/
theorem isIsomorphic_refl (properties : Bool) (m : MRS) : isIsomorphic properties m m = .ok true := by
  obtain ⟨g, hg, hc⟩ := mkIsoGraph_ok properties m
  have ha : invMap g = .ok (invMapRaw g) := by simp [invMap, hc]
  exact isIsomorphic_complete properties m m g g _ _ hg hg ha ha (sizesDiffer_self m)
    (isIso_refl (mkIsoGraph_wf hg).1)

/-- **symmetric** -/
theorem isIsomorphic_symm (properties : Bool) (m1 m2 : MRS)
    (h1 : Encodable properties m1) (h2 : Encodable properties m2)
    (h : isIsomorphic properties m1 m2 = .ok true) : isIsomorphic properties m2 m1 = .ok true := by
  obtain ⟨g1, hg1, hc1⟩ := mkIsoGraph_ok properties m1
  obtain ⟨g2, hg2, hc2⟩ := mkIsoGraph_ok properties m2
  have ha1 : invMap g1 = .ok (invMapRaw g1) := by simp [invMap, hc1]
  have ha2 : invMap g2 = .ok (invMapRaw g2) := by simp [invMap, hc2]
  have hsz : sizesDiffer m1 m2 = false := by
    cases hs : sizesDiffer m1 m2 with
    | false => rfl
    | true => simp [isIsomorphic, hs] at h
  have hiso := ((isIsomorphic_iff properties m1 m2 g1 g2 _ _ hg1 hg2 ha1 ha2 (h1 g1 hg1) (h2 g2 hg2) hsz).1).1 h
  exact isIsomorphic_complete properties m2 m1 g2 g1 _ _ hg2 hg1 ha2 ha1 (sizesDiffer_symm hsz)
    (isIso_symm hiso)

/-- **transitive** -/
theorem isIsomorphic_trans (properties : Bool) (m1 m2 m3 : MRS)
    (h1 : Encodable properties m1) (h2 : Encodable properties m2) (h3 : Encodable properties m3)
    (h12 : isIsomorphic properties m1 m2 = .ok true) (h23 : isIsomorphic properties m2 m3 = .ok true) :
    isIsomorphic properties m1 m3 = .ok true := by
  obtain ⟨g1, hg1, hc1⟩ := mkIsoGraph_ok properties m1
  obtain ⟨g2, hg2, hc2⟩ := mkIsoGraph_ok properties m2
  obtain ⟨g3, hg3, hc3⟩ := mkIsoGraph_ok properties m3
  have ha1 : invMap g1 = .ok (invMapRaw g1) := by simp [invMap, hc1]
  have ha2 : invMap g2 = .ok (invMapRaw g2) := by simp [invMap, hc2]
  have ha3 : invMap g3 = .ok (invMapRaw g3) := by simp [invMap, hc3]
  have hsz12 : sizesDiffer m1 m2 = false := by
    cases hs : sizesDiffer m1 m2 with
    | false => rfl
    | true => simp [isIsomorphic, hs] at h12
  have hsz23 : sizesDiffer m2 m3 = false := by
    cases hs : sizesDiffer m2 m3 with
    | false => rfl
    | true => simp [isIsomorphic, hs] at h23
  have i12 := ((isIsomorphic_iff properties m1 m2 g1 g2 _ _ hg1 hg2 ha1 ha2 (h1 g1 hg1) (h2 g2 hg2) hsz12).1).1 h12
  have i23 := ((isIsomorphic_iff properties m2 m3 g2 g3 _ _ hg2 hg3 ha2 ha3 (h2 g2 hg2) (h3 g3 hg3) hsz23).1).1 h23
  exact isIsomorphic_complete properties m1 m3 g1 g3 _ _ hg1 hg3 ha1 ha3
    (sizesDiffer_trans hsz12 hsz23) (isIso_trans i12 i23)

/-- The verdict depends only on the isomorphism classes of the two encoding graphs: replacing either
MRS by one whose encoding graph is isomorphic (and whose four sizes are the same) does not change
it.  Renaming variables and reordering predications / constraints are such replacements — THAT
step (an MRS-level renaming yields an isomorphic graph) is not proved here; the direct oracle checks
it on the real code. -/
theorem isIsomorphic_invariant (properties : Bool) (m1 m2 m1' m2' : MRS)
    (g1 g2 g1' g2' a1 a2 a1' a2' : IsoGraph)
    (hg1 : mkIsoGraph properties m1 = .ok g1) (hg2 : mkIsoGraph properties m2 = .ok g2)
    (hg1' : mkIsoGraph properties m1' = .ok g1') (hg2' : mkIsoGraph properties m2' = .ok g2')
    (ha1 : invMap g1 = .ok a1) (ha2 : invMap g2 = .ok a2)
    (ha1' : invMap g1' = .ok a1') (ha2' : invMap g2' = .ok a2')
    (hl1 : cleanGraph g1 = true) (hl2 : cleanGraph g2 = true)
    (hl1' : cleanGraph g1' = true) (hl2' : cleanGraph g2' = true)
    (hsz : sizesDiffer m1 m2 = false) (hsz' : sizesDiffer m1' m2' = false)
    (i1 : IsIso g1 g1') (i2 : IsIso g2 g2') :
    isIsomorphic properties m1 m2 = isIsomorphic properties m1' m2' := by
  have e := isIsomorphic_iff properties m1 m2 g1 g2 a1 a2 hg1 hg2 ha1 ha2 hl1 hl2 hsz
  have e' := isIsomorphic_iff properties m1' m2' g1' g2' a1' a2' hg1' hg2' ha1' ha2' hl1' hl2' hsz'
  by_cases hiso : IsIso g1 g2
  · rw [e.1.2 hiso, e'.1.2 (isIso_trans (isIso_symm i1) (isIso_trans hiso i2))]
  · have hiso' : ¬ IsIso g1' g2' := fun h =>
      hiso (isIso_trans i1 (isIso_trans h (isIso_symm i2)))
    rw [e.2.2 hiso, e'.2.2 hiso']

/-! ## "… is unaffected by consistently renaming variables and reordering predications and
constraints" — at the level of the MRS itself (equivariance of the encoding + completeness) -/

/-- **Renaming invariance.**  `renMRS σ m` is `m` with every variable `v` replaced by `σ v`; `σ` is
injective on the variables of `m`.  Hypotheses `NamesOK` (Encoding.lean) on both structures: distinct
variables have distinct names, distinct predications distinct ids (every non-quantifier predication its
own intrinsic variable, no two quantifiers over variables with the same number), a predication id is
a variable name only if it is that predication's own intrinsic variable, no label is a predication
id.  No hypothesis on edge labels (completeness does not need `cleanGraph`). -/
theorem isIsomorphic_renamed (properties : Bool) (σ : Var → Var) (m : MRS)
    (h : NamesOK m) (h' : NamesOK (renMRS σ m))
    (hσ : ∀ x ∈ rawVars m, ∀ y ∈ rawVars m, σ x = σ y → x = y) :
    isIsomorphic properties m (renMRS σ m) = .ok true := by
  obtain ⟨g, hg, hc⟩ := mkIsoGraph_ok properties m
  obtain ⟨g', hg', hc'⟩ := mkIsoGraph_ok properties (renMRS σ m)
  have ha : invMap g = .ok (invMapRaw g) := by simp [invMap, hc]
  have ha' : invMap g' = .ok (invMapRaw g') := by simp [invMap, hc']
  exact isIsomorphic_complete properties m (renMRS σ m) g g' _ _ hg hg' ha ha' (renamed_sizes hσ)
    (rename_iso properties h h' hσ hg hg')

/-- **Reordering invariance.**  `m'` has the predications, handle constraints and individual
constraints of `m` in another order (`Reordered`).  Hypotheses: predication ids distinct before
`_uniquify_ids` (`SimpleIds`), `rowsOK` (no label is a predication id), and the property's "without
parallel constraints" (`NoParallel`: two different predications / constraints never write the same
(node, target) position of the graph). -/
theorem isIsomorphic_reordered (properties : Bool) (m m' : MRS) (hr : Reordered m m')
    (hs : SimpleIds m) (hrow : rowsOK m = true) (hnp : NoParallel m) :
    isIsomorphic properties m m' = .ok true := by
  obtain ⟨g, hg, hc⟩ := mkIsoGraph_ok properties m
  obtain ⟨g', hg', hc'⟩ := mkIsoGraph_ok properties m'
  have ha : invMap g = .ok (invMapRaw g) := by simp [invMap, hc]
  have ha' : invMap g' = .ok (invMapRaw g') := by simp [invMap, hc']
  exact isIsomorphic_complete properties m m' g g' _ _ hg hg' ha ha' (reordered_sizes hr)
    (reorder_iso properties hr hs hrow hnp hg hg')

/-- both at once: a renamed and reordered copy is isomorphic -/
theorem isIsomorphic_renamed_reordered (properties : Bool) (σ : Var → Var) (m m' : MRS)
    (h : NamesOK m) (h' : NamesOK (renMRS σ m))
    (hσ : ∀ x ∈ rawVars m, ∀ y ∈ rawVars m, σ x = σ y → x = y)
    (hr : Reordered (renMRS σ m) m') (hnp : NoParallel (renMRS σ m)) :
    isIsomorphic properties m m' = .ok true := by
  obtain ⟨g, hg, hc⟩ := mkIsoGraph_ok properties m
  obtain ⟨g1, hg1, _⟩ := mkIsoGraph_ok properties (renMRS σ m)
  obtain ⟨g', hg', hc'⟩ := mkIsoGraph_ok properties m'
  have ha : invMap g = .ok (invMapRaw g) := by simp [invMap, hc]
  have ha' : invMap g' = .ok (invMapRaw g') := by simp [invMap, hc']
  exact isIsomorphic_complete properties m m' g g' _ _ hg hg' ha ha'
    (sizesDiffer_trans (renamed_sizes hσ) (reordered_sizes hr))
    (isIso_trans (rename_iso properties h h' hσ hg hg1)
      (reorder_iso properties hr h'.simple h'.rows hnp hg1 hg'))

/-! ## "a changed predicate, … constant … or property is never reported as isomorphic" — reading the
graph isomorphism back at the MRS level (node labels) -/

/-- the comparison key of a predication: normalised predicate + `(constant)` + `{PROP=val|…}` of its
intrinsic variable (the last only when properties are compared) -/
def nodeLabels (properties : Bool) (m : MRS) : List Label :=
  m.preds.map (fun q => epNodeLabel properties m q.2)

-- FULL STATEMENT (not proved): isIsomorphic properties m1 m2 = .ok true → there are a bijection of the
--   variables and a bijection of the predications of m1 and m2 that preserve node labels, labels (scope
--   membership), every role-labelled argument, every handle and individual constraint.
-- Proved here: the predication bijection with its node labels.  Missing for the rest: reading EDGES back
-- from `mkIsoGraph_edge` — it needs the three label alphabets to be disjoint (`eq-scope`, role names,
-- constraint relations) and the inverse of the `' '.join(sorted(roles))` merge; the direct oracle's
-- exhaustive search on the MRS objects carries those clauses.
/-- Whenever `is_isomorphic` answers `True` (clean edge labels, distinct predication ids, no label
that is a predication id), the two MRSs have the same multiset of predication node labels. -/
theorem faithful_labels_partial (properties : Bool) (m1 m2 : MRS)
    (hr1 : rowsOK m1 = true) (hr2 : rowsOK m2 = true)
    (hc1 : Encodable properties m1) (hc2 : Encodable properties m2)
    (h : isIsomorphic properties m1 m2 = .ok true) :
    (nodeLabels properties m1).Perm (nodeLabels properties m2) := by
  obtain ⟨g1, g2, hg1, hg2, hiso⟩ := isIsomorphic_sound properties m1 m2 h
  obtain ⟨μ, hμ⟩ := hiso (hc1 g1 hg1) (hc2 g2 hg2)
  exact labels_perm hr1 hr2 hg1 hg2 hμ

/-- … hence: if ONE predication's node label is changed (its predicate, its constant, or — with
properties compared — a property value of its intrinsic variable) and nothing else, the answer is
`False`. -/
theorem single_label_change_rejected (properties : Bool) (m1 m2 : MRS)
    (hr1 : rowsOK m1 = true) (hr2 : rowsOK m2 = true)
    (hc1 : Encodable properties m1) (hc2 : Encodable properties m2)
    (A B : List Label) (a b : Label) (hab : a ≠ b)
    (h1 : nodeLabels properties m1 = A ++ a :: B) (h2 : nodeLabels properties m2 = A ++ b :: B) :
    isIsomorphic properties m1 m2 = .ok false := by
  obtain ⟨v, hv⟩ := isIsomorphic_total properties m1 m2
  cases v with
  | false => exact hv
  | true =>
    exfalso
    have hp := faithful_labels_partial properties m1 m2 hr1 hr2 hc1 hc2 hv
    rw [h1, h2] at hp
    have := hp.count_eq a
    simp only [List.count_append, List.count_cons_self, List.count_cons_of_ne (Ne.symm hab)] at this
    omega

/-! ## "MRS isomorphism … its verdict equals that of an exhaustive search for a structure-preserving
bijection over predicates, constants, role-labelled arguments, labels, handle and individual
constraints and (when requested) morphosemantic properties" — faithfulness of the encoding -/

-- `MRSIso` (Spec.lean) is defined without any graph: a bijection σ of the variables, a pairing of the
-- predications with equal normalised predicate / constant / canonical property text, σ-related labels and
-- role-labelled arguments, and σ-related handle and individual constraints.
/-- **Faithfulness.**  Whenever `is_isomorphic` answers `True` on two structures of the input space
(`InSpace`, Spec.lean: `NamesOK`, `NoParallel`, role names without blank or lower-case letter and
distinct per predication, handle-constraint relations among qeq/lheq/outscopes, individual-constraint
relations lower-case and different from those and from `eq-scope`, no `(`/`{` in a normalised
predicate, no `)` in a constant, clean edge labels; property names without lower-case letter, `=` or `|`, values without `|`, names distinct), the
two structures are isomorphic MRSs.  Properties: those of intrinsic (for quantifiers: bound) variables only —
properties of variables that occur only as arguments are compared neither by the code nor by `MRSIso`. -/
theorem isIsomorphic_imp_mrsIso (properties : Bool) (m1 m2 : MRS)
    (h1 : InSpace properties m1) (h2 : InSpace properties m2)
    (h : isIsomorphic properties m1 m2 = .ok true) : MRSIso properties m1 m2 := by
  obtain ⟨g1, g2, hg1, hg2, hiso⟩ := isIsomorphic_sound properties m1 m2 h
  obtain ⟨μ, hμ⟩ := hiso (h1.clean g1 hg1) (h2.clean g2 hg2)
  exact mrsIso_of_graphIso h1 h2 hg1 hg2 hμ

/-- … so a structure that is NOT an isomorphic MRS (a changed predicate, argument, constant,
constraint or property) is reported `False` -/
theorem not_mrsIso_rejected (properties : Bool) (m1 m2 : MRS)
    (h1 : InSpace properties m1) (h2 : InSpace properties m2) (hn : ¬ MRSIso properties m1 m2) :
    isIsomorphic properties m1 m2 = .ok false := by
  obtain ⟨v, hv⟩ := isIsomorphic_total properties m1 m2
  cases v with
  | false => exact hv
  | true => exact absurd (isIsomorphic_imp_mrsIso properties m1 m2 h1 h2 hv) hn

/-- **Completeness at the MRS level**: isomorphic MRSs of the input space are reported `True`.  The
graph isomorphism is built from the variable bijection and the pairing of the predications; that the
merged role label `' '.join(sorted(roles))` does not depend on the order of the argument dict uses
that insertion sort is canonical (`sorted_perm_eq`). -/
theorem mrsIso_imp_isIsomorphic (properties : Bool) (m1 m2 : MRS)
    (h1 : InSpace properties m1) (h2 : InSpace properties m2) (h : MRSIso properties m1 m2) :
    isIsomorphic properties m1 m2 = .ok true := by
  obtain ⟨g1, hg1, hc1⟩ := mkIsoGraph_ok properties m1
  obtain ⟨g2, hg2, hc2⟩ := mkIsoGraph_ok properties m2
  have ha1 : invMap g1 = .ok (invMapRaw g1) := by simp [invMap, hc1]
  have ha2 : invMap g2 = .ok (invMapRaw g2) := by simp [invMap, hc2]
  exact isIsomorphic_complete properties m1 m2 g1 g2 _ _ hg1 hg2 ha1 ha2 (sizes_of_mrsIso h)
    (graphIso_of_mrsIso h1 h2 hg1 hg2 h)

/-- **The property's first sentence, for the model:** on the input space, `is_isomorphic` answers
`True` exactly on isomorphic MRSs (and `False` on all others; it never raises). -/
theorem isIsomorphic_iff_mrsIso (properties : Bool) (m1 m2 : MRS)
    (h1 : InSpace properties m1) (h2 : InSpace properties m2) :
    (isIsomorphic properties m1 m2 = .ok true ↔ MRSIso properties m1 m2)
    ∧ (isIsomorphic properties m1 m2 = .ok false ↔ ¬ MRSIso properties m1 m2) := by
  refine ⟨⟨isIsomorphic_imp_mrsIso properties m1 m2 h1 h2, mrsIso_imp_isIsomorphic properties m1 m2 h1 h2⟩,
    ⟨?_, not_mrsIso_rejected properties m1 m2 h1 h2⟩⟩
  intro hf hiso
  rw [mrsIso_imp_isIsomorphic properties m1 m2 h1 h2 hiso] at hf
  cases hf

/-- "isomorphic MRSs pass the four size pre-checks": equal numbers of predications, handle
constraints, individual constraints and variables -/
theorem mrsIso_passes_size_checks (properties : Bool) (m1 m2 : MRS) (h : MRSIso properties m1 m2) :
    sizesDiffer m1 m2 = false := sizes_of_mrsIso h

/-! ## "Comparing two bags of MRSs returns counts with unique-test + shared = size of test and
shared + unique-gold = size of gold" -/

/-- for ANY comparison predicate `iso` (so in particular whatever `is_isomorphic` computes) -/
theorem compareBags_partition {α : Type} (iso : α → α → Bool) (test gold : List α) :
    (compareBags iso test gold).1 + (compareBags iso test gold).2.1 = test.length
    ∧ (compareBags iso test gold).2.1 + (compareBags iso test gold).2.2 = gold.length := by
  have := foldl_bagStep_counts iso test ([], [], gold)
  simpa [compareBags, compareBagsLists] using this

/-! ## "a bag compared with a renamed, shuffled copy of itself is entirely shared" -/

/-- greedy first-match is a perfect matching when `iso` is an equivalence relation and every class
has equally many members on both sides -/
theorem compareBags_perfect {α : Type} (iso : α → α → Bool)
    (refl : ∀ a, iso a a = true) (symm : ∀ a b, iso a b = true → iso b a = true)
    (trans : ∀ a b c, iso a b = true → iso b c = true → iso a c = true)
    (test gold : List α) (hcount : ∀ x, test.countP (iso x) = gold.countP (iso x)) :
    compareBags iso test gold = (0, test.length, 0) := by
  simp [compareBags, compareBagsLists, foldl_bagStep_perfect iso refl symm trans test [] [] gold hcount]

/-- the clause as worded: `gold` is a shuffled (`Perm`) list of copies `f t` of the members of `test`,
each copy isomorphic to its original (`f` = renaming variables, reordering predications).  The instance
for `is_isomorphic` itself is `compareBags_mrs_renamed_copy` below. -/
theorem compareBags_renamed_copy {α : Type} (iso : α → α → Bool)
    (refl : ∀ a, iso a a = true) (symm : ∀ a b, iso a b = true → iso b a = true)
    (trans : ∀ a b c, iso a b = true → iso b c = true → iso a c = true)
    (test gold : List α) (f : α → α) (hcopy : ∀ t ∈ test, iso t (f t) = true)
    (hshuffle : (test.map f).Perm gold) :
    compareBags iso test gold = (0, test.length, 0) := by
  apply compareBags_perfect iso refl symm trans
  intro x
  rw [← hshuffle.countP_eq]
  clear hshuffle
  induction test with
  | nil => rfl
  | cons t ts ih =>
    have h := hcopy t List.mem_cons_self
    have hx : iso x t = iso x (f t) := by
      cases hxt : iso x t with
      | true => exact (trans _ _ _ hxt h).symm
      | false =>
        cases hxc : iso x (f t) with
        | false => rfl
        | true =>
          have := trans _ _ _ hxc (symm _ _ h)
          rw [hxt] at this; cases this
    have ih' := ih (fun t ht => hcopy t (List.mem_cons_of_mem _ ht))
    simp only [List.map_cons, List.countP_cons, ih', hx]

/-- `is_isomorphic` as the comparison predicate of `compare_bags`, on encodable MRSs -/
def isoB (properties : Bool) (a b : {m : MRS // Encodable properties m}) : Bool :=
  match isIsomorphic properties a.1 b.1 with
  | .ok true => true
  | _ => false

/-- "a bag compared with a renamed, shuffled copy of itself is entirely shared", for `is_isomorphic`
itself: `gold` is a shuffled list of copies `f t` that `is_isomorphic` accepts as isomorphic to their
originals.  The equivalence-relation hypotheses of `compareBags_renamed_copy` are discharged by
`isIsomorphic_refl/_symm/_trans`. -/
theorem compareBags_mrs_renamed_copy (properties : Bool)
    (test gold : List {m : MRS // Encodable properties m})
    (f : {m : MRS // Encodable properties m} → {m : MRS // Encodable properties m})
    (hcopy : ∀ t ∈ test, isIsomorphic properties t.1 (f t).1 = .ok true)
    (hshuffle : (test.map f).Perm gold) :
    compareBags (isoB properties) test gold = (0, test.length, 0) := by
  have hb : ∀ a b, isoB properties a b = true ↔ isIsomorphic properties a.1 b.1 = .ok true := by
    intro a b
    unfold isoB
    cases h : isIsomorphic properties a.1 b.1 with
    | error e => simp
    | ok v => cases v <;> simp
  apply compareBags_renamed_copy (isoB properties) _ _ _ test gold f _ hshuffle
  · intro a
    exact (hb a a).2 (isIsomorphic_refl properties a.1)
  · intro a b h
    exact (hb b a).2 (isIsomorphic_symm properties a.1 b.1 a.2 b.2 ((hb a b).1 h))
  · intro a b c h1 h2
    exact (hb a c).2 (isIsomorphic_trans properties a.1 b.1 c.1 a.2 b.2 c.2 ((hb a b).1 h1) ((hb b c).1 h2))
  · intro t ht
    exact (hb t (f t)).2 (hcopy t ht)

/-- **The property's bag sentence**: a bag compared with a renamed, shuffled copy of itself is entirely
shared.  Every member `t` of `test` has a copy `f t` obtained by an injective renaming `σ` of its
variables followed by a reordering of predications and constraints; `gold` is a permutation of these
copies.  Hypotheses per member: those of `isIsomorphic_renamed_reordered`. -/
theorem compareBags_mrs_renamed_reordered (properties : Bool)
    (test gold : List {m : MRS // Encodable properties m})
    (f : {m : MRS // Encodable properties m} → {m : MRS // Encodable properties m})
    (hcopy : ∀ t ∈ test, ∃ σ : Var → Var, NamesOK t.1 ∧ NamesOK (renMRS σ t.1)
      ∧ (∀ x ∈ rawVars t.1, ∀ y ∈ rawVars t.1, σ x = σ y → x = y)
      ∧ Reordered (renMRS σ t.1) (f t).1 ∧ NoParallel (renMRS σ t.1))
    (hshuffle : (test.map f).Perm gold) :
    compareBags (isoB properties) test gold = (0, test.length, 0) := by
  apply compareBags_mrs_renamed_copy properties test gold f _ hshuffle
  intro t ht
  obtain ⟨σ, h, h', hσ, hr, hnp⟩ := hcopy t ht
  exact isIsomorphic_renamed_reordered properties σ t.1 (f t).1 h h' hσ hr hnp

/-! ## non-vacuity and regression instances (tests, labelled as such) -/

section Examples

/-- `[p ARG0 e1 ARG1 x2] [q ARG0 x2 ARG1 e1]` (two predications taking each other's variable) -/
def gMutual : IsoGraph :=
  [("h1", [(some "e1", eqScope), (some "x2", eqScope)]),
   ("e1", [(none, "_p_v_1".toList), (some "e1", "ARG0".toList), (some "x2", "ARG1".toList)]),
   ("x2", [(none, "_q_n_1".toList), (some "x2", "ARG0".toList), (some "e1", "ARG1".toList)])]

/-- the same without q's ARG1 (witness of the repaired finding F24) -/
def gMutualDropped : IsoGraph :=
  [("h1", [(some "e1", eqScope), (some "x2", eqScope)]),
   ("e1", [(none, "_p_v_1".toList), (some "e1", "ARG0".toList), (some "x2", "ARG1".toList)]),
   ("x2", [(none, "_q_n_1".toList), (some "x2", "ARG0".toList)])]

/-- a renamed copy of `gMutual` -/
def gMutualRenamed : IsoGraph :=
  [("x7", [(none, "_q_n_1".toList), (some "x7", "ARG0".toList), (some "e9", "ARG1".toList)]),
   ("h4", [(some "x7", eqScope), (some "e9", eqScope)]),
   ("e9", [(none, "_p_v_1".toList), (some "e9", "ARG0".toList), (some "x7", "ARG1".toList)])]

-- the hypotheses of `matcher_sound` are satisfiable and its conclusion is reached
example : cleanGraph gMutual = true ∧ cleanGraph gMutualRenamed = true := by decide
example : (invMap gMutual).toOption.isSome = true := by decide
example : accept (vf2 (invMapRaw gMutual) (invMapRaw gMutualRenamed)) (invMapRaw gMutual) = true := by decide
-- the hypotheses of the exactness / completeness theorems are satisfiable, and a renamed copy is
-- isomorphic in the sense of the specification
example : IsIso gMutual gMutualRenamed :=
  (accept_vf2_iff (g1 := gMutual) (g2 := gMutualRenamed) (by decide) (by decide)
    ⟨by decide, by decide⟩ ⟨by decide, by decide⟩ (by decide) (by decide) (by intro h; cases h)).1 (by decide)
example : ¬ IsIso gMutual gMutualDropped := fun h =>
  absurd ((accept_vf2_iff (g1 := gMutual) (g2 := gMutualDropped) (by decide) (by decide)
    ⟨by decide, by decide⟩ ⟨by decide, by decide⟩ (by decide) (by decide) (by intro h; cases h)).2 h) (by decide)
-- F24 regression: after the repair the two edges between e1 and x2 carry both labels and the
-- structure with the dropped argument is rejected, in both argument orders
example : vf2 (invMapRaw gMutual) (invMapRaw gMutualDropped) = [] := by decide
example : vf2 (invMapRaw gMutualDropped) (invMapRaw gMutual) = [] := by decide
example : edge (invMapRaw gMutual) "e1" (some "x2") = some "ARG1 --ARG1".toList := by decide
-- F25 regression: self-loop labels are compared
example : vf2 (invMapRaw [("x1", [(none, ['p']), (some "x1", "ARG0 ARG1".toList)])])
              (invMapRaw [("x1", [(none, ['p']), (some "x1", "ARG0 ARG2".toList)])]) = [] := by decide
-- why clean labels are assumed: a role literally named `--B` makes two different structures
-- produce the same augmented label
example : combine (some "+A --B".toList) none = combine (some "+A".toList) (some "B".toList) := by decide
-- greedy bag comparison on numbers modulo 3
example : compareBags (fun a b : Nat => a % 3 == b % 3) [1, 2, 4, 9] [7, 3, 5, 5] = (1, 3, 1) := by decide

/-- node `b` (a predication) has the roles `+A` and `--B`, both to `a` -/
def gUnclean1 : IsoGraph :=
  [("b", [(none, ['p']), (some "a", "+A --B".toList)]), ("a", [(none, ['x'])])]
/-- `b` has the role `+A` to `a`, and `a` has the role `B` to `b` -/
def gUnclean2 : IsoGraph :=
  [("b", [(none, ['p']), (some "a", "+A".toList)]), ("a", [(none, ['x']), (some "b", "B".toList)])]

/-- The side condition `cleanGraph` of the soundness theorems cannot be dropped: with a role literally
named `--B` (next to `+A`, which sorts before it) two different structures receive the same augmented
label on the only edge the matcher compares; the returned mapping is complete and accepted although
the edge `a → b` exists on one side only.  (Real code: `is_isomorphic` answers `True` on
`[p ARG0 x9, +A e1, --B e1][q ARG0 e1]` vs `[p ARG0 x9, +A e1][q ARG0 e1, B x9]`.) -/
theorem cleanLabels_needed :
    accept (vf2 (invMapRaw gUnclean1) (invMapRaw gUnclean2)) (invMapRaw gUnclean1) = true
    ∧ (vf2 (invMapRaw gUnclean1) (invMapRaw gUnclean2)).length = gUnclean2.length
    ∧ edge gUnclean1 "a" (some "b") ≠ edge gUnclean2 "a" (some "b")
    ∧ cleanGraph gUnclean1 = false := by decide


/-! ### a concrete pair on each side (everything evaluated by `decide`) -/
section MRSExamples
private def vH (n : Nat) : Var := ⟨"h", n⟩
private def vX (n : Nat) : Var := ⟨"x", n⟩
private def vE (n : Nat) : Var := ⟨"e", n⟩

/-- "The dog barks": `_the_q(x3, RSTR h5)`, `_dog_n_1(x3)`, `_bark_v_1(e2, ARG1 x3)` -/
def mDog : MRS :=
  { top := some (vH 0)
    index := some (vE 2)
    rels := [{ predicate := "_the_q", label := vH 4, args := [("ARG0", vX 3), ("RSTR", vH 5), ("BODY", vH 6)] },
             { predicate := "_dog_n_1", label := vH 7, args := [("ARG0", vX 3)] },
             { predicate := "_bark_v_1", label := vH 1, args := [("ARG0", vE 2), ("ARG1", vX 3)] }]
    hcons := [⟨vH 0, "qeq", vH 1⟩, ⟨vH 5, "qeq", vH 7⟩]
    variables := [(vX 3, [("PERS", "3"), ("NUM", "sg")]), (vE 2, [("TENSE", "pres")])] }

/-- the same reading with other variable names, predications and constraints in another order,
another spelling of one predicate, other property order and value case -/
def mDogRenamed : MRS :=
  { top := some (vH 10)
    index := some (vE 9)
    rels := [{ predicate := "_bark_v_1", label := vH 2, args := [("ARG0", vE 9), ("ARG1", vX 8)] },
             { predicate := "\"_DOG_n_1_rel\"", label := vH 3, args := [("ARG0", vX 8)] },
             { predicate := "_the_q", label := vH 1, args := [("ARG0", vX 8), ("RSTR", vH 4), ("BODY", vH 5)] }]
    hcons := [⟨vH 4, "qeq", vH 3⟩, ⟨vH 10, "qeq", vH 2⟩]
    variables := [(vE 9, [("TENSE", "PRES")]), (vX 8, [("NUM", "SG"), ("PERS", "3")])] }

/-- one property value changed -/
def mDogPlural : MRS :=
  { mDogRenamed with variables := [(vE 9, [("TENSE", "PRES")]), (vX 8, [("NUM", "PL"), ("PERS", "3")])] }

example : inSpaceb true mDog = true ∧ inSpaceb true mDogRenamed = true ∧ inSpaceb true mDogPlural = true := by
  decide
-- isomorphic side: the verdict is True, hence (by the theorem) the two are isomorphic MRSs
example : (isIsomorphic true mDog mDogRenamed).toOption = some true := by decide
example : MRSIso true mDog mDogRenamed := by
  apply isIsomorphic_imp_mrsIso true _ _ (inSpace_of_b (by decide)) (inSpace_of_b (by decide))
  have : (isIsomorphic true mDog mDogRenamed).toOption = some true := by decide
  cases h : isIsomorphic true mDog mDogRenamed with
  | error e => rw [h] at this; cases this
  | ok v => rw [h] at this; cases v <;> simp_all [Except.toOption]
-- non-isomorphic side: a changed property value is rejected when properties are compared, and accepted
-- when they are not
example : (isIsomorphic true mDog mDogPlural).toOption = some false := by decide
example : (isIsomorphic false mDog mDogPlural).toOption = some true := by decide
-- … hence (by the theorem) they are NOT isomorphic MRSs when properties count
example : ¬ MRSIso true mDog mDogPlural := by
  intro h
  have ht := mrsIso_imp_isIsomorphic true _ _ (inSpace_of_b (by decide)) (inSpace_of_b (by decide)) h
  have : (isIsomorphic true mDog mDogPlural).toOption = some false := by decide
  rw [ht] at this
  cases this
end MRSExamples

end Examples

/-! ## Pins: the names and constants of the anchored functions that the hand-written model mirrors

`Generated/TablesC06.lean` is rewritten on every run from the live code objects of /repo
(`co_names`, `co_consts` incl. the nested generator expressions, `__defaults__`; docstrings dropped;
non-string constants by their `repr`).  Which model definition hand-codes which of them:

* `c06IsIsomorphic…` — `Model.sizesDiffer` / `isIsomorphic`: the four size pre-checks are exactly
  `len` of `rels`, `hcons`, `icons`, `variables`; then `_make_mrs_isograph` twice, `util._vf2`,
  `set(iso) == set(g1)` (`accept`); the early `return False`; default `properties=True` (the harness
  always passes `properties` explicitly, so only this pin sees a changed default).
* `c06MakeIsograph…` — `Model.mkIsoGraph` / `addEP` / `epNodeLabel` / `propString` / `eqScope`:
  `'eq-scope'`, the `(`carg`)` and `{`P`=`v`|`…`}` label formats, `sorted(props, key=property_priority)`,
  `prop.upper()` / `val.lower()` (`upperC` / `lowerC`), `predicate.normalize`, `mrs.CONSTANT_ROLE`,
  `g[id].get(tgt, '').split()` and `' '.join(sorted(roles))` (`splitSp`, `sortLabels`, `joinWith [' ']`),
  `hc.hi/lo/relation`, `ic.left/right/relation`.
* `c06CompareBags…` — `Model.bagStep` / `compareBags`: `list(goldbag)`, first match by `is_isomorphic`
  with `properties=` passed on, `remove`, `append`, `len`; defaults `properties=True, count_only=True`.
* `c06Vf2…` — `Model.search` / `vf2`; `c06InvMap…` — `Model.invPrefix` (`'--'`), the `' '` merge separator
  of `augLabel`, `incoming`; `c06Feasible…` — `Model.feasible` (`.get(None, '')`, `len`, `_vf2_new`,
  `_vf2_consistent`); `c06New…` — the vacuous look-ahead (`feasible`'s doc comment); `c06Consistent…`
  — `Model.consistent`; `c06Candidates…` — `Model.candidates` (`min`, `sorted(…, reverse=True)` popped
  from the end = ascending `sortDedup`).
* `c06Normalize…`, `c06StripPredicate…` — `Model.normalizePred` / `stripPredicate`: `lower` (not
  `casefold`), the quote characters, `s[1:-1]`, `s[1:]`, `s[-4:]`, `'_rel'`.
* `c06PropertyPriority…`, `commonProperties`, `c06CommonPropertyIndex` — `Model.propIndex` / `propKeyLt`.
* `c06FillVariables…` — `Model.filledVars`; `c06UniquifyIds…` — `Verif.Sem.uniquify` / `maxVid`
  (`'_{}'`, `default=0`); `c06Roles` — `Verif.Sem.CONSTANT_ROLE/INTRINSIC_ROLE/RESTRICTION_ROLE` and the
  quantifier id prefix `q` of `Verif.Sem.EP.baseId`.

A change to any of them must be followed in the model: this theorem stops checking, which the check
reports as a broken proof obligation and then searches for a failing input. -/
section Pins
open Verif.Tables

theorem c06_pins :
    c06IsIsomorphicNames = ["len", "rels", "hcons", "icons", "variables", "_make_mrs_isograph", "util", "_vf2", "set"]
    ∧ c06IsIsomorphicConsts = ["False"]
    ∧ c06IsIsomorphicDefaults = ["True"]
    ∧ c06MakeIsographNames = ["update", "variables", "rels", "label", "id", "get", "iv", "args", "carg", "predicate",
        "normalize", "sorted", "property_priority", "append", "upper", "lower", "join", "mrs", "CONSTANT_ROLE",
        "split", "hcons", "relation", "hi", "lo", "icons", "left", "right", "<genexpr>", "<genexpr>", "id"]
    ∧ c06MakeIsographConsts = ["eq-scope", "(", ")", "('key',)", "=", "{", "|", "}", "", " ", "<genexpr>", "<genexpr>"]
    ∧ c06CompareBagsNames = ["list", "is_isomorphic", "remove", "append", "len"]
    ∧ c06CompareBagsConsts = ["None", "('properties',)"]
    ∧ c06CompareBagsDefaults = ["True", "True"]
    ∧ c06Vf2Names = ["_vf2_inv_map", "_vf2_candidates", "len", "pop", "_vf2_feasible", "append"]
    ∧ c06Vf2Consts = ["None", "False", "True"]
    ∧ c06InvMapNames = ["items"]
    ∧ c06InvMapConsts = ["None", String.ofList invPrefix, " "]
    ∧ c06FeasibleNames = ["items", "get", "len", "_vf2_new", "_vf2_consistent"]
    ∧ c06FeasibleConsts = ["", "False", "True"]
    ∧ c06NewNames = ["set", "pop", "append", "add"]
    ∧ c06NewConsts = []
    ∧ c06ConsistentNames = ["items"]
    ∧ c06ConsistentConsts = ["False", "True"]
    ∧ c06CandidatesNames = ["set", "values", "items", "update", "min", "sorted", "<genexpr>", "<genexpr>"]
    ∧ c06CandidatesConsts = ["True", "('reverse',)", "<genexpr>", "<genexpr>"]
    ∧ c06NormalizeNames = ["_strip_predicate", "lower"]
    ∧ c06NormalizeConsts = []
    ∧ c06StripPredicateNames = ["startswith", "endswith", "lower"]
    ∧ c06StripPredicateConsts = ["\"", "1", "-1", "'", "None", "-4", "_rel"]
    ∧ c06PropertyPriorityNames = ["_COMMON_PROPERTY_INDEX", "get", "upper", "len", "_COMMON_PROPERTIES"]
    ∧ c06PropertyPriorityConsts = []
    ∧ commonProperties = ["PERS", "NUM", "GEND", "IND", "PT", "PRONTYPE", "SF", "TENSE", "MOOD", "PROG", "PERF",
        "ASPECT", "PASS"]
    ∧ c06CommonPropertyIndex = ["PERS=0", "NUM=1", "GEND=2", "IND=3", "PT=4", "PRONTYPE=5", "SF=6", "TENSE=7",
        "MOOD=8", "PROG=9", "PERF=10", "ASPECT=11", "PASS=12"]
    ∧ c06FillVariablesNames = ["label", "args", "items", "CONSTANT_ROLE", "lo", "hi", "left", "right"]
    ∧ c06FillVariablesConsts = []
    ∧ c06UniquifyIdsNames = ["max", "set", "id", "format", "add", "<genexpr>", "iv", "variable", "id"]
    ∧ c06UniquifyIdsConsts = ["0", "('default',)", "_{}", "1", "<genexpr>"]
    ∧ c06Roles = [CONSTANT_ROLE, INTRINSIC_ROLE, RESTRICTION_ROLE, "q"]
    ∧ c06MakeIsographConsts.head? = some (String.ofList eqScope) := by
  refine ⟨?_, ?_, ?_, ?_, ?_, ?_, ?_, ?_, ?_, ?_, ?_, ?_, ?_, ?_, ?_, ?_, ?_, ?_, ?_, ?_, ?_, ?_, ?_, ?_, ?_,
    ?_, ?_, ?_, ?_, ?_, ?_, ?_, ?_, ?_⟩ <;> decide

end Pins

end Verif.C06
