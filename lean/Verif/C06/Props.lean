/-
C06 — property theorems: "MRS isomorphism is exact and renaming-invariant; bag comparison partitions".

Only statements and their assembly from `Lemmas.lean` live here.

What is proved for ALL inputs of the model
  * soundness of the matcher ("a changed predicate, argument, constant, constraint or property is
    never reported as isomorphic"): every complete mapping `_vf2` returns, and hence every `True` of
    `is_isomorphic`, is a label- and edge-preserving bijection between the two encoding graphs
    (`matcher_sound`, `vf2_sound`, `isIsomorphic_sound`);
  * the search never gives up while a feasible extension exists (`completeness_partial`);
  * bag comparison: the two counting identities for ANY comparison predicate, and "a bag compared with
    a renamed, shuffled copy of itself is entirely shared" for any equivalence relation
    (`compareBags_partition`, `compareBags_perfect`, `compareBags_renamed_copy`).
What is NOT proved (decided by the direct oracle of harness/c06.py on the real code): completeness of
the matcher (no false negatives, hence reflexivity, symmetry, invariance under renaming/reordering)
and the reading of a graph isomorphism as an MRS isomorphism.
-/
import Verif.C06.Lemmas

namespace Verif.C06
open Verif.Sem

/-! ## the specification: a structure-preserving bijection -/

/-- `μ` (a list of pairs `(n, m)`) is a bijection from the nodes of `g1` onto the nodes of `g2` that
preserves node labels (predicate, constant, properties) and edge labels (roles, scope membership,
constraints) — in both directions, self loops included, absent edges mapped to absent edges.
`g1`, `g2` are the graphs of `_make_mrs_isograph`, BEFORE inverse edges are added. -/
structure IsIsoVia (μ : Mapping) (g1 g2 : IsoGraph) : Prop where
  functional : (μ.map (·.1)).Nodup
  injective : (μ.map (·.2)).Nodup
  total : ∀ n, n ∈ dkeys g1 ↔ n ∈ μ.map (·.1)
  onto : ∀ m, m ∈ dkeys g2 ↔ m ∈ μ.map (·.2)
  nodeLabel : ∀ p ∈ μ, (edge g1 p.1 none).getD [] = (edge g2 p.2 none).getD []
  edgeLabel : ∀ p ∈ μ, ∀ q ∈ μ, edge g1 p.1 (some q.1) = edge g2 p.2 (some q.2)

/-! ## "… so a changed predicate, argument, constant, constraint or property is never reported as
isomorphic" — soundness of the matcher -/

/-- Every complete mapping found by the search that passes the final test `set(iso) == set(g1)` is a
label- and edge-preserving bijection of the two graphs.  Hypotheses: both `_vf2_inv_map` calls
succeeded; no edge label starts with `--` or contains ` --`
(the marker `_vf2_inv_map` uses for inverse edges — without this two different pairs of opposite
labels can be concatenated to the same string). -/
theorem matcher_sound (g1 g2 a1 a2 : IsoGraph)
    (h1 : invMap g1 = .ok a1) (h2 : invMap g2 = .ok a2)
    (hl1 : cleanGraph g1 = true) (hl2 : cleanGraph g2 = true)
    (μ : Mapping) (hs : search a1 a2 a2.length [] = some μ) (hacc : accept μ a1 = true) :
    IsIsoVia μ g1 g2 := by
  unfold invMap at h1 h2
  by_cases hc1 : closed g1 = true
  · by_cases hc2 : closed g2 = true
    · simp only [hc1, hc2, if_true, Except.ok.injEq] at h1 h2
      subst h1; subst h2
      obtain ⟨hg, hlen⟩ := search_sound hc1 hc2 hl1 hl2 _ [] μ (good_nil g1 g2) hs
      simp only [accept, Bool.and_eq_true, List.all_eq_true, List.contains_iff_mem] at hacc
      rw [dkeys_invMapRaw] at hacc
      refine ⟨hg.keysNodup, hg.valsNodup, ?_, ?_, hg.nodeLbl, hg.edges⟩
      · intro n
        constructor
        · exact hacc.2 n
        · intro hn
          obtain ⟨p, hp, rfl⟩ := List.mem_map.1 hn
          exact hacc.1 p hp
      · intro m
        constructor
        · intro hm
          refine nodup_covers (μ.map (·.2)) (dkeys g2) hg.valsNodup ?_ ?_ m hm
          · intro a ha
            obtain ⟨p, hp, rfl⟩ := List.mem_map.1 ha
            exact hg.valsIn p hp
          · simp only [List.length_nil, Nat.zero_add, length_invMapRaw] at hlen
            simp [dkeys, hlen]
        · intro hm
          obtain ⟨p, hp, rfl⟩ := List.mem_map.1 hm
          exact hg.valsIn p hp
    · simp [hc2] at h2
  · simp [hc1] at h1

/-- The same for the function `_vf2` itself: whenever the mapping it returns is complete
(`len(mapping) == len(g2)`) and covers `g1`, it is a structure-preserving bijection. -/
theorem vf2_sound (g1 g2 a1 a2 : IsoGraph)
    (h1 : invMap g1 = .ok a1) (h2 : invMap g2 = .ok a2)
    (hl1 : cleanGraph g1 = true) (hl2 : cleanGraph g2 = true)
    (hlen : (vf2 a1 a2).length = a2.length) (hacc : accept (vf2 a1 a2) a1 = true) :
    IsIsoVia (vf2 a1 a2) g1 g2 := by
  cases hs : search a1 a2 a2.length [] with
  | some μ =>
    have hv : vf2 a1 a2 = μ := by simp [vf2, hs]
    rw [hv] at hacc ⊢
    exact matcher_sound g1 g2 a1 a2 h1 h2 hl1 hl2 μ hs hacc
  | none =>
    -- the failed search returns the empty mapping; complete means `g2` is empty, but then the
    -- search succeeds at once
    exfalso
    have hv : vf2 a1 a2 = [] := by simp [vf2, hs]
    rw [hv] at hlen
    have : a2.length = 0 := by simpa using hlen.symm
    rw [this] at hs
    simp [search] at hs

/-- **Main clause.**  Whenever `is_isomorphic(m1, m2, properties)` answers `True`, the two encoding
graphs exist and (their edge labels being clean) there is a bijection between their nodes —
variables and predications — that preserves node labels (normalised predicate, constant,
properties when requested) and every labelled edge (role-labelled arguments, scope membership,
handle and individual constraints).  No hypothesis on the MRSs: the degenerate case of a failed
search on an empty graph is excluded by the size pre-checks. -/
theorem isIsomorphic_sound (properties : Bool) (m1 m2 : MRS)
    (h : isIsomorphic properties m1 m2 = .ok true) :
    ∃ g1 g2, mkIsoGraph properties m1 = .ok g1 ∧ mkIsoGraph properties m2 = .ok g2 ∧
      (cleanGraph g1 = true → cleanGraph g2 = true → ∃ μ, IsIsoVia μ g1 g2) := by
  unfold isIsomorphic at h
  by_cases hsz : sizesDiffer m1 m2 = true
  · simp [hsz] at h
  · simp only [hsz, Bool.false_eq_true, if_false, bind, Except.bind] at h
    cases hg1 : mkIsoGraph properties m1 with
    | error e => simp [hg1] at h
    | ok g1 =>
      cases hg2 : mkIsoGraph properties m2 with
      | error e => simp [hg1, hg2] at h
      | ok g2 =>
        cases ha1 : invMap g1 with
        | error e => simp [hg1, hg2, ha1] at h
        | ok a1 =>
          cases ha2 : invMap g2 with
          | error e => simp [hg1, hg2, ha1, ha2] at h
          | ok a2 =>
            simp only [hg1, hg2, ha1, ha2, Except.ok.injEq] at h
            refine ⟨g1, g2, rfl, rfl, fun hl1 hl2 => ?_⟩
            cases hs : search a1 a2 a2.length [] with
            | some μ =>
              have hv : vf2 a1 a2 = μ := by simp [vf2, hs]
              rw [hv] at h
              exact ⟨μ, matcher_sound g1 g2 a1 a2 ha1 ha2 hl1 hl2 μ hs h⟩
            | none =>
              exfalso
              have hv : vf2 a1 a2 = [] := by simp [vf2, hs]
              rw [hv] at h
              -- `set({}) == set(g1)`: the first graph has no node …
              have hk1 : dkeys a1 = [] := by
                simp only [accept, List.all_nil, Bool.true_and, List.map_nil, List.contains_nil,
                  List.all_eq_true] at h
                cases hd : dkeys a1 with
                | nil => rfl
                | cons x xs =>
                  have := h x (by rw [hd]; exact List.mem_cons_self)
                  cases this
              have ha1' : a1 = invMapRaw g1 := by
                unfold invMap at ha1
                by_cases hc : closed g1 = true
                · simp only [hc, if_true, Except.ok.injEq] at ha1; exact ha1.symm
                · simp [hc] at ha1
              have ha2' : a2 = invMapRaw g2 := by
                unfold invMap at ha2
                by_cases hc : closed g2 = true
                · simp only [hc, if_true, Except.ok.injEq] at ha2; exact ha2.symm
                · simp [hc] at ha2
              rw [ha1', dkeys_invMapRaw, mkIsoGraph_keys hg1] at hk1
              obtain ⟨hv1, hi1⟩ := initGraph_eq_nil (dkeys_eq_nil hk1)
              -- … so m1 has neither variables nor predications, and by the size pre-checks neither has m2
              simp only [sizesDiffer, Bool.or_eq_true, bne_iff_ne, ne_eq, not_or, Decidable.not_not] at hsz
              obtain ⟨⟨⟨hr, _⟩, _⟩, hvl⟩ := hsz
              have hr1 : m1.rels.length = 0 := by rw [← ids_length, hi1]; rfl
              have hi2 : m2.ids = [] := by
                apply List.eq_nil_of_length_eq_zero
                rw [ids_length, ← hr, hr1]
              have hv2 : filledVars m2 = [] := by
                apply List.eq_nil_of_length_eq_zero
                rw [← hvl, hv1]; rfl
              have hg2nil : g2 = [] := by
                apply dkeys_eq_nil
                rw [mkIsoGraph_keys hg2]
                simp [initGraph, hi2, hv2, dkeys]
              -- but then the search succeeds at once
              rw [ha2', hg2nil] at hs
              simp [invMapRaw, search] at hs

/-! ## completeness (partial) -/

-- FULL STATEMENT (not proved): IsIsoVia φ g1 g2 → invMap g1 = .ok a1 → invMap g2 = .ok a2 →
--   ∃ μ, search a1 a2 a2.length [] = some μ ∧ accept μ a1 = true
-- Missing: (a) under an isomorphism φ extending the current mapping, the pair (φ⁻¹(m), m) for the
-- chosen m is among `candidates`; (b) each test of `feasible` is necessary under φ (equal degree
-- is the laborious one).  The direct oracle (exhaustive bijection search on ≤ 7 predications)
-- carries this clause.
/-- The search is exhaustive: it never gives up while some candidate of the current state is feasible
and leads on.  `Ext` is any property of partial mappings ("extends to the isomorphism φ") that
always offers a feasible candidate preserving it. -/
theorem completeness_partial (a1 a2 : IsoGraph) (Ext : Mapping → Prop)
    (hstep : ∀ mp, Ext mp → mp.length < a2.length →
      ∃ c ∈ candidates mp a1 a2, feasible mp a1 a2 c.1 c.2 = true ∧ Ext (c :: mp)) :
    ∀ (k : Nat) (mp : Mapping), Ext mp → mp.length + k = a2.length →
      ∃ μ, search a1 a2 k mp = some μ := by
  intro k
  induction k with
  | zero => intro mp _ _; exact ⟨mp, rfl⟩
  | succ k ih =>
    intro mp he hl
    obtain ⟨c, hc, hf, he'⟩ := hstep mp he (by omega)
    obtain ⟨μ', hμ'⟩ := ih (c :: mp) he' (by simp only [List.length_cons]; omega)
    simp only [search]
    cases hfs : (candidates mp a1 a2).findSome?
        (fun c => if feasible mp a1 a2 c.1 c.2 = true then search a1 a2 k (c :: mp) else none) with
    | some μ => exact ⟨μ, rfl⟩
    | none =>
      exfalso
      have := List.findSome?_eq_none_iff.1 hfs c hc
      simp [hf, hμ'] at this

/-! ## "Comparing two bags of MRSs returns counts with unique-test + shared = size of test and
shared + unique-gold = size of gold" -/

/-- for ANY comparison predicate `iso` (so in particular whatever `is_isomorphic` computes) -/
theorem compareBags_partition {α : Type} (iso : α → α → Bool) (test gold : List α) :
    (compareBags iso test gold).1 + (compareBags iso test gold).2.1 = test.length
    ∧ (compareBags iso test gold).2.1 + (compareBags iso test gold).2.2 = gold.length := by
  have := foldl_bagStep_counts iso test ([], [], gold)
  simpa [compareBags, compareBagsLists] using this

/-! ## "a bag compared with a renamed, shuffled copy of itself is entirely shared" -/

/-- greedy first-match is a perfect matching when `iso` is an equivalence relation and every class
has equally many members on both sides -/
theorem compareBags_perfect {α : Type} (iso : α → α → Bool)
    (refl : ∀ a, iso a a = true) (symm : ∀ a b, iso a b = true → iso b a = true)
    (trans : ∀ a b c, iso a b = true → iso b c = true → iso a c = true)
    (test gold : List α) (hcount : ∀ x, test.countP (iso x) = gold.countP (iso x)) :
    compareBags iso test gold = (0, test.length, 0) := by
  simp [compareBags, compareBagsLists, foldl_bagStep_perfect iso refl symm trans test [] [] gold hcount]

/-- the clause as worded: `gold` is a shuffled (`Perm`) list of copies `f t` of the members of `test`,
each copy isomorphic to its original (`f` = renaming variables, reordering predications).  That
`is_isomorphic` is an equivalence relation under which a renamed copy is isomorphic is the
(unproved, oracle-checked) completeness of the matcher. -/
theorem compareBags_renamed_copy {α : Type} (iso : α → α → Bool)
    (refl : ∀ a, iso a a = true) (symm : ∀ a b, iso a b = true → iso b a = true)
    (trans : ∀ a b c, iso a b = true → iso b c = true → iso a c = true)
    (test gold : List α) (f : α → α) (hcopy : ∀ t ∈ test, iso t (f t) = true)
    (hshuffle : (test.map f).Perm gold) :
    compareBags iso test gold = (0, test.length, 0) := by
  apply compareBags_perfect iso refl symm trans
  intro x
  rw [← hshuffle.countP_eq]
  clear hshuffle
  induction test with
  | nil => rfl
  | cons t ts ih =>
    have h := hcopy t List.mem_cons_self
    have hx : iso x t = iso x (f t) := by
      cases hxt : iso x t with
      | true => exact (trans _ _ _ hxt h).symm
      | false =>
        cases hxc : iso x (f t) with
        | false => rfl
        | true =>
          have := trans _ _ _ hxc (symm _ _ h)
          rw [hxt] at this; cases this
    have ih' := ih (fun t ht => hcopy t (List.mem_cons_of_mem _ ht))
    simp only [List.map_cons, List.countP_cons, ih', hx]

/-! ## non-vacuity and regression instances (tests, labelled as such) -/

section Examples

/-- `[p ARG0 e1 ARG1 x2] [q ARG0 x2 ARG1 e1]` (two predications taking each other's variable) -/
def gMutual : IsoGraph :=
  [("h1", [(some "e1", eqScope), (some "x2", eqScope)]),
   ("e1", [(none, "_p_v_1".toList), (some "e1", "ARG0".toList), (some "x2", "ARG1".toList)]),
   ("x2", [(none, "_q_n_1".toList), (some "x2", "ARG0".toList), (some "e1", "ARG1".toList)])]

/-- the same without q's ARG1 (witness of the repaired finding F24) -/
def gMutualDropped : IsoGraph :=
  [("h1", [(some "e1", eqScope), (some "x2", eqScope)]),
   ("e1", [(none, "_p_v_1".toList), (some "e1", "ARG0".toList), (some "x2", "ARG1".toList)]),
   ("x2", [(none, "_q_n_1".toList), (some "x2", "ARG0".toList)])]

/-- a renamed copy of `gMutual` -/
def gMutualRenamed : IsoGraph :=
  [("x7", [(none, "_q_n_1".toList), (some "x7", "ARG0".toList), (some "e9", "ARG1".toList)]),
   ("h4", [(some "x7", eqScope), (some "e9", eqScope)]),
   ("e9", [(none, "_p_v_1".toList), (some "e9", "ARG0".toList), (some "x7", "ARG1".toList)])]

-- the hypotheses of `matcher_sound` are satisfiable and its conclusion is reached
example : cleanGraph gMutual = true ∧ cleanGraph gMutualRenamed = true := by decide
example : (invMap gMutual).toOption.isSome = true := by decide
example : accept (vf2 (invMapRaw gMutual) (invMapRaw gMutualRenamed)) (invMapRaw gMutual) = true := by decide
-- F24 regression: after the repair the two edges between e1 and x2 carry both labels and the
-- structure with the dropped argument is rejected, in both argument orders
example : vf2 (invMapRaw gMutual) (invMapRaw gMutualDropped) = [] := by decide
example : vf2 (invMapRaw gMutualDropped) (invMapRaw gMutual) = [] := by decide
example : edge (invMapRaw gMutual) "e1" (some "x2") = some "ARG1 --ARG1".toList := by decide
-- F25 regression: self-loop labels are compared
example : vf2 (invMapRaw [("x1", [(none, ['p']), (some "x1", "ARG0 ARG1".toList)])])
              (invMapRaw [("x1", [(none, ['p']), (some "x1", "ARG0 ARG2".toList)])]) = [] := by decide
-- why clean labels are assumed: a role literally named `--B` makes two different structures
-- produce the same augmented label
example : combine (some "+A --B".toList) none = combine (some "+A".toList) (some "B".toList) := by decide
-- greedy bag comparison on numbers modulo 3
example : compareBags (fun a b : Nat => a % 3 == b % 3) [1, 2, 4, 9] [7, 3, 5, 5] = (1, 3, 1) := by decide

/-- node `b` (a predication) has the roles `+A` and `--B`, both to `a` -/
def gUnclean1 : IsoGraph :=
  [("b", [(none, ['p']), (some "a", "+A --B".toList)]), ("a", [(none, ['x'])])]
/-- `b` has the role `+A` to `a`, and `a` has the role `B` to `b` -/
def gUnclean2 : IsoGraph :=
  [("b", [(none, ['p']), (some "a", "+A".toList)]), ("a", [(none, ['x']), (some "b", "B".toList)])]

/-- The side condition `cleanGraph` of the soundness theorems cannot be dropped: with a role literally
named `--B` (next to `+A`, which sorts before it) two different structures receive the same augmented
label on the only edge the matcher compares; the returned mapping is complete and accepted although
the edge `a → b` exists on one side only.  (Real code: `is_isomorphic` answers `True` on
`[p ARG0 x9, +A e1, --B e1][q ARG0 e1]` vs `[p ARG0 x9, +A e1][q ARG0 e1, B x9]`.) -/
theorem cleanLabels_needed :
    accept (vf2 (invMapRaw gUnclean1) (invMapRaw gUnclean2)) (invMapRaw gUnclean1) = true
    ∧ (vf2 (invMapRaw gUnclean1) (invMapRaw gUnclean2)).length = gUnclean2.length
    ∧ edge gUnclean1 "a" (some "b") ≠ edge gUnclean2 "a" (some "b")
    ∧ cleanGraph gUnclean1 = false := by decide

end Examples

end Verif.C06
