import Verif.C06.Model
namespace Verif.C06
theorem stub : (1 : Nat) = 1 := rfl
end Verif.C06
