/-
C06 — property theorems about the ITERATIVE matcher `util._vf2` as the code writes it (Iter.lean):
the explicit-stack loop terminates on every pair of graphs and returns exactly the mapping of the depth-first
recursion `vf2` that Props.lean / Complete.lean / Faithful.lean reason about, so every theorem stated there for
`vf2` / `isIsomorphic` holds for the loop; and the `r_new` look-ahead of `_vf2_feasible` never rejects.

Property sentence: "… on small structures its verdict equals that of an exhaustive search for a structure-preserving
bijection …" — the verdict is `set(_vf2(g1, g2)) == set(g1)`; these theorems remove the assumption that the recursion
describes the loop.
-/
import Verif.C06.IterLemmas

namespace Verif.C06
open Verif.Sem

/-- `_vf2_new(mapping, g, a)` is the empty set for every mapping, graph and node (its guard tests the start node
`a` where `a_` is meant: `a == cur` holds on the first and only round). -/
theorem vf2New_empty (mapped : Node → Bool) (g : IsoGraph) (a : Node) : vf2New mapped g a = [] :=
  vf2New_nil mapped g a

/-- … with any fuel of at least two rounds (the fuel in `vf2New` is no restriction). -/
theorem vf2NewLoop_empty (mapped : Node → Bool) (g : IsoGraph) (a : Node) (f : Nat) :
    vf2NewLoop mapped g a (f + 2) [a] [] = some [] :=
  vf2NewLoop_start mapped g a f

/-- `_vf2_feasible` as written (with the `r_new` test) decides what the model's `feasible` decides. -/
theorem feasibleCode_eq (mp : Mapping) (g1 g2 : IsoGraph) (n m : Node) :
    feasibleCode mp g1 g2 n m = feasible mp g1 g2 n m :=
  feasibleCode_eq_feasible mp g1 g2 n m

/-- **The loop of `_vf2` terminates and computes the recursion.**  For all graphs there is a number of rounds
after which the stack machine has halted, without `KeyError` / `IndexError`, with the mapping `vf2 g1 g2`. -/
theorem vf2Iter_terminates_eq_vf2 (g1 g2 : IsoGraph) :
    ∃ n, ∀ f, vf2Iter g1 g2 (n + f) = some (.ok (vf2 g1 g2)) := by
  unfold vf2Iter initState vf2
  cases hk : g2.length with
  | zero =>
    refine ⟨1, fun f => ?_⟩
    rw [Nat.add_comm, iterRun]
    simp [step, hk, search]
  | succ k =>
    have hlen : ([] : Mapping).length + (k + 1) = g2.length := by simp [hk]
    obtain ⟨h1, h2⟩ := machine_tryList g1 g2 k [] (candidates [] g1 g2) none [] hlen (by simp)
    rw [search_succ]
    cases ht : tryList g1 g2 k [] (candidates [] g1 g2) with
    | some r => exact h1 r ht
    | none =>
      have hd : step g1 g2 ⟨[], none, [], []⟩ = .done (.ok []) := by
        simp [step, hk, popFeasible]
      exact (h2 ht).halts (halts_of_step hd)

/-- Whatever fuel lets the machine halt, the answer is `vf2 g1 g2`: the result does not depend on the fuel. -/
theorem vf2Iter_unique (g1 g2 : IsoGraph) (f : Nat) (r : Except IterErr Mapping)
    (h : vf2Iter g1 g2 f = some r) : r = .ok (vf2 g1 g2) := by
  obtain ⟨n, hn⟩ := vf2Iter_terminates_eq_vf2 g1 g2
  have h1 := iterRun_mono g1 g2 f (initState g1 g2) r h n
  have h2 := hn f
  unfold vf2Iter at h2
  rw [Nat.add_comm] at h1
  rw [h1] at h2
  exact Option.some.inj h2

/-- `is_isomorphic` with the loop in place of the recursion: for every fuel on which the loop halts, the verdict
`set(iso) == set(g1)` computed from the loop's mapping is the verdict of `isIsomorphic`. -/
theorem isIsomorphic_via_loop (properties : Bool) (m1 m2 : MRS) (g1 g2 a1 a2 : IsoGraph)
    (hs : sizesDiffer m1 m2 = false)
    (hg1 : mkIsoGraph properties m1 = .ok g1) (hg2 : mkIsoGraph properties m2 = .ok g2)
    (ha1 : invMap g1 = .ok a1) (ha2 : invMap g2 = .ok a2)
    (f : Nat) (r : Except IterErr Mapping) (h : vf2Iter a1 a2 f = some r) :
    ∃ mp, r = .ok mp ∧ isIsomorphic properties m1 m2 = .ok (accept mp a1) := by
  refine ⟨vf2 a1 a2, vf2Iter_unique a1 a2 f r h, ?_⟩
  unfold isIsomorphic
  simp [hs, hg1, hg2, ha1, ha2, bind, Except.bind]

/-- non-vacuity: the loop on two one-edge graphs halts within 5 rounds with the two-pair mapping of `vf2`;
two rounds are not enough -/
example :
    let g : IsoGraph := [("a", [(none, ['p']), (some "b", ['x'])]), ("b", [(some "a", ['-', '-', 'x'])])]
    (match vf2Iter g g 5 with
      | some (.ok mp) => mp == vf2 g g && mp.length == 2
      | _ => false) = true
    ∧ (vf2Iter g g 2).isNone = true := by
  decide

end Verif.C06
